#!/usr/bin/env python3
"""eval_neutral.py <out-dir> <tag> [PID ...]
Behaviour-preserving refactorings (<out>/<i>/patch.diff, meta.json): apply each to /repo, run
the quick checks (all, or the listed ones), undo it, and record under neutral/<tag>-<i>/ which
checks stayed quiet and which reported something (a report here is either the accepted cost
`no-failing-input-found` of a harmless rewrite the extractor/model does not recognise, or a
false alarm that has to be corrected)."""
import json, os, shutil, subprocess, sys
os.environ["VERIF_SCRATCH_EVIDENCE"] = "1"   # evidence of runs against a modified /repo goes under .work/
ROOT = os.path.dirname(os.path.dirname(os.path.abspath(__file__)))
out, tag = sys.argv[1], sys.argv[2]
pids = [a for a in sys.argv[3:] if not a.startswith("--")] or [f"C{i:02d}" for i in range(1, 21)]
for i in sorted(os.listdir(out)):
    d = os.path.join(out, i)
    patch = os.path.join(d, "patch.diff")
    if not os.path.isfile(patch):
        continue
    meta = json.load(open(os.path.join(d, "meta.json")))
    if os.path.exists(os.path.join(ROOT, "neutral", f"{tag}-{i}", "meta.json")) and "--redo" not in sys.argv:
        continue
    if subprocess.run(["git", "-C", "/repo", "apply", "--check", patch], capture_output=True).returncode != 0:
        print(f"{tag}-{i}: does not apply")
        continue
    subprocess.run(["git", "-C", "/repo", "apply", patch], check=True)
    res = {}
    try:
        for pid in pids:
            r = subprocess.run([os.path.join(ROOT, "check"), pid, "--tier", "quick"], capture_output=True, text=True, timeout=3600)
            lines = r.stdout.splitlines()
            viol = [l for l in lines if l.startswith("VIOLATION")]
            detail = [l.strip()[8:] for l in lines if l.startswith("[check]   ")][:3]
            if r.returncode == 0 and not viol:
                res[pid] = "quiet"
            elif viol and all("no-failing-input-found" in v for v in viol):
                res[pid] = "no-failing-input-found: " + "; ".join(x[:200] for x in detail)
            else:
                res[pid] = "ALARM rc=%d: " % r.returncode + "; ".join(x[:200] for x in detail)
    finally:
        subprocess.run(["git", "-C", "/repo", "checkout", "--", "."], check=True)
        subprocess.run(["git", "-C", "/repo", "clean", "-fdq"], check=False)
    dst = os.path.join(ROOT, "neutral", f"{tag}-{i}")
    os.makedirs(dst, exist_ok=True)
    shutil.copy(patch, dst)
    meta["checks"] = res
    json.dump(meta, open(os.path.join(dst, "meta.json"), "w"), indent=1)
    loud = {k: v for k, v in res.items() if v != "quiet"}
    print(f"{tag}-{i}: {len(res) - len(loud)} quiet, {len(loud)} reporting :: {meta.get('summary', '')[:100]}")
    for k, v in loud.items():
        print("    ", k, v[:220])
subprocess.run(["git", "-C", ROOT, "checkout", "--", "evidence"], check=False)
subprocess.run([os.path.join(ROOT, "harness", "bin", "extract")], cwd=ROOT, check=False, stdout=subprocess.DEVNULL)
