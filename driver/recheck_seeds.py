#!/usr/bin/env python3
"""recheck_seeds.py [--only-missed] [SEED-ID ...]
Re-run the registered quick check against recorded seeded changes: for each seeded/<id>/
apply patch.diff to /repo, run ./check <PID> --tier quick, undo the patch, update meta.json
(detected / only_no_failing_input / detected_by / check_summary).  With no ids: every seed.
Leaves /repo clean, restores evidence/ and the regenerated Gen tables afterwards.
Also (re)writes seeded/SUMMARY.md."""
import json, os, subprocess, sys
os.environ["VERIF_SCRATCH_EVIDENCE"] = "1"   # evidence of runs against a modified /repo goes under .work/
ROOT = os.path.dirname(os.path.dirname(os.path.abspath(__file__)))
SEEDED = os.path.join(ROOT, "seeded")


def ids():
    out = [d for d in os.listdir(SEEDED) if os.path.isfile(os.path.join(SEEDED, d, "patch.diff"))]
    return sorted(out, key=lambda s: (s.split("-")[0], int(s.split("-")[1])))


def recheck(sid):
    d = os.path.join(SEEDED, sid)
    pid = sid.split("-")[0]
    mp = os.path.join(d, "meta.json")
    meta = json.load(open(mp))
    patch = os.path.join(d, "patch.diff")
    chk = subprocess.run(["git", "-C", "/repo", "apply", "--check", patch], capture_output=True, text=True)
    use_patch = False
    if chk.returncode != 0:
        # context moved by a later hook/fix commit: try with fuzz
        dry = subprocess.run(["patch", "-p1", "--dry-run", "-F3", "--no-backup-if-mismatch", "-i", patch],
                             cwd="/repo", capture_output=True, text=True)
        use_patch = dry.returncode == 0
    if chk.returncode != 0 and not use_patch:
        meta["applies"] = False
        meta["detected_by"] = "patch no longer applies to the repaired tree: " + chk.stderr.strip()[:160]
        json.dump(meta, open(mp, "w"), indent=1)
        print(f"{sid}: does not apply")
        return
    meta["applies"] = True
    if use_patch:
        subprocess.run(["patch", "-p1", "-F3", "--no-backup-if-mismatch", "-i", patch], cwd="/repo", check=True,
                       capture_output=True)
        meta["applied_with_fuzz"] = True
    else:
        subprocess.run(["git", "-C", "/repo", "apply", patch], check=True)
    try:
        r = subprocess.run([os.path.join(ROOT, "check"), pid, "--tier", "quick"], capture_output=True, text=True, timeout=3600)
    finally:
        subprocess.run(["git", "-C", "/repo", "checkout", "--", "."], check=True)
        subprocess.run(["git", "-C", "/repo", "clean", "-fdq"], check=False)
    lines = r.stdout.splitlines()
    viol = [l for l in lines if l.startswith("VIOLATION")]
    detail = [l.strip()[8:] for l in lines if l.startswith("[check]   ")][:4]
    detected = r.returncode == 1 and bool(viol)
    nofail = all("no-failing-input-found" in v for v in viol) if viol else False
    if meta.get("invalid"):
        pass
    meta.update({"detected": detected, "only_no_failing_input": nofail,
                 "detected_by": "; ".join(x[:240] for x in detail) if detected else "NOT DETECTED",
                 "check_summary": lines[-1] if lines else ""})
    json.dump(meta, open(mp, "w"), indent=1)
    print(f"{sid}: detected={detected} nofail-only={nofail} :: {(detail or [''])[0][:150]}")


def summary():
    rows = []
    tot = conc = nf = miss = inv = 0
    for sid in ids():
        m = json.load(open(os.path.join(SEEDED, sid, "meta.json")))
        if m.get("invalid") or m.get("applies") is False:
            st = "n/a (" + (m.get("invalid") or "no longer applies") + ")"
            inv += 1
        elif m.get("detected") and not m.get("only_no_failing_input"):
            st = "concrete replay"
            conc += 1
        elif m.get("detected"):
            st = "proof obligation / table only (no-failing-input-found)"
            nf += 1
        else:
            st = "MISSED"
            miss += 1
        tot += 1
        by = (m.get("detected_by") or "").replace("|", "/").replace("\n", " ")[:150]
        rows.append(f"| {sid} | {(m.get('summary') or '').replace('|', '/')[:140]} | {st} | {by} |")
    with open(os.path.join(SEEDED, "SUMMARY.md"), "w") as f:
        f.write("# Seeded changes and what the registered quick checks report for each\n\n")
        f.write("Written by driver/recheck_seeds.py from seeded/*/meta.json.  Every change was produced by a\n"
                "sub-agent that saw only the property text, compiles, passes the 82 baseline tests, and comes\n"
                "with a demonstration that fails with the change and passes without it (confirmed in a scratch\n"
                "worktree by driver/confirm_seed.sh).\n\n")
        f.write(f"Total {tot}: concrete replay {conc}, obligation/table only {nf}, missed {miss}, not applicable {inv}.\n\n")
        f.write("| seed | change | verdict of `./check <PID> --tier quick` | first report line |\n|---|---|---|---|\n")
        f.write("\n".join(rows) + "\n")
    print(f"SUMMARY: total {tot} concrete {conc} obligation-only {nf} missed {miss} n/a {inv}")


if __name__ == "__main__":
    args = [a for a in sys.argv[1:] if not a.startswith("--")]
    only_missed = "--only-missed" in sys.argv
    if "--summary" not in sys.argv:
        todo = args or ids()
        for sid in todo:
            if only_missed:
                m = json.load(open(os.path.join(SEEDED, sid, "meta.json")))
                if m.get("detected") and not m.get("only_no_failing_input"):
                    continue
            recheck(sid)
        subprocess.run(["git", "-C", ROOT, "checkout", "--", "evidence"], check=False)
        subprocess.run([os.path.join(ROOT, "harness", "bin", "extract")], cwd=ROOT, check=False,
                       stdout=subprocess.DEVNULL)
    summary()
