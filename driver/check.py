#!/usr/bin/env python3
"""Orchestrates one property check (see DESIGN.md section 0):
 regenerate Gen tables from /repo -> re-check the Lean proofs + axiom audit ->
 correspondence (real code vs compiled Lean model on the same op lines) ->
 property oracle on the real code -> decision, replay files, evidence."""
import argparse, concurrent.futures, contextlib, fcntl, fnmatch, json, os, re, shutil, subprocess, sys, time

ROOT = os.path.dirname(os.path.dirname(os.path.abspath(__file__)))
LEAN = os.path.join(ROOT, "lean")
HARN = os.path.join(ROOT, "harness")
WORK = os.path.join(ROOT, ".work")
# evaluations of seeded / behaviour-preserving changes (driver/eval_*.py, recheck_seeds.py) run the
# checks against a deliberately modified /repo: their evidence must not replace the evidence of
# the unchanged tree, so they set VERIF_SCRATCH_EVIDENCE=1 and it goes under .work/
EVDIR = os.path.join(".work", "evidence-scratch") if os.environ.get("VERIF_SCRATCH_EVIDENCE") else "evidence"
REPO = os.environ.get("VERIF_REPO", "/repo")
ALLOWED_AXIOMS = {"propext", "Classical.choice", "Quot.sound"}
FORBIDDEN = re.compile(r"\bsorry\b|\badmit\b|^\s*axiom\s|native_decide|bv_decide|implemented_by|\bunsafe\s|maxHeartbeats\s+0\b")

sys.path.insert(0, os.path.dirname(os.path.abspath(__file__)))
from props import PROPS  # noqa: E402

GOENV = dict(os.environ, GOFLAGS="-mod=mod", GOPROXY="off", GOSUMDB="off", GOTOOLCHAIN="local",
             CGO_ENABLED="0")


@contextlib.contextmanager
def build_lock():
    """serialises the steps that write shared build outputs (Gen tables, lake, go build) so
    that several checks may run at the same time"""
    os.makedirs(WORK, exist_ok=True)
    with open(os.path.join(WORK, "build.lock"), "w") as f:
        fcntl.flock(f, fcntl.LOCK_EX)
        try:
            yield
        finally:
            fcntl.flock(f, fcntl.LOCK_UN)


def run(cmd, cwd=None, env=None, timeout=None, stdin=None, stdout=subprocess.PIPE):
    return subprocess.run(cmd, cwd=cwd, env=env, timeout=timeout, stdin=stdin, stdout=stdout,
                          stderr=subprocess.STDOUT, text=True)


def log(msg):
    print(f"[check] {msg}", flush=True)


# ---------------------------------------------------------------- build steps
def go_build(target, out, tags="verif"):
    # go.sum must follow /repo's
    src = os.path.join(REPO, "go.sum")
    dst = os.path.join(HARN, "go.sum")
    if os.path.exists(src):
        try:
            have = open(dst).read() if os.path.exists(dst) else ""
            want = open(src).read()
            if not set(want.splitlines()) <= set(have.splitlines()):
                open(dst, "w").write(want + have)
        except OSError:
            pass
    modfile = os.path.join(HARN, "go.mod")
    cmd = ["go", "build", "-tags", tags, "-o", out, target]
    if REPO != "/repo":
        # alternate module file pointing at another checkout (development only)
        alt = os.path.join(WORK, "go.alt.mod")
        os.makedirs(WORK, exist_ok=True)
        txt = open(modfile).read().replace("=> /repo", "=> " + REPO)
        open(alt, "w").write(txt)
        shutil.copy(dst, os.path.join(WORK, "go.alt.sum"))
        cmd = ["go", "build", "-modfile", alt, "-tags", tags, "-o", out, target]
    if os.path.exists(out):
        os.remove(out)  # never run a stale binary
    r = run(cmd, cwd=HARN, env=GOENV, timeout=600)
    return r.returncode == 0, r.stdout


def extract():
    ok, out = go_build("./cmd/extract", os.path.join(HARN, "bin", "extract"), tags="")
    if not ok:
        return False, out
    r = run([os.path.join(HARN, "bin", "extract"), "-repo", REPO, "-out",
             os.path.join(LEAN, "Storrent", "Gen")], timeout=120)
    return r.returncode == 0, r.stdout


def lake_build(targets):
    r = run(["lake", "build"] + targets, cwd=LEAN, timeout=3600)
    return r.returncode == 0, r.stdout


def theorems_of(files, pid):
    names = []
    for f in files:
        txt = open(os.path.join(LEAN, f)).read()
        # drop block comments (incl. doc comments; nesting handled by repetition) and line comments
        prev = None
        while prev != txt:
            prev = txt
            txt = re.sub(r"/-(?:(?!/-|-/).)*-/", lambda m: "\n" * m.group(0).count("\n"), txt, flags=re.S)
        txt = re.sub(r"--.*", "", txt)
        ns = None
        for line in txt.splitlines():
            m = re.match(r"namespace\s+(\S+)", line)
            if m:
                ns = m.group(1)
            m = re.match(r"\s*(?:private\s+)?theorem\s+(" + pid + r"_\w+)", line)
            if m:
                names.append((ns + "." if ns else "") + m.group(1))
    # de-duplicate, keep order
    seen, out = set(), []
    for n in names:
        if n not in seen:
            seen.add(n)
            out.append(n)
    return out


def audit_axioms(pid, module, thms):
    d = os.path.join(LEAN, ".audit")
    os.makedirs(d, exist_ok=True)
    p = os.path.join(d, f"{pid}.lean")
    with open(p, "w") as f:
        f.write(f"import {module}\n")
        for t in thms:
            f.write(f"#print axioms {t}\n")
    r = run(["lake", "env", "lean", p], cwd=LEAN, timeout=1200)
    res = {}
    cur = None
    txt = r.stdout
    for m in re.finditer(r"'([^']+)' depends on axioms: \[([^\]]*)\]|'([^']+)' does not depend on any axioms", txt):
        if m.group(1):
            res[m.group(1)] = [a.strip() for a in m.group(2).replace("\n", " ").split(",") if a.strip()]
        else:
            res[m.group(3)] = []
    return res, txt


def forbidden_tokens():
    hits = []
    for dp, _, fs in os.walk(os.path.join(LEAN, "Storrent")):
        for fn in fs:
            if not fn.endswith(".lean"):
                continue
            p = os.path.join(dp, fn)
            txt = open(p).read()
            # strip block comments and line comments
            txt2 = re.sub(r"/-.*?-/", lambda m: "\n" * m.group(0).count("\n"), txt, flags=re.S)
            for i, line in enumerate(txt2.splitlines(), 1):
                line = line.split("--")[0]
                if FORBIDDEN.search(line):
                    hits.append(f"{os.path.relpath(p, LEAN)}:{i}: {line.strip()}")
    return hits


# ---------------------------------------------------------------- known findings
def known_findings(pid):
    out = []
    p = os.path.join(ROOT, "known-findings.txt")
    if not os.path.exists(p):
        return out
    for line in open(p):
        line = line.strip()
        m = re.match(r"finding:\s+property=(\S+)\s+kind=(\S+)\s*(.*)", line)
        if m and m.group(1) == pid:
            out.append((m.group(2), m.group(3)))
    return out


# ---------------------------------------------------------------- one harness+model run
def run_stream(pid, cfg, seed, n, tier, workdir, replay=None):
    """returns dict(report=..., diffs=[(lineno, op, impl, model)], error=None|str, lines=int)"""
    os.makedirs(workdir, exist_ok=True)
    for f in ("ops.txt", "impl.out", "model.out", "oracle.json"):
        fp = os.path.join(workdir, f)
        if os.path.exists(fp):
            os.remove(fp)
    hbin = os.path.join(HARN, "bin", cfg["harness"])
    cmd = [hbin, "-seed", str(seed), "-n", str(n), "-tier", tier, "-out", workdir]
    if replay:
        cmd += ["-replay", replay]
    env = dict(os.environ, GOMEMLIMIT=cfg.get("gomemlimit", "8GiB"))
    # a quick stream takes about a minute on the unchanged tree; one that needs more than
    # 15 minutes (thorough: 60) means the real code hangs or spins where no per-op watchdog sits
    tmo = cfg.get("harness_timeout", 900 if tier == "quick" else 3600)
    try:
        r = run(cmd, env=env, timeout=tmo)
    except subprocess.TimeoutExpired:
        ops = []
        try:
            ops = open(os.path.join(workdir, "ops.txt")).read().split("\n")[:-1]
        except OSError:
            pass
        rp = cfg.get("reset_prefixes")
        start = max(0, len(ops) - 5)
        if rp and ops:
            start = len(ops) - 1
            while start > 0 and not any(ops[start].startswith(p) for p in rp):
                start -= 1
        crash = dict(msg=f"hang: the harness process did not finish within {tmo}s", ops=ops[start:],
                     stack=["the ops are those written before the process was killed (buffered: the op being executed may be a later one)"])
        return dict(error="harness timed out", report=None, diffs=[], lines=0, crash=crash)
    if r.returncode != 0 or not os.path.exists(os.path.join(workdir, "oracle.json")):
        crash = None
        m = re.search(r"^(panic: .*|fatal error: .*|SIGSEGV.*|unexpected signal.*)$", r.stdout, re.M)
        if m and not replay:
            # the process died inside the real code: run it again flushing every line, so
            # that the ops up to the crash are the replay
            try:
                run(cmd, env=dict(env, VH_FLUSH="1"), timeout=cfg.get("harness_timeout", 3000))
                ops = open(os.path.join(workdir, "ops.txt")).read().split("\n")
                if ops and ops[-1] == "":
                    ops.pop()
                rp = cfg.get("reset_prefixes")
                start = len(ops) - 1
                if rp:
                    while start > 0 and not any(ops[start].startswith(p) for p in rp):
                        start -= 1
                else:
                    start = max(0, len(ops) - 5)
                stack = [l for l in r.stdout.splitlines() if "/repo/" in l or "storrent" in l][:6]
                crash = dict(msg=m.group(1)[:300], ops=ops[start:], stack=stack)
            except Exception:
                crash = dict(msg=m.group(1)[:300], ops=[], stack=[])
        return dict(error="harness failed: " + r.stdout[-2000:], report=None, diffs=[], lines=0, crash=crash)
    report = json.load(open(os.path.join(workdir, "oracle.json")))
    diffs, lines = [], 0
    if cfg.get("exe"):
        mbin = os.path.join(LEAN, ".lake", "build", "bin", cfg["exe"])
        with open(os.path.join(workdir, "ops.txt")) as fin, open(os.path.join(workdir, "model.out"), "w") as fout:
            try:
                mr = subprocess.run([mbin], stdin=fin, stdout=fout, stderr=subprocess.PIPE, text=True,
                                    timeout=cfg.get("model_timeout", 3000))
            except subprocess.TimeoutExpired:
                return dict(error="model driver timed out", report=report, diffs=[], lines=0)
        if mr.returncode != 0:
            return dict(error="model driver failed: " + mr.stderr[-2000:], report=report, diffs=[], lines=0)
        with open(os.path.join(workdir, "ops.txt")) as fo, open(os.path.join(workdir, "impl.out")) as fi, \
                open(os.path.join(workdir, "model.out")) as fm:
            ops = fo.read().split("\n")
            impl = fi.read().split("\n")
            model = fm.read().split("\n")
        if ops and ops[-1] == "":
            ops.pop()
        if impl and impl[-1] == "":
            impl.pop()
        if model and model[-1] == "":
            model.pop()
        lines = len(ops)
        if len(model) != len(impl):
            diffs.append((min(len(model), len(impl)) + 1, "<stream length>", f"{len(impl)} lines", f"{len(model)} lines"))
        for i in range(min(len(impl), len(model))):
            if impl[i] != model[i]:
                diffs.append((i + 1, ops[i] if i < len(ops) else "?", impl[i], model[i]))
                if len(diffs) >= 50:
                    break
    return dict(error=None, report=report, diffs=diffs, lines=lines)


def case_of(workdir, lineno, reset_prefixes):
    """the op lines of the case containing line `lineno` (cases start at a reset op)"""
    ops = open(os.path.join(workdir, "ops.txt")).read().split("\n")
    i = lineno - 1
    if not reset_prefixes:
        return [ops[i]]
    start = i
    while start > 0 and not any(ops[start].startswith(p) for p in reset_prefixes):
        start -= 1
    return ops[start:i + 1]


def trunc(s, n=2000):
    return s if len(s) <= n else s[:n] + "…"


# ---------------------------------------------------------------- main
def main():
    ap = argparse.ArgumentParser()
    ap.add_argument("prop")
    ap.add_argument("--tier", default=os.environ.get("VERIF_TIER", "quick"), choices=["quick", "thorough"])
    ap.add_argument("--replay")
    ap.add_argument("--n", type=int)
    args = ap.parse_args()
    pid = args.prop
    if pid not in PROPS:
        print(f"unknown property {pid}")
        sys.exit(2)
    cfg = PROPS[pid]
    seed = int(os.environ.get("VERIF_SEED", "1"))
    tier = args.tier
    t0 = time.time()
    os.makedirs(os.path.join(ROOT, EVDIR, "replays"), exist_ok=True)
    os.makedirs(WORK, exist_ok=True)
    broken = []      # broken proof obligations / correspondence (strings)
    notes = []

    lock = build_lock()
    lock.__enter__()
    # 1. translator
    ok, out = extract()
    if not ok:
        broken.append("translator: extract failed: " + trunc(out, 500))
        log("extract FAILED\n" + out)

    # 2. proofs
    thms = theorems_of(cfg["prop_files"], pid)
    targets = [cfg["module"]] + ([cfg["exe"]] if cfg.get("exe") else [])
    ok, out = lake_build([cfg["module"]])
    proofs_ok = ok
    build_log = out
    discharged = []
    axioms = {}
    if not ok:
        errs = re.findall(r"error: (\S+?:\d+:\d+): (.*)", out)
        broken.append("proof: lake build %s failed: %s" % (cfg["module"], "; ".join(f"{a} {b}" for a, b in errs[:6])))
        log("lake build FAILED:\n" + trunc(out, 6000))
    else:
        axioms, atxt = audit_axioms(pid, cfg["module"], thms)
        for t in thms:
            if t not in axioms:
                broken.append(f"proof: {t} not found by the axiom audit")
            elif not set(axioms[t]) <= ALLOWED_AXIOMS:
                broken.append(f"proof: {t} depends on inadmissible axioms {axioms[t]}")
            else:
                discharged.append(t)
        hits = forbidden_tokens()
        if hits:
            broken.append("proof: forbidden tokens: " + "; ".join(hits[:5]))
    if cfg.get("exe"):
        ok2, out2 = lake_build([cfg["exe"]])
        if not ok2:
            broken.append("model driver %s does not build" % cfg["exe"])
            log("lake build exe FAILED:\n" + trunc(out2, 4000))
    checker_cmd = f"cd lean && lake build {cfg['module']} && lake env lean .audit/{pid}.lean  # #print axioms"
    if tier == "thorough" and proofs_ok:
        r = run(["lake", "env", "leanchecker", cfg["module"]], cwd=LEAN, timeout=3600)
        if r.returncode != 0:
            broken.append("proof: leanchecker rejected " + cfg["module"] + ": " + trunc(r.stdout, 400))
        else:
            notes.append("leanchecker re-checked " + cfg["module"])
        checker_cmd += f" && lake env leanchecker {cfg['module']}"

    # 3./4. correspondence + oracle
    ok, out = go_build("./cmd/" + cfg["harness"], os.path.join(HARN, "bin", cfg["harness"]))
    extras = []
    for xs in cfg.get("extra_streams", []):
        okx, outx = go_build("./cmd/" + xs["harness"], os.path.join(HARN, "bin", xs["harness"]))
        oky, outy = lake_build([xs["exe"]]) if xs.get("exe") else (True, "")
        if okx and oky:
            extras.append(xs)
        else:
            broken.append(f"extra stream {xs['harness']} does not build: " + trunc(outx + outy, 600))
    lock.__exit__(None, None, None)
    runs = []
    if not ok:
        broken.append("harness does not build against the current tree: " + trunc(out, 800))
        log("go build FAILED:\n" + out)
    elif args.replay:
        rp = json.load(open(args.replay))
        opsf = os.path.join(WORK, pid + "-replay-ops.txt")
        open(opsf, "w").write("\n".join(rp.get("ops", [])) + "\n")
        runs.append((seed, run_stream(pid, cfg, seed, 0, tier, os.path.join(WORK, pid + "-replay"), replay=opsf),
                     os.path.join(WORK, pid + "-replay")))
    else:
        n = args.n or cfg["quick_n" if tier == "quick" else "thorough_n"]
        seeds = [seed] if tier == "quick" else [seed + i for i in range(cfg.get("thorough_seeds", 8))]
        # corpus of minimised past failures runs first
        corpus = os.path.join(HARN, "corpus", pid + ".txt")
        if os.path.exists(corpus):
            wd = os.path.join(WORK, f"{pid}-corpus")
            runs.append((0, run_stream(pid, cfg, seed, 0, tier, wd, replay=corpus), wd))
        with concurrent.futures.ThreadPoolExecutor(max_workers=cfg.get("workers", 8)) as ex:
            futs = []
            for s in seeds:
                wd = os.path.join(WORK, f"{pid}-{tier}-{s}")
                futs.append((s, ex.submit(run_stream, pid, cfg, s, n, tier, wd), wd))
            for s, f, wd in futs:
                runs.append((s, f.result(), wd))

    # extra streams: other properties' harnesses whose oracle also restates a clause of this
    # property (e.g. upload payloads for C01); only the listed violation kinds count here
    extra_runs = []
    if ok and not args.replay:
        for xs in extras:
            xcfg = dict(harness=xs["harness"], exe=xs.get("exe"), reset_prefixes=xs.get("reset_prefixes"))
            n = xs.get("quick_n", 300) if tier == "quick" else xs.get("thorough_n", 3000)
            wd = os.path.join(WORK, f"{pid}-x-{xs['harness']}-{tier}-{seed}")
            extra_runs.append((xs, run_stream(pid, xcfg, seed, n, tier, wd), wd))

    # 5. decision
    kf = known_findings(pid)
    violations = []   # (kind, detail, ops, seed)
    known_hits = {}
    evaluations = distinct = lines = 0
    branches = {}
    samples = []
    rule = ""
    for s, res, wd in runs:
        if res["error"]:
            broken.append(f"correspondence run (seed {s}) failed: {trunc(res['error'], 600)}")
            if res.get("crash"):
                cr = res["crash"]
                kind = "crash:process:" + re.sub(r"[^A-Za-z0-9_.:-]+", "-", cr["msg"])[:80]
                hit = next((k for k in kf if fnmatch.fnmatchcase(kind, k[0])), None)
                if hit:
                    known_hits.setdefault(hit[0], (hit[1], dict(kind=kind)))
                else:
                    violations.append((kind, "the process running the real code died: " + cr["msg"] + " | " + " | ".join(cr["stack"]) +
                                       " | replay = the ops of the last case up to the crash (the fatal op is the next one the generator issues for this seed)",
                                       cr["ops"], s))
            continue
        rep = res["report"]
        evaluations += rep.get("evaluations", 0)
        distinct += rep.get("distinct_nontrivial", 0)
        lines += res["lines"]
        rule = rep.get("rule", rule)
        for k, v in (rep.get("branches") or {}).items():
            branches[k] = branches.get(k, 0) + v
        for smp in rep.get("samples") or []:
            if len(samples) < 12:
                samples.append(smp)
        notes.extend(rep.get("notes") or [])
        for v in rep.get("violations") or []:
            hit = next((k for k in kf if fnmatch.fnmatchcase(v["kind"], k[0])), None)
            if hit:
                known_hits.setdefault(hit[0], (hit[1], v))
            else:
                violations.append((v["kind"], v["detail"], v["ops"], s))
        diffs = res["diffs"]
        nrare = cfg.get("confirm_rare_diffs", 0)
        if nrare and 0 < len(diffs) <= nrare and not args.replay:
            # streams that run real goroutines (hash workers) next to the calls: a divergence that
            # occurs at most `nrare` times in a whole stream may be a schedule the harness did not
            # pin down rather than a difference between model and code.  Confirm it: replay the
            # case three times; a divergence that never reproduces is recorded as a note, a
            # divergence that reproduces once is reported as usual.
            kept = []
            for (ln, op, impl, model) in diffs:
                try:
                    cops = case_of(wd, ln, cfg.get("reset_prefixes"))
                except Exception:
                    cops = None
                again = cops is None
                if cops is not None:
                    rf = os.path.join(WORK, f"{pid}-confirm-{s}-{ln}.txt")
                    open(rf, "w").write("\n".join(cops) + "\n")
                    for k in range(3):
                        rr = run_stream(pid, cfg, seed, 0, tier, os.path.join(WORK, f"{pid}-confirm"), replay=rf)
                        if rr["error"] or rr["diffs"] or (rr["report"] or {}).get("violations"):
                            again = True
                            break
                if again:
                    kept.append((ln, op, impl, model))
                else:
                    notes.append(f"non-reproducible divergence (seed {s} line {ln}, op `{trunc(op, 80)}`): its case replayed 3 times without divergence; recorded, not reported")
            diffs = kept
        for (ln, op, impl, model) in diffs:
            broken.append(f"correspondence: seed {s} line {ln}: op `{trunc(op, 200)}` impl `{trunc(impl, 200)}` model `{trunc(model, 200)}`")
            # a diverging case is also a candidate failing input: keep it as replay material
            try:
                cops = case_of(wd, ln, cfg.get("reset_prefixes"))
            except Exception:
                cops = [op]
            violations_from_diff.append((s, ln, cops, impl, model))
            # for properties whose statement IS agreement with the independent (Lean) codec /
            # reference, a diverging line is itself the concrete failing input
            if cfg.get("diff_is_violation"):
                w = op.split()
                kind = "independent-reference-mismatch:" + ":".join(w[:2 if len(w) > 1 and w[0] == "enc" else 1])
                hit = next((k for k in kf if fnmatch.fnmatchcase(kind, k[0])), None)
                if hit:
                    known_hits.setdefault(hit[0], (hit[1], dict(kind=kind)))
                else:
                    violations.append((kind, f"implementation `{trunc(impl, 300)}` vs independent model `{trunc(model, 300)}`", cops, s))

    for xs, res, wd in extra_runs:
        if res["error"]:
            broken.append(f"extra stream {xs['harness']} failed: {trunc(res['error'], 400)}")
            if res.get("crash"):
                cr = res["crash"]
                kind = xs["harness"] + ":crash:process:" + re.sub(r"[^A-Za-z0-9_.:-]+", "-", cr["msg"])[:80]
                hit = next((k for k in kf if fnmatch.fnmatchcase(kind, k[0])), None)
                if hit:
                    known_hits.setdefault(hit[0], (hit[1], dict(kind=kind)))
                else:
                    violations.append((kind, "the process running the real code died or hung: " + cr["msg"] + " | " + " | ".join(cr["stack"]),
                                       cr["ops"], seed))
            continue
        rep = res["report"]
        evaluations += rep.get("evaluations", 0)
        lines += res["lines"]
        notes.append(f"extra stream {xs['harness']}: {rep.get('evaluations', 0)} cases, {res['lines']} lines, kinds counted here: {xs.get('kinds')}")
        for v in rep.get("violations") or []:
            if not any(fnmatch.fnmatchcase(v["kind"], g) for g in xs.get("kinds", ["*"])):
                continue
            kind = xs["harness"] + ":" + v["kind"]
            hit = next((k for k in kf if fnmatch.fnmatchcase(kind, k[0])), None)
            if hit:
                known_hits.setdefault(hit[0], (hit[1], v))
            else:
                violations.append((kind, v["detail"], v["ops"], seed))

    for k, (desc, v) in sorted(known_hits.items()):
        print(f"KNOWN-FINDING: property={pid} {k} {desc}")

    exit_code = 0
    replay_paths = []

    def write_replay(idx, payload):
        p = os.path.join(ROOT, EVDIR, "replays", f"{pid}-{idx}.json")
        json.dump(payload, open(p, "w"), indent=1)
        return os.path.relpath(p, ROOT)

    if violations:
        # concrete failing inputs on the real code
        seenk = set()
        for (kind, detail, ops, s) in violations:
            if kind in seenk:
                continue
            seenk.add(kind)
            p = write_replay(len(replay_paths) + 1, dict(property=pid, seed=s, family=cfg["harness"], kind=kind,
                                                         detail=detail, ops=ops, broken=broken[:10]))
            replay_paths.append(p)
            print(f"VIOLATION property={pid} replay={p}")
            log(f"  {kind}: {trunc(detail, 300)}")
            if len(replay_paths) >= 10:
                break
        exit_code = 1
    elif broken:
        # a proof obligation or the correspondence no longer checks and the search (the
        # oracle over every generated case, plus the diverging cases) found no failing input
        ops = violations_from_diff[0][2] if violations_from_diff else []
        p = write_replay(1, dict(property=pid, seed=seed, family=cfg["harness"], kind="unchecked",
                                 detail="no failing input found; these obligations no longer check",
                                 broken=broken[:20], ops=ops))
        print(f"VIOLATION property={pid} replay={p} no-failing-input-found")
        for b in broken[:8]:
            log("  broken: " + trunc(b, 400))
        exit_code = 1

    wall = time.time() - t0
    ev = dict(
        property_id=pid, tier=tier, seed=seed, level="proof",
        coverage=dict(
            obligations=len(thms), discharged=len(discharged),
            checker_cmd=checker_cmd,
            trusted_base=["Lean 4.33.0 kernel", "axioms: " + ", ".join(sorted({a for t in discharged for a in axioms.get(t, [])}) or ["none"]),
                          "translator harness/cmd/extract (Go AST -> Gen/*.lean)",
                          "correspondence harness harness/cmd/" + cfg["harness"] + " + lean driver " + str(cfg.get("exe"))] + cfg.get("trusted", []),
            theorems=[dict(name=t, axioms=axioms.get(t)) for t in thms],
            evaluations=evaluations, distinct_nontrivial=distinct, rule=rule,
            samples=samples or ["(no stream run)"], branches=branches,
            traces_validated_against_impl=lines,
            correspondence_diffs=len(violations_from_diff),
            known_findings_hit=sorted(known_hits.keys()),
            broken=broken[:20], notes=notes[:20],
            exhaustive=False,
        ),
        assumptions=cfg.get("assumptions", []),
        wall_s=round(wall, 2), violations=len(violations) + (1 if (broken and not violations) else 0),
    )
    json.dump(ev, open(os.path.join(ROOT, EVDIR, f"{pid}.json"), "w"), indent=1)
    log(f"{pid} {tier}: theorems {len(discharged)}/{len(thms)}, stream lines {lines}, cases {evaluations}, "
        f"diffs {len(violations_from_diff)}, oracle violations {len(violations)}, known {len(known_hits)}, {wall:.1f}s")
    sys.exit(exit_code)


violations_from_diff = []

if __name__ == "__main__":
    main()
