#!/bin/bash
# confirm_seed.sh <seed-dir> <package-dir-for-demo> : confirms in a scratch worktree that
#  (a) the repo builds and its tests pass with the patch (without the demo),
#  (b) the demo fails with the patch, (c) the demo passes without it.
set -u
SD=$(realpath "$1"); PKG="$2"
export GOFLAGS=-mod=mod GOPROXY=off GOSUMDB=off GOTOOLCHAIN=local
WT=$(mktemp -d /tmp/seedwt.XXXXXX); rmdir "$WT"
git -C /repo worktree add -q --detach "$WT" HEAD || exit 2
cd "$WT"
res=""
git apply "$SD/patch.diff" || { echo "patch does not apply"; res="noapply"; }
if [ -z "$res" ]; then
  if go build ./... >/dev/null 2>&1 && go test -count=1 ./... >/tmp/seed_suite.log 2>&1; then a=ok; else a=FAIL; fi
  cp "$SD"/demo*_test.go "$PKG"/ 2>/dev/null
  if go test -count=1 ./"$PKG" >/tmp/seed_demo1.log 2>&1; then b=PASSES-with-patch; else b=fails-with-patch; fi
  git checkout -q -- . 
  if go test -count=1 ./"$PKG" >/tmp/seed_demo2.log 2>&1; then c=passes-clean; else c=FAILS-clean; fi
  res="suite=$a demo:$b,$c"
fi
cd /; git -C /repo worktree remove --force "$WT"
echo "$res"
