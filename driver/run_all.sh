#!/bin/bash
# run every registered check (quick tier by default) and print one summary line each
cd "$(dirname "$0")/.."
TIER=${1:-quick}
for f in driver/props.d/C*.json; do
  p=$(basename $f .json)
  out=$(./check $p --tier $TIER 2>&1)
  rc=$?
  echo "$p rc=$rc $(echo "$out" | grep -c '^VIOLATION') violations | $(echo "$out" | tail -1)"
done
