# per-property configuration of driver/check.py
PROPS = {
    "C04": dict(
        module="Storrent.Props.C04", prop_files=["Storrent/Props/C04.lean"],
        exe="model-c04", harness="c04", quick_n=20000, thorough_n=150000, thorough_seeds=8,
        reset_prefixes=None,
        trusted=["zeebo/bencode is a parameter `bd` of the theorems (any behaviour)"],
        assumptions=["bufio.Reader / io.ReadFull / io.LimitedReader behave as documented",
                     "allocation measured as runtime.MemStats.TotalAlloc delta, bound 128*L+64KiB"],
    ),
    "C06": dict(
        module="Storrent.Props.C06", prop_files=["Storrent/Props/C06.lean"],
        exe="model-c06", harness="c06", quick_n=12000, thorough_n=120000, thorough_seeds=8,
        reset_prefixes=None,
        trusted=["bencoded extension payloads: encoder/decoder pair tied to zeebo/bencode by the correspondence stream only (round-trip theorem covers the fixed-layout messages)"],
        assumptions=["bufio.Reader over io.MultiReader(init, conn) delivers the concatenation of init and the connection's bytes"],
    ),
}
