# per-property configuration of driver/check.py: one JSON file per property in props.d/
import glob, json, os
PROPS = {}
for _f in sorted(glob.glob(os.path.join(os.path.dirname(os.path.abspath(__file__)), "props.d", "C*.json"))):
    PROPS[os.path.basename(_f)[:-5]] = json.load(open(_f))
