#!/usr/bin/env python3
"""Regenerates MANIFEST.json from driver/props.d/*.json (one file per claimed property)
and driver/not_applicable.json."""
import json, os, subprocess, sys
ROOT = os.path.dirname(os.path.dirname(os.path.abspath(__file__)))
sys.path.insert(0, os.path.join(ROOT, "driver"))
from props import PROPS
hooks = []
try:
    out = subprocess.run(["git", "-C", "/repo", "log", "--format=%h %s"], capture_output=True, text=True).stdout
    hooks = [l.split()[0] for l in out.splitlines() if l.split(" ", 1)[1].startswith("verif:")]
except Exception:
    pass
na_path = os.path.join(ROOT, "driver", "not_applicable.json")
na = json.load(open(na_path)) if os.path.exists(na_path) else []
claimed = set(PROPS.keys())
listed = {e["property_id"] for e in na}
for line in open(os.path.join(ROOT, "properties.jsonl")):
    pid = json.loads(line)["id"]
    if pid not in claimed and pid not in listed:
        na.append({"property_id": pid, "reason": "not claimed yet: the Lean model / correspondence stream for this property is still under construction (no technique switch; see DESIGN.md)"})
na = [e for e in na if e["property_id"] not in claimed]
checks = []
for pid, cfg in sorted(PROPS.items()):
    mf = cfg["manifest"]
    checks.append({
        "property_id": pid,
        "quick_cmd": f"./check {pid} --tier quick",
        "thorough_cmd": f"./check {pid} --tier thorough",
        "evidence_file": f"evidence/{pid}.json",
        "replay_cmd_template": f"./check {pid} --replay {{path}}",
        "engine": "lean-proof+correspondence",
        "level_claimed": {"category": "proof", "text": mf["level_text"], "design_ref": mf.get("design_ref", "DESIGN.md section 5 " + pid)},
        "level_note": mf["level_note"],
        "technique": mf["technique"],
    })
m = {
    "version": 1,
    "setup_cmd": "./setup.sh",
    "hooks": {
        "guard": "verif",
        "enable": "go build -tags verif (harness module replaces github.com/jech/storrent => /repo)",
        "baseline_off_cmd": "cd /repo && go build ./... && go test -vet=off -count=1 -timeout 25m ./...",
        "source_commits": hooks,
        "add_only": True,
    },
    "engines": [{
        "name": "lean-proof+correspondence", "path": "check", "serves_properties": sorted(PROPS.keys()),
        "kind_free_text": "Lean 4 theorems about an executable model; model tied to /repo by a Go-AST translator (Gen tables) and by differential execution against the real code through a line protocol; independent property oracle on the real code",
    }],
    "checks": checks,
    "not_applicable": na,
    "notes": "see DESIGN.md; known-findings.txt lists recorded and repaired defects",
}
json.dump(m, open(os.path.join(ROOT, "MANIFEST.json"), "w"), indent=1)
print("MANIFEST.json:", len(checks), "checks")
