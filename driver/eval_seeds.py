#!/usr/bin/env python3
"""eval_seeds.py <PID> <mutant-out-dir> [start-index]
For each <out>/<i>/ (patch.diff, demo_test.go, meta.json): confirm it in a scratch worktree
(driver/confirm_seed.sh), apply it to /repo, run ./check PID --tier quick, undo it, and
record everything under seeded/PID-<n>/."""
import json, os, re, shutil, subprocess, sys
os.environ["VERIF_SCRATCH_EVIDENCE"] = "1"   # evidence of runs against a modified /repo goes under .work/
ROOT = os.path.dirname(os.path.dirname(os.path.abspath(__file__)))
pid, out = sys.argv[1], sys.argv[2]
existing = [int(d.split("-")[1]) for d in os.listdir(os.path.join(ROOT, "seeded")) if d.startswith(pid + "-")]
n = (max(existing) + 1) if existing else 1
if len(sys.argv) > 3:
    n = int(sys.argv[3])
for i in sorted(os.listdir(out)):
    d = os.path.join(out, i)
    if not os.path.isfile(os.path.join(d, "patch.diff")):
        continue
    meta = json.load(open(os.path.join(d, "meta.json")))
    pkg = meta.get("demo_package")
    if not pkg:
        first = open(os.path.join(d, "demo_test.go")).readline()
        m = re.search(r"copy into:\s*(\S+)", first)
        pkg = m.group(1) if m else "."
    conf = subprocess.run([os.path.join(ROOT, "driver", "confirm_seed.sh"), d, pkg], capture_output=True, text=True).stdout.strip().splitlines()[-1]
    chk = subprocess.run(["git", "-C", "/repo", "apply", "--check", os.path.join(d, "patch.diff")], capture_output=True, text=True)
    if chk.returncode != 0:
        print(f"{pid} mutant {i}: patch does not apply to /repo: {chk.stderr.strip()[:200]}")
        continue
    subprocess.run(["git", "-C", "/repo", "apply", os.path.join(d, "patch.diff")], check=True)
    try:
        r = subprocess.run([os.path.join(ROOT, "check"), pid, "--tier", "quick"], capture_output=True, text=True, timeout=3600)
    finally:
        subprocess.run(["git", "-C", "/repo", "checkout", "--", "."], check=True)
        subprocess.run(["git", "-C", "/repo", "clean", "-fdq"], check=False)
    lines = r.stdout.splitlines()
    viol = [l for l in lines if l.startswith("VIOLATION")]
    detail = [l.strip()[8:] for l in lines if l.startswith("[check]   ")][:4]
    detected = r.returncode == 1 and bool(viol)
    nofail = all("no-failing-input-found" in v for v in viol) if viol else False
    dst = os.path.join(ROOT, "seeded", f"{pid}-{n}")
    os.makedirs(dst, exist_ok=True)
    shutil.copy(os.path.join(d, "patch.diff"), dst)
    shutil.copy(os.path.join(d, "demo_test.go"), dst)
    meta.update({"property": pid, "demo_package": pkg, "confirmed": conf,
                 "check_run": f"git -C /repo apply patch.diff; ./check {pid} --tier quick; git -C /repo checkout -- .",
                 "detected": detected, "only_no_failing_input": nofail,
                 "detected_by": "; ".join(d[:240] for d in detail) if detected else "NOT DETECTED",
                 "check_summary": lines[-1] if lines else ""})
    json.dump(meta, open(os.path.join(dst, "meta.json"), "w"), indent=1)
    print(f"{pid}-{n} (mutant {i}): confirm[{conf}] detected={detected} nofail-only={nofail} :: {meta.get('summary','')[:110]}")
    for x in detail[:2]:
        print("     ", x[:200])
    n += 1
