// Package vhlib: shared plumbing of the correspondence harnesses (PRNG, canonical
// output, oracle bookkeeping).  Every random choice of a harness comes from one
// splitmix64 state seeded by -seed so that a disagreement replays exactly.
package vhlib

import (
	"bufio"
	"encoding/hex"
	"encoding/json"
	"flag"
	"fmt"
	"os"
	"path/filepath"
	"sort"
	"strings"
)

type Rand struct{ s uint64 }

// NewRand: the seed is hashed first so that consecutive seeds give unrelated streams (the
// splitmix64 state advances by a constant, so seeding with seed*G would make seed k+1 replay
// seed k shifted by one draw).
func NewRand(seed uint64) *Rand {
	z := seed + 0x632BE59BD9B4E019
	z = (z ^ (z >> 30)) * 0xBF58476D1CE4E5B9
	z = (z ^ (z >> 27)) * 0x94D049BB133111EB
	z ^= z >> 31
	return &Rand{z}
}

func (r *Rand) U64() uint64 {
	r.s += 0x9E3779B97F4A7C15
	z := r.s
	z = (z ^ (z >> 30)) * 0xBF58476D1CE4E5B9
	z = (z ^ (z >> 27)) * 0x94D049BB133111EB
	return z ^ (z >> 31)
}
func (r *Rand) Intn(n int) int {
	if n <= 0 {
		return 0
	}
	return int(r.U64() % uint64(n))
}
func (r *Rand) Bool() bool      { return r.U64()&1 == 1 }
func (r *Rand) Chance(p int) bool { return r.Intn(100) < p } // p percent
func (r *Rand) U32() uint32     { return uint32(r.U64()) }
func (r *Rand) Bytes(n int) []byte {
	b := make([]byte, n)
	for i := range b {
		b[i] = byte(r.U64())
	}
	return b
}
func (r *Rand) PickU32(vs ...uint32) uint32 { return vs[r.Intn(len(vs))] }
func (r *Rand) PickInt(vs ...int) int       { return vs[r.Intn(len(vs))] }

func Hex(b []byte) string {
	if len(b) == 0 {
		return "-"
	}
	return hex.EncodeToString(b)
}

func UnHex(s string) []byte {
	if s == "-" {
		return nil
	}
	b, err := hex.DecodeString(s)
	if err != nil {
		panic(err)
	}
	return b
}

// Fnv64 is the payload digest used in canonical lines for long byte strings.
func Fnv64(b []byte) uint64 {
	h := uint64(14695981039346656037)
	for _, c := range b {
		h ^= uint64(c)
		h *= 1099511628211
	}
	return h
}

// Payload prints short byte strings in hex and long ones as #len:fnv64.
func Payload(b []byte) string {
	if len(b) <= 32 {
		return Hex(b)
	}
	return fmt.Sprintf("#%d:%d", len(b), Fnv64(b))
}

type Violation struct {
	Kind   string   `json:"kind"`   // stable identity: site + input shape
	Detail string   `json:"detail"` // human-readable
	Ops    []string `json:"ops"`    // the op lines that reproduce it
}

type Report struct {
	Family      string         `json:"family"`
	Seed        uint64         `json:"seed"`
	Evaluations int            `json:"evaluations"`
	Distinct    int            `json:"distinct_nontrivial"`
	Rule        string         `json:"rule"`
	Branches    map[string]int `json:"branches"`
	Samples     []string       `json:"samples"`
	Violations  []Violation    `json:"violations"`
	Notes       []string       `json:"notes,omitempty"`
	Exhaustive  bool           `json:"exhaustive,omitempty"`
}

type Ctx struct {
	Seed    uint64
	N       int
	Tier    string
	OutDir  string
	Replay  string
	R       *Rand
	ops     *bufio.Writer
	obs     *bufio.Writer
	opsF    *os.File
	obsF    *os.File
	Rep     Report
	seen    map[string]bool
	NLines  int
	curCase []string
}

// Init parses the common flags and opens ops.txt / impl.out in -out.
func Init(family string) *Ctx {
	seed := flag.Uint64("seed", 1, "PRNG seed")
	n := flag.Int("n", 100, "number of cases")
	tier := flag.String("tier", "quick", "quick|thorough")
	out := flag.String("out", ".", "output directory")
	replay := flag.String("replay", "", "file with op lines to replay instead of generating")
	flag.Parse()
	c := &Ctx{Seed: *seed, N: *n, Tier: *tier, OutDir: *out, Replay: *replay}
	c.R = NewRand(*seed)
	os.MkdirAll(c.OutDir, 0o755)
	var err error
	c.opsF, err = os.Create(filepath.Join(c.OutDir, "ops.txt"))
	if err != nil {
		panic(err)
	}
	c.obsF, err = os.Create(filepath.Join(c.OutDir, "impl.out"))
	if err != nil {
		panic(err)
	}
	c.ops = bufio.NewWriterSize(c.opsF, 1<<20)
	c.obs = bufio.NewWriterSize(c.obsF, 1<<20)
	c.Rep = Report{Family: family, Seed: *seed, Branches: map[string]int{}}
	c.seen = map[string]bool{}
	return c
}

// ReplayLines returns the op lines of the replay file (one per line, '#' comments skipped).
func (c *Ctx) ReplayLines() []string {
	data, err := os.ReadFile(c.Replay)
	if err != nil {
		panic(err)
	}
	var ls []string
	for _, l := range strings.Split(string(data), "\n") {
		l = strings.TrimSpace(l)
		if l == "" || strings.HasPrefix(l, "#") {
			continue
		}
		ls = append(ls, l)
	}
	return ls
}

// NewCase starts a new case (an op sequence replayed from the family's initial state).
func (c *Ctx) NewCase() { c.curCase = c.curCase[:0] }

// Case returns a copy of the op lines of the current case.
func (c *Ctx) Case() []string { return append([]string(nil), c.curCase...) }

// Emit writes one op line and the implementation's observation for it.
func (c *Ctx) Emit(op string, obs string) {
	if strings.ContainsAny(op, "\n\r") || strings.ContainsAny(obs, "\n\r") {
		panic("newline in protocol line")
	}
	c.ops.WriteString(op)
	c.ops.WriteByte('\n')
	c.obs.WriteString(obs)
	c.obs.WriteByte('\n')
	c.NLines++
	c.curCase = append(c.curCase, op)
	if flushEachLine {
		c.ops.Flush()
		c.obs.Flush()
	}
}

// VH_FLUSH=1: flush after every line, so that after a crash of the process (a panic in a
// goroutine of the real code that no recover can catch, a fatal runtime error) ops.txt
// holds everything up to the crash; check.py re-runs a crashed harness this way to obtain
// the replay.
var flushEachLine = os.Getenv("VH_FLUSH") != ""

// Count records a case: tag is the branch it exercised, key its canonical identity.
func (c *Ctx) Count(tag string, key string, nontrivial bool) {
	c.Rep.Evaluations++
	c.Rep.Branches[tag]++
	if nontrivial && !c.seen[key] {
		c.seen[key] = true
		c.Rep.Distinct++
	}
	if len(c.Rep.Samples) < 12 && c.Rep.Branches[tag] == 1 {
		s := key
		if len(s) > 300 {
			s = s[:300] + "…"
		}
		c.Rep.Samples = append(c.Rep.Samples, tag+": "+s)
	}
}

func (c *Ctx) Violate(kind, detail string, ops []string) {
	if len(c.Rep.Violations) >= 200 {
		return
	}
	for i := range ops {
		if len(ops[i]) > 4096 {
			ops[i] = ops[i][:4096] + "…"
		}
	}
	c.Rep.Violations = append(c.Rep.Violations, Violation{kind, detail, ops})
}

func (c *Ctx) Note(s string) { c.Rep.Notes = append(c.Rep.Notes, s) }

// Close flushes everything and writes oracle.json.
func (c *Ctx) Close() {
	c.ops.Flush()
	c.obs.Flush()
	c.opsF.Close()
	c.obsF.Close()
	keys := make([]string, 0, len(c.Rep.Branches))
	for k := range c.Rep.Branches {
		keys = append(keys, k)
	}
	sort.Strings(keys)
	data, _ := json.MarshalIndent(c.Rep, "", " ")
	os.WriteFile(filepath.Join(c.OutDir, "oracle.json"), data, 0o644)
}

// Recover runs f and reports a panic as a string ("" if none).
func Recover(f func()) (p string) {
	defer func() {
		if r := recover(); r != nil {
			p = fmt.Sprint(r)
		}
	}()
	f()
	return ""
}
