// Package metaline: what the C12 and C13 harnesses share — the line encoding of a
// tor.BInfo (input of the Lean model of MetadataComplete), the canonical rendering of the
// geometry a real Torrent ended up with, error classes, and a builder of info
// dictionaries of an exact size.
package metaline

import (
	"fmt"
	"strconv"
	"strings"

	"github.com/jech/storrent/path"
	"github.com/jech/storrent/tor"

	"verifharness/vhlib"
)

func pathTok(p path.Path) string {
	if p == nil {
		return "~"
	}
	if len(p) == 0 {
		return "."
	}
	cs := make([]string, len(p))
	for i, c := range p {
		cs[i] = vhlib.Hex([]byte(c))
	}
	return strings.Join(cs, "/")
}

// BInfoTokens: `<name> <name8> <pl> <|pieces|> <length> <files>`
func BInfoTokens(bi *tor.BInfo) string {
	files := "nil"
	if bi.Files != nil {
		if len(bi.Files) == 0 {
			files = "[]"
		} else {
			fs := make([]string, len(bi.Files))
			for i, f := range bi.Files {
				fs[i] = fmt.Sprintf("%s,%s,%d,%s", pathTok(f.Path), pathTok(f.Path8), f.Length,
					vhlib.Hex([]byte(f.Attr)))
			}
			files = strings.Join(fs, ";")
		}
	}
	return fmt.Sprintf("%s %s %d %d %d %s", vhlib.Hex([]byte(bi.Name)), vhlib.Hex([]byte(bi.Name8)),
		bi.PieceLength, len(bi.Pieces), bi.Length, files)
}

// GeomLine renders what MetadataComplete left in the torrent.
func GeomLine(t *tor.Torrent) string {
	fs := "-"
	if len(t.Files) > 0 {
		l := make([]string, len(t.Files))
		for i, f := range t.Files {
			p := "."
			if len(f.Path) > 0 {
				p = pathTok(f.Path)
			}
			pad := "0"
			if f.Padding {
				pad = "1"
			}
			l[i] = fmt.Sprintf("%s|%d|%d|%s", p, f.Offset, f.Length, pad)
		}
		fs = strings.Join(l, ";")
	}
	// the geometry as seen THROUGH the piece store
	np := t.Pieces.Num()
	sat := func(i int) uint32 {
		if i < 0 {
			return 0
		}
		return uint32(i)
	}
	sums := "-"
	if np <= 20000 {
		var spl, sblk int64
		for i := 0; i < np; i++ {
			spl += int64(t.Pieces.PieceLength(uint32(i)))
			n, _ := t.Pieces.PieceBitmap(uint32(i))
			sblk += int64(n)
		}
		sums = fmt.Sprintf("%d/%d", spl, sblk)
	}
	return fmt.Sprintf("ok name=%s pl=%d len=%d nif=%d np=%d nh=%d files=%s pls=%d,%d,%d,%d sums=%s", vhlib.Hex([]byte(t.Name)),
		t.Pieces.PieceSize(), t.Pieces.Length(), len(t.VerifInFlight()), np,
		len(t.PieceHashes), fs, t.Pieces.PieceLength(0), t.Pieces.PieceLength(sat(np-2)),
		t.Pieces.PieceLength(sat(np-1)), t.Pieces.PieceLength(uint32(np)), sums)
}

// ErrTag maps MetadataComplete's errors to the model's tags ("" = not one of them, i.e.
// an error of the bencode decoder).
func ErrTag(err error) string {
	switch err.Error() {
	case "pieces has an odd size":
		return "odd-pieces"
	case "odd sized piece":
		return "odd-piece"
	case "both length and files":
		return "both"
	case "neither length nor files":
		return "neither"
	case "file has no path":
		return "no-path"
	case "bad file length":
		return "bad-file-length"
	case "torrent too large":
		return "too-large"
	case "wrong number of piece hashes":
		return "wrong-hashes"
	case "torrent has no name":
		return "no-name"
	case "bad file path":
		return "bad-file-path"
	case "duplicate file path":
		return "dup-path"
	case "file is also a directory":
		return "file-is-dir"
	case "bad torrent name":
		return "bad-name"
	}
	return ""
}

func BStr(s string) string { return strconv.Itoa(len(s)) + ":" + s }
func BInt(i int64) string  { return "i" + strconv.FormatInt(i, 10) + "e" }

// PadDict appends a `zpad` entry to the dictionary body so that `d`+body+`e` has exactly
// size bytes; returns the segment spec (see Expand); ok=false if that is impossible.
func PadDict(body string, size int) (string, bool) {
	extra := size - len(body) - 2
	if extra == 0 {
		return "x" + vhlib.Hex([]byte("d"+body+"e")), true
	}
	for d := 1; d <= 9; d++ {
		k := extra - 7 - d
		if k >= 0 && len(strconv.Itoa(k)) == d {
			return "x" + vhlib.Hex([]byte("d"+body+"4:zpad"+strconv.Itoa(k)+":")) + "+p" + strconv.Itoa(k) + "+x65", true
		}
	}
	return "", false
}

// PrngByte is the byte generator shared with the Lean drivers.
func PrngByte(seed, k int) byte { return byte((uint32(seed+k) * 2654435761) >> 13) }

// Expand turns a segment spec into bytes: segments joined by '+', `x<hex>` literal,
// `p<k>` k bytes 'p', `z<len>:<seed>` pseudo-random bytes.
func Expand(spec string) []byte {
	var out []byte
	for _, seg := range strings.Split(spec, "+") {
		switch seg[0] {
		case 'x':
			out = append(out, vhlib.UnHex(seg[1:])...)
		case 'p':
			k, _ := strconv.Atoi(seg[1:])
			out = append(out, []byte(strings.Repeat("p", k))...)
		case 'z':
			f := strings.Split(seg[1:], ":")
			l, _ := strconv.Atoi(f[0])
			sd, _ := strconv.Atoi(f[1])
			for k := 0; k < l; k++ {
				out = append(out, PrngByte(sd, k))
			}
		default:
			panic("bad segment " + seg)
		}
	}
	return out
}

// Flavours of info dictionaries built by MakeInfo.
const (
	Valid = iota
	ValidMulti
	PieceLenZero
	WrongHashCount
	NoName
	NegFile
	Garbage
)

// MakeInfo builds (the segment spec of) an info dictionary of exactly size bytes
// (Garbage if the size is too small for the flavour).
func MakeInfo(r *vhlib.Rand, size int, flavour int) string {
	if flavour != Garbage {
		for tries := 0; tries < 6; tries++ {
			length := int64(1 + r.Intn(100000))
			pl := int64(16384 * (1 + r.Intn(3)))
			np := (length + pl - 1) / pl
			name := "t" + strings.Repeat("n", tries+r.Intn(4))
			var body string
			switch flavour {
			case PieceLenZero:
				pl = 0
			case WrongHashCount:
				np += int64(1 + r.Intn(2))
			case NoName:
				name = ""
			}
			pieces := string(r.Bytes(int(np) * 20))
			if flavour == ValidMulti || flavour == NegFile {
				a := length / 3
				b := length - a
				if flavour == NegFile {
					a, b = -5, length+5
				}
				body = "5:filesl" +
					"d6:length" + BInt(a) + "4:pathl" + BStr("dir") + BStr("a.bin") + "ee" +
					"d4:attr1:p6:length" + BInt(0) + "4:pathl" + BStr(".pad") + BStr("0") + "ee" +
					"d6:length" + BInt(b) + "4:pathl" + BStr("b.bin") + "ee" + "e"
			} else {
				body = "6:length" + BInt(length)
			}
			body += "4:name" + BStr(name) + "12:piece length" + BInt(pl) + "6:pieces" + BStr(pieces)
			if s, ok := PadDict(body, size); ok {
				return s
			}
		}
	}
	return fmt.Sprintf("z%d:%d", size, r.Intn(100000))
}
