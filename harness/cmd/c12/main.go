// vh c12: the magnet-metadata exchange of tor/metadata.go against the Lean model.
// A real torrent from tor.ReadMagnet, real info dictionaries of exact sizes, three
// simulated peers; every operation is executed either directly (VerifMetadataVote,
// VerifResizeMetadata, VerifRequestMetadata, VerifGotMetadata: result classes compared)
// or end to end (a protocol message through peer.handleMessage, the resulting TorEvent
// through tor.handleEvent: state compared).  The property oracle is evaluated on the
// real code's state before/after every operation, independently of the model.
package main

import (
	"bufio"
	"bytes"
	"context"
	"crypto/sha1"
	"encoding/hex"
	"fmt"
	"io"
	"net"
	"net/netip"
	"runtime"
	"sort"
	"strconv"
	"strings"
	"time"

	"github.com/jech/storrent/config"
	"github.com/jech/storrent/peer"
	"github.com/jech/storrent/protocol"
	"github.com/jech/storrent/tor"
	"github.com/zeebo/bencode"

	"verifharness/metaline"
	"verifharness/vhlib"
)

const CS = 16384

type simPeer struct {
	p     *peer.Peer
	picks []uint32 // PeerGetMetadata received since the last drain
	mdc   [][]byte // PeerMetadataComplete received
}

type world struct {
	c     *vhlib.Ctx
	t     *tor.Torrent
	ti    []byte // authentic info dictionary
	valid bool   // MetadataComplete accepts it
	peers []*simPeer
	lv    live
	pend  [][2]string // violations found while an op runs, reported once its op line exists
}

func (w *world) flushPending() {
	for _, v := range w.pend {
		w.c.Violate(v[0], v[1], w.c.Case())
	}
	w.pend = nil
}

type snap struct {
	info      []byte
	infoNil   bool
	bits      []int
	req       []uint8
	reqNil    bool
	votes     map[uint32]int
	complete  bool
	votesLine string
}

func (w *world) snap() snap {
	st := w.t.VerifInfoState()
	s := snap{info: append([]byte(nil), st.Info...), infoNil: st.Info == nil, req: st.Requested,
		reqNil: st.RequestedNil, votes: st.Votes, complete: st.InfoComplete}
	for i := 0; i < len(st.Bitmap)*8; i++ {
		if st.Bitmap.Get(i) {
			s.bits = append(s.bits, i)
		}
	}
	return s
}

func joinOr(l []string) string {
	if len(l) == 0 {
		return "-"
	}
	return strings.Join(l, ",")
}

func (s snap) digest() string {
	var b, r, v []string
	for _, i := range s.bits {
		b = append(b, strconv.Itoa(i))
	}
	for _, c := range s.req {
		r = append(r, strconv.Itoa(int(c)))
	}
	var ks []int
	for k := range s.votes {
		ks = append(ks, int(k))
	}
	sort.Ints(ks)
	for _, k := range ks {
		v = append(v, fmt.Sprintf("%d:%d", k, s.votes[uint32(k)]))
	}
	cpl := "0"
	if s.complete {
		cpl = "1"
	}
	return fmt.Sprintf("c=%s n=%d f=%d b=%s r=%s v=%s", cpl, len(s.info), vhlib.Fnv64(s.info),
		joinOr(b), joinOr(r), joinOr(v))
}

func errTag(err error) string {
	if err == nil {
		return "ok"
	}
	switch err.Error() {
	case "metadata complete":
		return "e-complete"
	case "bad size":
		return "e-bad-size"
	case "unknown size":
		return "e-unknown-size"
	case "inconsistent metadata size":
		return "e-size"
	case "chunk beyond end of metadata":
		return "e-beyond"
	case "inconsistent metadata length":
		return "e-length"
	case "hash mismatch":
		return "e-mismatch"
	}
	return "e-parse"
}

func prngByte(seed, k int) byte { return metaline.PrngByte(seed, k) }

func blockOf(ti []byte, i int, n int) []byte {
	off := i * CS
	if off > len(ti) {
		return nil
	}
	b := ti[off:]
	if len(b) > n {
		b = b[:n]
	}
	return append([]byte(nil), b...)
}

// dataOf expands a data spec (same expansion as the Lean driver's).
func dataOf(ti []byte, spec string) []byte {
	body := spec[1:]
	two := func() (int, int) {
		f := strings.Split(body, ":")
		a, _ := strconv.Atoi(f[0])
		b, _ := strconv.Atoi(f[1])
		return a, b
	}
	switch spec[0] {
	case 'H':
		i, _ := strconv.Atoi(body)
		return blockOf(ti, i, CS)
	case 'T':
		i, l := two()
		return blockOf(ti, i, l)
	case 'X':
		i, p := two()
		b := blockOf(ti, i, CS)
		if p < len(b) {
			b[p] ^= 255
		}
		return b
	case 'Z':
		l, sd := two()
		b := make([]byte, l)
		for k := range b {
			b[k] = prngByte(sd, k)
		}
		return b
	case 'R':
		return vhlib.UnHex(body)
	}
	panic("bad spec " + spec)
}

// abortCase ends a case whose set-up already failed (and was reported).
type abortCase struct{}

func panicCause(p string) string {
	switch {
	case strings.Contains(p, "divide by zero"):
		return "divide-by-zero"
	case strings.Contains(p, "out of range"):
		return "out-of-range"
	case strings.Contains(p, "nil pointer"):
		return "nil-deref"
	}
	return "other"
}

// safely: every call into the real code that is not individually guarded is still under
// recover: a panic is an observation with the case as replay, never a dead harness.
func safely(c *vhlib.Ctx, f func()) {
	defer func() {
		if r := recover(); r != nil {
			if _, ok := r.(abortCase); ok {
				return
			}
			c.Violate("panic:unguarded:"+panicCause(fmt.Sprint(r)), fmt.Sprint(r), c.Case())
		}
	}()
	f()
}

func newWorld(c *vhlib.Ctx, spec string, seed uint64) *world {
	info := metaline.Expand(spec)
	h := sha1.Sum(info)
	c.NewCase()
	var w *world
	mc := "E"
	step := "ReadMagnet"
	if p := vhlib.Recover(func() {
		t, err := tor.ReadMagnet("", "magnet:?xt=urn:btih:"+hex.EncodeToString(h[:]))
		if err != nil || t == nil {
			panic("ReadMagnet refused a well-formed magnet")
		}
		step = "VerifInit"
		tor.VerifInit(t, 4096, seed)
		w = &world{c: c, t: t, ti: info}
		step = "peer-setup"
		for i := 0; i < 2; i++ {
			w.addPeer(0)
		}
		for len(t.Event) > 0 { // the TorPeerExtended{size 0} of the setup
			<-t.Event
		}
		step = "bencode.DecodeBytes"
		var bi tor.BInfo
		if bencode.DecodeBytes(info, &bi) == nil {
			mc = "B 0 " + metaline.BInfoTokens(&bi)
		}
		step = "VerifInfoState"
		w.snap()
	}); p != "" {
		c.Emit(fmt.Sprintf("new %s %s E", vhlib.Hex(h[:]), spec), "panic")
		c.Violate("panic:setup:"+step+":"+panicCause(p), p, c.Case())
		panic(abortCase{})
	}
	c.Emit(fmt.Sprintf("new %s %s %s", vhlib.Hex(h[:]), spec, mc), "new "+w.snap().digest())
	return w
}

// addPeer: a new simulated peer whose extended handshake announces metadata_size.
func (w *world) addPeer(size uint32) *simPeer {
	i := len(w.peers)
	id := make([]byte, 20)
	id[0] = byte(i + 1)
	p := peer.VerifNewPeer(peer.VerifPeerOpts{
		Addr: netip.AddrPortFrom(netip.AddrFrom4([4]byte{10, 0, 0, byte(i + 1)}), 0),
		Hash: w.t.Hash, Id: id, Extended: true, Pieces: &w.t.Pieces, WriterCap: 64,
		TorEvent: w.t.Event, TorDone: w.t.Done, WriterDone: make(chan struct{})})
	w.t.VerifAddPeer(p)
	sp := &simPeer{p: p}
	w.peers = append(w.peers, sp)
	// every combination of {size vote or not} x {ut_metadata id non-zero / absent / zero}
	// (derived from the op, so that a replay builds the same peer)
	var m map[string]uint8
	switch (i + int(size%7)) % 3 {
	case 0:
		m = map[string]uint8{"ut_metadata": 3}
	case 1:
		m = map[string]uint8{"ut_pex": 1}
	default:
		m = map[string]uint8{"ut_metadata": 0, "lt_donthave": 7}
	}
	peer.VerifHandleMessage(p, protocol.Extended0{MetadataSize: size, Messages: m})
	return sp
}

// drainPeers plays the simulated peers' event loops: everything the torrent sent to a
// peer is logged (for the comparison with the model) and then handled by the REAL
// peer.handleEvent; every message that handler queues for the connection's writer is
// passed through the REAL protocol.Write, as the writer goroutine would.  A panic in
// either is a crash of the client caused by what peers sent.
func (w *world) drainPeers() {
	for _, sp := range w.peers {
		for {
			select {
			case e := <-sp.p.Event:
				switch e := e.(type) {
				case peer.PeerGetMetadata:
					sp.picks = append(sp.picks, e.Index)
				case peer.PeerMetadataComplete:
					sp.mdc = append(sp.mdc, e.Info)
				}
				if p := vhlib.Recover(func() { peer.VerifHandleEvent(sp.p, e) }); p != "" {
					w.pend = append(w.pend, [2]string{fmt.Sprintf("panic:peer.handleEvent:%T", e), p})
				}
				w.flushWriter(sp)
				continue
			default:
			}
			break
		}
		w.flushWriter(sp)
	}
}

// flushWriter: what protocol.Writer does with the peer's queue.
func (w *world) flushWriter(sp *simPeer) {
	for {
		select {
		case m := <-sp.p.VerifWriter():
			bw := bufio.NewWriter(io.Discard)
			var err error
			p := vhlib.Recover(func() { err = protocol.Write(bw, m, nil) })
			name := strings.TrimPrefix(fmt.Sprintf("%T", m), "protocol.")
			w.c.Count("emitted/"+name, "", false)
			if p != "" {
				w.pend = append(w.pend, [2]string{"panic:writer:" + name, fmt.Sprintf("protocol.Write(%+v): %s", m, p)})
			} else if err != nil {
				w.pend = append(w.pend, [2]string{"writer-error:" + name, err.Error()})
			}
			continue
		default:
		}
		return
	}
}

func (w *world) takePicks() string {
	var l []string
	for _, sp := range w.peers {
		for _, i := range sp.picks {
			l = append(l, strconv.Itoa(int(i)))
		}
		sp.picks = nil
	}
	return joinOr(l)
}

// runEvents passes everything the peers queued for the torrent through tor.handleEvent
// on a helper goroutine while this goroutine plays the peers' event loops.
func (w *world) runEvents() (panicked string, hung bool) {
	for _, sp := range w.peers {
		sp.p.VerifFlushEvents()
	}
	for len(w.t.Event) > 0 {
		e := <-w.t.Event
		done := make(chan string, 1)
		go func() {
			done <- vhlib.Recover(func() { tor.VerifHandleEvent(context.Background(), w.t, e) })
		}()
		deadline := time.Now().Add(20 * time.Second)
	wait:
		for {
			w.drainPeers()
			select {
			case p := <-done:
				if p != "" {
					return p, false
				}
				break wait
			default:
				if time.Now().After(deadline) {
					return "", true
				}
				runtime.Gosched()
			}
		}
		w.drainPeers()
	}
	return "", false
}

// ---------------------------------------------------------------- oracle (safety part)

func (w *world) shape(index, size uint32, data []byte, pre snap) string {
	chunks := len(pre.req)
	is := "lt-chunks"
	switch {
	case int(index) == chunks:
		is = "eq-chunks"
	case int(index) > chunks:
		is = "gt-chunks"
	}
	al := "aligned"
	if len(pre.info)%CS != 0 {
		al = "unaligned"
	}
	dl := "other"
	if len(data) == CS {
		dl = "16k"
	}
	return fmt.Sprintf("index-%s:size-%s:data-%s", is, al, dl)
}

// checkGot: the property's observable predicates around one metadata block.
func (w *world) checkGot(index, size uint32, data []byte, pre, post snap, panicked string, tag string) {
	c := w.c
	sh := w.shape(index, size, data, pre)
	if panicked != "" {
		cause := "other"
		switch {
		case strings.Contains(panicked, "slice bounds out of range"):
			cause = "slice-bounds"
		case strings.Contains(panicked, "divide by zero"):
			cause = "MetadataComplete-divide-by-zero"
		case strings.Contains(panicked, "hung"):
			cause = "hang"
		}
		c.Violate("panic:gotMetadata:"+cause+":"+sh, panicked, c.Case())
		return
	}
	if post.complete && !pre.complete {
		h := sha1.Sum(post.info)
		if !bytes.Equal(h[:], w.t.Hash) {
			c.Violate("forged-metadata-accepted", "InfoComplete with sha1(Info) != Hash", c.Case())
		}
		if !w.valid {
			c.Violate("invalid-metadata-accepted", "InfoComplete although MetadataComplete rejects the dictionary", c.Case())
		}
	}
	if pre.complete && (!post.complete || !bytes.Equal(pre.info, post.info)) {
		c.Violate("changed-after-complete", "Info or InfoComplete changed after completion", c.Case())
	}
	chunks := len(pre.req)
	okBlock := int(size) == len(pre.info) && int(index) < chunks &&
		(len(data) == CS || int(index)*CS+len(data) == len(pre.info))
	if !pre.complete && len(post.info) == len(pre.info) && !bytes.Equal(pre.info, post.info) {
		if !okBlock {
			c.Violate("block-invalid:copied:"+sh, "an invalid block was copied into Info", c.Case())
		} else {
			lo, hi := int(index)*CS, int(index)*CS+len(data)
			for j := range post.info {
				if post.info[j] != pre.info[j] && (j < lo || j >= hi) {
					c.Violate("block-invalid:outside:"+sh, fmt.Sprintf("byte %d changed outside [%d,%d)", j, lo, hi), c.Case())
					break
				}
			}
		}
	}
	if !pre.complete && len(post.info) != len(pre.info) && len(post.info) != 0 && tag != "ev" {
		c.Violate("info-resized-by-block:"+sh, "gotMetadata changed len(Info)", c.Case())
	}
	for _, b := range post.bits {
		had := false
		for _, a := range pre.bits {
			had = had || a == b
		}
		if !had && (uint32(b) != index || !okBlock) && len(post.info) == len(pre.info) {
			c.Violate("bitmap:bit-for-invalid-block:"+sh, fmt.Sprintf("bit %d set", b), c.Case())
		}
	}
	if tag == "e-mismatch" || tag == "e-parse" {
		if len(post.info) != 0 || len(post.bits) != 0 || len(post.req) != 0 || post.complete {
			c.Violate("no-reset-on-mismatch", "state survives a failed round: "+post.digest(), c.Case())
		}
	}
}

// ---------------------------------------------------------------- oracle (liveness part)

// live restates the property's last clause on the op sequence itself, so that it is
// evaluated identically while generating and while replaying: "it still completes once an
// honest block for every index has been delivered after the last corruption".
// A window of honest deliveries opens at a request, or after a block-level corruption that
// leaves a buffer of the right size, and is closed by any vote or resize and by a reset
// (the client has to request again before blocks can fit).
// A round = an honest delivery for every index inside one window.
type live struct {
	round         map[int]bool   // nil: no window open
	rounds        int            // consecutive honest rounds since the last corruption
	poisoned      bool           // a non-authentic block was stored in a right-sized buffer
	wrongSizeHeld bool           // a block was stored while the buffer had a wrong size
	cast          map[uint32]int // valid size votes cast by peers (counted here, not read from the client)
	sizeAtRequest int            // len(Info) after the request that opened the window
	reported      map[string]bool
}

// honestLeads: the true size has strictly more votes CAST than any other size
func (w *world) honestLeads() bool {
	best := 0
	for k, c := range w.lv.cast {
		if int(k) != len(w.ti) && c > best {
			best = c
		}
	}
	return w.lv.cast[uint32(len(w.ti))] > best
}

// liveGotEv: the event handler calls requestMetadata after a stored/duplicate block, which
// may resize the buffer; a changed length is not a stored block
func (w *world) liveGotEv(index, size uint32, spec string, pre, post snap) {
	w.liveGot(index, size, spec, pre, post)
}

// liveVote: size 0 = no vote was cast (a resize)
func (w *world) liveVote(size uint32, preComplete bool) {
	if size >= 1 && size <= 128*1024*1024 && !preComplete {
		if w.lv.cast == nil {
			w.lv.cast = map[uint32]int{}
		}
		w.lv.cast[size]++
	}
	w.lv.rounds, w.lv.round = 0, nil
}

func (w *world) liveRequest(post snap) {
	w.lv.round = map[int]bool{}
	w.lv.sizeAtRequest = len(post.info)
	if len(post.bits) == 0 {
		w.lv.poisoned = false
	}
}

func (w *world) liveGot(index, size uint32, spec string, pre, post snap) {
	n := len(w.ti)
	stored := !pre.complete && len(post.info) == len(pre.info) && !bytes.Equal(pre.info, post.info)
	honest := spec == fmt.Sprintf("H%d", index) && int(size) == n && int(index) < nchunks(n)
	if !honest {
		if stored && len(pre.info) == n {
			w.lv.poisoned = true
		}
		if stored && len(pre.info) != n {
			w.lv.wrongSizeHeld = true
		}
		// honest peers send blocks on request: the window stays open only while the buffer
		// still has the right size (after a reset the client has to request again)
		w.lv.rounds, w.lv.round = 0, nil
		if len(post.info) == n {
			w.lv.round = map[int]bool{}
		}
		return
	}
	if w.lv.round == nil || post.complete || !w.valid {
		return
	}
	w.lv.round[int(index)] = true
	if len(w.lv.round) < nchunks(n) {
		return
	}
	w.lv.round = nil
	w.lv.rounds++
	kind := ""
	switch lead := w.honestLeads(); {
	case !lead && w.lv.rounds >= 2:
		kind = "liveness:hostile-size-votes:size-pinned"
	case !lead:
	case w.lv.poisoned && w.lv.rounds == 1:
		kind = "liveness:forged-block-in-buffer:single-honest-round"
	case w.lv.wrongSizeHeld:
		kind = "liveness:honest-majority-after-wrong-size-block"
	case w.lv.sizeAtRequest != n:
		kind = "liveness:honest-plurality-not-followed"
	case w.lv.rounds == 1:
		kind = "liveness:honest-round-from-empty-buffer"
	default:
		kind = "liveness:two-honest-rounds"
	}
	if kind != "" {
		if w.lv.reported == nil {
			w.lv.reported = map[string]bool{}
		}
		if !w.lv.reported[kind] {
			w.lv.reported[kind] = true
			w.c.Violate(kind, fmt.Sprintf("valid metadata; %d honest round(s) (an honest block for every index) since the last corruption, honest size leads=%v, not complete: %s",
				w.lv.rounds, w.honestLeads(), post.digest()), w.c.Case())
		}
	}
}

// ---------------------------------------------------------------- operations

func (w *world) opVote(size uint32) {
	defer w.flushPending()
	var err error
	pre := w.snap()
	p := vhlib.Recover(func() { err = tor.VerifMetadataVote(w.t, size) })
	op := fmt.Sprintf("vote %d", size)
	if p != "" {
		w.c.Emit(op, "panic "+w.snap().digest())
		w.c.Violate("panic:metadataVote", p, w.c.Case())
		return
	}
	w.c.Emit(op, errTag(err)+" "+w.snap().digest())
	w.c.Count("vote/"+errTag(err), op, err == nil)
	w.liveVote(size, pre.complete)
}

func (w *world) opResize(size uint32) {
	defer w.flushPending()
	var err error
	p := vhlib.Recover(func() { err = tor.VerifResizeMetadata(w.t, size) })
	op := fmt.Sprintf("resize %d", size)
	if p != "" {
		w.c.Emit(op, "panic "+w.snap().digest())
		w.c.Violate("panic:resizeMetadata", p, w.c.Case())
		return
	}
	w.c.Emit(op, errTag(err)+" "+w.snap().digest())
	w.c.Count("resize/"+errTag(err), op, err == nil)
	w.liveVote(0, false)
}

func (w *world) opReq(all bool) {
	defer w.flushPending()
	var err error
	var pp *peer.Peer
	name := "reqn"
	if !all {
		pp = w.peers[len(w.c.Case())%len(w.peers)].p // any peer, ut_metadata or not
		name = "req"
	}
	p := vhlib.Recover(func() { err = tor.VerifRequestMetadata(w.t, pp) })
	w.drainPeers()
	post := w.snap()
	op := fmt.Sprintf("%s %d %s", name, len(post.info), w.takePicks())
	if p != "" {
		w.c.Emit(op, "panic "+post.digest())
		w.c.Violate("panic:requestMetadata", p, w.c.Case())
		return
	}
	w.c.Emit(op, errTag(err)+" guess-ok=1 picks-ok=1 "+post.digest())
	w.c.Count(name+"/"+errTag(err), op, err == nil)
	w.liveRequest(post)
}

func (w *world) opGot(index, size uint32, spec string) string {
	defer w.flushPending()
	data := dataOf(w.ti, spec)
	pre := w.snap()
	var done bool
	var err error
	p := vhlib.Recover(func() { done, err = tor.VerifGotMetadata(w.t, index, size, append([]byte(nil), data...)) })
	post := w.snap()
	op := fmt.Sprintf("got %d %d %s", index, size, spec)
	tag := errTag(err)
	switch {
	case p != "":
		tag = "panic"
	case err == nil && done:
		tag = "done"
	case err == nil:
		tag = "stored"
		for _, b := range pre.bits {
			if uint32(b) == index {
				tag = "dup"
			}
		}
	}
	w.c.Emit(op, tag+" "+post.digest())
	w.c.Count("got/"+tag, op, tag == "stored" || tag == "done" || tag == "e-mismatch")
	if p == "" {
		w.liveGot(index, size, spec, pre, post)
	}
	w.checkGot(index, size, data, pre, post, p, tag)
	return tag
}

// opVoteEv: an extended handshake announcing metadata_size, end to end.
func (w *world) opVoteEv(size uint32) {
	defer w.flushPending()
	if len(w.peers) >= 7 {
		w.opVote(size)
		return
	}
	pre := w.snap()
	p := vhlib.Recover(func() { w.addPeer(size) })
	hung := false
	if p == "" {
		p, hung = w.runEvents()
	}
	post := w.snap()
	op := fmt.Sprintf("votev %d %d %s", size, len(post.info), w.takePicks())
	if p != "" || hung {
		w.c.Emit(op, "panic "+post.digest())
		w.c.Violate("panic:TorPeerExtended", p+fmt.Sprint(" hung=", hung), w.c.Case())
		return
	}
	w.c.Emit(op, "ev guess-ok=1 picks-ok=1 "+post.digest())
	w.c.Count("votev", op, len(post.votes) != len(pre.votes))
	w.liveVote(size, pre.complete)
	if size >= 1 && size <= 128*1024*1024 && !pre.complete {
		w.liveRequest(post) // the handler requests right after a vote it has to accept
	}
	if pre.complete && (!post.complete || !bytes.Equal(pre.info, post.info)) {
		w.c.Violate("changed-after-complete", "vote changed a complete torrent", w.c.Case())
	}
}

// opGotEv: a ut_metadata data message, end to end.
func (w *world) opGotEv(index, size uint32, spec string) {
	defer w.flushPending()
	data := dataOf(w.ti, spec)
	sp := w.peers[int(index)%len(w.peers)]
	pre := w.snap()
	for _, q := range w.peers {
		q.mdc = nil
	}
	p := vhlib.Recover(func() {
		peer.VerifHandleMessage(sp.p, protocol.ExtendedMetadata{Subtype: 3, Type: 1, Piece: index,
			TotalSize: size, Data: append([]byte(nil), data...)})
	})
	hung := false
	if p == "" {
		p, hung = w.runEvents()
	}
	post := w.snap()
	op := fmt.Sprintf("gotev %d %d %s %d %s", index, size, spec, len(post.info), w.takePicks())
	if hung {
		p = "event loop hung"
	}
	if p != "" {
		w.c.Emit(op, "panic "+post.digest())
	} else {
		w.c.Emit(op, "ev guess-ok=1 picks-ok=1 "+post.digest())
	}
	w.c.Count("gotev", op, !bytes.Equal(pre.info, post.info))
	if p == "" {
		w.liveGotEv(index, size, spec, pre, post)
	}
	w.checkGot(index, size, data, pre, post, p, "ev")
	if p == "" && post.complete && !pre.complete {
		for _, q := range w.peers {
			if len(q.mdc) != 1 || !bytes.Equal(q.mdc[0], post.info) {
				w.c.Violate("completion-not-announced", "a peer did not receive PeerMetadataComplete with the accepted Info", w.c.Case())
			}
		}
	}
}

// opJoin: a new peer joins through the REAL TorAddPeer handler (real peer.Run with its
// reader/writer goroutines over an in-memory connection).  The remote side, played here,
// reads storrent's extended handshake, asks for every metadata block and leaves.
// Authenticity seen from the serving side: before completion storrent announces no
// metadata_size and answers every request with a reject; after completion it serves
// exactly the authentic dictionary.  The peer is gone when the op ends.
func (w *world) opJoin() {
	defer w.flushPending()
	const wait = 15 * time.Second
	pre := w.snap()
	n := len(w.ti)
	a, b := net.Pipe()
	defer b.Close()
	id := make([]byte, 20)
	id[0] = 0xEE
	var viol [][2]string
	bad := func(kind, detail string) { viol = append(viol, [2]string{kind, detail}) }
	var rp *peer.Peer
	p := vhlib.Recover(func() {
		rp = peer.New("", a, netip.AddrPortFrom(netip.AddrFrom4([4]byte{10, 9, 9, 9}), 0), true,
			protocol.HandshakeResult{Hash: w.t.Hash, Id: id, Extended: true})
		rp.Log.SetOutput(io.Discard)
		w.t.Event <- peer.TorAddPeer{Peer: rp, Init: nil}
	})
	hung := false
	if p == "" {
		p, hung = w.runEvents()
	}
	if p != "" || hung {
		bad("panic:TorAddPeer", p+fmt.Sprint(" hung=", hung))
	} else {
		br := bufio.NewReader(b)
		bw := bufio.NewWriter(b)
		read := func() (protocol.Message, error) {
			b.SetReadDeadline(time.Now().Add(wait))
			return protocol.Read(br, nil)
		}
		send := func(m protocol.Message) error {
			b.SetWriteDeadline(time.Now().Add(wait))
			if err := protocol.Write(bw, m, nil); err != nil {
				return err
			}
			return bw.Flush()
		}
		// storrent's extended handshake
		var hs *protocol.Extended0
		for hs == nil {
			m, err := read()
			if err != nil {
				bad("serving:no-extended-handshake", err.Error())
				break
			}
			if e, ok := m.(protocol.Extended0); ok {
				hs = &e
			}
		}
		if hs != nil {
			switch {
			case !pre.complete && hs.MetadataSize != 0:
				bad("serving:metadata-size-before-complete", fmt.Sprintf("metadata_size %d announced while the metadata is not verified (buffer %d bytes, %d blocks held)", hs.MetadataSize, len(pre.info), len(pre.bits)))
			case pre.complete && int(hs.MetadataSize) != n:
				bad("serving:wrong-metadata-size-after-complete", fmt.Sprint(hs.MetadataSize))
			}
			err := send(protocol.Extended0{Messages: map[string]uint8{"ut_metadata": protocol.ExtMetadata}})
			top := nchunks(n)
			if k := nchunks(len(pre.info)); k > top {
				top = k
			}
			for i := 0; err == nil && i <= top; i++ {
				err = send(protocol.ExtendedMetadata{Subtype: hs.Messages["ut_metadata"], Type: 0, Piece: uint32(i)})
				if err != nil {
					break
				}
				var ans *protocol.ExtendedMetadata
				for ans == nil {
					var m protocol.Message
					m, err = read()
					if err != nil {
						bad("serving:no-answer-to-metadata-request", fmt.Sprintf("block %d: %v", i, err))
						break
					}
					if e, ok := m.(protocol.ExtendedMetadata); ok {
						ans = &e
					}
				}
				if ans == nil {
					break
				}
				switch {
				case !pre.complete && ans.Type != 2:
					k := "blank"
					for _, bit := range pre.bits {
						if bit == i {
							k = "held-block"
						}
					}
					bad("serving:unverified-metadata:"+k, fmt.Sprintf("request for block %d answered with type %d, %d bytes, total_size %d before the metadata is verified", i, ans.Type, len(ans.Data), ans.TotalSize))
				case pre.complete && i < nchunks(n) && (ans.Type != 1 || int(ans.TotalSize) != n || !bytes.Equal(ans.Data, blockOf(w.ti, i, CS))):
					bad("serving:wrong-data-after-complete", fmt.Sprintf("block %d: type %d, %d bytes, total_size %d", i, ans.Type, len(ans.Data), ans.TotalSize))
				case pre.complete && i >= nchunks(n) && ans.Type != 2:
					bad("serving:data-beyond-end", fmt.Sprintf("block %d: type %d", i, ans.Type))
				}
			}
			if err != nil && len(viol) == 0 {
				bad("serving:connection-broke", err.Error())
			}
		}
	}
	// the remote side leaves; wait until the torrent has forgotten the peer
	b.Close()
	deadline := time.Now().Add(wait)
	for rp != nil {
		pp, h := w.runEvents()
		if pp != "" || h {
			bad("panic:peer-departure", pp+fmt.Sprint(" hung=", h))
			break
		}
		gone := true
		for _, q := range w.t.VerifPeers() {
			gone = gone && q != rp
		}
		if gone {
			break
		}
		if time.Now().After(deadline) {
			bad("hang:joined-peer-never-left", "")
			break
		}
		time.Sleep(200 * time.Microsecond)
	}
	w.takePicks()
	post := w.snap()
	w.c.Emit("join", "join "+post.digest())
	phase := "incomplete"
	if pre.complete {
		phase = "complete"
	} else if len(pre.bits) > 0 {
		phase = "blocks-held"
	} else if len(pre.info) > 0 {
		phase = "buffer-allocated"
	}
	w.c.Count("join/"+phase, "", false)
	for _, v := range viol {
		w.c.Violate(v[0], v[1], w.c.Case())
	}
}

// ---------------------------------------------------------------- generators

var sizes = []int{1, 16383, 16384, 16385, 40000, 3 * CS}

func pickSize(r *vhlib.Rand) int {
	if r.Chance(12) {
		return []int{2, 100, 20000, 32768, 32769, 2*CS - 1}[r.Intn(6)]
	}
	// weight the small ones: they are cheap
	return sizes[[]int{0, 1, 1, 2, 2, 3, 3, 3, 4, 5}[r.Intn(10)]]
}

func nchunks(n int) int { return (n + CS - 1) / CS }

func wrongSize(r *vhlib.Rand, n int) uint32 {
	return r.PickU32(0, 1, uint32(n+1), uint32(n-1), CS, 2*CS, 128*1024*1024, 128*1024*1024+1, 0xFFFFFFFF,
		uint32(n)+1<<31, uint32(1+r.Intn(70000)))
}

// wrongVote: a wrong size to vote for; an accepted huge size (the model's buffer is a
// list: 128 MiB of it is too slow) only while it cannot become the guess.
func (w *world) wrongVote(r *vhlib.Rand) uint32 {
	for {
		sz := wrongSize(r, len(w.ti))
		if sz < 1<<20 || sz > 128*1024*1024 {
			return sz
		}
		st := w.snap()
		best := 0
		for k, c := range st.votes {
			if k != sz && c > best {
				best = c
			}
		}
		if st.votes[sz]+1 < best {
			return sz
		}
	}
}

// wrongResize: sizes for a direct resizeMetadata call (huge ones only if rejected)
func wrongResize(r *vhlib.Rand, n int) uint32 {
	for {
		sz := wrongSize(r, n)
		if sz < 1<<20 || sz > 128*1024*1024 {
			return sz
		}
	}
}

func wrongIndex(r *vhlib.Rand, n int) uint32 {
	ch := uint32(nchunks(n))
	return r.PickU32(ch, ch+1, ch+2, 0xFFFFFFFF, 0x80000000, 1<<18, 1<<18+ch, ch+1<<18, uint32(r.Intn(10)))
}

// a block that is not the honest one
func hostileBlock(r *vhlib.Rand, n int) (uint32, uint32, string) {
	ch := nchunks(n)
	i := r.Intn(ch)
	index, size := uint32(i), uint32(n)
	tail := n - i*CS
	if tail > CS {
		tail = CS
	}
	switch r.Intn(10) {
	case 0: // forged content, right shape
		return index, size, fmt.Sprintf("X%d:%d", i, r.Intn(tail))
	case 1:
		l := CS
		if i == ch-1 && r.Bool() {
			l = tail
		}
		return index, size, fmt.Sprintf("Z%d:%d", l, r.Intn(1000))
	case 2: // wrong size
		return index, wrongSize(r, n), fmt.Sprintf("H%d", i)
	case 3: // wrong index, 16 KiB payload
		return wrongIndex(r, n), size, fmt.Sprintf("Z%d:%d", CS, r.Intn(1000))
	case 4: // wrong index, other payloads
		return wrongIndex(r, n), size, []string{"R-", "H0", fmt.Sprintf("H%d", ch-1), "Z1:7"}[r.Intn(4)]
	case 5: // wrong length
		l := r.PickInt(0, 1, tail-1, tail+1, CS-1, CS+1, 2*CS, n, n-i*CS)
		if l < 0 {
			l = 0
		}
		return index, size, fmt.Sprintf("T%d:%d", i, l)
	case 6: // over-long block that ends exactly at the end of the buffer
		return index, size, fmt.Sprintf("Z%d:%d", n-i*CS, r.Intn(1000))
	case 7: // full 16 KiB for the short last block (accepted, truncated)
		return uint32(ch - 1), size, fmt.Sprintf("Z%d:%d", CS, r.Intn(1000))
	case 8: // index == chunks with the payloads that pass the length test
		return uint32(ch), size, []string{fmt.Sprintf("Z%d:3", CS), "R-"}[r.Intn(2)]
	default: // size 0 / empty
		return uint32(r.Intn(2)), 0, []string{"R-", fmt.Sprintf("Z%d:1", CS), "H0"}[r.Intn(3)]
	}
}

func (w *world) got(r *vhlib.Rand, index, size uint32, spec string) {
	if r.Chance(25) {
		w.opGotEv(index, size, spec)
	} else {
		w.opGot(index, size, spec)
	}
}

func (w *world) honestVotes(r *vhlib.Rand, k int) {
	for j := 0; j < k; j++ {
		if r.Chance(30) {
			w.opVoteEv(uint32(len(w.ti)))
		} else {
			w.opVote(uint32(len(w.ti)))
		}
	}
}

func (w *world) honestRound(r *vhlib.Rand, dups bool) {
	n := len(w.ti)
	order := make([]int, nchunks(n))
	for i := range order {
		order[i] = i
	}
	for i := len(order) - 1; i > 0; i-- {
		j := r.Intn(i + 1)
		order[i], order[j] = order[j], order[i]
	}
	for _, i := range order {
		w.got(r, uint32(i), uint32(n), fmt.Sprintf("H%d", i))
		if dups && r.Chance(30) {
			w.got(r, uint32(i), uint32(n), fmt.Sprintf("H%d", i))
		}
	}
}

func makeWorld(c *vhlib.Ctx, r *vhlib.Rand, validOnly bool, minChunks int) *world {
	size := pickSize(r)
	for nchunks(size) < minChunks {
		size = sizes[3+r.Intn(3)]
	}
	fl := metaline.Valid
	if r.Chance(30) {
		fl = metaline.ValidMulti
	}
	if !validOnly && r.Chance(25) {
		fl = []int{metaline.PieceLenZero, metaline.WrongHashCount, metaline.NoName, metaline.NegFile, metaline.Garbage}[r.Intn(5)]
	}
	info := metaline.MakeInfo(r, size, fl)
	w := newWorld(c, info, r.U64())
	w.valid = validMetadata(w.ti)
	return w
}

// validMetadata: does the real ReadTorrent-path validation accept this dictionary?
// (asked of a fresh torrent, independent of the one under test)
func validMetadata(info []byte) bool {
	ok := false
	vhlib.Recover(func() {
		t, err := tor.ReadTorrent("", bytes.NewReader([]byte("d4:info"+string(info)+"e")))
		ok = err == nil && t != nil
	})
	return ok
}

// random script: the general safety stream
func genRandom(c *vhlib.Ctx, r *vhlib.Rand) {
	w := makeWorld(c, r, false, 1)
	steps := 4 + r.Intn(22)
	for s := 0; s < steps; s++ {
		w.randomOp(r)
	}
	// the property's "usable only if authentic", once more at the end of the script
	st := w.snap()
	if st.complete {
		h := sha1.Sum(st.info)
		if !bytes.Equal(h[:], w.t.Hash) || !bytes.Equal(st.info, w.ti) {
			c.Violate("forged-metadata-accepted", "complete with foreign Info", c.Case())
		}
	}
}

// randomOp: one operation of the general stream
func (w *world) randomOp(r *vhlib.Rand) {
	n := len(w.ti)
	switch k := r.Intn(104); {
	case k >= 100:
		w.opJoin()
	case k < 12:
		w.honestVotes(r, 1)
	case k < 20:
		sz := w.wrongVote(r)
		if r.Chance(30) {
			w.opVoteEv(sz)
		} else {
			w.opVote(sz)
		}
	case k < 32:
		w.opReq(r.Chance(40))
	case k < 36:
		w.opResize(r.PickU32(uint32(n), uint32(n), wrongResize(r, n)))
	case k < 66:
		i := r.Intn(nchunks(n))
		w.got(r, uint32(i), uint32(n), fmt.Sprintf("H%d", i))
	default:
		i, sz, spec := hostileBlock(r, n)
		w.got(r, i, sz, spec)
	}
}

// honestMajority: honest peers vote until the true size strictly leads
func (w *world) honestMajority(r *vhlib.Rand) {
	for !w.honestLeads() && !w.snap().complete {
		w.honestVotes(r, 1)
	}
}

// L1: whatever happened before (any votes, resizes, requests, honest and hostile blocks of
// any size), once the honest peers are the majority two honest rounds, each preceded by a
// request, complete
func genTwoRounds(c *vhlib.Ctx, r *vhlib.Rand) {
	w := makeWorld(c, r, true, 1)
	for s := r.Intn(14); s > 0; s-- {
		w.randomOp(r)
	}
	w.honestMajority(r)
	w.opReq(r.Bool())
	w.honestRound(r, true)
	if !w.snap().complete {
		w.opReq(r.Bool())
		w.honestRound(r, r.Bool())
	}
	c.Count("scenario/two-rounds", "", false)
}

// L4: a hostile peer's size vote leads when the buffer is first allocated and a block is
// accepted under that wrong size; then the honest peers out-vote it and deliver every block
func genOutvoted(c *vhlib.Ctx, r *vhlib.Rand) {
	w := makeWorld(c, r, true, 1)
	n := len(w.ti)
	bad := r.PickU32(uint32(n+CS+1+r.Intn(5000)), uint32(n+CS), 2*CS+1, 3*CS, uint32(2*CS+r.Intn(CS)), uint32(n+1+r.Intn(5000)), uint32(1+r.Intn(n)))
	if int(bad) == n {
		bad++
	}
	if r.Bool() {
		w.opVoteEv(bad)
	} else {
		w.opVote(bad)
		w.opReq(r.Bool())
	}
	// blocks that are valid for the wrong size
	bch := nchunks(int(bad))
	for k := 1 + r.Intn(2); k > 0; k-- {
		i := r.Intn(bch)
		l := CS
		if i == bch-1 {
			l = int(bad) - i*CS
		}
		w.got(r, uint32(i), bad, fmt.Sprintf("Z%d:%d", l, r.Intn(1000)))
		if len(w.snap().bits) == 0 { // the wrong-size round ended (single block): start another
			w.opReq(r.Bool())
		}
	}
	held := len(w.snap().bits)
	w.honestMajority(r)
	w.opReq(r.Bool())
	w.honestRound(r, r.Bool())
	if !w.snap().complete {
		w.opReq(r.Bool())
		w.honestRound(r, false)
	}
	c.Count(fmt.Sprintf("scenario/outvoted/held=%v", held > 0), "", false)
}

// L0: honest round from an empty buffer completes (any order, duplicates)
func genCleanRound(c *vhlib.Ctx, r *vhlib.Rand) {
	w := makeWorld(c, r, true, 1)
	// peers join at every phase of the exchange
	if r.Chance(30) {
		w.opJoin() // before any vote
	}
	w.honestVotes(r, 1+r.Intn(2))
	w.opReq(r.Bool())
	if r.Chance(30) {
		w.opJoin() // buffer allocated, nothing held
	}
	if nchunks(len(w.ti)) > 1 && r.Chance(40) {
		i := r.Intn(nchunks(len(w.ti)))
		w.got(r, uint32(i), uint32(len(w.ti)), fmt.Sprintf("H%d", i))
		w.opJoin() // an (authentic but unverified) block is held
	}
	w.honestRound(r, r.Bool())
	c.Count("scenario/clean-round", "", false)
	if r.Chance(50) {
		w.opJoin() // after completion: the authentic dictionary is served
	}
	// later messages are ignored
	i, sz, spec := hostileBlock(r, len(w.ti))
	w.got(r, i, sz, spec)
	w.opVote(uint32(len(w.ti)))
	w.opReq(false)
}

// L2: a forged block is in the buffer, then ONE honest delivery per index
func genPoisoned(c *vhlib.Ctx, r *vhlib.Rand) {
	w := makeWorld(c, r, true, 2)
	n := len(w.ti)
	w.honestVotes(r, 1+r.Intn(2))
	w.opReq(r.Bool())
	i := r.Intn(nchunks(n))
	tail := n - i*CS
	if tail > CS {
		tail = CS
	}
	w.got(r, uint32(i), uint32(n), fmt.Sprintf("X%d:%d", i, r.Intn(tail)))
	if r.Chance(50) {
		w.opJoin() // a forged block is held
	}
	w.honestRound(r, false)
	c.Count("scenario/poisoned-round", "", false)
	if !w.snap().complete { // the live oracle has reported the single round; a second one must do
		if r.Chance(30) {
			w.opJoin() // after a reset
		}
		w.opReq(r.Bool())
		w.honestRound(r, false)
	}
}

// L5: MANY distinct hostile sizes are voted before the first honest vote, one vote each;
// the honest peers then give the true size strictly the most votes cast
func genManySizes(c *vhlib.Ctx, r *vhlib.Rand) {
	w := makeWorld(c, r, true, 1)
	n := len(w.ti)
	k := r.PickInt(15, 16, 17, 40, 200)
	for j := 0; j < k; j++ {
		sz := uint32(n + 1 + 7*j)
		if j%2 == 1 && n > j+1 {
			sz = uint32(n - 1 - j/2)
		}
		if j < 3 && r.Bool() {
			w.opVoteEv(sz)
		} else {
			w.opVote(sz)
		}
	}
	if r.Bool() {
		w.opReq(r.Bool())
	}
	w.honestVotes(r, 2)
	w.opReq(r.Bool())
	w.honestRound(r, r.Bool())
	if !w.snap().complete {
		w.opReq(r.Bool())
		w.honestRound(r, false)
	}
	c.Count(fmt.Sprintf("scenario/many-sizes/%d", k), "", false)
}

// L3: departed hostile peers have out-voted the honest ones
func genPinned(c *vhlib.Ctx, r *vhlib.Rand) {
	w := makeWorld(c, r, true, 1)
	n := len(w.ti)
	bad := uint32(n + 1 + r.Intn(5000))
	k := 1 + r.Intn(2)
	for j := 0; j <= k; j++ {
		w.opVote(bad)
	}
	w.honestVotes(r, k)
	w.opReq(r.Bool())
	w.honestRound(r, false)
	w.opReq(r.Bool())
	w.honestRound(r, false)
	c.Count("scenario/pinned-size", "", false)
}

// ---------------------------------------------------------------- replay

func replay(c *vhlib.Ctx) {
	var w *world
	u32 := func(s string) uint32 { v, _ := strconv.ParseUint(s, 10, 32); return uint32(v) }
	for _, l := range c.ReplayLines() {
		f := strings.Fields(l)
		if f[0] == "new" && len(f) >= 3 {
			w = newWorld(c, f[2], 1)
			w.valid = validMetadata(w.ti)
			continue
		}
		if w == nil {
			continue
		}
		switch {
		case f[0] == "vote" && len(f) == 2:
			w.opVote(u32(f[1]))
		case f[0] == "votev" && len(f) >= 2:
			w.opVoteEv(u32(f[1]))
		case f[0] == "resize" && len(f) == 2:
			w.opResize(u32(f[1]))
		case f[0] == "req":
			w.opReq(false)
		case f[0] == "reqn":
			w.opReq(true)
		case f[0] == "join":
			w.opJoin()
		case f[0] == "got" && len(f) == 4:
			w.opGot(u32(f[1]), u32(f[2]), f[3])
		case f[0] == "gotev" && len(f) >= 4:
			w.opGotEv(u32(f[1]), u32(f[2]), f[3])
		}
	}
}

func main() {
	c := vhlib.Init("c12")
	defer c.Close()
	config.SetIdleRate(0)
	c.Rep.Rule = "scripts over real info dictionaries of sizes {1,16383,16384,16385,40000,49152,...}: honest/forged/duplicated/re-ordered/wrong-size/wrong-index/wrong-length blocks, size votes, requests, direct calls and end-to-end peer messages; non-trivial = the operation changed the metadata state; distinct = distinct op lines"
	if c.Replay != "" {
		safely(c, func() { replay(c) })
		return
	}
	for i := 0; i < c.N; i++ {
		i := i
		safely(c, func() {
			switch k := i % 10; {
			case k < 6:
				genRandom(c, c.R)
			case k == 6:
				genCleanRound(c, c.R)
			case k == 7:
				genTwoRounds(c, c.R)
			case k == 8:
				genPoisoned(c, c.R)
			case i%30 == 9:
				genPinned(c, c.R)
			case i%30 == 19:
				genManySizes(c, c.R)
			default:
				genOutvoted(c, c.R)
			}
		})
	}
}
