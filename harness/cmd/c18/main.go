// vh c18: privacy switches.  A real torrent (tor.ReadTorrent on generated metainfo with
// trackers and web seeds) driven through the real handlers (VerifHandleEvent, the real
// periodicRequest / maybeWebseed / trackerAnnounce, the real peer.Run, the real tor.Server),
// with every outbound channel observed: fake tracker.Tracker implementations, a local HTTP
// server that is both the web seed and the HTTP proxy, the DHT-announce hook, and a scripted
// remote peer reading storrent's first messages.  Sweep: per-torrent settings x global
// defaults x sequences of SetConf.  A second phase runs real event loops and waits for the
// real 20 s slow ticker (tracker announces are gated there).
//
// Lines (one per step):
//   new p=<0|1> gt=<0|1> gw=<0|1> gd=<0..2>            -> conf t=.. w=.. d=..
//   add                                                -> dht <v6:port>*
//   announce v6=<0|1>                                  -> dht …
//   setconf t= w= d= started=<n>                       -> dht … ws-ok
//   slowtick stale=<0|1> ready=<0|1>                   -> dht … tr <p4>,<p6> | tr none
//   settle fail=<0|1> started=<n>                      -> tr none ws-ok late -
//        (everything in flight - held tracker announces, held web-seed fetches - finishes,
//         failing or succeeding; then the queued events run through the real handler)
//   metadata started=<n>                               -> complete=1 ws-ok late -   (magnet cases)
//   traffic started=<n>                                -> ws-ok late -
//   reqtick started=<n> | webseed idx=<i> started=<n>  -> ws-ok
//   peer dht=<0|1> ext=<0|1> v6seen=<0|1>              -> port=<n|none> ext0=<ver>,<port>,<v6> | ext0=none
//   incoming                                           -> offered=<0|1> accepted=<0|1>
//   incoming-swap   (the torrent is swapped in for an unproxied twin mid-handshake) -> offered=1 accepted=<0|1>
//   readd | readd-deleted   (AddTorrent of a hash that is running / was just unlisted) -> dht …
//   route kind=<k> proxy=<class> direct=<0|1>          -> direct=<0|1>   (proxy-string classes x outbound kinds)
//   realtick t= w= d= p= phase=<n>                     -> tr=<0|1> p4=<n> p6=<n>
package main

import (
	"bufio"
	"bytes"
	"context"
	"crypto/sha1"
	"errors"
	"fmt"
	"io"
	"net"
	"net/http"
	"net/http/httptest"
	"net/netip"
	"os"
	"runtime"
	"sort"
	"strconv"
	"strings"
	"sync"
	"time"

	"github.com/jech/storrent/config"
	"github.com/jech/storrent/crypto"
	"github.com/jech/storrent/hash"
	"github.com/jech/storrent/peer"
	"github.com/jech/storrent/protocol"
	"github.com/jech/storrent/tor"
	"github.com/jech/storrent/tracker"
	"github.com/jech/storrent/webseed"

	"verifharness/vhlib"
)

const (
	protoPort = 6881
	tcp4Port  = 6882
	udp4Port  = 6883
)

// ---------------------------------------------------------------- observation points
type trackerCall struct {
	port4, port6 int
	proxy        string
	url          string
}

// fakeTracker: an announce is held in flight until the harness lets it fail or succeed.
type fakeTracker struct {
	url       string
	tc        *tcase
	mu        sync.Mutex
	state     tracker.State
	rel       chan bool // true = fail
	gaveReady int
}

func (f *fakeTracker) URL() string { return f.url }
func (f *fakeTracker) GetState() (tracker.State, error) {
	f.mu.Lock()
	defer f.mu.Unlock()
	if f.state == tracker.Ready {
		f.gaveReady++
	}
	if f.state == tracker.Error {
		return f.state, errors.New("fake failure")
	}
	return f.state, nil
}
func (f *fakeTracker) Announce(ctx context.Context, hash []byte, myid []byte, want int, size int64,
	port4, port6 int, proxy string, fn func(netip.AddrPort) bool) error {
	f.mu.Lock()
	f.state = tracker.Busy
	rel := make(chan bool, 1)
	f.rel = rel
	f.mu.Unlock()
	f.tc.trStarts <- trackerCall{port4, port6, proxy, f.url}
	fail := false
	var err error
	select {
	case fail = <-rel:
		if fail {
			err = errors.New("fake tracker failure")
		}
	case <-ctx.Done():
		err = ctx.Err()
	case <-time.After(60 * time.Second):
	}
	f.mu.Lock()
	if err != nil {
		f.state = tracker.Error
	} else {
		f.state = tracker.Idle
	}
	f.rel = nil
	f.mu.Unlock()
	f.tc.trDone <- struct{}{}
	return err
}

// releaseTrackers lets every announce in flight finish (failing or not) and waits for it
func (tc *tcase) releaseTrackers(fail bool) {
	n := 0
	for _, f := range tc.trackers {
		f.mu.Lock()
		if f.rel != nil {
			f.rel <- fail
			f.rel = nil
			n++
		}
		f.mu.Unlock()
	}
	for ; n > 0; n-- {
		select {
		case <-tc.trDone:
		case <-time.After(3 * time.Second):
		}
	}
}

// reviveTrackers: time passes, every tracker that is not busy is due again
func (tc *tcase) reviveTrackers() {
	for _, f := range tc.trackers {
		f.mu.Lock()
		if f.state != tracker.Busy {
			f.state = tracker.Ready
		}
		f.mu.Unlock()
	}
}

// trackerReady mirrors trackerAnnounce's walk: some tier's first non-Error tracker is Ready
func (tc *tcase) trackerReady() bool {
	for _, tier := range tc.tiers {
		for _, f := range tier {
			f.mu.Lock()
			st := f.state
			f.mu.Unlock()
			if st == tracker.Ready {
				return true
			}
			if st != tracker.Error {
				break
			}
		}
	}
	return false
}

type dhtCall struct {
	ipv6 bool
	port uint16
}

var dhtMu sync.Mutex
var dhtCalls = map[string][]dhtCall{}

func takeDht(h hash.Hash) []dhtCall {
	dhtMu.Lock()
	defer dhtMu.Unlock()
	k := string(h)
	c := dhtCalls[k]
	delete(dhtCalls, k)
	return c
}

// the web server: web seed and HTTP proxy at once; a fetch is held until the harness lets it
// fail (404) or succeed (206 with the requested range)
type wsControl struct {
	hold     chan struct{}
	success  bool
	inflight int
}

var wsMu sync.Mutex
var wsSeen = map[string]int{} // torrent name -> requests received
var wsCtl = map[string]*wsControl{}

const torrentLength = 65536 * 16

func wsHandler(w http.ResponseWriter, r *http.Request) {
	parts := strings.Split(strings.Trim(r.URL.Path, "/"), "/")
	name := parts[len(parts)-1]
	wsMu.Lock()
	wsSeen[name]++
	ctl := wsCtl[name]
	var hold chan struct{}
	if ctl != nil {
		ctl.inflight++
		hold = ctl.hold
	}
	wsMu.Unlock()
	if hold != nil {
		select {
		case <-hold:
		case <-r.Context().Done():
		case <-time.After(60 * time.Second):
		}
	}
	success := false
	wsMu.Lock()
	if ctl != nil {
		success = ctl.success
	}
	wsMu.Unlock()
	var from, to int64
	if n, _ := fmt.Sscanf(r.Header.Get("Range"), "bytes=%d-%d", &from, &to); success && n == 2 && to >= from && to < torrentLength {
		w.Header().Set("Content-Range", fmt.Sprintf("bytes %d-%d/%d", from, to, torrentLength))
		w.Header().Set("Content-Length", strconv.FormatInt(to-from+1, 10))
		w.WriteHeader(http.StatusPartialContent)
		w.Write(make([]byte, to-from+1))
	} else {
		http.Error(w, "gone", http.StatusNotFound)
	}
	wsMu.Lock()
	if ctl != nil {
		ctl.inflight--
	}
	wsMu.Unlock()
}

// releaseFetches lets every held fetch of the torrent finish and waits for the handlers
func (tc *tcase) releaseFetches(success bool) {
	wsMu.Lock()
	ctl := wsCtl[tc.name]
	if ctl == nil {
		wsMu.Unlock()
		return
	}
	ctl.success = success
	close(ctl.hold)
	wsMu.Unlock()
	deadline := time.Now().Add(3 * time.Second)
	for time.Now().Before(deadline) {
		wsMu.Lock()
		n := ctl.inflight
		wsMu.Unlock()
		if n == 0 {
			break
		}
		time.Sleep(200 * time.Microsecond)
	}
	wsMu.Lock()
	ctl.hold = make(chan struct{})
	wsMu.Unlock()
}

func wsCount(name string) int {
	wsMu.Lock()
	defer wsMu.Unlock()
	return wsSeen[name]
}

// ---------------------------------------------------------------- torrents
func bstr(s string) string { return fmt.Sprintf("%d:%s", len(s), s) }

var serial int

func metainfo(name string, wsURL string, nws int) []byte {
	const plen = 65536
	const npieces = 16
	var pieces bytes.Buffer
	for i := 0; i < npieces; i++ {
		h := sha1.Sum([]byte(fmt.Sprintf("piece %d of %s", i, name)))
		pieces.Write(h[:])
	}
	info := "d6:lengthi" + strconv.Itoa(plen*npieces) + "e4:name" + bstr(name) +
		"12:piece lengthi" + strconv.Itoa(plen) + "e6:pieces" + strconv.Itoa(pieces.Len()) + ":" + pieces.String() + "e"
	urls := "l"
	for i := 0; i < nws; i++ {
		urls += bstr(fmt.Sprintf("%s/ws%d/", wsURL, i))
	}
	urls += "e"
	return []byte("d8:announce" + bstr("http://tracker.invalid/announce") + "4:info" + info + "8:url-list" + urls + "e")
}

type conf struct {
	trackers, webseeds bool
	dht                int
}

func (c conf) String() string { return fmt.Sprintf("t=%s w=%s d=%d", b01(c.trackers), b01(c.webseeds), c.dht) }

func b01(b bool) string {
	if b {
		return "1"
	}
	return "0"
}

type remotePeer struct {
	b        net.Conn
	w        *bufio.Writer
	ext      bool
	mu       sync.Mutex
	prologue bool     // the first messages have been read
	late     []string // Port / Extended0 messages seen after the prologue
}

type tcase struct {
	t        *tor.Torrent
	name     string
	proxied  bool
	magnet   bool
	info     []byte
	cur      conf
	trackers []*fakeTracker
	tiers    [][]*fakeTracker
	trStarts chan trackerCall
	trDone   chan struct{}
	ctx      context.Context
	cancel   context.CancelFunc
	conns    []net.Conn
	remotes  []*remotePeer
	nextIdx  uint32
	accounted int // requests of this torrent seen by the web server and attributed to a step
}

var wsURL string

func infoOf(meta []byte) []byte {
	i := bytes.Index(meta, []byte("4:infod"))
	j := bytes.LastIndex(meta, []byte("8:url-list"))
	return meta[i+6 : j]
}

func newTorrent(proxied bool, loop bool, magnet bool) (*tcase, error) {
	serial++
	return newNamedTorrent(fmt.Sprintf("c18-%d", serial), proxied, loop, magnet, true)
}

func newNamedTorrent(name string, proxied bool, loop bool, magnet bool, register bool) (*tcase, error) {
	proxy := ""
	if proxied {
		proxy = wsURL // the local server doubles as an HTTP proxy
	}
	meta := metainfo(name, wsURL, 6)
	t, err := tor.ReadTorrent(proxy, bytes.NewReader(meta))
	if err != nil {
		return nil, err
	}
	tc := &tcase{name: name, proxied: proxied, magnet: magnet, info: infoOf(meta)}
	if magnet {
		// what ReadMagnet produces: hash and web seeds known, no metadata yet
		m, err := tor.New(proxy, t.Hash, "", nil, 0, nil, t.Webseeds())
		if err != nil {
			return nil, err
		}
		if h := sha1.Sum(tc.info); !bytes.Equal(h[:], t.Hash) {
			return nil, errors.New("info extraction")
		}
		t = m
	}
	t.Log.SetOutput(io.Discard)
	tc.t = t
	d, ut, uw := t.VerifConf()
	tc.cur = conf{ut, uw, d}
	tc.trStarts = make(chan trackerCall, 256)
	tc.trDone = make(chan struct{}, 256)
	var tiers [][]tracker.Tracker
	for ti, n := range []int{3, 2, 1} {
		var tier []tracker.Tracker
		var ftier []*fakeTracker
		for i := 0; i < n; i++ {
			f := &fakeTracker{url: fmt.Sprintf("fake://%s/%d/%d", name, ti, i), tc: tc, state: tracker.Ready}
			tc.trackers = append(tc.trackers, f)
			ftier = append(ftier, f)
			tier = append(tier, f)
		}
		tiers = append(tiers, tier)
		tc.tiers = append(tc.tiers, ftier)
	}
	t.VerifSetTrackers(tiers)
	tc.ctx, tc.cancel = context.WithCancel(context.Background())
	wsMu.Lock()
	if wsCtl[name] == nil {
		wsCtl[name] = &wsControl{hold: make(chan struct{})}
	}
	wsMu.Unlock()
	if !loop {
		tor.VerifInit(t, 4096, uint64(serial))
		if register && !tor.VerifAdd(t) {
			return nil, errors.New("duplicate torrent")
		}
	}
	return tc, nil
}

func (tc *tcase) close() {
	tc.cancel()
	tc.releaseTrackers(false)
	wsMu.Lock()
	if ctl := wsCtl[tc.name]; ctl != nil {
		close(ctl.hold)
		ctl.hold = nil
		delete(wsCtl, tc.name)
	}
	wsMu.Unlock()
	for _, c := range tc.conns {
		c.Close()
	}
}

func (tc *tcase) wsBusy() int {
	n := 0
	for _, ws := range tc.t.Webseeds() {
		n += ws.Count()
	}
	return n
}

// fetchesStarted runs f and returns how many web-seed fetches it started.  maybeWebseed
// marks the chunks of a fetch in flight before it launches the goroutine, so if no chunk's
// in-flight count went up nothing was started (synchronous).  Otherwise the goroutines are
// given the processor; each fetch counts itself in its web seed (Count) before any I/O and
// then hangs in our server, so we wait until the server has seen as many requests as the
// web seeds have fetches under way.  (No fetch finishes meanwhile: they are all held.)
func (tc *tcase) fetchesStarted(c *vhlib.Ctx, f func()) int {
	n := tc.fetchesStarted0(f)
	_ = n
	// every request the server has received for this torrent is accounted exactly once,
	// in the step during (or just before) which it arrived - including one that was
	// decided earlier and reaches the server only now
	total := wsCount(tc.name)
	d := total - tc.accounted
	tc.accounted = total
	return d
}

func (tc *tcase) fetchesStarted0(f func()) int {
	before := wsCount(tc.name)
	busy0 := tc.wsBusy()
	fl0 := tc.t.VerifInFlight()
	f()
	fl1 := tc.t.VerifInFlight()
	increased := len(fl1) != len(fl0)
	for i := range fl1 {
		if i < len(fl0) && fl1[i] > fl0[i] {
			increased = true
		}
	}
	if !increased {
		return wsCount(tc.name) - before
	}
	for i := 0; i < 200; i++ {
		runtime.Gosched()
	}
	start := time.Now()
	for {
		k := tc.wsBusy() - busy0
		a := wsCount(tc.name) - before
		if k > 0 && a >= k {
			time.Sleep(300 * time.Microsecond)
			if tc.wsBusy()-busy0 <= wsCount(tc.name)-before {
				return wsCount(tc.name) - before
			}
			continue
		}
		if k <= 0 && time.Since(start) > 4*time.Millisecond {
			return a // the chunks were requested from peers
		}
		if time.Since(start) > 3*time.Second {
			return a
		}
		time.Sleep(100 * time.Microsecond)
	}
}

func dhtStr(cs []dhtCall) string {
	if len(cs) == 0 {
		return "dht -"
	}
	var s []string
	for _, c := range cs {
		s = append(s, fmt.Sprintf("%s:%d", b01(c.ipv6), c.port))
	}
	return "dht " + strings.Join(s, " ")
}

// trackerCalls: the announces that STARTED since the last call.  If trackerAnnounce found a
// Ready tracker it has launched the announce goroutine: wait for it to reach the fake.
func (tc *tcase) trackerCalls() []trackerCall {
	var out []trackerCall
	gave := 0
	for _, f := range tc.trackers {
		f.mu.Lock()
		gave += f.gaveReady
		f.gaveReady = 0
		f.mu.Unlock()
	}
	for ; gave > 0; gave-- {
		select {
		case c := <-tc.trStarts:
			out = append(out, c)
		case <-time.After(3 * time.Second):
		}
	}
	for {
		select {
		case c := <-tc.trStarts:
			out = append(out, c)
			continue
		default:
		}
		break
	}
	return out
}

func trStr(trs []trackerCall) string {
	if len(trs) == 0 {
		return "tr none"
	}
	s := fmt.Sprintf("tr %d,%d", trs[0].port4, trs[0].port6)
	if len(trs) > 1 {
		s += fmt.Sprintf(" +%d", len(trs)-1)
	}
	return s
}

// pump runs everything queued for the torrent through the real handler (what the event
// loop would do), a few rounds so that goroutines woken by it can post their events too
func (tc *tcase) pump(rounds int) {
	for r := 0; r < rounds; r++ {
		time.Sleep(time.Millisecond)
		for {
			select {
			case e := <-tc.t.Event:
				tc.handle(e)
				continue
			default:
			}
			break
		}
	}
}

// takeLate: the Port / Extended0 messages the remote ends received after the prologue
func (tc *tcase) takeLate() []string {
	var out []string
	for _, r := range tc.remotes {
		r.mu.Lock()
		out = append(out, r.late...)
		r.late = nil
		r.mu.Unlock()
	}
	return out
}

func lateStr(l []string) string {
	if len(l) == 0 {
		return "late -"
	}
	return "late " + strings.Join(l, ";")
}

func (tc *tcase) checkLate(c *vhlib.Ctx, l []string, step string) {
	if !tc.proxied {
		return
	}
	for _, m := range l {
		if strings.HasPrefix(m, "port=") {
			c.Violate("proxied-port-message", "a proxied torrent sent a DHT Port message during "+step+": "+m, c.Case())
		} else if m != "ext0=0,0,0" {
			c.Violate("proxied-extended-handshake:"+step, "a proxied torrent sent an extended handshake revealing version/port/IPv6 during "+step+": "+m, c.Case())
		}
	}
}

// ---------------------------------------------------------------- the oracle (property text)
func (tc *tcase) checkDht(c *vhlib.Ctx, cs []dhtCall, step string) {
	for _, d := range cs {
		if tc.cur.dht == 0 {
			c.Violate("dht-announce-while-none:"+step, fmt.Sprintf("DHT announce (ipv6=%v port=%d) with dht mode none", d.ipv6, d.port), c.Case())
		}
		if d.port != 0 && (tc.cur.dht != 2 || tc.proxied) {
			c.Violate("dht-port-advertised:"+step, fmt.Sprintf("DHT announce advertises port %d with mode=%d proxied=%v", d.port, tc.cur.dht, tc.proxied), c.Case())
		}
	}
}

func (tc *tcase) checkTrackers(c *vhlib.Ctx, cs []trackerCall, step string) {
	for _, a := range cs {
		if !tc.cur.trackers {
			c.Violate("tracker-contacted-while-disabled:"+step, "tracker announce with useTrackers off", c.Case())
		}
		if tc.proxied && (a.port4 != 0 || a.port6 != 0) {
			c.Violate("tracker-port-revealed:"+step, fmt.Sprintf("proxied torrent announced ports %d,%d to a tracker", a.port4, a.port6), c.Case())
		}
	}
}

func (tc *tcase) checkFetch(c *vhlib.Ctx, n int, step string) {
	if n > 0 && !tc.cur.webseeds {
		c.Violate("webseed-fetch-while-disabled:"+step, fmt.Sprintf("%d web-seed fetch(es) started with useWebseeds off", n), c.Case())
	}
}

// ---------------------------------------------------------------- steps
func (tc *tcase) handle(e peer.TorEvent) {
	tor.VerifHandleEvent(tc.ctx, tc.t, e)
}

func stepAdd(c *vhlib.Ctx, tc *tcase) {
	// the real AddTorrent on a twin with the same settings (it starts an event loop, which
	// is stopped at once): AddTorrent's own announces
	twin, err := newTorrent(tc.proxied, true, false)
	if err != nil {
		c.Emit("add", "error "+err.Error())
		return
	}
	ctx, cancel := context.WithCancel(context.Background())
	_, err = tor.AddTorrent(ctx, twin.t)
	var cs []dhtCall
	if err == nil {
		cs = takeDht(twin.t.Hash)
		twin.t.Kill(context.Background())
	}
	cancel()
	twin.close()
	c.Emit("add", dhtStr(cs))
	tc.checkDht(c, cs, "add")
	c.Count("add", tc.cur.String(), len(cs) > 0)
}

func stepAnnounce(c *vhlib.Ctx, tc *tcase, v6 bool) {
	tc.handle(peer.TorAnnounce{IPv6: v6})
	cs := takeDht(tc.t.Hash)
	c.Emit("announce v6="+b01(v6), dhtStr(cs))
	tc.checkDht(c, cs, "announce")
	c.Count("announce", tc.cur.String(), len(cs) > 0)
}

func stepSetConf(c *vhlib.Ctx, tc *tcase, nc conf) {
	ch := make(chan struct{})
	n := tc.fetchesStarted(c, func() {
		tc.handle(peer.TorSetConf{Conf: peer.TorConf{DhtMode: config.DhtMode(nc.dht), UseTrackers: nc.trackers, UseWebseeds: nc.webseeds}, Ch: ch})
	})
	tc.cur = nc
	cs := takeDht(tc.t.Hash)
	c.Emit(fmt.Sprintf("setconf %s started=%d", nc, n), dhtStr(cs)+" ws-ok")
	tc.checkDht(c, cs, "setconf")
	tc.checkFetch(c, n, "setconf")
	d, ut, uw := tc.t.VerifConf()
	if d != nc.dht || ut != nc.trackers || uw != nc.webseeds {
		c.Violate("setconf-not-applied", fmt.Sprintf("SetConf(%s) left %d %v %v", nc, d, ut, uw), c.Case())
	}
	c.Count("setconf", nc.String(), n > 0 || len(cs) > 0)
}

func stepSlowTick(c *vhlib.Ctx, tc *tcase, stale bool) {
	// the body of run()'s slow tick, transcribed (the real ticker is exercised by the
	// realtick phase): announces when stale, trackerAnnounce under t.useTrackers
	ready := tc.trackerReady()
	if stale {
		tc.handle(peer.TorAnnounce{IPv6: true})
		tc.handle(peer.TorAnnounce{IPv6: false})
	}
	_, ut, _ := tc.t.VerifConf()
	if ut {
		tor.VerifTrackerAnnounce(tc.ctx, tc.t)
	}
	cs := takeDht(tc.t.Hash)
	trs := tc.trackerCalls()
	s := trStr(trs)
	c.Emit("slowtick stale="+b01(stale)+" ready="+b01(ready), dhtStr(cs)+" "+s)
	tc.checkDht(c, cs, "slowtick")
	tc.checkTrackers(c, trs, "slowtick")
	c.Count("slowtick", tc.cur.String()+s, len(trs) > 0)
}

// stepSettle: everything in flight finishes - held tracker announces and held web-seed
// fetches fail or succeed - and the events this produces (and whatever the peers have
// queued) run through the real handler, a few loop iterations
func stepSettle(c *vhlib.Ctx, tc *tcase, fail bool) {
	tc.releaseTrackers(fail)
	tc.releaseFetches(!fail)
	n := tc.fetchesStarted(c, func() { tc.pump(4) })
	trs := tc.trackerCalls()
	cs := takeDht(tc.t.Hash)
	late := tc.takeLate()
	obs := trStr(trs) + " ws-ok " + lateStr(late)
	if len(cs) > 0 {
		obs = dhtStr(cs) + " " + obs
	}
	c.Emit(fmt.Sprintf("settle fail=%s started=%d", b01(fail), n), obs)
	tc.checkTrackers(c, trs, "settle")
	tc.checkDht(c, cs, "settle")
	tc.checkFetch(c, n, "settle")
	tc.checkLate(c, late, "settle")
	tc.reviveTrackers()
	c.Count("settle", fmt.Sprintf("%s fail=%v %s", tc.cur, fail, obs), len(trs) > 0 || n > 0)
}

func (r *remotePeer) send(ms ...protocol.Message) {
	r.b.SetWriteDeadline(time.Now().Add(2 * time.Second))
	for _, m := range ms {
		if protocol.Write(r.w, m, nil) != nil {
			return
		}
	}
	r.w.Flush()
}

// stepMetadata (magnet cases): a remote peer announces the metadata size in its extended
// handshake and delivers the metadata over the wire; the torrent completes it and tells
// every running peer (PeerMetadataComplete)
func stepMetadata(c *vhlib.Ctx, tc *tcase) {
	var src *remotePeer
	for _, r := range tc.remotes {
		if r.ext {
			src = r
			break
		}
	}
	n := 0
	if !tc.t.InfoComplete() && src != nil {
		n = tc.fetchesStarted(c, func() {
			src.send(protocol.Extended0{MetadataSize: uint32(len(tc.info)),
				Messages: map[string]uint8{"ut_metadata": protocol.ExtMetadata, "ut_pex": protocol.ExtPex}})
			deadline := time.Now().Add(2 * time.Second)
			for tc.t.VerifInfoState().InfoLen != len(tc.info) && time.Now().Before(deadline) {
				tc.pump(1)
			}
			src.send(protocol.ExtendedMetadata{Subtype: protocol.ExtMetadata, Type: 1, Piece: 0,
				TotalSize: uint32(len(tc.info)), Data: append([]byte(nil), tc.info...)})
			for !tc.t.InfoComplete() && time.Now().Before(deadline) {
				tc.pump(1)
			}
			tc.pump(4)
		})
	}
	late := tc.takeLate()
	trs := tc.trackerCalls()
	cs := takeDht(tc.t.Hash)
	obs := "complete=" + b01(tc.t.InfoComplete()) + " ws-ok " + lateStr(late)
	if len(trs) > 0 || len(cs) > 0 {
		obs = dhtStr(cs) + " " + trStr(trs) + " " + obs
	}
	c.Emit(fmt.Sprintf("metadata started=%d", n), obs)
	tc.checkFetch(c, n, "metadata")
	tc.checkLate(c, late, "metadata")
	tc.checkTrackers(c, trs, "metadata")
	tc.checkDht(c, cs, "metadata")
	c.Count("metadata", fmt.Sprintf("p=%v %s", tc.proxied, obs), true)
}

// stepTraffic: ordinary traffic on every connection: the remote ends unchoke us, announce
// pieces and get interested; we announce a piece; everything runs through the handlers
func stepTraffic(c *vhlib.Ctx, tc *tcase) {
	n := tc.fetchesStarted(c, func() {
		for _, r := range tc.remotes {
			r.send(protocol.Unchoke{}, protocol.Have{Index: tc.nextIdx % 16}, protocol.Have{Index: (tc.nextIdx + 5) % 16}, protocol.Interested{})
		}
		if tc.t.InfoComplete() {
			tc.handle(peer.TorHave{Index: (tc.nextIdx + 9) % 16, Have: true})
		}
		tc.pump(4)
		for _, r := range tc.remotes {
			r.send(protocol.Choke{})
		}
		tc.pump(2)
	})
	late := tc.takeLate()
	trs := tc.trackerCalls()
	cs := takeDht(tc.t.Hash)
	obs := "ws-ok " + lateStr(late)
	if len(trs) > 0 || len(cs) > 0 {
		obs = dhtStr(cs) + " " + trStr(trs) + " " + obs
	}
	c.Emit(fmt.Sprintf("traffic started=%d", n), obs)
	tc.checkFetch(c, n, "traffic")
	tc.checkLate(c, late, "traffic")
	tc.checkTrackers(c, trs, "traffic")
	tc.checkDht(c, cs, "traffic")
	c.Count("traffic", fmt.Sprintf("p=%v %s", tc.proxied, obs), n > 0)
}

func stepReqTick(c *vhlib.Ctx, tc *tcase) {
	n := tc.fetchesStarted(c, func() { tor.VerifPeriodicRequest(tc.ctx, tc.t) })
	c.Emit(fmt.Sprintf("reqtick started=%d", n), "ws-ok")
	tc.checkFetch(c, n, "reqtick")
	c.Count("reqtick", fmt.Sprintf("%s n=%d", tc.cur, n), n > 0)
}

func stepWebseed(c *vhlib.Ctx, tc *tcase) {
	idx := tc.nextIdx
	tc.nextIdx = (tc.nextIdx + 1) % 16
	n := tc.fetchesStarted(c, func() {
		// periodicRequest, its only caller, returns before it without metadata
		if tc.t.InfoComplete() {
			tor.VerifMaybeWebseed(tc.ctx, tc.t, idx, false)
		}
	})
	c.Emit(fmt.Sprintf("webseed idx=%d started=%d", idx, n), "ws-ok")
	tc.checkFetch(c, n, "webseed")
	c.Count("webseed", fmt.Sprintf("%s n=%d", tc.cur, n), n > 0)
}

// stepWant: a client requests pieces (TorRequest through the real handler, which calls
// maybeRequest -> periodicRequest)
func stepWant(c *vhlib.Ctx, tc *tcase) {
	idx := tc.nextIdx
	tc.nextIdx = (tc.nextIdx + 1) % 16
	n := tc.fetchesStarted(c, func() {
		tc.handle(peer.TorRequest{Index: idx, Priority: 1, Request: true, Ch: nil})
	})
	c.Emit(fmt.Sprintf("want idx=%d started=%d", idx, n), "ws-ok")
	tc.checkFetch(c, n, "want")
	c.Count("want", fmt.Sprintf("%s n=%d", tc.cur, n), n > 0)
}

func stepPeer(c *vhlib.Ctx, tc *tcase, dht, ext bool) {
	a, b := net.Pipe()
	tc.conns = append(tc.conns, a, b)
	id := sha1.Sum([]byte(fmt.Sprintf("peer %s %d", tc.name, len(tc.conns))))
	p := peer.New(tc.t.VerifProxy(), a, netip.AddrPortFrom(netip.AddrFrom4([4]byte{8, 8, byte(serial), byte(len(tc.conns))}), 6881),
		false, protocol.HandshakeResult{Hash: tc.t.Hash, Id: hash.Hash(id[:]), Dht: dht, Fast: true, Extended: ext})
	p.Log.SetOutput(io.Discard)
	type seen struct {
		port   string
		ext0   string
		v6seen bool
		err    string
	}
	rp := &remotePeer{b: b, w: bufio.NewWriter(b), ext: ext}
	tc.remotes = append(tc.remotes, rp)
	res := make(chan seen, 1)
	go func() {
		// reads EVERYTHING storrent sends on this connection for the whole case
		s := seen{port: "none", ext0: "none"}
		r := bufio.NewReader(b)
		b.SetReadDeadline(time.Now().Add(3 * time.Second))
		prologue := true
		for {
			m, err := protocol.Read(r, nil)
			if err != nil && errors.Is(err, protocol.ErrParse) && !prologue {
				continue // a frame we cannot decode was skipped; keep reading
			}
			if err != nil {
				if prologue {
					s.err = err.Error()
					res <- s
				}
				return
			}
			switch m := m.(type) {
			case protocol.Port:
				if prologue {
					s.port = strconv.Itoa(int(m.Port))
				} else {
					rp.mu.Lock()
					rp.late = append(rp.late, "port="+strconv.Itoa(int(m.Port)))
					rp.mu.Unlock()
				}
			case protocol.Extended0:
				if prologue {
					s.v6seen = m.IPv6.IsValid()
					s.ext0 = fmt.Sprintf("%s,%d", b01(m.Version != ""), m.Port)
				} else {
					rp.mu.Lock()
					rp.late = append(rp.late, fmt.Sprintf("ext0=%s,%d,%s", b01(m.Version != ""), m.Port, b01(m.IPv6.IsValid() || m.IPv4.IsValid())))
					rp.mu.Unlock()
				}
			case protocol.HaveNone, protocol.HaveAll, protocol.Bitfield:
				if prologue {
					prologue = false
					b.SetReadDeadline(time.Time{})
					res <- s
				}
			}
		}
	}()
	tc.handle(peer.TorAddPeer{Peer: p, Init: nil}) // starts the real peer.Run
	s := <-res
	obs := "port=" + s.port + " ext0=" + s.ext0
	if s.ext0 != "none" {
		obs += "," + b01(s.v6seen)
	}
	if s.err != "" {
		obs += " err"
	}
	c.Emit(fmt.Sprintf("peer dht=%s ext=%s v6seen=%s", b01(dht), b01(ext), b01(s.v6seen)), obs)
	if tc.proxied {
		if s.port != "none" {
			c.Violate("proxied-port-message", "a proxied torrent sent a DHT Port message: "+obs, c.Case())
		}
		if s.ext0 != "none" && (s.ext0 != "0,0" || s.v6seen) {
			c.Violate("proxied-extended-handshake", "a proxied torrent's extended handshake reveals version/port/IPv6: "+obs, c.Case())
		}
	}
	c.Count("peer", fmt.Sprintf("p=%v %s", tc.proxied, obs), true)
}

type addrConn struct {
	net.Conn
	remote net.Addr
}

func (c addrConn) RemoteAddr() net.Addr { return c.remote }

func stepIncoming(c *vhlib.Ctx, tc *tcase) {
	offered := false
	for _, hp := range tor.VerifInfoHashes(false) {
		if hp.First.Equal(tc.t.Hash) {
			offered = true
		}
	}
	a, b := net.Pipe()
	tc.conns = append(tc.conns, a, b)
	// pump the torrent's queue through the real handler while Server runs
	stop := make(chan struct{})
	pumped := make(chan struct{})
	go func() {
		defer close(pumped)
		for {
			select {
			case e := <-tc.t.Event:
				tc.handle(e)
			case <-stop:
				return
			}
		}
	}()
	go func() {
		id := sha1.Sum([]byte("remote " + tc.name))
		hs := append([]byte{19}, []byte("BitTorrent protocol")...)
		hs = append(hs, 0, 0, 0, 0, 0, 0x10, 0, 0x05)
		hs = append(hs, tc.t.Hash...)
		hs = append(hs, id[:]...)
		b.SetDeadline(time.Now().Add(3 * time.Second))
		b.Write(hs)
		io.Copy(io.Discard, b)
	}()
	conn := addrConn{a, &net.TCPAddr{IP: net.IPv4(8, 8, 4, 4), Port: 50000}}
	errc := make(chan error, 1)
	go func() { errc <- tor.Server(conn, crypto.DefaultOptions(false, false)) }()
	var err error
	select {
	case err = <-errc:
	case <-time.After(5 * time.Second):
		err = errors.New("timeout")
	}
	// let the handler finish with TorAddPeer before the pump stops
	time.Sleep(time.Millisecond)
	for len(tc.t.Event) > 0 {
		time.Sleep(200 * time.Microsecond)
	}
	close(stop)
	<-pumped
	accepted := err == nil
	obs := fmt.Sprintf("offered=%s accepted=%s", b01(offered), b01(accepted))
	c.Emit("incoming", obs)
	if tc.proxied && offered {
		c.Violate("proxied-hash-offered", "a proxied torrent's hash is in the list offered to ServerHandshake", c.Case())
	}
	if tc.proxied && accepted {
		c.Violate("proxied-incoming-accepted", "a proxied torrent accepted an incoming connection", c.Case())
	}
	if !tc.proxied && !accepted {
		c.Note("incoming on an unproxied torrent failed: " + fmt.Sprint(err))
	}
	c.Count("incoming", fmt.Sprintf("p=%v %s", tc.proxied, obs), true)
}

// stepIncomingSwap: an incoming handshake is under way for this info-hash while an
// UNPROXIED torrent with that hash is listed; before the remote sends the last part of the
// handshake (its peer id) that torrent is removed and this case's torrent is listed in its
// place.  tor.Server looks the torrent up again after the handshake.
func stepIncomingSwap(c *vhlib.Ctx, tc *tcase) {
	tor.VerifDel(tc.t.Hash)
	twin, err := newNamedTorrent(tc.name, false, false, false, true)
	if err != nil || !bytes.Equal(twin.t.Hash, tc.t.Hash) {
		tor.VerifAdd(tc.t)
		c.Emit("incoming-swap", "error twin")
		return
	}
	offered := false
	for _, hp := range tor.VerifInfoHashes(false) {
		if hp.First.Equal(tc.t.Hash) {
			offered = true
		}
	}
	a, b := net.Pipe()
	tc.conns = append(tc.conns, a, b)
	stop := make(chan struct{})
	pumped := make(chan struct{})
	go func() {
		defer close(pumped)
		for {
			select {
			case e := <-tc.t.Event:
				tc.handle(e)
			case <-stop:
				return
			}
		}
	}()
	conn := addrConn{a, &net.TCPAddr{IP: net.IPv4(8, 8, 4, 4), Port: 50001}}
	errc := make(chan error, 1)
	go func() { errc <- tor.Server(conn, crypto.DefaultOptions(false, false)) }()
	id := sha1.Sum([]byte("remote swap " + tc.name))
	hs := append([]byte{19}, []byte("BitTorrent protocol")...)
	hs = append(hs, 0, 0, 0, 0, 0, 0x10, 0, 0x05)
	hs = append(hs, tc.t.Hash...)
	b.SetDeadline(time.Now().Add(3 * time.Second))
	b.Write(hs)
	reply := make([]byte, 68)
	_, rerr := io.ReadFull(b, reply) // the server has matched the hash against its snapshot
	// the swap
	tor.VerifDel(twin.t.Hash)
	tor.VerifAdd(tc.t)
	if rerr == nil {
		b.Write(id[:])
	}
	go io.Copy(io.Discard, b)
	select {
	case err = <-errc:
	case <-time.After(5 * time.Second):
		err = errors.New("timeout")
	}
	time.Sleep(time.Millisecond)
	for len(tc.t.Event) > 0 {
		time.Sleep(200 * time.Microsecond)
	}
	close(stop)
	<-pumped
	select {
	case <-twin.t.Done:
	default:
		close(twin.t.Done)
	}
	twin.cancel()
	twin.releaseTrackers(false)
	accepted := err == nil
	obs := fmt.Sprintf("offered=%s accepted=%s", b01(offered), b01(accepted))
	c.Emit("incoming-swap", obs)
	if tc.proxied && accepted {
		c.Violate("proxied-incoming-accepted:swap", "a proxied torrent accepted an incoming connection whose handshake had started while an unproxied torrent with the same info-hash was listed", c.Case())
	}
	c.Count("incoming-swap", fmt.Sprintf("p=%v %s", tc.proxied, obs), true)
}

// stepReadd: AddTorrent is called again for the hash of the running torrent (a freshly built
// *Torrent, carrying the global defaults): it must fail with ErrExist without any outbound
// action - the running torrent's settings are the ones in force for this hash.
// With deleted=true the hash has just been unlisted: the new torrent is added with the global
// defaults and announces accordingly (then it is removed and the case's torrent re-listed).
func stepReadd(c *vhlib.Ctx, tc *tcase, deleted bool, defaults conf) {
	op := "readd"
	if deleted {
		op = "readd-deleted"
		tor.VerifDel(tc.t.Hash)
	}
	dup, err := newNamedTorrent(tc.name, tc.proxied, true, false, false)
	if err != nil || !bytes.Equal(dup.t.Hash, tc.t.Hash) {
		c.Emit(op, "error dup")
		if deleted {
			tor.VerifAdd(tc.t)
		}
		return
	}
	ctx, cancel := context.WithCancel(context.Background())
	_, aerr := tor.AddTorrent(ctx, dup.t)
	cs := takeDht(tc.t.Hash)
	if aerr == nil {
		dup.t.Kill(context.Background())
	}
	cancel()
	dup.cancel()
	dup.releaseTrackers(false)
	if deleted {
		tor.VerifAdd(tc.t)
	}
	obs := dhtStr(cs)
	if deleted != (aerr == nil) {
		obs += fmt.Sprintf(" err=%v", aerr)
	}
	c.Emit(op, obs)
	// the settings in force for this hash: the running torrent's; for a re-add after
	// deletion the new torrent's, i.e. the global defaults
	saved := tc.cur
	if deleted {
		tc.cur = defaults
	}
	tc.checkDht(c, cs, op)
	tc.cur = saved
	c.Count(op, fmt.Sprintf("%s %s", tc.cur, obs), len(cs) > 0)
}

// ---------------------------------------------------------------- proxy-string classes x outbound kinds
type proxyClass struct{ name, value string }

var routeKinds = []string{"ws-getright", "ws-hoffman", "http-tracker", "udp-tracker", "gettorrent", "peer-dial"}

type dstListeners struct {
	mu      sync.Mutex
	hits    map[string]int // kind/tag -> direct arrivals
	http    *httptest.Server
	udp     *net.UDPConn
	tcp     net.Listener
	current string
}

func (d *dstListeners) hit() {
	d.mu.Lock()
	d.hits[d.current]++
	d.mu.Unlock()
}

func newDst() *dstListeners {
	d := &dstListeners{hits: map[string]int{}}
	d.http = httptest.NewServer(http.HandlerFunc(func(w http.ResponseWriter, r *http.Request) {
		d.hit()
		http.Error(w, "direct", http.StatusNotFound)
	}))
	if u, err := net.ListenUDP("udp4", &net.UDPAddr{IP: net.IPv4(127, 0, 0, 1)}); err == nil {
		d.udp = u
		go func() {
			buf := make([]byte, 2048)
			for {
				if _, _, err := u.ReadFromUDP(buf); err != nil {
					return
				}
				d.hit()
			}
		}()
	}
	// peers must be global unicast: listen on a non-loopback address of this machine
	if addrs, err := net.InterfaceAddrs(); err == nil {
		for _, a := range addrs {
			if ipn, ok := a.(*net.IPNet); ok && ipn.IP.To4() != nil && ipn.IP.IsGlobalUnicast() {
				if l, err := net.Listen("tcp4", net.JoinHostPort(ipn.IP.String(), "0")); err == nil {
					d.tcp = l
					go func() {
						for {
							conn, err := l.Accept()
							if err != nil {
								return
							}
							d.hit()
							conn.Close()
						}
					}()
					break
				}
			}
		}
	}
	return d
}

func (d *dstListeners) close() {
	d.http.Close()
	if d.udp != nil {
		d.udp.Close()
	}
	if d.tcp != nil {
		d.tcp.Close()
	}
}

// routeAction performs one outbound action of the given kind for a torrent whose proxy
// setting is `proxy`, through the real code, and waits for it to finish (or fail).
func routeAction(d *dstListeners, kind, proxy string) (skipped bool) {
	serial++
	name := fmt.Sprintf("c18-route-%d", serial)
	t, err := tor.ReadTorrent(proxy, bytes.NewReader(metainfo(name, wsURL, 1)))
	if err != nil {
		return true
	}
	t.Log.SetOutput(io.Discard)
	tor.VerifInit(t, 256, uint64(serial))
	defer close(t.Done)
	ctx, cancel := context.WithTimeout(context.Background(), 4*time.Second)
	defer cancel()
	waitTracker := func(tr tracker.Tracker) {
		t.VerifSetTrackers([][]tracker.Tracker{{tr}})
		tor.VerifTrackerAnnounce(ctx, t) // go trackerAnnounceSingle(ctx, t, tr): passes t.proxy
		deadline := time.Now().Add(5 * time.Second)
		for time.Now().Before(deadline) {
			// the announce sets the tracker's time first: afterwards it is Idle or Error
			if st, _ := tr.GetState(); st == tracker.Idle || st == tracker.Error {
				return
			}
			time.Sleep(200 * time.Microsecond)
		}
	}
	switch kind {
	case "ws-getright":
		ws, ok := webseed.New(d.http.URL+"/wsgr/", true).(*webseed.GetRight)
		if !ok {
			return true
		}
		tor.VerifWebseedGR(ctx, ws, t, 0, 0, 16384)
	case "ws-hoffman":
		ws, ok := webseed.New(d.http.URL+"/wsh", false).(*webseed.Hoffman)
		if !ok {
			return true
		}
		tor.VerifWebseedH(ctx, ws, t, 0, 0, 16384)
	case "http-tracker":
		waitTracker(tracker.New(d.http.URL + "/announce"))
	case "udp-tracker":
		if d.udp == nil {
			return true
		}
		waitTracker(tracker.New("udp://" + d.udp.LocalAddr().String() + "/announce"))
		time.Sleep(2 * time.Millisecond) // a datagram on its way to our own socket
	case "gettorrent":
		tor.GetTorrent(ctx, proxy, d.http.URL+"/file.torrent")
	case "peer-dial":
		if d.tcp == nil {
			return true
		}
		ap, err := netip.ParseAddrPort(d.tcp.Addr().String())
		if err != nil {
			return true
		}
		// once connected, Client() talks to the torrent's event loop, which does not run
		// here: wait for the dial's verdict (an error, or the connection arriving)
		done := make(chan struct{})
		go func() {
			tor.DialClient(ctx, t, ap, crypto.DefaultOptions(false, false))
			close(done)
		}()
		key := d.current
		deadline := time.Now().Add(4 * time.Second)
		for time.Now().Before(deadline) {
			d.mu.Lock()
			n := d.hits[key]
			d.mu.Unlock()
			if n > 0 {
				break
			}
			select {
			case <-done:
				deadline = time.Now()
			default:
				time.Sleep(200 * time.Microsecond)
			}
		}
		time.Sleep(2 * time.Millisecond) // the accept loop's turn
	}
	return false
}

func runRoute(c *vhlib.Ctx, d *dstListeners, kind string, pc proxyClass) {
	c.NewCase()
	d.mu.Lock()
	d.current = kind + "/" + pc.name
	d.mu.Unlock()
	if routeAction(d, kind, pc.value) {
		c.Note("route: " + kind + " not available here")
		return
	}
	d.mu.Lock()
	n := d.hits[kind+"/"+pc.name]
	d.current = "idle"
	d.mu.Unlock()
	c.Emit(fmt.Sprintf("route kind=%s proxy=%s direct=%s", kind, pc.name, b01(n > 0)), "direct="+b01(n > 0))
	if pc.value != "" && n > 0 {
		c.Violate("direct-connection-while-proxied:"+kind+":"+pc.name,
			fmt.Sprintf("with the proxy setting %q (non-empty) %d direct connection(s)/datagram(s) from us reached the %s destination", pc.value, n, kind), c.Case())
	}
	if pc.value == "" && n == 0 {
		c.Note("route: control (no proxy) did not reach the " + kind + " destination")
	}
	c.Count("route/"+kind, pc.name+fmt.Sprintf(" direct=%v", n > 0), true)
}

func proxyClasses() []proxyClass {
	return []proxyClass{
		{"none", ""},
		{"reachable", wsURL},
		{"unreachable-http", "http://127.0.0.1:1"},
		{"unreachable-socks", "socks5://127.0.0.1:1"},
		{"unparsable-blank", "http://127.0.0.1:9050 "},
		{"unparsable-bracket", "http://[::1:9050"},
		{"unparsable-escape", "http://%zz:9050"},
		{"no-scheme", "127.0.0.1:9050"},
		{"no-scheme-name", "localhost:9050"},
		{"no-scheme-slashes", "//127.0.0.1:1"},
		{"unknown-scheme", "foo://127.0.0.1:1"},
		{"no-host", "http://"},
		{"port-zero", "http://127.0.0.1:0"},
	}
}

func runRoutes(c *vhlib.Ctx, only map[string]bool) {
	d := newDst()
	defer d.close()
	for _, pc := range proxyClasses() {
		for _, k := range routeKinds {
			if only != nil && !only[k+"/"+pc.name] {
				continue
			}
			if len(c.Rep.Violations) >= 60 {
				return
			}
			runRoute(c, d, k, pc)
		}
	}
}

// ---------------------------------------------------------------- cases
func setDefaults(gt, gw bool, gd int) {
	config.DefaultUseTrackers = gt
	config.DefaultUseWebseeds = gw
	config.DefaultDhtMode = config.DhtMode(gd)
}

func kvs(ws []string) map[string]string {
	m := map[string]string{}
	for _, w := range ws {
		kv := strings.SplitN(w, "=", 2)
		if len(kv) == 2 {
			m[kv[0]] = kv[1]
		}
	}
	return m
}

func atoi(s string) int { n, _ := strconv.Atoi(s); return n }

// runLines executes op lines (generated or replayed)
func runLines(c *vhlib.Ctx, lines []string) {
	var tc *tcase
	skipping := false
	var defaults conf
	routes := map[string]bool{}
	defer func() {
		if len(routes) > 0 {
			runRoutes(c, routes)
		}
	}()
	defer func() {
		if tc != nil {
			tc.finish(c)
		}
	}()
	for _, l := range lines {
		ws := strings.Fields(l)
		if len(ws) == 0 {
			continue
		}
		m := kvs(ws[1:])
		if ws[0] == "new" {
			if tc != nil {
				tc.finish(c)
				tc = nil
			}
			if len(c.Rep.Violations) >= 30 {
				skipping = true // a broken tree: further cases add only watchdog time
			}
			if skipping {
				continue
			}
			c.NewCase()
			setDefaults(m["gt"] == "1", m["gw"] == "1", atoi(m["gd"]))
			defaults = conf{m["gt"] == "1", m["gw"] == "1", atoi(m["gd"])}
			var err error
			tc, err = newTorrent(m["p"] == "1", false, m["m"] == "1")
			if err != nil {
				c.Emit(l, "error "+err.Error())
				tc = nil
				continue
			}
			c.Emit(l, "conf "+tc.cur.String())
			if tc.cur != (conf{m["gt"] == "1", m["gw"] == "1", atoi(m["gd"])}) {
				c.Violate("defaults-not-applied", "new torrent's settings differ from the global defaults: "+tc.cur.String(), c.Case())
			}
			continue
		}
		if ws[0] == "route" {
			routes[m["kind"]+"/"+m["proxy"]] = true
			continue
		}
		if ws[0] == "realtick" || skipping {
			continue // realtick lines are produced by the realtick phase only
		}
		if tc == nil {
			c.Emit(l, "bad-op")
			continue
		}
		switch ws[0] {
		case "add":
			stepAdd(c, tc)
		case "announce":
			stepAnnounce(c, tc, m["v6"] == "1")
		case "setconf":
			stepSetConf(c, tc, conf{m["t"] == "1", m["w"] == "1", atoi(m["d"])})
		case "slowtick":
			stepSlowTick(c, tc, m["stale"] == "1")
		case "settle":
			stepSettle(c, tc, m["fail"] == "1")
		case "metadata":
			stepMetadata(c, tc)
		case "traffic":
			stepTraffic(c, tc)
		case "reqtick":
			stepReqTick(c, tc)
		case "webseed":
			stepWebseed(c, tc)
		case "want":
			stepWant(c, tc)
		case "peer":
			stepPeer(c, tc, m["dht"] == "1", m["ext"] == "1")
		case "incoming":
			stepIncoming(c, tc)
		case "incoming-swap":
			stepIncomingSwap(c, tc)
		case "readd":
			stepReadd(c, tc, false, defaults)
		case "readd-deleted":
			stepReadd(c, tc, true, defaults)
		default:
			c.Emit(l, "bad-op")
		}
	}
}

func (tc *tcase) finish(c *vhlib.Ctx) {
	// nothing may have reached the web server that we did not see being started
	time.Sleep(300 * time.Microsecond)
	tor.VerifDel(tc.t.Hash)
	select {
	case <-tc.t.Done:
	default:
		close(tc.t.Done)
	}
	tc.close()
}

func genCase(c *vhlib.Ctx, p bool, g conf, seq []conf, full bool, magnet bool) []string {
	ls := []string{fmt.Sprintf("new p=%s gt=%s gw=%s gd=%d m=%s", b01(p), b01(g.trackers), b01(g.webseeds), g.dht, b01(magnet))}
	ls = append(ls, "add")
	if full || magnet {
		// peers are connected for the whole case; their remote ends read everything
		ls = append(ls, fmt.Sprintf("peer dht=%s ext=%s", b01(c.R.Bool()), "1"), "peer dht=1 ext=0")
	}
	ls = append(ls, "want", "reqtick")
	probe := func() {
		ls = append(ls, "announce v6="+b01(c.R.Bool()), "slowtick stale="+b01(c.R.Chance(40)), "want", "reqtick", "webseed")
		if c.R.Chance(30) {
			// a burst: as many transfers to the one web-seed host as the web seeds allow
			ls = append(ls, "webseed", "webseed", "webseed", "webseed")
		}
	}
	probe()
	metaAt := -1
	if magnet {
		metaAt = c.R.Intn(len(seq) + 1)
	}
	for i, nc := range seq {
		if i == metaAt {
			ls = append(ls, "metadata", "traffic")
		}
		ls = append(ls, fmt.Sprintf("setconf %s", nc))
		// whatever is in flight finishes, in either way, before anything is concluded
		ls = append(ls, "settle fail="+b01(c.R.Bool()), "readd")
		probe()
	}
	if metaAt == len(seq) {
		ls = append(ls, "metadata")
	}
	if full || magnet {
		ls = append(ls, "traffic")
	}
	ls = append(ls, "settle fail="+b01(c.R.Bool()), "slowtick stale=0", "settle fail="+b01(c.R.Bool()))
	ls = append(ls, "readd")
	if full {
		ls = append(ls, "incoming", "incoming-swap", "readd-deleted")
	}
	return ls
}

func allConfs() []conf {
	var cs []conf
	for _, t := range []bool{false, true} {
		for _, w := range []bool{false, true} {
			for d := 0; d < 3; d++ {
				cs = append(cs, conf{t, w, d})
			}
		}
	}
	return cs
}

// ---------------------------------------------------------------- real loops, real slow ticker
func realTick(c *vhlib.Ctx, phases int) {
	type rt struct {
		tc *tcase
	}
	c.NewCase()
	setDefaults(false, false, 0)
	var all []*tcase
	cs := allConfs()
	for _, p := range []bool{false, true} {
		for _, cf := range cs {
			tc, err := newTorrent(p, true, false)
			if err != nil {
				continue
			}
			if _, err := tor.AddTorrent(tc.ctx, tc.t); err != nil {
				continue
			}
			tc.t.SetConf(peer.TorConf{DhtMode: config.DhtMode(cf.dht), UseTrackers: cf.trackers, UseWebseeds: cf.webseeds})
			tc.t.GetConf() // barrier
			tc.cur = cf
			takeDht(tc.t.Hash)
			all = append(all, tc)
		}
	}
	for ph := 1; ph <= phases; ph++ {
		// the slow ticker fires every 20 s + jiffy (< 1 s)
		time.Sleep(21500 * time.Millisecond)
		for _, tc := range all {
			tc.t.GetConf() // barrier: the tick's handler has run
			var trs []trackerCall
			for {
				select {
				case x := <-tc.trStarts:
					trs = append(trs, x)
					continue
				case <-time.After(20 * time.Millisecond):
				}
				break
			}
			// the announce succeeds; the tracker is due again at the next tick
			tc.releaseTrackers(false)
			tc.reviveTrackers()
			obs := "tr=0"
			if len(trs) > 0 {
				obs = fmt.Sprintf("tr=1 p4=%d p6=%d", trs[0].port4, trs[0].port6)
			}
			c.Emit(fmt.Sprintf("realtick %s p=%s phase=%d", tc.cur, b01(tc.proxied), ph), obs)
			tc.checkTrackers(c, trs, "realtick")
			if tc.cur.trackers && len(trs) == 0 {
				c.Note("realtick: no tracker announce although enabled (" + tc.cur.String() + ")")
			}
			c.Count("realtick", fmt.Sprintf("%s p=%v %s", tc.cur, tc.proxied, obs), true)
			cs := takeDht(tc.t.Hash)
			tc.checkDht(c, cs, "realtick")
		}
		if ph < phases {
			for _, tc := range all {
				nc := tc.cur
				nc.trackers = !nc.trackers
				tc.t.SetConf(peer.TorConf{DhtMode: config.DhtMode(nc.dht), UseTrackers: nc.trackers, UseWebseeds: nc.webseeds})
				tc.t.GetConf()
				tc.cur = nc
				takeDht(tc.t.Hash)
			}
		}
	}
	for _, tc := range all {
		tc.t.Kill(context.Background())
		tc.close()
	}
}

func main() {
	c := vhlib.Init("c18")
	if f, err := os.OpenFile(os.DevNull, os.O_WRONLY, 0); err == nil {
		os.Stderr = f
	}
	c.Rep.Rule = "every observed outbound action (tracker announce at a fake tracker, request at the local web-seed/proxy server, DHT announce hook, first messages read by a scripted remote peer, tor.Server's verdict) is permitted by the settings in force when it started: trackers only while useTrackers (ports 0,0 when proxied); fetch only while useWebseeds; DHT announce only if mode != none, port != 0 only if normal and unproxied; proxied: no Port message, Extended0 without version/port/IPv6, hash not offered, incoming refused"
	config.ProtocolPort = protoPort
	config.SetExternalIPv4Port(tcp4Port, true)
	config.SetExternalIPv4Port(udp4Port, false)
	config.SetDefaultProxy("")
	config.PrefetchRate = 768 * 1024
	config.MemoryMark = 1 << 30
	srv := httptest.NewServer(http.HandlerFunc(wsHandler))
	defer srv.Close()
	wsURL = srv.URL
	tor.VerifSetDhtAnnounceHook(func(h hash.Hash, ipv6 bool, port uint16) {
		dhtMu.Lock()
		dhtCalls[string(h)] = append(dhtCalls[string(h)], dhtCall{ipv6, port})
		dhtMu.Unlock()
	})
	if c.Replay != "" {
		runLines(c, c.ReplayLines())
		c.Close()
		return
	}
	cs := allConfs()
	// (1) every per-torrent setting x proxy, reached by one SetConf from every global default
	//     class, with peers and an incoming connection
	var lines []string
	for _, p := range []bool{false, true} {
		for i, cf := range cs {
			g := cs[(i*5+3)%len(cs)]
			lines = append(lines, genCase(c, p, g, []conf{cf}, true, i%3 == 0)...)
		}
	}
	// (2) every global default x proxy without any SetConf
	for _, p := range []bool{false, true} {
		for _, g := range cs {
			lines = append(lines, genCase(c, p, g, nil, true, false)...)
		}
	}
	// (3) random sequences of <= 3 SetConf
	for i := 0; i < c.N; i++ {
		var seq []conf
		for k := c.R.Intn(3) + 1; k > 0; k-- {
			seq = append(seq, cs[c.R.Intn(len(cs))])
		}
		lines = append(lines, genCase(c, c.R.Bool(), cs[c.R.Intn(len(cs))], seq, c.R.Chance(25), c.R.Chance(25))...)
	}
	runLines(c, lines)
	// (4) proxy-string classes x outbound kinds
	runRoutes(c, nil)
	// (5) real event loops and the real slow ticker
	phases := 2
	if c.Tier == "thorough" {
		phases = 4
	}
	realTick(c, phases)
	keys := make([]string, 0)
	for k := range c.Rep.Branches {
		keys = append(keys, k)
	}
	sort.Strings(keys)
	c.Close()
}
