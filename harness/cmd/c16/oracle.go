package main

// The property oracle of C16: a restatement of the property on what is observable from
// outside — the messages received from the remote, the messages queued on the peer's
// writer, peer.NumUnchoking(), the length of the upload queue, panics, allocation — and on
// the harness's own reference content.  It shares nothing with the Lean model.

import (
	"bytes"
	"fmt"
	"strings"

	"github.com/jech/storrent/peer"
	"github.com/jech/storrent/protocol"
)

type peerOracle struct {
	fast     bool
	told     bool // the remote was sent Unchoke after the last Choke
	pending  map[req]int
	npending int
	// cancelled requests whose confirmation (a Reject, BEP 6) may still come: a Reject
	// first settles one of these, so that `R R Cancel(R)` -> Reject(R), Piece(R) is fine
	cancelled map[req]int
	fate      map[req]string // why the last instance left `pending`
	slack     int            // requests received while a head-drop reject could not be written
}

func newPeerOracle(fast bool) *peerOracle {
	return &peerOracle{fast: fast, pending: map[req]int{}, fate: map[req]string{}, cancelled: map[req]int{}}
}

func (o *peerOracle) remove(r req, why string) bool {
	if o.pending[r] > 0 {
		o.pending[r]--
		if o.pending[r] == 0 {
			delete(o.pending, r)
		}
		o.npending--
		o.fate[r] = why
		return true
	}
	return false
}

func opKind(kind string, m protocol.Message) string {
	if kind == "msg" {
		return strings.TrimPrefix(fmt.Sprintf("%T", m), "protocol.")
	}
	return kind
}

func (w *world) oracle(hp *hpeer, kind string, e opEnv, m protocol.Message, msgs []protocol.Message,
	pre, post peer.VerifPeerState, pan string, allocDelta uint64, measured bool, opLine string) {
	o := hp.o
	c := w.c
	site := opKind(kind, m)
	viol := func(k, detail string) {
		c.Violate(k, detail, append(c.Case(), opLine))
	}
	if pan != "" {
		p := pan
		if len(p) > 40 {
			p = p[:40]
		}
		viol("panic:"+site+":"+strings.ReplaceAll(p, " ", "_"), pan)
	}

	// 1. what the remote sent
	switch mm := m.(type) {
	case protocol.Request:
		r := req{mm.Index, mm.Begin, mm.Length}
		if o.told {
			o.pending[r]++
			o.npending++
		} else if _, seen := o.fate[r]; !seen {
			o.fate[r] = "received-while-choked"
		}
		if hp.fast && (e.free == 0 || hp.dead) && len(pre.Upload) >= reqQ {
			o.slack++
		}
	case protocol.Cancel:
		if r := (req{mm.Index, mm.Begin, mm.Length}); o.remove(r, "cancelled") {
			o.cancelled[r]++
		}
	}

	// 2. what storrent queued for the remote, in order
	for _, x := range msgs {
		switch x := x.(type) {
		case protocol.Unchoke:
			o.told = true
		case protocol.Choke:
			o.told = false
			for r := range o.pending {
				o.fate[r] = "choked-away"
			}
			o.pending = map[req]int{}
			o.cancelled = map[req]int{}
			o.npending = 0
		case protocol.RejectRequest:
			if !hp.fast {
				viol("reject-nonfast:"+site, fmt.Sprintf("RejectRequest %d %d %d to a peer without the Fast extension", x.Index, x.Begin, x.Length))
			}
			if r := (req{x.Index, x.Begin, x.Length}); o.cancelled[r] > 0 {
				o.cancelled[r]--
			} else {
				o.remove(r, "rejected")
			}
		case protocol.Piece:
			r := req{x.Index, x.Begin, uint32(len(x.Data))}
			if !o.told {
				viol("piece-while-choked:"+site, fmt.Sprintf("Piece %d %d len %d queued while the peer is choked", x.Index, x.Begin, len(x.Data)))
			}
			if !o.remove(r, "answered") {
				why, ok := o.fate[r]
				if !ok {
					why = "never-requested"
				}
				viol("piece-unrequested:"+why, fmt.Sprintf("Piece %d %d len %d answers no outstanding request (%s)", x.Index, x.Begin, len(x.Data), why))
			}
			// payload = verified content of exactly the requested range
			if len(x.Data) > 0 {
				off := uint64(x.Index)*uint64(w.ps) + uint64(x.Begin)
				end := off + uint64(len(x.Data))
				switch {
				case end > uint64(w.length):
					viol("piece-payload:beyond-end", fmt.Sprintf("Piece %d %d len %d extends beyond the torrent", x.Index, x.Begin, len(x.Data)))
				case off/uint64(w.ps) != (end-1)/uint64(w.ps):
					viol("piece-payload:spans-pieces", fmt.Sprintf("Piece %d %d len %d", x.Index, x.Begin, len(x.Data)))
				case w.pstate[off/uint64(w.ps)] != 2:
					viol("piece-payload:unverified", fmt.Sprintf("Piece %d %d len %d served from piece %d which is not verified/held (state %d)", x.Index, x.Begin, len(x.Data), off/uint64(w.ps), w.pstate[off/uint64(w.ps)]))
				case !bytes.Equal(x.Data, w.contentRange(int64(off), int64(end))):
					viol("piece-payload:mismatch", fmt.Sprintf("Piece %d %d len %d differs from the reference content", x.Index, x.Begin, len(x.Data)))
				}
			}
		case protocol.KeepAlive:
		default:
			viol("unexpected-message:"+site, fmt.Sprintf("%T", x))
		}
	}

	// 3. accounting: NumUnchoking() = number of live peers the remote of which was told Unchoke
	want := 0
	for _, q := range w.peers {
		if q.live && q.o.told {
			want++
		}
	}
	if got := peer.NumUnchoking(); got != want {
		viol("count-mismatch:"+site, fmt.Sprintf("NumUnchoking() = %d, peers actually unchoked = %d", got, want))
	}
	if hp.live && post.AmUnchoking != o.told {
		viol("flag-mismatch:"+site, fmt.Sprintf("AmUnchoking = %v but the remote was told %v", post.AmUnchoking, o.told))
	}

	// 4. the upload work queued per peer is bounded
	if n := len(post.Upload); n > reqQ+o.slack {
		viol("queue-unbounded:"+site, fmt.Sprintf("%d requests queued (limit %d + %d congested head-drops)", n, reqQ, o.slack))
	}
	// ... and so is everything else the peer keeps: every slice, map and channel reachable
	// from the Peer struct (items.go), whatever its name.  The constant allows for a full
	// writer channel and a few odds and ends; nothing the remote sends may move it.
	if total, detail := queuedItems(hp.p); total > reqQ+o.slack+hp.cap+16 {
		viol("queue-unbounded:any-field", fmt.Sprintf("%d items held by the peer (%s), limit %d + %d congested head-drops + writer capacity %d + 16", total, detail, reqQ, o.slack, hp.cap))
	}
	if mm, ok := m.(protocol.Request); ok && mm.Length > maxReqLen {
		n := len(post.Upload)
		accepted := n > 0 && (n > len(pre.Upload) || len(pre.Upload) >= reqQ) &&
			post.Upload[n-1] == (peer.Requested{Index: mm.Index, Begin: mm.Begin, Length: mm.Length})
		if accepted {
			viol("oversize-request-queued:Request", fmt.Sprintf("a request for %d bytes (> %d) was accepted into the upload queue: %d bytes of upload work for one 17-byte message", mm.Length, maxReqLen, mm.Length))
		}
	}
	if measured {
		head := pre.Upload[0]
		served := kind == "tick" && pre.AmUnchoking && !e.cong && e.allow
		if !served && allocDelta >= 60000 {
			viol("alloc-when-not-admitted:tick", fmt.Sprintf("%d bytes allocated by an upload tick that served nothing (head length %d)", allocDelta, head.Length))
		}
		if served && allocDelta > uint64(head.Length)+65536 {
			viol("alloc-exceeds-request:tick", fmt.Sprintf("%d bytes allocated to serve %d", allocDelta, head.Length))
		}
		if served && head.Length > maxReqLen {
			viol("oversize-buffer:tick", fmt.Sprintf("%d bytes allocated (request length %d) for one request", allocDelta, head.Length))
		}
	}
}
