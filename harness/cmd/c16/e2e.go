package main

// End-to-end scenarios with the REAL peer.Run (its goroutines, its upload ticker, its
// deferred exit path — which the in-process hook VerifExit only replays): peers over
// net.Pipe, a remote that speaks the wire protocol, the torrent's decisions sent on
// peer.Event.  Oracle only (the model's line for an `e2e` op is the constant "e2e ok");
// watchdogs are generous (10 s) and nothing else depends on time.

import (
	"bufio"
	"bytes"
	"fmt"
	"io"
	"net"
	"net/netip"
	"time"

	"github.com/jech/storrent/peer"
	"github.com/jech/storrent/protocol"
)

type e2ePeer struct {
	p        *peer.Peer
	conn     *xconn
	remote   net.Conn
	fromPeer chan protocol.Message
	rdone    chan struct{}
	torEvent chan peer.TorEvent
	torDone  chan struct{}
	runDone  chan error
	w        *bufio.Writer
	unchoked bool
	gone     bool
}

const e2eWait = 10 * time.Second

func (w *world) e2eNew(fast bool) *e2ePeer {
	c1, c2 := net.Pipe()
	ep := &e2ePeer{remote: c2, conn: &xconn{Conn: c1}}
	ep.p = peer.New("", ep.conn, netip.AddrPort{}, true, protocol.HandshakeResult{Hash: w.t.Hash, Id: w.t.MyId, Fast: fast})
	ep.p.Log.SetOutput(io.Discard)
	ep.p.Pieces = &w.t.Pieces
	ep.torEvent = make(chan peer.TorEvent, 4096)
	ep.torDone = make(chan struct{})
	ep.runDone = make(chan error, 1)
	ep.fromPeer = make(chan protocol.Message, 4096)
	ep.rdone = make(chan struct{})
	ep.w = bufio.NewWriter(c2)
	go protocol.Reader(c2, nil, nil, ep.fromPeer, ep.rdone)
	bm := w.t.Pieces.Bitmap()
	go func() { ep.runDone <- peer.Run(ep.p, ep.torEvent, ep.torDone, w.t.Info, bm, nil) }()
	return ep
}

func (ep *e2ePeer) send(m protocol.Message) error {
	ep.remote.SetWriteDeadline(time.Now().Add(e2eWait))
	if err := protocol.Write(ep.w, m, nil); err != nil {
		return err
	}
	return ep.w.Flush()
}

// waitMsg waits for a message from the peer satisfying f, skipping others.
func (ep *e2ePeer) waitMsg(f func(protocol.Message) bool) (protocol.Message, bool) {
	t := time.NewTimer(e2eWait)
	defer t.Stop()
	for {
		select {
		case m, ok := <-ep.fromPeer:
			if !ok {
				return nil, false
			}
			if f(m) {
				return m, true
			}
		case <-t.C:
			return nil, false
		}
	}
}

func (ep *e2ePeer) waitTor(f func(peer.TorEvent) bool) bool {
	t := time.NewTimer(e2eWait)
	defer t.Stop()
	for {
		select {
		case e := <-ep.torEvent:
			if f(e) {
				return true
			}
		case <-t.C:
			return false
		}
	}
}

func (ep *e2ePeer) waitExit() bool {
	t := time.NewTimer(e2eWait)
	defer t.Stop()
	for {
		select {
		case <-ep.runDone:
			ep.gone = true
			return true
		case <-ep.torEvent: // keep the exit path's event flush moving
		case <-ep.fromPeer:
		case <-t.C:
			return false
		}
	}
}

// e2e runs scenario n; returns "" or what went wrong (kind, detail).
func (w *world) e2e(n int) (string, string) {
	if err := w.reset(32768, 32768*3+5000, uint64(1000+n), 524288, nil); err != nil {
		return "setup", err.Error()
	}
	for j := 0; j < w.numPieces(); j++ {
		w.storeOp("add", j)
	}
	var eps []*e2ePeer
	defer func() {
		for _, ep := range eps {
			ep.remote.Close()
			if !ep.gone {
				ep.waitExit()
			}
			close(ep.rdone)
		}
	}()
	count := func(site string) (string, string) {
		// barrier: the Unchoke/Choke reaches the wire before the handler has updated the
		// counter; a status query is answered by the same loop, i.e. after the handler
		for _, ep := range eps {
			if !ep.gone {
				ep.p.GetStatus()
			}
		}
		want := 0
		for _, ep := range eps {
			if ep.unchoked && !ep.gone {
				want++
			}
		}
		if got := peer.NumUnchoking(); got != want {
			return "count-mismatch:e2e-" + site, fmt.Sprintf("NumUnchoking() = %d, peers actually unchoked = %d", got, want)
		}
		return "", ""
	}
	unchoke := func(ep *e2ePeer) (string, string) {
		if err := ep.send(protocol.Interested{}); err != nil {
			return "e2e-stuck:send", err.Error()
		}
		if !ep.waitTor(func(e peer.TorEvent) bool { _, ok := e.(peer.TorPeerInterested); return ok }) {
			return "e2e-stuck:interested", "no TorPeerInterested"
		}
		ep.p.Event <- peer.PeerUnchoke{Unchoke: true}
		if _, ok := ep.waitMsg(func(m protocol.Message) bool { _, ok := m.(protocol.Unchoke); return ok }); !ok {
			return "e2e-stuck:unchoke", "no Unchoke on the wire"
		}
		ep.unchoked = true
		return "", ""
	}
	np := 1 + n%3
	for i := 0; i < np; i++ {
		ep := w.e2eNew(i%2 == 0)
		eps = append(eps, ep)
		if k, d := unchoke(ep); k != "" {
			return k, d
		}
		if k, d := count("unchoke"); k != "" {
			return k, d
		}
	}
	// a request is served by the real upload ticker with the right bytes
	ep := eps[0]
	i, b, l := uint32(n%3), uint32(16384*(n%2)), uint32(16384-7*n%100)
	if err := ep.send(protocol.Request{Index: i, Begin: b, Length: l}); err != nil {
		return "e2e-stuck:send", err.Error()
	}
	m, ok := ep.waitMsg(func(m protocol.Message) bool { _, ok := m.(protocol.Piece); return ok })
	if !ok {
		return "e2e-stuck:piece", "request not served by the running peer within 10 s"
	}
	pc := m.(protocol.Piece)
	off := int64(i)*int64(w.ps) + int64(b)
	if pc.Index != i || pc.Begin != b || !bytes.Equal(pc.Data, w.contentRange(off, off+int64(l))) {
		return "piece-payload:e2e", fmt.Sprintf("Piece %d %d len %d for Request %d %d %d", pc.Index, pc.Begin, len(pc.Data), i, b, l)
	}
	// the block went through the real writer goroutine (its buffer is back in the pool);
	// blocks come in; the store still holds the reference content
	w.incoming(2)
	{
		lo, hi := w.pieceRange(int(i))
		w.checkStore(int(i), lo, hi, fmt.Sprintf("e2e %d", n))
	}
	// a request cancelled at once is answered by exactly one of Reject / Piece (which one
	// depends on whether a tick fell between the two messages), never by both
	ep.send(protocol.Request{Index: 0, Begin: 0, Length: 16384})
	ep.send(protocol.Request{Index: 1, Begin: 0, Length: 100})
	ep.send(protocol.Cancel{Index: 1, Begin: 0, Length: 100})
	forR1 := func(m protocol.Message) bool {
		switch x := m.(type) {
		case protocol.RejectRequest:
			return x.Index == 1 && x.Begin == 0 && x.Length == 100
		case protocol.Piece:
			return x.Index == 1 && x.Begin == 0 && len(x.Data) == 100
		}
		return false
	}
	if _, ok := ep.waitMsg(forR1); !ok {
		return "e2e-stuck:cancel", "cancelled request neither rejected nor served"
	}
	// peers leave in different ways while unchoked / after being choked
	for j, ep := range eps {
		switch (n + j) % 4 {
		case 0: // remote closes the connection
			ep.remote.Close()
		case 1: // the torrent drops the peer
			ep.p.Event <- peer.PeerDone{}
		case 2: // choked first, then the connection closes
			ep.p.Event <- peer.PeerUnchoke{Unchoke: false}
			if _, ok := ep.waitMsg(func(m protocol.Message) bool { _, ok := m.(protocol.Choke); return ok }); !ok {
				return "e2e-stuck:choke", "no Choke on the wire"
			}
			ep.unchoked = false
			if k, d := count("choke"); k != "" {
				return k, d
			}
			ep.remote.Close()
		default: // the torrent dies
			close(ep.torDone)
		}
		if !ep.waitExit() {
			return "e2e-stuck:exit", "Run did not return"
		}
		if k, d := count("exit"); k != "" {
			return k, d
		}
		if !ep.conn.closed.Load() {
			return "conn-not-closed:e2e-exit", "Run returned without closing the connection"
		}
	}
	return "", ""
}
