package main

// Exit matrix with the REAL peer.Run: every way a peer can leave, under every condition of
// the torrent it reports to.  A scenario is the product of
//   subject state : unchoked | never unchoked | unchoked then choked
//   torrent side  : events drained, torDone open
//                 | events never read, torDone closed before the exit is caused
//                 | events never read, torDone closed while the peer is flushing its last events
//   exit cause    : the remote closes the connection | the connection's writer dies |
//                   PeerDone | torDone
//   bystander     : none | another unchoked peer that keeps running (the counter is global)
// After the subject's Run has returned (watchdog) the oracle compares peer.NumUnchoking()
// with the number of peers still running whose last Choke/Unchoke on the wire is Unchoke,
// checks that Run returned at all and that it closed the connection.  The counter is reset
// between scenarios.  Oracle only: the model's line for `e2x <id>` is the constant "e2x ok".

import (
	"bufio"
	"errors"
	"fmt"
	"io"
	"net"
	"net/netip"
	"sync/atomic"
	"time"

	"github.com/jech/storrent/peer"
	"github.com/jech/storrent/protocol"
)

// xconn is the peer's end of the connection: it records Close and can make writes fail
// while reads keep working (a dead writer).
type xconn struct {
	net.Conn
	closed    atomic.Bool
	writeDead atomic.Bool
}

func (c *xconn) Close() error {
	c.closed.Store(true)
	return c.Conn.Close()
}

func (c *xconn) Write(b []byte) (int, error) {
	if c.writeDead.Load() {
		return 0, errors.New("write: broken pipe")
	}
	return c.Conn.Write(b)
}

type xpeer struct {
	p         *peer.Peer
	conn      *xconn
	remote    net.Conn
	fromPeer  chan protocol.Message
	rdone     chan struct{}
	torEvent  chan peer.TorEvent
	torDone   chan struct{}
	torClosed bool
	stopDrain chan struct{}
	draining  bool
	runDone   chan error
	w         *bufio.Writer
	unchoked  bool // last Choke/Unchoke seen on the wire is Unchoke
	returned  bool
}

const (
	xEnvDrained      = iota // torrent takes the events, torDone open
	xEnvClosedBefore        // events never read, torDone closed before the exit is caused
	xEnvClosedDuring        // events never read, torDone closed once the peer has closed Done
)

const (
	xCauseRemote = iota
	xCauseWriter
	xCausePeerDone
	xCauseTorDone
)

var xEnvNames = []string{"drained", "tordone-before", "tordone-during"}
var xCauseNames = []string{"remote-closes", "writer-dead", "peerdone", "tordone"}
var xStateNames = []string{"unchoked", "never-unchoked", "choked-again"}

// the valid (env, cause) pairs: with a torrent that never reads and never dies Run rightly
// blocks for ever, and torDone as the cause needs torDone to be closed by then
var xPairs = [][2]int{
	{xEnvDrained, xCauseRemote}, {xEnvDrained, xCauseWriter}, {xEnvDrained, xCausePeerDone}, {xEnvDrained, xCauseTorDone},
	{xEnvClosedBefore, xCauseRemote}, {xEnvClosedBefore, xCauseWriter}, {xEnvClosedBefore, xCausePeerDone}, {xEnvClosedBefore, xCauseTorDone},
	{xEnvClosedDuring, xCauseRemote}, {xEnvClosedDuring, xCauseWriter}, {xEnvClosedDuring, xCausePeerDone},
}

const nE2x = 11 * 3 * 2

func (w *world) xNew(fast bool, drained bool) *xpeer {
	c1, c2 := net.Pipe()
	xp := &xpeer{remote: c2, conn: &xconn{Conn: c1}}
	xp.p = peer.New("", xp.conn, netip.AddrPort{}, true, protocol.HandshakeResult{Hash: w.t.Hash, Id: w.t.MyId, Fast: fast})
	xp.p.Log.SetOutput(io.Discard)
	xp.p.Pieces = &w.t.Pieces
	if drained {
		xp.torEvent = make(chan peer.TorEvent, 16)
		xp.stopDrain = make(chan struct{})
		xp.draining = true
		go func() {
			for {
				select {
				case <-xp.torEvent:
				case <-xp.stopDrain:
					return
				}
			}
		}()
	} else {
		xp.torEvent = make(chan peer.TorEvent) // no room, no receiver
	}
	xp.torDone = make(chan struct{})
	xp.runDone = make(chan error, 1)
	xp.fromPeer = make(chan protocol.Message, 4096)
	xp.rdone = make(chan struct{})
	xp.w = bufio.NewWriter(c2)
	go protocol.Reader(c2, nil, nil, xp.fromPeer, xp.rdone)
	bm := w.t.Pieces.Bitmap()
	go func() { xp.runDone <- peer.Run(xp.p, xp.torEvent, xp.torDone, w.t.Info, bm, nil) }()
	return xp
}

func (xp *xpeer) send(m protocol.Message) error {
	xp.remote.SetWriteDeadline(time.Now().Add(e2eWait))
	if err := protocol.Write(xp.w, m, nil); err != nil {
		return err
	}
	return xp.w.Flush()
}

func (xp *xpeer) waitMsg(f func(protocol.Message) bool) bool {
	t := time.NewTimer(e2eWait)
	defer t.Stop()
	for {
		select {
		case m, ok := <-xp.fromPeer:
			if !ok {
				return false
			}
			if f(m) {
				return true
			}
		case <-t.C:
			return false
		}
	}
}

func (xp *xpeer) closeTorDone() {
	if !xp.torClosed {
		xp.torClosed = true
		close(xp.torDone)
	}
}

// waitReturn waits (bounded) for Run to return.
func (xp *xpeer) waitReturn(d time.Duration) bool {
	if xp.returned {
		return true
	}
	t := time.NewTimer(d)
	defer t.Stop()
	select {
	case <-xp.runDone:
		xp.returned = true
		return true
	case <-t.C:
		return false
	}
}

// unchoke: Interested from the remote, the torrent's decision, Unchoke on the wire; then a
// status query as a barrier (the message reaches the wire before the handler has updated
// the counter; the query is answered by the same loop, after the handler).
func (xp *xpeer) unchoke() string {
	if err := xp.send(protocol.Interested{}); err != nil {
		return "send: " + err.Error()
	}
	deadline := time.Now().Add(e2eWait)
	for !xp.p.Interested() {
		if time.Now().After(deadline) {
			return "Interested not handled"
		}
		time.Sleep(200 * time.Microsecond)
	}
	xp.p.Event <- peer.PeerUnchoke{Unchoke: true}
	if !xp.waitMsg(func(m protocol.Message) bool { _, ok := m.(protocol.Unchoke); return ok }) {
		return "no Unchoke on the wire"
	}
	xp.unchoked = true
	xp.p.GetStatus()
	return ""
}

func (xp *xpeer) choke() string {
	xp.p.Event <- peer.PeerUnchoke{Unchoke: false}
	if !xp.waitMsg(func(m protocol.Message) bool { _, ok := m.(protocol.Choke); return ok }) {
		return "no Choke on the wire"
	}
	xp.unchoked = false
	xp.p.GetStatus()
	return ""
}

// forceDown makes sure Run returns whatever happened, so that nothing leaks into the next
// scenario.
func (xp *xpeer) forceDown() {
	xp.remote.Close()
	xp.closeTorDone()
	xp.waitReturn(e2eWait)
	if xp.draining {
		close(xp.stopDrain)
		xp.draining = false
	}
	select {
	case <-xp.rdone:
	default:
		close(xp.rdone)
	}
}

// e2x runs scenario id of the exit matrix; returns "" or (violation kind, detail).
func (w *world) e2x(id int) (string, string) {
	pair := xPairs[id%11]
	env, cause := pair[0], pair[1]
	state := (id / 11) % 3
	bystander := (id/33)%2 == 1
	name := fmt.Sprintf("%s/%s/%s", xStateNames[state], xEnvNames[env], xCauseNames[cause])
	if bystander {
		name += "/bystander"
	}
	if err := w.reset(32768, 32768*2+100, uint64(7000+id), 524288, nil); err != nil {
		return "store-setup:e2x", err.Error()
	}
	peer.VerifResetNumUnchoking()
	var all []*xpeer
	defer func() {
		for _, xp := range all {
			xp.forceDown()
		}
		peer.VerifResetNumUnchoking()
	}()
	count := func(site string) (string, string) {
		want := 0
		for _, xp := range all {
			if xp.unchoked && !xp.returned {
				want++
			}
		}
		if got := peer.NumUnchoking(); got != want {
			return "count-mismatch:e2e-" + site, fmt.Sprintf("%s: NumUnchoking() = %d, peers still running and unchoked = %d", name, got, want)
		}
		return "", ""
	}

	var by *xpeer
	if bystander {
		by = w.xNew(id%2 == 0, true)
		all = append(all, by)
		if e := by.unchoke(); e != "" {
			return "e2e-stuck:setup", name + ": bystander: " + e
		}
	}
	sub := w.xNew(id%2 == 1, env == xEnvDrained)
	all = append(all, sub)
	if state != 1 {
		if e := sub.unchoke(); e != "" {
			return "e2e-stuck:setup", name + ": " + e
		}
	}
	if state == 2 {
		if e := sub.choke(); e != "" {
			return "e2e-stuck:setup", name + ": " + e
		}
	}
	if k, d := count("before-exit"); k != "" {
		return k, d
	}

	// the torrent's side, then the cause
	if env == xEnvClosedBefore {
		sub.closeTorDone()
	}
	switch cause {
	case xCauseRemote:
		sub.remote.Close()
	case xCauseWriter:
		sub.conn.writeDead.Store(true)
		select { // something to write: the writer goroutine fails and closes writerDone
		case sub.p.Event <- peer.PeerHave{Index: 0, Have: true}:
		case <-sub.p.Done:
		}
	case xCausePeerDone:
		select {
		case sub.p.Event <- peer.PeerDone{}:
		case <-sub.p.Done:
		}
	case xCauseTorDone:
		sub.closeTorDone()
	}
	if env == xEnvClosedDuring {
		// the peer has left its loop (Done is closed first thing in the exit path) and is
		// now trying to hand its last events to a torrent that does not take them
		select {
		case <-sub.p.Done:
		case <-time.After(e2eWait):
			return "e2e-stuck:exit", name + ": the peer did not begin to exit"
		}
		time.Sleep(time.Millisecond)
		sub.closeTorDone()
	}
	if !sub.waitReturn(e2eWait) {
		return "e2e-stuck:exit", name + ": Run did not return within 10 s"
	}
	if k, d := count("exit"); k != "" {
		return k, d
	}
	if !sub.conn.closed.Load() {
		return "conn-not-closed:e2e-exit", name + ": Run returned without closing the connection"
	}
	if by != nil {
		// the bystander is untouched and leaves in the ordinary way
		by.p.GetStatus()
		if k, d := count("bystander"); k != "" {
			return k, d
		}
		by.remote.Close()
		if !by.waitReturn(e2eWait) {
			return "e2e-stuck:exit", name + ": bystander's Run did not return"
		}
		if k, d := count("exit"); k != "" {
			return k, d
		}
		if !by.conn.closed.Load() {
			return "conn-not-closed:e2e-exit", name + ": bystander"
		}
	}
	return "", ""
}
