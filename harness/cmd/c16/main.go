// vh c16: the upload path of peer.go (Request / Cancel / Interested / NotInterested
// handlers, PeerUnchoke, unchoke, scheduleUpload, reject, the exit path of Run and the
// global numUnchoking) driven in-process on real peers (peer.VerifNewPeer, no goroutines)
// sharing one process-wide counter, over a real piece store (tor.ReadTorrent on generated
// metainfo whose piece hashes match generated content; pieces filled through
// Pieces.AddData + Finalise, evicted through Pieces.Expire).
//
// Every op is one line; the Lean model (model-c16) replays the same lines.  The oracle in
// oracle.go restates the property on the wire events only.
package main

import (
	"bufio"
	"bytes"
	"crypto/sha1"
	"errors"
	"fmt"
	"io"
	"runtime"
	"sort"
	"strconv"
	"strings"
	"time"

	"github.com/jech/storrent/config"
	"github.com/jech/storrent/peer"
	"github.com/jech/storrent/protocol"
	"github.com/jech/storrent/tor"
	"github.com/jech/storrent/tor/piece"

	"verifharness/vhlib"
	"verifharness/wirecanon"
)

const reqQ = 250
const maxReqLen = 128 * 1024

// ---------------------------------------------------------------- content

func mix64(x uint64) uint64 {
	z := x + 0x9E3779B97F4A7C15
	z = (z ^ (z >> 30)) * 0xBF58476D1CE4E5B9
	z = (z ^ (z >> 27)) * 0x94D049BB133111EB
	return z ^ (z >> 31)
}

// contentByte is the reference content of the torrent (the Lean driver has the same
// function): pseudo-random, never all zero.
func contentByte(salt uint64, k uint64) byte {
	w := mix64(salt + (k/8)*0x9E3779B97F4A7C15)
	return byte(w >> (8 * (k % 8)))
}

// ---------------------------------------------------------------- the system under test

type req struct{ i, b, l uint32 }

type hpeer struct {
	p        *peer.Peer
	fast     bool
	cap      int
	wdone    chan struct{}
	dead     bool
	live     bool
	errored  bool // a handler returned an error: Run returns, only the exit path may follow
	gotExt   bool // an extended handshake has been received
	torEvent chan peer.TorEvent
	o        *peerOracle
}

type world struct {
	c      *vhlib.Ctx
	t      *tor.Torrent
	ps     uint32
	length int64
	salt   uint64
	rate   uint32
	real   []int // sparse geometry: the only pieces with real hashes (nil: all of them)
	pstate []int // 0 missing, 1 unverified data, 2 held (verified)
	peers  []*hpeer
	waits  int // 200 ms congestion waits spent so far (whole run)
}

func (w *world) cleanup() {
	for _, hp := range w.peers {
		if hp.live {
			vhlib.Recover(func() { peer.VerifExit(hp.p) })
			hp.live = false
		}
	}
	w.peers = nil
	if w.t != nil {
		w.t.Pieces.Del()
		w.t = nil
	}
	peer.VerifResetNumUnchoking()
}

func (w *world) numPieces() int {
	if w.ps == 0 {
		return 0
	}
	return int((w.length + int64(w.ps) - 1) / int64(w.ps))
}

func (w *world) pieceRange(j int) (int64, int64) {
	lo := int64(j) * int64(w.ps)
	hi := lo + int64(w.ps)
	if hi > w.length {
		hi = w.length
	}
	return lo, hi
}

// contentRange is the torrent's true content on [lo, hi), computed on demand (torrents
// larger than 4 GiB are never materialised).
func (w *world) contentRange(lo, hi int64) []byte {
	b := make([]byte, hi-lo)
	for k := lo; k < hi; {
		wd := mix64(w.salt + uint64(k/8)*0x9E3779B97F4A7C15)
		for j := k % 8; j < 8 && k < hi; j++ {
			b[k-lo] = byte(wd >> (8 * uint(j)))
			k++
		}
	}
	return b
}

func (w *world) isReal(j int) bool {
	if w.real == nil {
		return true
	}
	for _, x := range w.real {
		if x == j {
			return true
		}
	}
	return false
}

// pieceList: the pieces that can ever hold data (all of them, or the sparse list).
func (w *world) pieceList() []int {
	if w.real != nil {
		return w.real
	}
	l := make([]int, w.numPieces())
	for j := range l {
		l[j] = j
	}
	return l
}

// reset builds a new torrent.  With `real` (sparse geometry, used beyond 4 GiB) only the
// listed pieces get their true SHA-1 in the metainfo — the others can never be completed —
// and only they may be the subject of store ops.
func (w *world) reset(ps uint32, length int64, salt uint64, rate uint32, real []int) error {
	w.cleanup()
	w.ps, w.length, w.salt, w.rate, w.real = ps, length, salt, rate, real
	n := w.numPieces()
	hashes := make([]byte, 20*n)
	for _, j := range w.pieceList() {
		lo, hi := w.pieceRange(j)
		h := sha1.Sum(w.contentRange(lo, hi))
		copy(hashes[20*j:], h[:])
	}
	var mi bytes.Buffer
	fmt.Fprintf(&mi, "d4:infod6:lengthi%de4:name3:c1612:piece lengthi%de6:pieces%d:", length, ps, len(hashes))
	mi.Write(hashes)
	mi.WriteString("ee")
	t, err := tor.ReadTorrent("", &mi)
	if err != nil {
		return err
	}
	t.Log.SetOutput(io.Discard)
	w.t = t
	w.pstate = make([]int, n)
	config.SetUploadRate(float64(rate))
	peer.VerifResetNumUnchoking()
	return nil
}

func (w *world) heldStr() string {
	var hs []string
	for _, j := range w.pieceList() {
		if w.t.Pieces.Complete(uint32(j)) {
			hs = append(hs, strconv.Itoa(j))
		}
	}
	return "[" + strings.Join(hs, ",") + "]"
}

func (w *world) storeOp(kind string, j int) string {
	if j < 0 || j >= w.numPieces() || !w.isReal(j) {
		return "bad-op"
	}
	lo, hi := w.pieceRange(j)
	ps := &w.t.Pieces
	switch kind {
	case "add":
		ps.AddData(uint32(j), 0, w.contentRange(lo, hi), 7)
		done, _, err := ps.Finalise(uint32(j), w.t.PieceHashes[j])
		if ps.Complete(uint32(j)) {
			w.pstate[j] = 2
		} else {
			w.c.Violate("store-setup:add", fmt.Sprintf("piece %d not complete after add: done=%v err=%v", j, done, err), w.c.Case())
		}
	case "partial":
		if w.pstate[j] == 0 {
			ps.AddData(uint32(j), 0, w.contentRange(lo, hi), 7)
			w.pstate[j] = 1
		}
	case "bad":
		if w.pstate[j] == 0 {
			bad := w.contentRange(lo, hi)
			bad[len(bad)/2] ^= 0x55
			ps.AddData(uint32(j), 0, bad, 7)
			ps.Finalise(uint32(j), w.t.PieceHashes[j]) // hash mismatch: discarded
			if ps.Complete(uint32(j)) {
				w.c.Violate("store-setup:bad", "corrupt piece accepted", w.c.Case())
			}
		}
	case "evict":
		if w.pstate[j] != 0 {
			for _, x := range w.pieceList() {
				ps.VerifSetTime(uint32(x), ^uint32(0))
			}
			ps.VerifSetTime(uint32(j), 0)
			ps.Expire(ps.Bytes()-1, nil, func(uint32) {})
			if ps.Complete(uint32(j)) {
				w.c.Violate("store-setup:evict", "piece still complete after Expire", w.c.Case())
			}
			w.pstate[j] = 0
			// Expire must not have touched anything else
			for _, x := range w.pieceList() {
				if (w.pstate[x] == 2) != ps.Complete(uint32(x)) {
					w.c.Violate("store-setup:evict-other", fmt.Sprintf("piece %d", x), w.c.Case())
					if ps.Complete(uint32(x)) {
						w.pstate[x] = 2
					} else {
						w.pstate[x] = 0
					}
				}
			}
		}
	default:
		return "bad-op"
	}
	return "store " + w.heldStr()
}

func (w *world) newPeer(fast, info bool, cap int, bits int) string {
	hp := &hpeer{fast: fast, cap: cap, live: true}
	hp.wdone = make(chan struct{})
	hp.torEvent = make(chan peer.TorEvent, 4096)
	var inf []byte
	if info {
		inf = w.t.Info
	}
	hp.p = peer.VerifNewPeer(peer.VerifPeerOpts{
		Fast: fast, Extended: bits&1 != 0, Dht: bits&2 != 0, Pieces: &w.t.Pieces, Info: inf, WriterCap: cap,
		TorEvent: hp.torEvent, TorDone: make(chan struct{}), WriterDone: hp.wdone,
		Hash: w.t.Hash, Id: w.t.MyId,
	})
	hp.o = newPeerOracle(fast)
	w.peers = append(w.peers, hp)
	return fmt.Sprintf("peer %d", len(w.peers)-1)
}

// huge: an unchoked peer on a store whose piece length is 2^32-16384; requests with the
// largest index / offset; returns the panic message of the upload tick, if any.
func (w *world) huge(n int) string {
	var ps piece.Pieces
	const pl = 4294950912
	ps.MetadataComplete(pl, 3*pl)
	p := peer.VerifNewPeer(peer.VerifPeerOpts{Fast: n%2 == 0, Pieces: &ps, Info: []byte("x"), WriterCap: 64,
		TorEvent: make(chan peer.TorEvent, 64), TorDone: make(chan struct{}), WriterDone: make(chan struct{})})
	defer func() {
		vhlib.Recover(func() { peer.VerifExit(p) })
		peer.VerifResetNumUnchoking()
	}()
	return vhlib.Recover(func() {
		peer.VerifHandleMessage(p, protocol.Interested{})
		peer.VerifHandleEvent(p, peer.PeerUnchoke{Unchoke: true})
		idx := []uint32{4294967295, 4294967295, 2147483648, 3}[n]
		beg := []uint32{4294967295, 0, 4294967295, 4294967295}[n]
		if err := peer.VerifHandleMessage(p, protocol.Request{Index: idx, Begin: beg, Length: 1}); err != nil {
			return
		}
		peer.VerifScheduleUpload(p, true)
	})
}

func errTok(err error) string {
	switch {
	case err == nil:
		return ""
	case errors.Is(err, io.EOF):
		return "!eof"
	case errors.Is(err, peer.ErrCongested):
		return "!cong"
	case errors.Is(err, peer.ErrMetadataIncomplete):
		return "!nometa"
	case err.Error() == "duplicate metadata":
		return "!dupmeta"
	case errors.Is(err, peer.ErrRange):
		return "!range"
	case errors.Is(err, peer.ErrCannotFast):
		return "!nofast"
	case err.Error() == "duplicate Extended0":
		return "!dupext"
	}
	return "!other:" + strings.ReplaceAll(err.Error(), " ", "_")
}

func qhash(q []peer.Requested) uint64 {
	h := uint64(14695981039346656037)
	for _, r := range q {
		h = (h ^ (uint64(r.Index)*65537 + uint64(r.Begin)*257 + uint64(r.Length) + 1)) * 1099511628211
	}
	return h
}

func b01(b bool) string {
	if b {
		return "1"
	}
	return "0"
}

// invoke runs f on peer hp with `free` writes allowed to succeed (then congestion, or EOF
// if the peer's writer is dead) and returns the messages it queued, in order.
func (w *world) invoke(hp *hpeer, free int, dead bool, f func() error) (msgs []protocol.Message, err error, pan string) {
	if dead && !hp.dead {
		close(hp.wdone)
		hp.dead = true
	}
	ch := hp.p.VerifWriter()
	t0 := time.Now()
	if hp.cap == 0 {
		// unbuffered writer: a receiver takes exactly `free` messages
		stop := make(chan struct{})
		got := make(chan []protocol.Message, 1)
		n := free
		if hp.dead {
			n = 0
		}
		go func() {
			var ms []protocol.Message
			for len(ms) < n {
				select {
				case m := <-ch:
					ms = append(ms, m)
				case <-stop:
					got <- ms
					return
				}
			}
			got <- ms
		}()
		pan = vhlib.Recover(func() { err = f() })
		close(stop)
		msgs = <-got
	} else {
		if free > hp.cap {
			free = hp.cap
		}
		fill := hp.cap - free
		if hp.dead {
			fill = hp.cap
		}
		for i := 0; i < fill; i++ {
			ch <- protocol.KeepAlive{}
		}
		pan = vhlib.Recover(func() { err = f() })
		idx := 0
		for len(ch) > 0 {
			m := <-ch
			if idx >= fill {
				msgs = append(msgs, m)
			}
			idx++
		}
	}
	if d := time.Since(t0); d > 150*time.Millisecond {
		w.waits += int(d / (190 * time.Millisecond))
	}
	// the torrent's event channel is not under study
	for len(hp.torEvent) > 0 {
		<-hp.torEvent
	}
	hp.p.VerifFlushEvents()
	for len(hp.torEvent) > 0 {
		<-hp.torEvent
	}
	return
}

type opEnv struct {
	k     int
	free  int
	dead  bool
	cong  bool
	allow bool
}

// peerOp executes one op on a peer and renders the observation line.
func (w *world) peerOp(kind string, e opEnv, m protocol.Message, unch bool, opLine string) string {
	if e.k < 0 || e.k >= len(w.peers) {
		return "nopeer"
	}
	hp := w.peers[e.k]
	if !hp.live {
		return "dead"
	}
	if hp.errored && kind != "exit" {
		return "errored"
	}
	pre := hp.p.VerifState()
	switch m.(type) {
	case protocol.Have, protocol.Bitfield, protocol.HaveAll, protocol.HaveNone:
		// availability before the metadata is C05/C12's subject (and makes
		// PeerMetadataComplete fail in ways this stream does not model)
		if !pre.HasInfo {
			return "bad-op"
		}
	}
	var msgs []protocol.Message
	var err error
	var pan string
	var allocDelta uint64
	measured := false
	switch kind {
	case "msg":
		msgs, err, pan = w.invoke(hp, e.free, e.dead, func() error { return peer.VerifHandleMessage(hp.p, m) })
	case "unch":
		msgs, err, pan = w.invoke(hp, e.free, e.dead, func() error {
			return peer.VerifHandleEvent(hp.p, peer.PeerUnchoke{Unchoke: unch})
		})
	case "tick":
		big := len(pre.Upload) > 0 && pre.Upload[0].Length >= 65536
		if big && pre.AmUnchoking && peer.NumUnchoking() < 1 && pre.Upload[0].Length > 1<<27 {
			// fair = upload/0 = +Inf would admit a multi-GiB buffer: do not run it
			w.c.Violate("count-mismatch:tick-guard", "NumUnchoking() < 1 with an unchoked peer", w.c.Case())
			return "guard"
		}
		var m0, m1 runtime.MemStats
		if big {
			runtime.ReadMemStats(&m0)
		}
		msgs, err, pan = w.invoke(hp, e.free, e.dead, func() error { return peer.VerifScheduleUpload(hp.p, true) })
		if big {
			runtime.ReadMemStats(&m1)
			allocDelta = m1.TotalAlloc - m0.TotalAlloc
			measured = true
		}
	case "meta":
		msgs, err, pan = w.invoke(hp, 64, false, func() error {
			return peer.VerifHandleEvent(hp.p, peer.PeerMetadataComplete{Info: w.t.Info})
		})
	case "exit":
		pan = vhlib.Recover(func() { peer.VerifExit(hp.p) })
		hp.live = false
		// the departure events go to the torrent (not under study here)
		for len(hp.torEvent) > 0 {
			<-hp.torEvent
		}
		hp.p.VerifFlushEvents()
		for len(hp.torEvent) > 0 {
			<-hp.torEvent
		}
	}
	post := hp.p.VerifState()
	if err != nil || pan != "" {
		hp.errored = true
	}

	// ---- oracle (wire events only) ----
	w.oracle(hp, kind, e, m, msgs, pre, post, pan, allocDelta, measured, opLine)

	// ---- observation line ----
	tag := w.tagOf(hp, kind, e, m, unch, msgs, err, pre, post)
	var ms []string
	for _, x := range msgs {
		ms = append(ms, wirecanon.Canon(x))
	}
	res := "ok"
	if pan != "" {
		res = "panic"
	} else if err != nil {
		res = errTok(err)[1:]
	}
	a := "-"
	if measured {
		if allocDelta >= 100000 {
			a = "big"
		} else {
			a = "small"
		}
	}
	items, _ := queuedItems(hp.p)
	line := fmt.Sprintf("%s r=%s m=[%s] a=%s | u=%s i=%s h=%s t=%s q=%d:%d x=%d n=%d | told=%s pend=%d",
		tag, res, strings.Join(ms, ";"), a, b01(post.AmUnchoking), b01(post.Interested), b01(post.HasInfo),
		b01(post.UploadTicking), len(post.Upload), qhash(post.Upload), items, peer.NumUnchoking(),
		b01(hp.o.told), hp.o.npending)
	// ---- the payload's lifetime: what the writer goroutine and the next reader do ----
	w.handOver(msgs, opLine)
	return line
}

// handOver does to every queued message what the connection's writer goroutine does —
// the real protocol.Write, which hands a Piece's buffer back to the chunk pool — and then
// what a connection's reader does when the next block comes in: the real protocol.Read of
// 16 KiB Piece frames filled with marker bytes, which takes its buffers from that pool.
// After that nothing the store holds may have changed: the bytes of every verified piece an
// upload was served from still are the reference content (a payload that aliases the store
// is overwritten with network bytes here).  Must run after the observation line is built:
// the messages' own buffers are recycled by it.
func (w *world) handOver(msgs []protocol.Message, opLine string) {
	type span struct{ lo, hi int64 }
	var served []span
	for _, x := range msgs {
		if pc, ok := x.(protocol.Piece); ok && len(pc.Data) > 0 {
			off := int64(pc.Index)*int64(w.ps) + int64(pc.Begin)
			served = append(served, span{off, off + int64(len(pc.Data))})
		}
		bw := bufio.NewWriter(io.Discard)
		if p := vhlib.Recover(func() { protocol.Write(bw, x, nil) }); p != "" {
			w.c.Violate("panic:write:"+fmt.Sprintf("%T", x), p, append(w.c.Case(), opLine))
		}
		bw.Flush()
	}
	if len(served) == 0 {
		return
	}
	w.incoming(2)
	for _, sp := range served {
		if sp.hi > w.length {
			continue
		}
		j := int(sp.lo / int64(w.ps))
		lo, hi := w.pieceRange(j)
		if hi-lo > 262144 { // a window around the block is enough for big pieces
			lo, hi = max(lo, sp.lo-16384), min(hi, sp.hi+16384)
		}
		w.checkStore(j, lo, hi, opLine)
	}
}

// incoming: n blocks arrive from the network (real protocol.Read, marker payload).
func (w *world) incoming(n int) {
	frame := make([]byte, 0, 13+16384)
	frame = append(frame, 0, 0, 0x40, 9, 7, 0, 0, 0, 0, 0, 0, 0, 0)
	for i := 0; i < 16384; i++ {
		frame = append(frame, 0xEE)
	}
	var stream []byte
	for i := 0; i < n; i++ {
		stream = append(stream, frame...)
	}
	br := bufio.NewReader(bytes.NewReader(stream))
	for i := 0; i < n; i++ {
		vhlib.Recover(func() { protocol.Read(br, nil) })
	}
}

// checkStore compares what the store returns for [lo, hi) of verified piece j with the
// reference content.
func (w *world) checkStore(j int, lo, hi int64, opLine string) {
	if j < 0 || j >= len(w.pstate) || w.pstate[j] != 2 || hi <= lo {
		return
	}
	buf := make([]byte, hi-lo)
	n, _ := w.t.Pieces.ReadAt(buf, lo)
	if n != len(buf) {
		return // evicted meanwhile: nothing to compare
	}
	if ref := w.contentRange(lo, hi); !bytes.Equal(buf, ref) {
		k := 0
		for k < len(buf) && buf[k] == ref[k] {
			k++
		}
		w.c.Violate("piece-payload:store-corrupted-after-upload",
			fmt.Sprintf("verified piece %d no longer holds the reference content at byte offset %d (store has %#x, reference %#x) after its block was written out and another block was received", j, lo+int64(k), buf[k], ref[k]),
			append(w.c.Case(), opLine))
		w.pstate[j] = 1 // report once; later uploads from it are flagged by piece-payload:*
	}
}

// expectFull: would ReadAt fill a buffer of r.Length at r's offset, by the harness's own
// knowledge of the store?  (labels only; the payload oracle is in oracle.go)
func (w *world) expectFull(r peer.Requested) bool {
	if r.Length == 0 {
		return true
	}
	off := uint64(r.Index)*uint64(w.ps) + uint64(r.Begin)
	if off >= uint64(w.length) {
		return false
	}
	j := int(off / uint64(w.ps))
	_, hi := w.pieceRange(j)
	return w.pstate[j] == 2 && off+uint64(r.Length) <= uint64(hi)
}

// tagOf labels the branch taken, from the inputs and the observable outcome.
func (w *world) tagOf(hp *hpeer, kind string, e opEnv, m protocol.Message, unch bool,
	msgs []protocol.Message, err error, pre, post peer.VerifPeerState) string {
	has := func(f func(protocol.Message) bool) bool {
		for _, x := range msgs {
			if f(x) {
				return true
			}
		}
		return false
	}
	isChoke := func(x protocol.Message) bool { _, ok := x.(protocol.Choke); return ok }
	isUnchoke := func(x protocol.Message) bool { _, ok := x.(protocol.Unchoke); return ok }
	isPiece := func(x protocol.Message) bool { _, ok := x.(protocol.Piece); return ok }
	isReject := func(x protocol.Message) bool { _, ok := x.(protocol.RejectRequest); return ok }
	failTok := "!cong"
	if hp.dead {
		failTok = "!eof"
	}
	unchTag := func(u bool, interested bool) string {
		pfx := ""
		if u && !interested {
			pfx = "unint-"
			u = false
		}
		switch {
		case u == pre.AmUnchoking:
			return pfx + "same"
		case u && has(isUnchoke):
			return pfx + "on"
		case u:
			return pfx + "on-wfail"
		case has(isChoke):
			return pfx + "off"
		}
		return pfx + "off-wfail"
	}
	switch kind {
	case "msg":
		switch mm := m.(type) {
		case protocol.Request:
			switch {
			case !pre.HasInfo:
				return "req-noinfo" + errTok(err)
			case !pre.AmUnchoking:
				return "req-choked" + errTok(err)
			case mm.Length > maxReqLen:
				return "req-toolong" + errTok(err)
			case int64(mm.Index) >= int64(w.numPieces()):
				return "req" + errTok(err)
			case len(pre.Upload) >= reqQ && len(post.Upload) == len(pre.Upload):
				return "req-headdrop"
			case len(pre.Upload) >= reqQ:
				return "req-headkeep"
			}
			return "req-queued"
		case protocol.Cancel:
			if !pre.HasInfo {
				return "cancel" + errTok(err)
			}
			for _, r := range pre.Upload {
				if r.Index == mm.Index && r.Begin == mm.Begin && r.Length == mm.Length {
					return "cancel-hit" + errTok(err)
				}
			}
			return "cancel-miss"
		case protocol.Interested:
			return "interested"
		case protocol.NotInterested:
			t := unchTag(false, false)
			inner := ""
			if t == "off-wfail" {
				inner = failTok
			} else if t == "off" && hp.fast {
				n := 0
				for _, x := range msgs {
					if isReject(x) {
						n++
					}
				}
				if n < len(pre.Upload) {
					inner = failTok
				}
			}
			return "notint-" + t + inner
		}
		return "other" + errTok(err)
	case "unch":
		return "unch-" + unchTag(unch, pre.Interested) + errTok(err)
	case "tick":
		switch {
		case !pre.AmUnchoking || len(pre.Upload) == 0:
			return "tick-idle"
		case e.cong:
			return "tick-cong"
		case !e.allow:
			return "tick-denied"
		case has(isPiece):
			return "tick-piece"
		case has(isReject):
			return "tick-short-rej"
		}
		full := w.expectFull(pre.Upload[0])
		switch {
		case err != nil && full:
			return "tick-piece" + errTok(err)
		case err != nil:
			return "tick-short-rej" + errTok(err)
		case full:
			return "tick-piece-cong"
		}
		return "tick-short-drop"
	case "meta":
		return "meta" + errTok(err)
	case "exit":
		if pre.AmUnchoking {
			return "exit-unchoking"
		}
		return "exit-choked"
	}
	return "?"
}

// ---------------------------------------------------------------- op lines

func atoi(s string) (int, bool) {
	n, err := strconv.ParseInt(s, 10, 64)
	return int(n), err == nil && n >= 0
}

// parseMsg: the remote messages of the C16 stream.  Besides the four the upload path
// reacts to, "state diversity" messages that must NOT move any of its bounds or decisions:
// the extended handshake (compact form `Ext0 reqq metadata_size upload_only encrypt port
// mset`), Have / Bitfield / HaveAll / HaveNone, AllowedFast / Suggest, the remote's own
// Choke / Unchoke, KeepAlive.  Only well-formed ones are accepted (index below the number
// of pieces, bitfield of the exact length without spare bits).
func (w *world) parseMsg(f []string) protocol.Message {
	u := func(s string) (uint32, bool) {
		n, err := strconv.ParseUint(s, 10, 32)
		return uint32(n), err == nil
	}
	np := uint32(w.numPieces())
	switch {
	case len(f) == 1 && f[0] == "KeepAlive":
		return protocol.KeepAlive{}
	case len(f) == 1 && f[0] == "Choke":
		return protocol.Choke{}
	case len(f) == 1 && f[0] == "Unchoke":
		return protocol.Unchoke{}
	case len(f) == 1 && f[0] == "HaveAll":
		return protocol.HaveAll{}
	case len(f) == 1 && f[0] == "HaveNone":
		return protocol.HaveNone{}
	case len(f) == 2 && (f[0] == "Have" || f[0] == "AllowedFast" || f[0] == "Suggest"):
		i, ok := u(f[1])
		if !ok || i >= np {
			return nil
		}
		switch f[0] {
		case "Have":
			return protocol.Have{Index: i}
		case "AllowedFast":
			return protocol.AllowedFast{Index: i}
		}
		return protocol.SuggestPiece{Index: i}
	case len(f) == 2 && f[0] == "Bitfield":
		if f[1] == "-" || len(f[1])%2 != 0 {
			return nil
		}
		for _, c := range f[1] {
			if !(c >= '0' && c <= '9' || c >= 'a' && c <= 'f') {
				return nil
			}
		}
		b := vhlib.UnHex(f[1])
		if uint32(len(b)) != (np+7)/8 {
			return nil
		}
		if np%8 != 0 && b[len(b)-1]&(0xff>>(np%8)) != 0 {
			return nil
		}
		return protocol.Bitfield{Bitfield: b}
	case len(f) == 7 && f[0] == "Ext0":
		reqq, ok1 := u(f[1])
		ms, ok2 := u(f[2])
		uo, ok3 := u(f[3])
		enc, ok4 := u(f[4])
		port, ok5 := u(f[5])
		mset, ok6 := u(f[6])
		if !ok1 || !ok2 || !ok3 || !ok4 || !ok5 || !ok6 || uo > 1 || enc > 1 || port > 65535 || mset > 3 {
			return nil
		}
		var ms2 map[string]uint8
		switch mset {
		case 1:
			ms2 = map[string]uint8{}
		case 2:
			ms2 = map[string]uint8{"ut_pex": 1, "ut_metadata": 2}
		case 3:
			ms2 = map[string]uint8{"ut_pex": 1, "ut_metadata": 2, "lt_donthave": 7, "upload_only": 3}
		}
		return protocol.Extended0{Version: "c16", Port: uint16(port), ReqQ: reqq, MetadataSize: ms,
			Messages: ms2, UploadOnly: uo == 1, Encrypt: enc == 1}
	case len(f) == 1 && f[0] == "Interested":
		return protocol.Interested{}
	case len(f) == 1 && f[0] == "NotInterested":
		return protocol.NotInterested{}
	case len(f) == 4 && (f[0] == "Request" || f[0] == "Cancel"):
		i, ok1 := u(f[1])
		b, ok2 := u(f[2])
		l, ok3 := u(f[3])
		if !ok1 || !ok2 || !ok3 {
			return nil
		}
		if f[0] == "Request" {
			return protocol.Request{Index: i, Begin: b, Length: l}
		}
		return protocol.Cancel{Index: i, Begin: b, Length: l}
	}
	return nil
}

// normEnv makes the environment bits of an op line consistent with what the harness can
// actually realise: a dead writer stays dead; isCongested follows from the writer's
// capacity and the free slots; the limiter's answer follows from the configured rate and
// the head of the queue (lengths in the clock-dependent band are never generated).  The
// normalised line is the one that is emitted (and that the model replays).
func (w *world) normEnv(e opEnv, tick bool) opEnv {
	if e.k < 0 || e.k >= len(w.peers) || !w.peers[e.k].live {
		return e
	}
	hp := w.peers[e.k]
	e.dead = e.dead || hp.dead
	if tick {
		e.cong = false
		if hp.cap > 0 {
			free := min(e.free, hp.cap)
			e.cong = e.dead || hp.cap-free > hp.cap/2
		}
		if st := hp.p.VerifState(); len(st.Upload) > 0 {
			e.allow = uint64(st.Upload[0].Length) <= 3*uint64(w.rate)
		}
	}
	return e
}

// exec runs one op line on the real code and emits (op, observation).
func (w *world) exec(line string) {
	f := strings.Fields(line)
	obs := "bad-op"
	isReset := len(f) > 0 && f[0] == "reset"
	if isReset {
		w.c.NewCase()
	}
	if w.t == nil && !isReset && !(len(f) > 0 && (f[0] == "e2e" || f[0] == "e2x" || f[0] == "huge")) {
		w.c.Emit(line, "bad-op")
		return
	}
	switch {
	case isReset && (len(f) == 5 || len(f) == 6):
		// reset <ps> <length> <salt> <rate> [@j1,j2,...]   (the list: sparse geometry)
		ps, ok1 := atoi(f[1])
		length, ok2 := atoi(f[2])
		salt, err3 := strconv.ParseUint(f[3], 10, 64)
		rate, ok4 := atoi(f[4])
		ok := ok1 && ok2 && err3 == nil && ok4 && ps > 0 && ps%16384 == 0 && ps <= 1<<23 && length > 0 && length <= 1<<34 && rate <= 1<<22
		var real []int
		if ok && len(f) == 6 {
			ok = strings.HasPrefix(f[5], "@") && len(f[5]) > 1
			np := (length + ps - 1) / ps
			if ok {
				for _, x := range strings.Split(f[5][1:], ",") {
					j, okj := atoi(x)
					if !okj || j >= np || len(real) >= 16 || (len(real) > 0 && j <= real[len(real)-1]) {
						ok = false
						break
					}
					real = append(real, j)
				}
			}
		}
		if ok && real == nil && length > 1<<23 {
			ok = false // a big torrent is never materialised
		}
		if ok {
			if err := w.reset(uint32(ps), int64(length), salt, uint32(rate), real); err != nil {
				obs = "reset-failed"
				w.c.Violate("store-setup:reset", err.Error(), []string{line})
			} else {
				obs = "ok"
			}
		}
	case f[0] == "e2e" && len(f) == 2:
		if n, ok := atoi(f[1]); ok && n < 1000 {
			w.c.NewCase()
			kind, detail := w.e2e(n)
			w.cleanup()
			obs = "e2e ok"
			if kind != "" {
				obs = "e2e FAIL " + kind
				w.c.Violate(kind, detail, []string{line})
			}
		}
	case f[0] == "e2x" && len(f) == 2:
		if n, ok := atoi(f[1]); ok && n < nE2x {
			w.c.NewCase()
			kind, detail := w.e2x(n)
			w.cleanup()
			obs = "e2x ok"
			if kind != "" {
				obs = "e2x FAIL " + kind
				w.c.Violate(kind, detail, []string{line})
			}
		}
	case f[0] == "huge" && len(f) == 2:
		// a torrent with a piece length close to 2^32 (accepted by MetadataComplete, nothing
		// is allocated): int64(Index)*int64(PieceSize)+int64(Begin) must not wrap
		if n, ok := atoi(f[1]); ok && n < 4 {
			w.c.NewCase()
			w.cleanup()
			obs = "huge ok"
			if pan := w.huge(n); pan != "" {
				obs = "huge FAIL"
				w.c.Violate("panic:tick:huge-piece-length", pan, []string{line})
			}
		}
	case f[0] == "peer" && (len(f) == 4 || len(f) == 5):
		fast, ok1 := atoi(f[1])
		info, ok2 := atoi(f[2])
		cp, ok3 := atoi(f[3])
		bits, ok4 := 0, true
		if len(f) == 5 { // reserved bits of the handshake: 1 = Extended, 2 = DHT
			bits, ok4 = atoi(f[4])
		}
		if ok1 && ok2 && ok3 && ok4 && fast <= 1 && info <= 1 && bits <= 3 && (cp == 0 || cp == 64) && len(w.peers) < 8 {
			obs = w.newPeer(fast == 1, info == 1, cp, bits)
		}
	case f[0] == "store" && len(f) == 3:
		if j, ok := atoi(f[2]); ok {
			obs = w.storeOp(f[1], j)
		}
	case f[0] == "msg" && len(f) >= 5:
		k, ok1 := atoi(f[1])
		free, ok2 := atoi(f[2])
		dead, ok3 := atoi(f[3])
		m := w.parseMsg(f[4:])
		if ok1 && ok2 && ok3 && dead <= 1 && free <= 1000 && m != nil {
			e := w.normEnv(opEnv{k: k, free: free, dead: dead == 1}, false)
			line = fmt.Sprintf("msg %d %d %s %s", k, free, b01(e.dead), strings.Join(f[4:], " "))
			obs = w.peerOp("msg", e, m, false, line)
		}
	case f[0] == "unch" && len(f) == 5:
		k, ok1 := atoi(f[1])
		free, ok2 := atoi(f[2])
		dead, ok3 := atoi(f[3])
		b, ok4 := atoi(f[4])
		if ok1 && ok2 && ok3 && ok4 && dead <= 1 && b <= 1 && free <= 1000 {
			e := w.normEnv(opEnv{k: k, free: free, dead: dead == 1}, false)
			line = fmt.Sprintf("unch %d %d %s %d", k, free, b01(e.dead), b)
			obs = w.peerOp("unch", e, nil, b == 1, line)
		}
	case f[0] == "tick" && len(f) == 6:
		k, ok1 := atoi(f[1])
		free, ok2 := atoi(f[2])
		dead, ok3 := atoi(f[3])
		cong, ok4 := atoi(f[4])
		allow, ok5 := atoi(f[5])
		if ok1 && ok2 && ok3 && ok4 && ok5 && dead <= 1 && cong <= 1 && allow <= 1 && free <= 1000 {
			e := w.normEnv(opEnv{k: k, free: free, dead: dead == 1, cong: cong == 1, allow: allow == 1}, true)
			line = fmt.Sprintf("tick %d %d %s %s %s", k, free, b01(e.dead), b01(e.cong), b01(e.allow))
			obs = w.peerOp("tick", e, nil, false, line)
		}
	case f[0] == "meta" && len(f) == 2:
		if k, ok := atoi(f[1]); ok {
			obs = w.peerOp("meta", opEnv{k: k}, nil, false, line)
		}
	case f[0] == "exit" && len(f) == 2:
		if k, ok := atoi(f[1]); ok {
			obs = w.peerOp("exit", opEnv{k: k}, nil, false, line)
		}
	}
	w.c.Emit(line, obs)
	tag := obs
	if i := strings.IndexByte(obs, ' '); i > 0 {
		tag = obs[:i]
	}
	if i := strings.IndexByte(tag, '!'); i > 0 && strings.HasPrefix(tag[i:], "!other") {
		tag = tag[:i] + "!other"
	}
	w.c.Count(f[0]+"/"+tag, line, f[0] != "reset" && f[0] != "peer" && f[0] != "store")
}

func main() {
	c := vhlib.Init("c16")
	defer c.Close()
	c.Rep.Rule = "histories of remote Interested/NotInterested/Request/Cancel (held, missing, unverified, evicted and out-of-range pieces; lengths 0,1,100,16384,16385,32768,2^17,2^17+1,2^20,2^32-1; duplicates; 600-request floods) interleaved with PeerUnchoke{true,false}, upload ticks, store changes, writer saturation / writer death and exit, on 1-3 real peers (Fast and not, with and without metadata, writer capacity 64 and 0) sharing the global numUnchoking; distinct = distinct op lines on peers"
	peer.UploadEstimator.Init(3 * time.Second) // as storrent.go does; never started: value stays 0
	w := &world{c: c}
	defer w.cleanup()
	if c.Replay != "" {
		for _, l := range c.ReplayLines() {
			w.exec(l)
		}
		return
	}
	budget := 170 // 200 ms congestion waits
	if c.Tier == "thorough" {
		budget = 900
	}
	g := &gen{w: w, r: c.R, budget: budget}
	ne2e := 4
	if c.Tier == "thorough" {
		ne2e = 24
	}
	for i := 0; i < ne2e && i < c.N; i++ {
		w.exec(fmt.Sprintf("e2e %d", c.R.Intn(1000)))
	}
	for i := 0; i < nE2x; i++ {
		w.exec(fmt.Sprintf("e2x %d", i))
	}
	for i := 0; i < 4; i++ {
		w.exec(fmt.Sprintf("huge %d", i))
	}
	for i := 0; i < c.N; i++ {
		g.genCase(i)
	}
	c.Note(fmt.Sprintf("congestion waits (200 ms each): %d", w.waits))
	var kinds []string
	for k := range c.Rep.Branches {
		kinds = append(kinds, k)
	}
	sort.Strings(kinds)
}
