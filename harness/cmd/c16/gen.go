package main

import (
	"fmt"

	"github.com/jech/storrent/peer"

	"verifharness/vhlib"
)

// Case generator.  Every case starts with `reset`; the generator may look at the real
// peers' state (to cancel requests that are queued, to know the head of the queue for the
// limiter bit) but every choice is drawn from the one PRNG.
type gen struct {
	nflood int
	w      *world
	r      *vhlib.Rand
	budget int // remaining 200 ms congestion waits
}

func (g *gen) do(format string, a ...any) { g.w.exec(fmt.Sprintf(format, a...)) }

func (g *gen) np() int { return g.w.numPieces() }

// congested environment if the budget allows, else an uncongested one
func (g *gen) freeFor(hp *hpeer, congest bool) int {
	if congest && g.budget > 0 {
		g.budget--
		return g.r.PickInt(0, 0, 0, 1, 1, 2, 3, 5)
	}
	return 64
}

func (g *gen) congBit(hp *hpeer, free int, dead bool) int {
	if hp.cap == 0 {
		return 0
	}
	if dead || hp.dead {
		return 1
	}
	if free > hp.cap {
		free = hp.cap
	}
	if hp.cap-free > hp.cap/2 {
		return 1
	}
	return 0
}

func (g *gen) allowBit(hp *hpeer) int {
	st := hp.p.VerifState()
	if len(st.Upload) == 0 {
		return 1
	}
	l := uint64(st.Upload[0].Length)
	r := uint64(g.w.rate)
	if l <= 3*r {
		return 1
	}
	return 0
}

// a length that is never in the band (3R, 5R] where the limiter's answer depends on the clock
func (g *gen) length(maxServable uint32) uint32 {
	r := g.r
	var l uint32
	switch r.Intn(12) {
	case 0, 1, 2, 3, 4:
		l = 16384
	case 5:
		l = r.PickU32(0, 1, 100, 7)
	case 6:
		l = r.PickU32(16385, 32768, 16383)
	case 7:
		l = r.PickU32(131072, 131073, 65536)
	case 8:
		l = r.PickU32(1048576, 4294967295, 2147483648, 131073)
	case 9:
		l = uint32(2 + r.Intn(16000))
	default:
		if maxServable > 0 {
			l = 1 + uint32(r.Intn(int(maxServable)))
			if l > 80000 {
				l = 16384
			}
		} else {
			l = 16384
		}
	}
	rate := uint64(g.w.rate)
	if uint64(l) > 3*rate && uint64(l) <= 5*rate {
		l = 16384
		if uint64(l) > 3*rate && uint64(l) <= 5*rate {
			l = 1
		}
		if uint64(l) > 3*rate && uint64(l) <= 5*rate {
			l = 0
		}
	}
	return l
}

func (g *gen) request() (uint32, uint32, uint32) {
	r := g.r
	w := g.w
	n := g.np()
	ps := w.ps
	if r.Chance(70) {
		// aimed at a real piece, mostly servable
		j := r.Intn(n)
		lo, hi := w.pieceRange(j)
		pl := uint32(hi - lo)
		var b uint32
		switch r.Intn(5) {
		case 0, 1:
			b = 0
		case 2:
			b = 16384 * uint32(r.Intn(int(ps/16384)))
		case 3:
			b = uint32(r.Intn(int(pl)))
		default:
			b = pl - uint32(1+r.Intn(int(min(pl, 100))))
		}
		var room uint32
		if b < pl {
			room = pl - b
		}
		l := g.length(room)
		if r.Chance(50) && room > 0 && l > room && l <= 131072 {
			l = room
			if rate := uint64(w.rate); uint64(l) > 3*rate && uint64(l) <= 5*rate {
				l = 1
			}
		}
		return uint32(j), b, l
	}
	// an index beyond the last piece is ErrRange (the peer is dropped): keep it rare
	i := uint32(r.Intn(n))
	if r.Chance(8) {
		i = r.PickU32(uint32(n), uint32(n)+1, 4294967295, 2147483648)
	}
	b := r.PickU32(0, 16384, ps-1, ps, ps+1, 4294967295, uint32(r.Intn(int(ps))))
	return i, b, g.length(0)
}

func (g *gen) setupStore(full bool) {
	n := g.np()
	for j := 0; j < n; j++ {
		switch {
		case full || g.r.Chance(65):
			g.do("store add %d", j)
		case g.r.Chance(30):
			g.do("store partial %d", j)
		case g.r.Chance(30):
			g.do("store bad %d", j)
		}
	}
}

func (g *gen) geometry(big bool) (uint32, int64) {
	r := g.r
	ps := r.PickU32(16384, 32768, 32768, 65536)
	if big {
		ps = 262144
	}
	n := 2 + r.Intn(5)
	if big {
		n = 2 + r.Intn(2)
	}
	length := int64(ps) * int64(n-1)
	switch r.Intn(3) {
	case 0:
		length += int64(ps)
	case 1:
		length += int64(1 + r.Intn(int(ps)))
	default:
		length += int64(16384 * (1 + r.Intn(int(ps/16384))))
	}
	return ps, length
}

func (g *gen) reset(big bool, rate uint32) {
	ps, length := g.geometry(big)
	g.do("reset %d %d %d %d", ps, length, g.r.U64()>>1, rate)
}

// one random op on peer k
func (g *gen) randomOp(k int, congestPct int) {
	r := g.r
	w := g.w
	if k >= len(w.peers) {
		g.do("msg %d 64 0 Interested", k)
		return
	}
	hp := w.peers[k]
	if !hp.live && r.Chance(90) {
		// mostly leave exited peers alone: pick a live one or bring a new one in
		for j, q := range w.peers {
			if q.live {
				hp, k = q, j
				break
			}
		}
		if !hp.live {
			if len(w.peers) < 8 {
				k = g.addPeer(r.Bool(), !r.Chance(10), 64)
				if r.Chance(70) {
					g.unchoked(k)
				}
			}
			return
		}
	}
	if hp.errored && hp.live && r.Chance(90) {
		g.do("exit %d", k) // Run returns after a handler error
		return
	}
	dead := 0
	if hp.dead {
		dead = 1
	}
	congest := r.Chance(congestPct)
	st := hp.p.VerifState()
	if r.Chance(4) {
		g.diverse(k)
		return
	}
	x := r.Intn(100)
	if x >= 63 && x < 93 && (len(st.Upload) == 0 || !st.AmUnchoking) && r.Chance(75) {
		x = 25 + r.Intn(30) // an idle tick: send a request instead
	}
	switch {
	case x < 8:
		g.do("msg %d %d %d Interested", k, g.freeFor(hp, false), dead)
	case x < 11:
		g.do("msg %d %d %d NotInterested", k, g.freeFor(hp, congest), dead)
	case x < 21:
		g.do("unch %d %d %d 1", k, g.freeFor(hp, congest), dead)
	case x < 25:
		g.do("unch %d %d %d 0", k, g.freeFor(hp, congest), dead)
	case x < 55:
		i, b, l := g.request()
		if len(st.Upload) > 0 && r.Chance(10) { // duplicate
			q := st.Upload[r.Intn(len(st.Upload))]
			i, b, l = q.Index, q.Begin, q.Length
		}
		g.do("msg %d %d %d Request %d %d %d", k, g.freeFor(hp, congest && (!st.AmUnchoking || len(st.Upload) >= reqQ)), dead, i, b, l)
	case x < 63:
		if len(st.Upload) > 0 && r.Chance(75) {
			q := st.Upload[r.Intn(len(st.Upload))]
			g.do("msg %d %d %d Cancel %d %d %d", k, g.freeFor(hp, congest), dead, q.Index, q.Begin, q.Length)
		} else {
			i, b, l := g.request()
			g.do("msg %d 64 %d Cancel %d %d %d", k, dead, i, b, l)
		}
	case x < 93:
		free := 64
		if hp.cap == 0 {
			free = g.freeFor(hp, congest && st.AmUnchoking && len(st.Upload) > 0)
		} else if r.Chance(8) {
			free = r.PickInt(0, 10, 31, 32, 33)
		}
		g.do("tick %d %d %d %d %d", k, free, dead, g.congBit(hp, free, dead == 1), g.allowBit(hp))
	case x < 96:
		j := r.Intn(g.np())
		g.do("store %s %d", []string{"evict", "evict", "add", "partial", "bad"}[r.Intn(5)], j)
	case x < 97:
		g.do("meta %d", k)
	case x < 98 && !hp.dead:
		// the writer dies (connection closed); a few more events may still be handled
		g.do("tick %d 0 1 %d %d", k, g.congBit(hp, 0, true), g.allowBit(hp))
	default:
		if r.Chance(40) {
			g.do("exit %d", k)
		}
	}
}

func (g *gen) addPeer(fast, info bool, cap int) int {
	b := func(x bool) int {
		if x {
			return 1
		}
		return 0
	}
	if g.r.Chance(50) {
		g.do("peer %d %d %d %d", b(fast), b(info), cap, g.r.Intn(4)) // reserved bits: Extended, DHT
	} else {
		g.do("peer %d %d %d", b(fast), b(info), cap)
	}
	return len(g.w.peers) - 1
}

// values a remote can advertise as "reqq" in its extended handshake: what WE may send to
// IT — none of them may move any bound of our upload path
var reqqValues = []uint32{0, 1, 249, 250, 251, 1000, 100000, 2147483647, 4294967295}

// ext0 sends the remote's extended handshake with the given reqq and random other fields.
func (g *gen) ext0(k int, reqq uint32) {
	r := g.r
	ms := r.PickU32(0, 1, 16384, 100000, 4294967295, uint32(len(g.w.t.Info)))
	port := r.PickInt(0, 0, 6881, 65535)
	g.do("msg %d 64 0 Ext0 %d %d %d %d %d %d", k, reqq, ms, r.Intn(2), r.Intn(2), port, r.Intn(4))
	if k < len(g.w.peers) {
		g.w.peers[k].gotExt = true
	}
}

func (g *gen) bitfield() string {
	np := g.np()
	b := make([]byte, (np+7)/8)
	mode := g.r.Intn(3)
	for i := 0; i < np; i++ {
		if mode == 0 || mode == 1 && g.r.Bool() {
			b[i/8] |= 0x80 >> (i % 8)
		}
	}
	return vhlib.Hex(b)
}

// diverse sends one message that changes the peer's state outside the upload path
// (extended handshake, availability, the remote's own choking, Fast-extension hints).
func (g *gen) diverse(k int) {
	r := g.r
	if k >= len(g.w.peers) {
		return
	}
	hp := g.w.peers[k]
	if !hp.p.VerifState().HasInfo && r.Chance(95) {
		// availability messages are not accepted before the metadata
		switch r.Intn(3) {
		case 0:
			if !hp.gotExt {
				g.ext0(k, reqqValues[r.Intn(len(reqqValues))])
				return
			}
			g.do("msg %d 64 0 KeepAlive", k)
		case 1:
			g.do("msg %d 64 0 %s", k, []string{"Choke", "Unchoke"}[r.Intn(2)])
		default:
			g.do("msg %d 64 0 Interested", k)
		}
		return
	}
	switch x := r.Intn(12); {
	case x < 3:
		if !hp.gotExt || r.Chance(4) { // a second handshake is an error: rarely
			g.ext0(k, reqqValues[r.Intn(len(reqqValues))])
		} else {
			g.do("msg %d 64 0 KeepAlive", k)
		}
	case x < 5:
		g.do("msg %d 64 0 Have %d", k, r.Intn(g.np()))
	case x < 6:
		g.do("msg %d 64 0 Bitfield %s", k, g.bitfield())
	case x < 8:
		g.do("msg %d 64 0 %s", k, []string{"Choke", "Unchoke"}[r.Intn(2)])
	case x < 10:
		if hp.fast || r.Chance(4) { // from a non-Fast peer these are errors: rarely
			switch r.Intn(4) {
			case 0:
				g.do("msg %d 64 0 HaveAll", k)
			case 1:
				g.do("msg %d 64 0 HaveNone", k)
			case 2:
				g.do("msg %d 64 0 AllowedFast %d", k, r.Intn(g.np()))
			default:
				g.do("msg %d 64 0 Suggest %d", k, r.Intn(g.np()))
			}
		} else {
			g.do("msg %d 64 0 KeepAlive", k)
		}
	case x < 11:
		g.do("msg %d 64 0 Interested", k)
	default:
		g.do("msg %d 64 0 KeepAlive", k)
	}
}

// preamble: state diversity before the upload traffic starts
func (g *gen) preamble(k int) {
	for n := g.r.Intn(7); n > 0; n-- {
		g.diverse(k)
	}
}

func (g *gen) unchoked(k int) {
	g.do("msg %d 64 0 Interested", k)
	g.do("unch %d 64 0 1", k)
}

func (g *gen) genCase(n int) {
	r := g.r
	x := r.Intn(100)
	switch {
	case n == 0:
		g.tour()
	case n <= 6 || n%23 == 5:
		g.sparse(n)
	case n <= 12 || n%89 == 11:
		g.refuseFlood(n - 7)
	case n%97 == 3:
		g.flood()
	case x < 38:
		g.normal(false)
	case x < 48:
		g.normal(true) // with a writer death
	case x < 60:
		g.lengths()
	case x < 85 && g.budget > 0:
		g.congestion()
	default:
		g.soup()
	}
}

// tour: one scripted visit of the branches that random histories reach rarely (every run
// starts with it, so that every branch of the model is compared in every run)
func (g *gen) tour() {
	g.reset(false, 524288)
	g.setupStore(true)
	n := g.np()
	// requests before the metadata; metadata; duplicate metadata
	k := g.addPeer(true, false, 64)
	g.do("msg %d 64 0 Request 0 0 16384", k)
	g.do("msg %d 64 0 Cancel 0 0 16384", k)
	g.do("meta %d", k)
	g.unchoked(k)
	g.do("msg %d 64 0 Request 0 0 16384", k)
	g.do("tick %d 64 0 0 1", k)
	g.do("meta %d", k)
	g.do("exit %d", k)
	k = g.addPeer(true, true, 64)
	g.unchoked(k)
	g.do("msg %d 64 0 Request %d 0 16384", k, n) // req!range
	g.do("exit %d", k)
	k = g.addPeer(true, false, 64)
	g.do("msg %d 0 0 Request 0 0 16384", k) // req-noinfo!cong
	g.do("exit %d", k)
	k = g.addPeer(true, true, 64)
	g.do("msg %d 64 0 Interested", k)
	g.do("msg %d 0 0 Request 0 0 16384", k) // req-choked!cong
	g.do("exit %d", k)
	k = g.addPeer(true, true, 64)
	g.unchoked(k)
	g.do("msg %d 0 0 Request 0 0 131073", k) // req-toolong!cong
	g.do("exit %d", k)
	// unbuffered writer: the Reject / Piece write itself fails
	k = g.addPeer(true, true, 0)
	g.unchoked(k)
	g.do("msg %d 64 0 Request 0 %d 16384", k, g.w.ps)
	g.do("msg %d 64 0 Request 0 0 16384", k)
	g.do("tick %d 0 0 0 1", k) // tick-short-rej!cong
	g.do("exit %d", k)
	k = g.addPeer(true, true, 0)
	g.unchoked(k)
	g.do("msg %d 64 0 Request 0 0 16384", k)
	g.do("tick %d 0 0 0 1", k) // tick-piece-cong
	g.do("tick %d 0 1 0 1", k) // tick-piece!eof
	g.do("exit %d", k)
	k = g.addPeer(true, true, 0)
	g.unchoked(k)
	g.do("msg %d 64 0 Request 0 %d 16384", k, g.w.ps)
	g.do("tick %d 0 1 0 1", k) // tick-short-rej!eof
	g.do("exit %d", k)
	// the remote advertises a huge reqq (what we may send to IT), then floods: our own
	// queue limit is still 250
	k = g.addPeer(true, true, 64)
	g.ext0(k, 100000)
	g.do("msg %d 64 0 Have 0", k)
	g.do("msg %d 64 0 Bitfield %s", k, g.bitfield())
	g.do("msg %d 64 0 HaveAll", k)
	g.do("msg %d 64 0 AllowedFast 0", k)
	g.do("msg %d 64 0 Choke", k)
	g.do("msg %d 64 0 Unchoke", k)
	g.unchoked(k)
	for i := 0; i < 262; i++ {
		g.do("msg %d 64 0 Request %d %d 16384", k, i%n, 16384*(i%2))
	}
	g.do("msg %d 64 0 Ext0 1 0 0 0 0 0", k) // other!dupext
	g.do("exit %d", k)
	k = g.addPeer(false, true, 64)
	g.do("msg %d 64 0 HaveNone", k) // other!nofast
	g.do("exit %d", k)

	k = g.addPeer(true, true, 64)
	g.unchoked(k)
	g.do("msg %d 64 0 Request 0 0 16384", k)
	g.do("msg %d 0 0 NotInterested", k) // notint-off-wfail!cong
	g.do("unch %d 0 0 1", k)            // unch-unint-off-wfail!cong
	g.do("exit %d", k)
	k = g.addPeer(false, true, 64)
	g.unchoked(k)
	g.do("msg %d 64 0 Request 0 0 16384", k)
	g.do("msg %d 0 0 NotInterested", k)
	g.do("unch %d 64 0 1", k) // unch-unint-off
	g.do("unch %d 64 0 1", k) // unch-unint-same
	g.do("msg %d 64 0 Interested", k)
	g.do("unch %d 0 0 1", k) // unch-on-wfail
	g.do("unch %d 64 0 1", k)
	g.do("msg %d 64 0 Request 0 %d 16384", k, g.w.ps)
	g.do("tick %d 64 0 0 1", k) // tick-short-drop
	g.do("tick %d 10 0 1 1", k) // tick-idle
	g.do("msg %d 64 0 Request 0 0 16384", k)
	g.do("tick %d 10 0 1 1", k) // tick-cong
	g.do("exit %d", k)
}

func (g *gen) normal(death bool) {
	r := g.r
	g.reset(false, 524288)
	g.setupStore(r.Chance(30))
	np := 1 + r.Intn(3)
	for i := 0; i < np; i++ {
		cap := 64
		if r.Chance(12) {
			cap = 0
		}
		k := g.addPeer(r.Bool(), !r.Chance(10), cap)
		if r.Chance(60) {
			g.preamble(k)
		}
		if r.Chance(70) {
			g.unchoked(k)
		}
	}
	ops := 20 + r.Intn(60)
	deathAt := -1
	if death {
		deathAt = r.Intn(ops)
	}
	for i := 0; i < ops; i++ {
		k := r.Intn(len(g.w.peers))
		if i == deathAt {
			hp := g.w.peers[k]
			if hp.live && !hp.dead {
				g.do("tick %d 0 1 %d %d", k, g.congBit(hp, 0, true), g.allowBit(hp))
			}
		}
		g.randomOp(k, 3)
		if r.Chance(2) && len(g.w.peers) < 5 {
			k := g.addPeer(r.Bool(), true, 64)
			g.unchoked(k)
		}
	}
	if r.Chance(50) {
		for k := range g.w.peers {
			if r.Chance(60) {
				g.do("exit %d", k)
			}
		}
	}
}

func (g *gen) lengths() {
	r := g.r
	rate := r.PickU32(0, 6000, 6000, 524288, 524288, 524288)
	big := r.Chance(40)
	g.reset(big, rate)
	g.setupStore(true)
	k := g.addPeer(r.Bool(), true, 64)
	g.unchoked(k)
	if r.Chance(30) {
		k2 := g.addPeer(r.Bool(), true, 64)
		g.unchoked(k2)
	}
	for i := 0; i < 15+r.Intn(30); i++ {
		k := r.Intn(len(g.w.peers))
		hp := g.w.peers[k]
		if r.Chance(45) {
			i, b, l := g.request()
			if big && r.Chance(40) {
				i, b, l = uint32(r.Intn(g.np()-1)), r.PickU32(0, 131072, 16384), r.PickU32(131072, 131072, 131073, 65536)
			}
			if rr := uint64(rate); uint64(l) > 3*rr && uint64(l) <= 5*rr {
				l = 0
			}
			g.do("msg %d 64 0 Request %d %d %d", k, i, b, l)
		} else {
			g.do("tick %d 64 0 0 %d", k, g.allowBit(hp))
		}
		if r.Chance(4) {
			g.randomOp(k, 0)
		}
	}
}

func (g *gen) soup() {
	r := g.r
	g.reset(false, r.PickU32(524288, 524288, 6000))
	g.setupStore(false)
	np := 2 + r.Intn(2)
	for i := 0; i < np; i++ {
		k := g.addPeer(r.Bool(), !r.Chance(25), 64)
		if r.Chance(60) {
			g.preamble(k)
		}
	}
	for i := 0; i < 30+r.Intn(90); i++ {
		k := r.Intn(len(g.w.peers) + 1)
		if r.Chance(97) && k >= len(g.w.peers) {
			k = r.Intn(len(g.w.peers))
		}
		g.randomOp(k, 1)
	}
}

func (g *gen) flood() {
	r := g.r
	g.reset(false, 524288)
	g.setupStore(true)
	fast := r.Bool()
	k := g.addPeer(fast, true, 64)
	// the remote says what it likes about itself first; our queue limit must not move
	g.nflood++
	g.ext0(k, reqqValues[(g.nflood+5)%len(reqqValues)])
	g.preamble(k)
	if r.Chance(30) { // toggles of interest and of our own choking
		g.unchoked(k)
		g.do("msg %d 64 0 NotInterested", k)
		g.do("unch %d 64 0 0", k)
	}
	g.unchoked(k)
	hp := g.w.peers[k]
	if hp.errored {
		g.do("exit %d", k)
		return
	}
	keep := 0
	if fast && g.budget >= 8 {
		keep = 2 + r.Intn(3)
	}
	keepAt := 300 + r.Intn(200)
	for i := 0; i < 600; i++ {
		ix, b, l := g.request()
		if l > 131072 && r.Chance(80) {
			l = 16384
		}
		if int(ix) >= g.np() {
			ix = uint32(r.Intn(g.np())) // ErrRange would end the flood
		}
		free := 64
		if keep > 0 && i >= keepAt {
			free = 0
			keep--
			g.budget--
		}
		g.do("msg %d %d 0 Request %d %d %d", k, free, ix, b, l)
		if r.Chance(4) {
			g.do("tick %d 64 0 0 %d", k, g.allowBit(hp))
		}
		if r.Chance(1) {
			st := hp.p.VerifState()
			if len(st.Upload) > 0 {
				q := st.Upload[r.Intn(len(st.Upload))]
				g.do("msg %d 64 0 Cancel %d %d %d", k, q.Index, q.Begin, q.Length)
			}
		}
	}
	switch r.Intn(4) {
	case 0:
		g.do("unch %d 64 0 0", k)
	case 1:
		g.do("msg %d 64 0 NotInterested", k)
	case 2:
		free := 64
		if fast && g.budget > 0 {
			free = 1 + r.Intn(40)
			g.budget--
		}
		g.do("msg %d %d 0 NotInterested", k, free)
		g.unchoked(k)
	default:
		g.do("exit %d", k)
	}
	for i := 0; i < 10; i++ {
		g.do("tick %d 64 0 0 %d", k, g.allowBit(hp))
	}
}

// small targeted scenarios around a saturated writer (each costs a few 200 ms waits)
func (g *gen) congestion() {
	r := g.r
	g.reset(false, 524288)
	g.setupStore(true)
	fast := r.Chance(75)
	cap := 64
	sc := r.Intn(9)
	if sc == 7 {
		cap = 0
	}
	k := g.addPeer(fast, true, cap)
	hp := g.w.peers[k]
	other := -1
	if r.Chance(40) {
		other = g.addPeer(r.Bool(), true, 64)
		g.unchoked(other)
	}
	queue := func(n int) {
		for i := 0; i < n; i++ {
			j := r.Intn(g.np())
			lo, hi := g.w.pieceRange(j)
			l := uint32(min(hi-lo, 16384))
			b := 0
			if r.Chance(25) {
				b = int(g.w.ps) // beyond the piece: rejected at serve time
			}
			g.do("msg %d 64 0 Request %d %d %d", k, j, b, l)
		}
	}
	tick := func(n int) {
		for i := 0; i < n; i++ {
			g.do("tick %d 64 0 0 %d", k, g.allowBit(hp))
		}
	}
	g.budget -= 2
	switch sc {
	case 0: // Unchoke cannot be written
		g.do("msg %d 64 0 Interested", k)
		g.do("unch %d 0 0 1", k)
		queue(2)
		g.do("unch %d 64 0 1", k)
		queue(2)
		tick(3)
	case 1: // Choke cannot be written: an error, the peer exits while unchoked
		g.unchoked(k)
		queue(3)
		g.do("unch %d 0 0 0", k)
		if r.Chance(70) {
			g.do("exit %d", k)
		} else {
			tick(2)
			g.do("unch %d 64 0 0", k)
		}
	case 2, 3: // Choke written, the rejects only partly
		g.unchoked(k)
		n := 2 + r.Intn(5)
		queue(n)
		free := 1 + r.Intn(n)
		if sc == 2 {
			g.do("unch %d %d 0 0", k, free)
			if r.Chance(50) {
				g.do("exit %d", k)
				break
			}
		} else {
			g.do("msg %d %d 0 NotInterested", k, free)
		}
		g.unchoked(k)
		tick(n + 1)
	case 4: // NotInterested, Choke cannot be written: still unchoked, not interested
		g.unchoked(k)
		queue(2)
		g.do("msg %d 0 0 NotInterested", k)
		tick(1)
		g.do("unch %d 64 0 1", k)
		tick(2)
	case 5: // request while choked, reject cannot be written
		g.do("msg %d 64 0 Interested", k)
		g.do("msg %d 0 0 Request 0 0 16384", k)
		if r.Bool() {
			g.do("exit %d", k)
		} else {
			g.unchoked(k)
			queue(1)
			tick(2)
		}
	case 6: // cancel of a queued request, reject cannot be written
		g.unchoked(k)
		queue(3)
		st := hp.p.VerifState()
		if len(st.Upload) > 0 {
			q := st.Upload[r.Intn(len(st.Upload))]
			g.do("msg %d 0 0 Cancel %d %d %d", k, q.Index, q.Begin, q.Length)
		}
		tick(3)
	case 7: // unbuffered writer: the Piece / Reject write itself is congested
		g.unchoked(k)
		queue(3)
		g.do("tick %d 0 0 0 %d", k, g.allowBit(hp))
		g.do("tick %d 1 0 0 %d", k, g.allowBit(hp))
		g.do("tick %d 0 0 0 %d", k, g.allowBit(hp))
		tick(3)
	default: // head-drop with a saturated writer
		g.unchoked(k)
		for i := 0; i < reqQ; i++ {
			g.do("msg %d 64 0 Request %d %d 16384", k, r.Intn(g.np()), 16384*r.Intn(2))
		}
		n := 1 + r.Intn(3)
		for i := 0; i < n; i++ {
			g.do("msg %d 0 0 Request 0 0 %d", k, 1+i)
		}
		g.budget -= n
		g.do("msg %d 64 0 Request 0 0 77", k)
		tick(2)
		if r.Bool() {
			g.do("unch %d 64 0 0", k)
		}
	}
	if other >= 0 && r.Bool() {
		g.do("exit %d", other)
	}
	_ = peer.NumUnchoking
}

// sparse: a torrent larger than 4 GiB of which only a few pieces exist (real hashes, data on
// demand): the pieces around byte offset 2^32 — below it, containing it when the piece size
// is not a power of two, above it — the pieces the same requests would hit if the offset
// were computed modulo 2^32, and the last one.  Requests for blocks just below 2^32,
// straddling it and beyond it; the payload oracle compares with the true content at
// (index, begin).
func (g *gen) sparse(n int) {
	r := g.r
	pss := []int64{49152, 147456, 1048576, 1572864, 4194304, 65536, 16384, 245760}
	ps := pss[n%len(pss)]
	const two32 = int64(1) << 32
	jb := two32 / ps // the piece containing byte 2^32 (it starts exactly there iff ps | 2^32)
	np := jb + 3 + int64(r.Intn(6))
	length := (np-1)*ps + 1 + int64(r.Intn(int(ps)))
	if r.Chance(30) {
		length = np * ps
	}
	set := map[int64]bool{0: true, 1: true, 2: true, jb - 1: true, jb: true, jb + 1: true, jb + 2: true, np - 1: true}
	if r.Bool() {
		set[jb/2] = true
	}
	var real []int64
	for j := range set {
		real = append(real, j)
	}
	for i := range real { // sort
		for j := i + 1; j < len(real); j++ {
			if real[j] < real[i] {
				real[i], real[j] = real[j], real[i]
			}
		}
	}
	var sb []byte
	for i, j := range real {
		if i > 0 {
			sb = append(sb, ',')
		}
		sb = append(sb, fmt.Sprint(j)...)
	}
	g.do("reset %d %d %d 524288 @%s", ps, length, r.U64()>>1, sb)
	for _, j := range real {
		switch {
		case r.Chance(85):
			g.do("store add %d", j)
		case r.Bool():
			g.do("store partial %d", j)
		}
	}
	npeers := 1 + r.Intn(2)
	for i := 0; i < npeers; i++ {
		k := g.addPeer(r.Bool(), true, 64)
		if r.Chance(40) {
			g.preamble(k)
		}
		g.unchoked(k)
	}
	req := func() (int64, int64, int64) {
		l := int64(r.PickInt(16384, 16384, 1, 100, 8000, 16383, 32768, 131072))
		switch r.Intn(6) {
		case 0: // ends exactly at 2^32, or just below
			off := two32 - l - int64(r.PickInt(0, 0, 1, 5000))
			return off / ps, off % ps, l
		case 1: // straddles 2^32 (inside one piece iff the piece size does not divide 2^32)
			off := two32 - 1 - int64(r.Intn(int(l)))
			if l == 1 {
				off = two32 - 1
			}
			return off / ps, off % ps, l
		case 2: // starts at 2^32 or just above
			off := two32 + int64(r.PickInt(0, 0, 1, 16384, 7))
			return off / ps, off % ps, l
		}
		j := real[r.Intn(len(real))]
		lo := j * ps
		hi := min(lo+ps, length)
		pl := hi - lo
		var b int64
		switch r.Intn(4) {
		case 0:
			b = 0
		case 1:
			b = max(0, pl-l)
		case 2:
			b = 16384 * int64(r.Intn(int((pl+16383)/16384)))
		default:
			b = int64(r.Intn(int(pl)))
		}
		return j, b, l
	}
	for i := 0; i < 40+r.Intn(40); i++ {
		k := r.Intn(npeers)
		hp := g.w.peers[k]
		if hp.errored || !hp.live {
			continue
		}
		switch x := r.Intn(20); {
		case x < 9:
			j, b, l := req()
			g.do("msg %d 64 0 Request %d %d %d", k, j, b, l)
		case x < 18:
			g.do("tick %d 64 0 0 %d", k, g.allowBit(hp))
		case x < 19:
			st := hp.p.VerifState()
			if len(st.Upload) > 0 {
				q := st.Upload[r.Intn(len(st.Upload))]
				g.do("msg %d 64 0 Cancel %d %d %d", k, q.Index, q.Begin, q.Length)
			}
		default:
			j := real[r.Intn(len(real))]
			g.do("store %s %d", []string{"evict", "add", "add"}[r.Intn(3)], j)
		}
	}
	for k := 0; k < npeers; k++ {
		for i := 0; i < 6; i++ {
			g.do("tick %d 64 0 0 %d", k, g.allowBit(g.w.peers[k]))
		}
	}
}

// refuseFlood: the remote has stopped reading (the writer stays more than half full: it is
// "congested", but a write still finds room) and keeps sending requests we refuse — before
// the metadata, while choked, longer than 128 kB, beyond the 250-entry queue — to a Fast
// and to a non-Fast peer.  Whatever the implementation does with the refusals, the peer
// must not accumulate anything (oracle queue-unbounded:any-field over every field).
func (g *gen) refuseFlood(v int) {
	r := g.r
	if v < 0 {
		v = -v
	}
	v %= 6
	fast := v < 4
	state := []int{0, 1, 2, 3, 1, 3}[v] // 0 no metadata, 1 choked, 2 too long, 3 overflow
	g.reset(false, 524288)
	g.setupStore(true)
	k := g.addPeer(fast, state != 0, 64)
	g.ext0(k, reqqValues[r.Intn(len(reqqValues))])
	if state >= 2 || r.Bool() {
		g.do("msg %d 64 0 Interested", k)
	}
	if state >= 2 {
		g.do("unch %d 64 0 1", k)
	}
	if state == 3 {
		for i := 0; i < reqQ; i++ {
			g.do("msg %d 64 0 Request %d %d 16384", k, r.Intn(g.np()), 16384*r.Intn(2))
		}
	}
	for i := 0; i < 700; i++ {
		free := 1 + r.Intn(31) // congested (more than half full), never full
		l := uint32(16384)
		if state == 2 {
			l = r.PickU32(131073, 1048576, 4294967295)
		}
		g.do("msg %d %d 0 Request %d %d %d", k, free, r.Intn(g.np()), 16384*r.Intn(2), l)
		if r.Chance(3) {
			hp := g.w.peers[k]
			g.do("tick %d %d 0 1 %d", k, free, g.allowBit(hp))
		}
	}
	switch r.Intn(3) {
	case 0:
		g.do("unch %d 64 0 0", k)
	case 1:
		g.do("msg %d 64 0 NotInterested", k)
	}
	g.do("exit %d", k)
}
