package main

// Structural measure of the per-peer memory that traffic can make grow: the number of
// items in EVERY slice, map and channel reachable from the peer.Peer struct (its own fields
// and, one level down, the fields of its embedded structs), found by reflection — so a
// field added tomorrow is counted without anybody listing it.  Not counted: pointers (the
// piece store, the logger, tickers), arrays, strings, and the fixed-size or otherwise-owned
// tables named in itemsExcluded.

import (
	"fmt"
	"reflect"
	"sort"
	"strings"

	"github.com/jech/storrent/peer"
)

// Fields whose size does not depend on the requests a remote sends:
//
//	Info, Id, infoHash     the metadata and two 20-byte hashes
//	bitmap, myBitmap       one bit per piece (C05 bounds them)
//	fast                   AllowedFast indices: distinct, below the number of pieces
//	pex, pexState          PEX traffic (C11)
//	Event                  filled by the torrent, not by the remote
var itemsExcluded = map[string]bool{
	"Info": true, "Id": true, "infoHash": true, "bitmap": true, "myBitmap": true,
	"fast": true, "pex": true, "pexState": true, "Event": true,
}

func queuedItems(p *peer.Peer) (int, string) {
	total := 0
	var parts []string
	var walk func(name string, v reflect.Value, depth int)
	walk = func(name string, v reflect.Value, depth int) {
		switch v.Kind() {
		case reflect.Slice, reflect.Map, reflect.Chan:
			if n := v.Len(); n > 0 {
				total += n
				parts = append(parts, fmt.Sprintf("%s=%d", name, n))
			}
		case reflect.Struct:
			if depth >= 2 {
				return
			}
			t := v.Type()
			for i := 0; i < v.NumField(); i++ {
				fn := t.Field(i).Name
				if depth == 0 && itemsExcluded[fn] {
					continue
				}
				sub := fn
				if name != "" {
					sub = name + "." + fn
				}
				walk(sub, v.Field(i), depth+1)
			}
		}
	}
	walk("", reflect.ValueOf(p).Elem(), 0)
	sort.Strings(parts)
	return total, strings.Join(parts, " ")
}
