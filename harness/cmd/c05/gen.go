package main

import (
	"context"
	"bufio"
	"bytes"
	"errors"
	"fmt"
	"io"
	"net/netip"
	"runtime"
	"strconv"
	"strings"

	"github.com/jech/storrent/peer"
	"github.com/jech/storrent/pex"
	"github.com/jech/storrent/protocol"
	"github.com/jech/storrent/tor"

	"verifharness/vhlib"
	"verifharness/wirecanon"
)

func encode(m protocol.Message) ([]byte, string) {
	var buf bytes.Buffer
	bw := bufio.NewWriter(&buf)
	var err error
	if p, ok := m.(protocol.Piece); ok {
		p.Data = append([]byte(nil), p.Data...)
		m = p
	}
	pn := vhlib.Recover(func() { err = protocol.Write(bw, m, nil) })
	if pn != "" {
		return nil, "panic: " + pn
	}
	if err != nil {
		return nil, err.Error()
	}
	bw.Flush()
	return buf.Bytes(), ""
}

func (w *world) newLine() string {
	st := w.p.VerifState()
	info, il, ps, ln, nh := 0, 0, uint32(0), int64(0), 0
	if st.HasInfo {
		info, il, ps, ln, nh = 1, len(w.t.Info), w.t.Pieces.PieceSize(), w.t.Pieces.Length(), len(w.t.PieceHashes)
	}
	return fmt.Sprintf("new %d %d %d %d %s %s %d %s %d %d %s %s", info, il, ps, ln, b01(w.cfg.fast),
		vhlib.Hex(st.MyBitmap), w.cfg.wcap, ipHex(peerIP), w.cfg.port, nh, b01(w.metaGe), w.cfg.token())
}

func randCfg(r *vhlib.Rand, i int) caseCfg {
	cfg := caseCfg{seed: r.U64() >> 1, metaGe: true}
	cfg.magnet = r.Chance(40)
	cfg.fast = r.Bool()
	cfg.ps = uint32(r.PickInt(16384, 16384, 32768, 32768, 49152, 65536))
	cfg.np = r.PickInt(1, 2, 3, 5, 8, 9, 16, 17)
	cfg.last = r.PickU32(1, 1000, 16384, 16385, cfg.ps-1, cfg.ps, cfg.ps)
	if cfg.last > cfg.ps {
		cfg.last = cfg.ps
	}
	cfg.nameLen = r.PickInt(8, 8, 100, 16384-90, 20000, 33000, 16384*2-77)
	if cfg.magnet && r.Chance(12) {
		// info of exactly k*16384 bytes (the off-by-one block of gotMetadata is then empty)
		probe, _ := makeInfo(vhlib.NewRand(1), cfg.ps, int64(cfg.np-1)*int64(cfg.ps)+int64(cfg.last), 100)
		over := len(probe) - 100 - 3
		cfg.nameLen = 2*16384 - over - 5
	}
	if cfg.magnet && cfg.nameLen < 16384 && r.Chance(50) {
		cfg.nameLen = r.PickInt(20000, 33000, 16384*2-77, 40000)
	}
	cfg.wcap = r.PickInt(64, 64, 64, 8, 2)
	cfg.evcap = r.PickInt(512, 512, 512, 1, 2)
	cfg.port = r.PickInt(6881, 6881, 0)
	cfg.badInfo = cfg.magnet && r.Chance(8)
	return cfg
}

var bnd = []uint32{0, 1, 2, 7, 8, 9, 1 << 14, 1<<23 - 1, 1 << 23, 1<<23 + 1, 1 << 24, 1 << 27, 1 << 31, 1<<32 - 1}

// alias draws a value that is, modulo 2^32, an alias of a small valid value under one of the
// multiplications the code performs on such a field (block size, blocks per piece, piece
// size, bits per byte, hash size): k*ceil(2^32/c)+j and k*(2^32/c)+j, so that v*c mod 2^32 is
// small (resp. equals j*c), and the neighbours of the wrap points 2^32-c, 2^32/c±1.
func (w *world) alias(r *vhlib.Rand, jmax int) uint32 {
	cs := []uint64{CS, uint64(w.cfg.ps / CS), uint64(w.cfg.ps), 8, 20}
	c := cs[r.Intn(len(cs))]
	if c < 2 {
		c = CS
	}
	q := (uint64(1) << 32) / c
	qc := (uint64(1)<<32 + c - 1) / c
	if jmax < 1 {
		jmax = 1
	}
	j := uint64(r.Intn(jmax))
	kmax := int(c - 1)
	var k uint64
	switch r.Intn(5) {
	case 0:
		k = 1
	case 1:
		k = uint64(kmax)
	case 2:
		k = uint64(1 + r.Intn(3))
	default:
		k = uint64(1 + r.Intn(kmax))
	}
	if k > uint64(kmax) {
		k = uint64(kmax)
	}
	var v uint64
	switch r.Intn(8) {
	case 0, 1, 2:
		v = k*q + j
	case 3, 4:
		v = k*qc + j
	case 5:
		v = 1<<32 - c
	case 6:
		v = q + 1
	default:
		v = q - 1
	}
	for v >= 1<<32 {
		v -= q
	}
	return uint32(v)
}

// boundary: b-1, b, b+1 for every bound the code knows about such a field: the piece count,
// maxPieces (8*2^20, the bound before the metadata is known), blocks per piece, the piece
// length, the number of metadata blocks, 2^31, 2^32-1
func (w *world) boundary(r *vhlib.Rand) uint32 {
	chunks := uint32((len(w.info) + CS - 1) / CS)
	bs := []uint32{uint32(w.cfg.np), maxPiecesPre, maxPiecesPre, w.cfg.ps / CS, w.cfg.ps, chunks, 1 << 31, 1<<32 - 1, uint32(w.nchunks())}
	b := bs[r.Intn(len(bs))]
	switch r.Intn(3) {
	case 0:
		return b - 1
	case 1:
		return b
	}
	return b + 1
}

func (w *world) idx(r *vhlib.Rand) uint32 {
	n := uint32(w.cfg.np)
	if !w.p.VerifState().HasInfo && r.Chance(7) {
		return maxPiecesPre - 1 // the largest index accepted before the metadata is known
	}
	if r.Chance(22) {
		return w.boundary(r)
	}
	if r.Chance(12) {
		return w.alias(r, w.cfg.np)
	}
	switch r.Intn(10) {
	case 0, 1, 2, 3:
		return uint32(r.Intn(int(n)))
	case 4:
		return n - 1
	case 5:
		return n
	case 6:
		return n + 1
	case 7, 8:
		return bnd[r.Intn(len(bnd))]
	}
	return r.U32()
}

func (w *world) begin(r *vhlib.Rand) uint32 {
	ps := w.cfg.ps
	if r.Chance(15) {
		return w.boundary(r)
	}
	if r.Chance(12) {
		v := w.alias(r, int(ps/CS))
		if r.Bool() {
			v = v / CS * CS
		}
		return v
	}
	switch r.Intn(10) {
	case 0, 1, 2:
		return 0
	case 3, 4:
		return uint32(r.Intn(int(ps/CS))) * CS
	case 5:
		return r.PickU32(ps, ps+CS, ps-CS, 2*ps)
	case 6:
		return r.PickU32(1, 16383, 16385, 100)
	case 7:
		return r.PickU32(1<<32-CS, 1<<32-1, 1<<31, 1<<32-2*CS)
	}
	return r.U32()
}

func (w *world) lenv(r *vhlib.Rand) uint32 {
	if r.Chance(15) {
		return w.boundary(r)
	}
	if r.Chance(10) {
		return w.alias(r, 3)
	}
	switch r.Intn(4) {
	case 0, 1:
		return CS
	case 2:
		return r.PickU32(0, 1, 16383, 16385, 32768, 1000, 1<<17, 1<<31, 1<<32-1)
	}
	return r.U32()
}

func (w *world) payload(r *vhlib.Rand) []byte {
	n := 0
	switch r.Intn(8) {
	case 0:
		n = 0
	case 1:
		n = 1
	case 2, 3:
		n = 16384
	case 4:
		n = r.PickInt(16383, 16385, 32768)
	case 5:
		n = int(w.cfg.last % CS)
	default:
		n = r.Intn(300)
	}
	return r.Bytes(n)
}

func (w *world) randPeer(r *vhlib.Rand) pex.Peer {
	if len(w.pool) > 0 && r.Chance(45) {
		p := w.pool[r.Intn(len(w.pool))]
		if r.Bool() {
			p.Flags = byte(r.Intn(4))
		}
		return p
	}
	p := wirecanon.RandPeer(r, r.Chance(30))
	w.pool = append(w.pool, p)
	return p
}

func (w *world) chunkData(chunk uint32) (uint32, uint32, []byte) {
	i, b := peer.VerifFromChunk(w.p, chunk)
	off := int64(i)*int64(w.cfg.ps) + int64(b)
	if off >= w.length || w.content == nil {
		return i, b, nil
	}
	end := off + CS
	if end > w.length {
		end = w.length
	}
	if pe := (int64(i) + 1) * int64(w.cfg.ps); end > pe {
		end = pe
	}
	return i, b, append([]byte(nil), w.content[off:end]...)
}

// genMsg draws one message a remote peer may send in the current state.
func (w *world) genMsg(r *vhlib.Rand) protocol.Message {
	st := w.p.VerifState()
	// targeted: the block an earlier over-long payload spilled into (possibly with the
	// scheduler having looked at the piece in between)
	if st.HasInfo && w.spill > 0 && w.spill < int64(w.nchunks()) && r.Chance(70) {
		c := uint32(w.spill)
		w.spill = 0
		if r.Chance(40) {
			w.tick()
		}
		if !w.dead {
			i, b, data := w.chunkData(c)
			return protocol.Piece{Index: i, Begin: b, Data: data}
		}
	}
	// targeted: answer one of our requests
	if st.HasInfo && (len(st.Requested)+len(st.Queue) > 0) && r.Chance(30) {
		var c uint32
		if len(st.Requested) > 0 && (len(st.Queue) == 0 || r.Chance(70)) {
			c = st.Requested[r.Intn(len(st.Requested))].Index
		} else {
			c = st.Queue[r.Intn(len(st.Queue))]
		}
		i, b, data := w.chunkData(c)
		if r.Chance(18) {
			// other (index, begin) pairs that the block arithmetic maps to a block we asked
			// for: the previous piece with an offset beyond its end, or (block 0) an index
			// so large that index*blocksPerPiece overflows
			cpp := w.cfg.ps / CS
			switch {
			case c == 0 && cpp >= 2 && r.Bool():
				q := uint32((uint64(1)<<32 + uint64(cpp) - 1) / uint64(cpp))
				ix := q + uint32(r.Intn(1<<20))
				if r.Chance(30) {
					ix = r.PickU32(1<<32-1, 1<<31, q, q+1)
				}
				if r.Bool() {
					return protocol.Piece{Index: ix, Begin: 0, Data: r.Bytes(CS)}
				}
				return protocol.RejectRequest{Index: ix, Begin: 0, Length: CS}
			case i >= 1:
				return protocol.Piece{Index: i - 1, Begin: b + w.cfg.ps, Data: data}
			}
		}
		if r.Chance(20) {
			// the right block, but the payload runs past it: past the end of the block, of the
			// piece (inner pieces are multiples of the block size, the last one may not be)
			pl := w.t.Pieces.PieceLength(i)
			rest := int(pl) - int(b)
			if rest < 0 {
				rest = 0
			}
			n := r.PickInt(rest+CS, rest+2*CS, rest+1, 2*rest, len(data)+1, len(data)+CS, 32768, 16385, 49152, 65536, 1<<17, 1<<18)
			buf := r.Bytes(n)
			copy(buf, data)
			w.spill = int64(c) + 1
			return protocol.Piece{Index: i, Begin: b, Data: buf}
		}
		switch r.Intn(10) {
		case 0:
			return protocol.RejectRequest{Index: i, Begin: b, Length: CS}
		case 1:
			return protocol.Piece{Index: i, Begin: b, Data: r.Bytes(len(data))} // wrong content
		case 2:
			return protocol.Piece{Index: i, Begin: b, Data: w.payload(r)}
		case 3:
			return protocol.Piece{Index: i, Begin: b + w.cfg.ps, Data: nil}
		default:
			return protocol.Piece{Index: i, Begin: b, Data: data}
		}
	}
	// targeted: a block that was queued, unsent, when the remote choked us
	if st.HasInfo && len(w.stale) > 0 && r.Chance(12) {
		c := w.stale[r.Intn(len(w.stale))]
		i, b, data := w.chunkData(c)
		if r.Chance(30) {
			return protocol.RejectRequest{Index: i, Begin: b, Length: CS}
		}
		return protocol.Piece{Index: i, Begin: b, Data: data}
	}
	// targeted: a metadata download just failed (SHA-1 mismatch or rejected dictionary): the
	// buffers are gone, votes remain; data messages for every block number with
	// total_size absent / right / wrong, before the torrent asks again
	if !w.t.InfoComplete() && w.t.VerifInfoState().InfoLen == 0 && len(w.t.VerifInfoState().Votes) > 0 && r.Chance(60) {
		return w.metaAfterFailure(r)
	}
	// targeted: metadata for a magnet torrent
	if !w.t.InfoComplete() && st.MetadataExt != 0 && r.Chance(45) {
		is := w.t.VerifInfoState()
		total := uint32(len(w.info))
		chunks := (len(w.info) + CS - 1) / CS
		k := r.Intn(chunks + 1)
		if is.InfoLen == len(w.info) && r.Chance(70) {
			// the first block still missing
			for j := 0; j < chunks; j++ {
				if !is.Bitmap.Get(j) {
					k = j
					break
				}
			}
		}
		var data []byte
		if k < chunks {
			e := (k + 1) * CS
			if e > len(w.info) {
				e = len(w.info)
			}
			data = append([]byte(nil), w.info[k*CS:e]...)
		}
		switch r.Intn(12) {
		case 4, 5:
			// a block number that is an alias of block k once multiplied by the block size
			if k < chunks {
				mult := uint32(1 + r.Intn(16383))
				if r.Chance(30) {
					mult = r.PickU32(1, 2, 16383, 64, 1024)
				}
				return protocol.ExtendedMetadata{Subtype: 2, Type: 1, Piece: mult<<18 + uint32(k), TotalSize: total, Data: data}
			}
			return protocol.ExtendedMetadata{Subtype: 2, Type: 1, Piece: w.alias(r, chunks), TotalSize: total, Data: r.Bytes(CS)}
		case 0:
			return protocol.ExtendedMetadata{Subtype: 2, Type: 1, Piece: uint32(chunks), TotalSize: total, Data: r.Bytes(CS)}
		case 1:
			return protocol.ExtendedMetadata{Subtype: 2, Type: 1, Piece: uint32(k), TotalSize: total, Data: w.payload(r)}
		case 2:
			return protocol.ExtendedMetadata{Subtype: 2, Type: 1, Piece: uint32(k), TotalSize: total + uint32(r.Intn(3)) - 1, Data: data}
		case 3:
			if len(data) > 0 {
				data[r.Intn(len(data))] ^= 1 // corrupt: SHA-1 mismatch at the end
			}
			return protocol.ExtendedMetadata{Subtype: 2, Type: 1, Piece: uint32(k), TotalSize: total, Data: data}
		default:
			return protocol.ExtendedMetadata{Subtype: 2, Type: 1, Piece: uint32(k), TotalSize: total, Data: data}
		}
	}
	switch r.Intn(30) {
	case 0:
		return protocol.KeepAlive{}
	case 1:
		return protocol.Choke{}
	case 2, 3:
		return protocol.Unchoke{}
	case 4, 5:
		return protocol.Interested{}
	case 6:
		return protocol.NotInterested{}
	case 7, 8, 9:
		ix := w.idx(r)
		if ix == maxPiecesPre-1 && !r.Chance(20) {
			// (accepted: 1 MiB of peer bitmap and 16 MiB of availability counters, every
			// later line of the case hashes them; a few per run are enough for Have)
			ix = uint32(r.Intn(w.cfg.np))
		}
		return protocol.Have{Index: ix}
	case 10, 11:
		n := w.cfg.np
		l := r.PickInt(0, 1, (n+7)/8, (n+7)/8, (n+7)/8+1, 16, r.Intn(40))
		var bs []byte
		switch r.Intn(3) {
		case 0:
			bs = r.Bytes(l)
		case 1:
			bs = make([]byte, l)
		default:
			bs = make([]byte, l)
			for i := 0; i < n && i/8 < l; i++ {
				bs[i/8] |= 1 << (7 - uint(i%8))
			}
			if r.Chance(15) && l > 0 {
				bs[l-1] |= 1
			}
		}
		if r.Chance(1) {
			// a maximal frame, sparsely populated (the dense one is an oracle-only probe)
			bs = make([]byte, 1<<20-10)
			for i, k := 0, r.Intn(8); i < k; i++ {
				bs[r.Intn(len(bs))] |= 1 << uint(r.Intn(8))
			}
			if r.Bool() {
				bs[len(bs)-1] |= 1
			}
		}
		return protocol.Bitfield{Bitfield: bs}
	case 12, 13:
		return protocol.Request{Index: w.idx(r), Begin: w.begin(r), Length: w.lenv(r)}
	case 14:
		return protocol.Piece{Index: w.idx(r), Begin: w.begin(r), Data: w.payload(r)}
	case 15:
		if len(st.Upload) > 0 && r.Chance(70) {
			u := st.Upload[r.Intn(len(st.Upload))]
			return protocol.Cancel{Index: u.Index, Begin: u.Begin, Length: u.Length}
		}
		return protocol.Cancel{Index: w.idx(r), Begin: w.begin(r), Length: w.lenv(r)}
	case 16:
		return protocol.Port{Port: uint16(r.U32())}
	case 17:
		return protocol.SuggestPiece{Index: w.idx(r)}
	case 18:
		return protocol.HaveAll{}
	case 19:
		return protocol.HaveNone{}
	case 20:
		return protocol.RejectRequest{Index: w.idx(r), Begin: w.begin(r), Length: w.lenv(r)}
	case 21:
		return protocol.AllowedFast{Index: w.idx(r)}
	case 22, 23:
		m := protocol.Extended0{}
		if r.Bool() {
			m.Version = string(r.Bytes(r.Intn(12)))
		}
		if r.Chance(60) {
			m.Port = uint16(r.PickInt(6881, 6881, 1, 65535, 7000))
		}
		if r.Bool() {
			m.ReqQ = r.PickU32(0, 1, 2, 3, 250, 1<<16, 1<<20, 1<<20, 1<<22, 1<<31, 1<<32-1)
		}
		real := uint32(len(w.info))
		switch r.Intn(10) {
		case 0:
		case 1:
			m.MetadataSize = r.PickU32(1, 16383, 16384, 16385, real+1, real-1, 1<<20, w.alias(r, int(real)))
		case 2:
			m.MetadataSize = r.PickU32(metaCap, metaCap+1, 1<<32-1, metaCap-1, 1<<31)
			if !r.Chance(25) {
				m.MetadataSize = real
			}
		default:
			m.MetadataSize = real
		}
		if r.Chance(30) {
			var b [4]byte
			copy(b[:], r.Bytes(4))
			m.IPv4 = netip.AddrFrom4(b)
		}
		if r.Chance(30) {
			var b [16]byte
			copy(b[:], r.Bytes(16))
			m.IPv6 = netip.AddrFrom16(b)
		}
		if r.Chance(85) {
			m.Messages = map[string]uint8{}
			if r.Chance(85) {
				m.Messages["ut_metadata"] = 2
			}
			if r.Chance(60) {
				m.Messages["ut_pex"] = uint8(1 + r.Intn(3))
			}
			if r.Chance(60) {
				m.Messages["lt_donthave"] = uint8(r.PickInt(3, 7, 255))
			}
			if r.Chance(40) {
				m.Messages["upload_only"] = 4
			}
			if r.Chance(20) {
				m.Messages["x"] = uint8(r.U64())
			}
		}
		m.UploadOnly = r.Bool()
		m.Encrypt = r.Bool()
		return m
	case 24:
		var a, d []pex.Peer
		for i, n := 0, r.PickInt(0, 1, 2, 3, 7); i < n; i++ {
			a = append(a, w.randPeer(r))
		}
		for i, n := 0, r.PickInt(0, 0, 1, 2, 5); i < n; i++ {
			p := w.randPeer(r)
			p.Flags = 0
			d = append(d, p)
		}
		return protocol.ExtendedPex{Subtype: 1, Added: a, Dropped: d}
	case 25:
		chunks := (len(w.info) + CS - 1) / CS
		m := protocol.ExtendedMetadata{Subtype: 2, Type: uint8(r.PickInt(0, 0, 0, 1, 2, 3, 255))}
		m.Piece = r.PickU32(0, 1, uint32(chunks-1), uint32(chunks), uint32(chunks+1), 1<<18, 1<<32-1, uint32(r.Intn(4)), w.alias(r, chunks), w.alias(r, chunks), w.boundary(r), w.boundary(r))
		if m.Type == 1 {
			m.TotalSize = r.PickU32(0, uint32(len(w.info)), 1, metaCap, 1<<32-1, uint32(len(w.info)), w.alias(r, len(w.info)))
			m.Data = w.payload(r)
			if len(m.Data) == 0 {
				m.Data = nil
			}
		}
		return m
	case 26:
		return protocol.ExtendedDontHave{Subtype: 3, Index: w.idx(r)}
	case 27:
		return protocol.ExtendedUploadOnly{Subtype: 4, Value: r.Bool()}
	case 28:
		switch r.Intn(6) {
		case 0:
			return protocol.ExtendedUnknown{Subtype: uint8(5 + r.Intn(200))}
		case 1:
			return protocol.Unknown{}
		case 2:
			return protocol.Error{Error: io.EOF}
		case 3:
			return protocol.Error{Error: errors.New("read")}
		}
		return protocol.KeepAlive{}
	}
	return protocol.Have{Index: uint32(r.Intn(w.cfg.np))}
}

// metaAfterFailure: a ut_metadata data message as a peer may send it right after a failed
// round (it does not know that we threw the buffers away)
func (w *world) metaAfterFailure(r *vhlib.Rand) protocol.Message {
	chunks := (len(w.info) + CS - 1) / CS
	real := uint32(len(w.info))
	m := protocol.ExtendedMetadata{Subtype: 2, Type: 1}
	m.Piece = uint32(r.Intn(chunks + 1))
	if r.Chance(15) {
		m.Piece = w.boundary(r)
	}
	m.TotalSize = r.PickU32(0, 0, real, real, real+1, real-1, 1)
	switch r.Intn(4) {
	case 0, 1:
		m.Data = r.Bytes(CS)
	case 2:
		m.Data = r.Bytes(len(w.info) % CS)
	default:
		k := int(m.Piece)
		if k < chunks {
			e := (k + 1) * CS
			if e > len(w.info) {
				e = len(w.info)
			}
			m.Data = append([]byte(nil), w.info[k*CS:e]...)
		} else {
			m.Data = r.Bytes(CS)
		}
	}
	if len(m.Data) == 0 {
		m.Data = nil
	}
	return m
}

func opOfMsg(m protocol.Message) string {
	switch m := m.(type) {
	case nil:
		return "nil"
	case protocol.Flush:
		return "Flush"
	case protocol.Error:
		if m.Error == io.EOF {
			return "Error eof"
		}
		return "Error read"
	case protocol.Unknown:
		return "Unknown 0"
	}
	return wirecanon.CanonFull(m)
}

// dangerous: a message whose handling could allocate gigabytes if an index check is
// missing; such a message is first tried, scaled down, on a twin world.
func dangerous(m protocol.Message) (protocol.Message, bool) {
	switch mm := m.(type) {
	case protocol.Have:
		if mm.Index >= 1<<24 {
			return protocol.Have{Index: 1<<26 + mm.Index%(1<<18)}, true
		}
	case protocol.Extended0:
		// a number the remote announces and the peer may later size something by
		if mm.ReqQ >= 1<<24 {
			mm.ReqQ = 1 << 22
			return mm, true
		}
	case protocol.ExtendedMetadata:
		// a metadata block number sizes the received-blocks bitmap if it is ever accepted;
		// the scaled-down number is the same modulo 2^18 (= modulo 2^32 once multiplied by
		// the block size)
		if mm.Type == 1 && mm.Piece >= 1<<28+1<<18 {
			mm.Piece = 1<<28 + mm.Piece%(1<<18)
			return mm, true
		}
	}
	return nil, false
}

// twinByReplay rebuilds the current state in a second world by replaying the explicit ops
// of the case so far (nothing is emitted or reported while doing so).
func (w *world) twinByReplay() *world {
	cfg := w.cfg
	tw, err := newWorld(w.c, cfg, true)
	if err != nil {
		return nil
	}
	tw.quiet = true
	ops := w.c.Case()
	if len(ops) > 1 {
		tw.replayOps(ops[1:])
	}
	return tw
}

// probe runs the scaled-down variant of a dangerous message on a twin in the same state and
// applies the allocation / termination / no-panic clauses to it; false = the real message
// must not be executed (the violation has been reported).
func (w *world) probe(m protocol.Message, scaled protocol.Message) bool {
	tw := w.twinByReplay()
	if tw == nil || tw.dead {
		if tw != nil {
			tw.close()
		}
		return true
	}
	defer tw.close()
	mm := scaled
	tw.recOps = true
	tw.quietViol = nil
	tw.runPeer("msg", opOfMsg(scaled), wireSize(scaled), mm, func() error { return peer.VerifHandleMessage(tw.p, mm) })
	res := tw.last
	// exercise: what the remote announced may be used later, by the torrent's commands
	if !tw.dead && tw.p.VerifState().HasInfo {
		bs := make([]byte, (tw.cfg.np+7)/8)
		for i := 0; i < tw.cfg.np; i++ {
			bs[i/8] |= 1 << (7 - uint(i%8))
		}
		tw.sendMsg(protocol.Bitfield{Bitfield: bs})
		if !tw.dead {
			tw.sendMsg(protocol.Unchoke{})
			tw.pumpPending()
		}
		if !tw.dead {
			cs := []uint32{0, uint32(tw.nchunks() - 1), uint32(tw.nchunks() / 2)}
			t := u32s(cs)
			tw.emit("sched "+t[1:len(t)-1], "ok")
			vhlib.Recover(func() { tor.VerifRequest(tw.t, tw.p, cs) })
			tw.pumpPending()
		}
	}
	runtime.GC()
	name := strings.SplitN(opOfMsg(m), " ", 2)[0]
	ops := append(w.c.Case(), tw.rec...)
	if len(tw.quietViol) > 0 {
		v := tw.quietViol[0]
		w.c.Violate(v[0], v[1]+fmt.Sprintf(" (found while exercising a twin after the scaled-down %s; the original %s is not executed)", clip(opOfMsg(scaled)), clip(opOfMsg(m))), ops)
		return false
	}
	note := fmt.Sprintf(" (scaled-down probe of %s on a twin in the same state; the original is not executed)", clip(opOfMsg(m)))
	switch {
	case res.hung:
		hangs++
		w.c.Violate("hang:peer:msg:"+name+":"+stateTok(w), "the peer handler or the torrent did not return on "+clip(opOfMsg(scaled))+note, ops)
		return false
	case res.pn != "":
		w.c.Violate("panic:peer:msg:"+name+":"+infoTok(w), "peer handler panicked: "+res.pn+" on "+clip(opOfMsg(scaled))+note, ops)
		return false
	case res.alloc > res.bound && hangs == 0:
		w.c.Violate("alloc:"+name+":"+infoTok(w), fmt.Sprintf("%d bytes allocated for a %d-byte message (bound %d): %s", res.alloc, res.wire, res.bound, clip(opOfMsg(scaled)))+note, ops)
		return false
	}
	return true
}

// oracleOnly runs a message that is too heavy for the model's list representation (a dense
// 1 MiB bitfield: 8M availability counters) on a twin world and applies the oracle to it.
func (w *world) oracleOnly(m protocol.Message) {
	cfg := w.cfg
	cfg.magnet = !w.p.VerifState().HasInfo
	cfg.evcap = 512
	tw, err := newWorld(w.c, cfg, true)
	if err != nil {
		return
	}
	defer tw.close()
	name := strings.SplitN(opOfMsg(m), " ", 2)[0]
	var total uint64
	var herr error
	ta, pn := measure(func() { herr = peer.VerifHandleMessage(tw.p, m) })
	total += ta
	if pn != "" {
		w.violate("panic:peer:msg:"+name+":"+infoTok(tw), "peer handler panicked: "+pn+" on "+clip(opOfMsg(m)), []string{tw.newLine(), "msg 00 0 " + opOfMsg(m)})
	}
	for _, e := range tw.drainEvents() {
		var terr error
		ta, pn := measure(func() { terr = tor.VerifHandleEvent(context.Background(), tw.t, e) })
		total += ta
		if pn != "" {
			w.violate("panic:tor:"+evName(e), "tor.handleEvent panicked: "+pn, []string{tw.newLine(), "msg 00 0 " + opOfMsg(m)})
		} else if terr != nil {
			w.violate("tor-error:"+evName(e), terr.Error(), []string{tw.newLine(), "msg 00 0 " + opOfMsg(m)})
		}
	}
	tw.takePending()
	bound := allocBound(m, wireSize(m), tw.nmax(), uint64(tw.t.Pieces.PieceSize()), len(tw.info))
	if total > bound && hangs == 0 {
		w.violate("alloc:"+name+":"+infoTok(tw), fmt.Sprintf("%d bytes allocated for a %d-byte message (bound %d)", total, wireSize(m), bound), []string{tw.newLine(), "msg 00 0 " + opOfMsg(m)})
	}
	w.count("oracle-only:"+name+":"+errStr(herr), fmt.Sprintf("%s len=%d alloc=%d", name, wireSize(m), total), true)
	runtime.GC()
}

func (w *world) sendMsg(m protocol.Message) {
	if sc, ok := dangerous(m); ok && !w.quiet {
		if _, isExt0 := m.(protocol.Extended0); isExt0 && !w.p.VerifState().HasInfo {
			// what the remote announces here is used only once the metadata is known: the
			// twin cannot exercise it now, so the scaled-down value is what goes on
			m = sc
		} else if !w.probe(m, sc) {
			return
		}
	}
	mm := m
	if p, ok := m.(protocol.Piece); ok {
		p.Data = append([]byte(nil), p.Data...)
		if len(p.Data) == 0 {
			p.Data = nil
		}
		mm = p
	}
	w.runPeer("msg", opOfMsg(m), wireSize(m), mm, func() error { return peer.VerifHandleMessage(w.p, mm) })
}

// torrent's own commands, chosen by the harness in place of the scheduler
func (w *world) genPev(r *vhlib.Rand) {
	st := w.p.VerifState()
	switch r.Intn(15) {
	case 0, 1:
		w.applyPev(peer.PeerInterested{Interested: r.Chance(75)}, "pev")
	case 2, 3:
		w.applyPev(peer.PeerUnchoke{Unchoke: r.Chance(75)}, "pev")
	case 4:
		w.applyPev(peer.PeerHave{Index: uint32(r.Intn(w.cfg.np)), Have: r.Chance(70)}, "pev")
	case 5:
		if len(st.Requested)+len(st.Queue) > 0 && r.Chance(80) {
			all := append([]uint32(nil), st.Queue...)
			for _, q := range st.Requested {
				all = append(all, q.Index)
			}
			w.applyPev(peer.PeerCancel{Chunk: all[r.Intn(len(all))]}, "pev")
		} else if st.HasInfo {
			w.applyPev(peer.PeerCancel{Chunk: uint32(r.Intn(w.nchunks() + 1))}, "pev")
		}
	case 6:
		if st.HasInfo {
			w.applyPev(peer.PeerCancelPiece{Index: uint32(r.Intn(w.cfg.np))}, "pev")
		}
	case 7:
		w.applyPev(peer.PeerGetMetadata{Index: uint32(r.Intn(4))}, "pev")
	case 9, 10:
		if st.HasInfo {
			w.tick()
		}
	case 11:
		// the torrent cancels a block that was queued, unsent, when the remote choked us
		if len(w.stale) > 0 && st.HasInfo {
			c := w.stale[r.Intn(len(w.stale))]
			if r.Bool() {
				w.applyPev(peer.PeerCancel{Chunk: c}, "pev")
			} else {
				i, _ := peer.VerifFromChunk(w.p, c)
				w.applyPev(peer.PeerCancelPiece{Index: i}, "pev")
			}
		}
	case 8:
		// rare commands that end the peer
		if !st.HasInfo && r.Chance(6) {
			if r.Bool() {
				w.applyPev(peer.PeerCancel{Chunk: 0}, "pev")
			} else {
				w.applyPev(peer.PeerCancelPiece{Index: 0}, "pev")
			}
		} else if st.HasInfo && r.Chance(6) {
			w.applyPev(peer.PeerMetadataComplete{Info: w.t.Info}, "pev")
		}
	default:
		if !st.HasInfo {
			if r.Chance(3) {
				w.applyPev(peer.PeerRequest{Chunks: []uint32{0}}, "pev")
			}
			return
		}
		// the scheduler: sched -> tor.request (reserves the chunks) -> PeerRequest
		n := r.PickInt(1, 1, 2, 3, 5)
		var cs []uint32
		for i := 0; i < n; i++ {
			cs = append(cs, uint32(r.Intn(w.nchunks())))
		}
		t := u32s(cs)
		w.emit("sched "+t[1:len(t)-1], "ok")
		vhlib.Recover(func() { tor.VerifRequest(w.t, w.p, cs) })
		w.pumpPending()
	}
}

func (w *world) nchunks() int {
	n := int((w.t.Pieces.Length() + CS - 1) / CS)
	if n == 0 {
		return 1
	}
	return n
}

func (w *world) envOp(r *vhlib.Rand) {
	switch r.Intn(8) {
	case 0:
		if !w.wdone {
			k := w.cfg.wcap
			if r.Bool() {
				k = w.cfg.wcap/2 + 1
			}
			w.setLevel(k)
			w.emit(fmt.Sprintf("env setw %d", w.level), "ok")
		}
	case 1:
		w.fastRate = !w.fastRate
		w.emit("env rate "+b01(w.fastRate), "ok")
	case 2:
		w.p.VerifPinActive(true)
		w.emit("env age", "ok")
	case 3:
		if !w.wdone && r.Chance(30) {
			close(w.writerDone)
			w.wdone = true
			w.setLevel(w.cfg.wcap)
			w.emit("env wdone", "ok")
		}
	}
}

func (w *world) prelude(r *vhlib.Rand) {
	if w.dead {
		return
	}
	switch r.Intn(11) {
	case 0: // uploader: interested remote, unchoked by us
		w.sendMsg(protocol.Interested{})
		w.pumpPending()
		if !w.dead && !w.p.VerifState().AmUnchoking {
			w.applyPev(peer.PeerUnchoke{Unchoke: true}, "pev")
		}
	case 1, 2: // downloader: the remote has everything and unchokes us; pieces are wanted
		if w.p.VerifState().HasInfo {
			if w.cfg.fast && r.Bool() {
				w.sendMsg(protocol.HaveAll{})
			} else {
				bs := make([]byte, (w.cfg.np+7)/8)
				for i := 0; i < w.cfg.np; i++ {
					bs[i/8] |= 1 << (7 - uint(i%8))
				}
				w.sendMsg(protocol.Bitfield{Bitfield: bs})
			}
			for i := 0; i < w.cfg.np && i < 3; i++ {
				vhlib.Recover(func() { tor.VerifRequestPiece(w.t, uint32(r.Intn(w.cfg.np)), 1, true, true) })
			}
			w.pumpPending()
			if !w.dead {
				w.sendMsg(protocol.Unchoke{})
				w.pumpPending()
			}
		}
	case 4: // a full upload queue: head drop
		if r.Chance(12) && w.p.VerifState().HasInfo {
			w.sendMsg(protocol.Interested{})
			w.pumpPending()
			if !w.dead && !w.p.VerifState().AmUnchoking {
				w.applyPev(peer.PeerUnchoke{Unchoke: true}, "pev")
			}
			for i := 0; i < 253 && !w.dead; i++ {
				w.sendMsg(protocol.Request{Index: uint32(i % w.cfg.np), Begin: uint32(i) * CS, Length: CS})
			}
		}
	case 5: // a seed announced before the metadata, then a contradicting Have
		if !w.p.VerifState().HasInfo && w.cfg.fast {
			w.sendMsg(protocol.HaveAll{})
			if r.Bool() {
				w.sendMsg(protocol.Have{Index: 0})
			}
		}
	case 6: // Fast peer, an allowed-fast set, choked (possibly after an unchoke the torrent
		// sampled), then the torrent's request for blocks inside and outside that set
		if w.p.VerifState().HasInfo && w.cfg.fast {
			if r.Bool() {
				w.sendMsg(protocol.HaveAll{})
			} else {
				bs := make([]byte, (w.cfg.np+7)/8)
				for i := 0; i < w.cfg.np; i++ {
					bs[i/8] |= 1 << (7 - uint(i%8))
				}
				w.sendMsg(protocol.Bitfield{Bitfield: bs})
			}
			for i, n := 0, 1+r.Intn(2); i < n && !w.dead; i++ {
				ix := uint32(r.Intn(w.cfg.np))
				if r.Chance(25) {
					ix = w.idx(r)
				}
				w.sendMsg(protocol.AllowedFast{Index: ix})
			}
			if !w.dead && r.Chance(40) {
				w.tick()
			}
			if !w.dead && r.Bool() {
				w.sendMsg(protocol.Unchoke{})
				w.pumpPending()
				if !w.dead {
					w.sendMsg(protocol.Choke{})
					w.pumpPending()
				}
			}
			if !w.dead {
				var cs []uint32
				for i, n := 0, 1+r.Intn(4); i < n; i++ {
					cs = append(cs, uint32(r.Intn(w.nchunks())))
				}
				t := u32s(cs)
				w.emit("sched "+t[1:len(t)-1], "ok")
				vhlib.Recover(func() { tor.VerifRequest(w.t, w.p, cs) })
				w.pumpPending()
			}
		}
	case 8: // Fast peer, unchoked, more blocks requested than the pipeline takes; then Choke
		// and something about a block that was still queued
		if w.p.VerifState().HasInfo && w.cfg.fast && w.nchunks() >= 4 {
			bs := make([]byte, (w.cfg.np+7)/8)
			for i := 0; i < w.cfg.np; i++ {
				bs[i/8] |= 1 << (7 - uint(i%8))
			}
			w.sendMsg(protocol.Bitfield{Bitfield: bs})
			if !w.dead {
				w.sendMsg(protocol.Unchoke{})
				w.pumpPending()
			}
			if !w.dead {
				seen := map[uint32]bool{}
				var cs []uint32
				for i, n := 0, 3+r.Intn(4); i < n; i++ {
					c := uint32(r.Intn(w.nchunks()))
					if !seen[c] {
						seen[c] = true
						cs = append(cs, c)
					}
				}
				t := u32s(cs)
				w.emit("sched "+t[1:len(t)-1], "ok")
				vhlib.Recover(func() { tor.VerifRequest(w.t, w.p, cs) })
				w.pumpPending()
			}
			if !w.dead && r.Chance(80) {
				w.sendMsg(protocol.Choke{})
				w.pumpPending()
				for i, n := 0, 1+r.Intn(3); i < n && !w.dead && len(w.stale) > 0; i++ {
					c := w.stale[r.Intn(len(w.stale))]
					ix, b, data := w.chunkData(c)
					switch r.Intn(4) {
					case 0:
						w.sendMsg(protocol.Piece{Index: ix, Begin: b, Data: data})
					case 1:
						w.applyPev(peer.PeerCancel{Chunk: c}, "pev")
					case 2:
						w.applyPev(peer.PeerCancelPiece{Index: ix}, "pev")
					default:
						w.sendMsg(protocol.RejectRequest{Index: ix, Begin: b, Length: CS})
					}
					if !w.dead {
						w.pumpPending()
					}
				}
			}
		}
	case 9: // magnet: a complete metadata round that ends badly (one corrupted block, or an
		// authentic dictionary the parser rejects), immediately followed by more data
		if !w.p.VerifState().HasInfo && !w.t.InfoComplete() {
			m := protocol.Extended0{MetadataSize: uint32(len(w.info)), Messages: map[string]uint8{"ut_metadata": 2}}
			w.sendMsg(m)
			w.pumpPending()
			chunks := (len(w.info) + CS - 1) / CS
			bad := -1
			if !w.cfg.badInfo || r.Chance(30) {
				bad = r.Intn(chunks)
			}
			for k := 0; k < chunks && !w.dead && !w.t.InfoComplete(); k++ {
				e := (k + 1) * CS
				if e > len(w.info) {
					e = len(w.info)
				}
				data := append([]byte(nil), w.info[k*CS:e]...)
				if k == bad {
					data[r.Intn(len(data))] ^= 0x40
				}
				w.sendMsg(protocol.ExtendedMetadata{Subtype: 2, Type: 1, Piece: uint32(k), TotalSize: uint32(len(w.info)), Data: data})
				w.pumpPending()
			}
			for i, n := 0, 2+r.Intn(4); i < n && !w.dead && !w.t.InfoComplete(); i++ {
				w.sendMsg(w.metaAfterFailure(r))
				w.pumpPending()
			}
		}
	case 3: // extension handshake first
		m := protocol.Extended0{MetadataSize: uint32(len(w.info)), Port: 6881,
			Messages: map[string]uint8{"ut_metadata": 2, "ut_pex": 1, "lt_donthave": 3}}
		w.sendMsg(m)
		w.pumpPending()
	}
}

func oneCase(c *vhlib.Ctx, cfg caseCfg, r *vhlib.Rand, script []string) {
	c.NewCase()
	runtime.GC()
	peer.VerifResetNumUnchoking()
	w, err := newWorld(c, cfg, false)
	if err != nil {
		c.Note("newWorld: " + err.Error())
		return
	}
	defer w.close()
	c.Emit(w.newLine(), "ok")
	// every random choice of the case comes from PRNGs derived from the case seed and the
	// step number only: what the real scheduler happens to choose (Go map iteration order)
	// can change the state, never which random numbers a later step or a later case sees
	sub := func(k uint64) *vhlib.Rand { return vhlib.NewRand(cfg.seed*2862933555777941757 + k*3037000493 + 1) }
	r = sub(0)
	if script != nil {
		w.replayOps(script)
	} else {
		if cfg.e2e > 0 {
			w.e2e(cfg.e2e)
		}
		w.prelude(sub(1))
		if cfg.burst > 0 && !w.dead {
			w.burst(sub(2), cfg.burst)
		}
		steps := 5 + r.Intn(36)
		for i := 0; i < steps && !w.dead; i++ {
			r := sub(uint64(100 + i))
			switch {
			case r.Chance(6):
				w.envOp(r)
			case r.Chance(22):
				w.genPev(r)
			default:
				w.sendMsg(w.genMsg(r))
			}
			if !w.dead {
				w.pumpPending()
			}
		}
		r = sub(3)
		if !w.dead && r.Chance(2) {
			if r.Bool() {
				w.sendMsg(nil)
			} else {
				w.sendMsg(protocol.Flush{})
			}
		}
	}
	if w.poisoned {
		return
	}
	if script == nil && !w.dead && !w.t.InfoComplete() && r.Chance(30) {
		// a second peer's extension handshake: another vote for a metadata size
		w.feedTor(peer.TorPeerExtended{Peer: w.p, MetadataSize: r.PickU32(uint32(len(w.info)), uint32(len(w.info)), 1000, 16384)}, nil, true)
		w.pumpPending()
	}
	w.exitPeer()
	if script == nil && r.Chance(1) {
		bs := r.Bytes(1<<20 - 10)
		if r.Bool() {
			for i := range bs {
				bs[i] = 0xff
			}
		}
		w.oracleOnly(protocol.Bitfield{Bitfield: bs})
	}
	if script == nil && r.Chance(25) {
		w.synthetic(r)
	}
}

// synthetic events that no peer emits (the harness is the peer here): the torrent handler
// is compared with the model on them, faults included; they are not oracle material.
func (w *world) synthetic(r *vhlib.Rand) {
	for i := 0; i < 6; i++ {
		var e peer.TorEvent
		switch r.Intn(5) {
		case 0, 1:
			bg := w.begin(r)
			if !r.Chance(20) {
				bg = bg / CS * CS
			}
			e = peer.TorData{Peer: w.p, Index: w.idx(r), Begin: bg, Length: r.PickU32(0, CS, 2*CS, 16383, 1000, 1<<20), Complete: false}
		case 2:
			e = peer.TorDrop{Index: w.idx(r), Begin: w.begin(r), Length: r.PickU32(0, CS, 2*CS, 1<<32-1)}
		case 3:
			e = peer.TorData{Peer: w.p, Index: uint32(r.Intn(w.cfg.np)), Begin: 1<<32 - CS, Length: CS}
		case 4:
			e = peer.TorPeerHave{Peer: w.p, Index: uint32(r.Intn(5000)), Have: r.Bool()}

		}
		w.feedTor(e, nil, true)
		w.takePending()
	}
}

// burst: the torrent does not read its event channel while one peer sends a long run of
// event-producing messages (the channel, then the peer's overflow list fill up); only then
// does it catch up.  Handling a message must terminate regardless of the torrent's progress.
func (w *world) burst(r *vhlib.Rand, n int) {
	w.hold()
	next := uint32(0)
	for i := 0; i < n && !w.dead; i++ {
		var m protocol.Message
		switch r.Intn(12) {
		case 0:
			m = protocol.Interested{}
		case 1:
			m = protocol.NotInterested{}
		case 2:
			m = protocol.Unchoke{}
		case 3:
			if r.Bool() {
				m = protocol.Choke{}
			} else {
				m = protocol.KeepAlive{}
			}
		case 4:
			bs := r.Bytes(1 + r.Intn(3))
			if w.p.VerifState().HasInfo {
				bs = make([]byte, (w.cfg.np+7)/8)
				for j := 0; j < w.cfg.np; j++ {
					if r.Bool() {
						bs[j/8] |= 1 << (7 - uint(j%8))
					}
				}
			}
			m = protocol.Bitfield{Bitfield: bs}
		case 5:
			m = protocol.ExtendedPex{Subtype: 1, Added: []pex.Peer{wirecanon.RandPeer(r, false)}}
		default:
			// a Have with an index not announced yet
			if w.p.VerifState().HasInfo {
				m = protocol.Have{Index: uint32(r.Intn(w.cfg.np))}
			} else {
				m = protocol.Have{Index: next}
				next += uint32(1 + r.Intn(3))
			}
		}
		w.sendMsg(m)
	}
	w.release()
	w.pumpPending()
}

func generate(c *vhlib.Ctx) {
	r := c.R
	for i := 0; i < c.N; i++ {
		if hangs >= maxHangs {
			c.Note(fmt.Sprintf("stopped after %d cases: %d calls of the real code did not return", i, hangs))
			break
		}
		cfg := randCfg(r, i)
		if i == 9 {
			// end-to-end: real goroutines, a remote that stops reading (see e2e.go)
			cfg.magnet, cfg.badInfo, cfg.fast = false, false, true
			cfg.ps, cfg.np, cfg.last = 65536, 24, 65536
			cfg.e2e = 14
		}
		if i == 5 || i == c.N/2 {
			// one burst with the metadata unknown (distinct Haves), one with it known
			cfg.burst = 2200
			cfg.evcap = 512
			cfg.magnet = i == 5
			cfg.badInfo = false
		}
		oneCase(c, cfg, r, nil)
	}
}

// ---- replay ----

func replay(c *vhlib.Ctx, lines []string) {
	var cur []string
	var cfg caseCfg
	have := false
	flush := func() {
		if have {
			oneCase(c, cfg, c.R, cur)
		}
	}
	for _, l := range lines {
		f := strings.Fields(l)
		if len(f) == 0 {
			continue
		}
		if f[0] == "new" {
			flush()
			cur = []string{}
			var err error
			cfg, err = parseCfg(f[len(f)-1])
			cfg.metaGe = len(f) > 11 && f[11] == "1"
			have = err == nil
			continue
		}
		cur = append(cur, l)
	}
	flush()
}

func (w *world) replayOps(lines []string) {
	for _, l := range lines {
		if w.dead {
			break
		}
		f := strings.Fields(l)
		switch f[0] {
		case "msg":
			if len(f) < 4 {
				continue
			}
			m, ok := parseCanon(f[3:])
			if !ok {
				w.c.Note("replay: cannot parse " + clip(l))
				continue
			}
			w.sendMsg(m)
			w.pumpPending()
		case "pev":
			if pe, ok := parsePev(w, f[2:]); ok {
				w.applyPev(pe, "pev")
				w.pumpPending()
			}
		case "e2e":
			n, _ := strconv.Atoi(f[1])
			w.e2e(n)
		case "tick":
			w.tick()
			w.pumpPending()
		case "sched":
			var cs []uint32
			for _, s := range strings.Split(f[1], ",") {
				v, _ := strconv.ParseUint(s, 10, 32)
				cs = append(cs, uint32(v))
			}
			w.emit(l, "ok")
			vhlib.Recover(func() { tor.VerifRequest(w.t, w.p, cs) })
			w.pumpPending()
		case "env":
			switch f[1] {
			case "setw":
				// derived after every step; an explicit fill is replayed when it raises the level
				k, _ := strconv.Atoi(f[2])
				if k > 0 && !w.wdone {
					w.setLevel(k)
					w.emit(fmt.Sprintf("env setw %d", w.level), "ok")
				}
			case "hold":
				w.hold()
			case "release":
				w.release()
				w.pumpPending()
			case "rate":
				w.fastRate = f[2] == "1"
				w.emit(l, "ok")
			case "age":
				w.p.VerifPinActive(true)
				w.emit(l, "ok")
			case "wdone":
				if !w.wdone {
					close(w.writerDone)
					w.wdone = true
					w.setLevel(w.cfg.wcap)
					w.emit(l, "ok")
				}
			}
		}
	}
}

func parsePev(w *world, f []string) (peer.PeerEvent, bool) {
	if len(f) == 0 {
		return nil, false
	}
	u := func(i int) uint32 {
		if i >= len(f) {
			return 0
		}
		v, _ := strconv.ParseUint(f[i], 10, 32)
		return uint32(v)
	}
	switch f[0] {
	case "Interested":
		return peer.PeerInterested{Interested: u(1) == 1}, true
	case "Unchoke":
		return peer.PeerUnchoke{Unchoke: u(1) == 1}, true
	case "Have":
		return peer.PeerHave{Index: u(1), Have: u(2) == 1}, true
	case "Cancel":
		return peer.PeerCancel{Chunk: u(1)}, true
	case "CancelPiece":
		return peer.PeerCancelPiece{Index: u(1)}, true
	case "GetMetadata":
		return peer.PeerGetMetadata{Index: u(1)}, true
	case "Done":
		return peer.PeerDone{}, true
	case "Request":
		var cs []uint32
		if len(f) > 1 && f[1] != "-" {
			for _, s := range strings.Split(f[1], ",") {
				v, _ := strconv.ParseUint(s, 10, 32)
				cs = append(cs, uint32(v))
			}
		}
		return peer.PeerRequest{Chunks: cs}, true
	}
	return nil, false
}

func kv(s, k string) (string, bool) {
	if strings.HasPrefix(s, k+"=") {
		return s[len(k)+1:], true
	}
	return "", false
}

func parsePeers(s string) ([]pex.Peer, bool) {
	if len(s) < 2 || s[0] != '[' || s[len(s)-1] != ']' {
		return nil, false
	}
	s = s[1 : len(s)-1]
	if s == "" {
		return nil, true
	}
	var out []pex.Peer
	for _, e := range strings.Split(s, ",") {
		f := strings.Split(e, ":")
		if len(f) != 3 {
			return nil, false
		}
		a, ok := netip.AddrFromSlice(vhlib.UnHex(f[0]))
		if !ok {
			return nil, false
		}
		port, _ := strconv.Atoi(f[1])
		fl, _ := strconv.Atoi(f[2])
		out = append(out, pex.Peer{Addr: netip.AddrPortFrom(a, uint16(port)), Flags: byte(fl)})
	}
	return out, true
}

// parseCanon: inverse of wirecanon.CanonFull (plus nil / Flush / Error)
func parseCanon(f []string) (protocol.Message, bool) {
	u := func(i int) uint32 {
		if i >= len(f) {
			return 0
		}
		v, _ := strconv.ParseUint(f[i], 10, 32)
		return uint32(v)
	}
	hx := func(i int) []byte {
		if i >= len(f) {
			return nil
		}
		return vhlib.UnHex(f[i])
	}
	switch f[0] {
	case "nil":
		return nil, true
	case "Flush":
		return protocol.Flush{}, true
	case "Error":
		if len(f) > 1 && f[1] == "eof" {
			return protocol.Error{Error: io.EOF}, true
		}
		return protocol.Error{Error: errors.New("read")}, true
	case "KeepAlive":
		return protocol.KeepAlive{}, true
	case "Choke":
		return protocol.Choke{}, true
	case "Unchoke":
		return protocol.Unchoke{}, true
	case "Interested":
		return protocol.Interested{}, true
	case "NotInterested":
		return protocol.NotInterested{}, true
	case "HaveAll":
		return protocol.HaveAll{}, true
	case "HaveNone":
		return protocol.HaveNone{}, true
	case "Have":
		return protocol.Have{Index: u(1)}, true
	case "Bitfield":
		return protocol.Bitfield{Bitfield: hx(1)}, true
	case "Request":
		return protocol.Request{Index: u(1), Begin: u(2), Length: u(3)}, true
	case "Cancel":
		return protocol.Cancel{Index: u(1), Begin: u(2), Length: u(3)}, true
	case "Reject":
		return protocol.RejectRequest{Index: u(1), Begin: u(2), Length: u(3)}, true
	case "Piece":
		return protocol.Piece{Index: u(1), Begin: u(2), Data: hx(3)}, true
	case "Port":
		return protocol.Port{Port: uint16(u(1))}, true
	case "Suggest":
		return protocol.SuggestPiece{Index: u(1)}, true
	case "AllowedFast":
		return protocol.AllowedFast{Index: u(1)}, true
	case "DontHave":
		return protocol.ExtendedDontHave{Subtype: uint8(u(1)), Index: u(2)}, true
	case "UploadOnly":
		return protocol.ExtendedUploadOnly{Subtype: uint8(u(1)), Value: u(2) == 1}, true
	case "ExtUnknown":
		return protocol.ExtendedUnknown{Subtype: uint8(u(1))}, true
	case "Unknown":
		return protocol.Unknown{}, true
	case "Meta":
		m := protocol.ExtendedMetadata{Subtype: uint8(u(1)), Type: uint8(u(2)), Piece: u(3), TotalSize: u(4), Data: hx(5)}
		return m, true
	case "Pex":
		if len(f) != 4 {
			return nil, false
		}
		as, _ := kv(f[2], "a")
		ds, _ := kv(f[3], "d")
		a, ok1 := parsePeers(as)
		d, ok2 := parsePeers(ds)
		return protocol.ExtendedPex{Subtype: uint8(u(1)), Added: a, Dropped: d}, ok1 && ok2
	case "Ext0":
		if len(f) != 10 {
			return nil, false
		}
		m := protocol.Extended0{}
		v, _ := kv(f[1], "v")
		m.Version = string(vhlib.UnHex(v))
		p, _ := kv(f[2], "p")
		pi, _ := strconv.Atoi(p)
		m.Port = uint16(pi)
		q, _ := kv(f[3], "reqq")
		qi, _ := strconv.ParseUint(q, 10, 32)
		m.ReqQ = uint32(qi)
		if s, _ := kv(f[4], "ipv4"); s != "-" {
			m.IPv4, _ = netip.AddrFromSlice(vhlib.UnHex(s))
		}
		if s, _ := kv(f[5], "ipv6"); s != "-" {
			m.IPv6, _ = netip.AddrFromSlice(vhlib.UnHex(s))
		}
		ms, _ := kv(f[6], "ms")
		msi, _ := strconv.ParseUint(ms, 10, 32)
		m.MetadataSize = uint32(msi)
		mm, _ := kv(f[7], "m")
		if len(mm) >= 2 {
			mm = mm[1 : len(mm)-1]
		}
		if mm != "" {
			m.Messages = map[string]uint8{}
			for _, e := range strings.Split(mm, ";") {
				g := strings.Split(e, ":")
				if len(g) == 2 {
					n, _ := strconv.Atoi(g[1])
					m.Messages[string(vhlib.UnHex(g[0]))] = uint8(n)
				}
			}
		}
		uo, _ := kv(f[8], "uo")
		m.UploadOnly = uo == "1"
		e, _ := kv(f[9], "e")
		m.Encrypt = e == "1"
		return m, true
	}
	return nil, false
}
