package main

// End-to-end mode: the real peer goroutine (peer.Run with its reader and writer goroutines)
// over a synchronous pipe whose remote end accepts our requests and then stops reading its
// socket, while the torrent side (the harness in the torrent's place) cancels blocks and
// polls the peer with the six synchronous queries of the torrent's loop.  The property says
// that handling terminates and at worst disconnects that one peer: every query returns, and
// afterwards the peer goroutine is either back in its loop or has exited with Done closed;
// no goroutine stays parked on a reply-channel send.

import (
	"bufio"
	"io"
	"os"
	"fmt"
	"net"
	"net/netip"
	"regexp"
	"runtime"
	"strings"
	"sync"
	"time"

	"github.com/jech/storrent/hash"
	"github.com/jech/storrent/peer"
	"github.com/jech/storrent/protocol"
)

const e2eWatchdog = 9 * time.Second

// within runs f under a watchdog
func within(d time.Duration, f func()) bool {
	done := make(chan struct{})
	go func() { f(); close(done) }()
	select {
	case <-done:
		return true
	case <-time.After(d):
		return false
	}
}

var chanSendRe = regexp.MustCompile(`(?m)^goroutine \d+ \[chan send[^\]]*\]:`)

// parkedReplySends: goroutines blocked on a channel send inside peer.handleEvent
func parkedReplySends() []string {
	buf := make([]byte, 1<<20)
	n := runtime.Stack(buf, true)
	var out []string
	for _, g := range strings.Split(string(buf[:n]), "\n\n") {
		if chanSendRe.MatchString(g) && strings.Contains(g, "peer.handleEvent") {
			lines := strings.Split(g, "\n")
			if len(lines) > 6 {
				lines = lines[:6]
			}
			out = append(out, strings.Join(lines, " | "))
		}
	}
	return out
}

// e2e runs one scenario on the world's torrent (its metadata must be known); `slow` is the
// number of cancelled blocks whose Cancel has to wait for the blocked writer (200 ms each).
func (w *world) e2e(slow int) {
	op := fmt.Sprintf("e2e %d", slow)
	if !w.t.InfoComplete() || w.poisoned {
		w.emit(op, "skip")
		return
	}
	a, b := net.Pipe()
	torEvent := make(chan peer.TorEvent, 4096)
	torDone := make(chan struct{})
	id := make([]byte, 20)
	copy(id, "-XX0000-verifverif01")
	p := peer.New("", a, netip.AddrPortFrom(peerIP, 6881), false,
		protocol.HandshakeResult{Hash: w.t.Hash, Id: hash.Hash(id), Fast: true, Extended: false})
	p.Pieces = &w.t.Pieces
	p.Log.SetOutput(io.Discard)
	stopDrain := make(chan struct{})
	go func() { // the torrent reads its event channel
		for {
			select {
			case <-torEvent:
			case <-stopDrain:
				return
			}
		}
	}()
	runDone := make(chan struct{})
	go func() {
		peer.Run(p, torEvent, torDone, w.t.Info, w.t.Pieces.Bitmap(), nil)
		close(runDone)
	}()
	// the remote: reads (and throws away) what we send until told to stop reading
	var mu sync.Mutex
	reading := true
	go func() {
		buf := make([]byte, 4096)
		for {
			mu.Lock()
			rd := reading
			mu.Unlock()
			if !rd {
				return
			}
			b.SetReadDeadline(time.Now().Add(20 * time.Millisecond))
			if _, err := b.Read(buf); err != nil {
				if ne, ok := err.(net.Error); ok && ne.Timeout() {
					continue
				}
				return
			}
		}
	}()
	send := func(m protocol.Message) bool {
		return within(2*time.Second, func() {
			bw := bufio.NewWriter(b)
			protocol.Write(bw, m, nil)
			bw.Flush()
		})
	}
	var problems []string
	fail := func(kind, detail string) { problems = append(problems, kind+"\x00"+detail) }
	np := w.t.Pieces.Num()
	bs := make([]byte, (np+7)/8)
	for i := 0; i < np; i++ {
		bs[i/8] |= 1 << (7 - uint(i%8))
	}
	ok := send(protocol.Bitfield{Bitfield: bs}) && send(protocol.Unchoke{})
	if !ok {
		fail("hang:peer:e2e:remote-write", "the peer did not read the remote's first messages")
	}
	// the torrent requests blocks; with a measured rate the pipeline is as deep as reqQ
	nch := w.nchunks()
	want := 64 + slow
	if want > nch {
		want = nch
	}
	put := func(e peer.PeerEvent) bool {
		select {
		case p.Event <- e:
			return true
		case <-p.Done:
			return false
		case <-time.After(e2eWatchdog):
			fail("hang:peer:e2e:event-queue", fmt.Sprintf("the peer's event queue did not take %T within %v", e, e2eWatchdog))
			return false
		}
	}
	time.Sleep(30 * time.Millisecond)
	p.VerifRateRegime(true)
	for c := 0; c < want; c += 8 {
		var cs []uint32
		for k := c; k < c+8 && k < want; k++ {
			cs = append(cs, uint32(k))
		}
		put(peer.PeerRequest{Chunks: cs})
		time.Sleep(5 * time.Millisecond)
	}
	time.Sleep(100 * time.Millisecond)
	if os.Getenv("C05_E2E_DEBUG") != "" {
		st := p.GetStats()
		fmt.Fprintf(os.Stderr, "e2e: want=%d stats=%+v\n", want, st)
	}
	t0 := time.Now()
	// the remote stops reading its socket
	mu.Lock()
	reading = false
	mu.Unlock()
	time.Sleep(50 * time.Millisecond)
	// the torrent cancels the blocks (another peer delivered them): the first Cancels fill
	// the writer queue, the others wait 200 ms each for the blocked writer
	for c := 0; c < want; c++ {
		if !put(peer.PeerCancel{Chunk: uint32(c)}) {
			break
		}
		if c == 0 {
			// let the writer take this one and block in its flush
			time.Sleep(40 * time.Millisecond)
		}
	}
	// ... and polls the peer meanwhile, as its loop does
	var wg sync.WaitGroup
	queries := map[string]func(){
		"GetStatus": func() { p.GetStatus() },
		"GetPex":    func() { p.GetPex() },
		"GetStats":  func() { p.GetStats() },
		"GetFast":   func() { p.GetFast() },
		"GetBitmap": func() { p.GetBitmap() },
		"GetHave":   func() { p.GetHave(0) },
	}
	var qmu sync.Mutex
	for name, q := range queries {
		wg.Add(1)
		go func(name string, q func()) {
			defer wg.Done()
			if !within(e2eWatchdog, q) {
				qmu.Lock()
				fail("hang:tor:query:"+name, name+" did not return within "+e2eWatchdog.String()+" while the peer was writing to a remote that does not read")
				qmu.Unlock()
			}
		}(name, q)
	}
	wg.Wait()
	if os.Getenv("C05_E2E_DEBUG") != "" {
		fmt.Fprintf(os.Stderr, "e2e: burst+queries took %v\n", time.Since(t0))
	}
	// afterwards: the peer goroutine is back in its loop, or gone
	var st *peer.PeerStatus
	answered := within(e2eWatchdog, func() { st = p.GetStatus() })
	doneClosed := false
	select {
	case <-p.Done:
		doneClosed = true
	default:
	}
	if os.Getenv("C05_E2E_DEBUG") != "" {
		fmt.Fprintf(os.Stderr, "e2e: answered=%v st=%v doneClosed=%v writerlen=%d\n", answered, st != nil, doneClosed, len(p.VerifWriter()))
	}
	if !doneClosed && (!answered || st == nil) {
		fail("hang:peer:goroutine-stuck", "after the burst the peer neither answers a fresh GetStatus nor has exited (Done is open): its goroutine is stuck")
	}
	time.Sleep(50 * time.Millisecond)
	if parked := parkedReplySends(); len(parked) > 0 {
		fail("hang:peer:reply-send-parked", fmt.Sprintf("%d goroutine(s) parked on a channel send inside peer.handleEvent: %s", len(parked), clip(parked[0])))
	}
	// tear down
	a.Close()
	b.Close()
	close(torDone)
	select {
	case <-runDone:
	case <-time.After(2 * time.Second):
	}
	close(stopDrain)
	obs := "ok"
	if len(problems) > 0 {
		obs = "stuck"
	}
	w.emit(op, obs)
	w.count("e2e:"+obs, op, true)
	for _, pr := range problems {
		kv := strings.SplitN(pr, "\x00", 2)
		w.violate(kv[0], kv[1], w.c.Case())
	}
}

