// vh c05: peer.handleMessage / peer.handleEvent on a real peer.Peer wired to a real
// tor.Torrent (tor.ReadTorrent on generated metainfo, or a magnet torrent whose metadata
// arrives over the wire), every emitted event fed to the real tor.handleEvent; compared
// with the Lean model (result class, emitted messages and events, canonical snapshot of
// peer and torrent, measured allocation against the model's count) and judged by the
// property oracle: no panic, an error only ends this peer (its claims are retracted, the
// torrent handler never returns an error), allocation proportional to the message.
package main

import (
	"context"
	"crypto/sha1"
	"errors"
	"fmt"
	"io"
	"net/netip"
	"os"
	"runtime"
	"runtime/debug"
	"sort"
	"strconv"
	"strings"
	"sync"
	"time"

	"github.com/jech/storrent/bitmap"
	"github.com/jech/storrent/config"
	"github.com/jech/storrent/hash"
	"github.com/jech/storrent/peer"
	"github.com/jech/storrent/pex"
	"github.com/jech/storrent/protocol"
	"github.com/jech/storrent/tor"

	"verifharness/vhlib"
	"verifharness/wirecanon"
)

const CS = 16384
const metaCap = 128 * 1024 * 1024
const maxPiecesPre = 8 * 1024 * 1024

// oracle constants (justified in REPORT.md): bytes allocated while handling one message and
// everything it gives rise to  <=  allocFactor*wire + allocSlack + indexFactor*Nmax
//   (+ metaConst for the two messages that size the metadata buffers) (+ 2*pieceSize).
const allocFactor = 128
const allocSlack = 256 * 1024
const indexFactor = 12
const metaConst = metaCap + metaCap/CS*9 + 256*1024

type caseCfg struct {
	seed     uint64
	magnet   bool
	fast     bool
	ps       uint32
	np       int
	last     uint32
	nameLen  int
	wcap     int
	evcap    int
	port     int
	badInfo  bool // the "metadata" is not a valid info dictionary (authentic but unparsable)
	metaGe   bool // cosmetic: what the model is told about the gotMetadata guard
	e2e      int  // end-to-end scenario with this many slow Cancels (not part of the token: replays carry the op)
	burst    int  // length of the burst sent while the torrent is not reading (not part of the token: replays carry the ops)
	bigTor   bool
}

func (c caseCfg) token() string {
	b := func(v bool) int {
		if v {
			return 1
		}
		return 0
	}
	return fmt.Sprintf("%d:%d:%d:%d:%d:%d:%d:%d:%d:%d:%d", c.seed, b(c.magnet), b(c.fast), c.ps, c.np,
		c.last, c.nameLen, c.wcap, c.evcap, c.port, b(c.badInfo))
}

func parseCfg(tok string) (caseCfg, error) {
	f := strings.Split(tok, ":")
	if len(f) != 11 {
		return caseCfg{}, errors.New("bad cfg token")
	}
	n := make([]uint64, len(f))
	for i := range f {
		v, err := strconv.ParseUint(f[i], 10, 64)
		if err != nil {
			return caseCfg{}, err
		}
		n[i] = v
	}
	return caseCfg{seed: n[0], magnet: n[1] == 1, fast: n[2] == 1, ps: uint32(n[3]), np: int(n[4]),
		last: uint32(n[5]), nameLen: int(n[6]), wcap: int(n[7]), evcap: int(n[8]), port: int(n[9]),
		badInfo: n[10] == 1}, nil
}

// per-op watchdog: the property says that handling a message terminates
const opTimeout = 6 * time.Second
const maxHangs = 4

var hangs int

func (w *world) emit(op, obs string) {
	if !w.quiet {
		w.c.Emit(op, obs)
		return
	}
	if w.recOps {
		switch strings.SplitN(op, " ", 2)[0] {
		case "msg", "pev", "sched", "tick":
			w.rec = append(w.rec, op)
		}
	}
}
func (w *world) count(tag, key string, nt bool) {
	if !w.quiet {
		w.c.Count(tag, key, nt)
	}
}
func (w *world) violate(kind, detail string, ops []string) {
	if !w.quiet {
		w.c.Violate(kind, detail, ops)
		return
	}
	w.quietViol = append(w.quietViol, [2]string{kind, detail})
}

// guarded runs one call of the real code under recover and a watchdog; hung = it did not
// return within opTimeout (its goroutine is abandoned).
func guarded(f func()) (alloc uint64, pn string, hung bool) {
	var m0, m1 runtime.MemStats
	runtime.ReadMemStats(&m0)
	done := make(chan string, 1)
	go func() { done <- vhlib.Recover(f) }()
	tm := time.NewTimer(opTimeout)
	defer tm.Stop()
	select {
	case p := <-done:
		runtime.ReadMemStats(&m1)
		return m1.TotalAlloc - m0.TotalAlloc, p, false
	case <-tm.C:
		return 0, "", true
	}
}

type syncMarker struct{ ch chan struct{} }

// accounted: a PeerRequest whose chunks were already reserved in the `tev` line of the
// torrent event that produced it
type accounted struct{ rq peer.PeerRequest }

type world struct {
	c          *vhlib.Ctx
	cfg        caseCfg
	t          *tor.Torrent
	p          *peer.Peer
	writerDone chan struct{}
	wdone      bool
	level      int // dummy messages currently parked in the writer queue
	info       []byte
	content    []byte
	length     int64
	metaGe     bool
	mu         sync.Mutex
	pend       []peer.PeerEvent
	stop       chan struct{}
	dead       bool // the peer returned an error / exited
	pool       []pex.Peer
	twin       bool
	quiet      bool // a twin rebuilt by replay: nothing is emitted, counted or reported
	poisoned   bool // a call of the real code never returned; the world is abandoned
	recOps     bool // (quiet worlds) record the explicit ops executed from now on
	rec        []string
	quietViol  [][2]string
	withhold   bool // the torrent is not reading: emitted events stay in its channel / the overflow list
	held       []heldOp
	pendingEv  int      // events emitted while withholding, not yet attributed
	spill      int64    // block after the one an over-long payload was sent for (-1: none)
	stale      []uint32 // blocks that were queued but not sent when the remote last choked us
	last       stepAcc
	fastRate   bool
	finalWait  int
}

func bstr(b []byte) string { return "" + strconv.Itoa(len(b)) + ":" + string(b) }

// makeInfo builds an info dictionary (sorted keys) for `length` bytes of PRNG content.
func makeInfo(r *vhlib.Rand, ps uint32, length int64, nameLen int) (info, content []byte) {
	content = r.Bytes(int(length))
	var pieces []byte
	for off := int64(0); off < length; off += int64(ps) {
		end := off + int64(ps)
		if end > length {
			end = length
		}
		h := sha1.Sum(content[off:end])
		pieces = append(pieces, h[:]...)
	}
	name := make([]byte, nameLen)
	for i := range name {
		name[i] = 'a' + byte(r.Intn(26))
	}
	s := "d6:lengthi" + strconv.FormatInt(length, 10) + "e4:name" + bstr(name) +
		"12:piece lengthi" + strconv.Itoa(int(ps)) + "e6:pieces" + bstr(pieces) + "e"
	return []byte(s), content
}

var peerIP = netip.MustParseAddr("1.2.3.4")

func newWorld(c *vhlib.Ctx, cfg caseCfg, twin bool) (*world, error) {
	w := &world{c: c, cfg: cfg, twin: twin, metaGe: cfg.metaGe}
	r := vhlib.NewRand(cfg.seed)
	w.length = int64(cfg.np-1)*int64(cfg.ps) + int64(cfg.last)
	if cfg.badInfo {
		w.info = r.Bytes(cfg.nameLen + 50)
		w.info[0] = 'x'
		w.length = 0
	} else {
		w.info, w.content = makeInfo(r, cfg.ps, w.length, cfg.nameLen)
	}
	var err error
	if cfg.magnet || cfg.badInfo {
		h := sha1.Sum(w.info)
		w.t, err = tor.New("", hash.Hash(h[:]), "magnet", nil, 0, nil, nil)
	} else {
		w.t, err = tor.ReadTorrent("", strings.NewReader("d4:info"+string(w.info)+"e"))
	}
	if err != nil {
		return nil, err
	}
	tor.VerifInit(w.t, cfg.evcap, cfg.seed)
	w.writerDone = make(chan struct{})
	var pinfo []byte
	var my bitmap.Bitmap
	if w.t.InfoComplete() {
		pinfo = w.t.Info
		my = w.t.Pieces.Bitmap()
	}
	id := make([]byte, 20)
	copy(id, "-XX0000-verifverif00")
	w.p = peer.VerifNewPeer(peer.VerifPeerOpts{
		Addr: netip.AddrPortFrom(peerIP, uint16(cfg.port)), Hash: w.t.Hash, Id: hash.Hash(id),
		Fast: cfg.fast, Extended: true, Info: pinfo, MyBitmap: my, WriterCap: cfg.wcap,
		TorEvent: w.t.Event, TorDone: w.t.Done, WriterDone: w.writerDone})
	w.t.VerifAddPeer(w.p)
	w.p.VerifRateRegime(false)
	w.stop = make(chan struct{})
	go w.responder()
	return w, nil
}

func (w *world) close() {
	close(w.stop)
}

// responder plays the part of the peer goroutine for the torrent's synchronous queries
// (GetStatus, GetPex, ...): they are answered at once; every other command of the
// torrent is queued for the main loop, which feeds it to the peer as an op of its own.
func (w *world) responder() {
	for {
		select {
		case e := <-w.p.Event:
			switch e := e.(type) {
			case syncMarker:
				close(e.ch)
			case peer.PeerGetStatus, peer.PeerGetStats, peer.PeerGetPex, peer.PeerGetFast,
				peer.PeerGetBitmap, peer.PeerGetHave:
				vhlib.Recover(func() { peer.VerifHandleEvent(w.p, e) })
			default:
				w.mu.Lock()
				w.pend = append(w.pend, e)
				w.mu.Unlock()
			}
		case <-w.stop:
			return
		}
	}
}

func (w *world) takePending() []peer.PeerEvent {
	m := syncMarker{make(chan struct{})}
	select {
	case w.p.Event <- m:
		select {
		case <-m.ch:
		case <-time.After(5 * time.Second):
		}
	case <-time.After(5 * time.Second):
	}
	w.mu.Lock()
	defer w.mu.Unlock()
	out := w.pend
	w.pend = nil
	return out
}

func measure(f func()) (uint64, string) {
	var m0, m1 runtime.MemStats
	runtime.ReadMemStats(&m0)
	p := vhlib.Recover(f)
	runtime.ReadMemStats(&m1)
	return m1.TotalAlloc - m0.TotalAlloc, p
}

func b01(v bool) string {
	if v {
		return "1"
	}
	return "0"
}

func ipHex(a netip.Addr) string {
	if !a.IsValid() {
		return "-"
	}
	if a.Is4() {
		v := a.As4()
		return vhlib.Hex(v[:])
	}
	v := a.As16()
	return vhlib.Hex(v[:])
}

// tevCanon: canonical form of an event a peer emits; ok=false for the torrent's internal
// events (TorHave, TorBadPeer, ...), which are fed to the torrent but are not the peer's.
func tevCanon(e peer.TorEvent, pl func([]byte) string) (string, bool) {
	switch e := e.(type) {
	case peer.TorPeerUnchoke:
		return "PeerUnchoke " + b01(e.Unchoke), true
	case peer.TorPeerInterested:
		return "PeerInterested " + b01(e.Interested), true
	case peer.TorPeerHave:
		return fmt.Sprintf("PeerHave %d %s", e.Index, b01(e.Have)), true
	case peer.TorPeerBitmap:
		return fmt.Sprintf("PeerBitmap %s %s", pl(e.Bitmap), b01(e.Have)), true
	case peer.TorPeerExtended:
		return fmt.Sprintf("PeerExtended %d", e.MetadataSize), true
	case peer.TorAddKnown:
		return fmt.Sprintf("AddKnown %s %d %d %s", ipHex(e.Addr.Addr()), e.Addr.Port(), int(e.Kind),
			vhlib.Hex([]byte(e.Version))), true
	case peer.TorMetaData:
		return fmt.Sprintf("MetaData %d %d %s", e.Size, e.Index, pl(e.Data)), true
	case peer.TorData:
		return fmt.Sprintf("Data %d %d %d %s", e.Index, e.Begin, e.Length, b01(e.Complete)), true
	case peer.TorDrop:
		return fmt.Sprintf("Drop %d %d %d", e.Index, e.Begin, e.Length), true
	case peer.TorPeerGoaway:
		return "Goaway", true
	}
	return fmt.Sprintf("?%T", e), false
}

func evName(e peer.TorEvent) string {
	s, _ := tevCanon(e, vhlib.Payload)
	return strings.SplitN(s, " ", 2)[0]
}

func outMsgStr(m protocol.Message) string {
	if mm, ok := m.(protocol.ExtendedMetadata); ok && mm.Type == 1 {
		return fmt.Sprintf("m:Meta %d 1 %d %d #%d", mm.Subtype, mm.Piece, mm.TotalSize, len(mm.Data))
	}
	return "m:" + wirecanon.Canon(m)
}

func errStr(err error) string {
	if err == nil {
		return "ok"
	}
	return "err:" + strings.ReplaceAll(err.Error(), " ", "_")
}

func u32s(l []uint32) string {
	s := make([]string, len(l))
	for i, v := range l {
		s[i] = strconv.FormatUint(uint64(v), 10)
	}
	return "[" + strings.Join(s, ",") + "]"
}

func (w *world) peerSnap(wl int) string {
	st := w.p.VerifState()
	bm := "nil"
	if !st.BitmapNil {
		bm = vhlib.Payload(st.Bitmap)
	}
	var r []string
	for _, q := range st.Requested {
		s := strconv.FormatUint(uint64(q.Index), 10)
		if q.Cancelled {
			s += "*"
		}
		r = append(r, s)
	}
	var up []string
	for _, u := range st.Upload {
		up = append(up, fmt.Sprintf("%d/%d/%d", u.Index, u.Begin, u.Length))
	}
	var px []string
	for _, p := range st.Pex {
		px = append(px, fmt.Sprintf("%s:%d:%d", ipHex(p.Addr.Addr()), p.Addr.Port(), p.Flags))
	}
	// the membership bitmap of the request structure, over every block number plus a margin
	var mb []string
	nb := 16
	if st.HasInfo {
		nb += int((w.t.Pieces.Length() + CS - 1) / CS)
	}
	for c := 0; c < nb; c++ {
		if w.p.VerifMember(uint32(c)) {
			mb = append(mb, strconv.Itoa(c))
		}
	}
	return fmt.Sprintf("info=%s bm=%s seed=%s un=%s in=%s au=%s si=%s ai=%s ge=%s ext=%d,%d,%d,%d uo=%s port=%d rq=%d q=%s r=[%s] mb=[%s] up=[%s] fast=%s pex=[%s] tick=%s my=%s w=%d",
		b01(st.HasInfo), bm, seedTok(st), b01(st.Unchoked), b01(st.Interested), b01(st.AmUnchoking),
		b01(st.ShouldInterested), b01(st.AmInterested), b01(st.GotExtended), st.PexExt, st.MetadataExt,
		st.DontHaveExt, st.UploadOnlyExt, b01(st.UploadOnly), st.Port, st.ReqQ, u32s(st.Queue),
		strings.Join(r, ","), strings.Join(mb, ","), strings.Join(up, ","), u32s(st.Fast), strings.Join(px, ","),
		b01(st.UploadTicking), vhlib.Payload(st.MyBitmap), wl)
}

// seedTok: once the metadata is known isSeed is a cache refreshed by the status getters
// and read by no handler; it is compared only before.
func seedTok(st peer.VerifPeerState) string {
	if st.HasInfo {
		return "-"
	}
	return b01(st.IsSeed)
}

func sparse16(v []uint16) string {
	var s []string
	for i, x := range v {
		if x != 0 {
			s = append(s, fmt.Sprintf("%d:%d", i, x))
		}
	}
	return fmt.Sprintf("%d:{%s}", len(v), strings.Join(s, ","))
}

func sparse8(v []uint8) string {
	var s []string
	for i, x := range v {
		if x != 0 {
			s = append(s, fmt.Sprintf("%d:%d", i, x))
		}
	}
	return fmt.Sprintf("%d:{%s}", len(v), strings.Join(s, ","))
}

func (w *world) torSnap() string {
	is := w.t.VerifInfoState()
	var vk []uint32
	for k := range is.Votes {
		vk = append(vk, k)
	}
	sort.Slice(vk, func(i, j int) bool { return vk[i] < vk[j] })
	var vs []string
	for _, k := range vk {
		vs = append(vs, fmt.Sprintf("%d:%d", k, is.Votes[k]))
	}
	il := is.InfoLen
	if is.InfoComplete {
		il = 0
	}
	return fmt.Sprintf("ic=%s ps=%d len=%d av=%s if=%s il=%d ib=%s ir=%s votes=[%s]",
		b01(is.InfoComplete), w.t.Pieces.PieceSize(), w.t.Pieces.Length(), sparse16(w.t.VerifAvailable()),
		sparse8(w.t.VerifInFlight()), il, vhlib.Payload(is.Bitmap), sparse8(is.Requested),
		strings.Join(vs, ","))
}

// nmax: the number of pieces an index may legitimately address in the current state
func (w *world) nmax() uint64 {
	if w.p.VerifState().HasInfo {
		return uint64(peer.VerifNumPieces(w.p))
	}
	return maxPiecesPre
}

func wireSize(m protocol.Message) int {
	switch m := m.(type) {
	case nil, protocol.Error, protocol.Flush:
		return 4
	case protocol.ExtendedUploadOnly:
		return 7
	case protocol.ExtendedUnknown, protocol.Unknown:
		return 5
	case protocol.Piece:
		return 13 + len(m.Data)
	case protocol.Bitfield:
		return 5 + len(m.Bitfield)
	}
	bs, e := encode(m)
	if e != "" {
		return 4
	}
	return len(bs)
}

// drainWriter empties the writer queue; the first `level` entries are the dummies parked
// there by setLevel, the rest are what the handler wrote.
func (w *world) drainWriter() []protocol.Message {
	var out []protocol.Message
	ch := w.p.VerifWriter()
	i := 0
	for {
		select {
		case m := <-ch:
			if i >= w.level {
				out = append(out, m)
			}
			i++
		default:
			w.level = 0
			return out
		}
	}
}

func (w *world) setLevel(k int) {
	ch := w.p.VerifWriter()
	for len(ch) < k {
		ch <- protocol.KeepAlive{}
	}
	w.level = len(ch)
}

// drainEvents collects what the peer emitted: the torrent's channel first, then the
// peer's overflow list (FIFO order is preserved by writeEvent).
func (w *world) drainEvents() []peer.TorEvent {
	var out []peer.TorEvent
	for {
		progressed := false
		for {
			select {
			case e := <-w.t.Event:
				out = append(out, e)
				progressed = true
				continue
			default:
			}
			break
		}
		if len(w.p.VerifEvents()) > 0 {
			w.p.VerifFlushEvents()
			progressed = true
		}
		if !progressed {
			return out
		}
	}
}

// heldOp: an op executed while the torrent's consumption is withheld; its observation line
// is completed (events it emitted) when the torrent starts reading again.
type heldOp struct {
	op, res, snap string
	msgs          []string
	nev           int
}

type stepAcc struct {
	wire    int
	alloc   uint64
	meta    bool
	what    string
	ops0    int
	isPiece bool
	hung    bool
	pn      string
	bound   uint64
}

// feedTor hands one peer-emitted event to the real torrent and emits the `tev` op.
func (w *world) feedTor(e peer.TorEvent, acc *stepAcc, synthetic bool) {
	full, _ := tevCanon(e, vhlib.Hex)
	w.quiesce()
	before := w.t.VerifInfoState()
	var err error
	ta, pn, hung := guarded(func() { err = tor.VerifHandleEvent(context.Background(), w.t, e) })
	if hung {
		kw := "tev"
		if synthetic {
			kw = "tevs"
		}
		w.emit(fmt.Sprintf("%s 0:-:0:1:0:0:0:- 0 %s", kw, full), "hang")
		w.violate("hang:tor:"+evName(e), "tor.handleEvent did not return within "+opTimeout.String()+" on "+clip(full), w.c.Case())
		w.poisoned, w.dead = true, true
		hangs++
		return
	}
	if acc != nil {
		acc.alloc += ta
	}
	after := w.t.VerifInfoState()
	// environment choices, observed
	guess := uint64(after.InfoLen)
	if after.InfoComplete {
		guess = 0
	}
	gm := "-"
	pend := w.takePending()
	var rest []peer.PeerEvent
	var reserved []string
	for _, pe := range pend {
		if g, ok := pe.(peer.PeerGetMetadata); ok && gm == "-" {
			gm = strconv.FormatUint(uint64(g.Index), 10)
		}
		if rq, ok := pe.(peer.PeerRequest); ok {
			for _, c := range rq.Chunks {
				reserved = append(reserved, strconv.FormatUint(uint64(c), 10))
			}
			pe = accounted{rq}
		}
		rest = append(rest, pe)
	}
	rsv := "-"
	if len(reserved) > 0 {
		rsv = strings.Join(reserved, ".")
	}
	hashOk, parseOk := false, true
	var eps, enh uint64
	var elen int64
	if !before.InfoComplete && after.InfoComplete {
		hashOk = true
		eps, elen, enh = uint64(w.t.Pieces.PieceSize()), w.t.Pieces.Length(), uint64(len(w.t.PieceHashes))
	} else if _, ok := e.(peer.TorMetaData); ok && !before.InfoComplete && before.InfoLen > 0 && after.InfoLen == 0 {
		// the buffers were thrown away: SHA-1 mismatch, or an authentic but unparsable info
		h := sha1.Sum(before.Info)
		_ = h
		hashOk = w.cfg.badInfo && wouldMatch(w, before, e.(peer.TorMetaData))
		parseOk = !hashOk
	}
	if !after.InfoComplete && after.InfoLen == 0 {
		guess = 0
	}
	env := fmt.Sprintf("%d:%s:%s:%s:%d:%d:%d:%s", guess, gm, b01(hashOk), b01(parseOk), eps, elen, enh, rsv)
	res := errStr(err)
	if pn != "" {
		res = "panic"
	}
	tsnap := w.torSnap()
	if pn != "" {
		// the model keeps the pre-state on a fault; the real slice may be half updated
		tsnap = "?"
	}
	kw := "tev"
	if synthetic {
		kw = "tevs"
	}
	w.emit(fmt.Sprintf("%s %s %d %s", kw, env, ta, full), fmt.Sprintf("res=%s %s aok", res, tsnap))
	w.count("tor:"+evName(e)+":"+res, full, true)
	if !synthetic {
		if pn != "" {
			w.violate("panic:tor:"+evName(e), "tor.handleEvent panicked on an event emitted by a peer: "+pn+" event "+clip(full), w.c.Case())
		} else if err != nil {
			w.violate("tor-error:"+evName(e), "tor.handleEvent returned an error (the torrent's loop would exit): "+err.Error(), w.c.Case())
		}
	}
	// requeue the torrent's commands for the main loop
	w.mu.Lock()
	w.pend = append(rest, w.pend...)
	w.mu.Unlock()
	if d, ok := e.(peer.TorData); ok && d.Complete && pn == "" {
		w.finalWait++
	}
}

// wouldMatch: did the metadata buffer hold exactly the authentic bytes once this block
// was stored (so that the buffers were dropped by the parser, not by the SHA-1 test)?
func wouldMatch(w *world, before tor.VerifInfoState, e peer.TorMetaData) bool {
	buf := append([]byte(nil), before.Info...)
	off := int(e.Index) * CS
	if off <= len(buf) {
		copy(buf[off:], e.Data)
	}
	return string(buf) == string(w.info)
}

func clip(s string) string {
	if len(s) > 200 {
		return s[:200] + "…"
	}
	return s
}

// waitFinalise waits for the hash goroutine started by a completing TorData and feeds the
// torrent's own events (TorHave, TorBadPeer) back to it.
func (w *world) internalEvents() {
	deadline := time.Now().Add(3 * time.Second)
	for w.finalWait > 0 && time.Now().Before(deadline) {
		select {
		case e := <-w.t.Event:
			if _, ok := tevCanon(e, vhlib.Payload); ok {
				// cannot happen: the peer is not running; keep order anyway
				w.feedTor(e, nil, false)
				continue
			}
			vhlib.Recover(func() { tor.VerifHandleEvent(context.Background(), w.t, e) })
			if _, ok := e.(peer.TorBadPeer); ok {
				w.finalWait--
			}
		case <-time.After(20 * time.Millisecond):
		}
	}
	w.finalWait = 0
}

func pevCanon(w *world, e peer.PeerEvent) (string, bool) {
	switch e := e.(type) {
	case peer.PeerMetadataComplete:
		return fmt.Sprintf("MetadataComplete %d %d %d", len(e.Info), w.t.Pieces.PieceSize(), w.t.Pieces.Length()), true
	case peer.PeerRequest:
		if len(e.Chunks) == 0 {
			return "Request -", true
		}
		s := u32s(e.Chunks)
		return "Request " + s[1:len(s)-1], true
	case peer.PeerHave:
		return fmt.Sprintf("Have %d %s", e.Index, b01(e.Have)), true
	case peer.PeerCancel:
		return fmt.Sprintf("Cancel %d", e.Chunk), true
	case peer.PeerCancelPiece:
		return fmt.Sprintf("CancelPiece %d", e.Index), true
	case peer.PeerInterested:
		return "Interested " + b01(e.Interested), true
	case peer.PeerGetMetadata:
		return fmt.Sprintf("GetMetadata %d", e.Index), true
	case peer.PeerUnchoke:
		return "Unchoke " + b01(e.Unchoke), true
	case peer.PeerDone:
		return "Done", true
	}
	return "", false
}

// runPeer executes one handler call on the peer (message, torrent command or the exit
// path), then everything it gives rise to, and applies the oracle.
func (w *world) runPeer(kind string, opText string, wire int, m protocol.Message, call func() error) {
	w.quiesce()
	w.p.VerifPinActive(w.p.VerifActiveOld())
	w.p.VerifRateRegime(w.fastRate)
	acc := &stepAcc{wire: wire, what: kind}
	skip, complete := false, false
	if pm, ok := m.(protocol.Piece); ok && w.p.VerifState().HasInfo && int(pm.Index) < w.t.Pieces.Num() {
		skip = w.t.Pieces.Complete(pm.Index)
	}
	stTok := stateTok(w)
	// state the message may touch: the bitmap it retracts (copied into the retraction
	// event), the requests it drops or rejects one by one
	pre := w.p.VerifState()
	touched := 2*uint64(len(pre.Bitmap)) + 256*uint64(len(pre.Queue)+len(pre.Requested)+len(pre.Upload))
	var err error
	ta, pn, hung := guarded(func() { err = call() })
	if hung {
		name := strings.SplitN(opText, " ", 2)[0]
		var op string
		switch kind {
		case "msg":
			op = fmt.Sprintf("msg 00 0 %s", opText)
		case "exit":
			op = "exit 0"
		default:
			op = fmt.Sprintf("%s 0 %s", kind, opText)
		}
		w.flushAbandoned()
		w.emit(op, "hang")
		w.count(kind+":"+name+":hang", opText, true)
		w.violate("hang:peer:"+kind+":"+name+":"+stTok, "the peer handler did not return within "+opTimeout.String()+" on "+clip(opText), w.c.Case())
		w.poisoned, w.dead = true, true
		hangs++
		acc.hung = true
		w.last = *acc
		return
	}
	acc.alloc += ta
	wl := len(w.p.VerifWriter())
	outs := w.drainWriter()
	// everything the handlers queue must be writable: the writer goroutine runs the real
	// protocol.Write on it, and a panic there takes the process down
	for _, o := range outs {
		if _, perr := encode(o); strings.HasPrefix(perr, "panic:") {
			tn := strings.SplitN(wirecanon.Canon(o), " ", 2)[0]
			w.violate("panic:writer:"+tn, "protocol.Write panicked on a message the handler queued for the writer: "+perr+" message "+clip(wirecanon.Canon(o))+" queued while handling "+clip(opText), append(w.c.Case(), opLineFor(kind, opText)))
		}
	}
	if _, isChoke := m.(protocol.Choke); isChoke && pre.CanFast {
		w.stale = append([]uint32(nil), pre.Queue...)
	}
	if w.withhold {
		// the torrent is not reading: count what was emitted, complete the line later
		tot := len(w.t.Event) + len(w.p.VerifEvents())
		h := heldOp{res: errStr(err), snap: w.peerSnap(wl), nev: tot - w.pendingEv}
		w.pendingEv = tot
		if pn != "" {
			h.res = "panic"
		}
		for _, o := range outs {
			h.msgs = append(h.msgs, outMsgStr(o))
		}
		switch kind {
		case "msg":
			h.op = fmt.Sprintf("msg 00 %d %s", ta, opText)
		default:
			h.op = fmt.Sprintf("%s %d %s", kind, ta, opText)
		}
		w.held = append(w.held, h)
		name := strings.SplitN(opText, " ", 2)[0]
		w.count(kind+":"+name+":held", opText, true)
		if pn != "" {
			w.release()
			w.violate("panic:peer:"+kind+":"+name+":"+infoTok(w), "peer handler panicked: "+pn+" on "+clip(opText), w.c.Case())
			w.dead = true
		}
		if err != nil {
			w.dead = true
		}
		bound := allocBound(m, acc.wire, w.nmax(), uint64(w.t.Pieces.PieceSize()), len(w.info)) + touched
		if kind == "msg" && acc.alloc > bound && hangs == 0 {
			w.release()
			w.violate("alloc:"+name+":"+infoTok(w), fmt.Sprintf("%d bytes allocated for a %d-byte message (bound %d): %s", acc.alloc, acc.wire, bound, clip(opText)), w.c.Case())
		}
		w.level = 0
		w.setLevel(0)
		return
	}
	evs := w.drainEvents()
	var os []string
	for _, o := range outs {
		os = append(os, outMsgStr(o))
	}
	var own []peer.TorEvent
	for _, e := range evs {
		s, ok := tevCanon(e, vhlib.Payload)
		if ok {
			os = append(os, "e:"+s)
			own = append(own, e)
			if d, ok := e.(peer.TorData); ok {
				complete = d.Complete
			}
		} else {
			own = append(own, e)
		}
	}
	res := errStr(err)
	if pn != "" {
		res = "panic"
	}
	// the messages are interleaved with events in emission order in the model; here the
	// two queues are separate, so both sides print messages first, then events
	sort.SliceStable(os, func(i, j int) bool { return os[i][0] == 'm' && os[j][0] == 'e' })
	obs := fmt.Sprintf("res=%s out=[%s] %s aok", res, strings.Join(os, ","), w.peerSnap(wl))
	var op string
	switch kind {
	case "msg":
		op = fmt.Sprintf("msg %s%s %d %s", b01(skip), b01(complete), ta, opText)
	case "exit":
		op = fmt.Sprintf("exit %d", ta)
	default:
		op = fmt.Sprintf("%s %d %s", kind, ta, opText)
	}
	w.emit(op, obs)
	name := strings.SplitN(opText, " ", 2)[0]
	w.count(kind+":"+name+":"+strings.SplitN(res, ":", 2)[0], opText, true)
	if pn != "" {
		if m == nil && kind == "msg" || isFlush(m) {
			// documented: only a broken reader produces these (C04_never_nilnil)
		} else {
			w.violate("panic:peer:"+kind+":"+name+":"+infoTok(w), "peer handler panicked: "+pn+" on "+clip(opText), w.c.Case())
		}
		w.dead = true
	}
	if err != nil {
		w.dead = true
	}
	// everything the call gave rise to
	nmax := w.nmax() // before the events: a completing metadata block changes it
	for _, e := range own {
		if w.poisoned {
			break
		}
		if _, ok := tevCanon(e, vhlib.Payload); ok {
			w.feedTor(e, acc, false)
		} else {
			vhlib.Recover(func() { tor.VerifHandleEvent(context.Background(), w.t, e) })
		}
	}
	acc.pn = pn
	if w.poisoned {
		w.last = *acc
		return
	}
	w.internalEvents()
	// allocation clause of the property
	bound := allocBound(m, acc.wire, nmax, uint64(w.t.Pieces.PieceSize()), len(w.info)) + touched
	acc.bound = bound
	w.last = *acc
	// (a call that never returned keeps allocating in its abandoned goroutine: the process-wide
	// counter is meaningless from then on)
	if kind == "msg" && acc.alloc > bound && hangs == 0 {
		w.violate("alloc:"+name+":"+infoTok(w), fmt.Sprintf("%d bytes allocated for a %d-byte message (bound %d): %s", acc.alloc, acc.wire, bound, clip(opText)), w.c.Case())
	}
	// the torrent's own commands: proportional to the command and the state it touches,
	// never to a number the remote chose earlier (reqq, an index, ...)
	if (kind == "pev" || kind == "pevt") && hangs == 0 {
		pb := uint64(allocSlack) + 2*uint64(w.t.Pieces.PieceSize()) + touched + indexFactor*nmax + 1024*uint64(strings.Count(opText, ",")+1)
		if acc.alloc > pb {
			w.violate("alloc:pev:"+name+":"+infoTok(w), fmt.Sprintf("%d bytes allocated while handling the torrent's command %s (bound %d)", acc.alloc, clip(opText), pb), w.c.Case())
		}
	}
	w.syncLevel()
}

// allocBound is the allocation clause of the property for one message and everything it
// gives rise to: proportional to the wire size, plus a constant that depends on the class
// of the message only (never on its numeric fields):
//   every message       128*wire + 256 KiB + 2*pieceSize (a solicited block allocates its piece)
//                       + state touched: 2*len(peer bitmap) (its copy in the retraction event),
//                         256 per queued/sent/upload request (dropped or rejected one by one);
//                         that state was itself paid for by earlier messages of that size
//   Have/Bitfield/HaveAll  + 12*Nmax: the structures indexed by piece number (peer bitmap
//                          N/8, availability 2N with append growth <= 5x)
//   Extended0              + the metadata buffers resizeMetadata may allocate (cap 128 MiB)
//   metadata data          + 64*len(info) + 1 MiB: parsing the authentic metadata on completion
func allocBound(m protocol.Message, wire int, nmax, ps uint64, infoLen int) uint64 {
	b := uint64(allocFactor*wire) + allocSlack + 2*ps
	switch mm := m.(type) {
	case protocol.Have, protocol.Bitfield, protocol.HaveAll:
		b += indexFactor * nmax
	case protocol.Extended0:
		b += metaConst
	case protocol.ExtendedMetadata:
		if mm.Type == 1 {
			b += 64*uint64(infoLen) + 1<<20
		}
	}
	return b
}

// stateTok: the capability state a hang or panic is reported in
func stateTok(w *world) string {
	st := w.p.VerifState()
	s := "noinfo"
	if st.HasInfo {
		s = "info"
	}
	if st.CanFast {
		s += "+fast"
	}
	if st.Unchoked {
		s += "+unchoked"
	} else {
		s += "+choked"
	}
	return s
}

// quiesce: the hash goroutines (Pieces.Finalise, started by a completing TorData or by the
// scheduler when it finds a full piece) run concurrently; while one holds a piece busy
// AddData refuses data for it.  Before every call of the real code we wait until no piece is
// busy, so that the piece store's verdict does not depend on goroutine timing.
func (w *world) quiesce() {
	if g := runtime.NumGoroutine(); baseGoroutines == 0 || g < baseGoroutines {
		baseGoroutines = g // the floor seen so far: nothing of the real code is running then
	}
	if !w.t.InfoComplete() || w.poisoned {
		return
	}
	deadline := time.Now().Add(3 * time.Second)
	n := w.t.Pieces.Num()
	for {
		busy := false
		for i := 0; i < n; i++ {
			if w.t.Pieces.VerifPiece(uint32(i)).State == 2 {
				busy = true
				break
			}
		}
		// a hash goroutine that has been started (`go finalisePiece`) but not yet scheduled has
		// not marked its piece busy: the piece table alone does not show it.  Goroutine counts are
		// cheap; only when more goroutines exist than before the first call do we look for a
		// tor.finalisePiece frame (it lives until its Have/BadPeers has been queued).
		if !busy && runtime.NumGoroutine() > baseGoroutines && finaliseInFlight() {
			busy = true
		}
		if !busy || time.Now().After(deadline) {
			return
		}
		time.Sleep(200 * time.Microsecond)
	}
}

// the smallest number of goroutines seen at a call boundary (the harness's own)
var baseGoroutines = 0

func finaliseInFlight() bool {
	buf := make([]byte, 256<<10)
	n := runtime.Stack(buf, true)
	return strings.Contains(string(buf[:n]), "tor.finalisePiece")
}

// hold: from now on the torrent does not read its event channel (it is busy elsewhere); the
// property says a message is handled to the end regardless.
func (w *world) hold() {
	if w.withhold {
		return
	}
	w.withhold = true
	w.pendingEv = len(w.t.Event) + len(w.p.VerifEvents())
	w.emit("env hold", "ok")
}

// release: the torrent reads again.  Everything emitted meanwhile is drained in order,
// attributed to the ops that produced it (their observation lines are completed and
// emitted now), then handled by the torrent.
func (w *world) release() {
	if !w.withhold {
		return
	}
	w.withhold = false
	evs := w.drainEvents()
	k := 0
	for _, h := range w.held {
		os := append([]string(nil), h.msgs...)
		for i := 0; i < h.nev && k < len(evs); i++ {
			s, _ := tevCanon(evs[k], vhlib.Payload)
			os = append(os, "e:"+s)
			k++
		}
		w.emit(h.op, fmt.Sprintf("res=%s out=[%s] %s aok", h.res, strings.Join(os, ","), h.snap))
		w.emit("env setw 0", "ok")
	}
	w.held = nil
	w.emit("env release", "ok")
	for _, e := range evs {
		if w.poisoned {
			break
		}
		if _, ok := tevCanon(e, vhlib.Payload); ok {
			w.feedTor(e, nil, false)
		} else {
			vhlib.Recover(func() { tor.VerifHandleEvent(context.Background(), w.t, e) })
		}
	}
	if !w.poisoned {
		w.internalEvents()
	}
}

// flushAbandoned: a call hung while ops were held; their lines are emitted as they are so
// that the case's op list is complete.
func (w *world) flushAbandoned() {
	for _, h := range w.held {
		w.emit(h.op, "abandoned")
	}
	w.held = nil
	w.withhold = false
}

// tick: the torrent's request ticker fires (periodicRequest: the scheduler, including the
// idle prefetch that walks the peers' allowed-fast sets).
func (w *world) tick() {
	if w.withhold || w.poisoned {
		return
	}
	w.quiesce()
	_, pn, hung := guarded(func() { tor.VerifPeriodicRequest(context.Background(), w.t) })
	res := "ok"
	switch {
	case hung:
		res = "hang"
		w.emit("tick -", "res=hang")
		w.violate("hang:tor:tick:"+stateTok(w), "periodicRequest did not return within "+opTimeout.String(), w.c.Case())
		w.poisoned, w.dead = true, true
		hangs++
		return
	case pn != "":
		res = "panic"
	}
	// chunks the scheduler reserved during the tick (tor.request), in the op line
	pend := w.takePending()
	var reserved []string
	for i, pe := range pend {
		if rq, ok := pe.(peer.PeerRequest); ok {
			for _, c := range rq.Chunks {
				reserved = append(reserved, strconv.FormatUint(uint64(c), 10))
			}
			pend[i] = accounted{rq}
		}
	}
	w.mu.Lock()
	w.pend = append(pend, w.pend...)
	w.mu.Unlock()
	rsv := "-"
	if len(reserved) > 0 {
		rsv = strings.Join(reserved, ".")
	}
	w.emit("tick "+rsv, "res="+res)
	w.count("tick:"+res, "tick", true)
	if pn != "" {
		w.violate("panic:tor:tick:"+infoTok(w), "the torrent's periodic request (scheduler / idle piece picking) panicked on state a peer's messages produced: "+pn, w.c.Case())
	}
	w.pumpPending()
}

// opLineFor: the op line of a call that has not been emitted yet (for replays)
func opLineFor(kind, opText string) string {
	switch kind {
	case "msg":
		return "msg 00 0 " + opText
	case "exit":
		return "exit 0"
	}
	return kind + " 0 " + opText
}

func infoTok(w *world) string {
	if w.p.VerifState().HasInfo {
		return "info"
	}
	return "noinfo"
}

func isFlush(m protocol.Message) bool {
	_, ok := m.(protocol.Flush)
	return ok
}

// syncLevel tells the model how many messages are left in the writer queue (the harness
// drained it to read the output) and, when the writer is gone, keeps the queue full so
// that the result of write is deterministic.
func (w *world) syncLevel() {
	if w.poisoned {
		return
	}
	k := 0
	if w.wdone {
		k = w.cfg.wcap
	}
	w.setLevel(k)
	w.emit(fmt.Sprintf("env setw %d", k), "ok")
}

// pumpPending feeds the torrent's queued commands to the peer, as ops of their own.
func (w *world) pumpPending() {
	if w.withhold {
		return
	}
	for round := 0; round < 50; round++ {
		pend := w.takePending()
		if len(pend) == 0 {
			return
		}
		for _, pe := range pend {
			if w.dead {
				continue
			}
			w.applyPev(pe, "pevt")
		}
	}
}

func (w *world) applyPev(pe peer.PeerEvent, kw string) {
	noTreq := false
	if a, ok := pe.(accounted); ok {
		pe = a.rq
		noTreq = true
	}
	s, ok := pevCanon(w, pe)
	if !ok {
		// PeerPex etc.: not modelled, no effect on the modelled state
		if _, _, hung := guarded(func() { peer.VerifHandleEvent(w.p, pe) }); hung {
			w.violate("hang:peer:pev:unmodelled:"+stateTok(w), fmt.Sprintf("the peer handler did not return on %T", pe), w.c.Case())
			w.poisoned, w.dead = true, true
			hangs++
			return
		}
		w.drainWriter()
		return
	}
	if rq, ok := pe.(peer.PeerRequest); ok && kw == "pevt" && !noTreq {
		// the torrent's scheduler reserved these chunks when it sent the request
		cs := "-"
		if len(rq.Chunks) > 0 {
			t := u32s(rq.Chunks)
			cs = t[1 : len(t)-1]
		}
		w.emit("treq "+cs, w.torSnap())
	}
	w.runPeer(kw, s, 0, nil, func() error { return peer.VerifHandleEvent(w.p, pe) })
}

// exitPeer replays the exit path of Run, then checks that nothing of this peer is left.
func (w *world) exitPeer() {
	if w.poisoned {
		return
	}
	w.release()
	if w.poisoned {
		return
	}
	w.runPeer("exit", "exit", 0, nil, func() error { peer.VerifExit(w.p); return nil })
	if w.poisoned {
		return
	}
	w.pumpPendingDead()
	for _, q := range w.t.VerifPeers() {
		if q == w.p {
			w.violate("disconnect:peer-still-registered", "after the exit path the torrent still lists the peer", w.c.Case())
		}
	}
	for i, v := range w.t.VerifAvailable() {
		if v != 0 {
			w.violate("disconnect:available-not-retracted", fmt.Sprintf("available[%d]=%d after the only peer left", i, v), w.c.Case())
			break
		}
	}
	select {
	case <-w.t.Done:
		w.violate("disconnect:torrent-died", "the torrent is done after a peer left", w.c.Case())
	default:
	}
}

func (w *world) pumpPendingDead() {
	w.takePending()
}

func main() {
	c := vhlib.Init("c05")
	c.Rep.Rule = "real peer.handleMessage/handleEvent + tor.handleEvent vs Lean model: result class, emitted messages/events, peer+torrent snapshot, TotalAlloc<=2*model+64KiB; oracle: no panic, tor handler never errors, exit retracts everything, alloc<=128*wire+12*Nmax+const"
	debug.SetGCPercent(-1)
	config.MemoryMark = 1 << 30
	peer.VerifResetNumUnchoking()
	wd := time.AfterFunc(40*time.Minute, func() {
		fmt.Fprintln(os.Stderr, "c05: watchdog")
		os.Exit(3)
	})
	defer wd.Stop()
	if c.Replay != "" {
		replay(c, c.ReplayLines())
	} else {
		generate(c)
	}
	c.Close()
}

var _ = io.EOF
