// vh c17: torrent lifecycle.  Real torrents (tor.ReadTorrent + tor.AddTorrent) with peers
// over net.Pipe (remote ends held here), blocked readers and pending events; every
// exported blocking operation is called at every stop point of the event loop relative to
// the call, under a watchdog; afterwards the deletion must be complete.
//
// Line protocol (the outcome of a call is scheduler-dependent where Go's select has two
// ready cases, so the real outcome is part of the op line and the Lean model answers
// whether that outcome is one of the outcomes of its maximal runs for this stop point):
//
//	call op=<Op> stop=<Stop> peers=<n> pv=<variants> readers=<r> backlog=<b> got=<outcome>
//	after op=<Op> stop=<Stop> got=<outcome> peers=<n> closed=<k> readers=<r> rdead=<k>
//	      listed=<0|1> mem=<0|1> gor=<0|1> opconn=<none|closed|open>
//
//	connlife branch=<b> stop=<Stop> got=<outcome> closed=<0|1>
//	      (every connection handed to NewPeer is either run - and closed when the peer or
//	       the torrent goes - or closed at once; branch = the circumstances of the hand-over)
//
// impl.out always says "accept"; the model says "accept" or "reject <why>".
package main

import (
	"bytes"
	"context"
	"crypto/sha1"
	"errors"
	"fmt"
	"io"
	"net"
	"net/netip"
	"os"
	"runtime"
	"strconv"
	"strings"
	"sync"
	"sync/atomic"
	"time"

	"github.com/jech/storrent/alloc"
	"github.com/jech/storrent/config"
	"github.com/jech/storrent/hash"
	"github.com/jech/storrent/known"
	"github.com/jech/storrent/peer"
	"github.com/jech/storrent/protocol"
	"github.com/jech/storrent/tor"

	"verifharness/vhlib"
)

const watchdog = 3 * time.Second

var replyOps = []string{"GetStats", "GetAvailable", "DropPeer", "GetPeer", "GetPeers", "GetKnown",
	"GetKnowns", "GetConf", "SetConf", "Request"}
var fireOps = []string{"NewPeer", "AddKnown", "BadPeer", "Have", "Announce", "RequestNoWait", "WriterClose"}
var otherOps = []string{"Kill", "KillCtx", "ReaderRead", "PeerGetStatus", "PeerGetPex", "PeerGetStats",
	"PeerGetBitmap", "PeerGetHave"}
var stops = []string{"live", "before", "inqueue-goaway", "inqueue-cancel", "answering", "full-goaway", "full-complete"}

func allOps() []string {
	var o []string
	o = append(o, replyOps...)
	o = append(o, fireOps...)
	o = append(o, otherOps...)
	return o
}

// trackConn records Close of the storrent-side end.
type trackConn struct {
	net.Conn
	closed atomic.Bool
}

func (c *trackConn) Close() error {
	c.closed.Store(true)
	return c.Conn.Close()
}

type remote struct {
	local  *trackConn
	remote net.Conn
	eof    atomic.Bool
}

type env struct {
	t        *tor.Torrent
	cancel   context.CancelFunc
	remotes  []*remote
	opconn   *remote
	readers  []chan error
	wg       sync.WaitGroup // harness-owned goroutines
	gor0     int
	mem0     int64
	serial   int
	name     string
	peerList []*peer.Peer
}

var serial int

func bstr(s string) string { return fmt.Sprintf("%d:%s", len(s), s) }

// piece length of the torrents being generated (geometry): 16 KiB is the smallest legal one
var curPlen = 32768
var curNPieces = 4

func geomPlen(g string) int {
	switch g {
	case "p16k":
		return 16384
	case "p256k":
		return 262144
	case "p16k-many":
		return 16384
	}
	return 32768
}

func metainfo(n int) []byte {
	plen := curPlen
	npieces := curNPieces
	var pieces bytes.Buffer
	for i := 0; i < npieces; i++ {
		h := sha1.Sum([]byte(fmt.Sprintf("piece %d of %d", i, n)))
		if i == 0 {
			h = sha1.Sum(make([]byte, plen)) // piece 0 verifies when filled with zeros
		}
		pieces.Write(h[:])
	}
	info := "d6:lengthi" + strconv.Itoa(plen*npieces-100) + "e4:name" + bstr(fmt.Sprintf("c17-%d", n)) +
		"12:piece lengthi" + strconv.Itoa(plen) + "e6:pieces" + strconv.Itoa(pieces.Len()) + ":" + pieces.String() + "e"
	return []byte("d4:info" + info + "e")
}

func (e *env) newRemote(closedFirst bool) *remote {
	a, b := net.Pipe()
	r := &remote{local: &trackConn{Conn: a}, remote: b}
	if closedFirst {
		b.Close()
		r.eof.Store(true)
		return r
	}
	e.wg.Add(1)
	go func() {
		defer e.wg.Done()
		io.Copy(io.Discard, b)
		r.eof.Store(true)
	}()
	return r
}

func peerId(serial, i int) hash.Hash {
	h := sha1.Sum([]byte(fmt.Sprintf("peer %d %d", serial, i)))
	return hash.Hash(h[:])
}

func handshake(t *tor.Torrent, serial, i int, variant byte) protocol.HandshakeResult {
	ext := variant != '0'
	return protocol.HandshakeResult{Hash: t.Hash, Id: peerId(serial, i), Dht: ext, Fast: ext, Extended: ext}
}

func pollUntil(d time.Duration, f func() bool) bool {
	deadline := time.Now().Add(d)
	for {
		if f() {
			return true
		}
		if time.Now().After(deadline) {
			return false
		}
		time.Sleep(500 * time.Microsecond)
	}
}

// setup creates a torrent with the given peers (pv: one variant digit per peer: 0 plain,
// 1 dht+fast+extended, 2 like 1 with the remote end already closed), `readers` readers
// blocked in Read, and some piece data in memory.
func setup(pv string, readers int) (*env, string) {
	serial++
	e := &env{serial: serial}
	e.gor0 = runtime.NumGoroutine()
	e.mem0 = alloc.Bytes()
	t, err := tor.ReadTorrent("", bytes.NewReader(metainfo(serial)))
	if err != nil {
		return nil, "ReadTorrent: " + err.Error()
	}
	t.Log.SetOutput(io.Discard)
	ctx, cancel := context.WithCancel(context.Background())
	e.cancel = cancel
	t2, err := tor.AddTorrent(ctx, t)
	if err != nil || t2 != t {
		cancel()
		return nil, fmt.Sprintf("AddTorrent: %v", err)
	}
	e.t = t
	// data in memory: half of piece 0, all but one chunk of piece 3
	data := make([]byte, 16384)
	e.name = fmt.Sprintf("c17-%d", serial)
	if curPlen > 16384 {
		t.Pieces.AddData(0, 0, data, 1)
		t.Pieces.AddData(2, 16384, data, 1)
	} else {
		t.Pieces.AddData(2, 0, data, 1)
	}
	for i := 0; i < len(pv); i++ {
		r := e.newRemote(pv[i] == '2')
		e.remotes = append(e.remotes, r)
		addr := netip.AddrPortFrom(netip.AddrFrom4([4]byte{10, 0, byte(serial), byte(i + 1)}), uint16(6881+i))
		err := t.NewPeer("", r.local, addr, false, handshake(t, serial, i, pv[i]), nil)
		if err != nil {
			return e, "NewPeer: " + err.Error()
		}
	}
	// wait until the loop has taken the peers in, every live peer has finished the
	// prologue of Run (a reply from its loop), every peer whose remote end was closed has
	// left, and the queue is drained: from then on no stray event arrives
	live := 0
	for i := 0; i < len(pv); i++ {
		if pv[i] != '2' {
			live++
		}
	}
	res := make(chan string, 1)
	go func() {
		deadline := time.Now().Add(watchdog)
		for {
			ps, err := t.GetPeers()
			if err != nil {
				res <- "GetPeers: " + err.Error()
				return
			}
			if len(ps) == live {
				for _, p := range ps {
					p.GetStatus()
				}
				t.GetStats()
				e.peerList = ps
				res <- ""
				return
			}
			if time.Now().After(deadline) {
				res <- fmt.Sprintf("setup: %d peers listed, %d expected", len(ps), live)
				return
			}
			time.Sleep(time.Millisecond)
		}
	}()
	select {
	case r := <-res:
		if r != "" {
			return e, r
		}
	case <-time.After(2 * watchdog):
		return e, "setup: GetPeers does not return (event loop stuck after adding peers) " + stacks()
	}
	for i := 0; i < readers; i++ {
		rd := t.NewReader(context.Background(), int64(curPlen*(1+i%2)), 1000)
		ch := make(chan error, 1)
		e.readers = append(e.readers, ch)
		go func() {
			buf := make([]byte, 100)
			_, err := rd.Read(buf)
			ch <- err
			rd.Close()
		}()
	}
	if readers > 0 {
		// let the readers get past Request and park in Read's select
		time.Sleep(5 * time.Millisecond)
		pollUntil(time.Second, func() bool { return len(t.Event) == 0 })
	}
	return e, ""
}

func classify(err error) string {
	switch {
	case err == nil:
		return "ok"
	case errors.Is(err, tor.ErrTorrentDead):
		return "dead"
	case errors.Is(err, context.Canceled):
		return "ctx"
	case errors.Is(err, os.ErrNotExist):
		return "gone"
	}
	return "err:" + strings.ReplaceAll(err.Error(), " ", "_")
}

func nilness(isNil bool) string {
	if isNil {
		return "dead"
	}
	return "ok"
}

// invoke performs the operation synchronously and classifies its result.  `started` is
// closed just before the call proper.
func (e *env) invoke(op string, readerCtx context.Context) string {
	t := e.t
	var err error
	switch op {
	case "Kill":
		err = t.Kill(context.Background())
	case "KillCtx":
		ctx, cancel := context.WithCancel(context.Background())
		cancel()
		err = t.Kill(ctx)
	case "NewPeer":
		r := e.opconn
		addr := netip.AddrPortFrom(netip.AddrFrom4([4]byte{10, 1, byte(e.serial), 99}), 7000)
		err = t.NewPeer("", r.local, addr, false, handshake(t, e.serial, 99, '1'), nil)
	case "AddKnown":
		err = t.AddKnown(netip.AddrPortFrom(netip.AddrFrom4([4]byte{10, 2, 3, 4}), 6881), nil, "", known.Seen)
	case "BadPeer":
		err = t.BadPeer(12345, true)
	case "GetStats":
		_, err = t.GetStats()
	case "GetAvailable":
		_, err = t.GetAvailable()
	case "DropPeer":
		_, err = t.DropPeer()
	case "GetPeer":
		_, err = t.GetPeer(peerId(e.serial, 0))
	case "GetPeers":
		_, err = t.GetPeers()
	case "GetKnown":
		_, err = t.GetKnown(nil, netip.AddrPortFrom(netip.AddrFrom4([4]byte{10, 0, byte(e.serial), 1}), 6881))
	case "GetKnowns":
		_, err = t.GetKnowns()
	case "Have":
		err = t.Have(1, false)
	case "GetConf":
		_, err = t.GetConf()
	case "SetConf":
		err = t.SetConf(peer.TorConf{})
	case "Request":
		_, _, err = t.Request(1, 1, true, true)
	case "RequestNoWait":
		_, _, err = t.Request(1, 1, true, false)
	case "Announce":
		err = tor.Announce(t.Hash, false)
	case "WriterClose":
		w := tor.VerifNewWriter(t, 3, 0, 16384)
		w.Close()
		return "ret"
	case "ReaderRead":
		rd := t.NewReader(readerCtx, int64(curPlen), 1000)
		_, err = rd.Read(make([]byte, 10))
		if err == nil {
			err = errors.New("read returned data that was never downloaded")
		}
		// Close is part of the operation (it issues requests too)
		rd.Close()
	case "PeerGetStatus":
		return nilness(e.peerList[0].GetStatus() == nil)
	case "PeerGetPex":
		// GetPex returns nil for a peer without a listening port as well; ours have one
		return nilness(e.peerList[0].GetPex() == nil)
	case "PeerGetStats":
		return nilness(e.peerList[0].GetStats() == nil)
	case "PeerGetBitmap":
		if e.peerList[0].GetStatus() == nil {
			return "dead"
		}
		e.peerList[0].GetBitmap() // nil bitmap is a valid answer for a peer that sent none
		return "ok"
	case "PeerGetHave":
		if e.peerList[0].GetStatus() == nil {
			return "dead"
		}
		e.peerList[0].GetHave(0)
		return "ok"
	default:
		return "bad-op"
	}
	return classify(err)
}

func isPeerOp(op string) bool { return strings.HasPrefix(op, "Peer") }

// enqueues: does the operation put a command on t.Event (when the torrent is alive)?
func enqueues(op string) bool { return !isPeerOp(op) }

func pushBacklog(t *tor.Torrent, b int) {
	for i := 0; i < b; i++ {
		var ev peer.TorEvent
		switch i % 3 {
		case 0:
			ev = peer.TorHave{Index: uint32(i % 4), Have: false}
		case 1:
			ev = peer.TorAddKnown{Addr: netip.AddrPortFrom(netip.AddrFrom4([4]byte{10, 9, 9, byte(i)}), 6881), Kind: known.Seen}
		default:
			ev = peer.TorBadPeer{Peer: 777, Bad: false}
		}
		select {
		case t.Event <- ev:
		default:
		}
	}
}

type caseSpec struct {
	op, stop, pv     string
	readers, backlog int
	geom             string
}

func (cs caseSpec) String() string {
	pv := cs.pv
	if pv == "" {
		pv = "-"
	}
	g := cs.geom
	if g == "" {
		g = "p32k"
	}
	return fmt.Sprintf("op=%s stop=%s peers=%d pv=%s readers=%d backlog=%d geom=%s", cs.op, cs.stop, len(cs.pv), pv, cs.readers, cs.backlog, g)
}

func parseCase(line string) (caseSpec, bool) {
	var cs caseSpec
	ws := strings.Fields(line)
	if len(ws) < 2 || ws[0] != "call" {
		return cs, false
	}
	for _, w := range ws[1:] {
		kv := strings.SplitN(w, "=", 2)
		if len(kv) != 2 {
			continue
		}
		switch kv[0] {
		case "op":
			cs.op = kv[1]
		case "stop":
			cs.stop = kv[1]
		case "geom":
			cs.geom = kv[1]
		case "pv":
			if kv[1] != "-" {
				cs.pv = kv[1]
			}
		case "readers":
			cs.readers, _ = strconv.Atoi(kv[1])
		case "backlog":
			cs.backlog, _ = strconv.Atoi(kv[1])
		}
	}
	return cs, cs.op != "" && cs.stop != ""
}

// enough: a broken tree makes every case wait for its watchdogs; once this many genuine
// violations are recorded further cases add nothing but minutes
func enough(c *vhlib.Ctx) bool {
	n := 0
	for _, v := range c.Rep.Violations {
		if !strings.HasPrefix(v.Kind, "conn-open:NewPeer") {
			n++
		}
	}
	return n >= 24
}

func runCase(c *vhlib.Ctx, cs caseSpec) {
	if enough(c) {
		return
	}
	c.NewCase()
	if isPeerOp(cs.op) && (strings.Trim(cs.pv, "2") == "" ||
		(cs.stop != "live" && cs.stop != "before")) {
		return
	}
	curPlen = geomPlen(cs.geom)
	if cs.geom == "p16k-many" {
		curNPieces = 1200 // more pieces than a peer's overflow list is ever allowed to hold
	}
	defer func() { curPlen = 32768; curNPieces = 4 }()
	e, serr := setup(cs.pv, cs.readers)
	if serr != "" {
		line := "call " + cs.String() + " got=setup-failed"
		c.Emit(line, "accept")
		c.Violate("hang:setup:"+kindPv(cs.pv), serr, c.Case())
		c.Count("setup-failed", cs.String(), true)
		if e != nil && e.cancel != nil {
			e.cancel()
		}
		return
	}
	t := e.t
	listedVia(t, []string{e.name, t.Name}) // every lookup path is used while the torrent is alive
	if cs.op == "NewPeer" {
		e.opconn = e.newRemote(false)
	}
	blocker := make(chan *peer.TorStats)
	blocked := false
	block := func() bool {
		select {
		case t.Event <- peer.TorGetStats{Ch: blocker}:
		case <-time.After(watchdog):
			return false
		}
		blocked = true
		return pollUntil(watchdog, func() bool { return len(t.Event) == 0 })
	}
	release := func() {
		if blocked {
			select {
			case <-blocker:
			case <-time.After(watchdog):
			}
			blocked = false
		}
	}

	readerCtx, readerCancel := context.WithCancel(context.Background())
	defer readerCancel()
	result := make(chan string, 1)
	call := func() {
		go func() {
			var got string
			p := vhlib.Recover(func() { got = e.invoke(cs.op, readerCtx) })
			if p != "" {
				got = "panic:" + strings.ReplaceAll(p, " ", "_")
			}
			result <- got
		}()
	}
	wait := func() string {
		select {
		case g := <-result:
			return g
		case <-time.After(watchdog):
			return "hang"
		}
	}
	// waitEnqueued: the call has put its command behind `behind` queued events, or returned
	early := ""
	waitEnqueued := func(behind int) {
		pollUntil(watchdog/2, func() bool {
			if len(t.Event) > behind {
				return true
			}
			select {
			case g := <-result:
				early = g
				return true
			default:
				return false
			}
		})
	}
	got := ""
	switch cs.stop {
	case "live":
		pushBacklog(t, cs.backlog)
		call()
		if cs.op == "ReaderRead" {
			// nothing will ever deliver the piece: the reader's own context ends the wait
			time.Sleep(30 * time.Millisecond)
			readerCancel()
		}
		got = wait()
	case "never-ran-refused":
		// the object under test is a second *Torrent for the same hash, which AddTorrent
		// refuses (ErrExist): its event loop never runs
		dup, derr := tor.ReadTorrent("", bytes.NewReader(metainfo(e.serial)))
		if derr != nil || !bytes.Equal(dup.Hash, t.Hash) {
			got = "bad-stop"
			break
		}
		dup.Log.SetOutput(io.Discard)
		if _, aerr := tor.AddTorrent(context.Background(), dup); !errors.Is(aerr, os.ErrExist) {
			c.Violate("duplicate-accepted", fmt.Sprintf("AddTorrent of a running hash returned %v", aerr), c.Case())
		}
		e.t = dup
		call()
		got = wait()
		e.t = t
	case "expire-parked":
		// tor.Expire queries the torrent (GetAvailable) while its loop is parked for longer
		// than any caller-side patience, then the loop is released: it must answer whoever
		// is (still) waiting and go on serving
		if !block() {
			got = "hang"
			break
		}
		savedMark := config.MemoryMark
		config.MemoryMark = 1
		expired := make(chan struct{})
		go func() { tor.Expire(); close(expired) }()
		time.Sleep(1300 * time.Millisecond)
		release()
		select {
		case <-expired:
		case <-time.After(watchdog):
			c.Violate("hang:Expire:expire-parked", "tor.Expire did not return after the loop was released", c.Case())
		}
		config.MemoryMark = savedMark
		call()
		if cs.op == "ReaderRead" {
			time.Sleep(30 * time.Millisecond)
			readerCancel()
		}
		got = wait()
	case "before":
		pushBacklog(t, cs.backlog)
		kerr := make(chan error, 1)
		go func() { kerr <- t.Kill(context.Background()) }()
		select {
		case <-kerr:
		case <-time.After(watchdog):
			c.Violate("hang:Kill:live", "Kill did not return", c.Case())
		}
		if isPeerOp(cs.op) {
			// the peers' loops stop asynchronously after the torrent's
			pollUntil(watchdog, func() bool { return e.closedCount() == len(e.remotes) })
		}
		call()
		got = wait()
	case "inqueue-goaway":
		if !block() {
			got = "hang"
			break
		}
		pushBacklog(t, cs.backlog)
		t.Event <- peer.TorGoAway{}
		pushBacklog(t, cs.backlog)
		n := len(t.Event)
		call()
		waitEnqueued(n)
		release()
		if early != "" {
			got = early
		} else {
			got = wait()
		}
	case "inqueue-cancel":
		if !block() {
			got = "hang"
			break
		}
		pushBacklog(t, cs.backlog)
		n := len(t.Event)
		call()
		waitEnqueued(n)
		e.cancel()
		release()
		if early != "" {
			got = early
		} else {
			got = wait()
		}
	case "answering":
		if !block() {
			got = "hang"
			break
		}
		pushBacklog(t, cs.backlog)
		n := len(t.Event)
		call()
		waitEnqueued(n)
		time.Sleep(2 * time.Millisecond) // the receiver of the reply delays
		if cs.op == "ReaderRead" {
			go func() { time.Sleep(30 * time.Millisecond); readerCancel() }()
		}
		release()
		if early != "" {
			got = early
		} else {
			got = wait()
		}
	case "full-complete":
		// pieces complete while the queue is full and callers are parked on it: the loop is
		// blocked; a TorData{Complete} for a piece with the right hash and one for a piece
		// with a wrong hash head the queue, the rest of the 512 slots is filled; a caller
		// and the call under test park on the full queue; then the loop is released and
		// must work everything off (it must never wait for room in its own queue)
		if !block() {
			got = "hang"
			break
		}
		zeros := make([]byte, 16384)
		for idx := uint32(0); idx < 2; idx++ {
			for off := 0; off < curPlen; off += 16384 {
				t.Pieces.AddData(idx, uint32(off), zeros, 1)
			}
			t.Event <- peer.TorData{Peer: nil, Index: idx, Begin: 0, Length: uint32(curPlen), Complete: true}
		}
		pushBacklog(t, cs.backlog)
	fill2:
		for i := 0; ; i++ {
			select {
			case t.Event <- peer.TorBadPeer{Peer: 800000 + uint32(i), Bad: false}:
			default:
				break fill2
			}
		}
		go t.Have(3, false) // a caller parked on the full queue
		time.Sleep(time.Millisecond)
		call()
		time.Sleep(2 * time.Millisecond)
		if cs.op == "ReaderRead" {
			go func() { time.Sleep(40 * time.Millisecond); readerCancel() }()
		}
		release()
		got = wait()
	case "full-goaway":
		// delete the torrent while its queue is full and its peers hold undeliverable
		// events: the loop is blocked, a TorGoAway heads the queue, the rest of the 512
		// slots is filled; the remote ends then send Haves, which the peers cannot hand
		// over (peer.events non-empty); the call under test finds the queue full
		if !block() {
			got = "hang"
			break
		}
		t.Event <- peer.TorGoAway{}
		pushBacklog(t, cs.backlog)
	fill:
		for i := 0; ; i++ {
			select {
			case t.Event <- peer.TorBadPeer{Peer: 900000 + uint32(i), Bad: false}:
			default:
				break fill
			}
		}
		e.peersEmit()
		call()
		time.Sleep(2 * time.Millisecond)
		release()
		got = wait()
	default:
		got = "bad-stop"
	}
	release()
	line := "call " + cs.String() + " got=" + got
	c.Emit(line, "accept")
	c.Count(cs.op+"/"+cs.stop+"/"+got, cs.String(), true)

	// ---- oracle, part 1: the call returns, with a result or "torrent is dead"
	switch {
	case got == "hang":
		c.Violate("hang:"+cs.op+":"+cs.stop, "the call did not return within "+watchdog.String()+": "+line, c.Case())
	case strings.HasPrefix(got, "panic"):
		c.Violate("panic:"+cs.op+":"+cs.stop, line, c.Case())
	case got == "ok" || got == "ret" || got == "dead":
		if got == "dead" && (cs.stop == "live" || cs.stop == "answering" || cs.stop == "full-complete" || cs.stop == "expire-parked") && cs.op != "Kill" {
			c.Violate("dead-while-alive:"+cs.op+":"+cs.stop, "torrent-is-dead from a running torrent: "+line, c.Case())
		}
	case got == "ctx" && (cs.op == "KillCtx" || cs.op == "ReaderRead"):
	case got == "gone" && cs.op == "Announce" && cs.stop == "before":
	default:
		c.Violate("result:"+cs.op+":"+cs.stop, "neither a result nor torrent-is-dead: "+line, c.Case())
	}

	// ---- deletion
	select {
	case <-t.Deleted:
	default:
		kerr := make(chan error, 1)
		go func() { kerr <- t.Kill(context.Background()) }()
		select {
		case <-kerr:
		case <-time.After(watchdog):
			c.Violate("hang:Kill:cleanup:"+cs.op+":"+cs.stop, "final Kill did not return", c.Case())
		}
	}
	deleted := false
	select {
	case <-t.Deleted:
		deleted = true
	case <-time.After(watchdog):
	}
	// immediately after Deleted is closed: Done closed, unlisted, memory released
	via := listedVia(t, []string{e.name, t.Name})
	listed := len(via) > 0
	doneClosed := false
	select {
	case <-t.Done:
		doneClosed = true
	default:
	}
	mem := alloc.Bytes() == e.mem0
	// asynchronous part: peers, readers
	pollUntil(2*time.Second, func() bool { return e.closedCount() == len(e.remotes) && e.eofCount() == len(e.remotes) })
	closed := e.closedCount()
	if e.eofCount() < closed {
		closed = e.eofCount()
	}
	rdead := 0
	for _, ch := range e.readers {
		select {
		case err := <-ch:
			if errors.Is(err, tor.ErrTorrentDead) {
				rdead++
			} else {
				c.Violate("reader-result:"+cs.stop, fmt.Sprintf("a blocked reader returned %v instead of torrent-is-dead", err), c.Case())
			}
		case <-time.After(2 * time.Second):
		}
	}
	getters, stuckGetter := e.gettersReturn()
	opconn := "none"
	if e.opconn != nil {
		if pollUntil(300*time.Millisecond, func() bool { return e.opconn.local.closed.Load() }) {
			opconn = "closed"
		} else {
			opconn = "open"
		}
	}
	// harness cleanup, then the goroutine count
	readerCancel()
	e.cancel()
	for _, r := range e.remotes {
		r.remote.Close()
	}
	if e.opconn != nil {
		e.opconn.remote.Close()
		e.opconn.local.Conn.Close()
	}
	wgDone := make(chan struct{})
	go func() { e.wg.Wait(); close(wgDone) }()
	select {
	case <-wgDone:
	case <-time.After(2 * time.Second):
	}
	gor := pollUntil(2*time.Second, func() bool { return runtime.NumGoroutine() <= e.gor0 })
	if got == "hang" {
		gor = true // the hung caller is already reported
	}
	b := func(x bool) string {
		if x {
			return "1"
		}
		return "0"
	}
	aline := fmt.Sprintf("after op=%s stop=%s got=%s peers=%d closed=%d readers=%d rdead=%d listed=%s done=%s mem=%s gor=%s getters=%s opconn=%s",
		cs.op, cs.stop, got, len(e.remotes), closed, len(e.readers), rdead, b(listed), b(doneClosed), b(mem), b(gor), b(getters), opconn)
	c.Emit(aline, "accept")
	c.Count("after/"+cs.stop+"/opconn="+opconn, aline, false)
	// ---- oracle, part 2: deletion is complete
	ctxs := cs.op + ":" + cs.stop
	if !deleted {
		c.Violate("deletion-stuck:"+ctxs, "Deleted was not closed within the watchdog", c.Case())
	}
	if listed {
		if tor.Get(t.Hash) != nil {
			c.Violate("still-listed:"+ctxs, "tor.Get(hash) != nil after Deleted was closed", c.Case())
		}
		for _, api := range via {
			if api != "Get" {
				c.Violate("listed-after-delete:"+api, "after the deletion the torrent is still found through "+api, c.Case())
			}
		}
	}
	if !doneClosed {
		c.Violate("done-open:"+ctxs, "Done not closed after Deleted was closed", c.Case())
	}
	if closed != len(e.remotes) {
		c.Violate("conn-open:peer:"+kindPv(cs.pv), fmt.Sprintf("%d of %d peer connections closed after deletion (%s)", closed, len(e.remotes), cs), c.Case())
	}
	if opconn == "open" {
		c.Violate("conn-open:NewPeer:"+cs.stop+":"+got, "NewPeer returned "+got+" but the connection it was given is never closed", c.Case())
	}
	if !getters {
		c.Violate("hang:peer-getter:"+stuckGetter+":"+cs.stop, "after the deletion Peer."+stuckGetter+" on a peer of the torrent did not return within "+watchdog.String()+" ("+cs.String()+")", c.Case())
	}
	if rdead != len(e.readers) {
		c.Violate("reader-not-failed:"+ctxs, fmt.Sprintf("%d of %d blocked readers failed with torrent-is-dead", rdead, len(e.readers)), c.Case())
	}
	if !mem {
		c.Violate("memory-not-released:"+ctxs, fmt.Sprintf("alloc.Bytes()=%d baseline %d", alloc.Bytes(), e.mem0), c.Case())
	}
	if !gor {
		c.Violate("goroutine-leak:"+kindPv(cs.pv)+":"+cs.op, fmt.Sprintf("goroutines %d baseline %d (%s)\n%s", runtime.NumGoroutine(), e.gor0, cs, stacks()), c.Case())
	}
}

// peersEmit makes every live peer produce events for the torrent: the remote end sends a
// Have for every piece; returns once each peer has processed them.
func (e *env) peersEmit() {
	var msg []byte
	n := curNPieces
	if n > 1100 {
		n = 1100
	}
	for i := 0; i < n; i++ {
		msg = append(msg, 0, 0, 0, 5, 4, 0, 0, byte(i>>8), byte(i))
	}
	last := uint32(n - 1)
	live := 0
	for _, r := range e.remotes {
		if !r.eof.Load() {
			r.remote.SetWriteDeadline(time.Now().Add(2 * time.Second))
			r.remote.Write(msg)
			live++
		}
	}
	if live == 0 {
		return
	}
	done := make(chan struct{})
	go func() {
		defer close(done)
		for _, p := range e.peerList {
			pollUntil(time.Second, func() bool { return p.GetHave(last) })
		}
	}()
	select {
	case <-done:
	case <-time.After(watchdog):
	}
}

// gettersReturn: every getter of every peer that was connected returns within the watchdog
func (e *env) gettersReturn() (bool, string) {
	names := []string{"GetStatus", "GetStats", "GetBitmap", "GetHave", "GetPex"}
	for _, p := range e.peerList {
		for _, name := range names {
			done := make(chan struct{})
			go func() {
				defer close(done)
				switch name {
				case "GetStatus":
					p.GetStatus()
				case "GetStats":
					p.GetStats()
				case "GetBitmap":
					p.GetBitmap()
				case "GetHave":
					p.GetHave(0)
				case "GetPex":
					p.GetPex()
				}
			}()
			select {
			case <-done:
			case <-time.After(watchdog):
				return false, name
			}
		}
	}
	return true, ""
}

// ---------------------------------------------------------------- connection lifecycle
var connBranches = []string{"normal", "duplicate-id", "own-id", "simultaneous", "too-many", "remote-closed",
	"local-closed", "no-extensions", "after-goaway", "dying", "dead"}

// handled: in these branches the event loop dequeues the TorAddPeer (it keeps running)
func branchStop(b string) string {
	switch b {
	case "after-goaway":
		return "inqueue-goaway"
	case "dying":
		return "inqueue-cancel"
	case "dead":
		return "before"
	}
	return "live"
}

// runConnCase hands one more connection to a torrent that has a running peer, in the
// circumstances named by branch, then deletes the torrent: the connection's Close must
// have been called (by NewPeer itself, by the peer's exit path, or by whoever refuses it).
func runConnCase(c *vhlib.Ctx, branch string) {
	if enough(c) {
		return
	}
	c.NewCase()
	pv := "1"
	if branch == "too-many" {
		pv = strings.Repeat("0", 50) // config.MaxPeersPerTorrent
	}
	e, serr := setup(pv, 0)
	stop := branchStop(branch)
	if serr != "" {
		c.Emit("connlife branch="+branch+" stop="+stop+" got=setup-failed closed=0", "accept")
		c.Violate("hang:setup:connlife:"+branch, serr, c.Case())
		if e != nil && e.cancel != nil {
			e.cancel()
		}
		return
	}
	t := e.t
	id := peerId(e.serial, 77)
	switch branch {
	case "duplicate-id", "simultaneous":
		id = peerId(e.serial, 0) // the id of the peer that is already connected
	case "own-id":
		id = t.MyId
	}
	hs := protocol.HandshakeResult{Hash: t.Hash, Id: id, Dht: true, Fast: true, Extended: true}
	if branch == "no-extensions" {
		hs = protocol.HandshakeResult{Hash: t.Hash, Id: id}
	}
	var extra []*remote
	hand := func() string {
		r := e.newRemote(branch == "remote-closed")
		if branch == "local-closed" {
			r.local.Conn.Close() // closed under our feet; Close must still be called by the owner
		}
		extra = append(extra, r)
		addr := netip.AddrPortFrom(netip.AddrFrom4([4]byte{10, 3, byte(e.serial), byte(len(extra))}), 7100)
		res := make(chan error, 1)
		go func() { res <- t.NewPeer("", r.local, addr, branch == "own-id", hs, nil) }()
		select {
		case err := <-res:
			return classify(err)
		case <-time.After(watchdog):
			return "hang"
		}
	}
	blocker := make(chan *peer.TorStats)
	block := func() bool {
		select {
		case t.Event <- peer.TorGetStats{Ch: blocker}:
		case <-time.After(watchdog):
			return false
		}
		return pollUntil(watchdog, func() bool { return len(t.Event) == 0 })
	}
	release := func() {
		select {
		case <-blocker:
		case <-time.After(watchdog):
		}
	}
	barrier := func() {
		done := make(chan struct{})
		go func() { t.GetStats(); close(done) }()
		select {
		case <-done:
		case <-time.After(watchdog):
		}
	}
	got := ""
	switch branch {
	case "after-goaway":
		if block() {
			t.Event <- peer.TorGoAway{}
			got = hand()
			release()
		} else {
			got = "hang"
		}
	case "dying":
		if block() {
			got = hand()
			e.cancel()
			release()
		} else {
			got = "hang"
		}
	case "dead":
		t.Kill(context.Background())
		got = hand()
	case "simultaneous":
		// two connections with the same (already known) id queued before the loop sees either
		if block() {
			got = hand()
			g2 := hand()
			if g2 != got {
				got = got + "+" + g2
			}
			release()
			barrier()
		} else {
			got = "hang"
		}
	default:
		got = hand()
		barrier()
	}
	// delete the torrent; every connection it was handed must end up closed
	select {
	case <-t.Deleted:
	default:
		kerr := make(chan error, 1)
		go func() { kerr <- t.Kill(context.Background()) }()
		select {
		case <-kerr:
		case <-time.After(watchdog):
		}
	}
	select {
	case <-t.Deleted:
	case <-time.After(watchdog):
		c.Violate("deletion-stuck:connlife:"+branch, "Deleted was not closed within the watchdog", c.Case())
	}
	allClosed := pollUntil(2*time.Second, func() bool {
		for _, r := range extra {
			if !r.local.closed.Load() {
				return false
			}
		}
		return e.closedCount() == len(e.remotes)
	})
	extraClosed := true
	for _, r := range extra {
		if !r.local.closed.Load() {
			extraClosed = false
		}
	}
	b := "0"
	if extraClosed {
		b = "1"
	}
	c.Emit(fmt.Sprintf("connlife branch=%s stop=%s got=%s closed=%s", branch, stop, got, b), "accept")
	c.Count("connlife/"+branch+"/"+got+"/closed="+b, branch, true)
	if got == "hang" {
		c.Violate("hang:NewPeer:connlife:"+branch, "NewPeer did not return", c.Case())
	}
	if !extraClosed {
		if stop == "live" {
			// the loop was running and has dequeued the TorAddPeer: run or refused, the
			// connection is the torrent's to close
			c.Violate("conn-leak:TorAddPeer:"+branch, "a connection handed to NewPeer ("+branch+", NewPeer returned "+got+") was neither run nor closed: Close was never called on it, even after the torrent was deleted", c.Case())
		} else {
			c.Violate("conn-open:NewPeer:"+stop+":"+got, "NewPeer returned "+got+" ("+branch+") but the connection it was given is never closed", c.Case())
		}
	}
	if !allClosed && extraClosed {
		c.Violate("conn-open:peer:connlife:"+branch, "a peer connection was not closed after deletion", c.Case())
	}
	// cleanup
	e.cancel()
	for _, r := range append(e.remotes, extra...) {
		r.remote.Close()
		r.local.Conn.Close()
	}
	wgDone := make(chan struct{})
	go func() { e.wg.Wait(); close(wgDone) }()
	select {
	case <-wgDone:
	case <-time.After(2 * time.Second):
	}
	if !pollUntil(2*time.Second, func() bool { return runtime.NumGoroutine() <= e.gor0 }) && extraClosed && got != "hang" {
		c.Violate("goroutine-leak:connlife:"+branch, fmt.Sprintf("goroutines %d baseline %d\n%s", runtime.NumGoroutine(), e.gor0, stacks()), c.Case())
	}
}

// listedVia: the lookup paths through which the torrent can still be found, probing every
// name it has ever had
func listedVia(t *tor.Torrent, names []string) []string {
	var via []string
	if tor.Get(t.Hash) == t {
		via = append(via, "Get")
	}
	seen := map[string]bool{}
	for _, n := range names {
		if n == "" || seen[n] {
			continue
		}
		seen[n] = true
		if tor.GetByName(n) == t {
			via = append(via, "GetByName")
			break
		}
	}
	found := false
	tor.Range(func(h hash.Hash, x *tor.Torrent) bool {
		if x == t {
			found = true
		}
		return true
	})
	if found {
		via = append(via, "Range")
	}
	for _, all := range []bool{true, false} {
		for _, hp := range tor.VerifInfoHashes(all) {
			if hp.First.Equal(t.Hash) {
				via = append(via, fmt.Sprintf("InfoHashes(%v)", all))
			}
		}
	}
	return via
}

// runListCase: a torrent that changes its name during its life (a magnet link whose dn
// differs from the name in the metadata, which arrives through the real TorMetaData path) is
// looked up through every API under every name before the deletion (so that any derived index
// is populated) and must be found through none of them afterwards.
func runListCase(c *vhlib.Ctx, kind string, how string) {
	if enough(c) {
		return
	}
	c.NewCase()
	serial++
	infoName := fmt.Sprintf("c17-list-%d", serial)
	name8 := ""
	if kind == "magnet-rename-utf8" || kind == "plain-utf8" {
		name8 = infoName + "-utf8"
	}
	plen := 32768
	var pieces bytes.Buffer
	for i := 0; i < 2; i++ {
		h := sha1.Sum([]byte(fmt.Sprintf("piece %d of %s", i, infoName)))
		pieces.Write(h[:])
	}
	info := "d6:lengthi" + strconv.Itoa(plen*2) + "e4:name" + bstr(infoName)
	if name8 != "" {
		info += "10:name.utf-8" + bstr(name8)
	}
	info += "12:piece lengthi" + strconv.Itoa(plen) + "e6:pieces" + strconv.Itoa(pieces.Len()) + ":" + pieces.String() + "e"
	hsh := sha1.Sum([]byte(info))
	dn := ""
	var t *tor.Torrent
	var err error
	switch kind {
	case "plain", "plain-utf8":
		t, err = tor.ReadTorrent("", bytes.NewReader([]byte("d4:info"+info+"e")))
	case "magnet-same":
		dn = infoName
		t, err = tor.New("", hash.Hash(hsh[:]), dn, nil, 0, nil, nil)
	default: // magnet-rename, magnet-rename-utf8
		dn = "dn of " + infoName
		t, err = tor.New("", hash.Hash(hsh[:]), dn, nil, 0, nil, nil)
	}
	emit := func(listed string) {
		c.Emit(fmt.Sprintf("listing kind=%s how=%s listed=%s", kind, how, listed), "accept")
	}
	if err != nil {
		emit("setup-failed")
		c.Violate("setup:listing:"+kind, err.Error(), c.Case())
		return
	}
	t.Log.SetOutput(io.Discard)
	ctx, cancel := context.WithCancel(context.Background())
	defer cancel()
	if _, err := tor.AddTorrent(ctx, t); err != nil {
		emit("setup-failed")
		c.Violate("setup:listing:"+kind, err.Error(), c.Case())
		return
	}
	names := []string{dn, t.Name}
	before := listedVia(t, names) // populates whatever caches there are
	// a running peer delivers the metadata
	a, b := net.Pipe()
	go io.Copy(io.Discard, b)
	pid := sha1.Sum([]byte("peer of " + infoName))
	addr := netip.AddrPortFrom(netip.AddrFrom4([4]byte{10, 4, byte(serial), 1}), 6881)
	t.NewPeer("", a, addr, false, protocol.HandshakeResult{Hash: t.Hash, Id: hash.Hash(pid[:])}, nil)
	ps, _ := t.GetPeers()
	if !t.InfoComplete() && len(ps) > 0 {
		t.Event <- peer.TorPeerExtended{Peer: ps[0], MetadataSize: uint32(len(info))}
		t.Event <- peer.TorMetaData{Peer: ps[0], Size: uint32(len(info)), Index: 0, Data: []byte(info)}
		t.GetStats() // barrier
	}
	complete := t.InfoComplete()
	names = append(names, t.Name, infoName, name8)
	mid := listedVia(t, names)
	// deletion
	if how == "cancel" {
		cancel()
	} else {
		kerr := make(chan error, 1)
		go func() { kerr <- t.Kill(context.Background()) }()
		select {
		case <-kerr:
		case <-time.After(watchdog):
		}
	}
	select {
	case <-t.Deleted:
	case <-time.After(watchdog):
		c.Violate("deletion-stuck:listing:"+kind, "Deleted was not closed", c.Case())
	}
	after := listedVia(t, names)
	b.Close()
	a.Close()
	listed := "-"
	if len(after) > 0 {
		listed = strings.Join(after, ",")
	}
	emit(listed)
	c.Count("listing/"+kind+"/"+how, fmt.Sprintf("names=%q complete=%v", names, complete), true)
	if len(before) < 3 || len(mid) < 3 || !complete {
		c.Note(fmt.Sprintf("listing %s: before=%v mid=%v complete=%v", kind, before, mid, complete))
	}
	for _, api := range after {
		c.Violate("listed-after-delete:"+api, fmt.Sprintf("after the deletion (Deleted closed) the torrent is still found through %s (names it has had: %q)", api, names), c.Case())
	}
}

func kindPv(pv string) string {
	if strings.Contains(pv, "2") {
		return "remote-closed-early"
	}
	return "normal"
}

func stacks() string {
	buf := make([]byte, 1<<16)
	n := runtime.Stack(buf, true)
	s := string(buf[:n])
	var keep []string
	for _, g := range strings.Split(s, "\n\n") {
		if strings.Contains(g, "storrent/") {
			ls := strings.Split(g, "\n")
			if len(ls) > 7 {
				ls = ls[:7]
			}
			keep = append(keep, strings.Join(ls, " | "))
		}
	}
	if len(keep) > 4 {
		keep = keep[:4]
	}
	return strings.ReplaceAll(strings.Join(keep, " || "), "\t", " ")
}

func (e *env) closedCount() int {
	n := 0
	for _, r := range e.remotes {
		if r.local.closed.Load() {
			n++
		}
	}
	return n
}

func (e *env) eofCount() int {
	n := 0
	for _, r := range e.remotes {
		if r.eof.Load() {
			n++
		}
	}
	return n
}

func main() {
	c := vhlib.Init("c17")
	if f, err := os.OpenFile(os.DevNull, os.O_WRONLY, 0); err == nil {
		os.Stderr = f // peers log to the os.Stderr captured by log.New
	}
	c.Rep.Rule = "each call returns within 3 s with a result or ErrTorrentDead (a result when the loop keeps running); after Deleted is closed: unlisted, Done closed, alloc.Bytes() at baseline; within 2 s all peer connections closed (local Close + remote EOF), blocked readers got ErrTorrentDead, goroutine count back to baseline"
	// warm-up: start the runtime's lazily created goroutines before any baseline
	if e, serr := setup("1", 0); serr == "" {
		e.t.Kill(context.Background())
		pollUntil(time.Second, func() bool { return e.closedCount() == 1 })
		for _, r := range e.remotes {
			r.remote.Close()
		}
		e.wg.Wait()
		time.Sleep(20 * time.Millisecond)
	}
	if c.Replay != "" {
		for _, l := range c.ReplayLines() {
			if cs, ok := parseCase(l); ok {
				runCase(c, cs)
			} else if strings.HasPrefix(l, "listing ") {
				kind, how := "", "kill"
				for _, w := range strings.Fields(l) {
					if strings.HasPrefix(w, "kind=") {
						kind = strings.TrimPrefix(w, "kind=")
					}
					if strings.HasPrefix(w, "how=") {
						how = strings.TrimPrefix(w, "how=")
					}
				}
				runListCase(c, kind, how)
			} else if strings.HasPrefix(l, "connlife ") {
				for _, w := range strings.Fields(l) {
					if strings.HasPrefix(w, "branch=") {
						runConnCase(c, strings.TrimPrefix(w, "branch="))
					}
				}
			} else if !strings.HasPrefix(l, "after") {
				c.Emit(l, "bad-op")
			}
		}
		c.Close()
		return
	}
	// exhaustive sweep: every operation x every stop point x {0, 2 peers}
	pvs := []string{"", "01"}
	for _, op := range allOps() {
		for _, stop := range stops {
			for i, pv := range pvs {
				geom := "p32k"
				if stop == "full-complete" || stop == "full-goaway" {
					// the smallest legal piece (one chunk) and a large one
					geom = []string{"p16k", "p256k"}[i]
				}
				runCase(c, caseSpec{op: op, stop: stop, pv: pv, readers: i, backlog: 0, geom: geom})
			}
		}
	}
	// torrents whose loop never ran: every operation on a refused duplicate
	for _, op := range allOps() {
		if op == "Announce" || isPeerOp(op) {
			continue // Announce goes by hash and reaches the running torrent
		}
		runCase(c, caseSpec{op: op, stop: "never-ran-refused", pv: "", readers: 0})
	}
	// package-level callers into a torrent whose loop is parked (tor.Expire)
	for _, op := range []string{"GetAvailable", "Have", "Kill"} {
		runCase(c, caseSpec{op: op, stop: "expire-parked", pv: "1", readers: 0})
	}
	// a peer fed more event-producing messages than any bound on its overflow list, the
	// torrent's queue full and not drained, then the torrent is deleted
	for _, op := range []string{"GetStats", "Have"} {
		runCase(c, caseSpec{op: op, stop: "full-goaway", pv: "1", readers: 0, geom: "p16k-many"})
	}
	// every lookup path, every name the torrent has had, before and after the deletion
	for _, kind := range []string{"plain", "plain-utf8", "magnet-same", "magnet-rename", "magnet-rename-utf8"} {
		for _, how := range []string{"kill", "cancel"} {
			runListCase(c, kind, how)
		}
	}
	// the life of every connection handed to the torrent, per hand-over circumstance
	reps := 2
	if c.Tier == "thorough" {
		reps = 8
	}
	for r := 0; r < reps; r++ {
		for _, b := range connBranches {
			if b == "too-many" && r > 0 {
				continue
			}
			runConnCase(c, b)
		}
	}
	// random part: peers 0-3 of all variants (including remotes that close at once),
	// readers, backlogs
	n := c.N
	ops := allOps()
	variants := []string{"", "0", "1", "2", "12", "21", "012", "221", "111", "202"}
	for i := 0; i < n; i++ {
		cs := caseSpec{op: ops[c.R.Intn(len(ops))], stop: stops[c.R.Intn(len(stops))],
			pv: variants[c.R.Intn(len(variants))], readers: c.R.Intn(3), backlog: c.R.PickInt(0, 0, 1, 3, 17),
			geom: []string{"p32k", "p16k", "p256k"}[c.R.Intn(3)]}
		runCase(c, cs)
	}
	c.Close()
}
