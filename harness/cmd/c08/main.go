// vh c08: encryption policy and the encrypted stream.
//
//   - pol: the real handshakes for ALL 64 x 64 option pairs x {plain, MSE} (exhaustive in
//     every tier) through a buffered duplex with a wire tap; observed mode on both ends
//     (*crypto.Conn or not), payload exchanged both ways, the tapped payload compared with
//     the plaintext and decrypted with keys derived independently from the MSE
//     specification (hsnet/mse.go).  The model's policy function must predict each cell.
//   - sel / chk: a scripted MSE peer (independent implementation) offering every
//     crypto_provide / answering every crypto_select against every option set.
//   - cw / cr: crypto.Conn.Write / Read size patterns (0, 1, 32767, 32768, 32769, 100000, …)
//     with short writes and errors injected in the underlying connection at any position.
//   - sha1 / rc4 / dh: the model's own primitives against the Go standard library.
//
// Oracle (restates C08): both ends agree on the mode; rc4 only if both allow encryption,
// plaintext only if neither forces it, and then the wire carries exactly the plaintext;
// under rc4 the wire decrypts to the plaintext with the specification's keys and is not the
// plaintext; the receiver obtains exactly what the sender wrote; after a failed or short
// underlying write the wire holds exactly the encryption of a prefix and every later Write
// fails with the same error.
package main

import (
	"bytes"
	crand "crypto/rand"
	"crypto/rc4"
	"crypto/sha1"
	"encoding/binary"
	"errors"
	"fmt"
	"io"
	"math/big"
	"net"
	"os"
	"strconv"
	"strings"
	"time"

	"github.com/jech/storrent/crypto"
	"github.com/jech/storrent/hash"
	"github.com/jech/storrent/protocol"

	"verifharness/hsnet"
	"verifharness/vhlib"
)

func optsOf(b int) *crypto.Options {
	return &crypto.Options{
		AllowCryptoHandshake:  b&1 != 0,
		PreferCryptoHandshake: b&2 != 0,
		ForceCryptoHandshake:  b&4 != 0,
		AllowEncryption:       b&8 != 0,
		PreferEncryption:      b&16 != 0,
		ForceEncryption:       b&32 != 0,
	}
}

func optStr(b int) string {
	names := []string{"AllowCH", "PreferCH", "ForceCH", "AllowE", "PreferE", "ForceE"}
	var s []string
	for i, n := range names {
		if b&(1<<i) != 0 {
			s = append(s, n)
		}
	}
	if len(s) == 0 {
		return "none"
	}
	return strings.Join(s, "+")
}

var (
	ih  = hash.Hash(bytes.Repeat([]byte{0xa7}, 20))
	idc = hash.Hash(bytes.Repeat([]byte{0x1c}, 20))
	ids = hash.Hash(bytes.Repeat([]byte{0x25}, 20))
)

func pattern(seed, from, n int) []byte {
	b := make([]byte, n)
	for i := range b {
		b[i] = byte(((from+i)*7 + seed) % 256)
	}
	return b
}

type side struct {
	ok        bool
	err       error
	rc4       bool
	conn      net.Conn
	delivered []byte
	pan       string
}

func (s side) mode() string {
	switch {
	case !s.ok:
		return "fail"
	case s.rc4:
		return "rc4"
	}
	return "plain"
}

type live struct {
	c, s  side
	d     *hsnet.Duplex
	rnd   [][]byte
	hung  bool
	tapCS []byte
	tapSC []byte
}

// handshake runs the real client against the real server; after success each side sends
// `payC` / `payS` and reads to EOF (exchange = false leaves the conns open for the caller).
func handshake(mse bool, oc, osv int, payC, payS []byte, exchange bool, seed uint64) *live {
	dr := hsnet.NewDetRand(seed)
	crand.Reader = dr
	lv := &live{d: hsnet.NewDuplex(hsnet.Sched{}, hsnet.Sched{})}
	d := lv.d
	done := make(chan int, 2)
	go func() {
		defer func() { done <- 0 }()
		var init []byte
		lv.c.pan = vhlib.Recover(func() {
			lv.c.conn, _, init, lv.c.err = protocol.ClientHandshake(d.A, mse, ih, idc, optsOf(oc))
		})
		if lv.c.pan != "" || lv.c.err != nil {
			d.A.Close()
			return
		}
		lv.c.ok = true
		_, lv.c.rc4 = lv.c.conn.(*crypto.Conn)
		if !exchange {
			lv.c.delivered = init
			return
		}
		lv.c.conn.Write(payC)
		d.A.CloseWrite()
		rest, _ := io.ReadAll(lv.c.conn)
		lv.c.delivered = append(append([]byte(nil), init...), rest...)
	}()
	go func() {
		defer func() { done <- 1 }()
		var init []byte
		lv.s.pan = vhlib.Recover(func() {
			lv.s.conn, _, init, lv.s.err = protocol.ServerHandshake(d.B, []hash.HashPair{{First: ih, Second: ids}}, optsOf(osv))
		})
		if lv.s.pan != "" || lv.s.err != nil {
			d.B.Close()
			return
		}
		lv.s.ok = true
		_, lv.s.rc4 = lv.s.conn.(*crypto.Conn)
		if !exchange {
			lv.s.delivered = init
			return
		}
		lv.s.conn.Write(payS)
		d.B.CloseWrite()
		rest, _ := io.ReadAll(lv.s.conn)
		lv.s.delivered = append(append([]byte(nil), init...), rest...)
	}()
	timeout := time.After(20 * time.Second)
	for i := 0; i < 2; i++ {
		select {
		case <-done:
		case <-timeout:
			lv.hung = true
			d.A.Close()
			d.B.Close()
			time.Sleep(100 * time.Millisecond)
			return lv
		}
	}
	lv.rnd = dr.Log
	lv.tapCS, lv.tapSC = d.TapAB(), d.TapBA()
	return lv
}

// secrets of a live MSE run from the crypto/rand log (causal order: client x, lbuf, [pad],
// server x, …) -> the shared secret S, computed with the independent implementation
func sharedOf(lv *live) []byte {
	log := lv.rnd
	if len(log) < 3 || len(log[0]) != 20 || len(lv.tapSC) < 96 {
		return nil
	}
	return hsnet.MseShared(log[0], lv.tapSC[:96])
}

// ---------------------------------------------------------------- pol

func polCase(c *vhlib.Ctx, mse bool, oc, osv int) {
	kind := "plain"
	if mse {
		kind = "mse"
	}
	payC := pattern(oc*64+osv, 0, 61)
	payS := pattern(osv*64+oc+1000, 0, 83)
	op := fmt.Sprintf("pol %s %d %d", kind, oc, osv)
	lv := handshake(mse, oc, osv, payC, payS, true, uint64(oc*64+osv)*2+1)
	c.NewCase()
	if lv.hung {
		c.Emit(op, "hang")
		c.Violate("hang:pol:"+kind, op, []string{op})
		return
	}
	if lv.c.pan != "" || lv.s.pan != "" {
		c.Emit(op, "panic")
		c.Violate("panic:pol:"+kind, lv.c.pan+"/"+lv.s.pan, []string{op})
		return
	}
	mc, ms := lv.c.mode(), lv.s.mode()
	c.Emit(op, fmt.Sprintf("c=%s s=%s", mc, ms))
	c.Count("pol/"+kind+"/"+mc+"-"+ms, op, mc != "fail")
	cell := fmt.Sprintf("%s:client=%s:server=%s", kind, optStr(oc), optStr(osv))
	o1, o2 := optsOf(oc), optsOf(osv)
	// both ends agree
	if mc != ms {
		c.Violate("policy:disagree:"+cell, fmt.Sprintf("client %s (%v) server %s (%v)", mc, lv.c.err, ms, lv.s.err), []string{op})
		return
	}
	if !mse && o2.ForceCryptoHandshake && ms != "fail" {
		c.Violate("policy:plain-handshake-accepted-despite-ForceCryptoHandshake:"+cell, "server accepted a plaintext handshake", []string{op})
	}
	if mc == "fail" {
		return
	}
	// only in a mode both policies permit
	if mc == "rc4" && !(o1.AllowEncryption && o2.AllowEncryption) {
		c.Violate("policy:rc4-although-forbidden:"+cell, "an end with AllowEncryption=false runs RC4", []string{op})
	}
	if mc == "plain" && (o1.ForceEncryption || o2.ForceEncryption) {
		who := "client"
		if o2.ForceEncryption {
			who = "server"
			if o1.ForceEncryption {
				who = "both"
			}
		}
		c.Violate("policy:unencrypted-despite-ForceEncryption:"+kind+":"+who+":"+cell,
			"connection established without payload encryption although ForceEncryption is set on "+who, []string{op})
	}
	// transparency
	if !bytes.Equal(lv.c.delivered, payS) || !bytes.Equal(lv.s.delivered, payC) {
		c.Violate("stream:payload-corrupted:"+kind+":"+mc, fmt.Sprintf("client got %x want %x ; server got %x want %x", lv.c.delivered, payS, lv.s.delivered, payC), []string{op})
	}
	// the wire
	tailC := lv.tapCS[len(lv.tapCS)-len(payC):]
	tailS := lv.tapSC[len(lv.tapSC)-len(payS):]
	if mc == "plain" {
		if !bytes.Equal(tailC, payC) || !bytes.Equal(tailS, payS) {
			c.Violate("wire:not-plaintext-in-plain-mode:"+cell, "payload on the wire differs from the plaintext", []string{op})
		}
		return
	}
	if bytes.Equal(tailC, payC) || bytes.Equal(tailS, payS) {
		c.Violate("wire:plaintext-in-rc4-mode:"+cell, "payload on the wire equals the plaintext", []string{op})
	}
	// RC4 with the specification's keys: everything after the two hashes (client) / after
	// PadB (server) is one RC4 stream per direction
	S := sharedOf(lv)
	if S == nil {
		c.Violate("wire:no-secret:"+cell, "could not recover the DH secret from the run", []string{op})
		return
	}
	req1 := hsnet.Sha1([]byte("req1"), S)
	i := bytes.Index(lv.tapCS[96:], req1)
	if i < 0 {
		c.Violate("mse-spec:req1-not-on-wire:"+cell, "HASH('req1', S) not found in the client's stream", []string{op})
		return
	}
	encA := hsnet.MseStream("keyA", S, ih)
	plainC := hsnet.Crypt(encA, lv.tapCS[96+i+40:])
	hsC := append([]byte{19}, "BitTorrent protocol"...)
	wantC := append(append(append([]byte{0, 0, 0, 0, 0, 0, 0, 0}, plainC[8:16]...), hsC...), plainC[16+20:16+68]...)
	wantC = append(wantC, payC...)
	if !bytes.Equal(plainC, wantC) || binary.BigEndian.Uint16(plainC[14:16]) != 68 || binary.BigEndian.Uint16(plainC[12:14]) != 0 {
		c.Violate("mse-spec:client-stream-not-rc4-keyA:"+cell, fmt.Sprintf("decrypts to %x", plainC), []string{op})
	}
	encB := hsnet.MseStream("keyB", S, ih)
	ks := hsnet.Crypt(encB, make([]byte, 8)) // ENCRYPT(VC)
	j := bytes.Index(lv.tapSC[96:], ks)
	if j < 0 {
		c.Violate("mse-spec:vc-not-on-wire:"+cell, "ENCRYPT(VC) not found in the server's stream", []string{op})
		return
	}
	encB = hsnet.MseStream("keyB", S, ih)
	plainS := hsnet.Crypt(encB, lv.tapSC[96+j:])
	if len(plainS) != 14+68+len(payS) || !bytes.Equal(plainS[:8], make([]byte, 8)) || binary.BigEndian.Uint32(plainS[8:12]) != 2 ||
		!bytes.Equal(plainS[14:34], hsC) || !bytes.Equal(plainS[14+68:], payS) {
		c.Violate("mse-spec:server-stream-not-rc4-keyB:"+cell, fmt.Sprintf("decrypts to %x", plainS), []string{op})
	}
}

// ---------------------------------------------------------------- sel / chk (scripted peer, offline)

func lbufFor(n int) []byte { return []byte{byte(n >> 8), byte(n)} }

func handshakeBytes(h, id []byte) []byte {
	hs := append([]byte{19}, "BitTorrent protocol"...)
	hs = append(hs, 0, 0, 0, 0, 0, 0x10, 0, 0x05)
	hs = append(hs, h...)
	return append(hs, id...)
}

func selCase(c *vhlib.Ctx, osv int, provide uint32) {
	r := c.R
	xb := r.Bytes(20)
	xa := r.Bytes(20)
	S := hsnet.MseShared(xa, hsnet.MsePub(xb))
	encA := hsnet.MseStream("keyA", S, ih)
	e0 := hsnet.MsePub(xa)
	e1 := hsnet.ClientMsg3(encA, S, ih, make([]byte, 8), provide, nil, handshakeBytes(ih, idc), 68)
	cc := hsnet.NewChunkConn([][][]byte{{e0}, {e1}})
	dr := hsnet.NewDetRand(7)
	dr.Preload = [][]byte{xb, lbufFor(0)}
	crand.Reader = dr
	var conn net.Conn
	var err error
	pan := vhlib.Recover(func() {
		conn, _, _, err = protocol.ServerHandshake(cc, []hash.HashPair{{First: ih, Second: ids}}, optsOf(osv))
	})
	op := fmt.Sprintf("sel %d %d", osv, provide)
	c.NewCase()
	if pan != "" {
		c.Emit(op, "panic")
		c.Violate("panic:sel", pan, []string{op})
		return
	}
	sel := uint32(0)
	if len(cc.Writes) >= 2 && len(cc.Writes[1]) == 14 {
		encB := hsnet.MseStream("keyB", S, ih)
		m4 := hsnet.Crypt(encB, cc.Writes[1])
		if !bytes.Equal(m4[:8], make([]byte, 8)) || binary.BigEndian.Uint16(m4[12:]) != 0 {
			c.Violate("mse-spec:server-message-4", fmt.Sprintf("%x", m4), []string{op})
		}
		sel = binary.BigEndian.Uint32(m4[8:12])
	}
	c.Emit(op, strconv.Itoa(int(sel)))
	c.Count(fmt.Sprintf("sel/%d", sel), op, true)
	o := optsOf(osv)
	_, isRc4 := conn.(*crypto.Conn)
	switch {
	case sel == 0 && err == nil:
		c.Violate("select:success-without-selection", op, []string{op})
	case sel != 0 && sel != 1 && sel != 2:
		c.Violate("select:unknown-method-selected", op, []string{op})
	case sel != 0 && provide&sel == 0:
		c.Violate(fmt.Sprintf("select:not-offered:server=%s:provide=%d:select=%d", optStr(osv), provide, sel), op, []string{op})
	case sel == 2 && !o.AllowEncryption:
		c.Violate("select:rc4-although-forbidden:server="+optStr(osv), op, []string{op})
	case sel == 1 && o.ForceEncryption:
		c.Violate("select:plaintext-although-ForceEncryption:server="+optStr(osv), op, []string{op})
	case err == nil && isRc4 != (sel == 2):
		c.Violate("select:mode-differs-from-selection", op, []string{op})
	}
}

func chkCase(c *vhlib.Ctx, oc int, sel uint32) {
	r := c.R
	xa := r.Bytes(20)
	xb := r.Bytes(20)
	S := hsnet.MseShared(xb, hsnet.MsePub(xa))
	encB := hsnet.MseStream("keyB", S, ih)
	e1 := hsnet.MsePub(xb)
	m4 := hsnet.ServerMsg4(encB, make([]byte, 8), sel, 0, nil)
	tail := handshakeBytes(ih, ids)
	if sel == 2 {
		tail = hsnet.Crypt(encB, tail)
	}
	cc := hsnet.NewChunkConn([][][]byte{nil, {e1}, {append(m4, tail...)}})
	dr := hsnet.NewDetRand(7)
	dr.Preload = [][]byte{xa, lbufFor(0)}
	crand.Reader = dr
	var conn net.Conn
	var err error
	pan := vhlib.Recover(func() {
		conn, _, _, err = protocol.ClientHandshake(cc, true, ih, idc, optsOf(oc))
	})
	op := fmt.Sprintf("chk %d %d", oc, sel)
	c.NewCase()
	if pan != "" {
		c.Emit(op, "panic")
		c.Violate("panic:chk", pan, []string{op})
		return
	}
	mode := "fail"
	if err == nil {
		mode = "plain"
		if _, ok := conn.(*crypto.Conn); ok {
			mode = "rc4"
		}
	}
	// the model's clientCheck is consulted only when the client got as far as the selection
	o := optsOf(oc)
	provide := uint32(0)
	if !o.ForceEncryption {
		provide |= 1
	}
	if o.AllowEncryption {
		provide |= 2
	}
	if !o.AllowCryptoHandshake || provide == 0 {
		c.Emit("tap chk-early "+op, "x")
		if mode != "fail" {
			c.Violate("select:client-accepted-without-offer:client="+optStr(oc), op, []string{op})
		}
		return
	}
	c.Emit(op, mode)
	c.Count("chk/"+mode, op, true)
	switch {
	case mode == "rc4" && (sel != 2 || !o.AllowEncryption):
		c.Violate(fmt.Sprintf("select:client-accepted-rc4-not-offered:client=%s:select=%d", optStr(oc), sel), op, []string{op})
	case mode == "plain" && (sel != 1 || o.ForceEncryption):
		c.Violate(fmt.Sprintf("select:client-accepted-plaintext-not-offered:client=%s:select=%d", optStr(oc), sel), op, []string{op})
	case mode == "fail" && sel <= 2 && provide&sel != 0:
		c.Violate(fmt.Sprintf("select:client-rejected-offered-method:client=%s:select=%d", optStr(oc), sel), fmt.Sprint(err), []string{op})
	}
}

// ---------------------------------------------------------------- crypto.Conn

var sizeMenu = []int{0, 1, 2, 100, 32767, 32768, 32769, 65535, 65536, 65537, 100000}

func errTok(err error) string {
	switch {
	case err == nil:
		return "nil"
	case err == hsnet.ErrInjected:
		return "e1"
	case err == io.EOF:
		return "e2"
	case err == error(hsnet.ErrTimeout):
		return "e3"
	case err == error(hsnet.ErrTemporary):
		return "e4"
	case errors.Is(err, io.ErrShortWrite):
		return "short"
	}
	return "other:" + strings.ReplaceAll(err.Error(), " ", "_")
}

func sizesStr(s []int) string {
	if len(s) == 0 {
		return "-"
	}
	p := make([]string, len(s))
	for i, v := range s {
		p[i] = strconv.Itoa(v)
	}
	return strings.Join(p, ",")
}

// rc4Pair returns an established RC4 connection pair with the direction keys' SHA-1 inputs.
func rc4Pair(seed uint64) (lv *live, keyA, keyB []byte) {
	all := 1 | 2 | 4 | 8 | 16 | 32
	lv = handshake(true, all, all, nil, nil, false, seed)
	if lv.hung || !lv.c.ok || !lv.s.ok || !lv.c.rc4 || !lv.s.rc4 {
		return nil, nil, nil
	}
	S := sharedOf(lv)
	return lv, hsnet.Sha1([]byte("keyA"), S, ih), hsnet.Sha1([]byte("keyB"), S, ih)
}

// after the handshake the client's enc (keyA) has produced 8+4+2+2+68 bytes, the server's
// enc (keyB) 8+4+2+68 (MSE framing with empty pads and IA = the BitTorrent handshake)
const posA, posB = 84, 82

// fault kinds of the underlying conn.Write (the `e` of `fail=<p>:<e>`): 0 = short write
// without error, 1 = a plain error, 2 = io.EOF, 3 = a net.Error with Timeout() (expired
// write deadline), 4 = a net.Error with Temporary() only.  The fault is one-shot: the
// connection accepts writes again afterwards (the caller may have extended the deadline).
var faultErrs = []error{nil, hsnet.ErrInjected, io.EOF, hsnet.ErrTimeout, hsnet.ErrTemporary}
var faultNames = []string{"short", "error", "eof", "timeout", "temporary"}

func cwCase(c *vhlib.Ctx, sizes []int, failAt int, kind int, seed int) {
	lv, keyA, _ := rc4Pair(uint64(seed) + 1)
	fail := "-"
	if failAt >= 0 {
		fail = fmt.Sprintf("%d:%d", failAt, kind)
	}
	op := fmt.Sprintf("cw key=%s pos=%d seed=%d w=%s fail=%s", vhlib.Hex(keyA), posA, seed, sizesStr(sizes), fail)
	c.NewCase()
	if lv == nil {
		c.Emit(op, "no-conn")
		c.Violate("conn:no-rc4-pair", op, []string{op})
		return
	}
	tap0 := len(lv.d.TapAB())
	if failAt >= 0 {
		lv.d.AB.FailWriteAt(tap0+failAt, faultErrs[kind])
	}
	var res []string
	off := 0
	var reported []byte // the bytes the Write calls reported as written, in order
	total := 0
	firstErr := -1
	var latched error
	bad := ""
	for k, n := range sizes {
		b := pattern(seed, off, n)
		off += n
		total += n
		before := len(lv.d.TapAB())
		m, err := lv.c.conn.Write(b)
		after := len(lv.d.TapAB())
		res = append(res, fmt.Sprintf("%d/%s", m, errTok(err)))
		if m >= 0 && m <= n {
			reported = append(reported, b[:m]...)
		}
		if firstErr >= 0 {
			// after a fault the script goes on writing: every later Write must fail with the
			// latched error and send nothing (the keystream has run ahead of the wire)
			if m != 0 || err == nil || err != latched || after != before {
				bad = fmt.Sprintf("write %d after the failed write %d (%s) returned (%d, %v) and put %d bytes on the wire", k, firstErr, faultNames[kind], m, err, after-before)
			}
		} else if err != nil {
			firstErr, latched = k, err
		}
		if firstErr < 0 && (m != n || after-before != n) {
			bad = fmt.Sprintf("write %d of %d bytes returned %d and put %d bytes on the wire", k, n, m, after-before)
		}
		if firstErr == k && after-before != m {
			bad = fmt.Sprintf("failing write %d returned %d but %d bytes reached the wire", k, m, after-before)
		}
	}
	wire := lv.d.TapAB()[tap0:]
	c.Emit(op, fmt.Sprintf("%s wire=%s", strings.Join(res, " "), vhlib.Payload(wire)))
	tag := "cw/ok"
	if failAt >= 0 {
		tag = "cw/" + faultNames[kind]
		if firstErr < 0 {
			tag = "cw/fail-beyond-end"
		}
	}
	c.Count(tag, op, true)
	// the receiver-side decryption (independent RC4, the specification's offset) of everything
	// that reached the wire is exactly the concatenation of the bytes the Write calls reported
	// as written: the keystream never ran ahead of what was subsequently sent
	ci, _ := rc4.NewCipher(keyA)
	skip := make([]byte, 1024+posA)
	ci.XORKeyStream(skip, skip)
	dec := hsnet.Crypt(ci, wire)
	if !bytes.Equal(dec, reported) {
		c.Violate("stream:wire-not-encryption-of-prefix", fmt.Sprintf("sizes %v fail %s (%s): %d bytes on the wire, %d reported as written, receiver-side decryption differs", sizes, fail, faultNames[kind], len(wire), len(reported)), []string{op})
	}
	if firstErr < 0 && len(dec) != total {
		c.Violate("stream:bytes-missing-on-wire", fmt.Sprintf("sizes %v", sizes), []string{op})
	}
	if bad != "" {
		c.Violate("stream:write-error-not-latched", bad, []string{op})
	}
	// and the far end reads exactly that
	lv.d.A.CloseWrite()
	got, _ := io.ReadAll(lv.s.conn)
	got = append(append([]byte(nil), lv.s.delivered...), got...)
	if !bytes.Equal(got, reported) {
		c.Violate("stream:receiver-differs", fmt.Sprintf("sizes %v fail %s (%s): receiver got %d bytes, %d were reported as written", sizes, fail, faultNames[kind], len(got), len(reported)), []string{op})
	}
	lv.d.A.Close()
	lv.d.B.Close()
}

func crCase(c *vhlib.Ctx, total int, chunks []int, reads []int, seed int) {
	lv, _, keyB := rc4Pair(uint64(seed) + 77)
	op := fmt.Sprintf("cr key=%s pos=%d seed=%d len=%d ch=%s rd=%s", vhlib.Hex(keyB), posB, seed, total, sizesStr(chunks), sizesStr(reads))
	c.NewCase()
	if lv == nil {
		c.Emit(op, "no-conn")
		c.Violate("conn:no-rc4-pair", op, []string{op})
		return
	}
	plain := pattern(seed, 0, total)
	base := len(lv.d.TapBA())
	// the server writes everything (in a few Writes), then the client reads with the pattern
	for off := 0; off < total; {
		n := 1 + (off*31+seed)%70000
		if off+n > total {
			n = total - off
		}
		lv.s.conn.Write(plain[off : off+n])
		off += n
	}
	lv.d.B.CloseWrite()
	var cuts []int
	p := base
	for _, k := range chunks {
		p += k
		cuts = append(cuts, p)
	}
	lv.d.BA.Cuts = cuts
	var lens []string
	var data []byte
	for _, k := range reads {
		b := make([]byte, k)
		n, err := lv.c.conn.Read(b)
		if n == 0 && err != nil {
			break
		}
		lens = append(lens, strconv.Itoa(n))
		data = append(data, b[:n]...)
	}
	left := total - len(data)
	c.Emit(op, fmt.Sprintf("n=%s data=%s dec=%d left=%d", strings.Join(lens, ","), vhlib.Payload(data), posB+len(data), left))
	c.Count("cr", op, true)
	if !bytes.Equal(data, plain[:len(data)]) {
		c.Violate("stream:read-differs-from-written", fmt.Sprintf("len %d chunks %v reads %v", total, chunks, reads), []string{op})
	}
	rest, _ := io.ReadAll(lv.c.conn)
	if !bytes.Equal(append(data, rest...), plain) {
		c.Violate("stream:read-differs-from-written", fmt.Sprintf("len %d chunks %v reads %v (rest)", total, chunks, reads), []string{op})
	}
	lv.d.A.Close()
	lv.d.B.Close()
}

// creCase: the underlying connection delivers bytes TOGETHER WITH errors (io.Reader: "callers
// should always process the n > 0 bytes returned before considering the error"): chunk i of
// the wire carries error code errs[i] (0 none, 1 plain error, 2 io.EOF — last chunk only,
// 3 timeout net.Error) which is returned by the Read that delivers the chunk's last byte;
// the caller goes on reading after every error.
func creCase(c *vhlib.Ctx, total int, chunks []int, errs []int, reads []int, seed int) {
	lv, _, keyB := rc4Pair(uint64(seed) + 177)
	var chs []string
	for i, n := range chunks {
		if errs[i] != 0 {
			chs = append(chs, fmt.Sprintf("%d!%d", n, errs[i]))
		} else {
			chs = append(chs, strconv.Itoa(n))
		}
	}
	ch := "-"
	if len(chs) > 0 {
		ch = strings.Join(chs, ",")
	}
	op := fmt.Sprintf("cre key=%s pos=%d seed=%d len=%d ch=%s rd=%s", vhlib.Hex(keyB), posB, seed, total, ch, sizesStr(reads))
	c.NewCase()
	if lv == nil {
		c.Emit(op, "no-conn")
		c.Violate("conn:no-rc4-pair", op, []string{op})
		return
	}
	plain := pattern(seed, 0, total)
	base := lv.d.BA.Pos()
	for off := 0; off < total; {
		n := 1 + (off*31+seed)%70000
		if off+n > total {
			n = total - off
		}
		lv.s.conn.Write(plain[off : off+n])
		off += n
	}
	lv.d.B.CloseWrite()
	var cuts []int
	rerrs := map[int]error{}
	p := base
	for i, k := range chunks {
		p += k
		if p-base > total {
			break
		}
		cuts = append(cuts, p)
		if errs[i] != 0 {
			rerrs[p] = faultErrs[errs[i]]
		}
	}
	lv.d.BA.SetReadFaults(cuts, rerrs)
	var rs []string
	var data []byte
	for _, k := range reads {
		b := make([]byte, k)
		n, err := lv.c.conn.Read(b)
		if n == 0 && err != nil {
			break
		}
		rs = append(rs, fmt.Sprintf("%d/%s", n, errTok(err)))
		data = append(data, b[:n]...)
	}
	c.Emit(op, fmt.Sprintf("r=%s data=%s dec=%d left=%d", strings.Join(rs, ","), vhlib.Payload(data), posB+len(data), total-len(data)))
	c.Count("cre", op, true)
	// every byte handed to the caller — with or without an error — is plaintext, in order
	if len(data) > total || !bytes.Equal(data, plain[:len(data)]) {
		c.Violate("transparent:read:bytes-with-error", fmt.Sprintf("len %d chunks %s reads %v: the bytes returned differ from the plaintext prefix", total, ch, reads), []string{op})
	}
	// and the keystream is still in sync for everything that follows
	var rest []byte
	for {
		b := make([]byte, 4096)
		n, err := lv.c.conn.Read(b)
		rest = append(rest, b[:n]...)
		if n == 0 && err != nil {
			break
		}
	}
	if !bytes.Equal(append(append([]byte(nil), data...), rest...), plain) {
		c.Violate("transparent:read:bytes-with-error", fmt.Sprintf("len %d chunks %s reads %v: out of sync after the errors", total, ch, reads), []string{op})
	}
	lv.d.A.Close()
	lv.d.B.Close()
}

// ---------------------------------------------------------------- primitives

var mseP, _ = new(big.Int).SetString("FFFFFFFFFFFFFFFFC90FDAA22168C234C4C6628B80DC1CD129024E088A67CC74020BBEA63B139B22514A08798E3404DDEF9519B3CD3A431B302B0A6DF25F14374FE1356D6D51C245E485B576625E7EC6F44C42E9A63A36210000000000090563", 16)

func primCases(c *vhlib.Ctx) {
	r := c.R
	for _, n := range []int{0, 1, 3, 55, 56, 57, 63, 64, 65, 119, 120, 128, 200, 1000} {
		b := r.Bytes(n)
		h := sha1.Sum(b)
		c.NewCase()
		c.Emit("sha1 "+vhlib.Hex(b), vhlib.Hex(h[:]))
		c.Count("prim/sha1", "", false)
	}
	for _, n := range []int{1, 5, 16, 20, 32} {
		k := r.Bytes(n)
		ci, _ := rc4.NewCipher(k)
		m := 1 + r.Intn(3000)
		ks := make([]byte, m)
		ci.XORKeyStream(ks, ks)
		c.NewCase()
		c.Emit(fmt.Sprintf("rc4 %s %d", vhlib.Hex(k), m), vhlib.Payload(ks))
		c.Count("prim/rc4", "", false)
	}
	for i := 0; i < 6; i++ {
		x := r.Bytes(20)
		y := r.Bytes(96)
		if i == 0 {
			y = hsnet.MsePub(r.Bytes(20))
		}
		var pub, s big.Int
		pub.Exp(big.NewInt(2), new(big.Int).SetBytes(x), mseP)
		s.Exp(new(big.Int).SetBytes(y), new(big.Int).SetBytes(x), mseP)
		c.NewCase()
		c.Emit(fmt.Sprintf("dh %s %s", vhlib.Hex(x), vhlib.Hex(y)),
			vhlib.Hex(pub.FillBytes(make([]byte, 96)))+" "+vhlib.Hex(s.FillBytes(make([]byte, 96))))
		c.Count("prim/dh", "", false)
	}
}

// ---------------------------------------------------------------- main

func decSizes(s string) []int {
	if s == "-" {
		return nil
	}
	var o []int
	for _, t := range strings.Split(s, ",") {
		n, _ := strconv.Atoi(t)
		o = append(o, n)
	}
	return o
}

func kv(ws []string) map[string]string {
	m := map[string]string{}
	for _, w := range ws {
		if i := strings.IndexByte(w, '='); i > 0 {
			m[w[:i]] = w[i+1:]
		}
	}
	return m
}

func replayLine(c *vhlib.Ctx, line string) {
	ws := strings.Fields(line)
	if len(ws) == 0 {
		return
	}
	atoi := func(s string) int { n, _ := strconv.Atoi(s); return n }
	switch ws[0] {
	case "pol":
		if len(ws) == 4 {
			polCase(c, ws[1] == "mse", atoi(ws[2]), atoi(ws[3]))
			return
		}
	case "sel":
		if len(ws) == 3 {
			selCase(c, atoi(ws[1]), uint32(atoi(ws[2])))
			return
		}
	case "chk":
		if len(ws) == 3 {
			chkCase(c, atoi(ws[1]), uint32(atoi(ws[2])))
			return
		}
	case "cw":
		m := kv(ws[1:])
		failAt, kind := -1, 0
		if f := m["fail"]; f != "-" && f != "" {
			pe := strings.Split(f, ":")
			failAt, kind = atoi(pe[0]), atoi(pe[1])
			if kind < 0 || kind >= len(faultErrs) {
				kind = 1
			}
		}
		cwCase(c, decSizes(m["w"]), failAt, kind, atoi(m["seed"]))
		return
	case "cre":
		m := kv(ws[1:])
		var chunks, errs []int
		if m["ch"] != "-" {
			for _, t := range strings.Split(m["ch"], ",") {
				ne := strings.Split(t, "!")
				chunks = append(chunks, atoi(ne[0]))
				e := 0
				if len(ne) > 1 {
					e = atoi(ne[1])
				}
				errs = append(errs, e)
			}
		}
		creCase(c, atoi(m["len"]), chunks, errs, decSizes(m["rd"]), atoi(m["seed"]))
		return
	case "cr":
		m := kv(ws[1:])
		crCase(c, atoi(m["len"]), decSizes(m["ch"]), decSizes(m["rd"]), atoi(m["seed"]))
		return
	case "variant":
		c.Emit(line, "ok")
		return
	}
	c.Emit(line, "x")
}

func main() {
	c := vhlib.Init("c08")
	defer c.Close()
	c.Rep.Rule = "pol: every (kind, client options, server options) cell; sel/chk: every (options, value); cw/cr: distinct size patterns"
	if v := os.Getenv("C08_VARIANT"); v != "" {
		c.Emit("variant "+v, "ok") // development: compare with the model of the code as found
	}
	if c.Replay != "" {
		for _, l := range c.ReplayLines() {
			replayLine(c, l)
		}
		return
	}
	r := c.R
	// 1. the whole policy table, both kinds
	for _, mse := range []bool{false, true} {
		for oc := 0; oc < 64; oc++ {
			for osv := 0; osv < 64; osv++ {
				polCase(c, mse, oc, osv)
			}
		}
	}
	c.Rep.Exhaustive = true
	// 2. every crypto_provide / crypto_select against every option set
	provides := []uint32{0, 1, 2, 3, 4, 5, 6, 7, 0x100, 0x101, 0x102, 0x103, 0xfffffffc, 0xfffffffd, 0xfffffffe, 0xffffffff}
	for osv := 0; osv < 64; osv++ {
		if osv&1 == 0 {
			continue // without AllowCryptoHandshake the server never reads crypto_provide
		}
		for _, p := range provides {
			selCase(c, osv, p)
		}
		selCase(c, osv, r.U32())
	}
	selects := []uint32{0, 1, 2, 3, 4, 0x101, 0x102, 0x10000, 0xffffffff}
	for oc := 0; oc < 64; oc++ {
		if oc&1 == 0 {
			continue
		}
		for _, s := range selects {
			chkCase(c, oc, s)
		}
	}
	// 3. crypto.Conn
	seed := 0
	next := func() int { seed++; return seed + int(c.Seed)*1000 }
	for _, n := range sizeMenu {
		cwCase(c, []int{n}, -1, 0, next())
	}
	// what is written after a fault: the script always continues with several more writes
	more := func() []int {
		k := 2 + r.Intn(3)
		var t []int
		for j := 0; j < k; j++ {
			t = append(t, r.PickInt(1, 2, 100, 1000, 32768, 40000))
		}
		return t
	}
	ncw := c.N
	for i := 0; i < ncw; i++ {
		k := 1 + r.Intn(4)
		var sizes []int
		total := 0
		for j := 0; j < k; j++ {
			n := sizeMenu[r.Intn(len(sizeMenu))]
			if r.Chance(30) {
				n = r.Intn(70000)
			}
			sizes = append(sizes, n)
			total += n
		}
		if i%6 == 0 {
			cwCase(c, sizes, -1, 0, next())
			continue
		}
		// a fault of every kind, with 0 … len bytes of the piece accepted: at the boundaries of
		// the 32 KiB staging buffer and of the Writes, and at random offsets
		p := 0
		if total > 0 {
			p = r.Intn(total + 1)
		}
		if r.Chance(40) {
			var bounds []int
			acc := 0
			for _, n := range sizes {
				for q := 32768; q < n; q += 32768 {
					bounds = append(bounds, acc+q-1, acc+q, acc+q+1)
				}
				acc += n
				bounds = append(bounds, acc-1, acc)
			}
			bounds = append(bounds, 0, 1)
			p = bounds[r.Intn(len(bounds))]
			if p < 0 {
				p = 0
			}
		}
		cwCase(c, append(sizes, more()...), p, i%5, next())
	}
	// a 3-write script followed by two more writes, a fault of every kind at every position
	script := []int{5, 7, 3, 4, 6}
	for p := 0; p <= 15; p++ {
		for kind := range faultErrs {
			cwCase(c, script, p, kind, next())
		}
	}
	for i := 0; i < c.N/2; i++ {
		total := r.PickInt(0, 1, 100, 32768, 70000, 100000)
		var chunks, reads []int
		for n := 0; n < total; {
			k := 1 + r.Intn(r.PickInt(10, 2000, 40000))
			chunks = append(chunks, k)
			n += k
		}
		for n := 0; n < total+10; {
			k := r.PickInt(1, 7, 100, 4096, 32768, 32769, 100000)
			reads = append(reads, k)
			n += k
			if len(reads) > 400 {
				break
			}
		}
		crCase(c, total, chunks, reads, next())
	}
	// reads that deliver bytes together with an error
	for i := 0; i < c.N/2+8; i++ {
		total := r.PickInt(1, 5, 100, 5000, 32768, 70000)
		var chunks, errs, reads []int
		for n := 0; n < total; {
			k := 1 + r.Intn(r.PickInt(10, 2000, 40000))
			if n+k > total {
				k = total - n
			}
			e := 0
			if r.Chance(40) {
				e = r.PickInt(1, 3, 3)
			}
			n += k
			if n == total && (i%2 == 0 || r.Chance(50)) {
				e = 2 // the last bytes arrive together with io.EOF
			}
			chunks = append(chunks, k)
			errs = append(errs, e)
		}
		for n := 0; n < total+10 && len(reads) < 300; {
			k := r.PickInt(1, 7, 100, 4096, 32768, 100000)
			reads = append(reads, k)
			n += k
		}
		if i%5 == 4 && len(reads) > 2 {
			reads = reads[:len(reads)/2] // stop early: the rest is read by the sync check
		}
		creCase(c, total, chunks, errs, reads, next())
	}
	// 4. the model's primitives against the standard library
	primCases(c)
}
