// vh c20: correspondence stream + property oracle for the namespace mapping of the HTTP
// and FUSE front-ends (C20).
//
// A case is a table of 1..3 live torrents (the last one is "current").  Ops (compared with
// the Lean model line by line):
//
//	reset                                           empty table
//	new <hashHex> <nameHex> single <length> | multi | magnet
//	file <pad01> <length> <compHex>*                appends a file to the current torrent
//	parms <compHex>*                                fileParms via VerifFileParms
//	hget <sHex> get|playlist                        the real torHandler through VerifMux; s is the
//	                                                decoded path remainder (r.PathValue("path"))
//	parse <hex>                                     path.Parse + String
//	cmp <compHex>* / <compHex>*                     Compare, Within, Equal
//	rlookup <nameHex>, rreaddir                     FUSE root
//	flookup <dirnameHex> <nameHex>, freaddir <dirnameHex>, fopen <filenameHex>   FUSE nodes
//
// Oracle only (the model answers "x"):
//
//	x walk                                          follows every real link / dirent of the current torrent
package main

import (
	"bytes"
	"context"
	"crypto/sha1"
	"errors"
	"fmt"
	"io"
	"log"
	"net/http"
	"net/http/httptest"
	"net/url"
	"os"
	"sort"
	"strconv"
	"strings"
	"syscall"
	"time"

	bfuse "bazil.org/fuse"
	"bazil.org/fuse/fs"
	xhtml "golang.org/x/net/html"

	"github.com/jech/storrent/config"
	sfuse "github.com/jech/storrent/fuse"
	"github.com/jech/storrent/hash"
	shttp "github.com/jech/storrent/http"
	"github.com/jech/storrent/path"
	"github.com/jech/storrent/tor"

	"verifharness/nsgen"
	"verifharness/vhlib"
)

var mux *http.ServeMux
var bg = context.Background()

// at most two reports per violation kind, so that one noisy shape cannot use up the
// report's capacity and hide a different failure
var kindCount = map[string]int{}

func violate(c *vhlib.Ctx, kind, detail string, ops []string) {
	kindCount[kind]++
	if kindCount[kind] <= 2 {
		c.Violate(kind, detail, ops)
	}
}

const hostHdr = "localhost:8088"

type fileSpec struct {
	path   []string
	length int64
	pad    bool
	offset int64 // computed: running sum
}

type torSpec struct {
	kind   string // single multi magnet
	name   string
	length int64
	files  []fileSpec
	shape  string // generator's label of what is odd about it ("wf" if nothing)
	salt   int    // makes the info-hash differ between same-named torrents
	mhash  string // magnet: the info-hash (hex) it announces ("" = a synthetic one)
	// which of the variants of a field carries the value: see realize
	nameMode, pathMode int
	realized           bool
	iname              string // intended name / paths, before the variants were chosen
	ipaths             [][]string
	rawMeta, rawInfo   []byte // the exact metainfo / info bytes (set by realize or by a replay)
}

type live struct {
	spec torSpec
	t    *tor.Torrent
}

var table []live

func decoyPath(i int) []string { return []string{"decoy", fmt.Sprintf("f%d", i)} }

const decoyName = "decoy name"

// meta builds the metainfo.  A torrent file may carry two variants of the name and of every
// path ("name"/"name.utf-8", "path"/"path.utf-8"); the code prefers the utf-8 one when it is
// present.  EVERY variant the code may prefer has to go through the validation, so the
// generated (possibly ill-formed) value is put into each variant in turn:
//
//	pathMode 0 path only | 1 path.utf-8 only | 2 both equal | 3 path = well-formed decoy,
//	path.utf-8 = value | 4 path = value, path.utf-8 = well-formed decoy (then the decoy is
//	the file's path, whatever the value) | 5 path = value with a further defect, utf-8 = value
//	nameMode 0 name only | 1 both equal | 2 name = decoy, name.utf-8 = value | 3 name = value,
//	name.utf-8 = decoy (the decoy is the name) | 4 name empty, name.utf-8 = value
//
// realize() has replaced s.name / s.files[i].path by the EFFECTIVE values (what the torrent's
// files are called), and keeps the generated ones in iname / ipaths.
func (s *torSpec) meta() *nsgen.Meta {
	m := &nsgen.Meta{Name: s.name, PieceLength: 16384 * (1 + s.salt)}
	value := s.name
	if s.realized {
		value = s.iname
	}
	switch s.nameMode {
	case 0:
		m.Name = value
	case 1:
		m.Name, m.Name8, m.HasName8 = value, value, true
	case 2:
		m.Name, m.Name8, m.HasName8 = decoyName, value, true
	case 3:
		m.Name, m.Name8, m.HasName8 = value, decoyName, true
	case 4:
		m.Name, m.Name8, m.HasName8 = "", value, true
	}
	if s.kind == "single" {
		m.Length = s.length
	} else {
		m.Files = []nsgen.File{}
		for i, f := range s.files {
			v := f.path
			if s.realized {
				v = s.ipaths[i]
			}
			nf := nsgen.File{Length: f.length, Padding: f.pad}
			switch s.pathMode {
			case 0:
				nf.Path = v
			case 1:
				nf.NoPath, nf.Path8, nf.HasPath8 = true, v, true
			case 2:
				nf.Path, nf.Path8, nf.HasPath8 = v, v, true
			case 3:
				nf.Path, nf.Path8, nf.HasPath8 = decoyPath(i), v, true
			case 4:
				nf.Path, nf.Path8, nf.HasPath8 = v, decoyPath(i), true
			case 5:
				nf.Path, nf.Path8, nf.HasPath8 = append(append([]string{}, v...), ""), v, true
			}
			m.Files = append(m.Files, nf)
		}
	}
	return m
}

// realize chooses the variants, computes the effective name and paths and the exact bytes.
func (s *torSpec) realize(nameMode, pathMode int) {
	if s.kind == "magnet" || s.realized {
		return
	}
	s.nameMode, s.pathMode = nameMode, pathMode
	if s.kind == "single" {
		s.pathMode = 0
	}
	s.iname = s.name
	s.ipaths = nil
	for _, f := range s.files {
		s.ipaths = append(s.ipaths, f.path)
	}
	s.realized = true
	if s.nameMode == 3 {
		s.name = decoyName
	}
	// `path: le` and an absent key both leave the slice nil: the other variant is used
	for i := range s.files {
		switch {
		case s.pathMode == 4:
			s.files[i].path = decoyPath(i)
		case s.pathMode == 3 && len(s.ipaths[i]) == 0:
			s.files[i].path = decoyPath(i)
		case s.pathMode == 5 && len(s.ipaths[i]) == 0:
			s.files[i].path = []string{""}
		}
	}
	if s.nameMode != 0 || s.pathMode != 0 {
		s.shape += fmt.Sprintf("+n%dp%d", s.nameMode, s.pathMode)
	}
	s.rebuild()
}

func (s *torSpec) rebuild() {
	m := s.meta()
	s.rawMeta, s.rawInfo = m.Torrent(), m.Info()
}

func (s *torSpec) infoHash() []byte {
	if s.rawInfo == nil {
		s.rebuild()
	}
	h := sha1.Sum(s.rawInfo)
	return h[:]
}

func kill(t *tor.Torrent) {
	ctx, cancel := context.WithTimeout(bg, 10*time.Second)
	defer cancel()
	t.Kill(ctx)
	select {
	case <-t.Deleted:
	case <-time.After(10 * time.Second):
	}
}

func resetTable(c *vhlib.Ctx) {
	for _, l := range table {
		kill(l.t)
	}
	var rest []*tor.Torrent
	tor.Range(func(h hash.Hash, t *tor.Torrent) bool { rest = append(rest, t); return true })
	for _, t := range rest {
		kill(t)
	}
	table = nil
	kept = map[string]*keptNode{}
	c.Emit("reset", "ok")
}

func hx(s string) string { return vhlib.Hex([]byte(s)) }

func compsHex(p []string) string {
	var w []string
	for _, s := range p {
		w = append(w, hx(s))
	}
	return strings.Join(w, " ")
}

// addTorrent creates the real torrent; returns false (and emits nothing) when the real
// metadata validation rejects it.
func addTorrent(c *vhlib.Ctx, s torSpec) (bool, string) {
	var t *tor.Torrent
	var err error
	if s.kind == "magnet" {
		hh := fmt.Sprintf("%040x", 0x1000+len(table)+s.salt)
		if s.mhash != "" {
			hh = s.mhash
		}
		t, err = tor.ReadMagnet("", "magnet:?xt=urn:btih:"+hh+"&dn="+url.QueryEscape(s.name))
		if err == nil && t == nil {
			err = errors.New("not a magnet")
		}
	} else {
		if s.rawMeta == nil {
			s.rebuild()
		}
		t, err = tor.ReadTorrent("", bytes.NewReader(s.rawMeta))
	}
	if err != nil {
		return false, err.Error()
	}
	t.Log.SetOutput(io.Discard)
	if _, err = tor.AddTorrent(bg, t); err != nil {
		return false, err.Error()
	}
	var off int64
	for i := range s.files {
		s.files[i].offset = off
		off += s.files[i].length
	}
	if s.kind == "multi" {
		s.length = off
	}
	table = append(table, live{s, t})
	if s.shape != "wf" && s.shape != "replay" {
		c.Count("accepted:"+s.shape, s.name, false)
	}
	if s.kind != "magnet" && (s.nameMode != 0 || s.pathMode != 0) {
		// the exact bytes, so that a replay rebuilds the same variants
		c.Emit("x meta "+vhlib.Hex(s.rawMeta), "x")
	}
	switch s.kind {
	case "single":
		c.Emit(fmt.Sprintf("new %s %s single %d", vhlib.Hex(t.Hash), hx(s.name), s.length), "ok")
	case "magnet":
		c.Emit(fmt.Sprintf("new %s %s magnet", vhlib.Hex(t.Hash), hx(s.name)), "ok")
	default:
		c.Emit(fmt.Sprintf("new %s %s multi", vhlib.Hex(t.Hash), hx(s.name)), "ok")
		for _, f := range s.files {
			pad := "0"
			if f.pad {
				pad = "1"
			}
			op := fmt.Sprintf("file %s %d", pad, f.length)
			if len(f.path) > 0 {
				op += " " + compsHex(f.path)
			}
			c.Emit(op, "ok")
		}
	}
	return true, ""
}

func cur() *live { return &table[len(table)-1] }

// ---------------------------------------------------------------- HTTP plumbing

type response struct {
	code  int
	hdr   http.Header
	body  string
	panic string
}

// browserTarget: the request target a browser would send for a link: ASCII tab/CR/LF are
// removed (URL standard), bytes that cannot appear in a request line are percent-encoded.
func browserTarget(t string) string {
	var b strings.Builder
	for i := 0; i < len(t); i++ {
		ch := t[i]
		switch {
		case ch == '\t' || ch == '\n' || ch == '\r':
		case ch <= 0x20 || ch >= 0x7f || strings.IndexByte("\"<>`{}|\\^", ch) >= 0:
			fmt.Fprintf(&b, "%%%02X", ch)
		default:
			b.WriteByte(ch)
		}
	}
	return b.String()
}

func do(method, target string) response {
	// built by hand: httptest.NewRequest panics on targets a parser would refuse
	target = browserTarget(target)
	pathPart, query := target, ""
	if i := strings.IndexByte(target, '?'); i >= 0 {
		pathPart, query = target[:i], target[i+1:]
	}
	u := &url.URL{Path: pathPart, RawQuery: query}
	if dec, err := url.PathUnescape(pathPart); err == nil {
		u.Path, u.RawPath = dec, pathPart
	}
	req := &http.Request{Method: method, URL: u, Proto: "HTTP/1.1", ProtoMajor: 1, ProtoMinor: 1,
		Header: http.Header{}, Body: http.NoBody, Host: hostHdr, RequestURI: target, RemoteAddr: "127.0.0.1:54321"}
	// a HEAD of a file makes http.ServeContent sniff the content type, i.e. read data that
	// no peer will ever deliver: give those requests an already-expired context (the reply
	// headers do not depend on it); directory pages check ctx.Err() and need a live one
	rctx, cancel := context.WithTimeout(bg, 5*time.Second)
	if method == "HEAD" {
		cancel()
	}
	defer cancel()
	req = req.WithContext(rctx)
	rec := httptest.NewRecorder()
	var r response
	done := make(chan struct{})
	go func() {
		defer close(done)
		r.panic = vhlib.Recover(func() { mux.ServeHTTP(rec, req) })
	}()
	select {
	case <-done:
	case <-time.After(20 * time.Second):
		r.panic = "handler hung (20 s watchdog)"
		return r
	}
	r.code, r.hdr, r.body = rec.Code, rec.Header(), rec.Body.String()
	return r
}

// encodeAll percent-encodes every byte that is not alphanumeric: the mux then neither
// cleans nor splits anything and r.PathValue("path") is exactly s.
func encodeAll(s string) string {
	var b strings.Builder
	for i := 0; i < len(s); i++ {
		ch := s[i]
		if ch >= 'a' && ch <= 'z' || ch >= 'A' && ch <= 'Z' || ch >= '0' && ch <= '9' {
			b.WriteByte(ch)
		} else {
			fmt.Fprintf(&b, "%%%02X", ch)
		}
	}
	return b.String()
}

// hrefComps splits the path part of a link below /hash/ into unescaped components.
func hrefComps(rest string) ([]string, bool) {
	var out []string
	for _, seg := range strings.Split(rest, "/") {
		u, err := url.PathUnescape(seg)
		if err != nil {
			return nil, false
		}
		out = append(out, u)
	}
	return out, true
}

type row struct {
	dir  bool
	href string   // attribute value as an HTML parser sees it
	p    []string // components decoded from href
	ok   bool
	text string
}

// parseDirPage extracts the rows of the file table (the <tr> rows with a first link).
func parseDirPage(body, hs string) []row {
	z := xhtml.NewTokenizer(strings.NewReader(body))
	var rows []row
	inTable, inTr, inA := false, false, false
	var cur *row
	for {
		tt := z.Next()
		if tt == xhtml.ErrorToken {
			break
		}
		tok := z.Token()
		switch tt {
		case xhtml.StartTagToken:
			switch tok.Data {
			case "table":
				inTable = true
			case "tr":
				inTr = true
				cur = nil
			case "a":
				if inTable && inTr && cur != nil {
					for _, a := range tok.Attr {
						if a.Key == "href" && strings.HasSuffix(a.Val, "/?playlist") {
							cur.dir = true
							if len(cur.p) > 0 && cur.p[len(cur.p)-1] == "" && strings.HasSuffix(cur.href, "/") {
								cur.p = cur.p[:len(cur.p)-1]
							}
						}
					}
				}
				if inTable && inTr && cur == nil {
					href := ""
					for _, a := range tok.Attr {
						if a.Key == "href" {
							href = a.Val
						}
					}
					rows = append(rows, row{href: href})
					cur = &rows[len(rows)-1]
					inA = true
					pre := "/" + hs + "/"
					if strings.HasPrefix(href, pre) {
						cur.p, cur.ok = hrefComps(strings.TrimPrefix(href, pre))
					}
				}
			}
		case xhtml.EndTagToken:
			switch tok.Data {
			case "table":
				inTable = false
			case "tr":
				inTr = false
			case "a":
				inA = false
			}
		case xhtml.TextToken:
			if inA && cur != nil {
				cur.text += tok.Data
			}
		}
	}
	return rows
}

func showPath(p []string) string {
	var w []string
	for _, s := range p {
		w = append(w, hx(s))
	}
	return "(" + strings.Join(w, ",") + ")"
}

func showList(xs []string) string {
	if len(xs) == 0 {
		return "empty"
	}
	return strings.Join(xs, " ")
}

func etagOffset(etag, hs string) (int64, bool) {
	pre := "\"" + hs + "-"
	if !strings.HasPrefix(etag, pre) || !strings.HasSuffix(etag, "\"") {
		return 0, false
	}
	v, err := strconv.ParseInt(etag[len(pre):len(etag)-1], 10, 64)
	return v, err == nil
}

type fileAns struct {
	code     int
	off, len int64
	ok       bool
	panic    string
}

// headFile asks the real handler for a file by raw URL target.
func headFile(target, hs string) fileAns {
	r := do("HEAD", target)
	a := fileAns{code: r.code, panic: r.panic}
	if r.panic != "" || r.code != 200 {
		return a
	}
	off, ok1 := etagOffset(r.hdr.Get("Etag"), hs)
	l, err := strconv.ParseInt(r.hdr.Get("Content-Length"), 10, 64)
	a.off, a.len, a.ok = off, l, ok1 && err == nil
	return a
}

func playlistEntries(body, hs string) ([][]string, bool) {
	if !strings.HasPrefix(body, "#EXTM3U\n") {
		return nil, false
	}
	lines := strings.Split(strings.TrimSuffix(body[len("#EXTM3U\n"):], "\n"), "\n")
	if len(lines) == 1 && lines[0] == "" {
		return nil, true
	}
	if len(lines)%2 != 0 {
		return nil, false
	}
	var out [][]string
	pre := "http://" + hostHdr + "/" + hs + "/"
	for i := 1; i < len(lines); i += 2 {
		if !strings.HasPrefix(lines[i], pre) || !strings.HasPrefix(lines[i-1], "#EXTINF:-1,") {
			return nil, false
		}
		p, ok := hrefComps(strings.TrimPrefix(lines[i], pre))
		if !ok {
			return nil, false
		}
		out = append(out, p)
	}
	return out, true
}

// ---------------------------------------------------------------- compared ops

func opParms(c *vhlib.Ctx, p []string) {
	op := "parms"
	if len(p) > 0 {
		op += " " + compsHex(p)
	}
	var off, l int64
	var err error
	pn := vhlib.Recover(func() { off, l, _, err = shttp.VerifFileParms(cur().t, path.Path(p)) })
	obs := ""
	switch {
	case pn != "":
		obs = "panic"
		violate(c, "panic:fileParms", pn, c.Case())
	case err != nil && os.IsNotExist(err):
		obs = "enoent"
	case err != nil:
		obs = "err " + err.Error()
	default:
		obs = fmt.Sprintf("ok %d %d", off, l)
	}
	c.Emit(op, obs)
	c.Count("parms:"+strings.Fields(obs)[0], op, true)
}

func opHget(c *vhlib.Ctx, s string, mode string) {
	op := fmt.Sprintf("hget %s %s", hx(s), mode)
	t := cur().t
	hs := t.Hash.String()
	target := "/" + hs + "/" + encodeAll(s)
	obs := ""
	switch {
	case mode == "playlist":
		r := do("GET", target+"?playlist")
		switch {
		case r.panic != "":
			obs = "panic"
		case r.code == 404:
			obs = "404"
		case r.code == 504:
			obs = "504"
		case r.code == 200:
			es, ok := playlistEntries(r.body, hs)
			if !ok {
				obs = "pl unparsable"
			} else {
				var w []string
				for _, e := range es {
					w = append(w, "e"+showPath(e))
				}
				obs = "pl " + showList(w)
			}
		default:
			obs = "code " + strconv.Itoa(r.code)
		}
	case strings.HasSuffix("/"+s, "/"):
		r := do("GET", target)
		switch {
		case r.panic != "":
			obs = "panic"
		case r.code == 200:
			var w []string
			for _, rw := range parseDirPage(r.body, hs) {
				k := "f"
				if rw.dir {
					k = "d"
				}
				if !rw.ok {
					w = append(w, k+"?"+hx(rw.href))
				} else {
					w = append(w, k+showPath(rw.p))
				}
			}
			obs = "dir " + showList(w)
		default:
			obs = "code " + strconv.Itoa(r.code)
		}
	default:
		a := headFile(target, hs)
		switch {
		case a.panic != "":
			obs = "panic"
		case a.code == 404:
			obs = "404"
		case a.code == 504:
			obs = "504"
		case a.code == 200 && a.ok:
			obs = fmt.Sprintf("file %d %d", a.off, a.len)
		default:
			obs = "code " + strconv.Itoa(a.code)
		}
	}
	c.Emit(op, obs)
	c.Count("hget:"+mode+":"+strings.Fields(obs)[0], op, true)
}

func opParse(c *vhlib.Ctx, s string) {
	p := path.Parse(s)
	c.Emit("parse "+hx(s), showPath(p)+" "+hx(p.String()))
	c.Count("parse", s, true)
}

func opCmp(c *vhlib.Ctx, a, b []string) {
	op := "cmp"
	if len(a) > 0 {
		op += " " + compsHex(a)
	}
	op += " /"
	if len(b) > 0 {
		op += " " + compsHex(b)
	}
	pa, pb := path.Path(a), path.Path(b)
	b2s := func(x bool) string {
		if x {
			return "1"
		}
		return "0"
	}
	cmp := pa.Compare(pb)
	c.Emit(op, fmt.Sprintf("%d w=%s e=%s", cmp, b2s(pa.Within(pb)), b2s(pa.Equal(pb))))
	c.Count(fmt.Sprintf("cmp:%d", cmp), op, true)
}

func showNode(n fs.Node, err error) string {
	if err == nil && n != nil {
		keepNode(n)
	}
	if err != nil {
		if errors.Is(err, bfuse.ENOENT) || err == bfuse.ENOENT {
			return "enoent"
		}
		return "err " + err.Error()
	}
	kind, h, name := sfuse.VerifNodeInfo(n)
	return fmt.Sprintf("%s %s %s", kind, vhlib.Hex(h), hx(name))
}

func dtype(t bfuse.DirentType) string {
	switch t {
	case bfuse.DT_Dir:
		return "d"
	case bfuse.DT_File:
		return "f"
	}
	return "?"
}

func opRLookup(c *vhlib.Ctx, name string) {
	var n fs.Node
	var err error
	pn := vhlib.Recover(func() { n, err = sfuse.VerifRoot().(fs.NodeStringLookuper).Lookup(bg, name) })
	obs := "panic"
	if pn == "" {
		obs = showNode(n, err)
	} else {
		violate(c, "panic:fuse:root.Lookup", pn, c.Case())
	}
	c.Emit("rlookup "+hx(name), obs)
	c.Count("rlookup:"+strings.Fields(obs)[0], name, true)
}

func opRReadDir(c *vhlib.Ctx) {
	var es []bfuse.Dirent
	pn := vhlib.Recover(func() { es, _ = sfuse.VerifRoot().(fs.HandleReadDirAller).ReadDirAll(bg) })
	obs := "panic"
	if pn == "" {
		sort.Slice(es, func(i, j int) bool {
			if es[i].Name != es[j].Name {
				return es[i].Name < es[j].Name
			}
			return es[i].Type == bfuse.DT_Dir && es[j].Type != bfuse.DT_Dir
		})
		var w []string
		for _, e := range es {
			w = append(w, hx(e.Name)+":"+dtype(e.Type))
		}
		obs = showList(w)
	} else {
		violate(c, "panic:fuse:root.ReadDirAll", pn, c.Case())
	}
	c.Emit("rreaddir", obs)
	c.Count("rreaddir", obs, true)
}

func opFLookup(c *vhlib.Ctx, dirname, name string) {
	t := cur().t
	var n fs.Node
	var err error
	pn := vhlib.Recover(func() { n, err = sfuse.VerifDir(t.Hash, dirname).(fs.NodeStringLookuper).Lookup(bg, name) })
	obs := "panic"
	if pn == "" {
		obs = showNode(n, err)
	} else {
		violate(c, "panic:fuse:directory.Lookup", pn, c.Case())
	}
	c.Emit(fmt.Sprintf("flookup %s %s", hx(dirname), hx(name)), obs)
	c.Count("flookup:"+strings.Fields(obs)[0], dirname+"\x00"+name, true)
}

func opFReadDir(c *vhlib.Ctx, dirname string) {
	t := cur().t
	var es []bfuse.Dirent
	var err error
	pn := vhlib.Recover(func() { es, err = sfuse.VerifDir(t.Hash, dirname).(fs.HandleReadDirAller).ReadDirAll(bg) })
	obs := "panic"
	switch {
	case pn != "":
		violate(c, "panic:fuse:directory.ReadDirAll", pn, c.Case())
	case err != nil:
		obs = "enoent"
	default:
		var w []string
		for i, e := range es {
			if i < 2 && (e.Name == "." || e.Name == "..") {
				continue
			}
			w = append(w, hx(e.Name)+":"+dtype(e.Type))
		}
		obs = showList(w)
	}
	c.Emit("freaddir "+hx(dirname), obs)
	c.Count("freaddir:"+strings.Fields(obs)[0][:1], dirname, true)
}

// fuseOpen calls Attr and Open on a file node and returns (offset, length, size).
func fuseOpen(n fs.Node) (off, l int64, size uint64, err error) {
	var a bfuse.Attr
	if err = n.Attr(bg, &a); err != nil {
		return
	}
	size = a.Size
	var resp bfuse.OpenResponse
	h, err := n.(fs.NodeOpener).Open(bg, &bfuse.OpenRequest{Flags: bfuse.OpenReadOnly}, &resp)
	if err != nil {
		return
	}
	var ok bool
	off, l, ok = sfuse.VerifHandleRange(h)
	if !ok {
		err = errors.New("no range")
	}
	if r, isR := h.(fs.HandleReleaser); isR {
		r.Release(bg, &bfuse.ReleaseRequest{})
	}
	return
}

func opFOpen(c *vhlib.Ctx, filename string) {
	t := cur().t
	var off, l int64
	var size uint64
	var err error
	pn := vhlib.Recover(func() { off, l, size, err = fuseOpen(sfuse.VerifFile(t.Hash, filename)) })
	obs := "panic"
	switch {
	case pn != "":
		violate(c, "panic:fuse:file.Open", pn, c.Case())
	case err != nil && (err == bfuse.ENOENT || errors.Is(err, bfuse.ENOENT)):
		obs = "enoent"
	case err != nil:
		obs = "err " + err.Error()
	default:
		obs = fmt.Sprintf("ok %d %d size=%d", off, l, int64(size))
	}
	c.Emit("fopen "+hx(filename), obs)
	c.Count("fopen:"+strings.Fields(obs)[0], filename, true)
}

// ---------------------------------------------------------------- nodes kept across state changes

// Every node a Lookup ever returned is kept (the first instance for each kind/hash/name),
// as the kernel keeps a node while its entry is cached, and used again after the torrent's
// state has changed: metadata completed, torrent deleted and re-added, a same-named
// torrent with a smaller hash added.
type keptNode struct {
	n    fs.Node
	kind string
	hash []byte
	name string
}

var kept = map[string]*keptNode{}
var scenario = "plain"

func keptKey(kind string, h []byte, name string) string {
	return kind + "\x00" + string(h) + "\x00" + name
}

func keepNode(n fs.Node) {
	kind, h, name := sfuse.VerifNodeInfo(n)
	if kind != "dir" && kind != "file" {
		return
	}
	k := keptKey(kind, h, name)
	if kept[k] == nil {
		kept[k] = &keptNode{n, kind, append([]byte(nil), h...), name}
	}
}

func nodeFor(kind string, h []byte, name string) fs.Node {
	if k := kept[keptKey(kind, h, name)]; k != nil {
		return k.n
	}
	if kind == "dir" {
		return sfuse.VerifDir(hash.Hash(h), name)
	}
	return sfuse.VerifFile(hash.Hash(h), name)
}

func liveByHash(h []byte) *live {
	for i := range table {
		if bytes.Equal(table[i].t.Hash, h) {
			return &table[i]
		}
	}
	return nil
}

func isENOENT(err error) bool {
	return err != nil && (err == bfuse.ENOENT || errors.Is(err, bfuse.ENOENT))
}

// opNFile: Attr + Open on a (kept) file node.  Oracle: it answers what the file it names
// is NOW: that file's offset, length and size while a live, complete torrent with that
// hash has it, ENOENT otherwise.
func opNFile(c *vhlib.Ctx, h []byte, name string) {
	n := nodeFor("file", h, name)
	var off, l int64
	var size uint64
	var err error
	pn := vhlib.Recover(func() { off, l, size, err = fuseOpen(n) })
	obs := "panic"
	switch {
	case pn != "":
		violate(c, "panic:fuse:file.Open", pn, c.Case())
	case isENOENT(err):
		obs = "enoent"
	case err != nil:
		obs = "err " + err.Error()
	default:
		obs = fmt.Sprintf("ok %d %d size=%d", off, l, int64(size))
	}
	c.Emit(fmt.Sprintf("nfile %s %s", vhlib.Hex(h), hx(name)), obs)
	c.Count("nfile:"+scenario+":"+strings.Fields(obs)[0], vhlib.Hex(h)+name, true)
	if pn != "" {
		return
	}
	want := "enoent"
	judge := true
	if lv := liveByHash(h); lv != nil && lv.spec.kind != "magnet" {
		if lv.spec.kind == "single" {
			if name == lv.spec.name {
				want = fmt.Sprintf("ok 0 %d size=%d", lv.spec.length, lv.spec.length)
			} else {
				judge = false // a file node of a single-file torrent under another name: not judged
			}
		} else {
			for _, f := range lv.spec.files {
				if strings.Join(f.path, "/") == name {
					want = fmt.Sprintf("ok %d %d size=%d", f.offset, f.length, f.length)
				}
			}
		}
	}
	if judge && obs != want {
		violate(c, "fuse:stale-node:file:"+scenario, fmt.Sprintf("file node (%s, %q) answers %q, the file it names is now %q", vhlib.Hex(h)[:8], name, obs, want), c.Case())
	}
}

func dirEntries(lv *live, dirname string) map[string]bool {
	var d []string
	if dirname != "" {
		d = strings.Split(dirname, "/")
	}
	out := map[string]bool{}
	for _, f := range lv.spec.files {
		if f.pad || !within(f.path, d) {
			continue
		}
		t := "f"
		if len(f.path) > len(d)+1 {
			t = "d"
		}
		out[f.path[len(d)]+"\x00"+t] = true
	}
	return out
}

// opNDir: ReadDirAll on a (kept) directory node; oracle as above.
func opNDir(c *vhlib.Ctx, h []byte, name string) {
	n := nodeFor("dir", h, name)
	var es []bfuse.Dirent
	var err error
	pn := vhlib.Recover(func() { es, err = n.(fs.HandleReadDirAller).ReadDirAll(bg) })
	obs := "panic"
	got := map[string]bool{}
	switch {
	case pn != "":
		violate(c, "panic:fuse:directory.ReadDirAll", pn, c.Case())
	case err != nil:
		obs = "enoent"
	default:
		var w []string
		for i, e := range es {
			if i < 2 && (e.Name == "." || e.Name == "..") {
				continue
			}
			w = append(w, hx(e.Name)+":"+dtype(e.Type))
			got[e.Name+"\x00"+dtype(e.Type)] = true
		}
		obs = showList(w)
	}
	c.Emit(fmt.Sprintf("ndir %s %s", vhlib.Hex(h), hx(name)), obs)
	c.Count("ndir:"+scenario+":"+map[bool]string{true: "enoent", false: "entries"}[obs == "enoent"], vhlib.Hex(h)+name, true)
	if pn != "" {
		return
	}
	lv := liveByHash(h)
	if lv == nil || lv.spec.kind == "magnet" {
		if obs != "enoent" {
			violate(c, "fuse:stale-node:dir:"+scenario, fmt.Sprintf("directory node (%s, %q) lists %q although no live complete torrent has that hash", vhlib.Hex(h)[:8], name, obs), c.Case())
		}
		return
	}
	if lv.spec.kind == "single" {
		return // a directory node of a single-file torrent: not judged
	}
	want := dirEntries(lv, name)
	same := err == nil && len(want) == len(got)
	for k := range want {
		if !got[k] {
			same = false
		}
	}
	if !same {
		violate(c, "fuse:stale-node:dir:"+scenario, fmt.Sprintf("directory node (%s, %q) lists %q, the directory now has %d entries", vhlib.Hex(h)[:8], name, obs, len(want)), c.Case())
	}
}

// opNLook: Lookup through a (kept) directory node.
func opNLook(c *vhlib.Ctx, h []byte, dirname, name string) {
	n := nodeFor("dir", h, dirname)
	var ch fs.Node
	var err error
	pn := vhlib.Recover(func() { ch, err = n.(fs.NodeStringLookuper).Lookup(bg, name) })
	obs := "panic"
	if pn == "" {
		obs = showNode(ch, err)
	} else {
		violate(c, "panic:fuse:directory.Lookup", pn, c.Case())
	}
	c.Emit(fmt.Sprintf("nlook %s %s %s", vhlib.Hex(h), hx(dirname), hx(name)), obs)
	c.Count("nlook:"+scenario+":"+strings.Fields(obs)[0], vhlib.Hex(h)+dirname+"\x00"+name, true)
}

// useKept exercises every kept node (in a fixed order).
func useKept(c *vhlib.Ctx) {
	var keys []string
	for k := range kept {
		keys = append(keys, k)
	}
	sort.Strings(keys)
	for _, k := range keys {
		kn := kept[k]
		if kn.kind == "file" {
			opNFile(c, kn.hash, kn.name)
		} else {
			opNDir(c, kn.hash, kn.name)
			opNLook(c, kn.hash, kn.name, "nope")
			if lv := liveByHash(kn.hash); lv != nil {
				for e := range dirEntries(lv, kn.name) {
					opNLook(c, kn.hash, kn.name, strings.SplitN(e, "\x00", 2)[0])
					break
				}
			}
		}
	}
}

// lookupAll obtains (and thereby keeps) the node of every directory and file of the
// current torrent through real Lookups from the root down.
func lookupAll(c *vhlib.Ctx) {
	l := cur()
	opRLookup(c, l.spec.name)
	if l.spec.kind != "multi" {
		return
	}
	seen := map[string]bool{}
	for _, f := range l.spec.files {
		for j := 0; j < len(f.path); j++ {
			k := pkey(f.path[:j+1])
			if seen[k] {
				continue
			}
			seen[k] = true
			opNLook(c, l.t.Hash, strings.Join(f.path[:j], "/"), f.path[j])
		}
	}
}

// completeMagnet delivers the info dictionary of `full` to the current (magnet) torrent
// through the real metadata path (resizeMetadata + gotMetadata -> MetadataComplete).
func completeMagnet(c *vhlib.Ctx, full torSpec) bool {
	l := cur()
	if full.rawInfo == nil {
		full.rebuild()
	}
	info := full.rawInfo
	size := uint32(len(info))
	var done bool
	var err error
	pn := vhlib.Recover(func() {
		if err = tor.VerifResizeMetadata(l.t, size); err != nil {
			return
		}
		for i := 0; i*16384 < len(info) && err == nil; i++ {
			end := (i + 1) * 16384
			if end > len(info) {
				end = len(info)
			}
			done, err = tor.VerifGotMetadata(l.t, uint32(i), size, append([]byte(nil), info[i*16384:end]...))
		}
	})
	if pn != "" || err != nil || !done || !l.t.InfoComplete() {
		c.Note(fmt.Sprintf("magnet completion failed: panic=%q err=%v done=%v", pn, err, done))
		c.Count("complete:failed", full.name, false)
		return false
	}
	var off int64
	for i := range full.files {
		full.files[i].offset = off
		off += full.files[i].length
	}
	if full.kind == "multi" {
		full.length = off
	}
	full.mhash = l.spec.mhash
	l.spec = full
	if full.nameMode != 0 || full.pathMode != 0 {
		c.Emit("x info "+vhlib.Hex(info), "x")
	}
	if full.kind == "single" {
		c.Emit(fmt.Sprintf("complete single %d", full.length), "ok")
	} else {
		c.Emit("complete multi", "ok")
		for _, f := range full.files {
			pad := "0"
			if f.pad {
				pad = "1"
			}
			c.Emit(fmt.Sprintf("file %s %d %s", pad, f.length, compsHex(f.path)), "ok")
		}
	}
	c.Count("complete:"+full.kind, full.name, true)
	return true
}

func opKill(c *vhlib.Ctx, h []byte) {
	for i := range table {
		if bytes.Equal(table[i].t.Hash, h) {
			kill(table[i].t)
			table = append(table[:i], table[i+1:]...)
			break
		}
	}
	c.Emit("kill "+vhlib.Hex(h), "ok")
}

// runLifecycle: nodes obtained EARLIER are used AFTER the torrent's state changed.
func runLifecycle(c *vhlib.Ctx, r *vhlib.Rand, which int) {
	c.NewCase()
	resetTable(c)
	defer func() { scenario = "plain" }()
	full := genWF(r)
	if full.kind == "single" && full.length == 0 {
		full.length = 7
	}
	if r.Chance(40) {
		full.realize(r.Intn(5), r.Intn(6))
	} else {
		full.realize(0, 0)
	}
	switch which % 3 {
	case 0:
		// a magnet looked up before its metadata is known, then completed
		scenario = "magnet-complete"
		ih := full.infoHash()
		if ok, why := addTorrent(c, torSpec{kind: "magnet", name: full.name, shape: "wf", mhash: vhlib.Hex(ih)}); !ok {
			c.Count("rejected:lifecycle", why, false)
			return
		}
		opRLookup(c, full.name) // root.Lookup has no InfoComplete test: a node exists already
		opRReadDir(c)
		useKept(c)
		if !completeMagnet(c, full) {
			return
		}
		useKept(c)
		lookupAll(c)
		useKept(c)
		queries(c, r)
	case 1:
		// deleted and added again
		scenario = "kill-readd"
		if ok, why := addTorrent(c, full); !ok {
			c.Count("rejected:lifecycle", why, false)
			return
		}
		lookupAll(c)
		useKept(c)
		opKill(c, cur().t.Hash)
		opRLookup(c, full.name)
		useKept(c)
		if ok, _ := addTorrent(c, full); !ok {
			return
		}
		useKept(c)
		queries(c, r)
	default:
		// a torrent of the same name with a smaller (or larger) hash appears and goes
		scenario = "shadow"
		if ok, why := addTorrent(c, full); !ok {
			c.Count("rejected:lifecycle", why, false)
			return
		}
		first := append([]byte(nil), cur().t.Hash...)
		lookupAll(c)
		other := genWF(r)
		other.name = full.name
		other.realize(0, 0)
		best := -1
		for salt := 1; salt <= 6; salt++ {
			other.salt = salt
			other.rebuild()
			if bytes.Compare(other.infoHash(), first) < 0 {
				best = salt
				break
			}
		}
		if best < 0 {
			other.salt = 1
			other.rebuild()
		}
		if ok, _ := addTorrent(c, other); !ok {
			return
		}
		second := append([]byte(nil), cur().t.Hash...)
		opRLookup(c, full.name)
		lookupAll(c)
		useKept(c)
		opKill(c, second)
		opRLookup(c, full.name)
		useKept(c)
		opKill(c, first)
		opRLookup(c, full.name)
		useKept(c)
	}
}

// ---------------------------------------------------------------- the oracle

func samePath(a, b []string) bool {
	if len(a) != len(b) {
		return false
	}
	for i := range a {
		if a[i] != b[i] {
			return false
		}
	}
	return true
}

func within(p, d []string) bool { return len(p) > len(d) && samePath(p[:len(d)], d) }

func pkey(p []string) string { return strings.Join(p, "\x00") + fmt.Sprintf("\x00#%d", len(p)) }

// expectedFiles: the torrent's files as (path, offset, length, padding), independent of
// the implementation's table.
func expectedFiles(s *torSpec) []fileSpec {
	if s.kind == "single" {
		return []fileSpec{{path: []string{s.name}, length: s.length}}
	}
	return s.files
}

// opWalk restates the property on the real front-ends of the current torrent.
func opWalk(c *vhlib.Ctx) {
	c.Emit("x walk", "x")
	l := cur()
	if l.spec.kind == "magnet" {
		return
	}
	t := l.t
	hs := t.Hash.String()
	shape := l.spec.shape
	files := expectedFiles(&l.spec)
	viol := func(kind, detail string) {
		violate(c, kind+":"+shape, detail, c.Case())
	}

	// --- HTTP: walk the directory pages from the top, following the real links
	type seenFile struct{ n int }
	listed := map[string]int{}
	var queue []string
	visited := map[string]bool{}
	queue = append(queue, "/"+hs+"/")
	pages := 0
	for len(queue) > 0 && pages < 200 {
		pg := queue[0]
		queue = queue[1:]
		if visited[pg] {
			continue
		}
		visited[pg] = true
		pages++
		r := do("GET", pg)
		if r.panic != "" {
			viol("panic:http:directory", fmt.Sprintf("GET %s: %s", pg, r.panic))
			continue
		}
		if r.code/100 == 3 {
			viol("listing:dir-link-redirected", fmt.Sprintf("directory link %s is redirected to %s", pg, r.hdr.Get("Location")))
			continue
		}
		if r.code != 200 {
			viol("listing:dir-link-broken", fmt.Sprintf("directory link %s answers %d", pg, r.code))
			continue
		}
		var pageDir []string
		pagePlaylist := pg + "?playlist"
		if pg != "/"+hs+"/" {
			pageDir, _ = hrefComps(strings.TrimSuffix(strings.TrimPrefix(pg, "/"+hs+"/"), "/"))
			if pg == "/"+hs+"//" {
				pageDir = []string{""}
			}
		}
		// the playlist of this directory: exactly the files below it
		if pr := do("GET", pagePlaylist); pr.panic != "" {
			viol("panic:http:playlist", pr.panic)
		} else if pr.code == 200 {
			es, ok := playlistEntries(pr.body, hs)
			nwant := 0
			for _, f := range files {
				if within(f.path, pageDir) {
					nwant++
				}
			}
			bad := !ok || len(es) != nwant
			for _, e := range es {
				isFile := false
				for _, f := range files {
					if samePath(f.path, e) && within(e, pageDir) {
						isFile = true
					}
				}
				if !isFile {
					bad = true
				}
			}
			if bad {
				viol("playlist:dir-entries", fmt.Sprintf("%s has %d entries, the directory has %d files", pagePlaylist, len(es), nwant))
			}
		} else {
			viol("playlist:status", fmt.Sprintf("%s answers %d", pagePlaylist, pr.code))
		}
		for _, rw := range parseDirPage(r.body, hs) {
			if rw.dir {
				// an HTML parser hands the browser rw.href; the browser sends it percent-encoded as needed
				u, err := url.Parse(rw.href)
				if err != nil {
					viol("listing:bad-link", fmt.Sprintf("unparsable link %q", rw.href))
					continue
				}
				queue = append(queue, u.EscapedPath())
				continue
			}
			// a file row: must be one of the torrent's files below this page's directory…
			var f *fileSpec
			for i := range files {
				if rw.ok && samePath(files[i].path, rw.p) {
					f = &files[i]
					break
				}
			}
			if f == nil || !within(rw.p, pageDir) && pg != "/"+hs+"/" {
				viol("listing:names-no-file", fmt.Sprintf("page %s lists %q (link %q): not a file of the torrent below that directory", pg, rw.text, rw.href))
				continue
			}
			if pg == "/"+hs+"/" {
				listed[pkey(rw.p)]++
			}
			// …and the link must resolve to exactly that file
			u, err := url.Parse(rw.href)
			if err != nil {
				viol("listing:bad-link", fmt.Sprintf("unparsable link %q", rw.href))
				continue
			}
			a := headFile(u.EscapedPath(), hs)
			switch {
			case a.panic != "":
				viol("panic:http:file", fmt.Sprintf("HEAD %s: %s", u.EscapedPath(), a.panic))
			case a.code != 200 || !a.ok:
				viol("listing:link-unresolved", fmt.Sprintf("listed file %q: link %q answers %d", f.path, rw.href, a.code))
			default:
				// any file with this path and these coordinates will do (duplicates are judged below)
				good := false
				for i := range files {
					if samePath(files[i].path, rw.p) && files[i].offset == a.off && files[i].length == a.len {
						good = true
					}
				}
				if !good {
					viol("listing:link-wrong-file", fmt.Sprintf("listed file %q: link %q resolves to offset %d length %d, the file is at %d/%d", f.path, rw.href, a.off, a.len, f.offset, f.length))
				}
			}
		}
	}
	// the top page names exactly the files, each once
	want := map[string]int{}
	for _, f := range files {
		want[pkey(f.path)]++
	}
	for k, n := range want {
		if listed[k] != n {
			viol("listing:file-missing-or-repeated", fmt.Sprintf("file %q is listed %d times on the top page, the torrent has it %d times", strings.Split(k, "\x00"), listed[k], n))
			break
		}
	}
	// every file resolves through its canonical URL to its own offset and length; with
	// duplicate paths only one of them can: that is a violation too
	for i, f := range files {
		if len(f.path) == 0 {
			continue
		}
		var segs []string
		for _, s := range f.path {
			segs = append(segs, encodeAll(s))
		}
		a := headFile("/"+hs+"/"+strings.Join(segs, "/"), hs)
		switch {
		case a.panic != "":
			viol("panic:http:file", a.panic)
		case a.code != 200 || !a.ok:
			viol("resolve:own-path-unresolved", fmt.Sprintf("file #%d %q does not resolve (%d)", i, f.path, a.code))
		case a.off != f.offset || a.len != f.length:
			viol("resolve:own-path-other-file", fmt.Sprintf("file #%d %q at %d/%d resolves to %d/%d", i, f.path, f.offset, f.length, a.off, a.len))
		}
	}
	// playlist of the whole torrent: one entry per file, each resolving
	r := do("GET", "/"+hs+".m3u")
	switch {
	case r.panic != "":
		viol("panic:http:playlist", r.panic)
	case r.code == 200:
		es, ok := playlistEntries(r.body, hs)
		if !ok {
			viol("playlist:unparsable", fmt.Sprintf("%q", r.body))
		} else {
			got := map[string]int{}
			for _, e := range es {
				got[pkey(e)]++
			}
			for k, n := range want {
				if got[k] != n {
					viol("playlist:entry-missing-or-repeated", fmt.Sprintf("file %q has %d playlist entries, expected %d", strings.Split(k, "\x00"), got[k], n))
					break
				}
			}
			if len(es) != len(files) {
				viol("playlist:entry-count", fmt.Sprintf("%d entries for %d files", len(es), len(files)))
			}
		}
	default:
		viol("playlist:status", fmt.Sprintf("/%s.m3u answers %d", hs, r.code))
	}

	// --- FUSE: walk the tree from the root through the public node interfaces
	root := sfuse.VerifRoot()
	var n fs.Node
	var err error
	if pn := vhlib.Recover(func() { n, err = root.(fs.NodeStringLookuper).Lookup(bg, l.spec.name) }); pn != "" {
		viol("panic:fuse:walk", pn)
		return
	}
	if err != nil {
		viol("fuse:root-lookup-failed", fmt.Sprintf("root.Lookup(%q): %v", l.spec.name, err))
		return
	}
	if k, h, _ := sfuse.VerifNodeInfo(n); !bytes.Equal(h, t.Hash) {
		// another live torrent has the same name: the one with the smallest hash must win
		_ = k
		var min []byte
		for _, o := range table {
			if o.spec.name == l.spec.name && (min == nil || bytes.Compare(o.t.Hash, min) < 0) {
				min = o.t.Hash
			}
		}
		if !bytes.Equal(h, min) {
			viol("fuse:root-lookup-not-smallest-hash", fmt.Sprintf("root.Lookup(%q) gives %s, the smallest live hash of that name is %s", l.spec.name, vhlib.Hex(h), vhlib.Hex(min)))
		}
		c.Count("walk:fuse-shadowed", shape, false)
		return
	}
	type found struct {
		off, len int64
		size     uint64
	}
	foundFiles := map[string][]found{}
	var walk func(n fs.Node, p []string, depth int)
	walk = func(n fs.Node, p []string, depth int) {
		if depth > 40 {
			viol("fuse:tree-too-deep", "")
			return
		}
		kind, _, _ := sfuse.VerifNodeInfo(n)
		if kind == "file" {
			off, ln, size, err := fuseOpen(n)
			if err != nil {
				viol("fuse:dirent-unresolved", fmt.Sprintf("file node for %q: %v", p, err))
				return
			}
			foundFiles[pkey(p)] = append(foundFiles[pkey(p)], found{off, ln, size})
			return
		}
		var es []bfuse.Dirent
		es, err := n.(fs.HandleReadDirAller).ReadDirAll(bg)
		if err != nil {
			viol("fuse:readdir-failed", fmt.Sprintf("%q: %v", p, err))
			return
		}
		for i, e := range es {
			if i < 2 && (e.Name == "." || e.Name == "..") {
				continue
			}
			ch, err := n.(fs.NodeStringLookuper).Lookup(bg, e.Name)
			if err != nil {
				viol("fuse:dirent-unresolved", fmt.Sprintf("%q lists %q but Lookup fails: %v", p, e.Name, err))
				continue
			}
			ck, _, _ := sfuse.VerifNodeInfo(ch)
			if (ck == "dir") != (e.Type == bfuse.DT_Dir) {
				viol("fuse:dirent-type", fmt.Sprintf("%q lists %q as %v but Lookup gives a %s", p, e.Name, e.Type, ck))
			}
			if e.Name == "" || e.Name == "." || e.Name == ".." || strings.Contains(e.Name, "/") {
				viol("fuse:illegal-dirent-name", fmt.Sprintf("%q lists the name %q", p, e.Name))
			}
			walk(ch, append(append([]string(nil), p...), e.Name), depth+1)
		}
	}
	pn := vhlib.Recover(func() {
		if l.spec.kind == "single" {
			walk(n, []string{l.spec.name}, 0)
		} else {
			walk(n, nil, 0)
		}
	})
	if pn != "" {
		viol("panic:fuse:walk", pn)
		return
	}
	wantF := map[string][]fileSpec{}
	for _, f := range files {
		if !f.pad {
			wantF[pkey(f.path)] = append(wantF[pkey(f.path)], f)
		}
	}
	for k, fs := range wantF {
		got := foundFiles[k]
		if len(got) != len(fs) {
			viol("fuse:file-missing-or-repeated", fmt.Sprintf("file %q found %d times in the tree, the torrent has it %d times", strings.Split(k, "\x00"), len(got), len(fs)))
			continue
		}
		for i := range fs {
			match := false
			for _, g := range got {
				if g.off == fs[i].offset && g.len == fs[i].length && int64(g.size) == fs[i].length {
					match = true
				}
			}
			if !match {
				viol("fuse:wrong-file", fmt.Sprintf("file %q at %d/%d: the tree gives %+v", fs[i].path, fs[i].offset, fs[i].length, got))
			}
		}
	}
	for k := range foundFiles {
		if _, ok := wantF[k]; !ok {
			viol("fuse:names-no-file", fmt.Sprintf("the tree contains %q which is not a (non-padding) file of the torrent", strings.Split(k, "\x00")))
		}
	}
	c.Count("walk:"+l.spec.kind, shape, true)
}

// crafted lookups that must not resolve (oracle) — also run as compared ops by the caller
func oracleAbsent(c *vhlib.Ctx, s string) {
	l := cur()
	if l.spec.kind == "magnet" {
		return
	}
	hs := l.t.Hash.String()
	files := expectedFiles(&l.spec)
	// the decoded remainder s names a file iff Parse-like splitting gives one of the paths;
	// judge only strings that certainly name none: no file path joins to the trimmed s
	trim := strings.Trim(s, "/")
	for _, f := range files {
		if strings.Join(f.path, "/") == trim {
			return
		}
	}
	if strings.HasSuffix("/"+s, "/") {
		return
	}
	a := headFile("/"+hs+"/"+encodeAll(s), hs)
	if a.panic != "" {
		violate(c, "panic:http:file:"+l.spec.shape, a.panic, c.Case())
	} else if a.code == 200 {
		violate(c, "resolve:absent-path-resolves:"+l.spec.shape, fmt.Sprintf("%q names no file but resolves to %d/%d", s, a.off, a.len), c.Case())
	}
}

// ---------------------------------------------------------------- generators

var goodComps = []string{"a", "b", "ab", "a b", "dir", "sub dir", "x.txt", "100%", "q?x", "h#1", "a+b", "é", "日本", "a&b", "x&amp;y", "it's", "say \"hi\"",
	"<b>", "a;b", "a,b", "~t", "$1", "a=b", "@", "UPPER", "upper", ".hidden", "...", "a.", "c:d", "%41", "%2F", "a\\b", "tab\there", "\xff\xfe", "-", "_"}

func genComp(r *vhlib.Rand) string {
	if r.Chance(85) {
		return goodComps[r.Intn(len(goodComps))]
	}
	n := 1 + r.Intn(4)
	b := make([]byte, n)
	for i := range b {
		for {
			b[i] = byte(r.U64())
			if b[i] != '/' {
				break
			}
		}
	}
	return string(b)
}

func genWF(r *vhlib.Rand) torSpec {
	s := torSpec{shape: "wf", name: genComp(r)}
	if s.name == "." || s.name == ".." {
		s.name = "n" + s.name
	}
	if r.Chance(20) {
		s.kind = "single"
		s.length = int64(r.PickInt(1, 5, 16384, 16385, 100000))
		return s
	}
	s.kind = "multi"
	nf := 1 + r.Intn(8)
	used := map[string]bool{} // file paths
	dirs := map[string]bool{} // directory prefixes
	var dirPool [][]string
	dirPool = append(dirPool, nil)
	for i := 0; i < nf; i++ {
		var d []string
		if r.Chance(60) {
			d = dirPool[r.Intn(len(dirPool))]
		}
		if r.Chance(40) && len(d) < 4 {
			d = append(append([]string(nil), d...), genComp(r))
		}
		p := append(append([]string(nil), d...), genComp(r))
		bad := false
		for _, cpt := range p {
			if cpt == "." || cpt == ".." {
				bad = true
			}
		}
		k := pkey(p)
		if bad || used[k] || dirs[k] {
			continue
		}
		// no prefix of p may be a file
		for j := 1; j < len(p); j++ {
			if used[pkey(p[:j])] {
				bad = true
			}
		}
		if bad {
			continue
		}
		used[k] = true
		for j := 1; j < len(p); j++ {
			if !dirs[pkey(p[:j])] {
				dirs[pkey(p[:j])] = true
				dirPool = append(dirPool, append([]string(nil), p[:j]...))
			}
		}
		f := fileSpec{path: p, length: int64(r.PickInt(0, 0, 1, 7, 100, 16384, 20000))}
		if r.Chance(15) {
			f.pad = true
			f.path = append(append([]string(nil), d...), ".pad"+strconv.Itoa(i))
			if used[pkey(f.path)] {
				continue
			}
			used[pkey(f.path)] = true
		}
		s.files = append(s.files, f)
	}
	if len(s.files) == 0 {
		s.files = []fileSpec{{path: []string{"only"}, length: 3}}
	}
	return s
}

var illShapes = []string{"empty-path", "empty-comp", "lead-empty-comp", "trail-empty-comp", "slash-comp", "slash-comp-clash", "dot-comp", "dotdot-comp",
	"dup-path", "file-is-dir", "dir-then-file", "name-slash", "name-only-slash", "name-slashes-single", "name-dot", "name-dotdot", "single-name-slash", "lead-slash-comp"}

func genIll(r *vhlib.Rand, shape string) torSpec {
	s := genWF(r)
	s.shape = shape
	mk := func() {
		if s.kind != "multi" {
			s.kind, s.length = "multi", 0
			s.files = []fileSpec{{path: []string{"keep"}, length: 4}}
		}
	}
	switch shape {
	case "empty-path":
		mk()
		s.files = append(s.files, fileSpec{path: []string{}, length: 9})
	case "empty-comp":
		mk()
		s.files = append(s.files, fileSpec{path: []string{"ec", "", "f"}, length: 9})
	case "lead-empty-comp":
		mk()
		s.files = append(s.files, fileSpec{path: []string{"", "lead"}, length: 9})
	case "trail-empty-comp":
		mk()
		s.files = append(s.files, fileSpec{path: []string{"trail", ""}, length: 9})
	case "slash-comp":
		mk()
		s.files = append(s.files, fileSpec{path: []string{"sl/ash"}, length: 9})
	case "lead-slash-comp":
		mk()
		s.files = append(s.files, fileSpec{path: []string{"/abs"}, length: 9})
	case "slash-comp-clash":
		mk()
		s.files = append(s.files, fileSpec{path: []string{"cl", "ash"}, length: 5}, fileSpec{path: []string{"cl/ash"}, length: 9})
	case "dot-comp":
		mk()
		s.files = append(s.files, fileSpec{path: []string{"dd", ".", "f"}, length: 9})
	case "dotdot-comp":
		mk()
		s.files = append(s.files, fileSpec{path: []string{"dd", "..", "f"}, length: 9})
	case "dup-path":
		mk()
		s.files = append(s.files, fileSpec{path: []string{"dup", "f"}, length: 5}, fileSpec{path: []string{"dup", "f"}, length: 9})
	case "file-is-dir":
		mk()
		s.files = append(s.files, fileSpec{path: []string{"fd"}, length: 5}, fileSpec{path: []string{"fd", "inner"}, length: 9})
	case "dir-then-file":
		mk()
		s.files = append(s.files, fileSpec{path: []string{"df", "inner"}, length: 9}, fileSpec{path: []string{"df"}, length: 5})
	case "name-slash":
		mk()
		s.name = "na/me"
	case "name-only-slash":
		mk()
		s.name = "/"
	case "name-slashes-single":
		s.kind, s.files, s.length = "single", nil, 77
		s.name = pick(r, "/", "//", "///")
	case "name-dot":
		s.name = "."
	case "name-dotdot":
		s.name = ".."
	case "single-name-slash":
		s.kind, s.files, s.length = "single", nil, 77
		s.name = pick(r, "a/b", "/abs", "trail/", "a//b")
	}
	return s
}

func tryUnHex(h string) (b []byte, ok bool) {
	defer func() {
		if recover() != nil {
			b, ok = nil, false
		}
	}()
	return vhlib.UnHex(h), true
}

func pick(r *vhlib.Rand, vs ...string) string { return vs[r.Intn(len(vs))] }

// ---------------------------------------------------------------- one case

func allDirs(files []fileSpec) [][]string {
	seen := map[string]bool{}
	var out [][]string
	for _, f := range files {
		for j := 1; j < len(f.path); j++ {
			k := pkey(f.path[:j])
			if !seen[k] {
				seen[k] = true
				out = append(out, f.path[:j])
			}
		}
	}
	return out
}

func queries(c *vhlib.Ctx, r *vhlib.Rand) {
	l := cur()
	files := expectedFiles(&l.spec)
	if l.spec.kind == "magnet" {
		files = nil
	}
	dirs := allDirs(files)
	// http: the top page, every directory, every file, by decoded remainder
	opHget(c, "", "get")
	opHget(c, "", "playlist")
	for _, d := range dirs {
		s := strings.Join(d, "/") + "/"
		opHget(c, s, "get")
		opHget(c, s, "playlist")
		opHget(c, strings.Join(d, "/"), "get") // a directory without the slash is not a file
		opFReadDir(c, strings.Join(d, "/"))
	}
	opFReadDir(c, "")
	for _, f := range files {
		s := strings.Join(f.path, "/")
		opHget(c, s, "get")
		opParms(c, f.path)
		opFOpen(c, s)
		if len(f.path) > 0 {
			opFLookup(c, strings.Join(f.path[:len(f.path)-1], "/"), f.path[len(f.path)-1])
		}
		opParse(c, s)
	}
	for _, d := range dirs {
		opFLookup(c, strings.Join(d[:len(d)-1], "/"), d[len(d)-1])
	}
	// absent, partial and crafted lookups
	var crafted []string
	crafted = append(crafted, "nope", "nope/", "a/../b", "..", ".", "%2F", "//", "/", l.spec.name, l.spec.name+"/x", "\x00")
	for _, f := range files {
		s := strings.Join(f.path, "/")
		crafted = append(crafted, s+"/", s+"/x", s+"x", "/"+s, s+"//", strings.ToUpper(s), strings.Replace(s, "/", "//", 1), strings.Replace(s, "/", "/./", 1))
		if len(s) > 1 {
			crafted = append(crafted, s[:len(s)-1], s[1:])
		}
		if len(f.path) > 1 {
			crafted = append(crafted, strings.Join(f.path[1:], "/"), strings.Join(f.path, ""), strings.Join(f.path[:len(f.path)-1], "/")+"/"+f.path[len(f.path)-1]+"/"+f.path[len(f.path)-1])
		}
	}
	for i, s := range crafted {
		if i > 40 {
			break
		}
		opHget(c, s, "get")
		oracleAbsent(c, s)
		opParms(c, path.Parse(s))
		opFOpen(c, s)
		opParse(c, s)
		if r.Chance(30) {
			opHget(c, s, "playlist")
		}
		if r.Chance(30) {
			opFLookup(c, s, "x")
			opFLookup(c, "", s)
			opFReadDir(c, s)
		}
	}
	opParms(c, nil)
	opParms(c, []string{""})
	// path algebra on this torrent's paths
	var ps [][]string
	for _, f := range files {
		ps = append(ps, f.path)
	}
	ps = append(ps, dirs...)
	ps = append(ps, nil, []string{""}, []string{"a"}, []string{"a", ""})
	for i := 0; i < 12 && len(ps) > 0; i++ {
		a, b := ps[r.Intn(len(ps))], ps[r.Intn(len(ps))]
		opCmp(c, a, b)
	}
	// fuse root
	opRReadDir(c)
	opRLookup(c, l.spec.name)
	opRLookup(c, l.spec.name+"x")
	opRLookup(c, "")
	opWalk(c)
}

func runCase(c *vhlib.Ctx, r *vhlib.Rand, specs []torSpec) {
	c.NewCase()
	resetTable(c)
	for i := range specs {
		if !specs[i].realized {
			nm, pm := 0, 0
			if r.Chance(35) {
				pm = r.Intn(6)
			}
			if r.Chance(25) {
				nm = r.Intn(5)
			}
			specs[i].realize(nm, pm)
		}
		ok, why := addTorrent(c, specs[i])
		if !ok {
			c.Count("rejected:"+specs[i].shape, why, false)
			if specs[i].shape == "wf" {
				c.Note(fmt.Sprintf("well-formed torrent rejected: %s: %q %+v", why, specs[i].name, specs[i].files))
			}
			if i == len(specs)-1 {
				return
			}
		}
	}
	if len(table) == 0 {
		return
	}
	queries(c, r)
}

func genCase(c *vhlib.Ctx, r *vhlib.Rand, i int) {
	switch k := r.Intn(100); {
	case k < 18:
		runLifecycle(c, r, i)
	case k < 65:
		runCase(c, r, []torSpec{genWF(r)})
	case k < 78:
		// duplicate names: GetByName must pick the smallest hash
		a := genWF(r)
		b := genWF(r)
		b.name = a.name
		b.salt = 1
		specs := []torSpec{a, b}
		if r.Bool() {
			m := torSpec{kind: "magnet", name: a.name, shape: "wf", salt: 2}
			specs = append(specs, m)
			if r.Bool() {
				specs[1], specs[2] = specs[2], specs[1]
			}
		}
		runCase(c, r, specs)
	case k < 84:
		runCase(c, r, []torSpec{{kind: "magnet", name: genComp(r), shape: "wf"}})
	default:
		runCase(c, r, []torSpec{genIll(r, illShapes[(i+r.Intn(3))%len(illShapes)])})
	}
}

// replay: the op lines rebuild the same torrents
func replay(c *vhlib.Ctx) {
	scenario = "replay"
	var pending *torSpec
	var pendingMeta, pendingInfo []byte
	pendingIsCompletion := false
	flush := func() {
		if pending != nil {
			s := *pending
			pending = nil
			if pendingIsCompletion {
				pendingIsCompletion = false
				if len(table) > 0 {
					completeMagnet(c, s)
				}
				return
			}
			if ok, why := addTorrent(c, s); !ok {
				c.Note("replay: torrent rejected: " + why)
			}
		}
	}
	unhexAll := func(ws []string) []string {
		var p []string
		for _, w := range ws {
			p = append(p, string(vhlib.UnHex(w)))
		}
		return p
	}
	c.NewCase()
	for _, l := range c.ReplayLines() {
		f := strings.Fields(l)
		if len(f) == 0 {
			continue
		}
		if f[0] != "file" {
			flush()
		}
		needsCur := map[string]bool{"parms": true, "hget": true, "flookup": true, "freaddir": true, "fopen": true, "complete": true}
		if len(table) == 0 && (needsCur[f[0]] || f[0] == "x" && len(f) == 2) {
			c.Emit(l, "bad-op")
			continue
		}
		switch {
		case f[0] == "x" && len(f) == 3 && (f[1] == "meta" || f[1] == "info"):
			c.Emit(l, "x")
			if raw, ok := tryUnHex(f[2]); ok {
				if f[1] == "meta" {
					pendingMeta = raw
				} else {
					pendingInfo = raw
				}
			}
		case f[0] == "reset":
			c.NewCase()
			resetTable(c)
		case f[0] == "new" && len(f) >= 4:
			s := torSpec{name: string(vhlib.UnHex(f[2])), kind: f[3], shape: "replay", salt: len(table)}
			if f[3] == "single" && len(f) == 5 {
				s.length, _ = strconv.ParseInt(f[4], 10, 64)
			}
			if f[3] == "magnet" {
				s.mhash = f[1]
				s.salt = 0
			} else if pendingMeta != nil {
				s.rawMeta, pendingMeta = pendingMeta, nil
			}
			pending = &s
		case f[0] == "complete" && len(f) >= 2:
			s := torSpec{name: cur().spec.name, kind: f[1], shape: "replay"}
			if f[1] == "single" && len(f) == 3 {
				s.length, _ = strconv.ParseInt(f[2], 10, 64)
			}
			if pendingInfo != nil {
				s.rawInfo, pendingInfo = pendingInfo, nil
			}
			pending, pendingIsCompletion = &s, true
		case f[0] == "kill" && len(f) == 2:
			opKill(c, vhlib.UnHex(f[1]))
		case f[0] == "nfile" && len(f) == 3:
			opNFile(c, vhlib.UnHex(f[1]), string(vhlib.UnHex(f[2])))
		case f[0] == "ndir" && len(f) == 3:
			opNDir(c, vhlib.UnHex(f[1]), string(vhlib.UnHex(f[2])))
		case f[0] == "nlook" && len(f) == 4:
			opNLook(c, vhlib.UnHex(f[1]), string(vhlib.UnHex(f[2])), string(vhlib.UnHex(f[3])))
		case f[0] == "file" && len(f) >= 3 && pending != nil:
			ln, _ := strconv.ParseInt(f[2], 10, 64)
			pending.files = append(pending.files, fileSpec{path: append([]string{}, unhexAll(f[3:])...), length: ln, pad: f[1] == "1"})
		case f[0] == "parms":
			opParms(c, unhexAll(f[1:]))
		case f[0] == "hget" && len(f) == 3:
			opHget(c, string(vhlib.UnHex(f[1])), f[2])
		case f[0] == "parse" && len(f) == 2:
			opParse(c, string(vhlib.UnHex(f[1])))
		case f[0] == "cmp":
			i := 1
			for i < len(f) && f[i] != "/" {
				i++
			}
			if i < len(f) {
				opCmp(c, unhexAll(f[1:i]), unhexAll(f[i+1:]))
			}
		case f[0] == "rlookup" && len(f) == 2:
			opRLookup(c, string(vhlib.UnHex(f[1])))
		case f[0] == "rreaddir":
			opRReadDir(c)
		case f[0] == "flookup" && len(f) == 3:
			opFLookup(c, string(vhlib.UnHex(f[1])), string(vhlib.UnHex(f[2])))
		case f[0] == "freaddir" && len(f) == 2:
			opFReadDir(c, string(vhlib.UnHex(f[1])))
		case f[0] == "fopen" && len(f) == 2:
			opFOpen(c, string(vhlib.UnHex(f[1])))
		case f[0] == "x" && len(f) == 2 && f[1] == "walk":
			opWalk(c)
		default:
			c.Emit(l, "bad-op")
		}
	}
	flush()
}

func main() {
	c := vhlib.Init("c20")
	defer c.Close()
	log.SetOutput(io.Discard)
	config.DefaultDhtMode = config.DhtNone
	config.DefaultUseTrackers = false
	config.DefaultUseWebseeds = false
	config.SetDefaultProxy("")
	mux = shttp.VerifMux()
	_ = syscall.ENOENT
	c.Rep.Rule = "file tables from a generator (nested directories, shared prefixes, names needing URL/HTML escaping, empty and padding files, duplicate torrent names, magnets) plus an ill-formed stream (empty/dot/slash components, duplicate paths, file-is-directory, odd torrent names) turned into real torrents; every directory page, link, playlist, fileParms lookup and FUSE node method compared with the model, every real link and dirent followed by the oracle; non-trivial = the torrent was accepted; distinct = distinct op lines"
	defer func() {
		for _, l := range table {
			kill(l.t)
		}
	}()
	if c.Replay != "" {
		replay(c)
		return
	}
	// one case per ill-formed shape first, then the mix
	for _, sh := range illShapes {
		runCase(c, c.R, []torSpec{genIll(c.R, sh)})
		// the same defect in every variant of the field
		isName := strings.HasPrefix(sh, "name-") || sh == "single-name-slash"
		for mode := 1; mode <= 5; mode++ {
			sp := genIll(c.R, sh)
			if isName {
				if mode == 5 {
					continue
				}
				sp.realize(mode, 0)
			} else {
				sp.realize(0, mode)
			}
			runCase(c, c.R, []torSpec{sp})
		}
	}
	for i := 0; i < c.N; i++ {
		genCase(c, c.R, i)
	}
}
