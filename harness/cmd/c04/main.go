// vh c04: correspondence stream + property oracle for protocol.Read (C04).
// One op per case: "dec <hex stream>" (model and implementation compared line by line) or
// "decx <hex stream>" (hostile bencode: oracle only; the model answers "x").
package main

import (
	"bufio"
	"bytes"
	"encoding/binary"
	"errors"
	"fmt"
	"io"
	"runtime"
	"runtime/debug"
	"strings"

	"github.com/jech/storrent/protocol"

	"verifharness/vhlib"
	"verifharness/wirecanon"
)

type countReader struct {
	r io.Reader
	n int
}

func (c *countReader) Read(p []byte) (int, error) {
	n, err := c.r.Read(p)
	c.n += n
	return n, err
}

// cutReader delivers data in short reads ending at the given positions; in every gap
// between two reads `between` runs (another connection decoding in the meantime).
type cutReader struct {
	data    []byte
	cuts    []int
	pos     int
	between func()
}

func (c *cutReader) Read(p []byte) (int, error) {
	if c.pos >= len(c.data) {
		return 0, io.EOF
	}
	end := len(c.data)
	for _, k := range c.cuts {
		if k > c.pos {
			end = k
			break
		}
	}
	if end > len(c.data) {
		end = len(c.data)
	}
	if c.pos > 0 && c.between != nil {
		c.between()
	}
	n := copy(p, c.data[c.pos:end])
	c.pos += n
	return n, nil
}

// delivery plan of the next runOne: nil = the whole stream in one read
type plan struct {
	cuts  []int
	other []byte // a valid frame decoded on another connection in every gap
}

var curPlan *plan

const frameCap = 1024 * 1024

func trunc(s string, n int) string {
	if len(s) > n {
		return s[:n] + "…"
	}
	return s
}

func classify(err error, id int) string {
	if id == 20 {
		if errors.Is(err, protocol.ErrParse) {
			return "parse"
		}
		return "exterr"
	}
	switch {
	case errors.Is(err, io.EOF), errors.Is(err, io.ErrUnexpectedEOF):
		return "eof"
	case errors.Is(err, protocol.ErrParse):
		return "parse"
	case err.Error() == "TLV too long":
		return "toolong"
	}
	return "other:" + err.Error()
}

func idOf(m protocol.Message) int {
	switch m.(type) {
	case protocol.KeepAlive:
		return -1
	case protocol.Choke:
		return 0
	case protocol.Unchoke:
		return 1
	case protocol.Interested:
		return 2
	case protocol.NotInterested:
		return 3
	case protocol.Have:
		return 4
	case protocol.Bitfield:
		return 5
	case protocol.Request:
		return 6
	case protocol.Piece:
		return 7
	case protocol.Cancel:
		return 8
	case protocol.Port:
		return 9
	case protocol.SuggestPiece:
		return 13
	case protocol.HaveAll:
		return 14
	case protocol.HaveNone:
		return 15
	case protocol.RejectRequest:
		return 16
	case protocol.AllowedFast:
		return 17
	case protocol.Extended0, protocol.ExtendedPex, protocol.ExtendedMetadata,
		protocol.ExtendedDontHave, protocol.ExtendedUploadOnly, protocol.ExtendedUnknown:
		return 20
	case protocol.Unknown:
		return -2
	}
	return -3
}

// runOne feeds one byte stream to protocol.Read, emits the op/obs pair and evaluates the
// property's own predicate on what the real code did.
func runOne(c *vhlib.Ctx, stream []byte, compare bool, tag string) {
	opname := "dec"
	if !compare {
		opname = "decx"
	}
	op := opname + " " + vhlib.Hex(stream)
	pl := curPlan
	curPlan = nil
	if pl != nil && compare {
		cs := make([]string, len(pl.cuts))
		for i, k := range pl.cuts {
			cs[i] = fmt.Sprint(k)
		}
		oh := "-"
		if len(pl.other) > 0 {
			oh = vhlib.Hex(pl.other)
		}
		op = "decs " + vhlib.Hex(stream) + " " + strings.Join(cs, ",") + " " + oh
	} else {
		pl = nil
	}
	var L uint32
	id, sub := -1, -1
	if len(stream) >= 4 {
		L = binary.BigEndian.Uint32(stream)
	}
	if len(stream) >= 5 && L > 0 {
		id = int(stream[4])
	}
	if len(stream) >= 6 && id == 20 {
		sub = int(stream[5])
	}
	shape := fmt.Sprintf("id=%d", id)
	if id == 20 {
		shape = fmt.Sprintf("id=20:sub=%d", sub)
	}

	var src io.Reader = bytes.NewReader(stream)
	var otherAlloc uint64 // allocated by the other connection in the gaps: not this frame's
	if pl != nil {
		cut := &cutReader{data: stream, cuts: pl.cuts}
		if len(pl.other) > 0 {
			// what the other connection must decode to, established before this call
			var want string
			if m0, e0 := protocol.Read(bufio.NewReader(bytes.NewReader(pl.other)), nil); e0 == nil && m0 != nil {
				want = wirecanon.Canon(m0)
				if pm, ok := m0.(protocol.Piece); ok {
					protocol.PutBuffer(pm.Data)
				}
			}
			cut.between = func() {
				var b0, b1 runtime.MemStats
				runtime.ReadMemStats(&b0)
				defer func() {
					runtime.ReadMemStats(&b1)
					otherAlloc += b1.TotalAlloc - b0.TotalAlloc
				}()
				var got string
				pp := vhlib.Recover(func() {
					m1, e1 := protocol.Read(bufio.NewReader(bytes.NewReader(pl.other)), nil)
					if e1 == nil && m1 != nil {
						got = wirecanon.Canon(m1)
						if pm, ok := m1.(protocol.Piece); ok {
							protocol.PutBuffer(pm.Data)
						}
					}
				})
				if pp != "" || got != want {
					c.Violate("interference:other-connection", fmt.Sprintf("a frame decoded on a second connection between two reads of the first gave %q, alone %q %s", got, want, pp), []string{op})
				}
			}
		}
		src = cut
	}
	cr := &countReader{r: src}
	br := bufio.NewReaderSize(cr, 4096)
	var m protocol.Message
	var err error
	var ms0, ms1 runtime.MemStats
	runtime.ReadMemStats(&ms0)
	p := vhlib.Recover(func() { m, err = protocol.Read(br, nil) })
	runtime.ReadMemStats(&ms1)
	alloc := ms1.TotalAlloc - ms0.TotalAlloc - otherAlloc
	consumed := cr.n - br.Buffered()

	var obs string
	switch {
	case p != "":
		obs = "panic"
		c.Violate("panic:"+shape, "protocol.Read panicked: "+p, []string{op})
	case err != nil:
		cs := fmt.Sprint(consumed)
		if id == 20 {
			cs = "?"
		}
		obs = fmt.Sprintf("err %s c=%s", classify(err, id), cs)
	case m == nil:
		obs = fmt.Sprintf("nilnil c=%d", consumed)
		c.Violate("nilnil:"+shape, fmt.Sprintf("protocol.Read returned (nil, nil) for L=%d", L), []string{op})
	default:
		obs = fmt.Sprintf("msg %s c=%d", wirecanon.Canon(m), consumed)
	}
	if !compare {
		obs = "x"
	}
	c.Emit(op, obs)
	if pl != nil {
		// the outcome must not depend on how the bytes were delivered nor on what other
		// connections decode meanwhile: same stream, one read, nothing in between
		var m2 protocol.Message
		var err2 error
		cr2 := &countReader{r: bytes.NewReader(stream)}
		br2 := bufio.NewReaderSize(cr2, 4096)
		p2 := vhlib.Recover(func() { m2, err2 = protocol.Read(br2, nil) })
		obs2 := "panic"
		switch {
		case p2 != "":
		case err2 != nil:
			cs := fmt.Sprint(cr2.n - br2.Buffered())
			if id == 20 {
				cs = "?"
			}
			obs2 = fmt.Sprintf("err %s c=%s", classify(err2, id), cs)
		case m2 == nil:
			obs2 = "nilnil"
		default:
			obs2 = fmt.Sprintf("msg %s c=%d", wirecanon.Canon(m2), cr2.n-br2.Buffered())
			if pm, ok := m2.(protocol.Piece); ok {
				protocol.PutBuffer(pm.Data)
			}
		}
		if obs2 != obs {
			kind := "delivery:cut-dependent:"
			if len(pl.other) > 0 {
				kind = "delivery:cut-or-neighbour-dependent:"
			}
			c.Violate(kind+shape, fmt.Sprintf("delivered in short reads: %s; delivered whole: %s", trunc(obs, 200), trunc(obs2, 200)), []string{op})
		}
	}

	// ---- property oracle (restates C04, independent of the model) ----
	if len(stream) >= 4 {
		if consumed > 4+int(L) && !(L > frameCap) {
			c.Violate("overread:"+shape, fmt.Sprintf("consumed %d bytes of a frame of 4+%d", consumed, L), []string{op})
		}
		if L > frameCap && p == "" && err == nil {
			c.Violate("cap:"+shape, fmt.Sprintf("frame of %d bytes above the 1 MiB cap not refused (consumed=%d)", L, consumed), []string{op})
		}
		if p == "" && err == nil && m != nil && consumed != 4+int(L) {
			c.Violate("short-consume:"+shape, fmt.Sprintf("message returned but consumed %d != 4+%d", consumed, L), []string{op})
		}
		// "a small multiple of the frame length": linear bound, constant 128 (a nested
		// bencode list costs the reflection decoder ~70 bytes per input byte)
		bound := uint64(128)*uint64(L) + 64*1024
		if L > frameCap {
			bound = 64 * 1024
		}
		if alloc > bound {
			k := "alloc:" + shape
			if id == 20 && overlongStrPrefix(stream[6:]) {
				k += ":bencode-strlen-prefix"
			}
			c.Violate(k, fmt.Sprintf("allocated %d bytes for a frame of %d (bound %d)", alloc, L, bound), []string{op})
		}
	} else if consumed > len(stream) {
		c.Violate("overread:short", "consumed more than available", []string{op})
	}
	if p == "" && err == nil && m != nil {
		// well-formedness of the returned message w.r.t. the frame
		mid := idOf(m)
		bad := ""
		switch mm := m.(type) {
		case protocol.KeepAlive:
			if L != 0 {
				bad = "KeepAlive for L != 0"
			}
		case protocol.Bitfield:
			if len(mm.Bitfield) != int(L)-1 {
				bad = "Bitfield length"
			}
		case protocol.Piece:
			if len(mm.Data) != int(L)-9 {
				bad = "Piece length"
			}
		case protocol.Unknown, protocol.ExtendedUnknown:
		default:
			if mid >= 0 && mid != id {
				bad = fmt.Sprintf("message id %d for frame id %d", mid, id)
			}
		}
		if mid == -3 {
			bad = fmt.Sprintf("unexpected message type %T", m)
		}
		if bad != "" {
			c.Violate("malformed:"+shape, bad, []string{op})
		}
	}
	res := "err"
	if err == nil && m != nil {
		res = "msg"
		if pm, ok := m.(protocol.Piece); ok && len(stream)%2 == 0 {
			// the peer releases the block once stored; the next frames re-use it
			protocol.PutBuffer(pm.Data)
		}
	}
	if pl != nil {
		tag += "/cut"
	}
	c.Count(tag+"/"+shape+"/"+res, op, len(stream) > 4)
}

// overlongStrPrefix reports whether the payload contains a bencode string header
// "<digits>:" announcing more bytes than remain (the input shape of the known finding:
// zeebo/bencode allocates the declared length before reading).
func overlongStrPrefix(p []byte) bool {
	for i := 0; i < len(p); i++ {
		if p[i] < '0' || p[i] > '9' {
			continue
		}
		j := i
		var n uint64
		for j < len(p) && p[j] >= '0' && p[j] <= '9' && j-i < 12 {
			n = n*10 + uint64(p[j]-'0')
			j++
		}
		if j < len(p) && p[j] == ':' && n > uint64(len(p)-j-1) && n > 65536 {
			return true
		}
		i = j
	}
	return false
}

// ---- generators ----

func frame(L uint32, id int, payload []byte) []byte {
	b := binary.BigEndian.AppendUint32(nil, L)
	if id >= 0 {
		b = append(b, byte(id))
	}
	return append(b, payload...)
}

func benStr(s []byte) []byte { return append([]byte(fmt.Sprintf("%d:", len(s))), s...) }
func benInt(i int64) []byte   { return []byte(fmt.Sprintf("i%de", i)) }

// wellBehavedDict builds a dictionary for extended sub-id `sub` from the grammar on which
// any conforming bencode decoder agrees: unique keys (any order), values of the schema's
// type and range, plus unknown keys with arbitrary well-formed values.
func wellBehavedDict(r *vhlib.Rand, sub int) []byte {
	type kv struct {
		k string
		v []byte
	}
	var kvs []kv
	add := func(k string, v []byte) { kvs = append(kvs, kv{k, v}) }
	unknownVal := func() []byte {
		switch r.Intn(5) {
		case 0:
			return benInt(int64(r.Intn(1000)) - 500)
		case 1:
			return benStr(r.Bytes(r.Intn(10)))
		case 2:
			return []byte("l" + "i1e" + "3:abc" + "le" + "e")
		case 3:
			return []byte("d1:ad1:bi2eee")
		default:
			return []byte("de")
		}
	}
	switch sub {
	case 0:
		if r.Bool() {
			add("v", benStr(r.Bytes(r.Intn(20))))
		}
		if r.Bool() {
			add("p", benInt(int64(r.PickInt(0, 1, 6881, 65535))))
		}
		if r.Bool() {
			add("reqq", benInt(int64(wirecanon.U32(r))))
		}
		if r.Bool() {
			add("metadata_size", benInt(int64(wirecanon.U32(r))))
		}
		if r.Chance(40) {
			add("ipv4", benStr(r.Bytes(r.PickInt(4, 4, 4, 0, 3, 16))))
		}
		if r.Chance(40) {
			add("ipv6", benStr(r.Bytes(r.PickInt(16, 16, 16, 0, 4, 17))))
		}
		if r.Bool() {
			var d []byte
			d = append(d, 'd')
			names := []string{"ut_pex", "ut_metadata", "lt_donthave", "upload_only", "zz", "a"}
			used := map[string]bool{}
			for i := r.Intn(5); i > 0; i-- {
				n := names[r.Intn(len(names))]
				if used[n] {
					continue
				}
				used[n] = true
				d = append(d, benStr([]byte(n))...)
				d = append(d, benInt(int64(r.Intn(256)))...)
			}
			d = append(d, 'e')
			add("m", d)
		}
		if r.Bool() {
			switch r.Intn(5) {
			case 0:
				add("upload_only", benInt(int64(r.Intn(3))))
			case 1:
				add("upload_only", benStr([]byte("1")))
			case 2:
				add("upload_only", benStr([]byte("0")))
			case 3:
				// any other string is an error of the boolOrString decoder
				add("upload_only", benStr([]byte(boolStrings[r.Intn(len(boolStrings))])))
			default:
				add("upload_only", benInt(1))
			}
		}
		if r.Bool() {
			switch r.Intn(3) {
			case 0:
				add("e", benInt(int64(r.Intn(2))))
			case 1:
				add("e", benStr([]byte{byte('0' + r.Intn(2))}))
			default:
				add("e", benStr([]byte(boolStrings[r.Intn(len(boolStrings))])))
			}
		}
	case 1:
		comp := func(w int) ([]byte, []byte) {
			n := r.PickInt(0, 1, 2, 5)
			data := r.Bytes(n * (w + 2))
			if r.Chance(10) && n > 0 {
				data = data[:len(data)-1] // odd length: ignored by the decoder
			}
			fl := r.Bytes(r.PickInt(n, n, n, 0, n+1))
			return data, fl
		}
		if r.Chance(70) {
			a, f := comp(4)
			add("added", benStr(a))
			if r.Chance(70) {
				add("added.f", benStr(f))
			}
		}
		if r.Chance(50) {
			a, f := comp(16)
			add("added6", benStr(a))
			if r.Chance(70) {
				add("added6.f", benStr(f))
			}
		}
		if r.Chance(50) {
			a, _ := comp(4)
			add("dropped", benStr(a))
		}
		if r.Chance(40) {
			a, _ := comp(16)
			add("dropped6", benStr(a))
		}
	case 2:
		if r.Chance(92) {
			add("msg_type", benInt(int64(r.PickInt(0, 1, 2, 3, 255))))
		}
		if r.Chance(92) {
			add("piece", benInt(int64(wirecanon.U32(r))))
		}
		if r.Bool() {
			add("total_size", benInt(int64(wirecanon.U32(r))))
		}
	}
	for i := r.Intn(3); i > 0; i-- {
		add(fmt.Sprintf("x%d", i), unknownVal())
	}
	// shuffle (order must not matter)
	for i := len(kvs) - 1; i > 0; i-- {
		j := r.Intn(i + 1)
		kvs[i], kvs[j] = kvs[j], kvs[i]
	}
	out := []byte{'d'}
	for _, e := range kvs {
		out = append(out, benStr([]byte(e.k))...)
		out = append(out, e.v...)
	}
	return append(out, 'e')
}

var hugeStr int

var boolStrings = []string{"", "0", "1", "2", "00", "01", "true", "false", "yes", "no", "x", " "}

// schemaKeys: every key of the three bencoded payloads; confusedValues: one value of every
// bencode shape.  The hostile stream tries every key with every shape (type confusion).
var schemaKeys = [][]string{
	{"v", "ipv4", "ipv6", "p", "reqq", "metadata_size", "m", "upload_only", "e"},
	{"added", "added.f", "added6", "added6.f", "dropped", "dropped6"},
	{"msg_type", "piece", "total_size"},
}

var confusedValues = []string{
	"i0e", "i1e", "i-1e", "i255e", "i256e", "i65536e", "i4294967296e", "i18446744073709551616e",
	"i-9223372036854775808e", "ie", "i-e", "i1", "0:", "1:0", "1:1", "1:x", "4:true", "5:false",
	"6:abcdef", "18:abcdefghijklmnopqr", "le", "li1ee", "li1ei2ei3ei4ei5ei6ee", "l1:ae", "l0:e",
	"lli1eee", "de", "d1:ai1ee", "d1:a1:be", "d1:ade", "d0:i1ee", "d6:ut_pexi1ee",
	"d6:ut_pexi-1ee", "d6:ut_pexi256ee", "d6:ut_pex1:1e", "d6:ut_pexlee",
}

var hostile = [][]byte{
	[]byte("d1:v2000000000:"), // huge declared string length (zeebo make([]byte, l))
	[]byte("d1:vi1ee"),        // wrong type
	[]byte("d1:pi-1ee"),
	[]byte("d1:pi99999999999999999999999ee"),
	[]byte("d1:v1:a1:v1:be"), // duplicate key
	[]byte("d1:mli1eee"),
	[]byte("d1:md1:ai-1eee"),
	[]byte("d1:md1:ai300eee"),
	[]byte("i1e"), []byte("le"), []byte("0:"), []byte("d"), []byte("d1:"), []byte("d1:v"),
	[]byte("d01:v1:ae"), []byte("d1:pi007ee"), []byte("d1:pi-0ee"), []byte("d-1:e"),
	[]byte("d8:msg_typei1e5:piecei-1ee"),
	[]byte("d8:msg_typei256e5:piecei0ee"),
	[]byte("d8:msg_type1:15:piecei0ee"),
	[]byte("d5:added3:abce"),
	[]byte("d5:addedi1ee"),
	[]byte("d7:added.fli1eee"),
}

func deepNest(n int) []byte {
	return []byte("d1:x" + strings.Repeat("l", n) + strings.Repeat("e", n) + "e")
}

func genCase(c *vhlib.Ctx, r *vhlib.Rand) {
	switch k := r.Intn(100); {
	case k < 30:
		// (i) every id / sub-id with small and boundary lengths, random payload,
		// possibly truncated, possibly followed by more bytes
		id := r.PickInt(0, 1, 2, 3, 4, 5, 6, 7, 8, 9, 10, 11, 12, 13, 14, 15, 16, 17, 18, 19, 20, 20, 20, 20, 21, 255)
		var L uint32
		if r.Chance(75) {
			L = uint32(r.Intn(25))
		} else {
			L = r.PickU32(16384+9, 16385+9, 16383+9, 1<<14, 1<<20+1, 1<<20+1, 1<<31, 1<<32-1, 70000, 1<<20+2)
			if r.Chance(4) {
				L = r.PickU32(1<<20, 1<<20-1)
			}
		}
		avail := int(L) - 1
		if avail < 0 {
			avail = 0
		}
		if avail >= 1<<20 {
			avail = r.Intn(64)
		}
		payload := r.Bytes(avail)
		if id == 20 && len(payload) > 0 {
			payload[0] = byte(r.PickInt(0, 1, 2, 3, 4, 5, 6, 255))
			if payload[0] == 4 && len(payload) > 1 && r.Chance(70) {
				payload[1] = byte(r.Intn(3))
			}
		}
		switch r.Intn(4) {
		case 0: // truncated
			if len(payload) > 0 {
				payload = payload[:r.Intn(len(payload))]
			}
		case 1: // trailing bytes of a following frame
			payload = append(payload, r.Bytes(1+r.Intn(8))...)
		}
		st := frame(L, id, payload)
		if r.Chance(5) {
			st = st[:r.Intn(len(st)+1)]
		}
		runOne(c, st, true, "grid")
	case k < 55:
		// (ii) valid encodings from the repo's own encoder, then mutated
		m := wirecanon.RandMsg(r, r.PickInt(300, 300, 300, 20000, 40000))
		var buf bytes.Buffer
		w := bufio.NewWriter(&buf)
		if p := vhlib.Recover(func() { protocol.Write(w, m, nil) }); p != "" {
			return
		}
		w.Flush()
		st := buf.Bytes()
		isExtBen := len(st) >= 6 && st[4] == 20
		mut := r.Intn(5)
		switch mut {
		case 0: // as is, plus trailing
			st = append(st, r.Bytes(r.Intn(6))...)
		case 1: // truncate
			st = st[:r.Intn(len(st)+1)]
		case 2: // perturb the announced length
			if len(st) >= 4 {
				L := binary.BigEndian.Uint32(st)
				L = L + uint32(r.PickInt(-2, -1, 1, 2, 9))
				binary.BigEndian.PutUint32(st, L)
			}
		case 3: // flip a byte
			if len(st) > 0 {
				st[r.Intn(len(st))] ^= byte(1 << uint(r.Intn(8)))
			}
		}
		// mutated bencoded payloads leave the grammar on which decoders agree
		runOne(c, st, !(isExtBen && mut >= 1), "mutate")
	case k < 80:
		// (iii-a) well-behaved extension dictionaries (compared)
		sub := r.Intn(3)
		d := wellBehavedDict(r, sub)
		var tail []byte
		if sub == 2 && r.Bool() {
			tail = r.Bytes(r.PickInt(0, 1, 100, 16384))
		} else if r.Chance(20) {
			tail = r.Bytes(r.Intn(5))
			if len(tail) > 0 && (tail[0] == 'e') {
				tail[0] = 'x'
			}
		}
		payload := append([]byte{byte(sub)}, append(d, tail...)...)
		st := frame(uint32(len(payload)+1), 20, payload)
		if r.Chance(15) {
			st = st[:len(st)-1-r.Intn(3)] // truncated frame
		} else if r.Chance(30) {
			st = append(st, r.Bytes(1+r.Intn(9))...)
		}
		runOne(c, st, true, "extdict")
	case k < 92:
		// (iii-b) hostile bencode: oracle only
		sub := r.Intn(3)
		var d []byte
		if r.Chance(10) {
			d = deepNest(r.PickInt(10, 1000, 100000))
		} else if r.Chance(60) {
			// type confusion: a schema key with a value of an arbitrary shape, inside an
			// otherwise plausible dictionary
			keys := schemaKeys[sub]
			k := keys[r.Intn(len(keys))]
			v := confusedValues[r.Intn(len(confusedValues))]
			d = []byte("d")
			if sub == 2 && k != "msg_type" && r.Bool() {
				d = append(d, []byte("8:msg_typei1e")...)
			}
			d = append(d, benStr([]byte(k))...)
			d = append(d, v...)
			if sub == 2 && k != "piece" && r.Bool() {
				d = append(d, []byte("5:piecei0e")...)
			}
			d = append(d, 'e')
		} else {
			hi := r.Intn(len(hostile))
			if hi == 0 {
				// 1.9 GiB per call in the unchanged decoder: a few per run suffice
				if hugeStr >= 3 {
					hi = 1 + r.Intn(len(hostile)-1)
				}
				hugeStr++
			}
			d = append([]byte(nil), hostile[hi]...)
		}
		payload := append([]byte{byte(sub)}, d...)
		L := uint32(len(payload) + 1)
		if r.Chance(30) {
			L += uint32(r.Intn(50))
		}
		st := frame(L, 20, payload)
		if r.Bool() {
			st = append(st, r.Bytes(r.Intn(40))...)
		}
		runOne(c, st, false, "hostile")
	default:
		// (iv) random bytes
		st := r.Bytes(r.Intn(40))
		if len(st) >= 4 && r.Chance(80) {
			st[0], st[1] = 0, 0
			if r.Chance(80) {
				st[2] = 0
			}
		}
		cmp := !(len(st) >= 6 && st[4] == 20 && st[5] <= 2)
		runOne(c, st, cmp, "random")
	}
}

// exhaustive small-scope sweep: every (id, L <= 24) x every truncation point, and every
// extended sub-id 0..6 likewise (thorough tier; a reduced version in quick)
func sweep(c *vhlib.Ctx, r *vhlib.Rand, maxL int) {
	for id := 0; id <= 22; id++ {
		subs := []int{-1}
		if id == 20 {
			subs = []int{0, 1, 2, 3, 4, 5, 6}
		}
		for _, sub := range subs {
			for L := 0; L <= maxL; L++ {
				n := L - 1
				if n < 0 {
					n = 0
				}
				payload := r.Bytes(n)
				if sub >= 0 && n > 0 {
					payload[0] = byte(sub)
					if sub == 4 && n > 1 {
						payload[1] = byte(L % 3)
					}
				}
				full := frame(uint32(L), id, payload)
				full = append(full, 0xAA, 0xBB)
				for cut := 0; cut <= len(full); cut++ {
					runOne(c, full[:cut], true, "sweep")
				}
			}
		}
	}
}

// randPlan: short reads ending inside the length prefix, inside the fixed fields and at random
// places, with a frame of another connection decoded in every gap (shared state between
// connections - scratch buffers, the block pool - must not leak from one to the other)
func randPlan(r *vhlib.Rand) *plan {
	pl := &plan{}
	pos := 0
	for n := 1 + r.Intn(4); n > 0; n-- {
		pos += r.PickInt(1, 1, 2, 3, 1, 2, 4, 5, 6, 7, 9, 13, 1+r.Intn(40), 1+r.Intn(5000))
		pl.cuts = append(pl.cuts, pos)
	}
	switch r.Intn(6) {
	case 0:
	case 1:
		pl.other = frame(5, 4, []byte{0, 1, 0, 0}) // Have 65536
	case 2:
		pl.other = frame(13, 6, []byte{0xde, 0xad, 0xbe, 0xef, 0, 0, 0x40, 0, 0, 0, 0x40, 0})
	case 3:
		pl.other = frame(3, 9, []byte{0x1a, 0xe1})
	case 4:
		// short block of 100..999 bytes (last block of a torrent)
		n := 100 + r.Intn(900)
		pl.other = frame(uint32(9+n), 7, append([]byte{0, 0, 0, 9, 0, 0, 0x80, 0}, r.Bytes(n)...))
	case 5:
		pl.other = frame(uint32(9+16384), 7, append([]byte{0, 0, 0, 1, 0, 0, 0, 0}, r.Bytes(16384)...))
	}
	return pl
}

func main() {
	c := vhlib.Init("c04")
	defer c.Close()
	debug.SetGCPercent(-1)
	c.Rep.Rule = "structured frames per id/sub-id x length class, mutated valid encodings, extension dictionaries (well-behaved: compared; hostile: oracle only), random bytes; non-trivial = stream longer than the length prefix; distinct = distinct byte streams"
	if c.Replay != "" {
		for _, l := range c.ReplayLines() {
			f := strings.Fields(l)
			if len(f) == 2 && (f[0] == "dec" || f[0] == "decx") {
				runOne(c, vhlib.UnHex(f[1]), f[0] == "dec", "replay")
			}
			if len(f) == 4 && f[0] == "decs" {
				pl := &plan{}
				for _, k := range strings.Split(f[2], ",") {
					var v int
					fmt.Sscan(k, &v)
					pl.cuts = append(pl.cuts, v)
				}
				if f[3] != "-" {
					pl.other = vhlib.UnHex(f[3])
				}
				curPlan = pl
				runOne(c, vhlib.UnHex(f[1]), true, "replay")
			}
		}
		return
	}
	// frames just above the cap with the whole body delivered (every dispatch class:
	// unknown id, bitfield, piece, extended unknown / known sub-ids, fixed-length id)
	for _, id := range []int{10, 5, 7, 20, 20, 4, 255} {
		L := uint32(frameCap + 1 + c.R.Intn(16))
		payload := c.R.Bytes(int(L) - 1)
		if id == 20 {
			payload[0] = byte(c.R.PickInt(0, 1, 2, 3, 9))
		}
		runOne(c, append(frame(L, id, payload), 1, 2, 3), true, "overcap-full")
	}
	maxL := 8
	if c.Tier == "thorough" {
		maxL = 24
	}
	sweep(c, c.R, maxL)
	for i := 0; i < c.N; i++ {
		if c.R.Chance(20) {
			curPlan = randPlan(c.R)
		}
		genCase(c, c.R)
		curPlan = nil
		if i%2000 == 1999 {
			runtime.GC()
		}
	}
}
