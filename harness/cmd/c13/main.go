// vh c13: tor.ReadTorrent / Torrent.MetadataComplete / tor.ReadMagnet / tor.WriteTorrent
// against the Lean model (Model/Meta.lean).  Metainfo files come from a grammar (single
// and multi-file, nested directories, zero-length and padding files, path.utf-8 and
// name.utf-8, extra and unsorted and duplicated keys, degenerate piece lengths, total
// lengths up to 2^63-1, hash tables of the right and of wrong sizes, negative and
// overflowing file lengths, empty path lists, empty names), from byte-level mutations of
// those, and from random bytes; magnet links from a grammar plus mutations.  Every case
// runs under recover.  Compared with the model: accept/reject class and geometry
// (`mc`, on the BInfo the real decoder produced), the raw info slice and its SHA-1
// (`slice`), ReadMagnet's decision (`magnet`), WriteTorrent's fields (`wt`).
// The oracle restates the property on the real outputs.
package main

import (
	"bytes"
	"crypto/sha1"
	"encoding/base32"
	"encoding/hex"
	"fmt"
	nurl "net/url"
	"os"
	"os/exec"
	"strconv"
	"strings"

	"github.com/jech/storrent/tor"
	"github.com/jech/storrent/webseed"
	"github.com/zeebo/bencode"

	"verifharness/metaline"
	"verifharness/vhlib"
)

const CS = 16384

func bstr(s string) string { return metaline.BStr(s) }
func bint(i int64) string  { return metaline.BInt(i) }

type kv struct{ k, v string }

func encDict(r *vhlib.Rand, kvs []kv, shuffle bool) string {
	if shuffle {
		for i := len(kvs) - 1; i > 0; i-- {
			j := r.Intn(i + 1)
			kvs[i], kvs[j] = kvs[j], kvs[i]
		}
	} else {
		for i := 1; i < len(kvs); i++ {
			for j := i; j > 0 && kvs[j-1].k > kvs[j].k; j-- {
				kvs[j-1], kvs[j] = kvs[j], kvs[j-1]
			}
		}
	}
	var b strings.Builder
	b.WriteByte('d')
	for _, e := range kvs {
		b.WriteString(bstr(e.k))
		b.WriteString(e.v)
	}
	b.WriteByte('e')
	return b.String()
}

func encList(items []string) string { return "l" + strings.Join(items, "") + "e" }

func encStrList(ss []string) string {
	it := make([]string, len(ss))
	for i, s := range ss {
		it[i] = bstr(s)
	}
	return encList(it)
}

func ceilDiv(a, b int64) int64 { return (a + b - 1) / b }

// ---------------------------------------------------------------- grammar

var pieceLens = []int64{16384, 32768, 65536, 262144, 1 << 20, 3 * CS, 5 * CS, 6 * CS, 7 * CS, 9 * CS, 48 * CS, 100 * CS, 0, 1, 16383, 16385, 1 << 31, 1<<32 - 16384, 1 << 32}

func pickLen(r *vhlib.Rand, pl int64) int64 {
	if pl <= 0 {
		pl = 16384
	}
	switch r.Intn(17) {
	case 14: // every residue class of the short last piece: k blocks, 1 byte, pl-1, k blocks + a bit
		q := int64(r.Intn(6)) * pl
		return q + []int64{CS * int64(r.Intn(int(pl/CS)+1)), 1, pl - 1, CS*int64(r.Intn(int(pl/CS)+1)) + int64(r.Intn(CS)), CS}[r.Intn(5)]
	case 15: // above 4 GiB (the piece table is only built when it stays small)
		return 1<<32 + int64(r.Intn(5))*pl + []int64{0, 1, 20000, pl - 1, CS}[r.Intn(5)]
	case 16:
		return 2*pl + 20000
	case 0:
		return 0
	case 1:
		return int64(1 + r.Intn(16383))
	case 2:
		return []int64{16383, 16384, 16385}[r.Intn(3)]
	case 3:
		return pl + int64(r.Intn(3)) - 1
	case 4:
		return 3*pl + 7
	case 5:
		return int64(r.Intn(5)+1) * pl
	case 6:
		return []int64{1 << 31, 1<<32 + 5, 1 << 36}[r.Intn(3)]
	case 7: // around the "torrent too large" boundary (never with a matching table)
		return (1<<32-1)*CS + int64(r.Intn(3)) - 1
	case 8:
		return []int64{1 << 47, 1 << 62, 1<<63 - 1, 1<<63 - 16384, 1<<63 - 16383}[r.Intn(5)]
	case 9:
		return []int64{-1, -5, -16384, -32767, -32768, -1 << 63}[r.Intn(6)]
	default:
		return int64(1 + r.Intn(3000000))
	}
}

var names = []string{"x", "file.bin", "dir name", "", "a/b", "/", "..", ".", "\xff\xfe", "na\xc3\xafve", "<b>"}

func pickPath(r *vhlib.Rand) []string {
	d := "d" + strconv.Itoa(r.Intn(3))
	switch k := r.Intn(100); {
	case k < 3:
		return []string{}
	case k < 5:
		return []string{""}
	case k < 7:
		return []string{"a", "", "b"}
	case k < 9:
		return []string{"..", "x"}
	case k < 10:
		return []string{"."}
	case k < 11:
		return []string{"a/b"}
	case k < 36:
		return []string{d, "sub", "f" + strconv.Itoa(r.Intn(5)) + ".bin"}
	case k < 41: // a directory of the paths above
		return []string{d, "sub"}
	case k < 45:
		return []string{d}
	case k < 53:
		return []string{".pad", strconv.Itoa(r.Intn(9999))}
	default:
		return []string{"f" + strconv.Itoa(r.Intn(40))}
	}
}

func encFile(r *vhlib.Rand, length int64) string {
	var kvs []kv
	kvs = append(kvs, kv{"length", bint(length)})
	p := pickPath(r)
	if !r.Chance(6) {
		kvs = append(kvs, kv{"path", encStrList(p)})
	}
	if r.Chance(20) {
		kvs = append(kvs, kv{"path.utf-8", encStrList(pickPath(r))})
	}
	if r.Chance(25) {
		kvs = append(kvs, kv{"attr", bstr([]string{"p", "x", "hp", ""}[r.Intn(4)])})
	}
	if r.Chance(10) {
		kvs = append(kvs, kv{"md5sum", bstr("0123456789abcdef0123456789abcdef")})
	}
	if r.Chance(4) {
		kvs = append(kvs, kv{"length", bint(length + 1)}) // duplicate key: the last one wins
	}
	if r.Chance(5) {
		// a duplicate LIST key is decoded into the existing slice, element by element:
		// shorter, longer and empty second lists
		k := []string{"path", "path.utf-8"}[r.Intn(2)]
		second := [][]string{{}, {"x" + strconv.Itoa(r.Intn(9))}, {"y", "z", "w", "v"}, pickPath(r)}[r.Intn(4)]
		kvs = append(kvs, kv{k, encStrList(second)})
		return encDict(r, kvs, false) // keep the order: which one comes second matters
	}
	return encDict(r, kvs, r.Chance(30))
}

// genInfo returns an encoded info dictionary.
func genInfo(r *vhlib.Rand) string {
	pl := pieceLens[r.Intn(len(pieceLens))]
	if r.Chance(55) {
		pl = pieceLens[r.Intn(12)]
	}
	var kvs []kv
	var total int64
	multi := r.Chance(45)
	if multi {
		n := 1 + r.Intn(5)
		if r.Chance(4) {
			n = 0
		}
		var files []string
		for i := 0; i < n; i++ {
			var l int64
			switch r.Intn(12) {
			case 0:
				l = 0
			case 1:
				l = []int64{-5, -1, -1 << 63, -16384}[r.Intn(4)]
			case 2:
				l = []int64{1 << 62, 1<<63 - 1, 1 << 33}[r.Intn(3)]
			case 3:
				l = int64(r.Intn(3)) * CS
			default:
				l = int64(r.Intn(200000))
			}
			files = append(files, encFile(r, l))
			total += l // may wrap: deliberately
		}
		kvs = append(kvs, kv{"files", encList(files)})
		if r.Chance(4) {
			// a second `files` key: its elements are decoded INTO the existing ones
			var f2 []string
			for i := r.Intn(n + 2); i > 0; i-- {
				switch r.Intn(3) {
				case 0:
					f2 = append(f2, "d6:length"+bint(int64(r.Intn(50000)))+"e")
				case 1:
					f2 = append(f2, "d4:path"+encStrList(pickPath(r))+"e")
				default:
					f2 = append(f2, encFile(r, int64(r.Intn(50000))))
				}
			}
			kvs = append(kvs, kv{"files", encList(f2)})
		}
		if r.Chance(6) {
			kvs = append(kvs, kv{"length", bint(pickLen(r, pl))}) // both
		}
	} else {
		total = pickLen(r, pl)
		if total > 1<<36 {
			pl = []int64{1 << 31, 1<<32 - 16384}[r.Intn(2)] // keeps an unrepaired tree from allocating a huge piece table
		}
		if !r.Chance(4) {
			kvs = append(kvs, kv{"length", bint(total)})
		}
	}
	// hash table
	np := int64(0)
	if pl > 0 && total > 0 && total < 1<<40 {
		np = ceilDiv(total, pl)
	}
	if np > 6000 {
		np = int64(r.Intn(3)) // never build a big table: such a torrent is rejected
	}
	switch r.Intn(12) {
	case 0:
		np += int64(1 + r.Intn(3))
	case 1:
		if np > 0 {
			np -= int64(1 + r.Intn(int(np)))
		}
	case 2:
		np += 20 * int64(1+r.Intn(3))
	}
	tbl := r.Bytes(int(np) * 20)
	if r.Chance(5) {
		tbl = append(tbl, r.Bytes(1+r.Intn(19))...) // odd size
	}
	if !r.Chance(3) {
		kvs = append(kvs, kv{"pieces", bstr(string(tbl))})
	}
	if !r.Chance(3) {
		kvs = append(kvs, kv{"piece length", bint(pl)})
	}
	nm := names[r.Intn(len(names))]
	if r.Chance(60) {
		nm = names[r.Intn(3)]
	}
	if !r.Chance(5) {
		kvs = append(kvs, kv{"name", bstr(nm)})
	}
	if r.Chance(12) {
		kvs = append(kvs, kv{"name.utf-8", bstr(names[r.Intn(len(names))])})
	}
	if r.Chance(15) {
		kvs = append(kvs, kv{"private", bint(1)})
	}
	if r.Chance(10) {
		kvs = append(kvs, kv{"x-extra", encDict(r, []kv{{"k", encList([]string{bint(-3), bstr("v")})}, {"z", bint(0)}}, false)})
	}
	if r.Chance(3) {
		kvs = append(kvs, kv{"piece length", bint(16384)}) // duplicate key
	}
	return encDict(r, kvs, r.Chance(30))
}

var urls = []string{"http://tr.example/announce", "https://t2.example:8443/a?x=1", "udp://tr3.example:6969",
	"wss://unknown.example/x", "", "http://[::1", "relative/path", "http://ws.example/files/", "https://h.example/seed.php",
	"ftp://ftp.example/pub/", "file:///etc/passwd", "%zz://x", "HTTP://UPPER.example/"}

// seedURL: a web-seed URL, usable (http/https) or not
func seedURL(r *vhlib.Rand) string {
	if r.Chance(60) {
		return urls[7+r.Intn(2)]
	}
	return urls[[]int{3, 4, 5, 6, 9, 10, 11, 12, 0, 2}[r.Intn(10)]]
}

func pickURL(r *vhlib.Rand) string {
	if r.Chance(75) {
		return urls[r.Intn(3)]
	}
	return urls[r.Intn(len(urls))]
}

// genTorrent returns the file and the info dictionary it contains ("" if none).
func genTorrent(r *vhlib.Rand) (string, string) {
	var kvs []kv
	info := ""
	if !r.Chance(3) {
		info = genInfo(r)
		kvs = append(kvs, kv{"info", info})
	}
	if r.Chance(70) {
		kvs = append(kvs, kv{"announce", bstr(pickURL(r))})
	}
	if r.Chance(3) {
		// a lone tracker with the empty URL (tracker.New("") is an Unknown tracker)
		kvs = append(kvs, kv{"announce-list", encList([]string{encStrList([]string{""})})})
	} else if r.Chance(45) {
		var tiers []string
		for i := r.Intn(4); i > 0; i-- {
			var t []string
			for j := r.Intn(3); j > 0; j-- {
				t = append(t, pickURL(r))
			}
			tiers = append(tiers, encStrList(t))
		}
		kvs = append(kvs, kv{"announce-list", encList(tiers)})
	}
	for _, k := range []string{"url-list", "httpseeds"} {
		if r.Chance(30) {
			if r.Chance(40) {
				kvs = append(kvs, kv{k, bstr(seedURL(r))})
			} else {
				var l []string
				for j := r.Intn(4); j > 0; j-- {
					l = append(l, seedURL(r))
				}
				kvs = append(kvs, kv{k, encStrList(l)})
			}
		}
	}
	if r.Chance(50) {
		kvs = append(kvs, kv{"creation date", bint(int64(r.Intn(2000000000)))})
	}
	if r.Chance(40) {
		kvs = append(kvs, kv{"comment", bstr("made by a grammar")})
	}
	if r.Chance(15) {
		kvs = append(kvs, kv{"x-nested", encDict(r, []kv{{"info", bstr("decoy")}, {"l", encList([]string{encList(nil), bint(7)})}}, false)})
	}
	shuffle := r.Chance(30)
	out := encDict(r, kvs, shuffle)
	if info != "" && r.Chance(4) {
		// a second info key: the last binding wins; put it last so that we know which one that is
		info2 := genInfo(r)
		out = out[:len(out)-1] + bstr("info") + info2 + "e"
		info = info2
	}
	if r.Chance(5) {
		out += "trailing"
	}
	return out, info
}

// ---------------------------------------------------------------- independent strict splitter (oracle only)

// strictVal parses one BEP-3 value strictly and returns the index after it (-1 on error).
func strictVal(b []byte, i int, depth int) int {
	if i >= len(b) || depth > 200 {
		return -1
	}
	switch c := b[i]; {
	case c == 'i':
		j := i + 1
		if j < len(b) && b[j] == '-' {
			j++
		}
		s := j
		for j < len(b) && b[j] >= '0' && b[j] <= '9' {
			j++
		}
		if j == s || j >= len(b) || b[j] != 'e' || (b[s] == '0' && (j-s > 1 || b[s-1] == '-')) {
			return -1
		}
		return j + 1
	case c >= '0' && c <= '9':
		_, e := strictStr(b, i)
		return e
	case c == 'l':
		j := i + 1
		for j < len(b) && b[j] != 'e' {
			if j = strictVal(b, j, depth+1); j < 0 {
				return -1
			}
		}
		if j >= len(b) {
			return -1
		}
		return j + 1
	case c == 'd':
		_, e := strictDict(b, i, depth, "")
		return e
	}
	return -1
}

func strictStr(b []byte, i int) (string, int) {
	j := i
	for j < len(b) && b[j] >= '0' && b[j] <= '9' {
		j++
	}
	if j == i || j >= len(b) || b[j] != ':' || (b[i] == '0' && j-i > 1) || j-i > 9 {
		return "", -1
	}
	n, _ := strconv.Atoi(string(b[i:j]))
	if j+1+n > len(b) {
		return "", -1
	}
	return string(b[j+1 : j+1+n]), j + 1 + n
}

// strictDict parses a dictionary; returns the [start,end) of the LAST value bound to key
// `want` (or nil) and the index after the dictionary.
func strictDict(b []byte, i int, depth int, want string) ([]int, int) {
	if i >= len(b) || b[i] != 'd' {
		return nil, -1
	}
	var found []int
	j := i + 1
	for j < len(b) && b[j] != 'e' {
		k, e := strictStr(b, j)
		if e < 0 {
			return nil, -1
		}
		ve := strictVal(b, e, depth+1)
		if ve < 0 {
			return nil, -1
		}
		if want != "" && k == want {
			found = []int{e, ve}
		}
		j = ve
	}
	if j >= len(b) {
		return nil, -1
	}
	return found, j + 1
}

// ---------------------------------------------------------------- a dictionary delivered twice through the magnet path

const magnetDN = "magnet-dn"

// traceOf: which of the fields MetadataComplete assigns differ from a fresh magnet torrent
func traceOf(t *tor.Torrent) string {
	var l []string
	if t.Pieces.Num() != 0 || t.Pieces.Length() != 0 || t.Pieces.PieceSize() != 0 {
		l = append(l, "pieces")
	}
	if len(t.VerifInFlight()) != 0 {
		l = append(l, "inflight")
	}
	if len(t.PieceHashes) != 0 {
		l = append(l, "hashes")
	}
	if t.Files != nil {
		l = append(l, "files")
	}
	if t.Name != magnetDN {
		l = append(l, "name")
	}
	if t.InfoComplete() {
		l = append(l, "complete")
	}
	return joinOr(l)
}

// deliverTwice: a magnet torrent receives the dictionary block by block through the real
// gotMetadata; a rejected one is delivered a second time.  Returns the observation line.
func deliverTwice(c *vhlib.Ctx, info []byte) string {
	h := sha1.Sum(info)
	var t *tor.Torrent
	if guard(c, "ReadMagnet", func() {
		t, _ = tor.ReadMagnet("", "magnet:?dn="+magnetDN+"&xt=urn:btih:"+hex.EncodeToString(h[:]))
		tor.VerifInit(t, 16, 1)
	}) || t == nil {
		return "panic"
	}
	round := func() string {
		var done bool
		var err error
		p := vhlib.Recover(func() {
			tor.VerifMetadataVote(t, uint32(len(info)))
			tor.VerifRequestMetadata(t, nil)
			for i := 0; i*CS < len(info); i++ {
				e := (i + 1) * CS
				if e > len(info) {
					e = len(info)
				}
				done, err = tor.VerifGotMetadata(t, uint32(i), uint32(len(info)), append([]byte(nil), info[i*CS:e]...))
			}
		})
		switch {
		case p != "":
			c.Violate("panic:MetadataComplete-via-magnet:"+panicCause(p), p, c.Case())
			return "panic"
		case done:
			return "ok"
		case err == nil:
			return "incomplete"
		}
		tr := "?"
		guard(c, "Torrent-accessors", func() { tr = traceOf(t) })
		tag := metaline.ErrTag(err)
		if tr != "-" {
			c.Violate("reject:leaves-trace:"+strings.ReplaceAll(tr, ",", "+"), fmt.Sprintf("the dictionary was rejected (%v) but the torrent keeps: %s", err, tr), c.Case())
		}
		return "err " + tag + " trace=" + tr
	}
	r1 := round()
	if !strings.HasPrefix(r1, "err ") {
		return r1
	}
	r2 := round()
	if r2 != r1 && !strings.HasPrefix(r2, "panic") {
		c.Violate("reject:second-delivery-differs", r1+" then "+r2, c.Case())
	}
	return r1 + " | " + r2
}

// failWriter accepts k bytes and then fails (a client that disconnects part-way)
type failWriter struct{ k int }

func (w *failWriter) Write(p []byte) (int, error) {
	if len(p) <= w.k {
		w.k -= len(p)
		return len(p), nil
	}
	n := w.k
	w.k = 0
	return n, fmt.Errorf("connection reset by peer")
}

// ---------------------------------------------------------------- one metainfo case

func panicCause(p string) string {
	switch {
	case strings.Contains(p, "divide by zero"):
		return "divide-by-zero"
	case strings.Contains(p, "out of range"):
		return "out-of-range"
	case strings.Contains(p, "makeslice"):
		return "makeslice"
	case strings.Contains(p, "nil pointer"):
		return "nil-deref"
	}
	return "other"
}

// inspect reads a torrent's trackers and web seeds through the real accessors and calls
// the side-effect-free methods of every element, all under recover: fn names the call
// that panicked ("" if none).
func inspect(t *tor.Torrent) (tiers [][]string, ws []string, fn string, msg string) {
	cur := "Torrent.Trackers"
	msg = vhlib.Recover(func() {
		for _, tier := range t.Trackers() {
			l := []string{}
			for _, tr := range tier {
				cur = "Tracker.URL"
				l = append(l, tr.URL())
				cur = "Tracker.GetState"
				tr.GetState()
			}
			tiers = append(tiers, l)
		}
		cur = "Torrent.Webseeds"
		for _, w := range t.Webseeds() {
			k := "?:"
			switch w.(type) {
			case *webseed.GetRight:
				k = "G:"
			case *webseed.Hoffman:
				k = "H:"
			}
			cur = "Webseed.URL"
			u := w.URL()
			cur = "Webseed.Count"
			w.Count()
			cur = "Webseed.Rate"
			w.Rate()
			cur = "Webseed.Ready"
			w.Ready(true)
			ws = append(ws, k+vhlib.Hex([]byte(u)))
			cur = "Torrent.Webseeds"
		}
	})
	if msg != "" {
		fn = cur
	}
	return
}

// guard runs f (calls into the real code) under recover and reports a panic as a
// violation of the "never crashes" clause; true if it panicked.
func guard(c *vhlib.Ctx, fn string, f func()) bool {
	if p := vhlib.Recover(f); p != "" {
		c.Violate("panic:"+fn+":"+panicCause(p), p, c.Case())
		return true
	}
	return false
}

// hexU: URL in hex; the empty URL is "~" ("-" is the empty list)
func hexU(u string) string {
	if u == "" {
		return "~"
	}
	return vhlib.Hex([]byte(u))
}

func tiersStr(ts [][]string) string {
	if len(ts) == 0 {
		return "-"
	}
	var l []string
	for _, t := range ts {
		if len(t) == 0 {
			l = append(l, ".")
			continue
		}
		h := make([]string, len(t))
		for i, u := range t {
			h[i] = hexU(u)
		}
		l = append(l, strings.Join(h, ","))
	}
	return strings.Join(l, ";")
}

func listStr(l []string) string {
	if len(l) == 0 {
		return "-"
	}
	h := make([]string, len(l))
	for i, u := range l {
		h[i] = hexU(u)
	}
	return strings.Join(h, ",")
}

func joinOr(l []string) string {
	if len(l) == 0 {
		return "-"
	}
	return strings.Join(l, ",")
}

// geometry: the property's "self-consistent geometry", restated on the real Torrent
func checkGeometry(c *vhlib.Ctx, t *tor.Torrent, ops []string) {
	bad := func(clause, detail string) {
		c.Violate("geometry:"+clause, detail, ops)
	}
	ps := int64(t.Pieces.PieceSize())
	length := t.Pieces.Length()
	if ps <= 0 {
		bad("piece-length-not-positive", fmt.Sprint(ps))
		return
	}
	if ps%CS != 0 {
		bad("piece-length-not-multiple-of-16k", fmt.Sprint(ps))
	}
	if length < 0 {
		bad("negative-length", fmt.Sprint(length))
		return
	}
	if t.Files != nil {
		var off int64
		for i, f := range t.Files {
			if f.Length < 0 {
				bad("negative-file-length", fmt.Sprintf("file %d length %d", i, f.Length))
				return
			}
			if f.Offset != off {
				bad("files-not-contiguous", fmt.Sprintf("file %d offset %d, expected %d", i, f.Offset, off))
				return
			}
			if len(f.Path) == 0 {
				bad("empty-file-path", fmt.Sprintf("file %d", i))
			}
			off += f.Length
			if off < 0 {
				bad("file-lengths-overflow", fmt.Sprintf("file %d", i))
				return
			}
		}
		if off != length {
			bad("files-do-not-sum-to-length", fmt.Sprintf("sum %d length %d", off, length))
		}
	}
	if int64(len(t.VerifInFlight())) != ceilDiv(length, CS) {
		bad("inflight-slots", fmt.Sprintf("%d slots for length %d", len(t.VerifInFlight()), length))
	}
	if np := t.Pieces.Num(); np > 0 && np <= 20000 {
		var spl, sblk int64
		for i := 0; i < np; i++ {
			pli := int64(t.Pieces.PieceLength(uint32(i)))
			if i < np-1 && pli != ps {
				bad("piece-store:inner-piece-not-full", fmt.Sprintf("PieceLength(%d) = %d, piece size %d", i, pli, ps))
				break
			}
			if i == np-1 && (pli <= 0 || pli > ps) {
				bad("piece-store:last-piece-out-of-range", fmt.Sprintf("PieceLength(%d) = %d, piece size %d", i, pli, ps))
			}
			spl += pli
			n, _ := t.Pieces.PieceBitmap(uint32(i))
			sblk += int64(n)
		}
		if spl != length {
			bad("piece-store:pieces-do-not-sum-to-length", fmt.Sprintf("sum of PieceLength %d, length %d, piece size %d", spl, length, ps))
		}
		if sblk != int64(len(t.VerifInFlight())) {
			bad("piece-store:blocks-differ-from-inflight-slots", fmt.Sprintf("%d blocks in the piece store, %d inFlight slots", sblk, len(t.VerifInFlight())))
		}
		if t.Pieces.PieceLength(uint32(np)) != 0 {
			bad("piece-store:piece-beyond-end", fmt.Sprint(t.Pieces.PieceLength(uint32(np))))
		}
	}
	if int64(t.Pieces.Num()) != ceilDiv(length, ps) {
		bad("piece-count", fmt.Sprintf("%d pieces for length %d piece length %d", t.Pieces.Num(), length, ps))
	}
	if len(t.PieceHashes) != t.Pieces.Num() {
		k := "longer"
		if len(t.PieceHashes) < t.Pieces.Num() {
			k = "shorter"
		}
		bad("hash-table-"+k+"-than-piece-table", fmt.Sprintf("%d hashes, %d pieces", len(t.PieceHashes), t.Pieces.Num()))
	}
	if t.Name == "" {
		bad("empty-name", "")
	}
	if !t.InfoComplete() {
		bad("accepted-but-not-complete", "")
	}
}

// runFile: one byte string through ReadTorrent; expInfo = the info dictionary the
// generator put in (nil = unknown, "" = none).
func runFile(c *vhlib.Ctx, b []byte, expInfo *string, class string) {
	c.NewCase()
	var t *tor.Torrent
	var err error
	p := vhlib.Recover(func() { t, err = tor.ReadTorrent("", bytes.NewReader(b)) })

	// the reflection decoder's view (the model's parameter)
	var bt tor.BTorrent
	var bi tor.BInfo
	decTop, decInfo := false, false
	vhlib.Recover(func() {
		decTop = bencode.NewDecoder(bytes.NewReader(b)).Decode(&bt) == nil && bt.Info != nil
		if decTop {
			decInfo = bencode.DecodeBytes(bt.Info, &bi) == nil
		}
	})

	// 1. raw info slice and info-hash
	d := "D0"
	obs := "noinfo"
	if decTop {
		d = "D1"
		h := sha1.Sum(bt.Info)
		hh := h[:]
		if t != nil {
			hh = t.Hash // the real info-hash
			if !bytes.Equal(t.Info, bt.Info) {
				c.Violate("infohash:info-differs-from-raw-message", "Torrent.Info is not the raw info value", c.Case())
			}
		}
		obs = fmt.Sprintf("info %d %s", len(bt.Info), vhlib.Hex(hh))
	}
	c.Emit("slice "+vhlib.Hex(b)+" "+d, obs)

	// 2. validation layer
	res := "undecoded"
	switch {
	case p != "":
		res = "panic"
	case t != nil:
		res = "ok"
	case err != nil && decInfo:
		res = "err " + metaline.ErrTag(err)
	}
	if decInfo {
		o := res
		if t != nil {
			if guard(c, "Torrent-accessors", func() { o = metaline.GeomLine(t) }) {
				o = "panic"
			}
		}
		c.Emit("mc 0 "+metaline.BInfoTokens(&bi), o)
		// the same dictionary as a magnet's metadata, delivered through gotMetadata: every
		// rejected one twice, one accepted one in four once
		if p == "" && ((t == nil && err != nil && metaline.ErrTag(err) != "") || (t != nil && len(b)%4 == 0)) {
			c.Emit("mc2 "+vhlib.Hex([]byte(magnetDN))+" 0 "+metaline.BInfoTokens(&bi), deliverTwice(c, bt.Info))
		}
		for _, f := range bi.Files {
			if (f.Path != nil && len(f.Path) == 0) || (f.Path8 != nil && len(f.Path8) == 0) {
				c.Violate("decoder-contract:empty-non-nil-path", "zeebo returned an empty non-nil path list", c.Case())
			}
		}
	}
	// 2b. the whole of ReadTorrent over raw bytes with the Lean decoder (grammar files: the
	// other top-level keys are well typed there)
	{
		o := "rejected"
		switch {
		case p != "":
			o = "panic"
		case t != nil:
			guard(c, "Torrent-accessors", func() { o = metaline.GeomLine(t) + " ih=" + vhlib.Hex(t.Hash) })
		case err != nil && metaline.ErrTag(err) != "":
			o = "err " + metaline.ErrTag(err)
		}
		c.Emit("rt", o)
	}
	c.Count(class+"/"+strings.Fields(res)[0]+func() string {
		if f := strings.Fields(res); len(f) > 1 {
			return ":" + f[1]
		}
		return ""
	}(), string(b), t != nil || decInfo)

	// ---- oracle
	if p != "" {
		c.Violate("panic:ReadTorrent:"+panicCause(p), p, c.Case())
		return
	}
	if (t == nil) == (err == nil) {
		c.Violate("result:neither-torrent-nor-error", fmt.Sprint(t != nil, err), c.Case())
		return
	}
	if t == nil {
		return
	}
	if guard(c, "Torrent-accessors", func() { checkGeometry(c, t, c.Case()) }) {
		return
	}
	if len(t.Hash) != 20 {
		c.Violate("infohash:not-20-bytes", "", c.Case())
	}
	if expInfo != nil {
		h := sha1.Sum([]byte(*expInfo))
		if *expInfo == "" || !bytes.Equal(h[:], t.Hash) {
			c.Violate("infohash:not-sha1-of-info-as-written", "grammar case", c.Case())
		}
	}
	if loc, e := strictDict(b, 0, 0, "info"); e >= 0 {
		if loc == nil {
			c.Violate("infohash:accepted-without-info", "", c.Case())
		} else if h := sha1.Sum(b[loc[0]:loc[1]]); !bytes.Equal(h[:], t.Hash) {
			c.Violate("infohash:not-sha1-of-info-as-written", "strictly well-formed file", c.Case())
		}
	}

	// 3. trackers / web seeds of the accepted torrent, then WriteTorrent -> ReadTorrent
	tiers1, ws1, fn, msg := inspect(t)
	if fn != "" {
		c.Violate("panic:"+fn+":"+panicCause(msg), "on a torrent ReadTorrent accepted: "+msg, c.Case())
	}
	// WriteTorrent under writer faults and repetition: the Go function is expected to be a
	// pure function of the torrent (the model's writeTorrentBytes is) — whatever earlier
	// calls did, a call that returns nil has written the whole file
	var buf bytes.Buffer
	var werr error
	var wp string
	if plan := len(b) % 6; plan >= 2 {
		// a twin of the torrent tells us what a clean first write produces
		var ref bytes.Buffer
		var twin *tor.Torrent
		vhlib.Recover(func() {
			twin, _ = tor.ReadTorrent("", bytes.NewReader(b))
			if twin != nil && tor.WriteTorrent(&ref, twin) != nil {
				ref.Reset()
			}
		})
		if L := ref.Len(); L > 0 {
			ks := [][]int{{0}, {1}, {L / 2}, {L - 1, 1, L / 3}}[plan-2]
			for _, k := range ks {
				var ferr error
				fp := vhlib.Recover(func() { ferr = tor.WriteTorrent(&failWriter{k: k}, t) })
				if fp != "" {
					c.Violate("panic:WriteTorrent:"+panicCause(fp), "with a writer that fails after "+strconv.Itoa(k)+" bytes: "+fp, c.Case())
					return
				}
				if ferr == nil {
					c.Violate("roundtrip:write-error-swallowed", fmt.Sprintf("the writer failed after %d of %d bytes and WriteTorrent returned nil", k, L), c.Case())
				}
			}
			c.Count("write-faults/"+strconv.Itoa(plan), "", false)
		}
		wp = vhlib.Recover(func() { werr = tor.WriteTorrent(&buf, t) })
		if wp == "" && werr == nil && ref.Len() > 0 && !bytes.Equal(buf.Bytes(), ref.Bytes()) {
			c.Violate("roundtrip:write-after-fault-differs", fmt.Sprintf("after aborted writes WriteTorrent returned nil with %d bytes; a clean write gives %d bytes", buf.Len(), ref.Len()), c.Case())
		}
	} else {
		wp = vhlib.Recover(func() { werr = tor.WriteTorrent(&buf, t) })
		var again bytes.Buffer
		if wp == "" && werr == nil {
			var aerr error
			ap := vhlib.Recover(func() { aerr = tor.WriteTorrent(&again, t) })
			if ap != "" || aerr != nil || !bytes.Equal(again.Bytes(), buf.Bytes()) {
				c.Violate("roundtrip:write-not-repeatable", ap+fmt.Sprint(aerr), c.Case())
			}
		}
	}
	if wp != "" {
		c.Violate("panic:WriteTorrent:"+panicCause(wp), wp, c.Case())
		return
	}
	if fn != "" {
		return // what the torrent holds could not even be read: nothing to compare
	}
	wtop := "wt " + tiersStr(tiers1) + " " + joinOr(ws1)
	if werr != nil {
		c.Emit(wtop, "write-failed")
		c.Violate("roundtrip:write-failed", fmt.Sprint(werr), c.Case())
		return
	}
	// the written bytes themselves, against the Lean encoder (and its own read-back)
	{
		h := sha1.Sum(buf.Bytes())
		c.Emit(fmt.Sprintf("wtb %s %s %d", tiersStr(tiers1), joinOr(ws1), t.CreationDate),
			fmt.Sprintf("%d %s same-info", buf.Len(), vhlib.Hex(h[:])))
	}
	var t2 *tor.Torrent
	var err2 error
	rp := vhlib.Recover(func() { t2, err2 = tor.ReadTorrent("", bytes.NewReader(buf.Bytes())) })
	var bt2 tor.BTorrent
	vhlib.Recover(func() { bencode.DecodeBytes(buf.Bytes(), &bt2) })
	al := "nil"
	if bt2.AnnounceList != nil {
		al = tiersStr(bt2.AnnounceList)
	}
	back := "unreadable"
	var tiers2 [][]string
	var ws2 []string
	if rp == "" && t2 != nil {
		var fn2, msg2 string
		tiers2, ws2, fn2, msg2 = inspect(t2)
		if fn2 != "" {
			c.Violate("panic:"+fn2+":"+panicCause(msg2), "on the re-read torrent: "+msg2, c.Case())
			back = "panic"
		} else {
			back = tiersStr(tiers2) + "|" + joinOr(ws2)
		}
	}
	c.Emit(wtop, fmt.Sprintf("a=%s al=%s ul=%s hs=%s back=%s", hexU(bt2.Announce), al,
		listStr(bt2.URLList), listStr(bt2.HTTPSeeds), back))
	if rp != "" {
		c.Violate("panic:ReadTorrent:"+panicCause(rp), "on the file WriteTorrent produced: "+rp, c.Case())
		return
	}
	if err2 != nil || t2 == nil {
		c.Violate("roundtrip:written-file-rejected", fmt.Sprint(err2), c.Case())
		return
	}
	if back == "panic" {
		return
	}
	if !bytes.Equal(t2.Hash, t.Hash) {
		c.Violate("roundtrip:info-hash-changed", "", c.Case())
	}
	if a, b := tiersStr(tiers1), tiersStr(tiers2); a != b {
		k := "other"
		if len(tiers1) == 1 && len(tiers1[0]) == 1 && tiers1[0][0] == "" {
			k = "single-empty-url"
		}
		c.Violate("roundtrip:trackers:"+k, a+" -> "+b, c.Case())
	}
	gr := func(l []string, k string) (o []string) {
		for _, w := range l {
			if strings.HasPrefix(w, k) {
				o = append(o, w)
			}
		}
		return
	}
	if joinOr(gr(ws1, "G:")) != joinOr(gr(ws2, "G:")) || joinOr(gr(ws1, "H:")) != joinOr(gr(ws2, "H:")) || len(ws1) != len(ws2) {
		c.Violate("roundtrip:webseeds", joinOr(ws1)+" -> "+joinOr(ws2), c.Case())
	}
}

// ---------------------------------------------------------------- mutations / random

func mutate(r *vhlib.Rand, b []byte) []byte {
	b = append([]byte(nil), b...)
	structural := []byte("dlie:0123456789-+e")
	nm := 1
	if r.Chance(30) {
		nm = 2 + r.Intn(2)
	}
	for k := nm; k > 0 && len(b) > 0; k-- {
		i := r.Intn(len(b))
		switch r.Intn(8) {
		case 0:
			b[i] = byte(r.U64())
		case 1, 2:
			b[i] = structural[r.Intn(len(structural))]
		case 3:
			b = append(b[:i], b[i+1:]...)
		case 4:
			b = append(b[:i], append([]byte{structural[r.Intn(len(structural))]}, b[i:]...)...)
		case 5:
			b = b[:i]
		case 6:
			j := i + r.Intn(len(b)-i)
			b = append(b[:j], append(append([]byte(nil), b[i:j]...), b[j:]...)...)
		case 7:
			if b[i] >= '0' && b[i] <= '9' {
				b[i] = '0' + byte(r.Intn(10))
			} else {
				b[i] ^= 1 << uint(r.Intn(8))
			}
		}
	}
	return b
}

// ---------------------------------------------------------------- magnets

func runMagnet(c *vhlib.Ctx, m string, exp []byte, expKnown bool, class string) {
	c.NewCase()
	var t *tor.Torrent
	var err error
	p := vhlib.Recover(func() { t, err = tor.ReadMagnet("", m) })
	u := "U0"
	vhlib.Recover(func() {
		if pu, e := nurl.Parse(m); e == nil {
			u = "U1 " + vhlib.Hex([]byte(pu.Scheme)) + " " + listStr(pu.Query()["xt"])
		}
	})
	obs := "nil"
	switch {
	case p != "":
		obs = "panic"
	case t != nil:
		obs = "hash " + vhlib.Hex(t.Hash)
	case err != nil:
		obs = "err"
	}
	c.Emit("magnet "+vhlib.Hex([]byte(m))+" "+u, obs)
	c.Count("magnet/"+class+"/"+strings.Fields(obs)[0], m, t != nil)
	if p != "" {
		c.Violate("panic:ReadMagnet:"+panicCause(p), p, c.Case())
		return
	}
	if t != nil && err != nil {
		c.Violate("magnet:torrent-and-error", "", c.Case())
	}
	if t != nil {
		if len(t.Hash) != 20 {
			c.Violate("magnet:hash-not-20-bytes", fmt.Sprint(len(t.Hash)), c.Case())
		}
		if t.InfoComplete() || t.Info != nil {
			c.Violate("magnet:complete-without-metadata", "", c.Case())
		}
		if expKnown && !bytes.Equal(t.Hash, exp) {
			c.Violate("magnet:hash-is-not-the-btih-value", vhlib.Hex(t.Hash)+" != "+vhlib.Hex(exp), c.Case())
		}
		// the tr= / ws= / as= entries it kept must be usable objects
		if _, _, fn, msg := inspect(t); fn != "" {
			c.Violate("panic:"+fn+":"+panicCause(msg), "on a torrent ReadMagnet returned: "+msg, c.Case())
		}
	} else if expKnown && exp != nil {
		c.Violate("magnet:valid-btih-refused", m, c.Case())
	}
}

func genMagnet(r *vhlib.Rand) (string, []byte, bool) {
	h := r.Bytes(20)
	enc := func(h []byte) (string, bool) {
		switch r.Intn(8) {
		case 0:
			return strings.ToUpper(hex.EncodeToString(h)), true
		case 1:
			return base32.StdEncoding.EncodeToString(h), true
		case 2:
			return strings.ToLower(base32.StdEncoding.EncodeToString(h)), false
		case 3:
			return hex.EncodeToString(h)[:39], false
		case 4:
			return hex.EncodeToString(h) + "0", false
		case 5:
			return base32.StdEncoding.EncodeToString(h[:19]), false
		default:
			return hex.EncodeToString(h), true
		}
	}
	s, ok := enc(h)
	switch r.Intn(10) {
	case 0: // bare hash
		if ok {
			return s, h, true
		}
		return s, nil, false // ReadMagnet: (nil, nil) or a URL without scheme
	case 1: // first xt unusable, second one good
		h2 := r.Bytes(20)
		m := "magnet:?xt=urn:sha1:" + s + "&xt=urn:btih:zz&xt=urn:btih:" + hex.EncodeToString(h2) + "&xt=urn:btih:" + s
		return m, h2, true
	case 2: // not a magnet
		return []string{"http://example.com/?xt=urn:btih:" + s, "", "magnet", ":", "%zz", "mailto:x"}[r.Intn(6)], nil, false
	case 3: // percent-encoded value
		m := "magnet:?xt=urn%3Abtih%3A" + s
		if ok {
			return m, h, true
		}
		return m, nil, true
	case 4: // upper-case scheme, extra parameters
		m := "MAGNET:?dn=a+name&tr=" + nurl.QueryEscape(urls[r.Intn(len(urls))]) + "&xt=urn:btih:" + s + "&ws=" + nurl.QueryEscape(seedURL(r)) + "&as=" + nurl.QueryEscape(seedURL(r)) + "&ws=" + nurl.QueryEscape(seedURL(r))
		if ok {
			return m, h, true
		}
		return m, nil, true
	case 5: // base32 with an encoded line break inside (base32 decoding drops CR/LF)
		b := base32.StdEncoding.EncodeToString(h)
		return "magnet:?xt=urn:btih:" + b[:10] + "%0A" + b[10:], h, true
	case 6: // no xt / wrong prefix
		return []string{"magnet:?dn=x", "magnet:?xt=urn:btmh:" + s, "magnet:?xt=" + s, "magnet:"}[r.Intn(4)], nil, true
	default:
		m := "magnet:?xt=urn:btih:" + s
		if r.Chance(30) {
			m += "&dn=" + nurl.QueryEscape(names[r.Intn(len(names))])
		}
		for k := r.Intn(3); k > 0; k-- {
			m += []string{"&ws=", "&as=", "&tr="}[r.Intn(3)] + nurl.QueryEscape(seedURL(r))
		}
		if ok {
			return m, h, true
		}
		return m, nil, true
	}
}

// ---------------------------------------------------------------- deep nesting (child process)

func deepChild() {
	n, _ := strconv.Atoi(os.Getenv("C13_CHILD_DEEP"))
	pre := os.Getenv("C13_CHILD_PREFIX")
	b := append([]byte(pre), bytes.Repeat([]byte("l"), n)...)
	t, err := tor.ReadTorrent("", bytes.NewReader(b))
	fmt.Println("survived", t != nil, err)
}

func deepProbe(c *vhlib.Ctx, prefix string, n int) {
	cmd := exec.Command(os.Args[0])
	cmd.Env = append(os.Environ(), "C13_CHILD_DEEP="+strconv.Itoa(n), "C13_CHILD_PREFIX="+prefix, "GOMEMLIMIT=")
	out, _ := cmd.CombinedOutput()
	s := string(out)
	c.Count("deep-nesting/"+prefix, "", false)
	switch {
	case strings.Contains(s, "survived"):
	case strings.Contains(s, "stack overflow"):
		c.Violate("crash:ReadTorrent:stack-overflow:deep-nesting", fmt.Sprintf("a %d-byte file `%s` + 'l' x %d kills the process: fatal error: stack overflow (unrecoverable) in zeebo/bencode's recursive decoder", n+len(prefix), prefix, n), []string{"deep " + prefix + " " + strconv.Itoa(n)})
	default:
		if len(s) > 300 {
			s = s[:300]
		}
		c.Violate("crash:ReadTorrent:child-died:deep-nesting", s, []string{"deep " + prefix + " " + strconv.Itoa(n)})
	}
}

// safely: a panic that escapes the specific guards is still an observation, never a dead harness
func safely(c *vhlib.Ctx, f func()) {
	if p := vhlib.Recover(f); p != "" {
		c.Violate("panic:unguarded:"+panicCause(p), p, c.Case())
	}
}

func main() {
	if os.Getenv("C13_CHILD_DEEP") != "" {
		deepChild()
		return
	}
	c := vhlib.Init("c13")
	defer c.Close()
	c.Rep.Rule = "metainfo from a grammar (degenerate numeric fields included), byte-level mutations, random bytes; magnets from a grammar + mutations; non-trivial = the decoder produced a BInfo / a torrent; distinct = distinct inputs"
	if c.Replay != "" {
		for _, l := range c.ReplayLines() {
			f := strings.Fields(l)
			switch {
			case f[0] == "slice" && len(f) >= 2:
				safely(c, func() { runFile(c, vhlib.UnHex(f[1]), nil, "replay") })
			case f[0] == "magnet" && len(f) >= 2:
				safely(c, func() { runMagnet(c, string(vhlib.UnHex(f[1])), nil, false, "replay") })
			case f[0] == "deep" && len(f) == 3:
				n, _ := strconv.Atoi(f[2])
				deepProbe(c, f[1], n)
			}
		}
		return
	}
	r := c.R
	deepProbe(c, "d1:a", 2000000)
	deepProbe(c, "d4:info", 2000000)
	for i := 0; i < c.N; i++ {
		i := i
		safely(c, func() {
			switch k := i % 20; {
			case k < 10:
				f, info := genTorrent(r)
				runFile(c, []byte(f), &info, "grammar")
			case k < 14:
				f, _ := genTorrent(r)
				runFile(c, mutate(r, []byte(f)), nil, "mutated")
			case k == 14:
				runFile(c, r.Bytes(r.Intn(200)), nil, "random")
			case k < 18:
				m, h, known := genMagnet(r)
				runMagnet(c, m, h, known, "grammar")
			default:
				m, _, _ := genMagnet(r)
				runMagnet(c, string(mutate(r, []byte(m))), nil, false, "mutated")
			}
		})
	}
}
