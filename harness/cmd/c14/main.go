// vh c14: correspondence streams + property oracle for the web-seed data path (C14).
//
// Op grammar (one case = ops from a reset op `w.new` / `g.new` / `fc` / `pcr` to the next):
//
//	w.new <pl> <off> <cnt> <seed> <prefill>   piece of length pl, writer for [off, off+cnt); prefill = 0/1 per block or "-"
//	mw.begin / w.sel <i> / w.open <as w.new>     a case with up to three writers (each on its own torrent) whose calls are interleaved
//	w.write <n>                                writer.Write of the next n stream bytes, from the one re-used caller buffer (overwritten after the call)
//	w.readfrom <len:e,...|->                   writer.ReadFrom of a scripted reader; e = n|e|f (nil, io.EOF, failure with the bytes)
//	w.close                                    writer.Close
//	s.fill                                     another source completes the piece (Finalise) -> AddData returns 0
//	s.delete                                   Pieces.Del -> AddData returns ErrDeleted
//	w.dump                                     bitmap + per-block digests of the piece
//	fc <ps> <total> <len:f|p,...|-> <index> <offset> <length>     fileChunks
//	g.new <ps> <total> <files|-> <index> <seed> <prefill>          torrent + GetRight/Hoffman web seeds on a local server
//	g.fetch <offset> <length> <resp/resp/...>  tor.webseedGR; resp per file chunk: pad | T | status;cl;crhex;fileoff:len:junk;fin
//	h.fetch <offset> <length> <status;cl;len;junk;fin>            tor.webseedH
//	g.maybe <h|e>                              tor.maybeWebseed (hole choice, 1 MiB cap, reservation, fetch goroutine); the server answers honestly / with 404
//	pcr <hex>                                  webseed.parseContentRange
//	url <base hex> <name hex> <comp hex,…|nil|.>   webseed.buildUrl
//
// Stream byte i of a writer case is pat(seed, off+i), i.e. the piece's reference content, so a
// byte stored at a wrong offset differs from the reference there.
package main

import (
	"bytes"
	"context"
	"crypto/sha1"
	"errors"
	"fmt"
	"io"
	"math"
	"net"
	"net/http"
	"net/http/httptest"
	nurl "net/url"
	"regexp"
	"strconv"
	"strings"
	"sync"
	"time"

	"github.com/jech/storrent/config"
	"github.com/jech/storrent/peer"
	"github.com/jech/storrent/tor"
	"github.com/jech/storrent/tor/piece"
	"github.com/jech/storrent/webseed"

	"verifharness/vhlib"
)

const CS = 16384

func pat(seed, k int) byte { return byte((k*7 + k/256*13 + k/65536*17 + seed) % 256) }

func patBytes(seed, pos, n int) []byte {
	b := make([]byte, n)
	for i := range b {
		b[i] = pat(seed, pos+i)
	}
	return b
}

// ---------------------------------------------------------------- torrent construction

// a file of the layout: its length and its BEP 47 attribute string ("" = none).  Whether it is a
// padding file is decided by the attribute alone (it contains 'p'); its NAME never matters.
type fileSpec struct {
	length int64
	pad    bool   // = strings.Contains(attr, "p"), the property's notion of a padding file
	attr   string
}

func mkFile(length int64, attr string) fileSpec {
	return fileSpec{length, strings.Contains(attr, "p"), attr}
}

func bstr(s string) string { return fmt.Sprintf("%d:%s", len(s), s) }

// naming styles of the generated torrents (selected by g.new's seed: seed/1000): the torrent
// name and the path components of file i.  Reserved characters, blanks, non-ASCII, nested
// directories: what must reach the web server as <base>/<name>/<comp>/<comp>… with every component
// percent-encoded on its own (BEP 19).
const nStyles = 12

func styleName(k int) string {
	switch k {
	case 2:
		return "my torrent"
	case 3:
		return "a#b?c"
	case 4:
		return "100%"
	case 5:
		return "a+b&c=d"
	case 7:
		return "x%41;y, z"
	case 9:
		return "_____padding_file_0"
	case 11:
		return ".pad"
	}
	return "t"
}

func stylePath(k, i int) []string {
	switch k {
	case 1:
		return []string{"sub", "dir", fmt.Sprintf("inner%d.bin", i)}
	case 2:
		return []string{"a b", fmt.Sprintf("f%d x", i)}
	case 3:
		return []string{fmt.Sprintf("p#%d", i), "q?x"}
	case 4:
		return []string{fmt.Sprintf("50%%%d", i), "%41"}
	case 5:
		return []string{fmt.Sprintf("x+%d&y", i), fmt.Sprintf("\u00e9%d", i), "\u65e5\u672c"}
	case 6:
		return []string{fmt.Sprintf("d%d", i%2), fmt.Sprintf("f%d", i)}
	case 7:
		return []string{fmt.Sprintf("%%zz%d", i), "a:b@c$d"}
	// names that look like padding files, for files that are whatever their attribute says
	case 8:
		return []string{".pad", fmt.Sprint(i)}
	case 9:
		return []string{fmt.Sprintf("_____padding_file_%d_if you see this file, please update", i)}
	case 10:
		return []string{"docs", fmt.Sprintf("_____padding_file_%d", i)}
	case 11:
		return []string{".pad", fmt.Sprintf("notes%d.txt", i)}
	}
	return []string{fmt.Sprintf("f%d", i)}
}

// metainfo builds a .torrent; hashOf gives the SHA-1 of piece i (nil or a nil result: zeros — the
// hash of a piece matters only where the harness completes that piece).
func metainfo(ps int, total int64, files []fileSpec, hashOf func(i int) []byte) []byte {
	return metainfoStyle(0, ps, total, files, hashOf)
}

func metainfoStyle(style, ps int, total int64, files []fileSpec, hashOf func(i int) []byte) []byte {
	var b bytes.Buffer
	b.WriteString("d4:infod")
	if files != nil {
		b.WriteString("5:filesl")
		for i, f := range files {
			b.WriteString("d")
			if f.attr != "" {
				b.WriteString("4:attr" + bstr(f.attr))
			}
			fmt.Fprintf(&b, "6:lengthi%de4:pathl", f.length)
			for _, c := range stylePath(style, i) {
				b.WriteString(bstr(c))
			}
			b.WriteString("ee")
		}
		b.WriteString("e")
	} else {
		fmt.Fprintf(&b, "6:lengthi%de", total)
	}
	b.WriteString("4:name" + bstr(styleName(style)))
	fmt.Fprintf(&b, "12:piece lengthi%de", ps)
	np := int((total + int64(ps) - 1) / int64(ps))
	fmt.Fprintf(&b, "6:pieces%d:", 20*np)
	var zero [20]byte
	for i := 0; i < np; i++ {
		var h []byte
		if hashOf != nil {
			h = hashOf(i)
		}
		if h == nil {
			h = zero[:]
		}
		b.Write(h)
	}
	b.WriteString("ee")
	return b.Bytes()
}

func hashOfContent(ps int, content []byte) func(i int) []byte {
	return func(i int) []byte {
		lo := i * ps
		hi := lo + ps
		if hi > len(content) {
			hi = len(content)
		}
		h := sha1.Sum(content[lo:hi])
		return h[:]
	}
}

type ev struct {
	data     bool
	begin    uint32
	count    uint32
	complete bool
}

func (e ev) String() string {
	if e.data {
		c := ""
		if e.complete {
			c = "c"
		}
		return fmt.Sprintf("D%d+%d%s", e.begin, e.count, c)
	}
	return fmt.Sprintf("X%d+%d", e.begin, e.count)
}

func evsStr(es []ev) string {
	if len(es) == 0 {
		return "-"
	}
	var s []string
	for _, e := range es {
		s = append(s, e.String())
	}
	return strings.Join(s, ",")
}

// ---------------------------------------------------------------- scripted reader

type item struct {
	n   int
	err byte // 'n' nil, 'e' io.EOF, 'f' failure
}

var errScripted = errors.New("scripted read failure")

type scriptReader struct {
	items []item
	data  []byte // concatenation of all items' bytes
	pos   int
}

func (r *scriptReader) Read(p []byte) (int, error) {
	if len(r.items) == 0 {
		return 0, io.EOF
	}
	it := &r.items[0]
	if it.n <= len(p) {
		n := copy(p, r.data[r.pos:r.pos+it.n])
		r.pos += n
		e := it.err
		r.items = r.items[1:]
		switch e {
		case 'e':
			return n, io.EOF
		case 'f':
			return n, errScripted
		}
		return n, nil
	}
	n := copy(p, r.data[r.pos:r.pos+len(p)])
	r.pos += n
	it.n -= n
	return n, nil
}

// ---------------------------------------------------------------- case state

type state struct {
	c     *vhlib.Ctx
	kind  string
	t     *tor.Torrent
	index uint32
	ps    int
	pl    int
	seed  int
	// writer family
	w         *tor.VerifWriter
	off0      int
	cnt0      int
	pos       int // stream bytes consumed so far
	offered   int // stream bytes offered by well-behaved calls (for split independence)
	nice      bool
	closed    bool
	events    []ev
	exempt    []bool // blocks not stored by the writer under test (prefilled / s.fill)
	storeOpen bool
	panicked  bool
	// g family
	total   int64
	files   []fileSpec
	srv     *server
	pads    [][2]int    // absolute ranges of the padding files
	style   int         // naming style of the torrent
	snap    []byte      // piece content before the fetch (for blocks already present)
	legit   map[int]int // absolute torrent position -> byte value the writer may store there (-1: none)
	fetchLo int
	fetchHi int
	allHonest bool
	fetched bool
	logbuf  *syncBuf
}

type syncBuf struct {
	mu sync.Mutex
	b  bytes.Buffer
}

func (s *syncBuf) Write(p []byte) (int, error) {
	s.mu.Lock()
	defer s.mu.Unlock()
	return s.b.Write(p)
}
func (s *syncBuf) take() string {
	s.mu.Lock()
	defer s.mu.Unlock()
	r := s.b.String()
	s.b.Reset()
	return r
}

func (s *state) drain() []ev {
	var out []ev
	for {
		select {
		case e := <-s.t.Event:
			switch x := e.(type) {
			case peer.TorData:
				out = append(out, ev{true, x.Begin, x.Length, x.Complete})
			case peer.TorDrop:
				out = append(out, ev{false, x.Begin, x.Length, false})
			default:
				out = append(out, ev{false, ^uint32(0), 0, false})
			}
		default:
			s.events = append(s.events, out...)
			return out
		}
	}
}

func errClass(err error) string {
	switch {
	case err == nil:
		return "nil"
	case errors.Is(err, net.ErrClosed):
		return "closed"
	case errors.Is(err, tor.ErrShortWrite):
		return "short"
	case errors.Is(err, io.EOF):
		return "eof"
	case errors.Is(err, errScripted):
		return "rfail"
	case errors.Is(err, piece.ErrDeleted):
		return "deleted"
	case err.Error() == "adding data at odd offset":
		return "odd"
	case err.Error() == "adding data beyond end of piece":
		return "beyond"
	}
	return "other:" + err.Error()
}

func nblocks(pl int) int { return (pl + CS - 1) / CS }

func blockLen(pl, b int) int {
	if (b+1)*CS <= pl {
		return CS
	}
	return pl - b*CS
}

func (s *state) prefill(pf string, content func(b int) []byte) {
	s.exempt = make([]bool, nblocks(s.pl))
	for b := 0; b < nblocks(s.pl) && b < len(pf); b++ {
		if pf[b] == '1' {
			_, _, err := s.t.Pieces.AddData(s.index, uint32(b*CS), content(b), 1)
			if err != nil {
				panic(err)
			}
			s.exempt[b] = true
		}
	}
}

func (s *state) dump() string {
	vp := s.t.Pieces.VerifPiece(s.index)
	data := s.t.Pieces.VerifPieceData(s.index)
	nb := nblocks(s.pl)
	bm := make([]byte, nb)
	var hs []string
	for b := 0; b < nb; b++ {
		bm[b] = '0'
		if vp.Bitmap.Get(b) && data != nil {
			bm[b] = '1'
			blk := data[b*CS : b*CS+blockLen(s.pl, b)]
			hs = append(hs, fmt.Sprintf("%d:%d", len(blk), vhlib.Fnv64(blk)))
		}
	}
	bms, h := string(bm), strings.Join(hs, ",")
	if bms == "" {
		bms = "-"
	}
	if h == "" {
		h = "-"
	}
	return "bm=" + bms + " h=" + h
}

// ---------------------------------------------------------------- writer family

func (s *state) wNew(pl, off, cnt, seed int, pf string) string {
	ps := nblocks(pl) * CS
	var total int64
	var index uint32
	if pl == ps {
		total, index = int64(2*ps), 0
	} else {
		total, index = int64(ps+pl), 1
	}
	content := make([]byte, total)
	copy(content[int(index)*ps:], patBytes(seed, 0, pl))
	t, err := tor.ReadTorrent("", bytes.NewReader(metainfo(ps, total, nil, hashOfContent(ps, content))))
	if err != nil {
		panic(err)
	}
	tor.VerifInit(t, 1<<14, uint64(seed))
	*s = state{c: s.c, kind: "w", t: t, index: index, ps: ps, pl: pl, seed: seed, off0: off, cnt0: cnt,
		nice: true, storeOpen: true, srv: s.srv}
	s.prefill(pf, func(b int) []byte { return patBytes(seed, b*CS, blockLen(pl, b)) })
	s.w = tor.VerifNewWriter(t, index, uint32(off), uint32(cnt))
	return "ok"
}

func (s *state) wObs(n int64, err error, p string) string {
	es := s.drain()
	if p != "" {
		s.panicked = true
		s.c.Violate("panic:writer", "writer panicked: "+p, caseOps())
		return "panic"
	}
	o, c, bl := s.w.State()
	return fmt.Sprintf("n=%d err=%s off=%d cnt=%d buf=%d ev=%s", n, errClass(err), o, c, bl, evsStr(es))
}

// callerBuf is the ONE buffer every Write of the harness is made from, as io.CopyBuffer or an
// HTTP body reader would: it is refilled for each call and overwritten with 0xAA as soon as Write
// returns (io.Writer: "Write must not retain p").
var callerBuf []byte

const retainMark = 0xAA

func (s *state) wWrite(n int) string {
	if cap(callerBuf) < n {
		callerBuf = make([]byte, n+4096)
	}
	p := callerBuf[:n]
	copy(p, patBytes(s.seed, s.off0+s.pos, n))
	var k int
	var err error
	pn := vhlib.Recover(func() { k, err = s.w.Write(p) })
	for i := range p {
		p[i] = retainMark
	}
	if pn == "" {
		s.pos += k
		if !s.closed {
			s.offered += n
		}
		tag := "w:buffer"
		switch {
		case errors.Is(err, net.ErrClosed):
			tag = "w:closed"
		case k < n:
			tag = "w:short"
		case len(s.t.Event) > 0:
			tag = "w:commit"
		}
		if err != nil && !errors.Is(err, tor.ErrShortWrite) && !errors.Is(err, net.ErrClosed) {
			tag = "w:storeerr"
		}
		s.c.Count(tag, fmt.Sprintf("write %d pos %d", n, s.pos), tag != "w:buffer")
	}
	return s.wObs(int64(k), err, pn)
}

func parseItems(spec string) ([]item, int, bool) {
	if spec == "-" {
		return nil, 0, true
	}
	var items []item
	total := 0
	for _, it := range strings.Split(spec, ",") {
		f := strings.Split(it, ":")
		if len(f) != 2 || len(f[1]) != 1 || !strings.Contains("nef", f[1]) {
			return nil, 0, false
		}
		n, err := strconv.Atoi(f[0])
		if err != nil || n < 0 {
			return nil, 0, false
		}
		items = append(items, item{n, f[1][0]})
		total += n
	}
	return items, total, true
}

func (s *state) wReadFrom(spec string) string {
	items, total, ok := parseItems(spec)
	if !ok {
		return "bad-op"
	}
	for i, it := range items {
		if it.n == 0 || it.err == 'f' || (it.err == 'e' && i != len(items)-1) {
			s.nice = false // the reader ends the copy early: not a plain split of the stream
		}
	}
	r := &scriptReader{items: items, data: patBytes(s.seed, s.off0+s.pos, total)}
	var k int64
	var err error
	pn := vhlib.Recover(func() { k, err = s.w.ReadFrom(r) })
	if pn == "" {
		s.pos += int(k)
		if !s.closed {
			s.offered += total
		}
		tag := "r:eof"
		switch {
		case errors.Is(err, net.ErrClosed):
			tag = "r:closed"
		case errors.Is(err, tor.ErrShortWrite):
			tag = "r:full"
		case errors.Is(err, errScripted):
			tag = "r:rfail"
		case errors.Is(err, io.EOF):
			tag = "r:zero-eof"
		case err != nil:
			tag = "r:werr"
		case int(k) < total:
			tag = "r:stopped"
		}
		s.c.Count(tag, fmt.Sprintf("readfrom %s pos %d", spec, s.pos), true)
	}
	return s.wObs(k, err, pn)
}

func (s *state) wClose() string {
	var err error
	pn := vhlib.Recover(func() { err = s.w.Close() })
	wasClosed := s.closed
	s.closed = true
	out := s.wObs(0, err, pn)
	tag := "c:clean"
	if wasClosed {
		tag = "c:closed"
	} else if strings.Contains(out, "ev=X") {
		tag = "c:drop"
	}
	s.c.Count(tag, out, true)
	return out
}

func (s *state) sFill() string {
	vp := s.t.Pieces.VerifPiece(s.index)
	if vp.State == 1 || s.t.Pieces.VerifDeleted() {
		return "ok"
	}
	if s.kind == "g" {
		// blocks holding something else than the reference content (a lying server) would make
		// Finalise fail and drop the piece: leave such a piece alone
		data := s.t.Pieces.VerifPieceData(s.index)
		for b := 0; b < nblocks(s.pl) && data != nil; b++ {
			lo := int(s.index)*s.ps + b*CS
			if vp.Bitmap.Get(b) && !bytes.Equal(data[b*CS:b*CS+blockLen(s.pl, b)], s.refB(lo, blockLen(s.pl, b))) {
				return "skip"
			}
		}
	}
	for b := 0; b < nblocks(s.pl); b++ {
		if !vp.Bitmap.Get(b) {
			var blk []byte
			if s.kind == "w" {
				blk = patBytes(s.seed, b*CS, blockLen(s.pl, b))
			} else {
				lo := int(s.index)*s.ps + b*CS
				blk = s.refB(lo, blockLen(s.pl, b))
			}
			_, _, err := s.t.Pieces.AddData(s.index, uint32(b*CS), blk, 1)
			if err != nil {
				return "fill-error:" + err.Error()
			}
			s.exempt[b] = true
		}
	}
	s.storeOpen = false
	if s.kind == "w" {
		done, _, err := s.t.Pieces.Finalise(s.index, s.t.PieceHashes[s.index])
		if !done || err != nil {
			// the writer stored something that is not the reference content
			s.c.Violate("writer-misplaced:finalise", fmt.Sprintf("piece does not verify after fill: %v", err), caseOps())
			return "fill-failed"
		}
	} else {
		// g family: content of prefilled blocks is the pattern, not necessarily the hashed
		// reference (padding); freeze the piece by marking it complete through Finalise on
		// a torrent whose hashes were computed from the pattern (see gNew)
		done, _, err := s.t.Pieces.Finalise(s.index, s.t.PieceHashes[s.index])
		if !done || err != nil {
			return "fill-failed"
		}
	}
	return "ok"
}

func (s *state) sDelete() string {
	s.t.Pieces.Del()
	s.storeOpen = false
	return "ok"
}

// expectedBlocks: blocks wholly inside [lo, hi) (hi == pl closes the final short block)
func wholeBlocks(pl, lo, hi int) map[int]bool {
	m := map[int]bool{}
	for b := 0; b < nblocks(pl); b++ {
		if b*CS >= lo && b*CS+blockLen(pl, b) <= hi {
			m[b] = true
		}
	}
	return m
}

func ceilDiv(a, b int) int { return (a + b - 1) / b }

// checkEvents: TorData/TorDrop tile [off0, off0+cnt0), aligned, whole blocks; balance.
func (s *state) checkEvents(off0, cnt0 int, closed bool, kindp string) {
	if off0%CS != 0 || off0+cnt0 > s.pl {
		return // not a range maybeWebseed can produce
	}
	at := off0
	dropped := false
	var rel []int
	for _, e := range s.events {
		if e.begin == ^uint32(0) {
			s.c.Violate(kindp+"-event:foreign", "unexpected event type", caseOps())
			return
		}
		if dropped {
			s.c.Violate(kindp+"-event:after-drop", "event after TorDrop: "+e.String(), caseOps())
			return
		}
		if int(e.begin) != at {
			s.c.Violate(kindp+"-event:gap", fmt.Sprintf("event %v does not start at %d", e, at), caseOps())
			return
		}
		if e.begin%CS != 0 {
			s.c.Violate(kindp+"-event:odd-begin", "event at odd offset: "+e.String(), caseOps())
			return
		}
		if e.data && e.count%CS != 0 && int(e.begin+e.count) != s.pl {
			s.c.Violate(kindp+"-event:partial-block", "TorData is not whole blocks: "+e.String(), caseOps())
			return
		}
		if e.count == 0 {
			s.c.Violate(kindp+"-event:empty", "empty event", caseOps())
			return
		}
		for i := 0; i < ceilDiv(int(e.count), CS); i++ {
			rel = append(rel, int(e.begin)/CS+i)
		}
		at += int(e.count)
		if !e.data {
			dropped = true
		}
	}
	if at > off0+cnt0 {
		s.c.Violate(kindp+"-event:beyond-range", fmt.Sprintf("events cover up to %d > %d", at, off0+cnt0), caseOps())
		return
	}
	if closed && off0+cnt0 <= s.pl && off0%CS == 0 {
		// every block reserved by maybeWebseed (ceil(cnt0/CS) from off0/CS) is released exactly once
		ok := len(rel) == ceilDiv(cnt0, CS) && at == off0+cnt0
		for i, b := range rel {
			if b != off0/CS+i {
				ok = false
			}
		}
		if !ok {
			s.c.Violate(kindp+"-reservation-unbalanced", fmt.Sprintf("released %v, reserved %d blocks from %d (events %s)",
				rel, ceilDiv(cnt0, CS), off0/CS, evsStr(s.events)), caseOps())
		}
	}
}

// endWriterCase evaluates the property on what the real writer did.
func (s *state) endWriterCase() {
	if s.kind != "w" || s.t == nil || s.panicked {
		return
	}
	vp := s.t.Pieces.VerifPiece(s.index)
	data := s.t.Pieces.VerifPieceData(s.index)
	consumedEnd := s.off0 + s.pos
	inContract := s.off0%CS == 0 && s.off0+s.cnt0 <= s.pl
	if s.pos > s.cnt0 {
		s.c.Violate("writer-beyond-range:accepted", fmt.Sprintf("accepted %d bytes for a range of %d", s.pos, s.cnt0), caseOps())
	}
	if data != nil {
		for b := 0; b < nblocks(s.pl); b++ {
			if !vp.Bitmap.Get(b) || s.exempt[b] {
				continue
			}
			lo, hi := b*CS, b*CS+blockLen(s.pl, b)
			if lo < s.off0 || hi > s.off0+s.cnt0 {
				s.c.Violate("writer-beyond-range:block", fmt.Sprintf("block %d stored outside [%d,%d)", b, s.off0, s.off0+s.cnt0), caseOps())
				continue
			}
			if hi > consumedEnd {
				s.c.Violate("writer-not-prefix:block", fmt.Sprintf("block %d stored but only %d bytes were accepted", b, s.pos), caseOps())
				continue
			}
			if want := patBytes(s.seed, lo, hi-lo); !bytes.Equal(data[lo:hi], want) {
				// are the wrong bytes (many of them) the mark the caller put into its buffer after Write returned?
				marks, other := 0, 0
				for i := range want {
					if data[lo+i] != want[i] {
						if data[lo+i] == retainMark {
							marks++
						} else {
							other++
						}
					}
				}
				if marks > 0 && marks*4 >= marks+other { // far more marks than chance (1/256) explains
					s.c.Violate("writer:retains-caller-buffer", fmt.Sprintf("block %d: %d bytes hold what the caller wrote into its buffer after Write had returned", b, marks), caseOps())
				} else {
					s.c.Violate("writer-misplaced:block", fmt.Sprintf("block %d does not hold stream bytes [%d,%d)", b, lo-s.off0, hi-s.off0), caseOps())
				}
			}
		}
	}
	s.checkEvents(s.off0, s.cnt0, s.closed, "writer")
	// independence of the split: with a store that accepts data all along and readers that
	// deliver everything, the stored blocks are a function of the stream alone
	if s.nice && s.storeOpen && inContract && s.closed {
		total := s.offered
		if total > s.cnt0 {
			total = s.cnt0
		}
		if s.pos != total {
			s.c.Violate("writer-split-dependent:accepted", fmt.Sprintf("accepted %d of %d offered (range %d)", s.pos, s.offered, s.cnt0), caseOps())
		}
		want := wholeBlocks(s.pl, s.off0, s.off0+total)
		for b := 0; b < nblocks(s.pl); b++ {
			have := vp.Bitmap.Get(b) && data != nil
			if s.exempt[b] {
				continue
			}
			if have != want[b] {
				s.c.Violate("writer-split-dependent:blocks", fmt.Sprintf("block %d present=%v, expected %v after %d stream bytes", b, have, want[b], total), caseOps())
				break
			}
		}
	}
}

// ---------------------------------------------------------------- fileChunks family

type chunk struct {
	idx        int
	flen       int64
	off, leng  int64
	pad        bool
}

// partition: the non-empty intersections of [A, A+L) with the files, in file order.
func partition(files []fileSpec, total int64, A, L int64) []chunk {
	if files == nil {
		return []chunk{{0, total, A, L, false}}
	}
	var out []chunk
	var fo int64
	for i, f := range files {
		lo, hi := fo, fo+f.length
		if lo < A {
			lo = A
		}
		if hi > A+L {
			hi = A + L
		}
		if lo < hi {
			out = append(out, chunk{i, f.length, lo - fo, hi - lo, f.pad})
		}
		fo += f.length
	}
	return out
}

// file specs `len:attr`: attr is the attribute string of the metainfo; `f` stands for "no attribute"
func parseFiles(spec string) ([]fileSpec, bool) {
	if spec == "-" {
		return nil, true
	}
	var fs []fileSpec
	for _, it := range strings.Split(spec, ",") {
		f := strings.Split(it, ":")
		if len(f) != 2 || f[1] == "" {
			return nil, false
		}
		n, err := strconv.ParseInt(f[0], 10, 64)
		if err != nil || n < 0 {
			return nil, false
		}
		attr := f[1]
		if attr == "f" {
			attr = ""
		}
		fs = append(fs, mkFile(n, attr))
	}
	return fs, true
}

func filesStr(fs []fileSpec) string {
	if fs == nil {
		return "-"
	}
	var s []string
	for _, f := range fs {
		k := f.attr
		if k == "" {
			k = "f"
		}
		s = append(s, fmt.Sprintf("%d:%s", f.length, k))
	}
	return strings.Join(s, ",")
}

func idxOfPath(style, nfiles int, p []string) int {
	key := strings.Join(p, "\x00")
	for i := 0; i < nfiles; i++ {
		if strings.Join(stylePath(style, i), "\x00") == key {
			return i
		}
	}
	return -1
}

func fcStr(cs []chunk) string {
	if len(cs) == 0 {
		return "-"
	}
	var s []string
	for _, c := range cs {
		k := "f"
		if c.pad {
			k = "p"
		}
		s = append(s, fmt.Sprintf("%d:%d:%d:%d:%s", c.idx, c.flen, c.off, c.leng, k))
	}
	return strings.Join(s, ";")
}

// the naming style of an fc op's torrent is derived from its total length (any style will do: the
// chunks and their padding flags must not depend on the names)
func fcStyle(total int64) int { return int(total % nStyles) }

// the torrent of the previous fc op (several queries on one large layout parse it once)
var fcCacheKey string
var fcCacheT *tor.Torrent

func (s *state) fcOp(ps int, total int64, files []fileSpec, index, offset, length int) string {
	key := fmt.Sprintf("%d %d %s", ps, total, filesStr(files))
	t := fcCacheT
	if key != fcCacheKey || t == nil {
		var err error
		t, err = tor.ReadTorrent("", bytes.NewReader(metainfoStyle(fcStyle(total), ps, total, files, nil)))
		if err != nil {
			return "torrent-error:" + err.Error()
		}
		fcCacheKey, fcCacheT = key, t
	}
	var got []chunk
	pn := vhlib.Recover(func() {
		for _, fc := range tor.VerifFileChunks(t, uint32(index), uint32(offset), uint32(length)) {
			idx := 0
			if files != nil {
				idx = idxOfPath(fcStyle(total), len(files), fc.Path)
			}
			got = append(got, chunk{idx, fc.FileLength, fc.Offset, fc.Length, fc.Pad})
		}
	})
	if pn != "" {
		s.c.Violate("panic:filechunks", pn, caseOps())
		return "panic"
	}
	// oracle: the property, chunk by chunk
	A, L := int64(index)*int64(ps)+int64(offset), int64(length)
	if A+L <= total && L > 0 {
		at := A
		last := -1
		var fo []int64
		var acc int64
		for _, f := range files {
			fo = append(fo, acc)
			acc += f.length
		}
		bad := ""
		for _, g := range got {
			switch {
			case files != nil && (g.idx < 0 || g.idx >= len(files)):
				bad = "unknown-file"
			case files != nil && g.idx <= last:
				bad = "out-of-order"
			case g.leng <= 0:
				bad = "empty-chunk"
			case g.off < 0 || g.off+g.leng > g.flen:
				bad = "outside-file"
			case files != nil && (g.flen != files[g.idx].length || g.pad != files[g.idx].pad):
				bad = "wrong-file-attrs"
			case files != nil && fo[g.idx]+g.off != at:
				bad = "gap-or-overlap"
			case files == nil && g.off != at:
				bad = "gap-or-overlap"
			}
			if bad != "" {
				break
			}
			last = g.idx
			at += g.leng
		}
		if bad == "" && at != A+L {
			bad = "not-covering"
		}
		if bad == "" && fcStr(got) != fcStr(partition(files, total, A, L)) {
			bad = "not-the-intersections"
		}
		if bad != "" {
			s.c.Violate("filechunks-"+bad, fmt.Sprintf("range [%d,%d) -> %s", A, A+L, fcStr(got)), caseOps())
		}
	}
	tag := fmt.Sprintf("fc:%dchunks", len(got))
	if len(got) > 3 {
		tag = "fc:4+chunks"
	}
	if files == nil {
		tag = "fc:single"
	}
	s.c.Count(tag, fcStr(got), len(got) > 1)
	return fcStr(got)
}

// ---------------------------------------------------------------- web-seed family

type respSpec struct {
	pad, transport bool
	status         int
	cl             string // "-" = no Content-Length (chunked)
	cr             string // raw Content-Range, "" = absent
	fileoff, n     int
	junk           int
	fin            byte // 'e' clean end, 'f' abort
}

type reqLog struct {
	idx         int
	first, last int64
	rng         string
	query       string
	badTarget   string // the request target when it does not name a file of the torrent
}

type server struct {
	ts   *httptest.Server
	mu   sync.Mutex
	st   *state
	spec map[int]respSpec // by file index (-1: hoffman)
	reqs []reqLog
	segR *vhlib.Rand
	honest bool
	all404 bool
}

var hoffNoted bool

var rangeRe = regexp.MustCompile(`^bytes=(\d+)-(\d+)$`)

func newServer() *server {
	sv := &server{}
	sv.ts = httptest.NewServer(http.HandlerFunc(sv.handle))
	return sv
}

func (sv *server) handle(w http.ResponseWriter, r *http.Request) {
	sv.mu.Lock()
	st := sv.st
	idx := -2
	badTarget := ""
	switch {
	case r.URL.Path == "/hoff":
		idx = -1
	case st != nil:
		idx, badTarget = st.resolveTarget(r)
	}
	rl := reqLog{idx: idx, first: -1, last: -1, rng: r.Header.Get("Range"), query: r.URL.RawQuery, badTarget: badTarget}
	if m := rangeRe.FindStringSubmatch(rl.rng); m != nil {
		rl.first, _ = strconv.ParseInt(m[1], 10, 64)
		rl.last, _ = strconv.ParseInt(m[2], 10, 64)
	}
	sv.reqs = append(sv.reqs, rl)
	sp, ok := sv.spec[idx]
	segR := sv.segR
	honest := sv.honest
	if sv.all404 {
		sp, ok = respSpec{status: 404, cl: "-", n: 0, junk: 2, fin: 'e'}, true
	}
	sv.mu.Unlock()
	if !ok && honest && st != nil && rl.first >= 0 && idx >= 0 {
		// an honest server: exactly the requested bytes of the file
		flen := st.total
		if st.files != nil {
			flen = st.files[idx].length
		}
		sp, ok = respSpec{status: 206, cl: "-", cr: fmt.Sprintf("bytes %d-%d/%d", rl.first, rl.last, flen),
			fileoff: int(rl.first), n: int(rl.last - rl.first + 1), fin: 'e'}, true
	}
	if !ok || st == nil {
		http.Error(w, "no script", 599)
		return
	}
	if sp.transport {
		if hj, ok := w.(http.Hijacker); ok {
			conn, _, err := hj.Hijack()
			if err == nil {
				conn.Close()
				return
			}
		}
		panic(http.ErrAbortHandler)
	}
	body := st.bodyBytes(idx, sp)
	if sp.cr != "" {
		w.Header().Set("Content-Range", sp.cr)
	}
	if sp.cl != "-" {
		w.Header().Set("Content-Length", sp.cl)
	}
	w.Header().Set("Content-Type", "application/octet-stream")
	w.WriteHeader(sp.status)
	fl, _ := w.(http.Flusher)
	fl.Flush() // headers always reach the client; without Content-Length this selects chunked encoding
	for len(body) > 0 {
		sv.mu.Lock()
		n := 1 + segR.Intn(40000)
		if segR.Chance(20) {
			n = 1 + segR.Intn(64)
		}
		sv.mu.Unlock()
		if n > len(body) {
			n = len(body)
		}
		if _, err := w.Write(body[:n]); err != nil {
			return
		}
		fl.Flush()
		body = body[n:]
	}
	if sp.fin == 'f' {
		panic(http.ErrAbortHandler)
	}
}

// resolveTarget maps the request target AS SENT ON THE WIRE to a file of the torrent: after the
// web seed's base "/gr/", the target must be the torrent name and the file's path components, each
// percent-encoded on its own and separated by '/', without query.  Returns the file index, or -2
// and the offending target.
func (s *state) resolveTarget(r *http.Request) (int, string) {
	raw := r.RequestURI
	if strings.ContainsAny(raw, "?#") || !strings.HasPrefix(raw, "/gr/") {
		return -2, raw
	}
	var comps []string
	for _, seg := range strings.Split(raw[len("/gr/"):], "/") {
		c, err := nurl.PathUnescape(seg)
		if err != nil {
			return -2, raw
		}
		comps = append(comps, c)
	}
	if len(comps) == 0 || comps[0] != styleName(s.style) {
		return -2, raw
	}
	if s.files == nil {
		if len(comps) == 1 {
			return 0, ""
		}
		return -2, raw
	}
	key := strings.Join(comps[1:], "\x00")
	for i := range s.files {
		if strings.Join(stylePath(s.style, i), "\x00") == key {
			return i, ""
		}
	}
	return -2, raw
}

// checkTargets: oracle on the request targets of a fetch
func (s *state) checkTargets(reqs []reqLog) {
	for _, r := range reqs {
		if r.badTarget != "" {
			s.c.Violate("webseed-url:wrong-target", fmt.Sprintf("requested %q for a file of torrent %q (style %d)", r.badTarget, styleName(s.style), s.style), caseOps())
			return
		}
	}
}

func (s *state) fileBase(idx int) int {
	if s.files == nil || idx < 0 {
		return 0
	}
	var fo int64
	for i := 0; i < idx && i < len(s.files); i++ {
		fo += s.files[i].length
	}
	return int(fo)
}

func (s *state) bodyBytes(idx int, sp respSpec) []byte {
	base := s.fileBase(idx)
	body := patBytes(s.seed, base+sp.fileoff, sp.n)
	if idx == -1 { // Hoffman serves the torrent's content (zeros in padding files)
		base = int(s.index) * s.ps
		body = s.refB(base+sp.fileoff, sp.n)
	}
	return append(body, patBytes(s.seed+7, 0, sp.junk)...)
}

// refB: bytes [lo, lo+n) of the torrent's reference content — zeros in padding files, the pattern
// elsewhere — computed on demand (torrents of several GiB are never materialised)
func (s *state) refB(lo, n int) []byte {
	b := patBytes(s.seed, lo, n)
	for _, p := range s.pads {
		a, e := p[0], p[1]
		if a < lo {
			a = lo
		}
		if e > lo+n {
			e = lo + n
		}
		for x := a; x < e; x++ {
			b[x-lo] = 0
		}
	}
	return b
}

func (s *state) gNew(ps int, total int64, files []fileSpec, index, seed int, pf string) string {
	var pads [][2]int
	var fo int64
	for _, f := range files {
		if f.pad && f.length > 0 {
			pads = append(pads, [2]int{int(fo), int(fo + f.length)})
		}
		fo += f.length
	}
	pl0 := ps
	if int64(index+1)*int64(ps) > total {
		pl0 = int(total - int64(index)*int64(ps))
	}
	tmp := &state{seed: seed, pads: pads}
	style := seed / 1000 % nStyles // g.new's seed also selects the naming style
	t, err := tor.ReadTorrent("", bytes.NewReader(metainfoStyle(style, ps, total, files, func(i int) []byte {
		if i != index {
			return nil // only the piece under test is ever completed
		}
		h := sha1.Sum(tmp.refB(index*ps, pl0))
		return h[:]
	})))
	if err != nil {
		return "torrent-error:" + err.Error()
	}
	tor.VerifInit(t, 1<<14, uint64(seed))
	pl := ps
	if int64(index+1)*int64(ps) > total {
		pl = int(total - int64(index)*int64(ps))
	}
	srv := s.srv
	*s = state{c: s.c, kind: "g", t: t, index: uint32(index), ps: ps, pl: pl, seed: seed, total: total,
		files: files, srv: srv, storeOpen: true, logbuf: &syncBuf{}, style: style}
	t.Log.SetOutput(s.logbuf)
	t.Log.SetFlags(0)
	s.pads = pads
	s.prefill(pf, func(b int) []byte { return s.refB(index*ps+b*CS, blockLen(pl, b)) })
	return "ok"
}

func parseResp(it string) (respSpec, bool) {
	if it == "pad" {
		return respSpec{pad: true}, true
	}
	if it == "T" {
		return respSpec{transport: true}, true
	}
	f := strings.Split(it, ";")
	if len(f) != 5 {
		return respSpec{}, false
	}
	st, err := strconv.Atoi(f[0])
	if err != nil {
		return respSpec{}, false
	}
	b := strings.Split(f[3], ":")
	if len(b) != 3 || len(f[4]) != 1 {
		return respSpec{}, false
	}
	fo, e1 := strconv.Atoi(b[0])
	n, e2 := strconv.Atoi(b[1])
	jk, e3 := strconv.Atoi(b[2])
	if e1 != nil || e2 != nil || e3 != nil {
		return respSpec{}, false
	}
	return respSpec{status: st, cl: f[1], cr: string(vhlib.UnHex(f[2])), fileoff: fo, n: n, junk: jk, fin: f[4][0]}, true
}

var crRe = regexp.MustCompile(`^bytes (\d+)-(\d+)/(\d+|\*)$`)

func logClass(msg string) string {
	switch {
	case strings.Contains(msg, "server ignored range request"):
		return "ignoredRange"
	case strings.Contains(msg, "missing Content-Range"):
		return "missingCR"
	case strings.Contains(msg, "parse error"):
		return "parseCR"
	case strings.Contains(msg, "server didn't honour range request"):
		return "notHonoured"
	case strings.Contains(msg, "range mismatch"):
		return "mismatch"
	case strings.Contains(msg, "length mismatch"):
		return "mismatch"
	case regexp.MustCompile(`webseed: \d\d\d `).MatchString(msg):
		return "status"
	case strings.Contains(msg, "short write"), strings.Contains(msg, "pieces deleted"),
		strings.Contains(msg, "adding data"), strings.Contains(msg, "use of closed"):
		return "copy"
	case strings.Contains(msg, "Get \""):
		return "transport"
	}
	return "other:" + msg
}

func (s *state) logClasses() string {
	var out []string
	for _, l := range strings.Split(s.logbuf.take(), "\n") {
		if strings.TrimSpace(l) == "" {
			continue
		}
		out = append(out, logClass(l))
	}
	if len(out) == 0 {
		return "-"
	}
	return strings.Join(out, ",")
}

func fetchObs(es []ev) (int, string) {
	sum := 0
	var drops []string
	for _, e := range es {
		if e.data {
			sum += int(e.count)
		} else {
			drops = append(drops, fmt.Sprintf("%d+%d", e.begin, e.count))
		}
	}
	d := "none"
	if len(drops) > 0 {
		d = strings.Join(drops, ",")
	}
	return sum, d
}

// noteLegit records, from what the server was asked and what it sent, which bytes the client
// may store where: byte i of an acceptable response to a request for [first, last] of file idx
// belongs at torrent position fileBase+first+i, for i <= last-first.
func (s *state) noteLegit(idx int, first, last int64, sp respSpec) {
	// a response may be used only if it is for the range asked (200: whole file, asked from 0;
	// 206: Content-Range starting where asked) and, when it states the file's total length,
	// states the length the torrent gives that file
	acceptable := false
	flen := s.total
	if s.files != nil {
		flen = s.files[idx].length
	}
	switch sp.status {
	case 200:
		acceptable = first == 0 && (sp.cl == "-" || sp.cl == strconv.FormatInt(flen, 10))
	case 206:
		if m := crRe.FindStringSubmatch(sp.cr); m != nil {
			a, _ := strconv.ParseInt(m[1], 10, 64)
			acceptable = a == first && (m[3] == "*" || m[3] == strconv.FormatInt(flen, 10))
		}
	}
	if !acceptable {
		return
	}
	body := s.bodyBytes(idx, sp)
	base := s.fileBase(idx)
	for i := 0; i < len(body) && int64(i) <= last-first; i++ {
		s.legit[base+int(first)+i] = int(body[i])
	}
}

func (s *state) gFetch(offset, length int, respsSpec string) string {
	A := int64(s.index)*int64(s.ps) + int64(offset)
	part := partition(s.files, s.total, A, int64(length))
	var items []string
	if respsSpec != "-" {
		items = strings.Split(respsSpec, "/")
	}
	spec := map[int]respSpec{}
	s.allHonest = len(items) >= len(part)
	for i, it := range items {
		sp, ok := parseResp(it)
		if !ok {
			return "bad-op"
		}
		if i < len(part) {
			if !sp.pad {
				spec[part[i].idx] = sp
			}
			honest := sp.pad || (sp.status == 206 && sp.fin == 'e' && sp.junk == 0 && int64(sp.fileoff) == part[i].off &&
				int64(sp.n) >= part[i].leng && crRe.MatchString(sp.cr) && s.honestCR(sp.cr, part[i]))
			if !honest {
				s.allHonest = false
			}
		}
	}
	s.srv.mu.Lock()
	s.srv.st, s.srv.spec, s.srv.reqs = s, spec, nil
	s.srv.segR = vhlib.NewRand(vhlib.Fnv64([]byte(respsSpec)))
	s.srv.mu.Unlock()
	ws := webseed.New(s.srv.ts.URL+"/gr/", true).(*webseed.GetRight)
	s.off0, s.cnt0, s.events, s.fetched = offset, length, nil, true
	s.snap = s.t.Pieces.VerifPieceData(s.index)
	s.fetchLo, s.fetchHi = int(A), int(A)+length
	ctx, cancel := context.WithTimeout(context.Background(), 30*time.Second)
	defer cancel()
	pn := vhlib.Recover(func() { tor.VerifWebseedGR(ctx, ws, s.t, s.index, uint32(offset), uint32(length)) })
	es := s.drain()
	if pn != "" {
		s.panicked = true
		s.c.Violate("panic:webseedGR", pn, caseOps())
		return "panic"
	}
	s.srv.mu.Lock()
	reqs := s.srv.reqs
	s.srv.mu.Unlock()
	s.checkTargets(reqs)
	// what may legitimately be stored
	s.legit = map[int]int{}
	for _, p := range part {
		if p.pad {
			for i := int64(0); i < p.leng; i++ {
				s.legit[s.fileBase(p.idx)+int(p.off+i)] = 0
			}
		}
	}
	var rs []string
	k := 0
	for i, r := range reqs {
		if i > 0 && reqs[i-1].idx == r.idx && reqs[i-1].rng == r.rng && spec[r.idx].transport {
			continue // net/http retried the idempotent GET after the connection was closed
		}
		rs = append(rs, fmt.Sprintf("%d:%d-%d", r.idx, r.first, r.last))
		// oracle: requests are the non-padding chunks of the partition, in order
		for k < len(part) && part[k].pad {
			k++
		}
		if k >= len(part) || part[k].idx != r.idx || part[k].off != r.first || part[k].off+part[k].leng-1 != r.last {
			s.c.Violate("webseed-wrong-request", fmt.Sprintf("request %d:%s, partition %s", r.idx, r.rng, fcStr(part)), caseOps())
		} else {
			s.noteLegit(r.idx, r.first, r.last, spec[r.idx])
		}
		k++
	}
	sum, drop := fetchObs(es)
	rq := "-"
	if len(rs) > 0 {
		rq = strings.Join(rs, ",")
	}
	lg := s.logClasses()
	tag := "g:" + lg
	if lg == "-" {
		tag = fmt.Sprintf("g:ok:%dreq", len(reqs))
		if sum < length {
			tag = "g:partial"
		}
	}
	s.c.Count(tag, respsSpec, true)
	s.checkFetch("webseed")
	return fmt.Sprintf("req=%s log=%s data=%d drop=%s", rq, lg, sum, drop)
}

func (s *state) honestCR(cr string, p chunk) bool {
	m := crRe.FindStringSubmatch(cr)
	if m == nil {
		return false
	}
	a, _ := strconv.ParseInt(m[1], 10, 64)
	b, _ := strconv.ParseInt(m[2], 10, 64)
	if a != p.off || b < p.off+p.leng-1 {
		return false
	}
	if m[3] != "*" {
		t, _ := strconv.ParseInt(m[3], 10, 64)
		if t != p.flen || b >= t {
			return false
		}
	}
	return true
}

// checkFetch: the property on the piece store and the events after a web-seed fetch.
func (s *state) checkFetch(kindp string) {
	vp := s.t.Pieces.VerifPiece(s.index)
	data := s.t.Pieces.VerifPieceData(s.index)
	pbase := int(s.index) * s.ps
	if data != nil {
		for b := 0; b < nblocks(s.pl); b++ {
			if !vp.Bitmap.Get(b) {
				continue
			}
			lo, hi := b*CS, b*CS+blockLen(s.pl, b)
			if s.exempt[b] {
				if s.snap == nil || !bytes.Equal(data[lo:hi], s.snap[lo:hi]) {
					s.c.Violate(kindp+"-overwrote-block", fmt.Sprintf("block %d changed", b), caseOps())
				}
				continue
			}
			if pbase+lo < s.fetchLo || pbase+hi > s.fetchHi {
				s.c.Violate(kindp+"-beyond-range:block", fmt.Sprintf("block %d stored outside the fetched range", b), caseOps())
				continue
			}
			for x := lo; x < hi; x++ {
				v, ok := s.legit[pbase+x]
				if !ok {
					s.c.Violate(kindp+"-stored-unfetched", fmt.Sprintf("block %d: byte at piece offset %d was never sent for that position", b, x), caseOps())
					break
				}
				if v != int(data[x]) {
					s.c.Violate(kindp+"-misplaced", fmt.Sprintf("block %d: byte at piece offset %d is not the byte sent for that position", b, x), caseOps())
					break
				}
			}
		}
	}
	s.checkEvents(s.off0, s.cnt0, true, kindp)
	if s.allHonest && s.storeOpen {
		want := wholeBlocks(s.pl, s.off0, s.off0+s.cnt0)
		for b := range want {
			if !(vp.Bitmap.Get(b) && data != nil) {
				s.c.Violate(kindp+"-incomplete", fmt.Sprintf("block %d missing after an honest, complete fetch", b), caseOps())
				break
			}
		}
	}
	for b := range s.exempt { // blocks stored by this fetch are now part of the piece
		if vp.Bitmap.Get(b) {
			s.exempt[b] = true
		}
	}
}

// gMaybe drives the real maybeWebseed (hole selection, cap, reservation, fetch goroutine) against
// a server that answers every request honestly (mode "h") or with 404 (mode "e").
// The harness never feeds the writer's events to the torrent, so reservations accumulate in
// t.inFlight from one g.maybe to the next — as they would while earlier fetches are running.
func (s *state) gMaybe(mode string) string {
	cpp := s.ps / CS
	vp := s.t.Pieces.VerifPiece(s.index)
	nb := nblocks(s.pl)
	before := s.t.VerifInFlight()
	// the property's notion of what is fetched: from the first missing block nobody is working
	// on up to the next present block, at most 1 MiB for a web seed without rate history
	first := -1
	for b := 0; b < nb; b++ {
		if !vp.Bitmap.Get(b) && before[int(s.index)*cpp+b] == 0 {
			first = b
			break
		}
	}
	end := first
	for first >= 0 && end < nb && !vp.Bitmap.Get(end) {
		end++
	}
	s.srv.mu.Lock()
	s.srv.st, s.srv.spec, s.srv.reqs = s, map[int]respSpec{}, nil
	s.srv.honest, s.srv.all404 = mode != "e", mode == "e"
	s.srv.segR = vhlib.NewRand(uint64(s.seed) + 99)
	s.srv.mu.Unlock()
	defer func() { s.srv.mu.Lock(); s.srv.honest, s.srv.all404 = false, false; s.srv.mu.Unlock() }()
	ws := webseed.New(s.srv.ts.URL+"/gr/", true)
	s.t.VerifSetWebseeds([]webseed.Webseed{ws})
	s.events = nil
	s.snap = s.t.Pieces.VerifPieceData(s.index)
	ctx, cancel := context.WithTimeout(context.Background(), 30*time.Second)
	defer cancel()
	var ok bool
	pn := vhlib.Recover(func() { ok = tor.VerifMaybeWebseed(ctx, s.t, s.index, false) })
	if pn != "" {
		s.c.Violate("panic:maybeWebseed", pn, caseOps())
		return "panic"
	}
	after := s.t.VerifInFlight() // the reservation is made before the fetch goroutine starts
	var res []int
	for c := range after {
		for k := before[c]; k < after[c]; k++ {
			res = append(res, c-int(s.index)*cpp)
		}
		if after[c] < before[c] {
			s.c.Violate("maybewebseed-reservation:released-foreign", fmt.Sprintf("chunk %d: %d -> %d", c, before[c], after[c]), caseOps())
		}
	}
	expectOK := first >= 0 && vp.State == 0 && !s.t.Pieces.VerifDeleted()
	if ok != expectOK {
		s.c.Violate("maybewebseed-decision", fmt.Sprintf("returned %v with first idle hole at block %d, state %d", ok, first, vp.State), caseOps())
	}
	if !ok {
		if len(res) != 0 {
			s.c.Violate("maybewebseed-reserved-without-fetch", fmt.Sprint(res), caseOps())
		}
		s.c.Count("m:none", "no idle hole / piece not open", true)
		return "ok=0 res=- data=0 drop=none"
	}
	if first < 0 {
		return fmt.Sprintf("ok=1 res=%v", res)
	}
	o := first * CS
	hole := (end - first) * CS
	if end == nb {
		hole = s.pl - o
	}
	l := hole
	if l > 1<<20 {
		l = 1 << 20
	}
	// oracle: exactly the blocks of the range that will be fetched are reserved, once each
	var want []int
	for b := first; b*CS < o+l; b++ {
		want = append(want, b)
	}
	resOK := fmt.Sprint(res) == fmt.Sprint(want)
	// wait for the fetch goroutine: its events tile [o, o+l)
	deadline := time.Now().Add(20 * time.Second)
	sum := 0
	for sum < l && time.Now().Before(deadline) {
		for _, e := range s.drain() {
			sum += int(e.count)
		}
		if sum < l {
			time.Sleep(200 * time.Microsecond)
		}
	}
	if sum < l {
		s.c.Violate("hang:maybeWebseed", fmt.Sprintf("events cover %d of %d bytes after 20 s", sum, l), caseOps())
	}
	s.srv.mu.Lock()
	mreqs := s.srv.reqs
	s.srv.mu.Unlock()
	s.checkTargets(mreqs)
	// oracle: every block reserved for the fetch is released by the fetch's events when it ends
	var rel []int
	for _, e := range s.events {
		for i := 0; i < ceilDiv(int(e.count), CS); i++ {
			rel = append(rel, int(e.begin)/CS+i)
		}
	}
	if fmt.Sprint(rel) != fmt.Sprint(res) {
		s.c.Violate("maybewebseed-reservation-unbalanced", fmt.Sprintf("reserved blocks %s, released by TorData/TorDrop %s (hole %d+%d, fetched %d)",
			brief(res), brief(rel), o, hole, l), caseOps())
	} else if !resOK {
		s.c.Violate("maybewebseed-reservation", fmt.Sprintf("reserved %s, the range to fetch is blocks %s", brief(res), brief(want)), caseOps())
	}
	s.off0, s.cnt0 = o, l
	A := int(s.index)*s.ps + o
	s.fetchLo, s.fetchHi = A, A+l
	s.legit = map[int]int{}
	if mode != "e" {
		// what the honest server sent is the reference content; zeros for padding
		for i, v := range s.refB(A, l) {
			s.legit[A+i] = int(v)
		}
	} else {
		part := partition(s.files, s.total, int64(A), int64(l))
		for _, p := range part {
			if !p.pad {
				break
			}
			for i := int64(0); i < p.leng; i++ {
				s.legit[s.fileBase(p.idx)+int(p.off+i)] = 0
			}
		}
	}
	s.allHonest = mode != "e"
	s.checkFetch("maybewebseed")
	data, drop := fetchObs(s.events)
	s.c.Count(fmt.Sprintf("m:fetch:%s:%s", mode, sizeClass(len(res))), fmt.Sprintf("hole %d+%d fetch %d", o, hole, l), true)
	if hole > l {
		s.c.Count("m:capped", fmt.Sprintf("hole %d+%d fetch %d", o, hole, l), true)
	}
	first0 := 0
	if len(res) > 0 {
		first0 = res[0]
	}
	return fmt.Sprintf("ok=1 res=%d+%d log=%s data=%d drop=%s", first0, len(res), s.logClasses(), data, drop)
}

func sizeClass(n int) string {
	switch {
	case n <= 4:
		return fmt.Sprintf("%dblocks", n)
	case n < 64:
		return "5-63blocks"
	case n == 64:
		return "64blocks"
	}
	return ">64blocks"
}

func brief(v []int) string {
	if len(v) <= 8 {
		return fmt.Sprint(v)
	}
	return fmt.Sprintf("[%d %d %d ... %d] (%d)", v[0], v[1], v[2], v[len(v)-1], len(v))
}

func (s *state) hFetch(offset, length int, rs string) string {
	f := strings.Split(rs, ";")
	if len(f) != 5 || len(f[4]) != 1 {
		return "bad-op"
	}
	st, e0 := strconv.Atoi(f[0])
	n, e1 := strconv.Atoi(f[2])
	jk, e2 := strconv.Atoi(f[3])
	if e0 != nil || e1 != nil || e2 != nil {
		return "bad-op"
	}
	sp := respSpec{status: st, cl: f[1], fileoff: offset, n: n, junk: jk, fin: f[4][0]}
	s.srv.mu.Lock()
	s.srv.st, s.srv.spec, s.srv.reqs = s, map[int]respSpec{-1: sp}, nil
	s.srv.segR = vhlib.NewRand(vhlib.Fnv64([]byte(rs)))
	s.srv.mu.Unlock()
	ws := webseed.New(s.srv.ts.URL+"/hoff", false).(*webseed.Hoffman)
	s.off0, s.cnt0, s.events, s.fetched = offset, length, nil, true
	s.snap = s.t.Pieces.VerifPieceData(s.index)
	A := int(s.index)*s.ps + offset
	s.fetchLo, s.fetchHi = A, A+length
	ctx, cancel := context.WithTimeout(context.Background(), 30*time.Second)
	defer cancel()
	pn := vhlib.Recover(func() { tor.VerifWebseedH(ctx, ws, s.t, s.index, uint32(offset), uint32(length)) })
	es := s.drain()
	if pn != "" {
		s.panicked = true
		s.c.Violate("panic:webseedH", pn, caseOps())
		return "panic"
	}
	s.legit = map[int]int{}
	s.srv.mu.Lock()
	reqs := s.srv.reqs
	s.srv.mu.Unlock()
	if len(reqs) == 1 && sp.status == 200 {
		body := s.bodyBytes(-1, sp)
		for i := 0; i < len(body) && i < length; i++ {
			s.legit[A+i] = int(body[i])
		}
		want := fmt.Sprintf("piece=%d&ranges=%d-%d", s.index, offset, offset+length)
		if !strings.Contains(reqs[0].query, want) {
			s.c.Note("hoffman query differs from the pinned (off-by-one) form: " + reqs[0].query)
		} else if !hoffNoted {
			hoffNoted = true
			s.c.Note("noted, outside the property text: Hoffman.Get asks for ranges=o-(o+l), one byte more than the inclusive range o..o+l-1 (e.g. " + want + ")")
		}
	}
	s.allHonest = sp.status == 200 && sp.fin == 'e' && n >= length && (sp.cl == "-" || sp.cl == strconv.Itoa(length))
	sum, drop := fetchObs(es)
	lg := s.logClasses()
	tag := "h:" + lg
	if lg == "-" {
		tag = "h:ok"
		if sum < length {
			tag = "h:partial"
		}
	}
	s.c.Count(tag, rs, true)
	s.checkFetch("hoffman")
	return fmt.Sprintf("log=%s data=%d drop=%s", lg, sum, drop)
}

// ---------------------------------------------------------------- buildUrl

// urlOp: webseed.buildUrl(base, name, components).  Oracle (BEP 19): what is appended to the base
// splits at '/' into exactly the name and the components, each percent-decoding to itself.
func (s *state) urlOp(baseH, nameH, compsH string) string {
	base, name := string(vhlib.UnHex(baseH)), string(vhlib.UnHex(nameH))
	var comps []string
	switch compsH {
	case "nil":
	case ".":
		comps = []string{}
	default:
		for _, h := range strings.Split(compsH, ",") {
			comps = append(comps, string(vhlib.UnHex(h)))
		}
	}
	var got string
	pn := vhlib.Recover(func() { got = webseed.VerifBuildUrl(base, name, comps) })
	if pn != "" {
		s.c.Violate("panic:buildUrl", pn, caseOps())
		return "panic"
	}
	tag := "url:nil"
	if comps != nil {
		tag = fmt.Sprintf("url:%dcomps", len(comps))
	}
	if name != "" && len(comps) > 0 {
		pre := base
		if !strings.HasSuffix(pre, "/") {
			pre += "/"
		}
		ok := strings.HasPrefix(got, pre)
		if ok {
			segs := strings.Split(got[len(pre):], "/")
			want := append([]string{name}, comps...)
			ok = len(segs) == len(want)
			for i := 0; ok && i < len(segs); i++ {
				u, err := nurl.PathUnescape(segs[i])
				ok = err == nil && u == want[i] && !strings.ContainsAny(segs[i], "?# ")
			}
		}
		if !ok {
			s.c.Violate("webseed-url:wrong-target:components", fmt.Sprintf("buildUrl(%q, %q, %q) = %q", base, name, comps, got), caseOps())
		}
	}
	s.c.Count(tag, got, len(comps) > 1)
	return vhlib.Hex([]byte(got))
}

// ---------------------------------------------------------------- parseContentRange

func (s *state) pcr(h string) string {
	str := string(vhlib.UnHex(h))
	var o, l, fl int64
	var err error
	pn := vhlib.Recover(func() { o, l, fl, err = webseed.VerifParseContentRange(str) })
	if pn != "" {
		s.c.Violate("panic:parseContentRange", pn, caseOps())
		return "panic"
	}
	if err != nil {
		s.c.Count("pcr:err", str, true)
		return "err"
	}
	// oracle: what is accepted denotes a non-empty range inside the total, or an unsatisfied range
	switch {
	case o == -1 && l == -1 && fl >= 0:
		s.c.Count("pcr:unsatisfied", str, true)
	case o < 0:
		// never equal to a requested offset: refused by Get whatever the length
		s.c.Count("pcr:negative-start", str, true)
	case l >= 1 && (fl == -1 || (o+l <= fl)), fl == -1 && o == 0 && l == math.MinInt64:
		if fl == -1 {
			s.c.Count("pcr:star-total", str, true)
		} else {
			s.c.Count("pcr:full", str, true)
		}
	case o == -1 && l == -1:
		s.c.Count("pcr:unsatisfied-neg", str, true)
	default:
		s.c.Violate("pcr-accepted-inconsistent", fmt.Sprintf("%q -> %d %d %d", str, o, l, fl), caseOps())
	}
	if !strings.HasPrefix(str, "bytes") {
		s.c.Violate("pcr-accepted-foreign-unit", fmt.Sprintf("%q accepted", str), caseOps())
	}
	return fmt.Sprintf("ok %d %d %d", o, l, fl)
}

// ---------------------------------------------------------------- interpreter

func atoi(s string) (int, bool) {
	n, err := strconv.Atoi(s)
	return n, err == nil && n >= 0
}

// exec runs one op line against the real code and returns its observation.
func (s *state) exec(op string) string {
	f := strings.Fields(op)
	if len(f) == 0 {
		return "bad-op"
	}
	bad := "bad-op"
	switch f[0] {
	case "mw.begin":
		return "ok"
	case "w.sel":
		if len(f) != 2 || !inMulti {
			return bad
		}
		i, ok := atoi(f[1])
		if !ok || i >= len(slots) {
			return bad
		}
		saved := *s
		slots[curSlot] = &saved
		if slots[i] != nil {
			*s = *slots[i]
		} else {
			*s = state{c: s.c, srv: s.srv}
		}
		curSlot = i
		return "ok"
	case "w.new", "w.open":
		if len(f) != 6 || (f[0] == "w.open") != inMulti {
			return bad
		}
		pl, a := atoi(f[1])
		off, b := atoi(f[2])
		cnt, c := atoi(f[3])
		seed, d := atoi(f[4])
		if !(a && b && c && d) || pl == 0 {
			return bad
		}
		pf := f[5]
		if pf == "-" {
			pf = ""
		}
		return s.wNew(pl, off, cnt, seed, pf)
	case "w.write":
		if len(f) != 2 || s.w == nil {
			return bad
		}
		n, ok := atoi(f[1])
		if !ok {
			return bad
		}
		return s.wWrite(n)
	case "w.readfrom":
		if len(f) != 2 || s.w == nil {
			return bad
		}
		return s.wReadFrom(f[1])
	case "w.close":
		if s.w == nil {
			return bad
		}
		return s.wClose()
	case "s.fill":
		if s.t == nil {
			return bad
		}
		return s.sFill()
	case "s.delete":
		if s.t == nil {
			return bad
		}
		return s.sDelete()
	case "w.dump":
		if s.t == nil {
			return bad
		}
		return s.dump()
	case "fc":
		if len(f) != 7 {
			return bad
		}
		ps, a := atoi(f[1])
		total, b := atoi(f[2])
		files, c := parseFiles(f[3])
		index, d := atoi(f[4])
		offset, e := atoi(f[5])
		length, g := atoi(f[6])
		if !(a && b && c && d && e && g) {
			return bad
		}
		return s.fcOp(ps, int64(total), files, index, offset, length)
	case "g.new":
		if len(f) != 7 {
			return bad
		}
		ps, a := atoi(f[1])
		total, b := atoi(f[2])
		files, c := parseFiles(f[3])
		index, d := atoi(f[4])
		seed, e := atoi(f[5])
		if !(a && b && c && d && e) {
			return bad
		}
		pf := f[6]
		if pf == "-" {
			pf = ""
		}
		return s.gNew(ps, int64(total), files, index, seed, pf)
	case "g.fetch":
		if len(f) != 4 || s.kind != "g" {
			return bad
		}
		o, a := atoi(f[1])
		l, b := atoi(f[2])
		if !(a && b) {
			return bad
		}
		return s.gFetch(o, l, f[3])
	case "g.maybe":
		if s.kind != "g" || len(f) != 2 || (f[1] != "h" && f[1] != "e") {
			return bad
		}
		return s.gMaybe(f[1])
	case "h.fetch":
		if len(f) != 4 || s.kind != "g" {
			return bad
		}
		o, a := atoi(f[1])
		l, b := atoi(f[2])
		if !(a && b) {
			return bad
		}
		return s.hFetch(o, l, f[3])
	case "url":
		if len(f) != 4 {
			return bad
		}
		return s.urlOp(f[1], f[2], f[3])
	case "pcr":
		if len(f) != 2 {
			return bad
		}
		return s.pcr(f[1])
	}
	return bad
}

var resetOps = map[string]bool{"w.new": true, "g.new": true, "fc": true, "pcr": true, "mw.begin": true, "url": true}

func main() {
	config.DefaultUseWebseeds = true
	c := vhlib.Init("c14")
	// vhlib seeds splitmix64 linearly (seed k+1 replays seed k's draws shifted by one): decorrelate
	c.R = vhlib.NewRand(vhlib.Fnv64([]byte(fmt.Sprintf("c14-seed-%d", c.Seed))))
	c.Rep.Rule = "distinct op/observation shapes hitting a non-default branch"
	st := &state{c: c, srv: newServer()}
	defer st.srv.ts.Close()
	if c.Replay != "" {
		for _, op := range c.ReplayLines() {
			runOp(st, op)
		}
	} else {
		generate(st)
	}
	endCase(st)
	c.Close()
}

// A multi-writer case (mw.begin … ): up to three writers, each on its own torrent, selected with
// `w.sel <i>`; their calls are interleaved call by call.  Writers are independent state machines:
// nothing a writer does may depend on what another writer instance did in between.
var slots [3]*state
var curSlot int
var inMulti bool
var slotOps, slotObs [3][]string

// endCase evaluates the per-writer oracle on every writer of the case and, for a multi-writer
// case, runs each writer's calls again alone and compares what it observed.
func endCase(s *state) {
	if !inMulti {
		s.endWriterCase()
		return
	}
	saved := *s
	slots[curSlot] = &saved
	for i := range slots {
		if slots[i] == nil || slots[i].t == nil {
			continue
		}
		*s = *slots[i]
		s.endWriterCase()
		// the same calls on this writer alone
		solo := &state{c: s.c, srv: s.srv}
		wasMulti := inMulti
		for k, op := range slotOps[i] {
			got := solo.exec(op)
			if got != slotObs[i][k] {
				s.c.Violate("writer:interference", fmt.Sprintf("writer %d, call `%s`: `%s` when interleaved with other writers, `%s` when run alone",
					i, op, slotObs[i][k], got), caseOps())
				break
			}
		}
		inMulti = wasMulti
	}
	inMulti, curSlot = false, 0
	slots = [3]*state{}
	slotOps, slotObs = [3][]string{}, [3][]string{}
	*s = state{c: s.c, srv: s.srv}
}

// runOp: reset handling, execution, emission.
func runOp(s *state, op string) {
	f := strings.Fields(op)
	if len(f) > 0 && resetOps[f[0]] {
		endCase(s)
		s.kind, s.t, s.w = "", nil, nil
		s.c.NewCase()
		curOps = nil
		inMulti = f[0] == "mw.begin"
	}
	curOps = append(curOps, op)
	obs := s.exec(op)
	if inMulti && len(f) > 0 && f[0] != "mw.begin" && f[0] != "w.sel" {
		slotOps[curSlot] = append(slotOps[curSlot], op)
		slotObs[curSlot] = append(slotObs[curSlot], obs)
	}
	s.c.Emit(op, obs)
}

var curOps []string

func caseOps() []string { return append([]string(nil), curOps...) }
