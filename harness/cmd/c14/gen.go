package main

import (
	"fmt"
	"strings"

	"verifharness/vhlib"
)

// boundary sizes for Write/ReadFrom calls (block 16384, ReadFrom window 32768)
var sizes = []int{0, 1, 5, 100, 8192, 16383, 16384, 16385, 20000, 32767, 32768, 32769, 40000, 49152, 65535, 65536, 65537}

func pickSize(r *vhlib.Rand, rem int) int {
	switch r.Intn(10) {
	case 0:
		return rem
	case 1:
		if rem > 0 {
			return rem - 1
		}
		return 1
	case 2:
		return rem + 1
	case 3:
		return r.Intn(70000)
	}
	return sizes[r.Intn(len(sizes))]
}

func genItems(r *vhlib.Rand, n int) string {
	if n == 0 && r.Bool() {
		return "-"
	}
	k := 1 + r.Intn(4)
	var parts []string
	left := n
	for i := 0; i < k; i++ {
		m := left
		if i < k-1 {
			switch r.Intn(4) {
			case 0:
				m = sizes[r.Intn(len(sizes))]
			case 1:
				m = r.Intn(left + 1)
			case 2:
				m = left / (k - i)
			default:
				m = 1 + r.Intn(40000)
			}
			if m > left {
				m = left
			}
		}
		e := "n"
		if i == k-1 && r.Bool() {
			e = "e"
		}
		switch r.Intn(40) {
		case 0:
			e = "f"
		case 1:
			e = "e"
		case 2:
			m = 0
		}
		parts = append(parts, fmt.Sprintf("%d:%s", m, e))
		left -= m
	}
	return strings.Join(parts, ",")
}

func genPiece(r *vhlib.Rand) int {
	nb := 1 + r.Intn(5)
	if r.Chance(45) {
		return (nb-1)*CS + r.PickInt(1, 1000, 8192, 16383)
	}
	return nb * CS
}

func genPrefill(r *vhlib.Rand, pl int, p int) string {
	if !r.Chance(p) {
		return "-"
	}
	b := make([]byte, nblocks(pl))
	for i := range b {
		b[i] = '0'
		if r.Chance(35) {
			b[i] = '1'
		}
	}
	return string(b)
}

// genMultiWriterCase: two or three web-seed fetches alive at once.  Each writer is fed file by file
// as webseedGR feeds it (one ReadFrom — sometimes Writes — per file, the files' boundaries not
// block-aligned), and the writers' calls are interleaved in a generated order.
func genMultiWriterCase(s *state) {
	r := s.c.R
	runOp(s, "mw.begin")
	nw := 2 + r.Intn(2)
	type feed struct{ chunks []int }
	feeds := make([]feed, nw)
	for i := 0; i < nw; i++ {
		pl := genPiece(r)
		off := CS * r.Intn(nblocks(pl))
		if r.Chance(50) {
			off = 0
		}
		cnt := pl - off
		if r.Chance(30) {
			cnt = CS * (1 + r.Intn((pl-off+CS-1)/CS))
			if cnt > pl-off {
				cnt = pl - off
			}
		}
		runOp(s, fmt.Sprintf("w.sel %d", i))
		runOp(s, fmt.Sprintf("w.open %d %d %d %d %s", pl, off, cnt, r.Intn(250), genPrefill(r, pl, 20)))
		// the files the range crosses
		left := cnt
		for left > 0 {
			l := r.PickInt(1, 7, 100, 5000, 8191, 16383, 16385, 20000, 40000)
			if r.Chance(20) {
				l = 1 + r.Intn(30000)
			}
			if l > left {
				l = left
			}
			feeds[i].chunks = append(feeds[i].chunks, l)
			left -= l
		}
	}
	cur := nw - 1
	for {
		var alive []int
		for i := range feeds {
			if len(feeds[i].chunks) > 0 {
				alive = append(alive, i)
			}
		}
		if len(alive) == 0 {
			break
		}
		i := alive[r.Intn(len(alive))]
		if i != cur {
			runOp(s, fmt.Sprintf("w.sel %d", i))
			cur = i
		}
		l := feeds[i].chunks[0]
		feeds[i].chunks = feeds[i].chunks[1:]
		if r.Chance(15) {
			runOp(s, fmt.Sprintf("w.write %d", l))
		} else {
			// one file = one body: read in segments, EOF at the end
			items := genItems(r, l)
			if !strings.HasSuffix(items, ":e") && !strings.Contains(items, ":f") && r.Chance(70) {
				items = items[:len(items)-1] + "e"
			}
			runOp(s, "w.readfrom "+items)
		}
	}
	for i := 0; i < nw; i++ {
		runOp(s, fmt.Sprintf("w.sel %d", i))
		runOp(s, "w.close")
		runOp(s, "w.dump")
	}
}

func genWriterCase(s *state) {
	r := s.c.R
	pl := genPiece(r)
	off := CS * r.Intn(nblocks(pl))
	if r.Chance(40) {
		off = 0
	}
	rem := pl - off
	var cnt int
	switch x := r.Intn(100); {
	case x < 40:
		cnt = rem
	case x < 62:
		cnt = CS * r.Intn(rem/CS+1)
	case x < 88:
		cnt = 1 + r.Intn(rem)
	case x < 94:
		cnt = rem + r.PickInt(1, 5000, CS)
	default:
		cnt = r.PickInt(0, 1)
	}
	runOp(s, fmt.Sprintf("w.new %d %d %d %d %s", pl, off, cnt, r.Intn(250), genPrefill(r, pl, 30)))
	call := func(n int) {
		if r.Bool() {
			runOp(s, fmt.Sprintf("w.write %d", n))
		} else {
			runOp(s, "w.readfrom "+genItems(r, n))
		}
	}
	if r.Chance(15) {
		// a body arriving in many irregular fragments through Write (a caller without ReadFrom
		// support, io.CopyBuffer with one buffer): sizes straddling the block boundaries
		frag := []int{1, 7, 100, 16383, 16384, 16385, 40000, 8192, 5, 32767, 32769}
		left := cnt
		for i, n := 0, 5+r.Intn(8); i < n; i++ {
			f := frag[r.Intn(len(frag))]
			if r.Chance(25) {
				f = 1 + r.Intn(20000)
			}
			if r.Chance(15) {
				runOp(s, "w.readfrom "+genItems(r, f))
			} else {
				runOp(s, fmt.Sprintf("w.write %d", f))
			}
			left -= f
			if left < -40000 {
				break
			}
		}
	} else if r.Chance(6) {
		// a piece that stops accepting data, a large Write, then ReadFrom
		if r.Chance(30) {
			runOp(s, "s.delete")
		} else {
			runOp(s, "s.fill")
		}
		runOp(s, fmt.Sprintf("w.write %d", r.PickInt(32768, 32769, 40000, 65536)))
		runOp(s, "w.readfrom "+genItems(r, pickSize(r, cnt)))
	} else {
		k := 1 + r.Intn(4)
		left := cnt
		for i := 0; i < k; i++ {
			if r.Chance(5) {
				runOp(s, "s.fill")
			} else if r.Chance(2) {
				runOp(s, "s.delete")
			}
			n := pickSize(r, left)
			if i == k-1 && r.Chance(50) {
				n = left + r.PickInt(0, 0, 0, 1, 100)
			}
			call(n)
			if n < left {
				left -= n
			} else {
				left = 0
			}
		}
	}
	if r.Chance(95) {
		runOp(s, "w.close")
		if r.Chance(12) {
			switch r.Intn(3) {
			case 0:
				runOp(s, "w.write 10")
			case 1:
				runOp(s, "w.readfrom 10:e")
			default:
				runOp(s, "w.close")
			}
		}
	}
	runOp(s, "w.dump")
}

// genAttr: attribute strings; only those containing 'p' make a padding file
func genAttr(r *vhlib.Rand, pad bool) string {
	if pad {
		return pickStr(r, "p", "p", "p", "xp", "ph", "hpx")
	}
	return pickStr(r, "", "", "", "", "x", "h", "xh", "l")
}

var fileLens = []int64{0, 1, 100, 5000, 16383, 16384, 16385, 40000, 70000}

func genLayout(r *vhlib.Rand) (int, int64, []fileSpec) {
	ps := r.PickInt(16384, 32768, 65536)
	for {
		if r.Chance(12) {
			return ps, int64(1 + r.Intn(200000)), nil
		}
		n := 1 + r.Intn(8)
		var fs []fileSpec
		var total int64
		for i := 0; i < n; i++ {
			l := fileLens[r.Intn(len(fileLens))]
			if r.Chance(20) {
				l = int64(r.Intn(30000))
			}
			pad := r.Chance(20)
			if pad && r.Chance(70) && total%int64(ps) != 0 {
				l = int64(ps) - total%int64(ps) // a real padding file: up to the piece boundary
			}
			fs = append(fs, mkFile(l, genAttr(r, pad)))
			total += l
		}
		if total > 0 {
			return ps, total, fs
		}
	}
}

func pieceLen(ps int, total int64, index int) int {
	if int64(index+1)*int64(ps) <= total {
		return ps
	}
	return int(total - int64(index)*int64(ps))
}

const two32 = int64(1) << 32

// genBigLayout: a sparse torrent of 4.5–6 GiB; multi-file layouts put small files, an empty file
// and a padding file around the 2^32 boundary
func genBigLayout(r *vhlib.Rand) (int, int64, []fileSpec) {
	ps := r.PickInt(1<<20, 1<<20, 49152*8, 49152*21, 1<<21, 49152)
	total := two32 + int64(1+r.Intn(3))*(int64(1)<<29) + int64(r.Intn(1<<20))
	if r.Chance(35) {
		return ps, total, nil
	}
	var fs []fileSpec
	first := two32 - int64(r.PickInt(0, 1, 100, 16384, 70000, 3<<20))
	if r.Chance(30) {
		first = two32 + int64(r.PickInt(1, 16385, 1<<20))
	}
	if r.Chance(30) { // two large files before the boundary
		h := first / 2
		fs = append(fs, mkFile(h, ""))
		first -= h
	}
	fs = append(fs, mkFile(first, ""))
	acc := int64(0)
	for _, f := range fs {
		acc += f.length
	}
	for i, n := 0, r.Intn(5); i < n; i++ {
		l := fileLens[r.Intn(len(fileLens))]
		pad := r.Chance(25)
		if pad && acc%int64(ps) != 0 {
			l = int64(ps) - acc%int64(ps)
		}
		fs = append(fs, mkFile(l, genAttr(r, pad)))
		acc += l
	}
	if acc < total {
		fs = append(fs, mkFile(total-acc, ""))
	} else {
		total = acc
	}
	return ps, total, fs
}

// bigRange: a piece and an offset whose absolute position is near (on either side of) or beyond 2^32
func bigRange(r *vhlib.Rand, ps int, total int64) (int, int) {
	var a int64
	switch r.Intn(4) {
	case 0:
		a = two32 - int64(r.Intn(4*ps))
	case 1:
		a = two32 + int64(r.Intn(4*ps))
	default:
		a = two32 + int64(r.U64()%uint64(total-two32))
	}
	if a >= total {
		a = total - 1
	}
	if a < 0 {
		a = 0
	}
	return int(a / int64(ps)), int(a % int64(ps))
}

// genBigFcCases: several queries on one large layout (the torrent is parsed once)
func genBigFcCases(s *state) {
	r := s.c.R
	ps, total, fs := genBigLayout(r)
	for k := 0; k < 6; k++ {
		index, off := bigRange(r, ps, total)
		pl := pieceLen(ps, total, index)
		if off >= pl {
			off = pl - 1
		}
		if r.Chance(70) {
			off = off / CS * CS
		}
		l := 1 + r.Intn(pl-off)
		if r.Chance(40) {
			l = pl - off
		}
		runOp(s, fmt.Sprintf("fc %d %d %s %d %d %d", ps, total, filesStr(fs), index, off, l))
	}
}

func genFcCase(s *state) {
	r := s.c.R
	ps, total, fs := genLayout(r)
	np := int((total + int64(ps) - 1) / int64(ps))
	index := r.Intn(np)
	pl := pieceLen(ps, total, index)
	off := r.Intn(pl)
	if r.Chance(70) {
		off = off / CS * CS
	}
	l := 1 + r.Intn(pl-off)
	if r.Chance(40) {
		l = pl - off
	}
	runOp(s, fmt.Sprintf("fc %d %d %s %d %d %d", ps, total, filesStr(fs), index, off, l))
}

func crStr(a, b int64, total string) string { return fmt.Sprintf("bytes %d-%d/%s", a, b, total) }

var badCRs = []string{"bytes", "items 0-5/10", "bytes 5-2/10", "bytes 0-9/5", "bytes=0-9/10", "0-9/10", "bytes 0-/10",
	"bytes -/10", "bytes 0-9", "bytes 0-9/", "bytes a-b/c", "bytes 0-9/10x", "bytes 0-99999999999999999999/100"}

// genFormResp: every Content-Range form the parser accepts (and some it refuses) x status, against a
// body that is the requested range, the file from byte 0, or the file from another offset.  Only
// `a-b/N` and `a-b/*` with a = the requested start say that the body is the requested range.
func genFormResp(r *vhlib.Rand, p chunk) string {
	off, l, fl := p.off, p.leng, p.flen
	flS := fmt.Sprint(fl)
	forms := []string{
		"bytes */" + flS, "bytes */" + flS, "bytes */" + flS, "bytes */" + fmt.Sprint(fl+1), "bytes */0",
		crStr(off, off+l-1, "*"), crStr(0, l-1, "*"), crStr(0, l-1, flS), crStr(off, off+l-1, flS),
		crStr(off+l-1, off, flS), crStr(off, fl+5, flS), crStr(off, off+l-1, fmt.Sprint(off+l-2)),
		"bytes " + fmt.Sprint(off) + "-9223372036854775807/*", "bytes -1-5/" + flS,
		"bytes 0-9223372036854775806/9223372036854775807", "",
	}
	cr := forms[r.Intn(len(forms))]
	fo := off
	switch r.Intn(3) {
	case 0:
		fo = 0
	case 1:
		fo = off / 2
	}
	n := l
	if fo+n > fl {
		n = fl - fo
	}
	status := r.PickInt(206, 206, 206, 200, 416)
	cl := "-"
	if r.Bool() {
		cl = fmt.Sprint(n)
	}
	return fmt.Sprintf("%d;%s;%s;%d:%d:0;e", status, cl, vhlib.Hex([]byte(cr)), fo, n)
}

// genResp scripts the server's answer to the request for chunk p.
func genResp(r *vhlib.Rand, p chunk) string {
	if p.pad {
		return "pad"
	}
	off, l, fl := p.off, p.leng, p.flen
	hx := func(s string) string { return vhlib.Hex([]byte(s)) }
	flS := fmt.Sprint(fl)
	mk := func(status int, cl, cr string, fo, n, junk int64, fin string) string {
		return fmt.Sprintf("%d;%s;%s;%d:%d:%d;%s", status, cl, hx(cr), fo, n, junk, fin)
	}
	clOf := func(n int64) string {
		if r.Bool() {
			return "-"
		}
		return fmt.Sprint(n)
	}
	if r.Chance(55) {
		tot := flS
		if r.Chance(15) {
			tot = "*"
		}
		return mk(206, clOf(l), crStr(off, off+l-1, tot), off, l, 0, "e")
	}
	switch r.Intn(18) {
	case 15, 16, 17:
		return genFormResp(r, p)
	case 0: // over-long body, range claimed as requested
		j := int64(r.PickInt(1, 100, 20000))
		return mk(206, clOf(l+j), crStr(off, off+l-1, flS), off, l, j, "e")
	case 1: // shorter range, honestly short body
		k := 1 + int64(r.Intn(int(l)))
		return mk(206, clOf(k), crStr(off, off+k-1, flS), off, k, 0, "e")
	case 2: // claims a short range, sends more
		k := 1 + int64(r.Intn(int(l)))
		j := int64(r.PickInt(1, 5000, 40000))
		return mk(206, clOf(k+j), crStr(off, off+k-1, flS), off, k, j, "e")
	case 3: // serves up to the end of the file
		if fl-off > l {
			return mk(206, clOf(fl-off), crStr(off, fl-1, flS), off, fl-off, 0, "e")
		}
		return mk(206, clOf(l), crStr(off, off+l-1, flS), off, l, 0, "e")
	case 4: // connection fails after k bytes
		k := int64(r.Intn(int(l)))
		cl := "-"
		if r.Bool() {
			cl = fmt.Sprint(l)
		}
		return mk(206, cl, crStr(off, off+l-1, flS), off, k, 0, "f")
	case 5: // shifted range
		d := int64(r.PickInt(1, 16384))
		a := off + d
		if r.Bool() && off >= d {
			a = off - d
		}
		if r.Chance(20) {
			a = 0
		}
		if a == off || a+l > fl {
			a = off + 1
			if a+l > fl {
				return mk(206, clOf(l), crStr(off+1, off+l, fmt.Sprint(fl+1)), off+1, l, 0, "e")
			}
		}
		return mk(206, clOf(l), crStr(a, a+l-1, flS), a, l, 0, "e")
	case 6:
		return mk(206, clOf(l), badCRs[r.Intn(len(badCRs))], off, l, 0, "e")
	case 7:
		return mk(206, clOf(l), "", off, l, 0, "e")
	case 8: // wrong total
		d := int64(r.PickInt(1, 1000))
		if r.Chance(30) && off+l == fl && fl > 1 { // total one short: end == total
			return mk(206, clOf(l), crStr(off, off+l-1, fmt.Sprint(fl-1)), off, l, 0, "e")
		}
		return mk(206, clOf(l), crStr(off, off+l-1, fmt.Sprint(fl+d)), off, l, 0, "e")
	case 9: // 200 with the whole file
		return mk(200, clOf(fl), "", 0, fl, 0, "e")
	case 10: // 200 with another length
		if fl > 1 && r.Bool() {
			return mk(200, fmt.Sprint(fl-1), "", 0, fl-1, 0, "e")
		}
		return mk(200, fmt.Sprint(fl+7), "", 0, fl, 7, "e")
	case 11:
		if r.Bool() {
			return mk(416, clOf(0), "bytes */"+fmt.Sprint(fl-1), 0, 0, 0, "e")
		}
		return mk(416, clOf(9), pickStr(r, "", "bytes", "bytes */x"), 0, 0, 9, "e")
	case 12:
		return mk(r.PickInt(404, 500, 403, 301), clOf(5), "", 0, 0, 5, "e")
	case 13:
		return "T"
	default: // 200 chunked, whole file plus junk
		return mk(200, "-", "", 0, fl, int64(r.PickInt(0, 1, 3000)), "e")
	}
}

// genLargePieceLayout: pieces of 2 or 4 MiB (holes above the 1 MiB cap of a fetch)
func genLargePieceLayout(r *vhlib.Rand) (int, int64, []fileSpec) {
	ps := r.PickInt(1<<21, 1<<21, 1<<22)
	total := int64(ps)*int64(1+r.Intn(2)) + int64(r.PickInt(0, 1, 16385, 1<<20, 1<<20+5000, ps-1))
	if r.Chance(50) {
		return ps, total, nil
	}
	var fs []fileSpec
	acc := int64(0)
	for acc < total {
		l := int64(r.PickInt(100, 16385, 1<<20, 1<<21, 3<<20, 70000))
		pad := r.Chance(15)
		if pad && acc%int64(ps) != 0 {
			l = int64(ps) - acc%int64(ps)
		}
		if acc+l > total {
			l = total - acc
		}
		fs = append(fs, mkFile(l, genAttr(r, pad)))
		acc += l
	}
	return ps, total, fs
}

func genLargePrefill(r *vhlib.Rand, pl int) string {
	b := make([]byte, nblocks(pl))
	for i := range b {
		b[i] = '0'
	}
	switch r.Intn(4) {
	case 0: // nothing yet
	case 1: // a few blocks at the start
		for i := 0; i < r.Intn(4) && i < len(b); i++ {
			b[i] = '1'
		}
	case 2: // one block somewhere: two holes
		b[r.Intn(len(b))] = '1'
	default: // a block exactly 64 or 65 blocks after the start of the hole
		if k := r.PickInt(64, 65, 63); k < len(b) {
			b[k] = '1'
		}
	}
	return string(b)
}

// genMaybeLargeCase: maybeWebseed on pieces larger than the 1 MiB cap; successive calls work
// through the piece while the earlier reservations are still outstanding
func genMaybeLargeCase(s *state) {
	r := s.c.R
	ps, total, fs := genLargePieceLayout(r)
	np := int((total + int64(ps) - 1) / int64(ps))
	index := r.Intn(np)
	pl := pieceLen(ps, total, index)
	runOp(s, fmt.Sprintf("g.new %d %d %s %d %d %s", ps, total, filesStr(fs), index, r.Intn(250)+1000*r.Intn(nStyles), genLargePrefill(r, pl)))
	for k, n := 0, 1+r.Intn(3); k < n; k++ {
		mode := "e"
		if r.Chance(12) {
			mode = "h"
		}
		runOp(s, "g.maybe "+mode)
	}
	runOp(s, "w.dump")
}

// genBigWebseedCase: a fetch in a piece beyond 2^32 of a sparse multi-GiB torrent
func genBigWebseedCase(s *state) {
	r := s.c.R
	ps, total, fs := genBigLayout(r)
	index, off := bigRange(r, ps, total)
	pl := pieceLen(ps, total, index)
	off = off / CS * CS
	if off >= pl {
		off = 0
	}
	l := CS * (1 + r.Intn(3))
	if l > pl-off {
		l = pl - off
	}
	runOp(s, fmt.Sprintf("g.new %d %d %s %d %d -", ps, total, filesStr(fs), index, r.Intn(250)))
	A := int64(index)*int64(ps) + int64(off)
	part := partition(fs, total, A, int64(l))
	var items []string
	for _, p := range part {
		if p.pad {
			items = append(items, "pad")
			continue
		}
		tot := fmt.Sprint(p.flen)
		items = append(items, fmt.Sprintf("206;-;%s;%d:%d:0;e", vhlib.Hex([]byte(crStr(p.off, p.off+p.leng-1, tot))), p.off, p.leng))
	}
	runOp(s, fmt.Sprintf("g.fetch %d %d %s", off, l, strings.Join(items, "/")))
	runOp(s, "w.dump")
}

func genWebseedCase(s *state) {
	r := s.c.R
	ps, total, fs := genLayout(r)
	np := int((total + int64(ps) - 1) / int64(ps))
	index := r.Intn(np)
	pl := pieceLen(ps, total, index)
	seed := r.Intn(250)
	if r.Chance(45) {
		seed += 1000 * r.Intn(nStyles) // names with reserved characters, blanks, non-ASCII, nested directories
	}
	runOp(s, fmt.Sprintf("g.new %d %d %s %d %d %s", ps, total, filesStr(fs), index, seed, genPrefill(r, pl, 25)))
	nf := 1 + r.Intn(2)
	for k := 0; k < nf; k++ {
		if r.Chance(4) {
			runOp(s, "s.fill")
		}
		off := CS * r.Intn(nblocks(pl))
		if r.Chance(50) {
			off = 0
		}
		l := pl - off
		if r.Chance(40) {
			l = CS * (1 + r.Intn((pl-off+CS-1)/CS))
			if l > pl-off {
				l = pl - off
			}
		}
		if r.Chance(15) {
			runOp(s, "g.maybe "+pickStr(r, "h", "h", "e"))
			runOp(s, "w.dump")
			continue
		}
		if r.Chance(20) {
			// Hoffman
			var rs string
			switch r.Intn(7) {
			case 0, 1:
				rs = fmt.Sprintf("200;%d;%d;0;e", l, l)
			case 2:
				rs = fmt.Sprintf("200;-;%d;0;e", l)
			case 3:
				rs = fmt.Sprintf("200;-;%d;%d;e", l, r.PickInt(1, 20000))
			case 4:
				n := l + r.PickInt(-1, 1, 100)
				if n < 0 {
					n = 0
				}
				rs = fmt.Sprintf("200;%d;%d;0;e", n, n)
			case 5:
				rs = fmt.Sprintf("200;%s;%d;0;f", pickStr(r, "-", fmt.Sprint(l)), r.Intn(l))
			default:
				rs = fmt.Sprintf("%d;-;0;5;e", r.PickInt(404, 500, 206))
			}
			runOp(s, fmt.Sprintf("h.fetch %d %d %s", off, l, rs))
		} else {
			A := int64(index)*int64(ps) + int64(off)
			part := partition(fs, total, A, int64(l))
			var items []string
			for _, p := range part {
				items = append(items, genResp(r, p))
			}
			runOp(s, fmt.Sprintf("g.fetch %d %d %s", off, l, strings.Join(items, "/")))
		}
		runOp(s, "w.dump")
	}
}

func genPcrCase(s *state) {
	r := s.c.R
	a := int64(r.Intn(1000))
	b := a + int64(r.Intn(1000))
	t := b + 1 + int64(r.Intn(1000))
	var str string
	switch r.Intn(10) {
	case 8:
		str = fmt.Sprintf("bytes %d-%d/%d", a, b, b) // end == total
	case 9:
		str = fmt.Sprintf("bytes %d-%d/%d", a, a, a+1) // one byte, the last
	case 0, 1, 2:
		str = fmt.Sprintf("bytes %d-%d/%d", a, b, t)
	case 3:
		str = fmt.Sprintf("bytes %d-%d/*", a, b)
	case 4:
		str = fmt.Sprintf("bytes */%d", t)
	case 5:
		str = fmt.Sprintf("bytes %d-%d/%d", b, a, t) // possibly reversed
	case 6:
		str = fmt.Sprintf("bytes %d-%d/%d", a, t, b) // end beyond total
	default:
		str = badCRs[r.Intn(len(badCRs))]
	}
	// mutations
	muts := r.Intn(3)
	if r.Chance(40) {
		muts = 0
	}
	ins := []string{" ", "  ", "\t", "\n", "\r\n", " ", " ", "　", "+", "-", "0", "9", "x", "*", "/", "99999999999999999999", "\x0b"}
	for i := 0; i < muts; i++ {
		rs := []rune(str)
		pos := r.Intn(len(rs) + 1)
		switch r.Intn(4) {
		case 0, 1:
			str = string(rs[:pos]) + ins[r.Intn(len(ins))] + string(rs[pos:])
		case 2:
			if pos < len(rs) {
				str = string(rs[:pos]) + string(rs[pos+1:])
			}
		default:
			if pos < len(rs) {
				str = string(rs[:pos]) + ins[r.Intn(len(ins))] + string(rs[pos+1:])
			}
		}
	}
	if r.Chance(5) {
		str = "bytes " + fmt.Sprint(pickStr(r, "9223372036854775807", "9223372036854775808", "-9223372036854775808", "-9223372036854775809")) + "-9223372036854775807/*"
	}
	runOp(s, "pcr "+vhlib.Hex([]byte(str)))
}

func genUrlCase(s *state) {
	r := s.c.R
	words := []string{"t", "a b", "a#b", "q?x", "100%", "%41", "%zz", "a+b&c=d", "\u00e9t\u00e9", "\u65e5\u672c", "sub", "dir", "inner.bin",
		"a/b", "..", ".", "", "x;y,z", "a:b@c$d", "~-_.", "\xff\xfe", "tab\there", "[v6]", "a\\b", "\"q\""}
	w := func() string { return words[r.Intn(len(words))] }
	base := pickStr(r, "http://h/gr/", "http://h/gr", "http://h:8080/a%20b/", "https://h/", "http://h")
	name := w()
	comps := "nil"
	if r.Chance(80) {
		n := r.PickInt(0, 1, 1, 2, 3, 4)
		if n == 0 {
			comps = "."
		} else {
			var cs []string
			for i := 0; i < n; i++ {
				cs = append(cs, vhlib.Hex([]byte(w())))
			}
			comps = strings.Join(cs, ",")
		}
	}
	runOp(s, fmt.Sprintf("url %s %s %s", vhlib.Hex([]byte(base)), vhlib.Hex([]byte(name)), comps))
}

func generate(s *state) {
	n := s.c.N
	for i := 0; i < n; i++ {
		genWriterCase(s)
	}
	for i := 0; i < n/6+2; i++ {
		genMultiWriterCase(s)
	}
	for i := 0; i < n; i++ {
		genFcCase(s)
	}
	for i := 0; i < n/40+2; i++ {
		genBigFcCases(s)
	}
	for i := 0; i < n/4+1; i++ {
		genWebseedCase(s)
	}
	for i := 0; i < n/80+2; i++ {
		genBigWebseedCase(s)
	}
	for i := 0; i < n/40+3; i++ {
		genMaybeLargeCase(s)
	}
	for i := 0; i < n; i++ {
		genPcrCase(s)
	}
	for i := 0; i < n/4; i++ {
		genUrlCase(s)
	}
}

func pickStr(r *vhlib.Rand, vs ...string) string { return vs[r.Intn(len(vs))] }
