// vh c15: correspondence stream + property oracle for the tracker package (C15).
//
// Op grammar (one observation line per op line; the Lean driver Drive/C15.lean reads the same):
//   new <http|udp> <urlbad> <host>        fresh tracker (host ∈ dual|v4|v6|none: which families resolve)
//   set <t|z> <interval>                  base.time (virtual ns; z = zero time) and base.interval
//   ready <now> | state <now>             ready() / GetState() at virtual time <now>
//   upd <interval> <err>                  updateInterval
//   trylock | unlock
//   rr <min> <action> <tid> <att,…|->     udpRequestReply over a scripted conn (c d w k r b<hex>)
//   fudp <4|6> <D|U:0:<atts>:0:<atts>>    announceUDP of one family against the local UDP tracker
//   fhttp <4|6> <fam> <raw>               announceHTTP of one family against the local HTTP tracker
//   audp <now> <f4> <f6>                  (*UDP).Announce
//   caudp <now> <f4> <f6> <late>          the same with blocking peer callbacks and the two exchanges
//                                         interleaved: family <late> receives its replies while the
//                                         other one is still parsing its announce reply
//   ahttp <now> <proxy> <f4> <f6> <last> <raw4> <raw6>   (*HTTP).Announce
//   tick <perm> <tiers>                   tor.trackerAnnounce, the tier walk (see tier.go)
// <fam> = T:<errclass> | R:<failure hex>:<retry>:<interval>:<dec1>:<dec2>:<peers6 hex>  (decoded
// fields of the served body, obtained with zeebo/bencode — the decoder is a parameter of the
// model); <raw> = hang | <status>.<body hex> is what the server really sends (ignored by the model).
// UDP datagrams are canonical: the transaction id field is XORed with the request's id.
package main

import (
	"bytes"
	"context"
	"encoding/binary"
	"encoding/hex"
	"errors"
	"fmt"
	"io"
	"net"
	"net/netip"
	nurl "net/url"
	"sort"
	"strconv"
	"strings"
	"sync"
	"time"

	"github.com/jech/storrent/tracker"
	"github.com/zeebo/bencode"

	"verifharness/vhlib"
)

func hexs(b []byte) string {
	if len(b) == 0 {
		return "-"
	}
	return hex.EncodeToString(b)
}
func unhex(s string) []byte {
	if s == "-" || s == "" {
		return nil
	}
	b, err := hex.DecodeString(s)
	if err != nil {
		return nil
	}
	return b
}

const watchdog = 20 * time.Second

var hangs int // after a hang the state of the run is unreliable: generation stops

type H struct {
	c       *vhlib.Ctx
	ne      *netEnv
	tr      tracker.Tracker
	kind    string
	host    string
	urlBad  bool
	vtime   int64
	zero    bool
	haveCon bool
	lastV   int64
	lastGap int64
	conc    func(col *collector) // concurrent mode: orchestrates the blocked callbacks of the next Announce
	texts   map[string]string // error texts served to this tracker -> class
	eekBad  bool // the unrepaired panic("eek") is present: keep it out of real goroutines
}

var (
	infoHash = bytes.Repeat([]byte{0xAB}, 20)
	myID     = []byte("-VH0001-abcdefghijkl")
)

// ---------------------------------------------------------------- error classes
func classOf(err error, texts map[string]string, mode string) string {
	if err == nil {
		return "nil"
	}
	switch {
	case errors.Is(err, tracker.ErrNotReady):
		return "notready"
	case errors.Is(err, tracker.ErrParse):
		return "parse"
	case err == errWr:
		return "wr"
	case err == errRd:
		return "rd"
	case err == errDl:
		return "deadline"
	case errors.Is(err, context.Canceled):
		return "ctx"
	case err == io.EOF && mode != "http":
		return "eof"
	case err == io.ErrUnexpectedEOF && mode != "http":
		return "ueof"
	}
	if c, ok := texts[err.Error()]; ok {
		return c
	}
	var ue *nurl.Error
	if errors.As(err, &ue) {
		if ue.Op == "parse" {
			return "url"
		}
		return "dial"
	}
	var oe *net.OpError
	if errors.As(err, &oe) {
		switch oe.Op {
		case "read":
			return "rd"
		case "write":
			return "wr"
		}
		return "dial"
	}
	var de *net.DNSError
	var ae *net.AddrError
	if errors.As(err, &de) || errors.As(err, &ae) {
		return "dial"
	}
	switch err.Error() {
	case "action mismatch":
		return "action"
	case "transaction id mismatch":
		return "tid"
	}
	if mode == "http" {
		return "bdec"
	}
	return "msg:" + hexs([]byte(err.Error()))
}

// ---------------------------------------------------------------- virtual clock
func (h *H) syncAt(V int64) {
	if h.zero {
		return
	}
	tracker.VerifSetTime(h.tr, time.Now().Add(-time.Duration(V-h.vtime)))
}

// stable: the readiness answer at V does not depend on ±10 s (keeps the run deterministic)
func (h *H) stable(V int64) bool {
	if h.zero {
		return true
	}
	h.syncAt(V - 10*nsSecond)
	r1 := tracker.VerifReady(h.tr)
	h.syncAt(V + 10*nsSecond)
	r2 := tracker.VerifReady(h.tr)
	return r1 == r2
}

func (h *H) stabilise(V int64) int64 {
	for i := 0; i < 8 && !h.stable(V); i++ {
		V += 25 * nsSecond
	}
	return V
}

func (h *H) timeStr() string {
	if h.zero {
		return "z"
	}
	return strconv.FormatInt(h.vtime, 10)
}

func b2s(b bool) string {
	if b {
		return "1"
	}
	return "0"
}

func (h *H) hasFam(fam int) bool {
	if fam == 4 {
		return h.host == "dual" || h.host == "v4"
	}
	return h.ne.v6 && (h.host == "dual" || h.host == "v6")
}

// ---------------------------------------------------------------- base ops
func (h *H) opNew(kind string, urlBad bool, host string) {
	h.kind, h.urlBad, h.host = kind, urlBad, host
	var url string
	switch {
	case urlBad:
		url = kind + "://[::1"
	case kind == "http":
		url = fmt.Sprintf("http://%s.test.:%d/announce", host, h.ne.httpPort)
	default:
		url = fmt.Sprintf("udp://%s.test.:%d/announce", host, h.ne.udpPort)
	}
	h.tr = tracker.VerifNewRaw(kind, url)
	h.zero, h.vtime, h.haveCon = true, 0, false
	h.texts = map[string]string{}
	h.c.NewCase()
	h.c.Emit(fmt.Sprintf("new %s %s %s", kind, b2s(urlBad), host), "ok")
}

func (h *H) opSet(t string, interval int64) {
	if t == "z" {
		h.zero = true
		tracker.VerifSetTime(h.tr, time.Time{})
	} else {
		h.zero = false
		h.vtime, _ = strconv.ParseInt(t, 10, 64)
	}
	tracker.VerifSetInterval(h.tr, time.Duration(interval))
	h.haveCon = false
	h.c.Emit(fmt.Sprintf("set %s %d", t, interval), "ok")
}

func (h *H) opReady(V int64) {
	h.syncAt(V)
	h.c.Emit(fmt.Sprintf("ready %d", V), b2s(tracker.VerifReady(h.tr)))
}

func stateName(s tracker.State) string {
	switch s {
	case tracker.Busy:
		return "busy"
	case tracker.Idle:
		return "idle"
	case tracker.Ready:
		return "ready"
	case tracker.Error:
		return "error"
	}
	return s.String()
}

func (h *H) opState(V int64, texts map[string]string) {
	h.syncAt(V)
	before := tracker.VerifGet(h.tr).Locked
	var st tracker.State
	var err error
	p := vhlib.Recover(func() { st, err = h.tr.GetState() })
	op := fmt.Sprintf("state %d", V)
	if p != "" {
		h.c.Emit(op, "panic")
		h.c.Violate("panic:GetState", p, h.c.Case())
		return
	}
	after := tracker.VerifGet(h.tr).Locked
	h.c.Emit(op, fmt.Sprintf("%s %s l=%s", stateName(st), classOf(err, texts, h.kind), b2s(after)))
	if after != before {
		h.c.Violate("stuck-busy:GetState", fmt.Sprintf("locked %v -> %v", before, after), h.c.Case())
	}
	if !before && st == tracker.Busy {
		h.c.Violate("stuck-busy:GetState-busy-unlocked", "Busy reported for an unlocked tracker", h.c.Case())
	}
	h.c.Count("state:"+stateName(st), "", false)
}

var updErrs = map[string]error{
	"nil": nil, "parse": tracker.ErrParse, "notready": tracker.ErrNotReady, "action": errors.New("action mismatch"),
}

func (h *H) opUpd(interval int64, e string) {
	tracker.VerifUpdateInterval(h.tr, time.Duration(interval), updErrs[e])
	g := tracker.VerifGet(h.tr)
	h.c.Emit(fmt.Sprintf("upd %d %s", interval, e),
		fmt.Sprintf("i=%d e=%s", int64(g.Interval), classOf(g.Err, nil, h.kind)))
}

func (h *H) opTryLock() {
	h.c.Emit("trylock", b2s(tracker.VerifTryLock(h.tr)))
}
func (h *H) opUnlock() {
	p := vhlib.Recover(func() { tracker.VerifUnlock(h.tr) })
	if p != "" {
		h.c.Emit("unlock", "panic")
	} else {
		h.c.Emit("unlock", "ok")
	}
}

// ---------------------------------------------------------------- udpRequestReply, scripted
func (h *H) opRR(min int, action, tid uint32, atts []string, tag string) {
	ctx, cancel := context.WithCancel(context.Background())
	defer cancel()
	sc := &scriptConn{atts: atts, cancel: cancel}
	if len(atts) > 0 && atts[0] == "c" {
		cancel()
	}
	var r *bytes.Reader
	var err error
	p := vhlib.Recover(func() {
		r, err = tracker.VerifUDPRequestReply(ctx, sc, []byte("request"), min, action, tid)
	})
	as := "-"
	if len(atts) > 0 {
		as = strings.Join(atts, ",")
	}
	h.c.NewCase()
	op := fmt.Sprintf("rr %d %d %d %s", min, action, tid, as)
	var rest []byte
	obs := ""
	switch {
	case p != "":
		obs = "panic"
	case err != nil && r == nil:
		obs = "err " + classOf(err, nil, "udp")
	case err == nil && r != nil:
		rest, _ = io.ReadAll(r)
		obs = "reader " + hexs(rest)
	default:
		obs = "nilnil"
	}
	h.c.Emit(op, obs)
	rtag := strings.SplitN(obs, ":", 2)[0]
	if strings.HasPrefix(rtag, "reader") {
		rtag = "reader"
	}
	h.c.Count("rr:"+tag+":"+rtag, op, true)
	// oracle
	shape := "last=" + lastShape(atts, tid)
	if p != "" {
		h.c.Violate("panic:udpRequestReply:"+shape, p, h.c.Case())
		return
	}
	if (r == nil) == (err == nil) {
		h.c.Violate("udp:reader-xor-error", obs, h.c.Case())
	}
	if sc.writes > 4 {
		h.c.Violate("udp:more-than-4-attempts", fmt.Sprint(sc.writes), h.c.Case())
	}
	if r != nil {
		okd := false
		for i, a := range atts {
			if i >= 4 || !strings.HasPrefix(a, "b") {
				continue
			}
			d := unhex(a[1:])
			if len(d) > 4096 {
				d = d[:4096]
			}
			if len(d) >= 8 && len(d) >= min && binary.BigEndian.Uint32(d[4:8]) == tid &&
				binary.BigEndian.Uint32(d[0:4]) == action && action != 3 && bytes.Equal(d[8:], rest) {
				okd = true
			}
		}
		if !okd {
			h.c.Violate("udp:accepted-nonmatching", obs, h.c.Case())
		}
	}
}

func lastShape(atts []string, tid uint32) string {
	if len(atts) < 4 {
		return "timeout"
	}
	a := atts[3]
	if !strings.HasPrefix(a, "b") {
		return a
	}
	d := unhex(a[1:])
	if len(d) >= 8 && binary.BigEndian.Uint32(d[4:8]) != tid {
		return "foreign-tid"
	}
	return "datagram"
}

// ---------------------------------------------------------------- family scripts
type udpScript struct {
	dial     bool
	connect  [][]byte
	announce [][]byte
}

func attsTok(ds [][]byte) string {
	if len(ds) == 0 {
		return "-"
	}
	var s []string
	for _, d := range ds {
		s = append(s, "b"+hexs(d))
	}
	return strings.Join(s, ",")
}

func (s udpScript) tok() string {
	if !s.dial {
		return "D"
	}
	return "U:0:" + attsTok(s.connect) + ":0:" + attsTok(s.announce)
}

func parseAttsTok(s string) [][]byte {
	if s == "-" {
		return nil
	}
	var out [][]byte
	for _, a := range strings.Split(s, ",") {
		if strings.HasPrefix(a, "b") {
			out = append(out, unhex(a[1:]))
		}
	}
	return out
}

func parseUdpTok(s string) udpScript {
	f := strings.Split(s, ":")
	if len(f) != 5 || f[0] != "U" {
		return udpScript{}
	}
	return udpScript{dial: true, connect: parseAttsTok(f[2]), announce: parseAttsTok(f[4])}
}

type httpRaw struct {
	hang   bool
	status int
	body   []byte
}

func (r httpRaw) tok() string {
	if r.hang {
		return "hang"
	}
	return fmt.Sprintf("%d.%s", r.status, hexs(r.body))
}

func parseRawTok(s string) httpRaw {
	if s == "hang" {
		return httpRaw{hang: true}
	}
	f := strings.SplitN(s, ".", 2)
	if len(f) != 2 {
		return httpRaw{hang: true}
	}
	st, _ := strconv.Atoi(f[0])
	return httpRaw{status: st, body: unhex(f[1])}
}

type mirrorReply struct {
	FailureReason string             `bencode:"failure reason"`
	RetryIn       string             `bencode:"retry in"`
	Interval      int                `bencode:"interval"`
	Peers         bencode.RawMessage `bencode:"peers,omitempty"`
	Peers6        []byte             `bencode:"peers6,omitempty"`
}
type mirrorPeer struct {
	IP   string `bencode:"ip"`
	Port uint16 `bencode:"port"`
}

// famTok: the decoded view of a served reply (decoder = zeebo/bencode, a parameter of the
// model).  Also returns the retry duration the reply asks for (nil if it has no failure).
func famTok(reachable bool, r httpRaw, texts map[string]string) (tok string, retry *int64) {
	if !reachable || r.hang {
		return "T:dial", nil
	}
	if r.status != 200 {
		texts[fmt.Sprintf("%d %s", r.status, httpStatusText(r.status))] = "status"
		return "T:status", nil
	}
	var m mirrorReply
	if err := bencode.NewDecoder(bytes.NewReader(r.body)).Decode(&m); err != nil {
		return "T:bdec", nil
	}
	rt := "e"
	var rd int64
	switch {
	case m.RetryIn == "never":
		rt = "never"
		rd = int64(2400 * time.Hour)
	case m.RetryIn != "":
		n, err := strconv.Atoi(m.RetryIn)
		if err != nil {
			rt = "x"
		} else {
			rt = "n" + strconv.Itoa(n)
			if n > 0 {
				rd = int64(time.Duration(n) * time.Minute)
			}
		}
	}
	if m.FailureReason != "" {
		texts[m.FailureReason] = "fail:" + hexs([]byte(m.FailureReason))
		retry = &rd
	}
	d1 := "x"
	var p1 []byte
	if err := bencode.DecodeBytes(m.Peers, &p1); err == nil {
		d1 = hexs(p1)
	}
	d2 := "x"
	var p2 []mirrorPeer
	if err := bencode.DecodeBytes(m.Peers, &p2); err == nil {
		var s []string
		for _, p := range p2 {
			a, err := netip.ParseAddr(p.IP)
			if err != nil {
				s = append(s, fmt.Sprintf("x/%d", p.Port))
			} else {
				s = append(s, fmt.Sprintf("%s/%d", hexs(a.AsSlice()), p.Port))
			}
		}
		d2 = "-"
		if len(s) > 0 {
			d2 = strings.Join(s, ",")
		}
	}
	return fmt.Sprintf("R:%s:%s:%d:%s:%s:%s", hexs([]byte(m.FailureReason)), rt, m.Interval, d1, d2,
		hexs(m.Peers6)), retry
}

func httpStatusText(c int) string {
	switch c {
	case 404:
		return "Not Found"
	case 500:
		return "Internal Server Error"
	case 503:
		return "Service Unavailable"
	case 204:
		return "No Content"
	}
	return ""
}

// ---------------------------------------------------------------- running real code with a watchdog
type collector struct {
	mu    sync.Mutex
	peers []netip.AddrPort
	// concurrent mode: every callback announces itself on ev and then blocks until release is
	// closed — as the real callback blocks on the torrent's event channel
	ev      chan netip.AddrPort
	release chan struct{}
}

func (c *collector) f(a netip.AddrPort) bool {
	c.mu.Lock()
	c.peers = append(c.peers, a)
	c.mu.Unlock()
	if c.release != nil {
		select {
		case c.ev <- a:
		default:
		}
		select {
		case <-c.release:
		case <-time.After(10 * time.Second):
		}
	}
	return true
}
func (c *collector) keys(zone bool) []string {
	c.mu.Lock()
	defer c.mu.Unlock()
	var s []string
	for _, p := range c.peers {
		if zone {
			s = append(s, peerKey(p))
		} else {
			s = append(s, fmt.Sprintf("%s/%d", hexs(p.Addr().AsSlice()), p.Port()))
		}
	}
	return s
}

func listTok(s []string) string {
	if len(s) == 0 {
		return "-"
	}
	return strings.Join(s, ",")
}

// guarded runs f on its own goroutine; returns the panic text ("" if none) and whether it hung.
func guarded(f func()) (p string, hung bool) {
	done := make(chan struct{})
	go func() {
		p = vhlib.Recover(f)
		close(done)
	}()
	select {
	case <-done:
		return p, false
	case <-time.After(watchdog):
		hangs++
		return "", true
	}
}

func famName(fam int) (string, string) {
	if fam == 4 {
		return "udp4", "tcp4"
	}
	return "udp6", "tcp6"
}

func (h *H) udpSrvOf(fam int) *udpSrv {
	if fam == 4 {
		return h.ne.u4
	}
	return h.ne.u6
}
func (h *H) httpSrvOf(fam int) *httpSrv {
	if fam == 4 {
		return h.ne.h4
	}
	return h.ne.h6
}

// runFamUDP: announceUDP of one family against the scripted server.
func (h *H) runFamUDP(fam int, s udpScript) (interval time.Duration, err error, col *collector, p string, hung bool) {
	col = &collector{}
	host := "dual"
	if !s.dial {
		host = "none"
	}
	h.udpSrvOf(fam).set(s.connect, s.announce)
	prot, _ := famName(fam)
	url := fmt.Sprintf("udp://%s.test.:%d/announce", host, h.ne.udpPort)
	p, hung = guarded(func() {
		interval, err = tracker.VerifAnnounceUDP(context.Background(), prot, col.f, url,
			infoHash, myID, 50, 1<<20, 6881, "")
	})
	return
}

func (h *H) opFudp(fam int, s udpScript, tag string) {
	if fam == 6 && !h.ne.v6 {
		s = udpScript{}
	}
	if s.dial && len(s.connect) == 0 {
		s.connect = [][]byte{{0, 0, 0, 1, 0, 0, 0, 0, 0, 0, 0, 0, 0, 0, 0, 0}}
	}
	h.c.NewCase()
	op := fmt.Sprintf("fudp %d %s", fam, s.tok())
	interval, err, col, p, hung := h.runFamUDP(fam, s)
	if hung {
		h.c.Emit(op, "hang")
		h.c.Violate("hang:announceUDP", "watchdog", h.c.Case())
		return
	}
	if p != "" {
		h.c.Emit(op, "panic")
		h.c.Violate("panic:announceUDP:"+udpShape(s), p, h.c.Case())
		return
	}
	got := col.keys(false)
	cls := classOf(err, nil, "udp")
	h.c.Emit(op, fmt.Sprintf("i=%d e=%s p=%s", int64(interval), cls, listTok(got)))
	h.c.Count("fudp:"+tag+":"+strings.SplitN(cls, ":", 2)[0], op, len(got) > 0)
	alen := 4
	if fam == 6 {
		alen = 16
	}
	e := udpExpect(s.dial, alen, s.connect, s.announce)
	if listTok(got) != listTok(e.peers) {
		h.c.Violate("peers:udp:"+udpShape(s), fmt.Sprintf("delivered %v, reply encodes %v", got, e.peers), h.c.Case())
	}
	if (err == nil) != e.ok {
		h.c.Violate("result:udp:"+udpShape(s), fmt.Sprintf("err=%v, expected success=%v", err, e.ok), h.c.Case())
	}
	if err == nil && e.hasIntv && int64(interval) != e.announced*nsSecond {
		h.c.Violate("interval:udp", fmt.Sprintf("interval %d, announced %d s", int64(interval), e.announced), h.c.Case())
	}
}

func udpShape(s udpScript) string {
	if !s.dial {
		return "nodial"
	}
	return fmt.Sprintf("c%d-a%d", len(s.connect), len(s.announce))
}

// runFamHTTP: announceHTTP of one family on tracker tr against the scripted server.
func (h *H) runFamHTTP(fam int, tr *tracker.HTTP, r httpRaw) (interval int, err error, col *collector, p string, hung bool) {
	col = &collector{}
	h.httpSrvOf(fam).set(&httpSpec{hang: r.hang, status: r.status, body: r.body})
	_, prot := famName(fam)
	p, hung = guarded(func() {
		interval, err = tracker.VerifAnnounceHTTP(context.Background(), prot, tr,
			infoHash, myID, 50, 1<<20, 6881, "", col.f)
	})
	return
}

func bodyShape(r httpRaw) string {
	if r.hang {
		return "hang"
	}
	if r.status != 200 {
		return "status"
	}
	v, _, ok := bparse(r.body, 0)
	if !ok || v.kind != 'd' {
		return "malformed"
	}
	s := "dict"
	if p, n := v.get("peers"); n > 0 {
		s += fmt.Sprintf(":peers-%c", p.kind)
		if p.kind == 's' {
			s += fmt.Sprintf("%%6=%d", len(p.s)%6)
		}
	}
	if p, n := v.get("peers6"); n > 0 && p.kind == 's' {
		s += fmt.Sprintf(":peers6%%18=%d", len(p.s)%18)
	}
	return s
}

func (h *H) checkFamHTTP(e famExp, got []string, err error, r httpRaw) {
	if !e.known {
		h.c.Count("http-oracle:unknown-shape", "", false)
		return
	}
	if listTok(got) != listTok(e.peers) {
		h.c.Violate("peers:http:"+bodyShape(r), fmt.Sprintf("delivered %v, reply encodes %v (err=%v)", got, e.peers, err), h.c.Case())
	}
	if (err == nil) != e.ok {
		h.c.Violate("result:http:"+bodyShape(r), fmt.Sprintf("err=%v, expected success=%v", err, e.ok), h.c.Case())
	}
}

func (h *H) opFhttp(fam int, r httpRaw, tag string) {
	ht, ok := h.tr.(*tracker.HTTP)
	texts := h.texts
	reach := h.hasFam(fam) && !h.urlBad
	tok, _ := famTok(reach, r, texts)
	if h.urlBad {
		tok = "T:url"
	}
	op := fmt.Sprintf("fhttp %d %s %s", fam, tok, r.tok())
	if !ok {
		h.c.Emit(op, "not-http")
		return
	}
	// the harness itself contacts the server here, outside Announce, and announceHTTP may
	// overwrite tracker.interval: the contact history of the oracle starts afresh
	h.haveCon = false
	interval, err, col, p, hung := h.runFamHTTP(fam, ht, r)
	if hung {
		h.c.Emit(op, "hang")
		h.c.Violate("hang:announceHTTP", "watchdog", h.c.Case())
		return
	}
	if p != "" {
		h.c.Emit(op, "panic")
		h.c.Violate("panic:announceHTTP:"+bodyShape(r), p, h.c.Case())
		return
	}
	got := col.keys(false)
	cls := classOf(err, texts, "http")
	g := tracker.VerifGet(h.tr)
	h.c.Emit(op, fmt.Sprintf("i=%d e=%s ti=%d p=%s", interval, cls, int64(g.Interval), listTok(got)))
	h.c.Count("fhttp:"+tag+":"+strings.SplitN(cls, ":", 2)[0], op, len(got) > 0)
	h.checkFamHTTP(httpExpect(reach, r.hang, r.status, r.body), col.keys(true), err, r)
}

// ---------------------------------------------------------------- Announce
type annRun struct {
	err     error
	panicS  string
	hung    bool
	col     *collector
	stamped bool
	hits    int
}

func (h *H) runAnnounce(V int64, proxy string, hitsOf func() int) annRun {
	h.syncAt(V)
	before := tracker.VerifGet(h.tr).Time
	col := &collector{}
	if h.conc != nil {
		col.ev, col.release = make(chan netip.AddrPort, 1024), make(chan struct{})
		go h.conc(col)
	}
	var res annRun
	res.col = col
	w0 := time.Now()
	res.panicS, res.hung = guarded(func() {
		res.err = h.tr.Announce(context.Background(), infoHash, myID, 50, 1<<20, 6881, 6882, proxy, col.f)
	})
	w1 := time.Now()
	res.hits = hitsOf()
	if res.hung || res.panicS != "" {
		return res
	}
	after := tracker.VerifGet(h.tr).Time
	if !after.Equal(before) || (before.IsZero() != after.IsZero()) {
		res.stamped = true
		if after.Before(w0.Add(-time.Second)) || after.After(w1.Add(time.Second)) {
			h.c.Violate("time:stamp-not-now", fmt.Sprintf("stamp %v outside [%v,%v]", after, w0, w1), h.c.Case())
		}
		h.zero = false
		h.vtime = V
	}
	return res
}

func (h *H) annObs(res annRun, texts map[string]string) string {
	g := tracker.VerifGet(h.tr)
	ps := res.col.keys(false)
	sort.Strings(ps)
	return fmt.Sprintf("r=%s c=%s t=%s i=%d e=%s l=%s p=%s", classOf(res.err, texts, h.kind), b2s(res.stamped),
		h.timeStr(), int64(g.Interval), classOf(g.Err, texts, h.kind), b2s(g.Locked), listTok(ps))
}

// afterAnnounce: the property, restated on what the real Announce did.
func (h *H) afterAnnounce(V int64, res annRun, e4, e6 famExp, wasLocked bool, shape string) {
	g := tracker.VerifGet(h.tr)
	if g.Locked != wasLocked {
		h.c.Violate("stuck-busy:Announce:"+shape, fmt.Sprintf("locked %v -> %v after Announce returned (err=%v)", wasLocked, g.Locked, res.err), h.c.Case())
	}
	if !wasLocked {
		st, _ := h.tr.GetState()
		if st == tracker.Busy {
			h.c.Violate("stuck-busy:GetState-after-Announce:"+shape, "GetState()==Busy after Announce returned", h.c.Case())
		}
	}
	got := res.col.keys(true)
	if res.hits == 0 {
		if len(got) != 0 {
			h.c.Violate("peers:invented-without-contact", fmt.Sprint(got), h.c.Case())
		}
		if res.err == nil {
			h.c.Violate("result:nil-without-contact", "Announce returned nil but no server was contacted", h.c.Case())
		}
		return
	}
	// discipline
	if h.haveCon && V-h.lastV < h.lastGap {
		h.c.Violate("discipline:early-contact:"+shape, fmt.Sprintf("contact %d ns after the previous one, required %d", V-h.lastV, h.lastGap), h.c.Case())
	}
	var ann int64
	if e4.hasIntv && e4.announced > ann {
		ann = e4.announced
	}
	if e6.hasIntv && e6.announced > ann {
		ann = e6.announced
	}
	h.haveCon, h.lastV, h.lastGap = true, V, requiredGap(ann)
	if !(e4.known && e6.known) {
		h.lastGap = 5 * nsMinute
	}
	if h.lastGap < 1<<61 {
		// just before the required gap has elapsed the tracker must not be schedulable
		h.syncAt(V + h.lastGap - 10*nsSecond)
		rd := tracker.VerifReady(h.tr)
		st, _ := h.tr.GetState()
		if rd || st == tracker.Ready {
			h.c.Violate("discipline:ready-too-early:"+shape, fmt.Sprintf("ready %d ns after a contact (announced %d s, stored interval %d)", h.lastGap-10*nsSecond, ann, int64(g.Interval)), h.c.Case())
		}
		h.syncAt(V)
	}
	// peers and result
	if e4.known && e6.known {
		if !isInterleaving(got, e4.peers, e6.peers) {
			h.c.Violate("peers:announce:"+shape, fmt.Sprintf("delivered %v, replies encode %v and %v", got, e4.peers, e6.peers), h.c.Case())
		}
		if (res.err == nil) != (e4.ok || e6.ok) {
			h.c.Violate("result:announce:"+shape, fmt.Sprintf("err=%v, family success %v/%v", res.err, e4.ok, e6.ok), h.c.Case())
		}
	} else {
		h.c.Count("announce-oracle:unknown-shape", "", false)
	}
}

// opAudp: (*UDP).Announce.  late = 4 or 6 selects the concurrent mode ("caudp"): the peer
// callbacks block; the tracker of family `late` withholds its first reply until the other
// family's exchange sits in its first callback (mid-parse of its announce reply), then the late
// exchange runs to its own first callback, and only then are all callbacks released.
func (h *H) opAudp(V int64, s4, s6 udpScript, tag string, late ...int) {
	lateFam := 0
	if len(late) > 0 {
		lateFam = late[0]
	}
	// a family that resolves always dials; give it something to hear at once
	refuse := [][]byte{{0, 0, 0, 1, 0, 0, 0, 0, 0, 0, 0, 0, 0, 0, 0, 0}}
	if !h.hasFam(4) {
		s4 = udpScript{}
	} else if !s4.dial || len(s4.connect) == 0 {
		s4 = udpScript{dial: true, connect: refuse}
	}
	if !h.hasFam(6) {
		s6 = udpScript{}
	} else if !s6.dial || len(s6.connect) == 0 {
		s6 = udpScript{dial: true, connect: refuse}
	}
	op := fmt.Sprintf("audp %d %s %s", V, s4.tok(), s6.tok())
	if lateFam != 0 {
		op = fmt.Sprintf("caudp %d %s %s %d", V, s4.tok(), s6.tok(), lateFam)
	}
	if h.kind != "udp" {
		h.c.Emit(op, "not-udp")
		return
	}
	shape := udpShape(s4) + "/" + udpShape(s6)
	// pre-flight on the harness goroutine: a panic inside Announce's goroutines cannot be caught
	for _, fs := range []struct {
		fam int
		s   udpScript
	}{{4, s4}, {6, s6}} {
		if !fs.s.dial {
			continue
		}
		_, _, _, p, hung := h.runFamUDP(fs.fam, fs.s)
		if p != "" || hung {
			h.c.Emit(op, "panic")
			h.c.Violate("panic:announceUDP:"+udpShape(fs.s), p, h.c.Case())
			return
		}
	}
	h.ne.u4.set(s4.connect, s4.announce)
	h.ne.u6.set(s6.connect, s6.announce)
	wasLocked := tracker.VerifGet(h.tr).Locked
	if lateFam != 0 {
		lateSrv, earlySrv := h.ne.u6, h.ne.u4
		lateExp := udpExpect(s6.dial, 16, s6.connect, s6.announce)
		earlyExp := udpExpect(s4.dial, 4, s4.connect, s4.announce)
		if lateFam == 4 {
			lateSrv, earlySrv = h.ne.u4, h.ne.u6
			lateExp, earlyExp = earlyExp, lateExp
		}
		hold := make(chan struct{})
		lateSrv.mu.Lock()
		lateSrv.hold = hold
		lateSrv.mu.Unlock()
		nLate := len(s6.connect) + len(s6.announce)
		if lateFam == 4 {
			nLate = len(s4.connect) + len(s4.announce)
		}
		h.conc = func(col *collector) {
			// 1. the early exchange reaches its first callback (or delivers nothing)
			if len(earlyExp.peers) > 0 {
				select {
				case <-col.ev:
				case <-time.After(500 * time.Millisecond):
				}
			} else {
				for i := 0; i < 50 && earlySrv.nsent() == 0; i++ {
					time.Sleep(200 * time.Microsecond)
				}
				time.Sleep(500 * time.Microsecond)
			}
			// 2. now the late tracker answers; its exchange receives its replies while the
			//    early one is still parsing
			close(hold)
			if len(lateExp.peers) > 0 {
				select {
				case <-col.ev:
				case <-time.After(500 * time.Millisecond):
				}
			} else {
				for i := 0; i < 100 && lateSrv.nsent() < nLate; i++ {
					time.Sleep(200 * time.Microsecond)
				}
				time.Sleep(500 * time.Microsecond)
			}
			// 3. everybody may go on
			close(col.release)
		}
	}
	res := h.runAnnounce(V, "", func() int {
		a, _ := h.ne.u4.stats()
		b, _ := h.ne.u6.stats()
		return a + b
	})
	h.conc = nil
	if res.hung || res.panicS != "" {
		h.c.Emit(op, "panic")
		h.c.Violate("panic:Announce:udp:"+shape, res.panicS+fmt.Sprint(" hung=", res.hung), h.c.Case())
		return
	}
	if _, u4 := h.ne.u4.stats(); u4 > 0 {
		h.c.Violate("env:unscripted-udp-request", op, h.c.Case())
	}
	if _, u6 := h.ne.u6.stats(); u6 > 0 {
		h.c.Violate("env:unscripted-udp-request", op, h.c.Case())
	}
	h.c.Emit(op, h.annObs(res, h.texts))
	h.c.Count("audp:"+strings.SplitN(classOf(res.err, nil, "udp"), ":", 2)[0]+":stamped="+b2s(res.stamped), op, res.hits > 0)
	for _, t := range strings.Split(tag, "|") {
		h.c.Count("udp-family:"+t, "", false)
	}
	h.afterAnnounce(V, res, udpExpect(s4.dial, 4, s4.connect, s4.announce),
		udpExpect(s6.dial, 16, s6.connect, s6.announce), wasLocked, "udp:"+shape)
}

func (h *H) opAhttp(V int64, proxy bool, r4, r6 httpRaw, last int, tag string) {
	texts := h.texts
	reach4, reach6 := h.hasFam(4), h.hasFam(6)
	if proxy {
		reach4, reach6 = true, false
	}
	if h.urlBad {
		reach4, reach6 = false, false
	}
	t4, rt4 := famTok(reach4, r4, texts)
	t6, rt6 := famTok(reach6, r6, texts)
	if h.urlBad {
		t4, t6 = "T:url", "T:url"
	}
	if h.kind != "http" {
		h.c.Emit(fmt.Sprintf("ahttp %d %s %s %s %d %s %s", V, b2s(proxy), t4, t6, last, r4.tok(), r6.tok()), "not-http")
		return
	}
	shape := bodyShape(r4) + "/" + bodyShape(r6)
	// pre-flight on a scratch tracker (see opAudp)
	scratch := tracker.VerifNewRaw("http", fmt.Sprintf("http://dual.test.:%d/announce", h.ne.httpPort)).(*tracker.HTTP)
	for _, fr := range []struct {
		fam   int
		r     httpRaw
		reach bool
	}{{4, r4, reach4}, {6, r6, reach6}} {
		if !fr.reach || fr.r.hang || fr.r.status != 200 || (fr.fam == 6 && !h.ne.v6) {
			continue
		}
		_, _, _, p, hung := h.runFamHTTP(fr.fam, scratch, fr.r)
		if p != "" || hung {
			h.c.Emit(fmt.Sprintf("ahttp %d %s %s %s %d %s %s", V, b2s(proxy), t4, t6, last, r4.tok(), r6.tok()), "panic")
			h.c.Violate("panic:announceHTTP:"+bodyShape(fr.r), p, h.c.Case())
			return
		}
	}
	// order of the two `tracker.interval = retry` writes
	cur := int64(tracker.VerifGet(h.tr).Interval)
	var gate4, gate6 func()
	if rt4 != nil && rt6 != nil && *rt4 != *rt6 && !proxy {
		waitFor := func(v int64) func() {
			return func() {
				for i := 0; i < 5000; i++ {
					if int64(tracker.VerifGet(h.tr).Interval) == v {
						return
					}
					time.Sleep(time.Millisecond)
				}
			}
		}
		if last == 6 && *rt4 == cur {
			last = 4
		} else if last == 4 && *rt6 == cur {
			last = 6
		}
		if last == 6 {
			gate6 = waitFor(*rt4)
		} else {
			gate4 = waitFor(*rt6)
		}
	} else {
		last = 4
	}
	op := fmt.Sprintf("ahttp %d %s %s %s %d %s %s", V, b2s(proxy), t4, t6, last, r4.tok(), r6.tok())
	h.ne.h4.set(&httpSpec{hang: r4.hang, status: r4.status, body: r4.body, gate: gate4})
	h.ne.h6.set(&httpSpec{hang: r6.hang, status: r6.status, body: r6.body, gate: gate6})
	h.ne.hp.set(&httpSpec{hang: r4.hang, status: r4.status, body: r4.body})
	px := ""
	if proxy {
		px = h.ne.proxyURL
	}
	wasLocked := tracker.VerifGet(h.tr).Locked
	res := h.runAnnounce(V, px, func() int { return h.ne.h4.nhits() + h.ne.h6.nhits() + h.ne.hp.nhits() })
	if res.hung || res.panicS != "" {
		h.c.Emit(op, "panic")
		h.c.Violate("panic:Announce:http:"+shape, res.panicS+fmt.Sprint(" hung=", res.hung), h.c.Case())
		return
	}
	h.c.Emit(op, h.annObs(res, texts))
	h.c.Count("ahttp:"+strings.SplitN(classOf(res.err, texts, "http"), ":", 2)[0]+":proxy="+b2s(proxy)+":stamped="+b2s(res.stamped), op, res.hits > 0)
	if rt4 != nil && rt6 != nil && !proxy {
		h.c.Count(fmt.Sprintf("ahttp:both-write-interval:last=%d", last), "", false)
	}
	for _, t := range strings.Split(tag, "/") {
		h.c.Count("http-family:"+t, "", false)
	}
	e4 := httpExpect(reach4, r4.hang, r4.status, r4.body)
	e6 := httpExpect(reach6, r6.hang, r6.status, r6.body)
	h.afterAnnounce(V, res, e4, e6, wasLocked, "http:"+shape)
}

// ---------------------------------------------------------------- replay
func (h *H) replayLine(l string) {
	f := strings.Fields(l)
	if len(f) == 0 {
		return
	}
	i64 := func(s string) int64 { v, _ := strconv.ParseInt(s, 10, 64); return v }
	if h.tr == nil && f[0] != "new" && f[0] != "rr" && f[0] != "fudp" && f[0] != "tick" {
		h.opNew("http", false, "dual")
	}
	switch {
	case f[0] == "new" && len(f) >= 3:
		host := "dual"
		if len(f) >= 4 {
			host = f[3]
		}
		h.opNew(f[1], f[2] == "1", host)
	case f[0] == "set" && len(f) == 3:
		h.opSet(f[1], i64(f[2]))
	case f[0] == "ready" && len(f) == 2:
		h.opReady(i64(f[1]))
	case f[0] == "state" && len(f) == 2:
		h.opState(i64(f[1]), h.texts)
	case f[0] == "upd" && len(f) == 3:
		h.opUpd(i64(f[1]), f[2])
	case f[0] == "trylock":
		h.opTryLock()
	case f[0] == "unlock":
		h.opUnlock()
	case f[0] == "rr" && len(f) == 5:
		var atts []string
		if f[4] != "-" {
			atts = strings.Split(f[4], ",")
		}
		h.opRR(int(i64(f[1])), uint32(i64(f[2])), uint32(i64(f[3])), atts, "replay")
	case f[0] == "fudp" && len(f) == 3:
		h.opFudp(int(i64(f[1])), parseUdpTok(f[2]), "replay")
	case f[0] == "fhttp" && len(f) == 4:
		h.opFhttp(int(i64(f[1])), parseRawTok(f[3]), "replay")
	case f[0] == "audp" && len(f) == 4:
		h.opAudp(i64(f[1]), parseUdpTok(f[2]), parseUdpTok(f[3]), "replay")
	case f[0] == "caudp" && len(f) == 5 && (f[4] == "4" || f[4] == "6"):
		h.opAudp(i64(f[1]), parseUdpTok(f[2]), parseUdpTok(f[3]), "replay", int(i64(f[4])))
	case f[0] == "ahttp" && len(f) == 8:
		h.opAhttp(i64(f[1]), f[2] == "1", parseRawTok(f[6]), parseRawTok(f[7]), int(i64(f[5])), "replay")
	case f[0] == "tick" && len(f) == 3:
		h.opTick(parseTierTok(f[2]), false, f[1])
	default:
		h.c.Emit(l, "bad-op")
	}
}

func main() {
	c := vhlib.Init("c15")
	defer c.Close()
	c.Rep.Rule = "scripted udpRequestReply attempts (all six attempt kinds x reply shapes); real announceUDP/announceHTTP and (*UDP/*HTTP).Announce against loopback trackers with per-family reply scripts (valid, truncated, foreign tid, wrong/error action, malformed bencode, absurd intervals, failure reasons / retry in), histories of announces and GetState over a virtual clock; non-trivial = a server was contacted / peers delivered; distinct = distinct op lines"
	ne, err := startNet()
	if err != nil {
		c.Note("cannot open loopback sockets: " + err.Error())
		c.Violate("env:no-loopback", err.Error(), nil)
		return
	}
	h := &H{c: c, ne: ne}
	if !ne.v6 {
		c.Note("no IPv6 loopback: the v6 family always fails to dial")
	}
	if c.Replay != "" {
		for _, l := range c.ReplayLines() {
			h.replayLine(l)
		}
		return
	}
	h.generate()
}
