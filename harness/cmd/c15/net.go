package main

// The only "network" of the C15 harness: loopback sockets owned by this process.
//  - an in-process DNS responder installed as net.DefaultResolver, so that one tracker URL
//    can resolve to 127.0.0.1 (A) and ::1 (AAAA) and both address families of Announce can
//    succeed or fail independently (dual/v4/v6/none .test.);
//  - a scripted UDP tracker (one socket per family, same port);
//  - a scripted HTTP tracker (one listener per family, same port) and an HTTP proxy;
//  - a scripted net.Conn for udpRequestReply (no waiting: errors are returned at once).

import (
	"context"
	"encoding/binary"
	"errors"
	"fmt"
	"net"
	"net/http"
	"strings"
	"sync"
	"time"
)

// ---------------------------------------------------------------- DNS
func startDNS() error {
	pc, err := net.ListenPacket("udp4", "127.0.0.1:0")
	if err != nil {
		return err
	}
	addr := pc.LocalAddr().String()
	go func() {
		buf := make([]byte, 1500)
		for {
			n, from, err := pc.ReadFrom(buf)
			if err != nil {
				return
			}
			q := buf[:n]
			if n < 12 {
				continue
			}
			i := 12
			first := ""
			for i < n && q[i] != 0 {
				l := int(q[i])
				if i+1+l > n {
					break
				}
				if first == "" {
					first = strings.ToLower(string(q[i+1 : i+1+l]))
				}
				i += 1 + l
			}
			if i+5 > n {
				continue
			}
			qtype := binary.BigEndian.Uint16(q[i+1:])
			qend := i + 5
			var rdata []byte
			switch {
			case qtype == 1 && (first == "dual" || first == "v4"):
				rdata = []byte{127, 0, 0, 1}
			case qtype == 28 && (first == "dual" || first == "v6"):
				rdata = make([]byte, 16)
				rdata[15] = 1
			}
			resp := make([]byte, 0, 128)
			resp = append(resp, q[0], q[1], 0x81, 0x80, 0, 1, 0, 0, 0, 0, 0, 0)
			if rdata != nil {
				resp[7] = 1
			}
			resp = append(resp, q[12:qend]...)
			if rdata != nil {
				resp = append(resp, 0xC0, 0x0C, byte(qtype>>8), byte(qtype), 0, 1, 0, 0, 0, 0,
					0, byte(len(rdata)))
				resp = append(resp, rdata...)
			}
			pc.WriteTo(resp, from)
		}
	}()
	net.DefaultResolver = &net.Resolver{
		PreferGo: true,
		Dial: func(ctx context.Context, network, address string) (net.Conn, error) {
			var d net.Dialer
			return d.DialContext(ctx, "udp4", addr)
		},
	}
	return nil
}

// ---------------------------------------------------------------- UDP tracker
type udpSrv struct {
	pc       net.PacketConn
	mu       sync.Mutex
	connect  [][]byte // canonical replies (transaction id field XOR request tid), in order
	announce [][]byte
	reqs     int
	unscript int
	sent     int           // scripted replies sent
	hold     chan struct{} // when set: the next reply waits until it is closed (at most 2 s)
}

func (s *udpSrv) set(connect, announce [][]byte) {
	s.mu.Lock()
	s.connect = append([][]byte(nil), connect...)
	s.announce = append([][]byte(nil), announce...)
	s.reqs = 0
	s.unscript = 0
	s.sent = 0
	s.hold = nil
	s.mu.Unlock()
}

func (s *udpSrv) nsent() int {
	s.mu.Lock()
	defer s.mu.Unlock()
	return s.sent
}

func (s *udpSrv) stats() (int, int) {
	s.mu.Lock()
	defer s.mu.Unlock()
	return s.reqs, s.unscript
}

func (s *udpSrv) loop() {
	buf := make([]byte, 65536)
	for {
		n, from, err := s.pc.ReadFrom(buf)
		if err != nil {
			return
		}
		if n < 16 {
			continue
		}
		action := binary.BigEndian.Uint32(buf[8:12])
		tid := append([]byte(nil), buf[12:16]...)
		s.mu.Lock()
		s.reqs++
		var reply []byte
		have := false
		if action == 0 && len(s.connect) > 0 {
			reply, s.connect, have = s.connect[0], s.connect[1:], true
		} else if action == 1 && len(s.announce) > 0 {
			reply, s.announce, have = s.announce[0], s.announce[1:], true
		} else {
			s.unscript++
		}
		s.mu.Unlock()
		if !have {
			// never let the client wait for its 5+10+20+40 s timeouts
			s.pc.WriteTo([]byte{0xEE}, from)
			continue
		}
		out := append([]byte(nil), reply...)
		for i := 4; i < 8 && i < len(out); i++ {
			out[i] ^= tid[i-4]
		}
		s.mu.Lock()
		hold := s.hold
		s.hold = nil
		s.mu.Unlock()
		if hold != nil {
			select {
			case <-hold:
			case <-time.After(2 * time.Second):
			}
		}
		s.pc.WriteTo(out, from)
		s.mu.Lock()
		s.sent++
		s.mu.Unlock()
	}
}

// ---------------------------------------------------------------- HTTP tracker
type httpSpec struct {
	hang   bool
	status int
	body   []byte
	gate   func() // called before answering (orders the two families' side effects)
}

type httpSrv struct {
	ln   net.Listener
	mu   sync.Mutex
	spec *httpSpec
	hits int
}

func (s *httpSrv) set(sp *httpSpec) {
	s.mu.Lock()
	s.spec = sp
	s.hits = 0
	s.mu.Unlock()
}

func (s *httpSrv) nhits() int {
	s.mu.Lock()
	defer s.mu.Unlock()
	return s.hits
}

func (s *httpSrv) ServeHTTP(w http.ResponseWriter, r *http.Request) {
	s.mu.Lock()
	s.hits++
	sp := s.spec
	s.mu.Unlock()
	if sp == nil || sp.hang {
		if hj, ok := w.(http.Hijacker); ok {
			if c, _, err := hj.Hijack(); err == nil {
				c.Close()
				return
			}
		}
		w.WriteHeader(500)
		return
	}
	if sp.gate != nil {
		sp.gate()
	}
	w.Header().Set("Content-Type", "text/plain")
	w.WriteHeader(sp.status)
	w.Write(sp.body)
}

func (s *httpSrv) serve() {
	srv := &http.Server{Handler: s, ReadHeaderTimeout: 30 * time.Second}
	srv.Serve(s.ln)
}

// ---------------------------------------------------------------- listeners
type netEnv struct {
	v6           bool
	udpPort      int
	u4, u6       *udpSrv
	httpPort     int
	h4, h6, hp   *httpSrv
	proxyURL     string
}

func listenPair(network4, network6 string, packet bool) (a4, a6 interface{}, port int, v6 bool, err error) {
	for try := 0; try < 50; try++ {
		var p int
		if packet {
			pc, e := net.ListenPacket(network4, "127.0.0.1:0")
			if e != nil {
				return nil, nil, 0, false, e
			}
			p = pc.LocalAddr().(*net.UDPAddr).Port
			pc6, e6 := net.ListenPacket(network6, fmt.Sprintf("[::1]:%d", p))
			if e6 != nil {
				if try < 49 && strings.Contains(e6.Error(), "in use") {
					pc.Close()
					continue
				}
				return pc, nil, p, false, nil
			}
			return pc, pc6, p, true, nil
		}
		ln, e := net.Listen(network4, "127.0.0.1:0")
		if e != nil {
			return nil, nil, 0, false, e
		}
		p = ln.Addr().(*net.TCPAddr).Port
		ln6, e6 := net.Listen(network6, fmt.Sprintf("[::1]:%d", p))
		if e6 != nil {
			if try < 49 && strings.Contains(e6.Error(), "in use") {
				ln.Close()
				continue
			}
			return ln, nil, p, false, nil
		}
		return ln, ln6, p, true, nil
	}
	return nil, nil, 0, false, errors.New("no port pair")
}

func startNet() (*netEnv, error) {
	if err := startDNS(); err != nil {
		return nil, err
	}
	e := &netEnv{}
	a4, a6, port, v6u, err := listenPair("udp4", "udp6", true)
	if err != nil {
		return nil, err
	}
	e.udpPort = port
	e.u4 = &udpSrv{pc: a4.(net.PacketConn)}
	go e.u4.loop()
	e.u6 = &udpSrv{}
	if v6u {
		e.u6.pc = a6.(net.PacketConn)
		go e.u6.loop()
	}
	b4, b6, hport, v6h, err := listenPair("tcp4", "tcp6", false)
	if err != nil {
		return nil, err
	}
	e.httpPort = hport
	e.h4 = &httpSrv{ln: b4.(net.Listener)}
	go e.h4.serve()
	e.h6 = &httpSrv{}
	if v6h {
		e.h6.ln = b6.(net.Listener)
		go e.h6.serve()
	}
	e.v6 = v6u && v6h
	pl, err := net.Listen("tcp4", "127.0.0.1:0")
	if err != nil {
		return nil, err
	}
	e.hp = &httpSrv{ln: pl}
	go e.hp.serve()
	e.proxyURL = "http://" + pl.Addr().String()
	return e, nil
}

// ---------------------------------------------------------------- scripted conn
var (
	errWr = errors.New("scripted write failure")
	errRd = errors.New("scripted read failure")
	errDl = errors.New("scripted deadline failure")
)

// scriptConn plays one attempt per loop iteration of udpRequestReply:
//   c ctx cancelled before the iteration, d SetDeadline fails, w Write fails,
//   k ctx cancelled during Write, r Read fails, b<hex> a datagram arrives.
type scriptConn struct {
	atts   []string
	idx    int
	cur    string
	cancel context.CancelFunc
	writes int
}

func (c *scriptConn) peekCancel() {
	if c.idx < len(c.atts) && c.atts[c.idx] == "c" {
		c.cancel()
	}
}
func (c *scriptConn) SetDeadline(t time.Time) error {
	if c.idx < len(c.atts) {
		c.cur = c.atts[c.idx]
		c.idx++
	} else {
		c.cur = "r"
	}
	if c.cur == "d" {
		return errDl
	}
	return nil
}
func (c *scriptConn) Write(b []byte) (int, error) {
	c.writes++
	switch c.cur {
	case "w":
		c.peekCancel()
		return 0, errWr
	case "k":
		c.cancel()
	}
	return len(b), nil
}
func (c *scriptConn) Read(b []byte) (int, error) {
	defer c.peekCancel()
	if strings.HasPrefix(c.cur, "b") {
		d := unhex(c.cur[1:])
		return copy(b, d), nil
	}
	return 0, errRd
}
func (c *scriptConn) Close() error                       { return nil }
func (c *scriptConn) LocalAddr() net.Addr                { return &net.UDPAddr{} }
func (c *scriptConn) RemoteAddr() net.Addr               { return &net.UDPAddr{} }
func (c *scriptConn) SetReadDeadline(t time.Time) error  { return nil }
func (c *scriptConn) SetWriteDeadline(t time.Time) error { return nil }
