package main

// Independent restatement of what a tracker reply *means* (BEP 3/7/15/23), used by the
// property oracle.  Shares no code with the Lean model nor with zeebo/bencode.

import (
	"encoding/binary"
	"fmt"
	"net/netip"
)

// ---------------------------------------------------------------- a strict bencode reader
type bval struct {
	kind byte // 'i' 's' 'l' 'd'
	i    int64
	s    []byte
	l    []bval
	dk   []string
	dv   []bval
}

func bparse(b []byte, depth int) (v bval, rest []byte, ok bool) {
	if len(b) == 0 || depth > 64 {
		return v, nil, false
	}
	switch {
	case b[0] == 'i':
		j := 1
		neg := false
		if j < len(b) && b[j] == '-' {
			neg = true
			j++
		}
		st := j
		var n uint64
		for j < len(b) && b[j] >= '0' && b[j] <= '9' {
			if n > (1<<63)/10 {
				return v, nil, false
			}
			n = n*10 + uint64(b[j]-'0')
			j++
		}
		if j == st || j >= len(b) || b[j] != 'e' {
			return v, nil, false
		}
		if (b[st] == '0' && j-st > 1) || (neg && b[st] == '0') {
			return v, nil, false
		}
		if (!neg && n > 1<<63-1) || (neg && n > 1<<63) {
			return v, nil, false
		}
		v.kind = 'i'
		if neg {
			v.i = -int64(n)
		} else {
			v.i = int64(n)
		}
		return v, b[j+1:], true
	case b[0] >= '0' && b[0] <= '9':
		j := 0
		n := 0
		for j < len(b) && b[j] >= '0' && b[j] <= '9' {
			n = n*10 + int(b[j]-'0')
			if n > 1<<30 {
				return v, nil, false
			}
			j++
		}
		if (b[0] == '0' && j > 1) || j >= len(b) || b[j] != ':' || len(b)-j-1 < n {
			return v, nil, false
		}
		v.kind = 's'
		v.s = b[j+1 : j+1+n]
		return v, b[j+1+n:], true
	case b[0] == 'l':
		v.kind = 'l'
		b = b[1:]
		for {
			if len(b) == 0 {
				return v, nil, false
			}
			if b[0] == 'e' {
				return v, b[1:], true
			}
			x, r, ok := bparse(b, depth+1)
			if !ok {
				return v, nil, false
			}
			v.l = append(v.l, x)
			b = r
		}
	case b[0] == 'd':
		v.kind = 'd'
		b = b[1:]
		for {
			if len(b) == 0 {
				return v, nil, false
			}
			if b[0] == 'e' {
				return v, b[1:], true
			}
			k, r, ok := bparse(b, depth+1)
			if !ok || k.kind != 's' {
				return v, nil, false
			}
			x, r2, ok := bparse(r, depth+1)
			if !ok {
				return v, nil, false
			}
			v.dk = append(v.dk, string(k.s))
			v.dv = append(v.dv, x)
			b = r2
		}
	}
	return v, nil, false
}

func (v bval) get(key string) (x bval, n int) {
	for i, k := range v.dk {
		if k == key {
			if n == 0 {
				x = v.dv[i]
			}
			n++
		}
	}
	return
}

func peerKey(a netip.AddrPort) string {
	s := hexs(a.Addr().AsSlice())
	if z := a.Addr().Zone(); z != "" {
		s += "%" + hexs([]byte(z))
	}
	return fmt.Sprintf("%s/%d", s, a.Port())
}

func compactRecords(b []byte, alen int) []string {
	var out []string
	for i := 0; i+alen+2 <= len(b); i += alen + 2 {
		out = append(out, fmt.Sprintf("%s/%d", hexs(b[i:i+alen]), int(b[i+alen])<<8|int(b[i+alen+1])))
	}
	return out
}

// famExp: what the property allows one address family to produce.
type famExp struct {
	known     bool     // the oracle can tell (well-formed by the strict reader, expected types)
	ok        bool     // the exchange succeeds (a usable reply)
	peers     []string // exactly these, in this order
	announced int64    // announced interval in seconds (0 if none)
	hasIntv   bool
}

// httpExpect: meaning of one HTTP reply (status, body).
func httpExpect(reachable bool, hang bool, status int, body []byte) famExp {
	if !reachable || hang || status != 200 {
		return famExp{known: true, ok: false}
	}
	v, _, ok := bparse(body, 0)
	if !ok {
		return famExp{known: false}
	}
	if v.kind != 'd' {
		return famExp{known: false}
	}
	e := famExp{known: true, ok: true}
	for _, k := range []string{"failure reason", "retry in", "interval", "peers", "peers6"} {
		if _, n := v.get(k); n > 1 {
			return famExp{known: false}
		}
	}
	if fr, n := v.get("failure reason"); n == 1 {
		if fr.kind != 's' {
			return famExp{known: false}
		}
		if len(fr.s) > 0 {
			return famExp{known: true, ok: false}
		}
	}
	if ri, n := v.get("retry in"); n == 1 && ri.kind != 's' {
		return famExp{known: false}
	}
	if iv, n := v.get("interval"); n == 1 {
		if iv.kind != 'i' {
			return famExp{known: false}
		}
		e.announced, e.hasIntv = iv.i, true
	}
	if p, n := v.get("peers"); n == 1 {
		switch p.kind {
		case 's':
			if len(p.s)%6 == 0 {
				e.peers = append(e.peers, compactRecords(p.s, 4)...)
			}
		case 'l':
			for _, x := range p.l {
				if x.kind != 'd' {
					return famExp{known: false}
				}
				ip, n1 := x.get("ip")
				port, n2 := x.get("port")
				if n1 != 1 || n2 != 1 || ip.kind != 's' || port.kind != 'i' || port.i < 0 || port.i > 65535 {
					return famExp{known: false}
				}
				a, err := netip.ParseAddr(string(ip.s))
				if err == nil {
					e.peers = append(e.peers, peerKey(netip.AddrPortFrom(a, uint16(port.i))))
				}
			}
		}
	}
	if p, n := v.get("peers6"); n == 1 {
		if p.kind != 's' {
			return famExp{known: false}
		}
		if len(p.s)%18 == 0 {
			e.peers = append(e.peers, compactRecords(p.s, 16)...)
		}
	}
	return e
}

// udpExpect: meaning of the two scripted phases of one family (canonical datagrams: the
// transaction id field is zero iff it matches the request).  BEP 15: a reply counts only if
// it is long enough, carries our transaction id and the expected action; action 3 is an
// error; the client gives up after 4 tries.
func udpPhase(script [][]byte, min int, action uint32) (accepted []byte, ok bool) {
	for i, d := range script {
		if i >= 4 {
			break
		}
		if len(d) > 4096 {
			d = d[:4096]
		}
		if len(d) < min || len(d) < 8 {
			continue
		}
		if binary.BigEndian.Uint32(d[4:8]) != 0 {
			continue
		}
		if binary.BigEndian.Uint32(d[0:4]) != action {
			return nil, false
		}
		return d, true
	}
	return nil, false
}

func udpExpect(reachable bool, alen int, connect, announce [][]byte) famExp {
	if !reachable {
		return famExp{known: true}
	}
	if _, ok := udpPhase(connect, 16, 0); !ok {
		return famExp{known: true}
	}
	d, ok := udpPhase(announce, 20, 1)
	if !ok {
		return famExp{known: true}
	}
	e := famExp{known: true}
	e.announced, e.hasIntv = int64(binary.BigEndian.Uint32(d[8:12])), true
	e.peers = compactRecords(d[20:], alen)
	e.ok = (len(d)-20)%(alen+2) == 0 // a truncated trailing record is an error
	return e
}

// isInterleaving: got is a merge of a and b preserving each one's order.
func isInterleaving(got, a, b []string) bool {
	if len(got) != len(a)+len(b) {
		return false
	}
	// dp[j] = got[:i+j] can be formed from a[:i], b[:j]
	dp := make([]bool, len(b)+1)
	dp[0] = true
	for j := 1; j <= len(b); j++ {
		dp[j] = dp[j-1] && b[j-1] == got[j-1]
	}
	for i := 1; i <= len(a); i++ {
		dp[0] = dp[0] && a[i-1] == got[i-1]
		for j := 1; j <= len(b); j++ {
			dp[j] = (dp[j] && a[i-1] == got[i+j-1]) || (dp[j-1] && b[j-1] == got[i+j-1])
		}
	}
	return dp[len(b)]
}

const (
	nsSecond = int64(1000000000)
	nsMinute = 60 * nsSecond
)

// requiredGap: "not contacted again before the larger of five minutes and its announced
// interval"; an announced interval counts when it is above a minute and representable.
func requiredGap(announced int64) int64 {
	gap := 5 * nsMinute
	if announced > 60 && announced < (1<<63-1)/nsSecond {
		if announced*nsSecond > gap {
			gap = announced * nsSecond
		}
	}
	return gap
}
