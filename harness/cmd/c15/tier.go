package main

// tick <perm> <tiers>: one call of tor.trackerAnnounce (the tier walk of a slow tick) on a torrent
// whose tiers hold recording trackers.  <tiers> = states per tier, '|' between tiers ('-' an empty
// tier, '.' no tier at all), letters
// d(isabled) e(rror) b(usy) i(dle) r(eady); <perm> is the tier permutation the torrent's PRNG
// draws (the harness mirrors the PCG stream seeded through VerifInit).
// A Ready slot is always a fake tracker (its Announce only records the call); the other slots are
// fakes or real tracker.HTTP / tracker.UDP / Unknown values put into that state.

import (
	"context"
	"errors"
	"fmt"
	"math/rand/v2"
	"net/netip"
	"strings"
	"sync"
	"time"

	"github.com/jech/storrent/hash"
	"github.com/jech/storrent/tor"
	"github.com/jech/storrent/tracker"

	"verifharness/vhlib"
)

type tierRec struct {
	mu       sync.Mutex
	visited  []string
	started  []string
	states   map[string]tracker.State // what each tracker answered
	announce chan string
}

type recTracker struct {
	id    string
	rec   *tierRec
	real  tracker.Tracker // nil: fake
	state tracker.State
}

func (t *recTracker) URL() string { return "fake://" + t.id }

func (t *recTracker) GetState() (tracker.State, error) {
	st, err := t.state, error(nil)
	if t.real != nil {
		st, err = t.real.GetState()
	} else if st == tracker.Error {
		err = errors.New("scripted error")
	}
	t.rec.mu.Lock()
	t.rec.visited = append(t.rec.visited, t.id)
	t.rec.states[t.id] = st
	t.rec.mu.Unlock()
	return st, err
}

func (t *recTracker) Announce(ctx context.Context, hash []byte, myid []byte, want int, size int64,
	port4, port6 int, proxy string, f func(netip.AddrPort) bool) error {
	t.rec.mu.Lock()
	t.rec.started = append(t.rec.started, t.id)
	t.rec.mu.Unlock()
	t.rec.announce <- t.id
	return nil
}

var stateOfLetter = map[string]tracker.State{"d": tracker.Disabled, "e": tracker.Error, "b": tracker.Busy,
	"i": tracker.Idle, "r": tracker.Ready}

// realIn builds a real tracker that reports the wanted (non-Ready) state.
func realIn(st tracker.State, k int) tracker.Tracker {
	url := "http://127.0.0.1:1/announce"
	if k%2 == 1 {
		url = "udp://127.0.0.1:1/announce"
	}
	switch st {
	case tracker.Disabled:
		return tracker.New("wss://127.0.0.1:1/announce")
	case tracker.Idle:
		tr := tracker.New(url)
		tracker.VerifSetTime(tr, time.Now())
		return tr
	case tracker.Busy:
		tr := tracker.New(url)
		tracker.VerifTryLock(tr)
		return tr
	case tracker.Error:
		tr := tracker.New(url)
		tracker.VerifSetTime(tr, time.Now())
		tracker.VerifUpdateInterval(tr, time.Hour, errors.New("scripted error"))
		return tr
	}
	return nil
}

type tierTorrent struct {
	t      *tor.Torrent
	mirror *rand.Rand
}

var tierT *tierTorrent

func tierTorrentGet(seed uint64) *tierTorrent {
	if tierT == nil {
		t, err := tor.New("", hash.Hash(make([]byte, 20)), "t", nil, 0, nil, nil)
		if err != nil {
			panic(err)
		}
		tor.VerifInit(t, 64, seed)
		tierT = &tierTorrent{t, rand.New(rand.NewPCG(seed, seed+1))}
	}
	return tierT
}

func tierTok(tiers [][]string) string {
	if len(tiers) == 0 {
		return "."
	}
	var ts []string
	for _, tl := range tiers {
		if len(tl) == 0 {
			ts = append(ts, "-")
		} else {
			ts = append(ts, strings.Join(tl, ","))
		}
	}
	return strings.Join(ts, "|")
}

func parseTierTok(s string) [][]string {
	if s == "." {
		return nil
	}
	var tiers [][]string
	for _, t := range strings.Split(s, "|") {
		if t == "-" {
			tiers = append(tiers, nil)
		} else {
			tiers = append(tiers, strings.Split(t, ","))
		}
	}
	return tiers
}

// opTick runs one tier walk.  useReal: build non-Ready slots from real trackers where possible.
func (h *H) opTick(tiers [][]string, useReal bool, replayPerm string) {
	h.c.NewCase()
	tt := tierTorrentGet(77)
	rec := &tierRec{states: map[string]tracker.State{}, announce: make(chan string, 64)}
	var trs [][]tracker.Tracker
	k := 0
	for i, tl := range tiers {
		var row []tracker.Tracker
		for j, l := range tl {
			st, ok := stateOfLetter[l]
			if !ok {
				h.c.Emit("tick "+replayPerm+" "+tierTok(tiers), "bad-op")
				return
			}
			rt := &recTracker{id: fmt.Sprintf("%d.%d", i, j), rec: rec, state: st}
			if useReal && st != tracker.Ready && (i+j+k)%2 == 0 {
				rt.real = realIn(st, k)
			}
			k++
			row = append(row, rt)
		}
		trs = append(trs, row)
	}
	tt.t.VerifSetTrackers(trs)
	perm := tt.mirror.Perm(len(tiers)) // the draw trackerAnnounce is about to make
	ps := "-"
	if len(perm) > 0 {
		var s []string
		for _, p := range perm {
			s = append(s, fmt.Sprint(p))
		}
		ps = strings.Join(s, ",")
	}
	op := "tick " + ps + " " + tierTok(tiers)
	ops := []string{op}
	if replayPerm != "" && replayPerm != ps {
		// a replayed line names the permutation of the run that produced it; the torrent's PRNG
		// cannot be set, so the permutation actually drawn is the one reported
		h.c.Note("tick replay: permutation drawn " + ps + " instead of " + replayPerm)
	}
	ctx, cancel := context.WithCancel(context.Background())
	defer cancel()
	p := vhlib.Recover(func() { tor.VerifTrackerAnnounce(ctx, tt.t) })
	if p != "" {
		h.c.Violate("panic:trackerAnnounce", p, ops)
		h.c.Emit(op, "panic")
		return
	}
	// the walk returns right after `go trackerAnnounceSingle`: if some GetState answered Ready,
	// wait for that announce; in any case leave a moment for announces that should not exist
	rec.mu.Lock()
	sawReady := false
	for _, st := range rec.states {
		if st == tracker.Ready {
			sawReady = true
		}
	}
	rec.mu.Unlock()
	if sawReady {
		select {
		case <-rec.announce:
		case <-time.After(5 * time.Second):
			h.c.Violate("tier-walk:ready-not-announced", "a tracker answered Ready but no announce started within 5 s", ops)
		}
	}
	time.Sleep(300 * time.Microsecond)
	rec.mu.Lock()
	visited := append([]string(nil), rec.visited...)
	started := append([]string(nil), rec.started...)
	rec.mu.Unlock()
	// oracle: at most one tracker is contacted per tick, and only one that said it was Ready
	if len(started) > 1 {
		h.c.Violate("tier-walk:more-than-one-announce", fmt.Sprint(started), ops)
	}
	for _, id := range started {
		if st, ok := rec.states[id]; !ok || st != tracker.Ready {
			h.c.Violate("tier-walk:announced-non-ready", fmt.Sprintf("%s announced, GetState had answered %v (asked: %v)", id, st, ok), ops)
		}
	}
	// nothing is asked after an announce was started; a tier is left at the first tracker not in Error
	for n, id := range visited {
		if st := rec.states[id]; st == tracker.Ready && n != len(visited)-1 {
			h.c.Violate("tier-walk:continued-after-start", fmt.Sprint(visited), ops)
		}
	}
	for n := 0; n+1 < len(visited); n++ {
		a, b := visited[n], visited[n+1]
		if strings.SplitN(a, ".", 2)[0] == strings.SplitN(b, ".", 2)[0] && rec.states[a] != tracker.Error {
			h.c.Violate("tier-walk:tier-not-left", fmt.Sprintf("%s asked after %s answered %v (order %v)", b, a, rec.states[a], visited), ops)
		}
	}
	tag := "tick:none"
	if len(started) == 1 {
		tag = "tick:start"
	}
	if len(visited) == 0 {
		tag = "tick:empty"
	}
	h.c.Count(tag, op, len(started) > 0)
	h.c.Emit(op, "gs="+listTok2(visited)+" start="+listTok2(started))
}

func listTok2(l []string) string {
	if len(l) == 0 {
		return "-"
	}
	return strings.Join(l, ",")
}

func genTick(h *H, r *vhlib.Rand) {
	nt := r.PickInt(0, 1, 1, 2, 2, 3, 3, 4, 5)
	letters := []string{"d", "e", "e", "e", "b", "i", "i", "r", "r"}
	if r.Chance(30) {
		letters = []string{"e", "e", "e", "r", "i"}
	}
	var tiers [][]string
	for i := 0; i < nt; i++ {
		n := r.PickInt(0, 1, 1, 2, 3, 4)
		var tl []string
		for j := 0; j < n; j++ {
			tl = append(tl, letters[r.Intn(len(letters))])
		}
		tiers = append(tiers, tl)
	}
	h.opTick(tiers, r.Chance(50), "")
}
