package main

import (
	"encoding/binary"
	"fmt"
	"sort"
	"strconv"

	"verifharness/vhlib"
)

// ---------------------------------------------------------------- bencode writer
func bstr(s []byte) []byte { return append([]byte(strconv.Itoa(len(s))+":"), s...) }
func bint(i int64) []byte  { return []byte("i" + strconv.FormatInt(i, 10) + "e") }
func bdict(m map[string][]byte) []byte {
	keys := make([]string, 0, len(m))
	for k := range m {
		keys = append(keys, k)
	}
	sort.Strings(keys)
	out := []byte("d")
	for _, k := range keys {
		out = append(out, bstr([]byte(k))...)
		out = append(out, m[k]...)
	}
	return append(out, 'e')
}
func blist(l [][]byte) []byte {
	out := []byte("l")
	for _, x := range l {
		out = append(out, x...)
	}
	return append(out, 'e')
}

var httpIntervals = []string{"-1", "0", "1", "59", "60", "61", "299", "300", "301", "900", "1800", "3600",
	"1000000", "2147483648", "4611686018427387904", "9223372036", "9223372037", "9223372036854775807",
	"-9223372036854775808", "18446744074", "18446744200", "5000000000"}
var udpIntervals = []uint32{0, 1, 59, 60, 61, 299, 300, 301, 900, 1800, 1000000, 1 << 31, 1<<32 - 1}
var retries = []string{"", "never", "0", "7", "20", "45", "-3", "x", "9223372036854775807",
	"153722867280912931", "99999999999999999999"}
var baseIntervals = []int64{-1 << 63, -1, 0, 1, 59 * nsSecond, 60 * nsSecond, 61 * nsSecond, 299 * nsSecond,
	300 * nsSecond, 301 * nsSecond, 899 * nsSecond, 900 * nsSecond, 1800 * nsSecond, 1801 * nsSecond,
	3600 * nsSecond, 1000000 * nsSecond, 1 << 61, 1<<63 - 1}

func pick(r *vhlib.Rand, l []string) string { return l[r.Intn(len(l))] }

func randIPs(r *vhlib.Rand) string {
	switch r.Intn(6) {
	case 0:
		return "not-an-ip"
	case 1:
		return fmt.Sprintf("2001:db8::%x", r.Intn(65536))
	case 2:
		return ""
	case 3:
		return fmt.Sprintf("::ffff:10.0.0.%d", r.Intn(256))
	}
	return fmt.Sprintf("%d.%d.%d.%d", r.Intn(256), r.Intn(256), r.Intn(256), r.Intn(256))
}

// genHTTP: one served reply.
func genHTTP(r *vhlib.Rand) (httpRaw, string) {
	ivl := []byte("i" + pick(r, httpIntervals) + "e")
	if r.Chance(50) {
		ivl = []byte("i" + pick(r, []string{"120", "600", "1800", "2000"}) + "e")
	}
	k := r.Intn(100)
	valid := func(kind int) []byte {
		m := map[string][]byte{"interval": ivl}
		switch kind {
		case 0: // compact
			m["peers"] = bstr(r.Bytes(6 * r.Intn(4)))
			if r.Chance(40) {
				m["peers6"] = bstr(r.Bytes(18 * r.Intn(3)))
			}
		case 1: // dictionary list
			var l [][]byte
			for i, n := 0, r.Intn(4); i < n; i++ {
				l = append(l, bdict(map[string][]byte{"ip": bstr([]byte(randIPs(r))),
					"port": bint(int64(r.Intn(65536))), "peer id": bstr(r.Bytes(20))}))
			}
			m["peers"] = blist(l)
			if r.Chance(30) {
				m["peers6"] = bstr(r.Bytes(18 * r.Intn(3)))
			}
		case 2: // only peers6 / nothing
			if r.Bool() {
				m["peers6"] = bstr(r.Bytes(18 * (1 + r.Intn(2))))
			}
		}
		if r.Chance(30) {
			m["complete"] = bint(int64(r.Intn(100)))
			m["min interval"] = bint(60)
			m["zz"] = blist([][]byte{bint(1), bdict(map[string][]byte{"a": bstr([]byte("b"))})})
		}
		return bdict(m)
	}
	switch {
	case k < 30:
		return httpRaw{status: 200, body: valid(r.Intn(3))}, "valid"
	case k < 45:
		m := map[string][]byte{"failure reason": bstr([]byte(pick(r, []string{"no", "torrent not registered", "overloaded"})))}
		if rt := pick(r, retries); rt != "" {
			m["retry in"] = bstr([]byte(rt))
		}
		if r.Chance(30) {
			m["interval"] = ivl
			m["peers"] = bstr(r.Bytes(6))
		}
		return httpRaw{status: 200, body: bdict(m)}, "failure"
	case k < 52:
		n := r.PickInt(1, 4, 5, 7, 11, 13)
		m := map[string][]byte{"interval": ivl, "peers": bstr(r.Bytes(n))}
		return httpRaw{status: 200, body: bdict(m)}, "peers-mod6"
	case k < 58:
		n := r.PickInt(1, 6, 16, 17, 19, 35)
		m := map[string][]byte{"interval": ivl, "peers": bstr(r.Bytes(6)), "peers6": bstr(r.Bytes(n))}
		return httpRaw{status: 200, body: bdict(m)}, "peers6-mod18"
	case k < 64:
		return httpRaw{status: r.PickInt(404, 500, 503, 204), body: []byte("d8:intervali1800e5:peers0:e")}, "status"
	case k < 68:
		return httpRaw{hang: true}, "hang"
	case k < 76:
		b := valid(r.Intn(3))
		return httpRaw{status: 200, body: b[:r.Intn(len(b))]}, "truncated"
	case k < 84:
		b := valid(r.Intn(3))
		b[r.Intn(len(b))] ^= byte(1 << uint(r.Intn(8)))
		return httpRaw{status: 200, body: b}, "bitflip"
	case k < 88:
		return httpRaw{status: 200, body: r.Bytes(r.Intn(30))}, "random"
	case k < 94:
		m := map[string][]byte{"interval": ivl, "peers": bstr(r.Bytes(12))}
		switch r.Intn(6) {
		case 0:
			m["interval"] = bstr([]byte("1800"))
		case 1:
			m["peers"] = bint(5)
		case 2:
			m["peers6"] = blist(nil)
		case 3:
			m["failure reason"] = bint(3)
		case 4:
			m["peers"] = bdict(map[string][]byte{"ip": bstr([]byte("1.2.3.4"))})
		case 5:
			m["retry in"] = bint(5)
		}
		return httpRaw{status: 200, body: bdict(m)}, "typeconfusion"
	default:
		var l [][]byte
		for i, n := 0, 1+r.Intn(3); i < n; i++ {
			d := map[string][]byte{"ip": bstr([]byte(randIPs(r))), "port": bint(int64(r.Intn(65536)))}
			switch r.Intn(5) {
			case 0:
				d["port"] = bstr([]byte("80"))
			case 1:
				d["port"] = bint(70000)
			case 2:
				delete(d, "ip")
			case 3:
				d["port"] = bint(-1)
			}
			l = append(l, bdict(d))
		}
		return httpRaw{status: 200, body: bdict(map[string][]byte{"interval": ivl, "peers": blist(l)})}, "dictlist-odd"
	}
}

// ---------------------------------------------------------------- UDP datagrams (canonical)
func dgram(action uint32, tid uint32, rest []byte) []byte {
	b := make([]byte, 8, 8+len(rest))
	binary.BigEndian.PutUint32(b[0:], action)
	binary.BigEndian.PutUint32(b[4:], tid)
	return append(b, rest...)
}

func foreignTid(r *vhlib.Rand) uint32 {
	return uint32(1 + r.Intn(1<<31))
}

// contDgram: a datagram after which the client sends the request again at once
func contDgram(r *vhlib.Rand, min int, action uint32) []byte {
	if r.Bool() {
		return r.Bytes(r.Intn(min)) // too short
	}
	return dgram(action, foreignTid(r), r.Bytes(min-8+r.Intn(8)))
}

func goodAnnounce(r *vhlib.Rand, alen int) []byte {
	rest := make([]byte, 12)
	binary.BigEndian.PutUint32(rest[0:], udpIntervals[r.Intn(len(udpIntervals))])
	if r.Chance(40) {
		binary.BigEndian.PutUint32(rest[0:], uint32(r.PickInt(120, 600, 1800)))
	}
	binary.BigEndian.PutUint32(rest[4:], uint32(r.Intn(100)))
	binary.BigEndian.PutUint32(rest[8:], uint32(r.Intn(100)))
	rest = append(rest, r.Bytes((alen+2)*r.Intn(4))...)
	if r.Chance(25) {
		rest = append(rest, r.Bytes(1+r.Intn(alen+1))...) // truncated trailing record
	}
	return dgram(1, 0, rest)
}

func genPhase(r *vhlib.Rand, min int, action uint32, good func() []byte, eekBad bool) ([][]byte, string) {
	var s [][]byte
	n := r.PickInt(0, 0, 0, 1, 1, 2, 3, 4)
	for i := 0; i < n; i++ {
		s = append(s, contDgram(r, min, action))
	}
	if n == 4 {
		if eekBad && len(s[3]) >= 8 {
			s[3] = s[3][:5]
		}
		return s, "giveup"
	}
	k := r.Intn(100)
	switch {
	case k < 60:
		return append(s, good()), "good"
	case k < 72:
		wa := uint32(r.PickInt(0, 1, 2, 7, 1<<24))
		if wa == action {
			wa = 2
		}
		return append(s, dgram(wa, 0, r.Bytes(min-8+r.Intn(20)))), "wrong-action"
	case k < 84:
		return append(s, dgram(3, 0, append(r.Bytes(min-8), []byte(pick(r, []string{"", "denied", "bad hash"}))...))), "error-action"
	case k < 92:
		return append(s, dgram(action, 0, r.Bytes(5000))), "long"
	default:
		d := r.Bytes(min + r.Intn(30))
		d[4], d[5], d[6], d[7] = 0, 0, 0, 0
		if d[0] == 0 && d[1] == 0 && d[2] == 0 && d[3] == 3 {
			d[3] = 9
		}
		return append(s, d), "random"
	}
}

func genUDP(r *vhlib.Rand, alen int, eekBad bool) (udpScript, string) {
	if r.Chance(6) {
		return udpScript{}, "nodial"
	}
	c, t1 := genPhase(r, 16, 0, func() []byte {
		d := dgram(0, 0, r.Bytes(8))
		if r.Chance(20) {
			d = append(d, r.Bytes(r.Intn(8))...)
		}
		return d
	}, eekBad)
	var a [][]byte
	t2 := "-"
	if t1 == "good" || t1 == "long" || t1 == "random" {
		a, t2 = genPhase(r, 20, 1, func() []byte { return goodAnnounce(r, alen) }, eekBad)
	}
	return udpScript{dial: true, connect: c, announce: a}, t1 + "/" + t2
}

// ---------------------------------------------------------------- udpRequestReply scripts
func genRR(h *H, r *vhlib.Rand) {
	min := r.PickInt(0, 4, 8, 16, 16, 20, 20)
	action := uint32(r.PickInt(0, 1, 1, 2))
	tid := r.U32()
	if r.Chance(10) {
		tid = 0
	}
	n := r.PickInt(0, 1, 2, 3, 4, 4, 4, 5)
	var atts []string
	tag := "mixed"
	for i := 0; i < n; i++ {
		k := r.Intn(100)
		var a string
		switch {
		case k < 4:
			a = "c"
		case k < 8:
			a = "d"
		case k < 18:
			a = "w"
		case k < 22:
			a = "k"
		case k < 34:
			a = "r"
		case k < 46: // foreign tid
			a = "b" + hexs(dgram(action, tid^foreignTid(r), r.Bytes(r.PickInt(0, 8, 12, 30))))
		case k < 56: // too short for anything
			a = "b" + hexs(r.Bytes(r.Intn(9)))
		case k < 64: // header ok but shorter than min
			d := dgram(action, tid, nil)
			a = "b" + hexs(d[:r.Intn(9)])
		case k < 72:
			a = "b" + hexs(dgram(3, tid, []byte(pick(r, []string{"", "go away", "x"}))))
		case k < 80:
			a = "b" + hexs(dgram(action^uint32(1+r.Intn(3)), tid, r.Bytes(r.PickInt(0, 8, 12, 30))))
		case k < 84:
			a = "b" + hexs(dgram(action, tid, r.Bytes(4200)))
		default:
			a = "b" + hexs(dgram(action, tid, r.Bytes(r.PickInt(0, 8, 12, 13, 30))))
		}
		atts = append(atts, a)
	}
	if r.Chance(12) { // the shape of the known crash: every attempt answered with a foreign id
		atts = nil
		for i := 0; i < 4; i++ {
			if i < 3 && r.Chance(30) {
				atts = append(atts, pick(r, []string{"r", "w"}))
			} else {
				atts = append(atts, "b"+hexs(dgram(action, tid^foreignTid(r), r.Bytes(12))))
			}
		}
		tag = "foreign4"
	}
	h.opRR(min, action, tid, atts, tag)
}

// ---------------------------------------------------------------- histories
func (h *H) nextNow(r *vhlib.Rand, V int64) int64 {
	steps := []int64{0, nsSecond, 60 * nsSecond, 280 * nsSecond, 320 * nsSecond, 880 * nsSecond, 920 * nsSecond,
		1780 * nsSecond, 1820 * nsSecond, 3700 * nsSecond, 86400 * nsSecond, 1000100 * nsSecond, 1 << 58}
	V += steps[r.Intn(len(steps))]
	if V > 1<<60 {
		V = 1 << 60
	}
	return h.stabilise(V)
}

func genBaseCase(h *H, r *vhlib.Rand) {
	h.opNew(pick(r, []string{"http", "udp"}), false, "dual")
	V := int64(r.Intn(1000)) * nsSecond
	for i, n := 0, 3+r.Intn(6); i < n; i++ {
		switch k := r.Intn(100); {
		case k < 25:
			t := "z"
			if r.Chance(85) {
				t = strconv.FormatInt(V-int64(r.Intn(4000))*nsSecond, 10)
			}
			h.opSet(t, baseIntervals[r.Intn(len(baseIntervals))])
		case k < 45:
			V = h.nextNow(r, V)
			h.opReady(V)
		case k < 65:
			V = h.nextNow(r, V)
			h.opState(V, h.texts)
		case k < 85:
			h.opUpd(baseIntervals[r.Intn(len(baseIntervals))], pick(r, []string{"nil", "parse", "action", "nil"}))
		case k < 93:
			h.opTryLock()
		default:
			h.opUnlock()
		}
		h.c.Count("base-op", "", false)
	}
	// leave no lock behind for the oracle of later cases (fresh tracker anyway)
}

func genHTTPCase(h *H, r *vhlib.Rand) {
	host := pick(r, []string{"dual", "dual", "dual", "v4", "v4", "v6", "none"})
	urlBad := r.Chance(3)
	h.opNew("http", urlBad, host)
	V := int64(1000+r.Intn(1000)) * nsSecond
	if r.Chance(30) {
		h.opSet(strconv.FormatInt(V-int64(r.Intn(4000))*nsSecond, 10), baseIntervals[r.Intn(len(baseIntervals))])
	}
	for i, n := 0, 2+r.Intn(4); i < n; i++ {
		switch k := r.Intn(100); {
		case k < 60:
			V = h.nextNow(r, V)
			r4, t4 := genHTTP(r)
			r6, t6 := genHTTP(r)
			if r.Chance(25) { // both families refuse, differently: the order of the writes matters
				r4.hang, r4.status, r4.body = false, 200, bdict(map[string][]byte{"failure reason": bstr([]byte("four")), "retry in": bstr([]byte(pick(r, retries)))})
				r6.hang, r6.status, r6.body = false, 200, bdict(map[string][]byte{"failure reason": bstr([]byte("six")), "retry in": bstr([]byte(pick(r, retries)))})
				t4, t6 = "failure", "failure"
			}
			proxy := r.Chance(12)
			h.opAhttp(V, proxy, r4, r6, r.PickInt(4, 6), t4+"/"+t6)
			if r.Chance(35) { // an immediate second announce must not reach the server
				r4, _ = genHTTP(r)
				h.opAhttp(V, false, r4, r4, 4, "again")
			}
		case k < 75:
			V = h.nextNow(r, V)
			h.opState(V, h.texts)
		case k < 82:
			V = h.nextNow(r, V)
			h.opReady(V)
		case k < 94:
			raw, t := genHTTP(r)
			h.opFhttp(r.PickInt(4, 6), raw, t)
		default:
			// somebody else holds the lock: Announce must refuse and leave it alone
			h.opTryLock()
			V = h.nextNow(r, V)
			r4, _ := genHTTP(r)
			h.opAhttp(V, false, r4, r4, 4, "locked")
			h.opState(V, h.texts)
			h.opUnlock()
		}
	}
}

func genUDPCase(h *H, r *vhlib.Rand) {
	host := pick(r, []string{"dual", "dual", "dual", "v4", "v4", "v6", "none"})
	urlBad := r.Chance(6)
	h.opNew("udp", urlBad, host)
	V := int64(1000+r.Intn(1000)) * nsSecond
	if r.Chance(30) {
		h.opSet(strconv.FormatInt(V-int64(r.Intn(4000))*nsSecond, 10), baseIntervals[r.Intn(len(baseIntervals))])
	}
	for i, n := 0, 2+r.Intn(4); i < n; i++ {
		switch k := r.Intn(100); {
		case k < 65:
			V = h.nextNow(r, V)
			s4, t4 := genUDP(r, 4, h.eekBad)
			s6, t6 := genUDP(r, 16, h.eekBad)
			h.opAudp(V, s4, s6, t4+"|"+t6)
			if r.Chance(35) {
				s4, _ = genUDP(r, 4, h.eekBad)
				h.opAudp(V, s4, udpScript{dial: true}, "again")
			}
		case k < 80:
			V = h.nextNow(r, V)
			h.opState(V, h.texts)
		case k < 90:
			V = h.nextNow(r, V)
			h.opReady(V)
		default:
			h.opTryLock()
			V = h.nextNow(r, V)
			s4, _ := genUDP(r, 4, h.eekBad)
			h.opAudp(V, s4, s4, "locked")
			h.opState(V, h.texts)
			h.opUnlock()
		}
	}
}

// manyPeers: a well-formed announce reply with k records
func manyPeers(r *vhlib.Rand, alen, k int) []byte {
	rest := make([]byte, 12)
	binary.BigEndian.PutUint32(rest[0:], uint32(r.PickInt(120, 600, 1800, 3600)))
	binary.BigEndian.PutUint32(rest[4:], uint32(r.Intn(100)))
	binary.BigEndian.PutUint32(rest[8:], uint32(r.Intn(100)))
	rest = append(rest, r.Bytes((alen+2)*k)...)
	return dgram(1, 0, rest)
}

// genConcUDPCase: both address families answer with their own peers; the exchanges overlap
func genConcUDPCase(h *H, r *vhlib.Rand) {
	h.opNew("udp", false, "dual")
	V := int64(1000+r.Intn(1000)) * nsSecond
	for i, n := 0, 1+r.Intn(2); i < n; i++ {
		V = h.nextNow(r, V)
		var s4, s6 udpScript
		if r.Chance(75) {
			s4 = udpScript{dial: true, connect: [][]byte{dgram(0, 0, r.Bytes(8))}, announce: [][]byte{manyPeers(r, 4, r.PickInt(0, 1, 2, 3, 5, 8, 20))}}
			s6 = udpScript{dial: true, connect: [][]byte{dgram(0, 0, r.Bytes(8))}, announce: [][]byte{manyPeers(r, 16, r.PickInt(0, 1, 2, 3, 5, 8))}}
			if r.Chance(20) { // a retransmission round first
				s6.connect = append([][]byte{r.Bytes(3)}, s6.connect...)
			}
		} else {
			s4, _ = genUDP(r, 4, h.eekBad)
			s6, _ = genUDP(r, 16, h.eekBad)
		}
		h.opAudp(V, s4, s6, "conc", r.PickInt(4, 6))
	}
	// one exchange after the other on the same process: a long reply, then a shorter one
	h.opFudp(4, udpScript{dial: true, connect: [][]byte{dgram(0, 0, r.Bytes(8))}, announce: [][]byte{manyPeers(r, 4, 6+r.Intn(10))}}, "seq-long")
	h.opFudp(4, udpScript{dial: true, connect: [][]byte{dgram(0, 0, r.Bytes(8))}, announce: [][]byte{manyPeers(r, 4, r.Intn(3))}}, "seq-short")
}

func (h *H) generate() {
	r := h.c.R
	// the known crash first, on the harness goroutine where it can be caught
	tid := uint32(0x01020304)
	var atts []string
	for i := 0; i < 4; i++ {
		atts = append(atts, "b"+hexs(dgram(0, tid^uint32(i+1), make([]byte, 8))))
	}
	nv := len(h.c.Rep.Violations)
	h.opRR(16, 0, tid, atts, "foreign4")
	h.eekBad = len(h.c.Rep.Violations) > nv
	for i := 0; i < h.c.N && hangs == 0; i++ {
		switch k := r.Intn(114); {
		case k >= 110:
			if h.ne.v6 {
				genConcUDPCase(h, r)
			} else {
				genTick(h, r)
			}
		case k >= 100:
			genTick(h, r)
		case k < 40:
			genRR(h, r)
		case k < 50:
			fam := r.PickInt(4, 6)
			alen := 4
			if fam == 6 {
				alen = 16
			}
			s, t := genUDP(r, alen, h.eekBad)
			h.opFudp(fam, s, t)
		case k < 60:
			genBaseCase(h, r)
		case k < 82:
			genHTTPCase(h, r)
		default:
			genUDPCase(h, r)
		}
	}
}
