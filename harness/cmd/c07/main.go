// vh c07: the four handshake functions (protocol.ClientHandshake / ServerHandshake, plain
// and with the MSE handshake) against every segmentation of the connection.
//
//   - live: real client against real server through hsnet.Duplex (buffered, two directions
//     re-segmented by a schedule: byte at a time, short reads of k bytes, cut points,
//     coalescing), early data both ways.  Oracle only (agreement, delivered exactly once).
//   - offline: each side again, alone, against the recorded stream of its peer cut into an
//     exact chunk list (hsnet.ChunkConn, epochs = causality), and against scripted peers
//     built with the independent MSE implementation of hsnet (all pad lengths, hostile
//     values).  Every offline run is an op line executed by the Lean model
//     (Handshake.run with the real SHA-1/RC4/DH written in Lean) and compared.
//
// Oracle (restates C07): for one byte stream, every segmentation gives the same outcome,
// the same values and the same `init ++ rest of the connection`; client and server agree;
// what the message layer reads is exactly what the peer sent after its handshake.
package main

import (
	"bytes"
	crand "crypto/rand"
	"crypto/rc4"
	"encoding/binary"
	"errors"
	"fmt"
	"io"
	"net"
	"os"
	"strconv"
	"strings"
	"time"

	"github.com/jech/storrent/crypto"
	"github.com/jech/storrent/hash"
	"github.com/jech/storrent/protocol"

	"verifharness/hsnet"
	"verifharness/vhlib"
)

func optsOf(b int) *crypto.Options {
	return &crypto.Options{
		AllowCryptoHandshake:  b&1 != 0,
		PreferCryptoHandshake: b&2 != 0,
		ForceCryptoHandshake:  b&4 != 0,
		AllowEncryption:       b&8 != 0,
		PreferEncryption:      b&16 != 0,
		ForceEncryption:       b&32 != 0,
	}
}

func bitsOf(o *crypto.Options) int {
	b := 0
	for i, v := range []bool{o.AllowCryptoHandshake, o.PreferCryptoHandshake, o.ForceCryptoHandshake,
		o.AllowEncryption, o.PreferEncryption, o.ForceEncryption} {
		if v {
			b |= 1 << i
		}
	}
	return b
}

func errClass(err error) string {
	switch {
	case err == nil:
		return "nil"
	case errors.Is(err, io.EOF), errors.Is(err, io.ErrUnexpectedEOF):
		return "eof"
	case errors.Is(err, os.ErrDeadlineExceeded):
		return "stall"
	case errors.Is(err, protocol.ErrBadHandshake):
		return "badHandshake"
	case errors.Is(err, protocol.ErrUnknownTorrent):
		return "unknownTorrent"
	}
	switch err.Error() {
	case "couldn't synchronise":
		return "sync"
	case "unexpected infoHash":
		return "unexpectedInfoHash"
	case "plaintext handshake forbidden":
		return "plaintextForbidden"
	case "crypto hash mismatch":
		return "cryptoHashMismatch"
	case "crypto handshake forbidden":
		return "cryptoForbidden"
	case "peer returned trivial public key", "peer sent trivial public key":
		return "trivialKey"
	case "unknown torrent":
		return "mseUnknownTorrent"
	case "bad VC":
		return "badVC"
	case "peer didn't provide a known crypto algorithm":
		return "noKnownAlgo"
	case "extra data after handshake":
		return "extraData"
	case "couldn't negotiate encryption":
		return "cantNegotiate"
	case "peer didn't negotiate encryption":
		return "peerDidntNegotiate"
	case "peer did negotiate encryption":
		return "peerDidNegotiate"
	case "bad value for cryptoSelect":
		return "badSelect"
	}
	return "other:" + strings.ReplaceAll(err.Error(), " ", "_")
}

func b2s(b bool) string {
	if b {
		return "1"
	}
	return "0"
}

// ---------------------------------------------------------------- offline runs

type params struct {
	role   string // pc | mc | sv
	o      int
	ih, id hash.Hash       // client roles
	hashes []hash.HashPair // server role
	rnd    [][]byte        // crypto/rand reads served to the function: x(20), lbuf(2), pad
	// watchdog of the offline connection; shortened only for streams built to make the
	// function wait for a peer that waits for it (outcome `stall`)
	watchdog time.Duration
}

type outcome struct {
	obs       string // observation line (compared with the model)
	sum       string // what the oracle compares across segmentations
	ok        bool
	rc4       bool
	res       protocol.HandshakeResult
	delivered []byte // init ++ everything subsequently readable from the returned conn
	class     string
	writes    [][]byte
}

func (p *params) x() []byte {
	if len(p.rnd) > 0 {
		return p.rnd[0]
	}
	return nil
}
func (p *params) pad() []byte {
	if len(p.rnd) > 2 {
		return p.rnd[2]
	}
	return nil
}

func encSizes(sz []int) string {
	if len(sz) == 0 {
		return "-"
	}
	var parts []string
	for i := 0; i < len(sz); {
		j := i
		for j < len(sz) && sz[j] == sz[i] {
			j++
		}
		if j-i > 1 {
			parts = append(parts, fmt.Sprintf("%dx%d", sz[i], j-i))
		} else {
			parts = append(parts, strconv.Itoa(sz[i]))
		}
		i = j
	}
	return strings.Join(parts, ",")
}

func hashesStr(hs []hash.HashPair) string {
	if len(hs) == 0 {
		return "-"
	}
	var parts []string
	for _, h := range hs {
		parts = append(parts, vhlib.Hex(h.First)+":"+vhlib.Hex(h.Second))
	}
	return strings.Join(parts, ",")
}

func opLine(p *params, epochs [][]byte, sizes [][]int) string {
	var ep, ch []string
	for i, e := range epochs {
		ep = append(ep, vhlib.Hex(e))
		ch = append(ch, encSizes(sizes[i]))
	}
	tail := fmt.Sprintf("ep=%s ch=%s", strings.Join(ep, ";"), strings.Join(ch, ";"))
	switch p.role {
	case "pc":
		return fmt.Sprintf("pc o=%d ih=%s id=%s %s", p.o, vhlib.Hex(p.ih), vhlib.Hex(p.id), tail)
	case "mc":
		return fmt.Sprintf("mc o=%d ih=%s id=%s x=%s pad=%s %s", p.o, vhlib.Hex(p.ih), vhlib.Hex(p.id),
			vhlib.Hex(p.x()), vhlib.Hex(p.pad()), tail)
	}
	return fmt.Sprintf("sv o=%d hs=%s x=%s pad=%s %s", p.o, hashesStr(p.hashes), vhlib.Hex(p.x()),
		vhlib.Hex(p.pad()), tail)
}

func runOffline(p *params, epochs [][]byte, sizes [][]int) outcome {
	var eps [][][]byte
	for i, e := range epochs {
		eps = append(eps, hsnet.Cut(e, sizes[i]))
	}
	cc := hsnet.NewChunkConn(eps)
	if p.watchdog > 0 {
		cc.Watchdog = p.watchdog
	} else if unexpectedStalls > 8 {
		// the code under test evidently waits where it should not; do not spend the
		// generous watchdog on every further case
		cc.Watchdog = 300 * time.Millisecond
	}
	dr := hsnet.NewDetRand(99)
	for _, r := range p.rnd {
		dr.Preload = append(dr.Preload, r)
	}
	crand.Reader = dr
	var conn net.Conn
	var res protocol.HandshakeResult
	var init []byte
	var err error
	pan := vhlib.Recover(func() {
		switch p.role {
		case "pc":
			conn, res, init, err = protocol.ClientHandshake(cc, false, p.ih, p.id, optsOf(p.o))
		case "mc":
			conn, res, init, err = protocol.ClientHandshake(cc, true, p.ih, p.id, optsOf(p.o))
		default:
			conn, res, init, err = protocol.ServerHandshake(cc, p.hashes, optsOf(p.o))
		}
	})
	if cc.Stalled && p.watchdog == 0 {
		unexpectedStalls++
	}
	var out outcome
	if pan != "" {
		out.class = "panic"
		out.obs = "err panic"
		out.sum = "err panic"
		return out
	}
	if err != nil {
		out.class = errClass(err)
		out.obs = "err " + out.class
		out.sum = out.obs
		return out
	}
	_, out.rc4 = conn.(*crypto.Conn)
	cc.ReleaseAll()
	rest, _ := io.ReadAll(conn)
	w := cc.Written()
	out.ok = true
	out.res = res
	out.writes = cc.Writes
	out.delivered = append(append([]byte(nil), init...), rest...)
	caps := b2s(res.Dht) + b2s(res.Fast) + b2s(res.Extended)
	head := fmt.Sprintf("ok h=%s id=%s caps=%s rc4=%s", vhlib.Hex(res.Hash), vhlib.Hex(res.Id), caps, b2s(out.rc4))
	out.obs = fmt.Sprintf("%s init=%s rest=%s w=%s nw=%d", head, vhlib.Payload(init), vhlib.Payload(rest),
		vhlib.Payload(w), len(cc.Writes))
	out.sum = fmt.Sprintf("%s delivered=%s w=%s", head, vhlib.Payload(out.delivered), vhlib.Payload(w))
	return out
}

// modelObs is what the model prints: errors carry no write log (asynchronous writes of a
// failing handshake are not awaited by the Go code).
func modelObs(o outcome) string { return o.obs }

// ---------------------------------------------------------------- chunking schedules

type schedule struct {
	name  string
	sizes func(epoch int, l int) []int
}

func every(k int) func(int, int) []int {
	return func(_ int, l int) []int {
		if l == 0 {
			return nil
		}
		n := (l + k - 1) / k
		s := make([]int, n)
		for i := range s {
			s[i] = k
		}
		return s
	}
}

func schedules(c *vhlib.Ctx, total int) []schedule {
	r := c.R
	ss := []schedule{
		{"whole", func(int, int) []int { return nil }},
		{"k1", every(1)},
		{"k7", every(7)},
		{fmt.Sprintf("k%d", 2+r.Intn(120)), nil},
	}
	k := 2 + r.Intn(120)
	ss[3].name = fmt.Sprintf("k%d", k)
	ss[3].sizes = every(k)
	// single cut points (positions counted over all epochs)
	ncut := 3
	if c.Tier == "thorough" {
		ncut = 12
	}
	for i := 0; i < ncut; i++ {
		p := 1
		if total > 1 {
			p = 1 + r.Intn(total-1)
		}
		ss = append(ss, schedule{fmt.Sprintf("cut%d", p), nil})
	}
	// random cuts
	for i := 0; i < 2; i++ {
		seed := r.U64()
		max := r.PickInt(3, 20, 100, 700)
		ss = append(ss, schedule{"rand", func(ep int, l int) []int {
			rr := vhlib.NewRand(seed + uint64(ep))
			var s []int
			for n := 0; n < l; {
				k := 1 + rr.Intn(max)
				s = append(s, k)
				n += k
			}
			return s
		}})
	}
	return ss
}

// sizesFor expands a schedule over the epochs (single cuts are positions in the whole stream)
func sizesFor(s schedule, epochs [][]byte) [][]int {
	out := make([][]int, len(epochs))
	if strings.HasPrefix(s.name, "cut") {
		p, _ := strconv.Atoi(s.name[3:])
		for i, e := range epochs {
			if p > 0 && p < len(e) {
				out[i] = []int{p}
			}
			p -= len(e)
		}
		return out
	}
	for i, e := range epochs {
		out[i] = s.sizes(i, len(e))
	}
	return out
}

// mergeAll puts every epoch into epoch 0 (a peer that does not wait).
func mergeAll(eps [][]byte) [][]byte {
	var all []byte
	for _, e := range eps {
		all = append(all, e...)
	}
	return [][]byte{all}
}

func totalLen(eps [][]byte) int {
	n := 0
	for _, e := range eps {
		n += len(e)
	}
	return n
}

// offlineFamily runs one (params, epochs) under every schedule, emits the op lines and
// checks that the outcome does not depend on the segmentation.  `expect` (optional) is
// the outcome summary the stream must produce; `oracle` false = ambiguous by construction.
func offlineFamily(c *vhlib.Ctx, tag string, p *params, epochs [][]byte, oracle bool, check func(o outcome) (string, string)) (first outcome) {
	var ref *outcome
	var refOp string
	for _, s := range schedules(c, totalLen(epochs)) {
		sz := sizesFor(s, epochs)
		op := opLine(p, epochs, sz)
		o := runOffline(p, epochs, sz)
		c.NewCase()
		c.Emit(op, modelObs(o))
		cls := o.class
		if o.ok {
			cls = "ok"
			if o.rc4 {
				cls = "ok-rc4"
			}
		}
		c.Count(p.role+"/"+tag+"/"+cls, fmt.Sprintf("%s %s o=%d %s", p.role, tag, p.o, o.sum), true)
		c.Count("sched/"+strings.TrimRight(s.name, "0123456789"), "", false)
		if ref == nil {
			oc := o
			ref = &oc
			refOp = op
			first = o
			if check != nil {
				if kind, detail := check(o); kind != "" {
					c.Violate(kind, detail, []string{op})
				}
			}
			continue
		}
		if oracle && o.sum != ref.sum {
			c.Violate(fmt.Sprintf("segmentation:%s:%s:%s-vs-%s", p.role, tag, short(ref.sum), short(o.sum)),
				fmt.Sprintf("same byte stream, chunking %s: %s ; chunking whole: %s", s.name, o.sum, ref.sum),
				[]string{refOp, op})
		}
	}
	return
}

func short(sum string) string {
	f := strings.Fields(sum)
	if len(f) >= 2 && f[0] == "err" {
		return f[1]
	}
	return f[0]
}

// ---------------------------------------------------------------- live runs

type spec struct {
	kind           string // plain | mse
	oc, os         int
	hashes         []hash.HashPair
	ih, idc        hash.Hash
	earlyC, earlyS []byte
}

type sideOut struct {
	ok        bool
	class     string
	res       protocol.HandshakeResult
	rc4       bool
	delivered []byte
	pan       string
}

type liveOut struct {
	c, s   sideOut
	tapCS  []byte
	tapSC  []byte
	events []hsnet.Event
	rnd    [][]byte
	hung   bool
}

func runLive(sp *spec, cs, sc hsnet.Sched, seed uint64) liveOut {
	dr := hsnet.NewDetRand(seed)
	crand.Reader = dr
	d := hsnet.NewDuplex(cs, sc) // A = client, B = server
	var lo liveOut
	done := make(chan int, 2)
	go func() {
		defer func() { done <- 0 }()
		var conn net.Conn
		var init []byte
		var err error
		lo.c.pan = vhlib.Recover(func() {
			conn, lo.c.res, init, err = protocol.ClientHandshake(d.A, sp.kind == "mse", sp.ih, sp.idc, optsOf(sp.oc))
		})
		if lo.c.pan != "" || err != nil {
			lo.c.class = errClass(err)
			d.A.Close()
			return
		}
		lo.c.ok = true
		_, lo.c.rc4 = conn.(*crypto.Conn)
		conn.Write(sp.earlyC)
		d.A.CloseWrite()
		rest, _ := io.ReadAll(conn)
		lo.c.delivered = append(append([]byte(nil), init...), rest...)
	}()
	go func() {
		defer func() { done <- 1 }()
		var conn net.Conn
		var init []byte
		var err error
		lo.s.pan = vhlib.Recover(func() {
			conn, lo.s.res, init, err = protocol.ServerHandshake(d.B, sp.hashes, optsOf(sp.os))
		})
		if lo.s.pan != "" || err != nil {
			lo.s.class = errClass(err)
			d.B.Close()
			return
		}
		lo.s.ok = true
		_, lo.s.rc4 = conn.(*crypto.Conn)
		conn.Write(sp.earlyS)
		d.B.CloseWrite()
		rest, _ := io.ReadAll(conn)
		lo.s.delivered = append(append([]byte(nil), init...), rest...)
	}()
	timeout := time.After(8 * time.Second)
	for i := 0; i < 2; i++ {
		select {
		case <-done:
		case <-timeout:
			lo.hung = true
			d.A.Close()
			d.B.Close()
			// give the goroutines a moment to notice
			time.Sleep(200 * time.Millisecond)
			return lo
		}
	}
	lo.tapCS, lo.tapSC = d.TapAB(), d.TapBA()
	lo.events = d.Log.Events()
	lo.rnd = dr.Log
	return lo
}

func (s sideOut) sum() string {
	if s.pan != "" {
		return "panic"
	}
	if !s.ok {
		return "fail"
	}
	return fmt.Sprintf("ok h=%s id=%s caps=%s%s%s rc4=%s delivered=%s", vhlib.Hex(s.res.Hash), vhlib.Hex(s.res.Id),
		b2s(s.res.Dht), b2s(s.res.Fast), b2s(s.res.Extended), b2s(s.rc4), vhlib.Payload(s.delivered))
}

func specStr(sp *spec) string {
	return fmt.Sprintf("kind=%s oc=%d os=%d nh=%d ec=%d es=%d", sp.kind, sp.oc, sp.os, len(sp.hashes), len(sp.earlyC), len(sp.earlyS))
}

// agreement: the property's second sentence, on one live run
func checkAgreement(c *vhlib.Ctx, sp *spec, lo liveOut, sched string, ops []string) {
	kindp := sp.kind + ":" + sched
	if lo.hung {
		c.Violate("hang:live:"+kindp, "handshake did not finish within the watchdog: "+specStr(sp), ops)
		return
	}
	if lo.c.pan != "" || lo.s.pan != "" {
		c.Violate("panic:live:"+kindp, lo.c.pan+" / "+lo.s.pan+" "+specStr(sp), ops)
		return
	}
	if lo.c.ok != lo.s.ok {
		c.Violate("disagree:outcome:"+kindp, fmt.Sprintf("client ok=%v (%s) server ok=%v (%s) %s", lo.c.ok, lo.c.class, lo.s.ok, lo.s.class, specStr(sp)), ops)
		return
	}
	if !lo.c.ok {
		return
	}
	var sid hash.Hash
	for _, h := range sp.hashes {
		if bytes.Equal(h.First, sp.ih) {
			sid = h.Second
			break
		}
	}
	bad := ""
	switch {
	case !bytes.Equal(lo.c.res.Hash, lo.s.res.Hash) || !bytes.Equal(lo.c.res.Hash, sp.ih):
		bad = "hash"
	case !bytes.Equal(lo.s.res.Id, sp.idc) || !bytes.Equal(lo.c.res.Id, sid):
		bad = "id"
	case !(lo.c.res.Dht && lo.c.res.Fast && lo.c.res.Extended && lo.s.res.Dht && lo.s.res.Fast && lo.s.res.Extended):
		bad = "caps"
	case lo.c.rc4 != lo.s.rc4:
		bad = "mode"
	case !bytes.Equal(lo.c.delivered, sp.earlyS):
		bad = "delivered-to-client"
	case !bytes.Equal(lo.s.delivered, sp.earlyC):
		bad = "delivered-to-server"
	}
	if bad != "" {
		c.Violate("disagree:"+bad+":"+kindp, fmt.Sprintf("client %s | server %s | %s", lo.c.sum(), lo.s.sum(), specStr(sp)), ops)
	}
}

var earlyLens = []int{0, 0, 1, 5, 67, 68, 100, 1000, 1024, 5000}

func genSpec(c *vhlib.Ctx, i int) *spec {
	r := c.R
	sp := &spec{}
	if r.Bool() {
		sp.kind = "mse"
	} else {
		sp.kind = "plain"
	}
	pickOpts := func() int {
		switch r.Intn(4) {
		case 0:
			return bitsOf(crypto.DefaultOptions(false, false))
		case 1:
			return bitsOf(crypto.DefaultOptions(true, false))
		case 2:
			return bitsOf(crypto.DefaultOptions(true, true))
		}
		return r.Intn(64)
	}
	sp.oc, sp.os = pickOpts(), pickOpts()
	if r.Chance(60) {
		// make success possible: allow what the kind needs
		if sp.kind == "mse" {
			sp.oc |= 1
			sp.os |= 1
		} else {
			sp.os &^= 4
		}
	}
	nh := 1 + r.Intn(3)
	for j := 0; j < nh; j++ {
		sp.hashes = append(sp.hashes, hash.HashPair{First: r.Bytes(20), Second: r.Bytes(20)})
	}
	sp.ih = sp.hashes[r.Intn(nh)].First
	if r.Chance(8) {
		sp.ih = r.Bytes(20) // unknown torrent
	}
	sp.idc = r.Bytes(20)
	sp.earlyC = r.Bytes(earlyLens[r.Intn(len(earlyLens))])
	sp.earlyS = r.Bytes(earlyLens[r.Intn(len(earlyLens))])
	if i%25 == 7 {
		sp.earlyC = r.Bytes(65536)
	}
	if i%25 == 19 {
		sp.earlyS = r.Bytes(65536 + 17)
	}
	return sp
}

// splitRnd: the crypto/rand reads of a live MSE run, in causal order: client x, lbuf,
// [pad], then server x, lbuf, [pad].
func splitRnd(log [][]byte) (cl, sv [][]byte) {
	take := func() [][]byte {
		var o [][]byte
		if len(log) >= 2 && len(log[0]) == 20 && len(log[1]) == 2 {
			o = append(o, log[0], log[1])
			n := int(log[1][0]&1)<<8 | int(log[1][1])
			log = log[2:]
			if n > 0 && len(log) > 0 && len(log[0]) == n {
				o = append(o, log[0])
				log = log[1:]
			}
		}
		return o
	}
	cl = take()
	sv = take()
	return
}

func liveCase(c *vhlib.Ctx, i int) {
	liveCaseWith(c, genSpec(c, i), c.R.U64(), "")
}

func liveCaseWith(c *vhlib.Ctx, sp *spec, seed uint64, label string) {
	op := "live " + specStr(sp) + fmt.Sprintf(" seed=%d", seed)
	ref := runLive(sp, hsnet.Sched{}, hsnet.Sched{}, seed)
	c.NewCase()
	c.Emit(op, "x")
	cls := "fail"
	if ref.c.ok && ref.s.ok {
		cls = "ok"
		if ref.c.rc4 {
			cls = "ok-rc4"
		}
	}
	c.Count("live/"+sp.kind+label+"/"+cls, op, true)
	if label != "" && !(ref.c.ok && ref.s.ok) {
		// DefaultOptions on both ends, a torrent the server has: the pair must connect
		c.Violate("interop:live:honest-pair-rejected:"+strings.TrimPrefix(label, "-"), fmt.Sprintf("client %s (%s) server %s (%s) %s", ref.c.sum(), ref.c.class, ref.s.sum(), ref.s.class, specStr(sp)), []string{op})
	}
	checkAgreement(c, sp, ref, "whole", []string{op})
	if ref.hung {
		return
	}
	// the same handshake under other segmentations of both directions
	r := c.R
	scheds := []struct {
		n      string
		cs, sc hsnet.Sched
	}{
		{"k1", hsnet.Sched{MaxRead: 1}, hsnet.Sched{MaxRead: 1}},
		{"k7", hsnet.Sched{MaxRead: 7}, hsnet.Sched{MaxRead: 7}},
		{"mixed", hsnet.Sched{MaxRead: 1 + r.Intn(200)}, hsnet.Sched{Cuts: []int{1 + r.Intn(700)}, Settle: 2}},
		{"coalesce", hsnet.Sched{Settle: 3}, hsnet.Sched{Settle: 3}},
	}
	if len(sp.earlyC)+len(sp.earlyS) > 20000 {
		scheds = scheds[1:] // byte-at-a-time over 64 KiB of early data: k7 is enough
	}
	for _, s := range scheds {
		lo := runLive(sp, s.cs, s.sc, seed)
		c.Count("live-sched/"+s.n, "", false)
		checkAgreement(c, sp, lo, s.n, []string{op})
		if lo.hung {
			continue
		}
		if lo.c.sum() != ref.c.sum() || lo.s.sum() != ref.s.sum() {
			c.Violate(fmt.Sprintf("segmentation:live:%s:%s", sp.kind, s.n),
				fmt.Sprintf("schedule %s: client %s server %s ; whole writes: client %s server %s ; %s", s.n, lo.c.sum(), lo.s.sum(), ref.c.sum(), ref.s.sum(), specStr(sp)),
				[]string{op})
		}
	}
	// each side again, offline, on the recorded stream of its peer
	rc, rs := splitRnd(ref.rnd)
	role := "pc"
	if sp.kind == "mse" {
		role = "mc"
	}
	pcl := &params{role: role, o: sp.oc, ih: sp.ih, id: sp.idc, rnd: rc}
	psv := &params{role: "sv", o: sp.os, hashes: sp.hashes, rnd: rs}
	if sp.kind == "plain" {
		pcl.rnd, psv.rnd = nil, nil
	} else if len(rs) == 0 {
		psv.rnd = nil
	}
	epC := hsnet.EpochsFor(ref.events, ref.tapSC, 'B', 'A') // what the client reads
	epS := hsnet.EpochsFor(ref.events, ref.tapCS, 'A', 'B') // what the server reads
	against := func(side sideOut, who string) func(o outcome) (string, string) {
		return func(o outcome) (string, string) {
			if o.ok != side.ok {
				return "segmentation:offline-vs-live:" + who + ":" + sp.kind, fmt.Sprintf("offline %s ; live %s ; %s", o.sum, side.sum(), specStr(sp))
			}
			if o.ok && (o.rc4 != side.rc4 || !bytes.Equal(o.delivered, side.delivered) || !bytes.Equal(o.res.Id, side.res.Id) || !bytes.Equal(o.res.Hash, side.res.Hash)) {
				return "segmentation:offline-vs-live:" + who + ":" + sp.kind, fmt.Sprintf("offline %s ; live %s ; %s", o.sum, side.sum(), specStr(sp))
			}
			return "", ""
		}
	}
	offlineFamily(c, "real-"+sp.kind+label, pcl, epC, true, against(ref.c, "client"))
	offlineFamily(c, "real-"+sp.kind+label, psv, epS, true, against(ref.s, "server"))
	// a peer that does not wait: everything in one epoch (the client never tests for surplus;
	// the plain server neither).  For the MSE server only epochs up to IA may be merged.
	if r.Chance(50) {
		offlineFamily(c, "real-merged-"+sp.kind+label, pcl, mergeAll(epC), true, against(ref.c, "client"))
		if sp.kind == "plain" {
			offlineFamily(c, "real-merged-"+sp.kind+label, psv, mergeAll(epS), true, against(ref.s, "server"))
		} else if len(epS) >= 2 {
			m := append([][]byte{append(append([]byte(nil), epS[0]...), epS[1]...)}, epS[2:]...)
			offlineFamily(c, "real-merged-"+sp.kind+label, psv, m, true, against(ref.s, "server"))
		}
	}
}

// ---------------------------------------------------------------- forced leading zero bytes
//
// MSE sends and hashes big integers in a FIXED width of 96 bytes (Ya, Yb on the wire; S into
// req1/req3/keyA/keyB).  With random keys a leading zero byte occurs once in 256 runs, so it is
// forced here: private keys are searched (a few hundred modular exponentiations) such that
// the shared secret or a public key starts with one zero byte, and constants found offline
// give two.

func lz(b []byte) int {
	n := 0
	for n < len(b) && b[n] == 0 {
		n++
	}
	return n
}

func findX(r *vhlib.Rand, pred func(x []byte) bool) []byte {
	for i := 0; i < 4000; i++ {
		x := r.Bytes(20)
		if pred(x) {
			return x
		}
	}
	return nil
}

// S = g^(lzXa*lzXb) has two leading zero bytes; g^lzPub2 has two leading zero bytes
var (
	lzXa    = vhlib.UnHex("bf92fc5f0cec3bdb4eeaa2a223245a88daefe920")
	lzXb    = vhlib.UnHex("4fd2e9de17db483cca2a74823777cb5245713338")
	lzPub2  = vhlib.UnHex("aeba03b0dada0a0d73ae8306db4605fa3a2e091e")
	nLzSv   int
	nLzMc   int
	lzNames = []string{"", "-lzS1", "-lzPeerPub1", "-lzOwnPub1", "-lzS2", "-lzOwnPub2"}
)

// forceZeros picks the secrets of one scripted case: `own` is the secret of the real code
// under test (served to it through crypto/rand), `peer` the scripted peer's.
func forceZeros(r *vhlib.Rand, mode int, own, peer []byte) (o, p []byte, ok bool) {
	switch mode {
	case 1: // S with a leading zero byte
		ownPub := hsnet.MsePub(own)
		if x := findX(r, func(x []byte) bool { return lz(hsnet.MseShared(x, ownPub)) >= 1 }); x != nil {
			return own, x, true
		}
	case 2: // the peer's public key with a leading zero byte
		if x := findX(r, func(x []byte) bool { return lz(hsnet.MsePub(x)) >= 1 }); x != nil {
			return own, x, true
		}
	case 3: // the public key of the code under test with a leading zero byte
		if x := findX(r, func(x []byte) bool { return lz(hsnet.MsePub(x)) >= 1 }); x != nil {
			return x, peer, true
		}
	case 4:
		return lzXa, lzXb, lz(hsnet.MseShared(lzXa, hsnet.MsePub(lzXb))) >= 2
	case 5:
		return lzPub2, peer, lz(hsnet.MsePub(lzPub2)) >= 2
	}
	return own, peer, false
}

// lzSeed searches a crypto/rand seed for a live real-vs-real run in which the property holds
// (what: 0 = S, 1 = the client's Ya, 2 = the server's Yb starts with a zero byte).
func lzSeed(r *vhlib.Rand, what int) (uint64, bool) {
	for i := 0; i < 3000; i++ {
		seed := r.U64()
		dr := hsnet.NewDetRand(seed)
		xa, lb := make([]byte, 20), make([]byte, 2)
		dr.Read(xa)
		dr.Read(lb)
		if n := int(lb[0]&1)<<8 | int(lb[1]); n > 0 {
			dr.Read(make([]byte, n))
		}
		xb := make([]byte, 20)
		dr.Read(xb)
		ya, yb := hsnet.MsePub(xa), hsnet.MsePub(xb)
		switch what {
		case 0:
			if lz(hsnet.MseShared(xa, yb)) >= 1 {
				return seed, true
			}
		case 1:
			if lz(ya) >= 1 {
				return seed, true
			}
		default:
			if lz(yb) >= 1 {
				return seed, true
			}
		}
	}
	return 0, false
}

func liveZeroCase(c *vhlib.Ctx, what int) {
	seed, ok := lzSeed(c.R, what)
	if !ok {
		c.Note("no crypto/rand seed with a leading zero byte found")
		return
	}
	r := c.R
	h := hash.HashPair{First: r.Bytes(20), Second: r.Bytes(20)}
	o := bitsOf(crypto.DefaultOptions(r.Bool(), false))
	sp := &spec{kind: "mse", oc: o, os: bitsOf(crypto.DefaultOptions(r.Bool(), false)), hashes: []hash.HashPair{h},
		ih: h.First, idc: r.Bytes(20), earlyC: r.Bytes(100), earlyS: r.Bytes(67)}
	liveCaseWith(c, sp, seed, []string{"-lzS", "-lzYa", "-lzYb"}[what])
	// an honest pair with a leading zero must connect
	c.Count("live-lz/"+[]string{"S", "Ya", "Yb"}[what], "", false)
}

// ---------------------------------------------------------------- scripted peers

func lbufFor(n int) []byte { return []byte{byte(n >> 8), byte(n)} }

func mkRnd(r *vhlib.Rand, padLen int) [][]byte {
	x := r.Bytes(20)
	rnd := [][]byte{x, lbufFor(padLen)}
	if padLen > 0 {
		rnd = append(rnd, r.Bytes(padLen))
	}
	return rnd
}

func handshakeBytes(reserved []byte, ih, id []byte) []byte {
	hs := []byte{19}
	hs = append(hs, "BitTorrent protocol"...)
	hs = append(hs, reserved...)
	hs = append(hs, ih...)
	hs = append(hs, id...)
	return hs
}

var stdReserved = []byte{0, 0, 0, 0, 0, 0x10, 0, 0x05}

// pad lengths: the real code draws 9 bits (0..511); a scripted peer may use up to 512
func pickPad(r *vhlib.Rand) int     { return r.PickInt(0, 0, 1, 2, 100, 300, 510, 511) }
func pickPeerPad(r *vhlib.Rand) int { return r.PickInt(0, 0, 1, 2, 100, 300, 511, 512) }

var nPipelined, nStall, unexpectedStalls int

// scripted MSE client against the real server
func scriptedServerCase(c *vhlib.Ctx) {
	r := c.R
	nh := 1 + r.Intn(3)
	var hashes []hash.HashPair
	for j := 0; j < nh; j++ {
		hashes = append(hashes, hash.HashPair{First: r.Bytes(20), Second: r.Bytes(20)})
	}
	if r.Chance(2) {
		hashes[r.Intn(nh)].First = r.Bytes(19) // mis-sized hash in the server's table: Hash.Equal panics
	}
	skey := hashes[r.Intn(nh)].First
	o := r.Intn(64) | 1
	if r.Chance(50) {
		o = bitsOf(crypto.DefaultOptions(r.Bool(), r.Bool()))
	}
	if r.Chance(5) {
		o &^= 1
	}
	p := &params{role: "sv", o: o, hashes: hashes, rnd: mkRnd(r, pickPad(r))}
	xa := r.Bytes(20)
	ya := hsnet.MsePub(xa)
	yb := hsnet.MsePub(p.x())
	S := hsnet.MseShared(xa, yb)
	mut := r.PickInt(0, 0, 0, 0, 0, 0, 1, 2, 3, 4, 5, 6, 7, 8, 9, 10, 11, 12, 13, 14)
	lzTag := ""
	if mut == 0 {
		// fixed-width big integers: the first honest cases of a run force leading zero bytes in
		// S / Ya / Yb (one and two), later ones now and then
		nLzSv++
		mode := 0
		if nLzSv <= 5 {
			mode = nLzSv
			p.o = bitsOf(crypto.DefaultOptions(r.Bool(), false)) // a policy that connects
		} else if r.Chance(10) {
			mode = 1 + r.Intn(5)
		}
		if own, peer, ok := forceZeros(r, mode, p.x(), xa); ok {
			p.rnd[0], xa = own, peer
			ya, yb = hsnet.MsePub(xa), hsnet.MsePub(p.x())
			S = hsnet.MseShared(xa, yb)
			lzTag = lzNames[mode]
		}
	}
	tag := "script"
	oracle := true
	padA := pickPeerPad(r)
	vc := make([]byte, 8)
	provide := r.PickU32(1, 2, 3, 3, 3, 0x102, 0xffffffff)
	padC := r.PickInt(0, 0, 0, 1, 50, 512)
	idc := r.Bytes(20)
	reserved := stdReserved
	if r.Chance(40) {
		reserved = r.Bytes(8)
	}
	hsHash := skey
	// len(IA): the MSE initial payload may hold any prefix of what the initiator has to say —
	// nothing, part of the BitTorrent handshake (the rest follows after the crypto handshake),
	// exactly the handshake (what storrent's client sends), or the handshake plus the first
	// message(s) or a fragment of one
	iaCut := r.PickInt(68, 68, 68, 0, 1, 19, 20, 21, 47, 48, 67, 69, 100, 68+1+r.Intn(300), 68+r.Intn(4096))
	early := r.Bytes(earlyLens[r.Intn(len(earlyLens))])
	pipelined := false
	switch mut {
	case 1:
		tag, vc = "bad-vc", []byte{0, 0, 0, 0, 0, 0, 0, 1}
	case 2:
		tag, provide = "provide-none", r.PickU32(0, 4, 0x100)
	case 3:
		tag, skey = "unknown-skey", r.Bytes(20)
		hsHash = skey
	case 4:
		tag = "hash-mismatch"
		hsHash = r.Bytes(20) // a torrent the server does not have …
		for _, h := range hashes {
			if !bytes.Equal(h.First, skey) && len(h.First) == 20 {
				hsHash = h.First // … or another one it has
			}
		}
	case 5:
		tag = "trivial-key"
		ya = make([]byte, 96)
		ya[95] = byte(r.Intn(2))
	case 6:
		tag, padA, oracle = "pad-over-512", r.PickInt(513, 573, 592, 593, 700, 1400), false
	case 7:
		// bounded number per run: the outcome is known to depend on the segmentation here
		// (C07_mse_server_full_refuted), a handful of cases documents it
		if nPipelined < 6 {
			nPipelined++
			tag, pipelined, oracle = "pipelined-after-IA", true, true
		}
	case 8:
		tag = "bad-header-in-IA"
	case 9:
		tag = "truncated"
	case 10:
		tag, padC = "padC-big", r.PickInt(513, 514, 515, 600, 2000)
	case 11:
		tag = "no-marker"
	case 12:
		tag, iaCut = "ia-short", r.PickInt(0, 1, 19, 20, 21, 47, 48)
	case 13:
		tag = "plain-header-prefix" // first 19 bytes of a BitTorrent header, then garbage: goes to MSE
	case 14:
		tag = "unknown-hash-in-IA"
	}
	encA := hsnet.MseStream("keyA", S, skey)
	hs := handshakeBytes(reserved, hsHash, idc)
	if mut == 8 {
		hs[1+r.Intn(19)] ^= 0x20
	}
	// everything the initiator has to say: the handshake, then `early`; IA is a prefix of it
	if iaCut > len(hs)+len(early) {
		early = append(early, r.Bytes(iaCut-len(hs)-len(early))...)
	}
	full := append(append([]byte(nil), hs...), early...)
	ia := full[:iaCut]
	e0 := append(append([]byte(nil), ya...), r.Bytes(padA)...)
	if mut == 13 {
		copy(e0, handshakeBytes(stdReserved, skey, idc)[:19])
		S = hsnet.MseShared(p.x(), e0[:96]) // the server computes S from what it received
		encA = hsnet.MseStream("keyA", S, skey)
	}
	msg3 := hsnet.ClientMsg3(encA, S, skey, vc, provide, r.Bytes(padC), ia, len(ia))
	if mut == 11 {
		msg3[r.Intn(20)] ^= 1
	}
	if mut == 14 {
		// skey known but the handshake inside IA names another (unknown) torrent: needs a
		// consistent skey, so instead corrupt the server's table entry for skey after the fact
		tag = "script"
	}
	e1 := msg3
	if pipelined {
		e1 = append(append([]byte(nil), msg3...), r.Bytes(1+r.Intn(40))...)
	}
	epochs := [][]byte{e0, e1}
	if mut == 9 {
		all := append(append([]byte(nil), e0...), e1...)
		all = all[:r.Intn(len(all))]
		epochs = [][]byte{all}
	}
	// phase 1: learn what the server selects (from its own reply, decrypted independently)
	probe := runOfflineQuiet(p, epochs)
	sel := uint32(0)
	if len(probe) >= 2 && len(probe[1]) == 14 {
		encB := hsnet.MseStream("keyB", S, skey)
		m4 := hsnet.Crypt(encB, probe[1])
		sel = binary.BigEndian.Uint32(m4[8:12])
	}
	// after the server's answer: the rest of the BitTorrent handshake, then early data
	if mut != 9 && sel != 0 {
		tail := append([]byte(nil), full[iaCut:]...)
		if sel == 2 {
			tail = hsnet.Crypt(encA, tail) // encA has been advanced by ClientMsg3
		}
		// the reply is two writes (crypto_select, then the BitTorrent handshake) when IA held the
		// whole handshake; put the tail after the first of them or after the second
		if iaCut >= 68 && r.Bool() {
			epochs = append(epochs, nil, tail)
		} else {
			epochs = append(epochs, tail)
		}
	}
	tableOK := true
	for _, h := range hashes {
		if len(h.First) != 20 {
			tableOK = false
		}
	}
	exp := func(o outcome) (string, string) {
		// an honest client built from the specification must be accepted unless the server's
		// policy refuses it
		if tag == "script" && tableOK && p.o&1 != 0 && !o.ok && o.class != "cantNegotiate" {
			return "interop:sv:honest-mse-client-rejected:" + o.class, fmt.Sprintf("padA=%d padC=%d provide=%d ia=%d options=%d", padA, padC, provide, iaCut, p.o)
		}
		// the server checks the info-hash of the BitTorrent handshake against the MSE key: whatever
		// the stream was, an accepted handshake reports the torrent the MSE handshake was keyed
		// with (exact: compares what the server returned with the skey this client used)
		if o.ok && !bytes.Equal(o.res.Hash, skey) {
			return "mse:infohash-differs-from-skey-accepted", fmt.Sprintf("%s skey=%x handshake-hash=%x", o.sum, skey, hsHash)
		}
		// whenever the server accepts: everything the initiator sent after the BitTorrent
		// handshake — inside IA, behind it, in any cipher mode — reaches the message layer exactly
		// once and in order (`pipelined` adds bytes of its own, `truncated` cuts the stream)
		if o.ok && !pipelined && mut != 9 {
			if !bytes.Equal(o.delivered, early) || !bytes.Equal(o.res.Id, idc) || o.rc4 != (sel == 2) {
				return "scripted-peer:sv:wrong-result", fmt.Sprintf("%s want delivered=%s id=%x sel=%d len(IA)=%d", o.sum, vhlib.Payload(early), idc, sel, iaCut)
			}
		}
		return "", ""
	}
	offlineFamily(c, tag+lzTag, p, epochs, oracle, exp)
}

// runOfflineQuiet runs the function once on whole epochs and returns its writes.
func runOfflineQuiet(p *params, epochs [][]byte) [][]byte {
	sizes := make([][]int, len(epochs))
	eps := make([][][]byte, len(epochs))
	for i, e := range epochs {
		eps[i] = hsnet.Cut(e, sizes[i])
	}
	cc := hsnet.NewChunkConn(eps)
	cc.Watchdog = 300 * time.Millisecond
	dr := hsnet.NewDetRand(99)
	dr.Preload = append(dr.Preload, p.rnd...)
	crand.Reader = dr
	vhlib.Recover(func() {
		switch p.role {
		case "mc":
			protocol.ClientHandshake(cc, true, p.ih, p.id, optsOf(p.o))
		case "pc":
			protocol.ClientHandshake(cc, false, p.ih, p.id, optsOf(p.o))
		default:
			protocol.ServerHandshake(cc, p.hashes, optsOf(p.o))
		}
	})
	// asynchronous writes of a failed handshake may still be in flight
	time.Sleep(2 * time.Millisecond)
	cc.Close()
	return cc.Writes
}

// scripted MSE server against the real client
func scriptedClientCase(c *vhlib.Ctx) {
	r := c.R
	ih := hash.Hash(r.Bytes(20))
	idc := hash.Hash(r.Bytes(20))
	ids := r.Bytes(20)
	o := r.Intn(64) | 1
	if r.Chance(50) {
		o = bitsOf(crypto.DefaultOptions(r.Bool(), r.Bool()))
	}
	if r.Chance(5) {
		o &^= 1
	}
	p := &params{role: "mc", o: o, ih: ih, id: idc, rnd: mkRnd(r, pickPad(r))}
	xb := r.Bytes(20)
	yb := hsnet.MsePub(xb)
	S := hsnet.MseShared(xb, hsnet.MsePub(p.x()))
	mut := r.PickInt(0, 0, 0, 0, 0, 0, 1, 2, 3, 4, 5, 6, 7, 8, 9)
	lzTag := ""
	if mut == 0 {
		nLzMc++
		mode := 0
		if nLzMc <= 5 {
			mode = nLzMc
			o = bitsOf(crypto.DefaultOptions(r.Bool(), false)) // a policy that connects
			p.o = o
		} else if r.Chance(10) {
			mode = 1 + r.Intn(5)
		}
		if own, peer, ok := forceZeros(r, mode, p.x(), xb); ok {
			p.rnd[0], xb = own, peer
			yb = hsnet.MsePub(xb)
			S = hsnet.MseShared(xb, hsnet.MsePub(p.x()))
			lzTag = lzNames[mode]
		}
	}
	tag := "script"
	oracle := true
	padB := pickPeerPad(r)
	vc := make([]byte, 8)
	// select what an honest server could: something the client offers
	oo := optsOf(o)
	var sel uint32
	switch {
	case oo.ForceEncryption && oo.AllowEncryption:
		sel = 2
	case oo.ForceEncryption:
		sel = 2 // nothing is offered; the client fails before
	case !oo.AllowEncryption:
		sel = 1
	default:
		sel = r.PickU32(1, 2)
	}
	lenPadD := r.PickInt(0, 0, 0, 1, 37, 512)
	reserved := stdReserved
	if r.Chance(40) {
		reserved = r.Bytes(8)
	}
	replyHash := []byte(ih)
	early := r.Bytes(earlyLens[r.Intn(len(earlyLens))])
	switch mut {
	case 1:
		tag, sel = "select-not-offered", 3-sel
	case 2:
		tag, sel = "select-bad", r.PickU32(0, 3, 4, 0x101, 0x102)
	case 3:
		tag = "trivial-key"
		yb = make([]byte, 96)
		yb[95] = byte(r.Intn(2))
	case 4:
		tag, padB, oracle = "pad-over-512", r.PickInt(513, 520, 600), false
	case 5:
		tag = "bad-header"
	case 6:
		tag, replyHash = "wrong-infohash", r.Bytes(20)
	case 7:
		tag = "truncated"
	case 8:
		tag, vc = "no-vc", []byte{1, 0, 0, 0, 0, 0, 0, 0}
	case 9:
		tag, lenPadD = "padD-big", r.PickInt(513, 4000)
	}
	encB := hsnet.MseStream("keyB", S, ih)
	e1 := append(append([]byte(nil), yb...), r.Bytes(padB)...)
	m4 := hsnet.ServerMsg4(encB, vc, sel, lenPadD, r.Bytes(lenPadD))
	hs := handshakeBytes(reserved, replyHash, ids)
	if mut == 5 {
		hs[r.Intn(20)] ^= 0x40
	}
	tail := append(append([]byte(nil), hs...), early...)
	if sel == 2 {
		tail = hsnet.Crypt(encB, tail)
	}
	e2 := append(append([]byte(nil), m4...), tail...)
	// epoch 0: nothing before the client's Ya; epoch 1 after Ya; epoch 2 after message 3
	epochs := [][]byte{nil, e1, e2}
	if r.Chance(30) {
		epochs = [][]byte{append(append([]byte(nil), e1...), e2...)} // a server that does not wait
	}
	if mut == 7 {
		all := append(append([]byte(nil), e1...), e2...)
		all = all[:r.Intn(len(all))]
		epochs = [][]byte{nil, all}
	}
	exp := func(out outcome) (string, string) {
		if tag == "script" && !out.ok && out.class != "cantNegotiate" && out.class != "cryptoForbidden" {
			return "interop:mc:honest-mse-server-rejected:" + out.class, fmt.Sprintf("padB=%d padD=%d select=%d options=%d", padB, lenPadD, sel, p.o)
		}
		if tag == "script" && out.ok {
			if !bytes.Equal(out.delivered, early) || !bytes.Equal(out.res.Id, ids) || out.rc4 != (sel == 2) {
				return "scripted-peer:mc:wrong-result", fmt.Sprintf("%s want delivered=%s id=%x sel=%d", out.sum, vhlib.Payload(early), ids, sel)
			}
			// what the real client put on the wire must be what the specification says
			if len(out.writes) >= 2 {
				encA := hsnet.MseStream("keyA", S, ih)
				want := hsnet.ClientMsg3(encA, S, ih, make([]byte, 8), provideOf(oo), nil,
					handshakeBytes(stdReserved, ih, idc), 68)
				if !bytes.Equal(out.writes[1], want) {
					return "mse-spec:client-message-3", fmt.Sprintf("client wrote %x, the specification gives %x", out.writes[1], want)
				}
			}
		}
		return "", ""
	}
	offlineFamily(c, tag+lzTag, p, epochs, oracle, exp)
}

func provideOf(o *crypto.Options) uint32 {
	var p uint32
	if !o.ForceEncryption {
		p |= 1
	}
	if o.AllowEncryption {
		p |= 2
	}
	return p
}

// scripted plain peers: mutated BitTorrent handshakes
func scriptedPlainCase(c *vhlib.Ctx) {
	r := c.R
	ih := hash.Hash(r.Bytes(20))
	idc := hash.Hash(r.Bytes(20))
	ids := r.Bytes(20)
	reserved := r.Bytes(8)
	early := r.Bytes(earlyLens[r.Intn(len(earlyLens))])
	mut := r.PickInt(0, 0, 0, 1, 2, 3, 4)
	tag := []string{"script", "script", "script", "bad-header", "wrong-hash", "truncated", "short-header"}[mut+2]
	if mut == 0 {
		tag = "script"
	}
	o := r.Intn(64)
	if r.Chance(50) {
		o = bitsOf(crypto.DefaultOptions(r.Bool(), r.Bool()))
	}
	if r.Bool() {
		// client role
		hs := handshakeBytes(reserved, ih, ids)
		switch mut {
		case 1:
			hs[r.Intn(20)] ^= 1 << uint(r.Intn(8))
		case 2:
			hs[28+r.Intn(20)] ^= 1
		}
		s := append(hs, early...)
		if mut >= 3 {
			s = s[:r.Intn(68)]
		}
		p := &params{role: "pc", o: o, ih: ih, id: idc}
		eps := [][]byte{nil, s}
		if r.Bool() {
			eps = [][]byte{s}
		}
		offlineFamily(c, tag, p, eps, true, func(out outcome) (string, string) {
			if mut == 0 && !out.ok && out.class != "plaintextForbidden" {
				return "interop:pc:honest-server-rejected:" + out.class, out.sum
			}
			if mut == 0 && out.ok && (!bytes.Equal(out.delivered, early) || !bytes.Equal(out.res.Id, ids) ||
				out.res.Dht != (reserved[7]&1 != 0) || out.res.Fast != (reserved[7]&4 != 0) || out.res.Extended != (reserved[5]&0x10 != 0)) {
				return "scripted-peer:pc:wrong-result", out.sum
			}
			return "", ""
		})
		return
	}
	// server role, plain (AllowCryptoHandshake off half of the time so that a damaged header
	// is ErrBadHandshake rather than an MSE attempt)
	nh := 1 + r.Intn(3)
	var hashes []hash.HashPair
	for j := 0; j < nh; j++ {
		hashes = append(hashes, hash.HashPair{First: r.Bytes(20), Second: r.Bytes(20)})
	}
	k := r.Intn(nh)
	if r.Chance(2) {
		hashes[r.Intn(nh)].First = r.Bytes(21)
	}
	hsh := []byte(hashes[k].First)
	if mut == 2 {
		hsh = r.Bytes(20)
	}
	hs := handshakeBytes(reserved, hsh, idc)
	if mut == 1 {
		hs[r.Intn(20)] ^= 1 << uint(r.Intn(8))
	}
	cutAt := r.PickInt(68, 68, 48, 48, 60, 67)
	stall := false
	if nStall < 2 && mut == 0 && (nStall == 0 || r.Chance(3)) {
		o &^= 4 | 32 // not refused as plaintext
		nStall++
		stall = true
		cutAt = r.PickInt(20, 30) // the rest only after an answer the server cannot give yet: stall
	}
	s := append([]byte(nil), hs...)
	if mut >= 3 {
		s = s[:r.Intn(68)]
		cutAt = len(s)
	}
	if r.Bool() {
		o &^= 1
	}
	p := &params{role: "sv", o: o, hashes: hashes, rnd: mkRnd(r, pickPad(r))}
	// the client may pipeline early data behind its handshake, or send the peer id late
	eps := [][]byte{append(append([]byte(nil), s[:cutAt]...), []byte(nil)...)}
	if cutAt < len(s) {
		eps = append(eps, append(append([]byte(nil), s[cutAt:]...), early...))
	} else if mut < 3 {
		if r.Bool() {
			eps[0] = append(eps[0], early...)
		} else {
			eps = append(eps, early)
		}
	}
	if (mut == 1 || mut >= 3) && o&1 != 0 && nStall < 2 && r.Chance(4) {
		nStall++
		stall = true
	} else if (mut == 1 || mut >= 3) && o&1 != 0 {
		// a damaged header sends the server into the MSE path, where it would wait for 96
		// bytes of a peer that waits for it (outcome `stall`, costs a watchdog): keep that rare
		eps = mergeAll(eps)
	}
	if stall {
		p.watchdog = 250 * time.Millisecond
	}
	tableOK := true
	for _, h := range hashes {
		if len(h.First) != 20 {
			tableOK = false
		}
	}
	offlineFamily(c, tag, p, eps, true, func(out outcome) (string, string) {
		if mut == 0 && !stall && tableOK && !out.ok && out.class != "plaintextForbidden" {
			return "interop:sv-plain:honest-client-rejected:" + out.class, fmt.Sprintf("%s cut=%d", out.sum, cutAt)
		}
		if mut == 0 && out.ok && len(hashes[k].First) == 20 && (!bytes.Equal(out.delivered, early) || !bytes.Equal(out.res.Id, idc) ||
			out.res.Dht != (reserved[7]&1 != 0) || out.res.Fast != (reserved[7]&4 != 0) || out.res.Extended != (reserved[5]&0x10 != 0)) {
			return "scripted-peer:sv-plain:wrong-result", out.sum
		}
		return "", ""
	})
}

// ---------------------------------------------------------------- replay

func parseKV(ws []string) map[string]string {
	m := map[string]string{}
	for _, w := range ws {
		if i := strings.IndexByte(w, '='); i > 0 {
			m[w[:i]] = w[i+1:]
		}
	}
	return m
}

func decSizes(s string) []int {
	if s == "-" {
		return nil
	}
	var o []int
	for _, t := range strings.Split(s, ",") {
		if i := strings.IndexByte(t, 'x'); i > 0 {
			n, _ := strconv.Atoi(t[:i])
			k, _ := strconv.Atoi(t[i+1:])
			for j := 0; j < k; j++ {
				o = append(o, n)
			}
		} else {
			n, _ := strconv.Atoi(t)
			o = append(o, n)
		}
	}
	return o
}

func replayLine(c *vhlib.Ctx, line string) {
	ws := strings.Fields(line)
	if len(ws) == 0 {
		return
	}
	c.NewCase()
	switch ws[0] {
	case "pc", "mc", "sv":
		m := parseKV(ws[1:])
		p := &params{role: ws[0]}
		p.o, _ = strconv.Atoi(m["o"])
		p.ih, p.id = vhlib.UnHex(m["ih"]), vhlib.UnHex(m["id"])
		if hs := m["hs"]; hs != "" && hs != "-" {
			for _, t := range strings.Split(hs, ",") {
				ab := strings.Split(t, ":")
				p.hashes = append(p.hashes, hash.HashPair{First: vhlib.UnHex(ab[0]), Second: vhlib.UnHex(ab[1])})
			}
		}
		if x := vhlib.UnHex(m["x"]); len(x) > 0 {
			pad := vhlib.UnHex(m["pad"])
			p.rnd = [][]byte{x, lbufFor(len(pad))}
			if len(pad) > 0 {
				p.rnd = append(p.rnd, pad)
			}
		}
		var epochs [][]byte
		var sizes [][]int
		for _, e := range strings.Split(m["ep"], ";") {
			epochs = append(epochs, vhlib.UnHex(e))
		}
		for _, s := range strings.Split(m["ch"], ";") {
			sizes = append(sizes, decSizes(s))
		}
		o := runOffline(p, epochs, sizes)
		c.Emit(line, modelObs(o))
		c.Count("replay/"+ws[0], line, true)
		// the oracle on a single replayed line: the same stream in one piece must agree
		whole := make([][]int, len(epochs))
		ref := runOffline(p, epochs, whole)
		if ref.sum != o.sum {
			c.Violate(fmt.Sprintf("segmentation:%s:replay:%s-vs-%s", p.role, short(ref.sum), short(o.sum)),
				fmt.Sprintf("this chunking: %s ; whole epochs: %s", o.sum, ref.sum), []string{line})
		}
	case "variant":
		c.Emit(line, "ok")
	default:
		c.Emit(line, "x")
	}
}

var _ = rc4.KeySizeError(0)

func main() {
	c := vhlib.Init("c07")
	defer c.Close()
	c.Rep.Rule = "distinct (role, peer kind, options, outcome summary) tuples over offline runs; live runs by (kind, options, early lengths)"
	if v := os.Getenv("C07_VARIANT"); v != "" {
		c.Emit("variant "+v, "ok")
	}
	if c.Replay != "" {
		for _, l := range c.ReplayLines() {
			replayLine(c, l)
		}
		return
	}
	if c.N >= 20 {
		// real client against real server with crypto/rand seeds under which S, Ya, Yb start
		// with a zero byte
		for what := 0; what < 3; what++ {
			liveZeroCase(c, what)
		}
	}
	for i := 0; i < c.N; i++ {
		if len(c.Rep.Violations) >= 80 {
			// the verdict is clear; a broken handshake makes every further case wait for watchdogs
			c.Note(fmt.Sprintf("stopped after %d of %d cases: %d violations", i, c.N, len(c.Rep.Violations)))
			break
		}
		switch i % 5 {
		case 0, 1:
			liveCase(c, i)
		case 2:
			scriptedServerCase(c)
		case 3:
			scriptedClientCase(c)
		case 4:
			scriptedPlainCase(c)
		}
	}
}
