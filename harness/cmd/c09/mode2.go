package main

// Mode 2 of the C09 check (thorough tier): the REAL goroutines.  Every case starts a real
// torrent (tor.AddTorrent: the event loop), attaches 2-4 real peers with (*Torrent).NewPeer
// over net.Pipe (so peer.Run, protocol.Reader and protocol.Writer all run), and plays the
// remote end of every pipe from a random script: bitfields, (un)choke, correct / short /
// empty / over-long / misaligned / unrequested Piece messages, rejects, abrupt disconnects.
// The real scheduler (periodicRequest) decides what is requested from whom.
//
// The property oracle is the same statement as in mode 1, on the real objects only:
//
//	once events in transit have been processed, inFlight[b] == number of requests for b
//	outstanding (queued or sent) at connected peers, and available[i] == number of connected
//	peers advertising i; both all zero once every peer has left.
//
// Violation kinds: mode2:inflight-mismatch:over / :under, mode2:available-mismatch (quiescent
// point with peers connected), mode2:final-inflight-nonzero, mode2:final-available-nonzero
// (everybody gone), mode2:eek:inflight-underflow / :available-underflow / :overflow (the
// torrent logged a saturation message: a decrement that saturation would otherwise hide),
// mode2:watchdog:<what> (not-quiescent, wire-barrier, remote-write, addpeer, badmsg,
// peers-remain, torrent-died), mode2:kill-hang, mode2:panic.
//
// Nothing here depends on timing except through watchdogs: an observation is taken after
// round trips through every channel involved (wire -> peer -> torrent loop -> peer -> loop),
// it only counts when two consecutive observations 100 ms apart are identical, and the
// verdict that matters (the "hard" check) is only taken after every source of new work has
// been stopped (piece requests cancelled, idle rate 0).  Mode 2 emits no op/obs lines: it is
// not replayed against the model.

import (
	"bufio"
	"bytes"
	"context"
	"crypto/sha1"
	"errors"
	"fmt"
	"io"
	"net"
	"net/netip"
	"os"
	"sort"
	"strings"
	"sync"
	"time"

	"github.com/jech/storrent/config"
	"github.com/jech/storrent/hash"
	"github.com/jech/storrent/peer"
	"github.com/jech/storrent/protocol"
	"github.com/jech/storrent/tor"

	"verifharness/vhlib"
)

const (
	m2Watchdog = 10 * time.Second       // every wait gives up (and reports) after this long
	m2Poll     = 20 * time.Millisecond  // retry interval while something is visibly in transit
	m2Settle   = 100 * time.Millisecond // distance between the two observations that must agree
)

var m2Debug = os.Getenv("M2DEBUG") != ""

// all with a short last block except the last one; the first four are tiny
var m2Geoms = []struct {
	ps     uint32
	length int64
}{
	{32768, 50000}, {16384, 40000}, {65536, 65536*2 + 16384 + 5}, {49152, 49152*2 + 20000},
	{16384, 16384*9 + 1000}, {32768, 32768*6 + 16384 + 77}, {32768, 32768 * 4},
}

// m2log collects the torrent's log (the "Eek!" saturation messages are part of the oracle).
type m2log struct {
	mu sync.Mutex
	b  bytes.Buffer
}

func (l *m2log) Write(p []byte) (int, error) {
	l.mu.Lock()
	defer l.mu.Unlock()
	if l.b.Len() < 1<<20 {
		l.b.Write(p)
	}
	return len(p), nil
}

func (l *m2log) String() string {
	l.mu.Lock()
	defer l.mu.Unlock()
	return l.b.String()
}

// ---------------------------------------------------------------- the remote end of a pipe

type m2req struct {
	index, begin, length uint32
	cancelled            bool // storrent sent Cancel for it (it may still be answered)
}

type m2remote struct {
	n          int
	fast       bool
	conn       net.Conn
	w          *bufio.Writer
	p          *peer.Peer    // the real peer at the other end
	eof        chan struct{} // closed when the reader goroutine has returned
	dead       bool          // our end is closed or a write failed (script goroutine only)
	timedOut   bool          // a write hit the watchdog
	interested bool          // what we last told storrent
	unchoked   bool          // we are not choking storrent
	have       []bool        // what we currently advertise
	mu         sync.Mutex    // protects the fields below (reader goroutine vs script)
	reqs       []m2req       // Requests received and not yet disposed of by the script
	nreq, ncan int
}

// reader drains the pipe for as long as it is open (net.Pipe is unbuffered: storrent's writer
// goroutine must never be left waiting) and records the Requests and Cancels.
func (r *m2remote) reader() {
	defer close(r.eof)
	defer func() { recover() }()
	br := bufio.NewReader(r.conn)
	for {
		m, err := protocol.Read(br, nil)
		if err != nil {
			return
		}
		switch m := m.(type) {
		case protocol.Request:
			r.mu.Lock()
			r.reqs = append(r.reqs, m2req{m.Index, m.Begin, m.Length, false})
			r.nreq++
			r.mu.Unlock()
		case protocol.Cancel:
			r.mu.Lock()
			r.ncan++
			for i := range r.reqs {
				if r.reqs[i].index == m.Index && r.reqs[i].begin == m.Begin && !r.reqs[i].cancelled {
					r.reqs[i].cancelled = true
					break
				}
			}
			r.mu.Unlock()
		case protocol.Piece:
			protocol.PutBuffer(m.Data)
		}
	}
}

func (r *m2remote) pending() []m2req {
	r.mu.Lock()
	defer r.mu.Unlock()
	return append([]m2req(nil), r.reqs...)
}

func (r *m2remote) forget(q m2req) {
	r.mu.Lock()
	defer r.mu.Unlock()
	for i := range r.reqs {
		if r.reqs[i].index == q.index && r.reqs[i].begin == q.begin {
			r.reqs = append(r.reqs[:i], r.reqs[i+1:]...)
			return
		}
	}
}

func (r *m2remote) close() {
	r.dead = true
	r.conn.Close()
}

// send writes messages to storrent; a write returns once storrent's reader goroutine has
// taken the bytes.  false: the connection is gone (storrent may have dropped us).
func (r *m2remote) send(ms ...protocol.Message) bool {
	if r.dead {
		return false
	}
	r.conn.SetWriteDeadline(time.Now().Add(m2Watchdog))
	var err error
	for _, m := range ms {
		if err = protocol.Write(r.w, m, nil); err != nil {
			break
		}
	}
	if err == nil {
		err = r.w.Flush()
	}
	if err != nil {
		r.timedOut = errors.Is(err, os.ErrDeadlineExceeded)
		r.close()
		return false
	}
	return true
}

// ---------------------------------------------------------------- one case

type m2want struct {
	index uint32
	prio  int8
}

type m2case struct {
	c       *vhlib.Ctx
	r       *vhlib.Rand
	no      int
	head    string
	t       *tor.Torrent
	ps      uint32
	length  int64
	nch     int
	npc     int
	cpp     uint32
	content []byte
	idle    bool // the scheduler's idle mode is on during the script
	rem     []*m2remote
	wants   []m2want // piece requests currently registered with the torrent
	ops     []string
	log     m2log
	failed  bool
	nsoft   int
}

func (k *m2case) act(kind, detail string) {
	if m2Debug { // M2DEBUG=1: trace the script on stderr
		fmt.Fprintf(os.Stderr, "%s %d: %s %s\n", time.Now().Format("05.000"), k.no, kind, detail)
	}
	k.c.Rep.Branches["mode2:act:"+kind]++
	k.ops = append(k.ops, strings.TrimSpace(kind+" "+detail))
}

func (k *m2case) violate(kind, detail string) {
	k.failed = true
	k.c.Violate(kind, detail, append([]string{k.head}, k.ops...))
}

func (k *m2case) sawRequests() bool {
	for _, r := range k.rem {
		r.mu.Lock()
		n := r.nreq
		r.mu.Unlock()
		if n > 0 {
			return true
		}
	}
	return false
}

func (k *m2case) key() string {
	return fmt.Sprintf("%s #%d:%d", k.head, len(k.ops), vhlib.Fnv64([]byte(strings.Join(k.ops, ";"))))
}

// live: the remotes whose connection is (as far as we know) still up.
func (k *m2case) live() []*m2remote {
	var out []*m2remote
	for _, r := range k.rem {
		if !r.dead {
			select {
			case <-r.eof: // storrent closed the connection
				r.close()
			default:
			}
		}
		if !r.dead {
			out = append(out, r)
		}
	}
	return out
}

func (k *m2case) pick(rs []*m2remote) *m2remote {
	if len(rs) == 0 {
		return nil
	}
	return rs[k.r.Intn(len(rs))]
}

func (k *m2case) lastBlockShort() bool { return k.length%CS != 0 }

// m2metainfo: like metainfo() of mode 1, but with a per-case name (distinct info-hash: the
// table of torrents is global) and the real piece hashes in use.
func m2metainfo(ps uint32, length int64, name string) ([]byte, []byte) {
	content := make([]byte, length)
	for i := range content {
		content[i] = contentByte(int64(i))
	}
	var pieces []byte
	for o := int64(0); o < length; o += int64(ps) {
		e := min(o+int64(ps), length)
		h := sha1.Sum(content[o:e])
		pieces = append(pieces, h[:]...)
	}
	var b bytes.Buffer
	fmt.Fprintf(&b, "d4:infod6:lengthi%de4:name%d:%s12:piece lengthi%de6:pieces%d:", length, len(name), name, ps, len(pieces))
	b.Write(pieces)
	b.WriteString("ee")
	return b.Bytes(), content
}

func (k *m2case) start() bool {
	g := m2Geoms[k.r.Intn(len(m2Geoms))]
	k.ps, k.length = g.ps, g.length
	k.nch = int((k.length + CS - 1) / CS)
	k.npc = int((k.length + int64(k.ps) - 1) / int64(k.ps))
	k.cpp = k.ps / CS
	k.idle = k.r.Chance(25)
	k.head = fmt.Sprintf("mode2 case %d seed %d: ps=%d len=%d idle=%v", k.no, k.c.Seed, k.ps, k.length, k.idle)
	mi, content := m2metainfo(k.ps, k.length, fmt.Sprintf("m2-%d-%d", k.c.Seed, k.no))
	k.content = content
	t, err := tor.ReadTorrent("", bytes.NewReader(mi))
	if err != nil {
		k.c.Note("mode2: ReadTorrent: " + err.Error())
		return false
	}
	t.Log.SetOutput(&k.log)
	if k.idle {
		config.SetIdleRate(64 * 1024)
	} else {
		config.SetIdleRate(0)
	}
	// DHT mode none, no trackers, no web seeds (the defaults of the config package in a
	// process that did not parse storrent's flags); peers have port 0, so that nothing is
	// ever added to the table of known peers and maybeConnect never dials.
	if dm, tr, ws := t.VerifConf(); dm != int(config.DhtNone) || tr || ws {
		k.c.Note("mode2: unexpected torrent configuration")
		return false
	}
	if _, err := tor.AddTorrent(context.Background(), t); err != nil {
		k.c.Note("mode2: AddTorrent: " + err.Error())
		return false
	}
	k.t = t
	return true
}

func (k *m2case) connect() {
	a, b := net.Pipe()
	r := &m2remote{n: len(k.rem), fast: k.r.Chance(55), conn: b, w: bufio.NewWriter(b),
		eof: make(chan struct{}), have: make([]bool, k.npc)}
	id := hash.Hash(k.r.Bytes(20))
	addr := netip.AddrPortFrom(netip.AddrFrom4([4]byte{127, 0, 0, byte(2 + r.n)}), 0)
	incoming := k.r.Bool()
	go r.reader()
	k.rem = append(k.rem, r)
	k.act("connect", fmt.Sprintf("r%d fast=%v", r.n, r.fast))
	err := k.t.NewPeer("", a, addr, incoming, protocol.HandshakeResult{Hash: k.t.Hash, Id: id, Fast: r.fast}, nil)
	if err == nil {
		// through the loop, behind the TorAddPeer: the peer exists and peer.Run was started
		r.p, err = k.t.GetPeer(id)
	}
	if err != nil || r.p == nil {
		k.violate("mode2:watchdog:addpeer", fmt.Sprintf("peer r%d was not added: %v", r.n, err))
		r.close()
		return
	}
	r.p.Log.SetOutput(io.Discard) // peers log to stderr ("Changing bitmap", "Redundant Have"...)
}

func (k *m2case) pieceData(idx, begin uint32, n int, corrupt bool) []byte {
	d := protocol.GetBuffer(n) // protocol.Write hands 16 KiB buffers back to the pool
	base := int64(idx)*int64(k.ps) + int64(begin)
	for i := 0; i < n; i++ {
		d[i] = 0
		if pos := base + int64(i); pos < k.length {
			d[i] = k.content[pos]
		}
		if corrupt {
			d[i] ^= 0x5a
		}
	}
	return d
}

// ---------------------------------------------------------------- script actions

func (k *m2case) doBitmap(r *m2remote) {
	x := k.r.Intn(100)
	switch {
	case r.fast && x < 25:
		for i := range r.have {
			r.have[i] = true
		}
		k.act("haveall", fmt.Sprintf("r%d", r.n))
		r.send(protocol.HaveAll{})
	case r.fast && x < 35:
		for i := range r.have {
			r.have[i] = false
		}
		k.act("havenone", fmt.Sprintf("r%d", r.n))
		r.send(protocol.HaveNone{})
	default:
		bf := make([]byte, (k.npc+7)/8)
		dens := 30 + k.r.Intn(71)
		var bits []uint32
		for i := 0; i < k.npc; i++ {
			r.have[i] = k.r.Chance(dens)
			if r.have[i] {
				bf[i/8] |= 1 << (7 - uint(i)%8)
				bits = append(bits, uint32(i))
			}
		}
		k.act("bitfield", fmt.Sprintf("r%d %s", r.n, joinU32(bits)))
		r.send(protocol.Bitfield{Bitfield: bf})
	}
}

func (k *m2case) doHave(r *m2remote) {
	var missing []int
	for i, h := range r.have {
		if !h {
			missing = append(missing, i)
		}
	}
	i := k.r.Intn(k.npc)
	kind := "have-redundant"
	if len(missing) > 0 && k.r.Chance(85) {
		i = missing[k.r.Intn(len(missing))]
	}
	if !r.have[i] {
		kind = "have"
	}
	r.have[i] = true
	k.act(kind, fmt.Sprintf("r%d %d", r.n, i))
	r.send(protocol.Have{Index: uint32(i)})
}

func (k *m2case) doChoke(r *m2remote, choke bool) {
	if choke {
		k.act("choke", fmt.Sprintf("r%d", r.n))
		r.unchoked = false
		r.send(protocol.Choke{})
	} else {
		k.act("unchoke", fmt.Sprintf("r%d", r.n))
		r.unchoked = true
		r.send(protocol.Unchoke{})
	}
}

// doRequest: a client of the torrent asks for a piece; from now on the real scheduler sends
// PeerRequests for its blocks to unchoked peers that advertise it.
func (k *m2case) doRequest() {
	var inc []uint32
	for i := 0; i < k.npc; i++ {
		if !k.t.Pieces.Complete(uint32(i)) {
			inc = append(inc, uint32(i))
		}
	}
	if len(inc) == 0 {
		k.act("request:all-complete", "")
		return
	}
	idx := inc[k.r.Intn(len(inc))]
	if k.r.Chance(35) {
		idx = inc[len(inc)-1] // towards the piece with the short last block
	}
	prio := int8(k.r.Intn(4) - 1)
	ok, _, err := k.t.Request(idx, prio, true, false)
	if err != nil || !ok {
		k.act("request:complete", fmt.Sprintf("piece=%d", idx))
		return
	}
	k.wants = append(k.wants, m2want{idx, prio})
	k.act("request", fmt.Sprintf("piece=%d prio=%d", idx, prio))
}

func (k *m2case) doUnrequest() {
	if len(k.wants) == 0 {
		k.act("unrequest:none", "")
		return
	}
	i := k.r.Intn(len(k.wants))
	if k.r.Chance(70) { // prefer a piece with requests on the wire: they get cancelled
		for _, r := range k.live() {
			for _, q := range r.pending() {
				for j, w := range k.wants {
					if w.index == q.index {
						i = j
					}
				}
			}
		}
	}
	w := k.wants[i]
	k.wants = append(k.wants[:i], k.wants[i+1:]...)
	k.t.Request(w.index, w.prio, false, false)
	k.act("unrequest", fmt.Sprintf("piece=%d prio=%d", w.index, w.prio))
}

// expectRequests: can the scheduler be expected to send something to some remote?
func (k *m2case) expectRequests() bool {
	if len(k.wants) == 0 && !k.idle {
		return false
	}
	for _, r := range k.live() {
		if r.unchoked {
			for _, h := range r.have {
				if h {
					return true
				}
			}
		}
	}
	return false
}

// waitReq returns a live remote that has unanswered Requests, waiting a little for the
// scheduler if that is not hopeless (nil if there is none: not an error).
func (k *m2case) waitReq() *m2remote {
	deadline := time.Now().Add(400 * time.Millisecond)
	for {
		var cands []*m2remote
		for _, r := range k.live() {
			if len(r.pending()) > 0 {
				cands = append(cands, r)
			}
		}
		if len(cands) > 0 {
			return k.pick(cands)
		}
		if !k.expectRequests() || time.Now().After(deadline) {
			return nil
		}
		time.Sleep(5 * time.Millisecond)
	}
}

func (k *m2case) doAnswer(all bool) {
	r := k.waitReq()
	if r == nil {
		k.act("answer:none", "")
		return
	}
	reqs := r.pending()
	if all { // correct data for everything this remote was asked for
		var ms []protocol.Message
		for _, q := range reqs {
			ms = append(ms, protocol.Piece{Index: q.index, Begin: q.begin, Data: k.pieceData(q.index, q.begin, int(q.length), false)})
			r.forget(q)
		}
		k.act("answer-all", fmt.Sprintf("r%d n=%d", r.n, len(reqs)))
		r.send(ms...)
		return
	}
	q := reqs[k.r.Intn(len(reqs))]
	if k.r.Chance(50) { // prefer the (short) last block of the torrent
		for _, x := range reqs {
			if int(x.index*k.cpp+x.begin/CS) == k.nch-1 {
				q = x
			}
		}
	}
	what := fmt.Sprintf("r%d %d:%d:%d", r.n, q.index, q.begin, q.length)
	if q.cancelled {
		what += " (cancelled)"
	}
	if int(q.index*k.cpp+q.begin/CS) == k.nch-1 && k.lastBlockShort() {
		what += " (short last block)"
	}
	piece := func(begin uint32, n int, corrupt bool) protocol.Message {
		return protocol.Piece{Index: q.index, Begin: begin, Data: k.pieceData(q.index, begin, n, corrupt)}
	}
	x := k.r.Intn(100)
	switch {
	case x < 46:
		k.act("answer:correct", what)
		r.send(piece(q.begin, int(q.length), false))
	case x < 54:
		n := 1
		if q.length > 2 {
			n = 1 + k.r.Intn(int(q.length)-1)
		}
		k.act("answer:short", fmt.Sprintf("%s n=%d", what, n))
		r.send(piece(q.begin, n, false))
	case x < 62:
		k.act("answer:empty", what)
		r.send(piece(q.begin, 0, false))
	case x < 70:
		k.act("answer:long", what)
		r.send(piece(q.begin, 2*CS, false))
	case x < 76:
		off := 1 + uint32(k.r.Intn(CS-1))
		k.act("answer:misaligned", fmt.Sprintf("%s +%d", what, off))
		r.send(piece(q.begin+off, CS, false))
	case x < 82:
		// a block this remote was not asked for: ignored, the request stays outstanding
		idx, beg := uint32(k.r.Intn(k.npc)), uint32(k.r.Intn(int(k.cpp)))*CS
		asked := false
		for _, y := range reqs {
			if y.index == idx && y.begin == beg {
				asked = true
			}
		}
		if asked || int64(idx)*int64(k.ps)+int64(beg) >= k.length {
			k.act("answer:nothing", what)
			return
		}
		k.act("answer:unrequested", fmt.Sprintf("%s sent %d:%d", what, idx, beg))
		r.send(protocol.Piece{Index: idx, Begin: beg, Data: k.pieceData(idx, beg, CS, false)})
		return
	case x < 92 && r.fast:
		k.act("answer:reject", what)
		r.send(protocol.RejectRequest{Index: q.index, Begin: q.begin, Length: q.length})
	case x < 95:
		// right size, wrong bytes: the piece fails its hash check, storrent drops the
		// peers that contributed (they have no port)
		k.act("answer:corrupt", what)
		r.send(piece(q.begin, int(q.length), true))
	default:
		k.act("answer:nothing", what) // and never will
	}
	r.forget(q)
}

func (k *m2case) doDisconnect() {
	live := k.live()
	r := k.pick(live)
	if r == nil {
		k.act("disconnect:none", "")
		return
	}
	if k.r.Chance(60) { // right after requests were sent to it
		for _, x := range live {
			if len(x.pending()) > 0 {
				r = x
			}
		}
	}
	k.act("disconnect", fmt.Sprintf("r%d pending=%d", r.n, len(r.pending())))
	r.close()
}

// doBadMessage: a protocol error makes storrent close the connection from its side.
func (k *m2case) doBadMessage(r *m2remote) {
	k.act("badmsg", fmt.Sprintf("r%d", r.n))
	if r.send(protocol.Have{Index: uint32(k.npc + 3)}) {
		select {
		case <-r.p.Done:
		case <-time.After(m2Watchdog):
			k.violate("mode2:watchdog:badmsg", fmt.Sprintf("peer r%d survived an out-of-range Have", r.n))
		}
	}
	r.close()
}

// anyPending: does some live remote have unanswered Requests (waiting up to d for them if
// the scheduler can be expected to send some)?
func (k *m2case) anyPending(d time.Duration) bool {
	deadline := time.Now().Add(d)
	for {
		for _, l := range k.live() {
			if len(l.pending()) > 0 {
				return true
			}
		}
		if !k.expectRequests() || time.Now().After(deadline) {
			return false
		}
		time.Sleep(time.Millisecond)
	}
}

// nudge makes it possible for the scheduler to send requests again (nobody connected,
// nothing asked for, everybody choking or without pieces), so that steps are not wasted.
func (k *m2case) nudge() {
	live := k.live()
	switch {
	case len(live) == 0 && len(k.rem) < 8:
		k.connect()
		if nr := k.rem[len(k.rem)-1]; !nr.dead {
			k.doBitmap(nr)
			k.doChoke(nr, false)
		}
	case len(live) == 0:
		k.act("nudge:none", "")
	case len(k.wants) == 0 && !k.idle:
		k.doRequest()
	default:
		r := k.pick(live)
		has := false
		for _, h := range r.have {
			has = has || h
		}
		if !has {
			k.doBitmap(r)
		}
		if !r.unchoked {
			k.doChoke(r, false)
		}
		if has && k.r.Chance(50) {
			k.doRequest()
		}
	}
}

func (k *m2case) step() {
	x := k.r.Intn(100)
	live := k.live()
	r := k.pick(live)
	// the script is much faster than the system: give the scheduler's reaction to the
	// previous action a moment to reach the remotes (this only shapes the script)
	pending := k.anyPending(20 * time.Millisecond)
	if pending && k.r.Chance(45) {
		x = k.r.Intn(34) // somebody was asked for something: answer (or not)
	}
	if r == nil && ((x >= 56 && x < 82) || (x >= 90 && x < 92)) {
		x = 87 // nobody is connected: connect somebody instead of a per-remote action
	}
	switch {
	case x < 34:
		if !pending && !k.expectRequests() {
			k.nudge()
			return
		}
		k.doAnswer(x >= 26)
	case x < 44:
		d := 20 + k.r.Intn(380)
		k.act("sleep", fmt.Sprintf("%dms", d))
		time.Sleep(time.Duration(d) * time.Millisecond)
	case x < 52:
		k.doRequest()
	case x < 56:
		k.doUnrequest()
	case x < 64:
		k.doHave(r)
	case x < 70:
		k.doBitmap(r)
	case x < 77:
		k.doChoke(r, false)
	case x < 82:
		k.doChoke(r, true)
	case x < 86:
		k.doDisconnect()
	case x < 90:
		if len(k.rem) < 8 {
			k.connect()
			if nr := k.rem[len(k.rem)-1]; !nr.dead && k.r.Chance(70) {
				k.doBitmap(nr)
				k.doChoke(nr, false)
			}
		}
	case x < 92:
		if k.r.Chance(50) {
			k.doBadMessage(r)
		} else {
			k.doHave(r)
		}
	case x < 96:
		if k.nsoft < 2 {
			k.nsoft++
			k.act("softcheck", "")
			k.wireBarrier()
			k.settle(false, 2*time.Second)
		}
	default:
		k.nudge()
	}
}

// ---------------------------------------------------------------- barriers and observation

// wireBarrier: every message a remote has written so far has been handled by its peer.
// Messages from one connection are handled in order, so each remote flips its "interested"
// flag (which storrent publishes atomically) and waits for the flip to show.
func (k *m2case) wireBarrier() {
	for _, r := range k.live() {
		r.interested = !r.interested
		var m protocol.Message = protocol.NotInterested{}
		if r.interested {
			m = protocol.Interested{}
		}
		if !r.send(m) {
			continue
		}
		deadline := time.Now().Add(m2Watchdog)
	wait:
		for r.p.Interested() != r.interested {
			select {
			case <-r.p.Done: // the peer is leaving
				break wait
			default:
			}
			if time.Now().After(deadline) {
				k.violate("mode2:watchdog:wire-barrier", fmt.Sprintf("peer r%d did not handle a message within %v", r.n, m2Watchdog))
				break
			}
			time.Sleep(time.Millisecond)
		}
	}
	for _, r := range k.rem {
		if r.timedOut {
			r.timedOut = false
			k.violate("mode2:watchdog:remote-write", fmt.Sprintf("storrent did not read from r%d within %v", r.n, m2Watchdog))
		}
	}
}

// loopBarrier: everything in transit between the peers and the torrent has been processed.
// The longest chain is TorData -> (loop) PeerCancel -> (peer) TorDrop -> (loop); a round
// trip through a channel proves that everything queued before it has been handled.
func (k *m2case) loopBarrier() {
	for i := 0; i < 3; i++ {
		peers, err := k.t.GetPeers()
		if err != nil {
			return
		}
		for _, p := range peers {
			p.GetStatus()
		}
	}
}

type m2snap struct {
	settled bool // false: somebody was on his way out, or moved while we were looking
	key     string
	npeers  int
	want    []int // per block: requests outstanding at connected peers
	adv     []int // per piece: connected peers advertising it
	inf     []uint8
	av      []uint16
	desc    string
}

func (s *m2snap) avail(i int) int {
	if i < len(s.av) {
		return int(s.av[i])
	}
	return 0
}

func (k *m2case) snapshot() *m2snap {
	s := &m2snap{want: make([]int, k.nch), adv: make([]int, k.npc)}
	k.loopBarrier()
	peers, err := k.t.GetPeers()
	if err != nil {
		return s
	}
	var b strings.Builder
	for _, p := range peers {
		if p.GetStatus() == nil { // exiting: its TorPeerGoaway is on its way
			return s
		}
		out, ok := p.VerifOutstanding() // direct read, right after the round trip
		bm := p.GetBitmap()
		st := p.GetStats()
		if !ok || st == nil || st.Qlen != len(out) {
			return s
		}
		sort.Slice(out, func(i, j int) bool { return out[i] < out[j] })
		for _, c := range out {
			if int(c) < k.nch {
				s.want[c]++
			}
		}
		var bits []uint32
		for i := 0; i < k.npc; i++ {
			if bm.Get(i) {
				s.adv[i]++
				bits = append(bits, uint32(i))
			}
		}
		fmt.Fprintf(&b, "peer#%d out=%s has=%s; ", p.Counter, joinU32(out), joinU32(bits))
	}
	s.av, err = k.t.GetAvailable() // a loop round trip: orders the direct read below
	if err != nil {
		return s
	}
	s.inf = k.t.VerifInFlight()
	again, err := k.t.GetPeers()
	if err != nil || len(again) != len(peers) {
		return s
	}
	for i := range again {
		if again[i] != peers[i] {
			return s
		}
	}
	s.npeers = len(peers)
	fmt.Fprintf(&b, "inFlight=%v available=%v", s.inf, s.av)
	s.key, s.desc, s.settled = b.String(), b.String(), true
	return s
}

// oracle: the statement of C09 on one observation.
func (k *m2case) oracle(s *m2snap) (string, string) {
	geom := fmt.Sprintf("ps=%d len=%d, %d blocks, last block %d bytes", k.ps, k.length, k.nch, k.length-int64(k.nch-1)*CS)
	for b := 0; b < k.nch; b++ {
		got, want := int(s.inf[b]), s.want[b]
		if got == want {
			continue
		}
		kind := "mode2:inflight-mismatch:over"
		if got < want {
			kind = "mode2:inflight-mismatch:under"
		}
		return kind, fmt.Sprintf("quiescent: inFlight[%d]=%d but %d request(s) for it outstanding at the %d connected peer(s) (%s) | %s",
			b, got, want, s.npeers, geom, s.desc)
	}
	for i := 0; i < k.npc || i < len(s.av); i++ {
		want := 0
		if i < k.npc {
			want = s.adv[i]
		}
		if s.avail(i) != want {
			return "mode2:available-mismatch", fmt.Sprintf("quiescent: available[%d]=%d but %d of the %d connected peer(s) advertise it (%s) | %s",
				i, s.avail(i), want, s.npeers, geom, s.desc)
		}
	}
	return "", ""
}

// settle polls until two consecutive observations m2Settle apart are identical and satisfy
// the oracle.  hard=false (work is still being generated: the scheduler keeps ticking) can
// only pass or be inconclusive; hard=true reports when the watchdog expires.
func (k *m2case) settle(hard bool, wd time.Duration) {
	deadline := time.Now().Add(wd)
	var prev, last *m2snap
	var kind, detail string
	stable, extra := false, 0
	for {
		s := k.snapshot()
		if s.settled {
			kind, detail = k.oracle(s)
			stable = prev != nil && prev.key == s.key
			prev, last = s, s
			if stable && kind == "" {
				k.c.Count("mode2:quiescent", k.key(), k.sawRequests())
				tag := "mode2:quiescent:hard"
				if !hard {
					tag = "mode2:quiescent:soft"
				}
				k.c.Rep.Branches[tag]++
				n := 0
				for _, w := range s.want {
					n += w
				}
				if n > 0 {
					k.c.Rep.Branches[tag+":outstanding>0"]++
				}
				if s.npeers > 0 {
					k.c.Rep.Branches[tag+":peers>0"]++
				}
				return
			}
		} else {
			prev, stable = nil, false
		}
		if time.Now().After(deadline) {
			// not in the middle of a change: a few more tries to get a matching pair
			if stable || extra >= 20 || !hard {
				break
			}
			extra++
		}
		if s.settled {
			time.Sleep(m2Settle)
		} else {
			time.Sleep(m2Poll)
		}
	}
	if hard {
		k.c.Count("mode2:quiescent", k.key(), k.sawRequests())
	}
	switch {
	case !hard:
		k.c.Rep.Branches["mode2:quiescent:soft:inconclusive"]++
	case stable && kind != "":
		k.violate(kind, detail)
	case last != nil:
		k.violate("mode2:watchdog:not-quiescent", fmt.Sprintf("observations still changing after %v; last: %s", wd, last.desc))
	default:
		k.violate("mode2:watchdog:not-quiescent", fmt.Sprintf("no complete observation within %v", wd))
	}
}

// eek: the saturation branches of noteInFlight / noteAvailable must never be taken.
func (k *m2case) eek() {
	l := k.log.String()
	for _, e := range [][2]string{{"InFlight underflow", "mode2:eek:inflight-underflow"}, {"Available underflow", "mode2:eek:available-underflow"},
		{"overflow", "mode2:eek:overflow"}} {
		if strings.Contains(l, e[0]) {
			k.violate(e[1], "the torrent logged \"Eek!  "+e[0]+"\"")
		}
	}
}

// ---------------------------------------------------------------- end of a case

// stop makes the system stop generating work, then takes the verdict.
func (k *m2case) stop() {
	k.anyPending(300 * time.Millisecond) // preferably stop with requests outstanding
	config.SetIdleRate(0)
	for _, w := range k.wants {
		k.t.Request(w.index, w.prio, false, false)
	}
	k.wants = nil
	k.t.GetStats() // round trip: from here on the scheduler has nothing to ask for
	// 0: every remote chokes, Fast remotes also reject what they were asked for (with
	// Fast a Choke does not clear the sent requests): everything drains to zero;
	// 1: choke only; 2: nothing: requests stay outstanding (cancelled ones until they
	// expire), which is just as quiescent, and a less trivial state to compare.
	variant := k.r.Intn(3)
	k.act("stop", fmt.Sprintf("variant=%d", variant))
	for _, r := range k.live() {
		if variant < 2 {
			r.unchoked = false
			r.send(protocol.Choke{})
		}
	}
	k.wireBarrier()
	if variant == 0 {
		for _, r := range k.live() {
			if !r.fast {
				continue
			}
			// requests may still be on their way to us: a few rounds
			for i := 0; i < 40; i++ {
				var ms []protocol.Message
				for _, q := range r.pending() {
					ms = append(ms, protocol.RejectRequest{Index: q.index, Begin: q.begin, Length: q.length})
					r.forget(q)
				}
				if len(ms) > 0 && !r.send(ms...) {
					break
				}
				p := r.p
				p.GetStatus()
				if st := p.GetStats(); st == nil || st.Rlen == 0 {
					break
				}
				time.Sleep(5 * time.Millisecond)
			}
		}
		k.wireBarrier()
	}
	k.settle(true, m2Watchdog)
	k.eek()
}

// final: everybody leaves; both tables must be all zero.
func (k *m2case) final() {
	for _, r := range k.rem {
		r.close()
	}
	deadline := time.Now().Add(m2Watchdog)
	for {
		peers, err := k.t.GetPeers()
		if err != nil {
			k.violate("mode2:watchdog:torrent-died", "the torrent's loop has exited: "+err.Error())
			return
		}
		if len(peers) == 0 {
			break
		}
		if time.Now().After(deadline) {
			k.violate("mode2:watchdog:peers-remain", fmt.Sprintf("%d peer(s) still attached %v after every connection was closed", len(peers), m2Watchdog))
			return
		}
		time.Sleep(m2Poll)
	}
	k.t.GetStats() // one more round trip
	av, err := k.t.GetAvailable()
	if err != nil {
		return
	}
	inf := k.t.VerifInFlight()
	for b, v := range inf {
		if v != 0 {
			k.violate("mode2:final-inflight-nonzero", fmt.Sprintf("nobody is connected but inFlight[%d]=%d (ps=%d len=%d, %d blocks): inFlight=%v",
				b, v, k.ps, k.length, k.nch, inf))
			break
		}
	}
	for i, v := range av {
		if v != 0 {
			k.violate("mode2:final-available-nonzero", fmt.Sprintf("nobody is connected but available[%d]=%d: available=%v", i, v, av))
			break
		}
	}
	k.eek()
	k.c.Count("mode2:final", k.key(), k.sawRequests())
}

func (k *m2case) teardown() {
	for _, r := range k.rem {
		r.close()
	}
	if k.t == nil {
		return
	}
	k.c.Rep.Branches["mode2:pieces-completed"] += k.t.Pieces.Bitmap().Count()
	go k.t.Kill(context.Background())
	select {
	case <-k.t.Deleted:
	case <-time.After(m2Watchdog):
		k.violate("mode2:kill-hang", fmt.Sprintf("t.Deleted not closed %v after Kill", m2Watchdog))
	}
	for _, r := range k.rem { // the readers end when storrent closes its ends
		select {
		case <-r.eof:
		case <-time.After(time.Second):
		}
	}
	nreq, ncan := 0, 0
	for _, r := range k.rem {
		nreq += r.nreq
		ncan += r.ncan
	}
	k.c.Rep.Branches["mode2:seen:Request"] += nreq
	k.c.Rep.Branches["mode2:seen:Cancel"] += ncan
}

func (k *m2case) script() {
	n := 2 + k.r.Intn(3)
	for i := 0; i < n; i++ {
		k.connect()
	}
	for _, r := range k.live() {
		if k.r.Chance(85) {
			k.doBitmap(r)
		}
		if k.r.Chance(75) {
			k.doChoke(r, false)
		}
	}
	for i, m := 0, 1+k.r.Intn(3); i < m; i++ {
		k.doRequest()
	}
	steps := 25 + k.r.Intn(36)
	for i := 0; i < steps && !k.failed && !k.t.Pieces.All(); i++ {
		k.step()
	}
	if !k.failed {
		k.stop()
	}
	k.final()
}

func runMode2(c *vhlib.Ctx, n int) {
	pf, mm, ir := config.PrefetchRate, config.MemoryMark, config.IdleRate()
	defer func() {
		config.PrefetchRate, config.MemoryMark = pf, mm
		config.SetIdleRate(ir)
	}()
	config.PrefetchRate = 768 * 1024 // storrent's default
	config.MemoryMark = 1 << 30
	t0 := time.Now()
	for i := 0; i < n; i++ {
		// one PRNG per case, so that a case does not depend on the timing of the previous ones
		// (seed mixed in: vhlib's streams for adjacent seeds are shifted copies of each other)
		k := &m2case{c: c, r: vhlib.NewRand(c.R.U64() ^ vhlib.Fnv64([]byte(fmt.Sprintf("m2-%d-%d", c.Seed, i)))), no: i}
		c.Rep.Branches["mode2:case"]++
		if !k.start() {
			continue
		}
		c.Rep.Branches[fmt.Sprintf("mode2:geom:%d/%d", k.ps, k.length)]++
		if p := vhlib.Recover(k.script); p != "" {
			k.violate("mode2:panic", "panic in the harness goroutine of the case: "+p)
		}
		if p := vhlib.Recover(k.teardown); p != "" {
			k.violate("mode2:panic", "panic while tearing the case down: "+p)
		}
	}
	config.SetIdleRate(0)
	c.Note(fmt.Sprintf("mode2: %d case(s) with real goroutines in %v", n, time.Since(t0).Round(time.Millisecond)))
}
