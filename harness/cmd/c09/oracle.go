package main

// The property oracle of C09, evaluated on the real objects only (it shares nothing with
// the Lean model):
//
//   - whenever every channel is empty (t.Event, every live peer's Event, every overflow
//     list): inFlight[b] == number of requests for b outstanding at some connected peer
//     (queued or sent) or reserved by an open web-seed writer, and
//     available[i] == number of connected peers whose bitmap has i;
//   - after every peer has left and every writer is closed: both all zero, and no
//     PeerRequest is left unaccounted in an exited peer's Event channel;
//   - at every step, for every peer: each block of each accepted PeerRequest is either
//     still pending at that peer or was answered by exactly one TorData/TorDrop;
//   - the "Eek!" saturation branches of noteInFlight / noteAvailable are never taken.

import (
	"fmt"
	"strings"

	"github.com/jech/storrent/peer"

	"verifharness/vhlib"
)

type answers struct {
	accepted map[uint32]int
	answered map[uint32]int
}

var perPeer = map[*peer.Peer]*answers{}

func ans(p *peer.Peer) *answers {
	a := perPeer[p]
	if a == nil {
		a = &answers{map[uint32]int{}, map[uint32]int{}}
		perPeer[p] = a
	}
	return a
}

// blocksOf: the blocks of the torrent a TorData/TorDrop speaks about.
func (s *sim) blocksOf(index, begin, length uint32) []uint32 {
	var out []uint32
	if length == 0 {
		return nil
	}
	first := begin / CS
	last := (begin + length - 1) / CS
	for k := first; k <= last; k++ {
		out = append(out, index*s.cpp()+k)
	}
	return out
}

func (s *sim) quiescent() bool {
	if len(s.t.Event) != 0 {
		return false
	}
	for _, sp := range s.peers {
		if len(sp.p.VerifEvents()) != 0 {
			return false
		}
		if sp.alive && len(sp.p.Event) != 0 {
			return false
		}
		if !sp.alive && sp.present {
			return false
		}
	}
	return true
}

func (s *sim) violate(kind, detail string) {
	key := "v:" + kind
	if s.suspects[key] {
		return
	}
	s.suspects[key] = true
	s.c.Violate(kind, detail, s.c.Case())
}

// do executes one op line, records it, and evaluates the oracle.
func (s *sim) do(line string) string {
	f := strings.Fields(line)
	var te0 []peer.TorEvent
	var ov0 int
	var sp *simPeer
	track := s.t != nil && len(f) >= 2 && (f[0] == "pev" || f[0] == "msg" || f[0] == "tick" || f[0] == "exit")
	if track {
		if p, _, ok := s.peerArg(f[1]); ok {
			sp = p
			te0 = s.torEvents()
			ov0 = len(sp.p.VerifEvents())
		} else {
			track = false
		}
	}
	obs := s.exec(line)
	s.c.Emit(line, obs)
	if s.t == nil || f[0] == "init" || f[0] == "minit" || f[0] == "chunk" {
		return obs
	}
	res := strings.SplitN(obs, " | ", 2)[0]
	// branch tags: op kind + result class (numbers and peer ids stripped)
	cls := res
	if k := strings.IndexAny(cls, ":="); k >= 0 && !strings.HasPrefix(cls, "fin=") {
		cls = cls[:k]
	}
	btag := f[0] + ":" + cls
	if f[0] == "msg" {
		btag = "msg:" + f[3] + ":" + cls
	}
	s.c.Rep.Branches[btag]++
	// bookkeeping of the answers oracle
	if f[0] == "req" && res == "ok" {
		if p, _, ok := s.peerArg(f[1]); ok {
			cs, _ := parseList(f[2])
			for _, c := range cs {
				ans(p.p).accepted[c]++
			}
		}
	}
	if f[0] == "msg" && len(f) >= 7 && f[3] == "piece" && strings.HasPrefix(res, "piece-") && res != "piece-unrequested" {
		if f[6] == "0" {
			s.suspects["empty-piece"] = true
		}
		if n, ok := atoi(f[6]); ok && n > CS {
			s.suspects["overlong-piece"] = true
		}
	}
	if track {
		te1 := s.torEvents()
		var em []peer.TorEvent
		if len(te1) > len(te0) {
			em = append(em, te1[len(te0):]...)
		}
		ov := sp.p.VerifEvents()
		if len(ov) > ov0 {
			em = append(em, ov[ov0:]...)
		}
		for _, e := range em {
			switch e := e.(type) {
			case peer.TorData:
				for _, b := range s.blocksOf(e.Index, e.Begin, e.Length) {
					ans(sp.p).answered[b]++
				}
			case peer.TorDrop:
				for _, b := range s.blocksOf(e.Index, e.Begin, e.Length) {
					ans(sp.p).answered[b]++
				}
			}
		}
		s.checkAnswers(sp)
	}
	s.scanLog()
	if s.under {
		s.violate("eek:inflight-underflow", "noteInFlight found a zero counter (\"Eek!  InFlight underflow.\")")
	}
	if s.aunder {
		s.violate("eek:available-underflow", "noteAvailable found a zero counter (\"Eek!  Available underflow.\")")
	}
	if s.sat {
		s.violate("eek:overflow", "a counter saturated")
	}
	if strings.HasPrefix(res, "reservation-mismatch") || res == "unexpected-true" || res == "reserved-nothing" ||
		strings.HasPrefix(res, "finalise-error") {
		s.violate("webseed:"+strings.SplitN(res, ":", 2)[0], res)
	}
	if s.quiescent() {
		s.checkQuiescent(false)
	}
	return obs
}

// checkAnswers: accepted == answered + pending, per block, for a live peer.
func (s *sim) checkAnswers(sp *simPeer) {
	a := ans(sp.p)
	pending := map[uint32]int{}
	if sp.alive {
		st := sp.p.VerifState()
		for _, c := range st.Queue {
			pending[c]++
		}
		for _, r := range st.Requested {
			pending[r.Index]++
		}
		evs := drainPeerEv(sp.p.Event)
		for _, e := range evs {
			if r, ok := e.(peer.PeerRequest); ok {
				for _, c := range r.Chunks {
					pending[c]++
				}
			}
			sp.p.Event <- e
		}
	} else {
		for _, c := range s.deadRequests(sp) {
			pending[c]++
		}
	}
	keys := map[uint32]bool{}
	for k := range a.accepted {
		keys[k] = true
	}
	for k := range a.answered {
		keys[k] = true
	}
	for k := range pending {
		keys[k] = true
	}
	for b := range keys {
		acc, an, pe := a.accepted[b], a.answered[b], pending[b]
		if acc == an+pe {
			continue
		}
		kind := "answers:lost"
		if an+pe > acc {
			kind = "answers:duplicate-or-unrequested"
		}
		cause := "other"
		switch {
		case s.suspects["empty-piece"] && an+pe < acc:
			cause = "empty-piece"
		case s.suspects["overlong-piece"] && an+pe > acc:
			cause = "overlong-piece"
		}
		s.violate(kind+":"+cause, fmt.Sprintf("peer %s block %d: accepted %d, answered %d, pending %d",
			s.peerIndex(sp.p), b, acc, an, pe))
		// resynchronise so that one defect is reported once
		a.accepted[b] = an + pe
	}
}

func (s *sim) checkQuiescent(final bool) {
	nch := s.nchunks()
	if !s.metaKnown {
		nch = 0 // no in-flight counters before the metadata is known
	}
	want := make([]int, nch)
	bump := func(c uint32) {
		if int(c) < nch {
			want[c]++
		}
	}
	for _, sp := range s.peers {
		if !sp.alive {
			continue
		}
		st := sp.p.VerifState()
		for _, c := range st.Queue {
			bump(c)
		}
		for _, r := range st.Requested {
			bump(r.Index)
		}
	}
	for _, w := range s.writers {
		if !w.open {
			continue
		}
		off, cnt, _ := w.w.State()
		for _, b := range s.blocksOf(w.idx, off, cnt) {
			bump(b)
		}
	}
	got := s.t.VerifInFlight()
	lastShort := s.length%CS != 0
	nontrivial := false
	for b := 0; b < nch; b++ {
		if got[b] != 0 {
			nontrivial = true
		}
		if int(got[b]) == want[b] {
			continue
		}
		var kind string
		if int(got[b]) > want[b] {
			kind = "inflight-leak:other"
			left := false
			for _, sp := range s.peers {
				if !sp.alive {
					for _, c := range s.deadRequests(sp) {
						if int(c) == b {
							left = true
						}
					}
				}
			}
			switch {
			case lastShort && b == nch-1:
				kind = "inflight-leak:short-last-block"
			case left:
				kind = "inflight-leak:requests-left-in-exited-peer-queue"
			case s.suspects["empty-piece"]:
				kind = "inflight-leak:empty-piece"
			}
		} else {
			kind = "inflight-undercount:other"
			if s.suspects["overlong-piece"] {
				kind = "inflight-undercount:overlong-piece"
			}
		}
		s.violate(kind, fmt.Sprintf("quiescent: inFlight[%d]=%d but %d request(s) outstanding (geometry ps=%d len=%d)",
			b, got[b], want[b], s.ps, s.length))
	}
	av := s.t.VerifAvailable()
	npc := s.npieces()
	for _, sp := range s.peers {
		if sp.alive {
			if n := sp.p.VerifState().Bitmap.Len(); n > npc {
				npc = n // bits set before the metadata was known may lie beyond the torrent
			}
		}
	}
	for i := 0; i < npc || i < len(av); i++ {
		w := 0
		for _, sp := range s.peers {
			if sp.alive && sp.p.VerifState().Bitmap.Get(i) {
				w++
			}
		}
		g := 0
		if i < len(av) {
			g = int(av[i])
		}
		if g != 0 {
			nontrivial = true
		}
		if g != w {
			kind := "available-mismatch:over"
			if g < w {
				kind = "available-mismatch:under"
			}
			s.violate(kind, fmt.Sprintf("quiescent: available[%d]=%d but %d connected peer(s) advertise it", i, g, w))
		}
	}
	if final {
		for _, sp := range s.peers {
			if rq := s.deadRequests(sp); len(rq) != 0 {
				s.violate("exited-peer:unaccounted-requests-in-event-queue",
					fmt.Sprintf("peer %s left with PeerRequests for %v still in its Event channel", s.peerIndex(sp.p), rq))
			}
		}
	}
	tag := "quiescent"
	if final {
		tag = "final"
	}
	cs := strings.Join(s.c.Case(), ";")
	key := fmt.Sprintf("%d:", vhlib.Fnv64([]byte(cs)))
	if len(cs) > 200 {
		cs = cs[:200]
	}
	s.c.Count(tag, key+cs, nontrivial)
}

// endOfCase: used by -replay (the generator issues the closing ops itself).
func (s *sim) endOfCase() {
	if s.t == nil {
		return
	}
	if s.quiescent() {
		all := true
		for _, sp := range s.peers {
			if sp.alive {
				all = false
			}
		}
		for _, w := range s.writers {
			if w.open {
				all = false
			}
		}
		s.checkQuiescent(all)
	}
}
