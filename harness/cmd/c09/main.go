// vh c09: scheduler bookkeeping (Torrent.inFlight / Torrent.available) of the real
// tor.Torrent and real peer.Peers, driven without goroutines: the harness IS the scheduler
// of channel deliveries.  Every op line is executed on the real objects and answered with
// the whole bookkeeping state, which the Lean model (Model/Sched.lean) must reproduce
// line for line.  Independently of the model the property oracle is evaluated whenever
// all channels are empty (see oracle.go).  A second mode (mode2.go, thorough tier) runs
// the real goroutines.
package main

import (
	"bytes"
	"context"
	"crypto/sha1"
	"fmt"
	"strconv"
	"strings"
	"time"

	"github.com/jech/storrent/config"
	"github.com/jech/storrent/hash"
	"github.com/jech/storrent/peer"
	"github.com/jech/storrent/protocol"
	"github.com/jech/storrent/tor"
	"github.com/jech/storrent/tor/piece"
	"github.com/jech/storrent/webseed"

	"verifharness/vhlib"
)

const CS = 16384

type simPeer struct {
	p          *peer.Peer
	alive      bool
	present    bool
	fast       bool
	evcap      int
	wcap       int
	writerDone chan struct{}
}

type simWriter struct {
	w    *tor.VerifWriter
	idx  uint32
	o, l uint32
	pos  uint32 // bytes of the range handed to Write so far
	open bool
}

type sim struct {
	c       *vhlib.Ctx
	t       *tor.Torrent
	ps      uint32
	length  int64
	tcap    int
	content []byte
	hashes  []hash.Hash
	peers   []*simPeer
	writers []*simWriter
	logbuf  bytes.Buffer
	sat     bool
	under   bool
	aunder  bool
	// what the generator did that is suspected to break conservation (violation kinds)
	suspects map[string]bool
	ctx      context.Context
	// magnet mode: the metadata is not known yet
	metaKnown bool
	info      []byte
}

func (s *sim) nchunks() int      { return int((s.length + CS - 1) / CS) }
func (s *sim) npieces() int      { return int((s.length + int64(s.ps) - 1) / int64(s.ps)) }
func (s *sim) cpp() uint32       { return s.ps / CS }
func contentByte(pos int64) byte { return byte((pos*131 + pos/251 + 7) % 253) }

// stubSeed is a web seed of a type maybeWebseed does not know: the real reservation loop
// runs, then maybeWebseed panics ("Eek") instead of spawning an HTTP goroutine; the
// harness recovers and drives the web-seed writer itself.
type stubSeed struct{}

func (stubSeed) URL() string          { return "stub:" }
func (stubSeed) Ready(idle bool) bool { return true }
func (stubSeed) Rate() float64        { return 0 }
func (stubSeed) Count() int           { return 0 }

var _ webseed.Webseed = stubSeed{}

func metainfo(ps uint32, length int64) ([]byte, []byte, []hash.Hash) {
	content := make([]byte, length)
	for i := range content {
		content[i] = contentByte(int64(i))
	}
	var pieces []byte
	var hashes []hash.Hash
	for o := int64(0); o < length; o += int64(ps) {
		e := o + int64(ps)
		if e > length {
			e = length
		}
		h := sha1.Sum(content[o:e])
		pieces = append(pieces, h[:]...)
		hashes = append(hashes, hash.Hash(append([]byte(nil), h[:]...)))
	}
	var b bytes.Buffer
	fmt.Fprintf(&b, "d4:infod6:lengthi%de4:name1:t12:piece lengthi%de6:pieces%d:", length, ps, len(pieces))
	b.Write(pieces)
	b.WriteString("ee")
	return b.Bytes(), content, hashes
}

func (s *sim) reset() {
	if s.t != nil {
		s.t.Pieces.Del()
	}
	s.t = nil
	s.peers = nil
	s.writers = nil
	s.logbuf.Reset()
	s.sat, s.under, s.aunder = false, false, false
	s.suspects = map[string]bool{}
	perPeer = map[*peer.Peer]*answers{}
}

func (s *sim) doInit(ps uint32, length int64, tcap int, magnet bool) string {
	s.reset()
	if ps == 0 || ps%CS != 0 || length <= 0 {
		return "bad-geom"
	}
	mi, content, hashes := metainfo(ps, length)
	var t *tor.Torrent
	var err error
	s.info = mi[len("d4:info") : len(mi)-1]
	if magnet {
		// a magnet link: only the info-hash is known; the metadata arrives later through
		// the real TorMetaData handler (op `metac`)
		h := sha1.Sum(s.info)
		t, err = tor.New("", hash.Hash(h[:]), "t", nil, 0, nil, nil)
	} else {
		t, err = tor.ReadTorrent("", bytes.NewReader(mi))
	}
	if err != nil {
		return "bad-geom"
	}
	s.t, s.ps, s.length, s.tcap, s.content, s.hashes = t, ps, length, tcap, content, hashes
	s.metaKnown = !magnet
	tor.VerifInit(t, tcap, 1)
	t.Log.SetOutput(&s.logbuf)
	t.VerifSetUseWebseeds(true)
	t.VerifSetWebseeds([]webseed.Webseed{stubSeed{}})
	if magnet {
		if tor.VerifMetadataVote(t, uint32(len(s.info))) != nil || tor.VerifResizeMetadata(t, uint32(len(s.info))) != nil {
			return "bad-geom"
		}
	} else {
		// no hash goroutine in this mode: `fin` runs Pieces.Finalise synchronously instead
		t.VerifSetPieceHashes(nil)
	}
	return "init"
}

// ---------------------------------------------------------------- channel helpers

func drainPeerEv(ch chan peer.PeerEvent) []peer.PeerEvent {
	var out []peer.PeerEvent
	for {
		select {
		case e := <-ch:
			out = append(out, e)
		default:
			return out
		}
	}
}

func (s *sim) torEvents() []peer.TorEvent {
	var out []peer.TorEvent
	n := len(s.t.Event)
	for i := 0; i < n; i++ {
		e := <-s.t.Event
		out = append(out, e)
		s.t.Event <- e
	}
	return out
}

// blockDead fills the command channels of exited peers that are still in t.peers, so
// that the torrent's writePeer deterministically takes its `<-p.Done` branch; the returned
// function restores them.
func (s *sim) blockDead(except *peer.Peer) func() {
	type saved struct {
		sp *simPeer
		ev []peer.PeerEvent
	}
	var all []saved
	for _, sp := range s.peers {
		if !sp.alive && sp.present && sp.p != except {
			ev := drainPeerEv(sp.p.Event)
			for i := 0; i < sp.evcap; i++ {
				sp.p.Event <- peer.PeerInterested{}
			}
			all = append(all, saved{sp, ev})
		}
	}
	return func() {
		for _, sv := range all {
			drainPeerEv(sv.sp.p.Event)
			for _, e := range sv.ev {
				sv.sp.p.Event <- e
			}
		}
	}
}

func (s *sim) peerIndex(p *peer.Peer) string {
	if p == nil {
		return "ws"
	}
	for i, sp := range s.peers {
		if sp.p == p {
			return fmt.Sprintf("p%d", i)
		}
	}
	return "p?"
}

func joinU32(l []uint32) string {
	if len(l) == 0 {
		return "-"
	}
	ss := make([]string, len(l))
	for i, v := range l {
		ss[i] = strconv.FormatUint(uint64(v), 10)
	}
	return strings.Join(ss, ",")
}

func b01(b bool) string {
	if b {
		return "1"
	}
	return "0"
}

func (s *sim) evStr(e peer.TorEvent) string {
	switch e := e.(type) {
	case peer.TorData:
		return fmt.Sprintf("data:%s:%d:%d:%d:%s", s.peerIndex(e.Peer), e.Index, e.Begin, e.Length, b01(e.Complete))
	case peer.TorDrop:
		return fmt.Sprintf("drop:%d:%d:%d", e.Index, e.Begin, e.Length)
	case peer.TorPeerBitmap:
		var bits []uint32
		e.Bitmap.Range(func(i int) bool { bits = append(bits, uint32(i)); return true })
		return fmt.Sprintf("bitmap:%s:%s:%s", s.peerIndex(e.Peer), joinU32(bits), b01(e.Have))
	case peer.TorPeerHave:
		return fmt.Sprintf("have:%s:%d:%s", s.peerIndex(e.Peer), e.Index, b01(e.Have))
	case peer.TorPeerUnchoke:
		return fmt.Sprintf("unchoke:%s:%s", s.peerIndex(e.Peer), b01(e.Unchoke))
	case peer.TorPeerGoaway:
		return fmt.Sprintf("goaway:%s", s.peerIndex(e.Peer))
	}
	return fmt.Sprintf("other:%T", e)
}

func pevStr(e peer.PeerEvent) string {
	switch e := e.(type) {
	case peer.PeerRequest:
		return "request:" + joinU32(e.Chunks)
	case peer.PeerCancel:
		return fmt.Sprintf("cancel:%d", e.Chunk)
	case peer.PeerCancelPiece:
		return fmt.Sprintf("cancelpiece:%d", e.Index)
	case peer.PeerDone:
		return "done"
	case peer.PeerMetadataComplete:
		return "meta"
	}
	return fmt.Sprintf("other:%T", e)
}

// ---------------------------------------------------------------- state line

func (s *sim) scanLog() {
	if s.logbuf.Len() == 0 {
		return
	}
	l := s.logbuf.String()
	s.logbuf.Reset()
	if strings.Contains(l, "overflow") {
		s.sat = true
	}
	if strings.Contains(l, "InFlight underflow") {
		s.under = true
	}
	if strings.Contains(l, "Available underflow") {
		s.aunder = true
	}
}

func (s *sim) stateStr() string {
	s.scanLog()
	var b strings.Builder
	inf := s.t.VerifInFlight()
	ss := make([]string, len(inf))
	for i, v := range inf {
		ss[i] = strconv.Itoa(int(v))
	}
	av := s.t.VerifAvailable()
	as := make([]string, len(av))
	for i, v := range av {
		as[i] = strconv.Itoa(int(v))
	}
	avs := "-"
	if len(as) > 0 {
		avs = strings.Join(as, ",")
	}
	var pcs []string
	for i := 0; s.metaKnown && i < s.npieces(); i++ {
		n, bm := s.t.Pieces.PieceBitmap(uint32(i))
		var pb strings.Builder
		for k := 0; k < n; k++ {
			if bm.Get(k) {
				pb.WriteByte('1')
			} else {
				pb.WriteByte('0')
			}
		}
		if s.t.Pieces.Complete(uint32(i)) {
			pb.WriteByte('C')
		}
		pcs = append(pcs, pb.String())
	}
	ifs := "-"
	if s.metaKnown && len(ss) > 0 {
		ifs = strings.Join(ss, ",")
	}
	fmt.Fprintf(&b, "if=%s av=%s te=%d fl=%s%s%s pc=%s | ", ifs, avs, len(s.t.Event),
		b01(s.sat), b01(s.under), b01(s.aunder), strings.Join(pcs, " "))
	var ps []string
	for i, sp := range s.peers {
		if sp.alive {
			st := sp.p.VerifState()
			var bl []uint32
			st.Bitmap.Range(func(k int) bool { bl = append(bl, uint32(k)); return true })
			q := "-"
			if len(st.Queue) > 0 {
				q = joinU32(st.Queue)
			}
			r := "-"
			if len(st.Requested) > 0 {
				rs := make([]string, len(st.Requested))
				for k, v := range st.Requested {
					rs[k] = strconv.FormatUint(uint64(v.Index), 10)
					if v.Cancelled {
						rs[k] += "*"
					}
				}
				r = strings.Join(rs, ",")
			}
			ps = append(ps, fmt.Sprintf("p%d: a=1%s u=%s i=%s%s nil=%s b=%s f=%s q=%s r=%s ev=%d ov=%d w=%d", i, b01(sp.present),
				b01(st.Unchoked), b01(st.HasInfo), b01(st.IsSeed), b01(st.BitmapNil), joinU32(bl), joinU32(st.Fast), q, r,
				len(sp.p.Event), len(sp.p.VerifEvents()), len(sp.p.VerifWriter())))
		} else {
			ps = append(ps, fmt.Sprintf("p%d: a=0%s rq=%s ov=%d", i, b01(sp.present), joinU32(s.deadRequests(sp)),
				len(sp.p.VerifEvents())))
		}
	}
	b.WriteString(strings.Join(ps, "; "))
	b.WriteString(" | ")
	var ws []string
	for j, w := range s.writers {
		off, cnt, bl := w.w.State()
		ws = append(ws, fmt.Sprintf("w%d: %d %d %d %d %s", j, w.idx, off, cnt, bl, b01(w.open)))
	}
	b.WriteString(strings.Join(ws, "; "))
	return b.String()
}

// deadRequests: the chunks of the PeerRequests left in an exited peer's command channel.
func (s *sim) deadRequests(sp *simPeer) []uint32 {
	evs := drainPeerEv(sp.p.Event)
	var out []uint32
	for _, e := range evs {
		if r, ok := e.(peer.PeerRequest); ok {
			out = append(out, r.Chunks...)
		}
		sp.p.Event <- e
	}
	return out
}

// ---------------------------------------------------------------- executing one op

func atoi(x string) (int, bool) {
	v, err := strconv.Atoi(x)
	return v, err == nil && v >= 0
}

func parseList(x string) ([]uint32, bool) {
	if x == "-" {
		return nil, true
	}
	var out []uint32
	for _, f := range strings.Split(x, ",") {
		v, err := strconv.ParseUint(f, 10, 32)
		if err != nil {
			return nil, false
		}
		out = append(out, uint32(v))
	}
	return out, true
}

func (s *sim) setRate(sp *simPeer, slow bool) {
	if slow {
		sp.p.VerifSetRtt(0, 0)
		sp.p.VerifSetDownload(0)
	} else {
		sp.p.VerifSetRtt(10*time.Second, 0)
		sp.p.VerifSetDownload(1e30)
	}
}

func (s *sim) pieceData(idx, begin uint32, n int) []byte {
	d := protocol.GetBuffer(n)
	base := int64(idx)*int64(s.ps) + int64(begin)
	for k := 0; k < n; k++ {
		pos := base + int64(k)
		if pos < s.length {
			d[k] = s.content[pos]
		} else {
			d[k] = 0
		}
	}
	return d
}

// exec runs one op line on the real objects and returns the observation line.
func (s *sim) exec(line string) (obs string) {
	f := strings.Fields(line)
	if len(f) == 0 {
		return "bad-op"
	}
	if f[0] == "init" || f[0] == "minit" {
		if len(f) != 4 {
			return "bad-op"
		}
		ps, ok1 := atoi(f[1])
		ln, err := strconv.ParseInt(f[2], 10, 64)
		tc, ok3 := atoi(f[3])
		if !ok1 || err != nil || !ok3 {
			return "bad-op"
		}
		r := s.doInit(uint32(ps), ln, tc, f[0] == "minit")
		if r != "init" {
			return r
		}
		return "init | " + s.stateStr()
	}
	if f[0] == "chunk" {
		return s.execChunk(f)
	}
	if s.t == nil {
		return "bad-op"
	}
	var res string
	p := vhlib.Recover(func() { res = s.execOp(f) })
	if p != "" {
		s.c.Violate("panic:"+f[0], "real code panicked: "+p, s.c.Case())
		return "panic"
	}
	if res == "bad-op" {
		return res
	}
	return res + " | " + s.stateStr()
}

func (s *sim) execChunk(f []string) string {
	if len(f) != 4 {
		return "bad-op"
	}
	ps, ok1 := atoi(f[1])
	ln, err := strconv.ParseInt(f[2], 10, 64)
	c, err2 := strconv.ParseUint(f[3], 10, 32)
	if !ok1 || err != nil || err2 != nil || ps == 0 || ps%CS != 0 || ln <= 0 {
		return "bad-op"
	}
	var pcs piece.Pieces
	pcs.MetadataComplete(uint32(ps), ln)
	p := peer.VerifNewPeer(peer.VerifPeerOpts{Pieces: &pcs, Info: []byte("x"), WriterCap: 1,
		TorEvent: make(chan peer.TorEvent, 1), TorDone: make(chan struct{}), WriterDone: make(chan struct{})})
	i, b := peer.VerifFromChunk(p, uint32(c))
	sz := peer.VerifChunkSize(p, uint32(c))
	back := peer.VerifToChunk(p, i, b)
	// oracle (C09 chunk arithmetic): the pair names the block's true position
	cpp := uint64(ps) / CS
	nch := uint64((ln + CS - 1) / CS)
	if uint64(c) < nch {
		wantI, wantB := uint64(c)/cpp, (uint64(c)%cpp)*CS
		wantSz := uint64(CS)
		if (uint64(c)+1)*CS > uint64(ln) {
			wantSz = uint64(ln) - uint64(c)*CS
		}
		if uint64(i) != wantI || uint64(b) != wantB || uint64(back) != uint64(c) {
			kind := "chunk-arith:fromChunk"
			if uint64(c) >= 1<<18 && uint64(ps)&(uint64(ps)-1) != 0 {
				kind = "chunk-arith:fromChunk:chunk>=2^18:piece-length-not-power-of-two"
			}
			s.c.Violate(kind, fmt.Sprintf("ps=%d len=%d chunk=%d: fromChunk=(%d,%d) want (%d,%d), toChunk back=%d",
				ps, ln, c, i, b, wantI, wantB, back), []string{strings.Join(f, " ")})
		}
		if uint64(sz) != wantSz {
			s.c.Violate("chunk-arith:chunkSize", fmt.Sprintf("ps=%d len=%d chunk=%d: chunkSize=%d want %d", ps, ln, c, sz, wantSz),
				[]string{strings.Join(f, " ")})
		}
	}
	s.c.Count("chunk", strings.Join(f, " "), true)
	return fmt.Sprintf("chunk %d %d %d %d", i, b, sz, back)
}

func (s *sim) peerArg(x string) (*simPeer, int, bool) {
	i, ok := atoi(x)
	if !ok || i >= len(s.peers) {
		return nil, 0, false
	}
	return s.peers[i], i, true
}

func (s *sim) execOp(f []string) string {
	switch f[0] {
	case "conn":
		if len(f) != 4 {
			return "bad-op"
		}
		ev, ok1 := atoi(f[2])
		wc, ok2 := atoi(f[3])
		if !ok1 || !ok2 || (f[1] != "0" && f[1] != "1") {
			return "bad-op"
		}
		wd := make(chan struct{})
		var info []byte
		if s.metaKnown {
			info = s.t.Info
		}
		p := peer.VerifNewPeer(peer.VerifPeerOpts{Fast: f[1] == "1", Pieces: &s.t.Pieces, Info: info,
			WriterCap: wc, TorEvent: s.t.Event, TorDone: s.t.Done, WriterDone: wd,
			Hash: s.t.Hash, Id: hash.Hash(make([]byte, 20))})
		p.VerifSetEventCap(ev)
		if wc == 0 {
			close(wd) // a dead connection writer: every write fails at once with io.EOF
		}
		s.t.VerifAddPeer(p)
		s.peers = append(s.peers, &simPeer{p: p, alive: true, present: true, fast: f[1] == "1", evcap: ev, wcap: wc, writerDone: wd})
		return "ok"
	case "req":
		if len(f) != 4 {
			return "bad-op"
		}
		sp, _, ok := s.peerArg(f[1])
		cs, ok2 := parseList(f[2])
		if !ok || !ok2 || (f[3] != "0" && f[3] != "1") {
			return "bad-op"
		}
		if !sp.present || !s.metaKnown {
			return "bad-op"
		}
		for _, c := range cs {
			if int(c) >= s.nchunks() {
				return "bad-op"
			}
		}
		var err error
		if sp.alive {
			err = tor.VerifRequest(s.t, sp.p, cs)
		} else if f[3] == "1" {
			// select with both the send and Done ready: retry until the send wins
			for k := 0; k < 1000; k++ {
				err = tor.VerifRequest(s.t, sp.p, cs)
				if err == nil || len(sp.p.Event) >= sp.evcap {
					break
				}
			}
		} else {
			saved := drainPeerEv(sp.p.Event)
			for i := 0; i < sp.evcap; i++ {
				sp.p.Event <- peer.PeerInterested{}
			}
			err = tor.VerifRequest(s.t, sp.p, cs)
			drainPeerEv(sp.p.Event)
			for _, e := range saved {
				sp.p.Event <- e
			}
		}
		switch {
		case err == nil:
			return "ok"
		case err == peer.ErrCongested:
			return "congested"
		default:
			return "eof"
		}
	case "push":
		if len(f) < 3 {
			return "bad-op"
		}
		sp, _, ok := s.peerArg(f[1])
		if !ok {
			return "bad-op"
		}
		var e peer.PeerEvent
		switch {
		case f[2] == "cancel" && len(f) == 4:
			v, ok := atoi(f[3])
			if !ok {
				return "bad-op"
			}
			e = peer.PeerCancel{Chunk: uint32(v)}
		case f[2] == "cancelpiece" && len(f) == 4:
			v, ok := atoi(f[3])
			if !ok {
				return "bad-op"
			}
			e = peer.PeerCancelPiece{Index: uint32(v)}
		case f[2] == "done" && len(f) == 3:
			e = peer.PeerDone{}
		case f[2] == "meta" && len(f) == 3:
			e = peer.PeerMetadataComplete{Info: s.t.Info}
		default:
			return "bad-op"
		}
		if !sp.present || !sp.alive {
			return "dead"
		}
		select {
		case sp.p.Event <- e:
			return "ok"
		default:
			return "block"
		}
	case "pev":
		if len(f) != 3 {
			return "bad-op"
		}
		sp, _, ok := s.peerArg(f[1])
		if !ok {
			return "bad-op"
		}
		if !sp.alive {
			return "dead"
		}
		select {
		case e := <-sp.p.Event:
			s.setRate(sp, f[2] == "1")
			err := peer.VerifHandleEvent(sp.p, e)
			if err != nil {
				return "err"
			}
			return pevStr(e)
		default:
			return "none"
		}
	case "msg":
		return s.execMsg(f)
	case "tick":
		if len(f) != 4 {
			return "bad-op"
		}
		sp, _, ok := s.peerArg(f[1])
		rto, ok2 := atoi(f[2])
		if !ok || !ok2 {
			return "bad-op"
		}
		if !sp.alive {
			return "dead"
		}
		// rtt is an input of this step (rto = rtt + 4*rttvar); the rate estimate likewise
		sp.p.VerifSetDownload(map[bool]float64{true: 0, false: 1e30}[f[3] == "1"])
		sp.p.VerifSetRtt(time.Duration(rto)*time.Millisecond, 0)
		exp := peer.VerifExpireRequests(sp.p)
		if exp {
			// maybeRequest's maxdelay uses rto as well: force the `slow` outcome explicitly
			s.setRate(sp, f[3] == "1")
			peer.VerifMaybeRequest(sp.p)
		}
		return "fin=" + b01(exp)
	case "age":
		if len(f) != 3 {
			return "bad-op"
		}
		sp, _, ok := s.peerArg(f[1])
		d, ok2 := atoi(f[2])
		if !ok || !ok2 {
			return "bad-op"
		}
		sp.p.VerifAge(time.Duration(d) * time.Millisecond)
		return "ok"
	case "exit":
		if len(f) != 2 {
			return "bad-op"
		}
		sp, _, ok := s.peerArg(f[1])
		if !ok {
			return "bad-op"
		}
		if !sp.alive {
			return "dead"
		}
		peer.VerifExit(sp.p)
		sp.alive = false
		return "ok"
	case "flush":
		if len(f) != 2 {
			return "bad-op"
		}
		sp, _, ok := s.peerArg(f[1])
		if !ok {
			return "bad-op"
		}
		n0 := len(sp.p.VerifEvents())
		sp.p.VerifFlushEvents()
		return fmt.Sprintf("n=%d", n0-len(sp.p.VerifEvents()))
	case "tev":
		if len(f) != 1 {
			return "bad-op"
		}
		select {
		case e := <-s.t.Event:
			var leaving *peer.Peer
			if g, ok := e.(peer.TorPeerGoaway); ok {
				leaving = g.Peer // delPeer does not write to it, and (fix C09-03) drains its queue
			}
			restore := s.blockDead(leaving)
			err := tor.VerifHandleEvent(s.ctx, s.t, e)
			restore()
			if g, ok := e.(peer.TorPeerGoaway); ok {
				for _, sp := range s.peers {
					if sp.p == g.Peer {
						sp.present = false
					}
				}
			}
			if err != nil {
				return "err"
			}
			return s.evStr(e)
		default:
			return "none"
		}
	case "wdrain":
		if len(f) != 2 {
			return "bad-op"
		}
		sp, _, ok := s.peerArg(f[1])
		if !ok {
			return "bad-op"
		}
		n := 0
		for {
			select {
			case <-sp.p.VerifWriter():
				n++
				continue
			default:
			}
			break
		}
		return fmt.Sprintf("n=%d", n)
	case "wfill":
		if len(f) != 3 {
			return "bad-op"
		}
		sp, _, ok := s.peerArg(f[1])
		k, ok2 := atoi(f[2])
		if !ok || !ok2 {
			return "bad-op"
		}
		if len(sp.p.VerifWriter())+k > sp.wcap {
			return "bad-op"
		}
		for i := 0; i < k; i++ {
			sp.p.VerifWriter() <- protocol.KeepAlive{}
		}
		return "ok"
	case "ws":
		if len(f) != 2 {
			return "bad-op"
		}
		idx, ok := atoi(f[1])
		if !ok || idx >= s.npieces() || !s.metaKnown {
			return "bad-op"
		}
		before := s.t.VerifInFlight()
		done := false
		p := vhlib.Recover(func() { done = tor.VerifMaybeWebseed(s.ctx, s.t, uint32(idx), false) })
		if p == "" {
			if done {
				return "unexpected-true"
			}
			return "fin=0"
		}
		if p != "Eek" {
			panic(p)
		}
		after := s.t.VerifInFlight()
		first, n := -1, 0
		for i := range after {
			if after[i] != before[i] {
				if first < 0 {
					first = i
				}
				n++
			}
		}
		if first < 0 {
			return "reserved-nothing"
		}
		o := (uint32(first) - uint32(idx)*s.cpp()) * CS
		ho, hl := s.t.Pieces.Hole(uint32(idx), o)
		if hl > 1024*1024 {
			hl = 1024 * 1024
		}
		if ho != o || int((hl+CS-1)/CS) != n {
			return fmt.Sprintf("reservation-mismatch:o=%d:hole=%d,%d:n=%d", o, ho, hl, n)
		}
		s.writers = append(s.writers, &simWriter{w: tor.VerifNewWriter(s.t, uint32(idx), o, hl), idx: uint32(idx), o: o, l: hl, open: true})
		return fmt.Sprintf("res=%d:%d", o, hl)
	case "ww":
		if len(f) != 3 {
			return "bad-op"
		}
		j, ok := atoi(f[1])
		n, ok2 := atoi(f[2])
		if !ok || !ok2 || j >= len(s.writers) {
			return "bad-op"
		}
		w := s.writers[j]
		if !w.open {
			return "dead"
		}
		if len(s.t.Event) >= s.tcap {
			return "block"
		}
		data := s.pieceData(w.idx, w.o+w.pos, n)
		q, _ := w.w.Write(data) // the error (short write, AddData refusing) does not matter here
		w.pos += uint32(q)
		return fmt.Sprintf("n=%d", q)
	case "wc":
		if len(f) != 2 {
			return "bad-op"
		}
		j, ok := atoi(f[1])
		if !ok || j >= len(s.writers) {
			return "bad-op"
		}
		w := s.writers[j]
		if !w.open {
			return "dead"
		}
		if len(s.t.Event) >= s.tcap {
			return "block"
		}
		w.w.Close()
		w.open = false
		return "ok"
	case "metac":
		// the TorMetaData that completes the metadata, through the real handler: gotMetadata
		// verifies the hash, MetadataComplete builds the geometry, writePeers sends
		// PeerMetadataComplete to every peer, periodicRequest is called (idle rate 0)
		if len(f) != 1 || s.metaKnown {
			return "bad-op"
		}
		for _, sp := range s.peers {
			if sp.alive && sp.present && len(sp.p.Event) >= sp.evcap {
				return "block"
			}
		}
		var from *peer.Peer
		if len(s.peers) > 0 {
			from = s.peers[0].p
		} else {
			from = peer.VerifNewPeer(peer.VerifPeerOpts{Pieces: &s.t.Pieces, WriterCap: 1, TorEvent: s.t.Event,
				TorDone: s.t.Done, WriterDone: make(chan struct{}), Hash: s.t.Hash, Id: hash.Hash(make([]byte, 20))})
		}
		restore := s.blockDead(nil)
		err := tor.VerifHandleEvent(s.ctx, s.t, peer.TorMetaData{Peer: from, Size: uint32(len(s.info)), Index: 0,
			Data: append([]byte(nil), s.info...)})
		restore()
		if err != nil {
			return "err"
		}
		st := s.t.VerifInfoState()
		if !st.InfoComplete {
			return "metadata-not-complete"
		}
		s.t.VerifSetPieceHashes(nil)
		s.metaKnown = true
		return "ok"
	case "fin":
		if len(f) != 2 {
			return "bad-op"
		}
		idx, ok := atoi(f[1])
		if !ok || idx >= s.npieces() || !s.metaKnown {
			return "bad-op"
		}
		done, _, err := s.t.Pieces.Finalise(uint32(idx), s.hashes[idx])
		if err != nil {
			return "finalise-error:" + err.Error()
		}
		return "fin=" + b01(done)
	}
	return "bad-op"
}

func (s *sim) execMsg(f []string) string {
	if len(f) < 4 {
		return "bad-op"
	}
	sp, _, ok := s.peerArg(f[1])
	if !ok || (f[2] != "0" && f[2] != "1") {
		return "bad-op"
	}
	a := f[4:]
	num := func(k int) (uint32, bool) {
		if k >= len(a) {
			return 0, false
		}
		v, err := strconv.ParseUint(a[k], 10, 32)
		return uint32(v), err == nil
	}
	var m protocol.Message
	var tag func() string
	if !sp.alive {
		return "dead"
	}
	st := sp.p.VerifState()
	te0 := s.torEvents()
	ov0 := len(sp.p.VerifEvents())
	emitted := func() []peer.TorEvent {
		te1 := s.torEvents()
		out := append([]peer.TorEvent(nil), te1[len(te0):]...)
		ov := sp.p.VerifEvents()
		if len(ov) > ov0 {
			out = append(out, ov[ov0:]...)
		}
		return out
	}
	wasMember := func(c uint32) bool {
		for _, q := range st.Queue {
			if q == c {
				return true
			}
		}
		for _, r := range st.Requested {
			if r.Index == c {
				return true
			}
		}
		return false
	}
	nilTag := func(base string) func() string {
		return func() string {
			if st.BitmapNil {
				return base
			}
			return base + "-change"
		}
	}
	switch f[3] {
	case "piece":
		i, ok1 := num(0)
		b, ok2 := num(1)
		l, ok3 := num(2)
		if !ok1 || !ok2 || !ok3 || len(a) != 3 || l > 1<<20 {
			return "bad-op"
		}
		m = protocol.Piece{Index: i, Begin: b, Data: s.pieceData(i, b, int(l))}
		tag = func() string {
			if !wasMember(peer.VerifToChunk(sp.p, i, b)) {
				return "piece-unrequested"
			}
			for _, e := range emitted() {
				switch e.(type) {
				case peer.TorData:
					return "piece-data"
				case peer.TorDrop:
					// the first data/drop event answers the removed request
					c := peer.VerifToChunk(sp.p, i, b)
					sz := peer.VerifChunkSize(sp.p, c)
					switch {
					case l == 0:
						return "piece-drop-empty"
					case l < sz:
						return "piece-drop-short"
					case l > sz:
						return "piece-drop-long"
					}
					return "piece-drop-refused"
				}
			}
			return "piece-unrequested"
		}
	case "reject":
		i, ok1 := num(0)
		b, ok2 := num(1)
		if !ok1 || !ok2 || len(a) != 2 {
			return "bad-op"
		}
		m = protocol.RejectRequest{Index: i, Begin: b, Length: CS}
		tag = func() string {
			c := peer.VerifToChunk(sp.p, i, b)
			for _, r := range st.Requested {
				if r.Index == c {
					return "reject"
				}
			}
			return "reject-unknown"
		}
	case "choke":
		m = protocol.Choke{}
		tag = func() string {
			if sp.fast {
				return "choke-fast"
			}
			return "choke"
		}
	case "unchoke":
		m = protocol.Unchoke{}
		tag = func() string { return "unchoke" }
	case "have":
		i, ok1 := num(0)
		if !ok1 || len(a) != 1 {
			return "bad-op"
		}
		m = protocol.Have{Index: i}
		tag = func() string {
			if st.Bitmap.Get(int(i)) {
				return "have-redundant"
			}
			return "have"
		}
	case "bitfield":
		if len(a) != 1 {
			return "bad-op"
		}
		bits, ok1 := parseList(a[0])
		if !ok1 {
			return "bad-op"
		}
		n := (s.npieces() + 7) / 8
		for _, x := range bits {
			if int(x/8)+1 > n {
				n = int(x/8) + 1
			}
		}
		if n > 4096 {
			return "bad-op"
		}
		bf := make([]byte, n)
		for _, x := range bits {
			bf[x/8] |= 1 << (7 - x%8)
		}
		m = protocol.Bitfield{Bitfield: bf}
		tag = nilTag("bitfield")
	case "haveall":
		m = protocol.HaveAll{}
		if st.HasInfo {
			tag = nilTag("haveall")
		} else {
			tag = nilTag("haveall-nometa")
		}
	case "havenone":
		m = protocol.HaveNone{}
		tag = nilTag("havenone")
	case "donthave":
		i, ok1 := num(0)
		if !ok1 || len(a) != 1 {
			return "bad-op"
		}
		m = protocol.ExtendedDontHave{Subtype: 3, Index: i}
		tag = func() string {
			if st.Bitmap.Get(int(i)) {
				return "donthave"
			}
			return "donthave-redundant"
		}
	case "allowedfast":
		i, ok1 := num(0)
		if !ok1 || len(a) != 1 {
			return "bad-op"
		}
		m = protocol.AllowedFast{Index: i}
		tag = func() string {
			for _, x := range st.Fast {
				if x == i {
					return "allowedfast-dup"
				}
			}
			return "allowedfast"
		}
	case "bad":
		m = protocol.Unknown{}
		tag = func() string { return "bad" }
	default:
		return "bad-op"
	}
	s.setRate(sp, f[2] == "1")
	err := peer.VerifHandleMessage(sp.p, m)
	if err != nil {
		return "err"
	}
	return tag()
}

// ---------------------------------------------------------------- main

func main() {
	c := vhlib.Init("c09")
	c.Rep.Rule = "a case is a history (op lines from `init` to the final all-zero check); nontrivial = it reached a quiescent point with a non-zero counter"
	config.SetIdleRate(0) // periodicRequest (called by the TorMetaData handler) must not start idle downloads
	s := &sim{c: c, ctx: context.Background(), suspects: map[string]bool{}}
	if c.Replay != "" {
		c.NewCase()
		for _, l := range c.ReplayLines() {
			if strings.HasPrefix(l, "init ") || strings.HasPrefix(l, "minit ") {
				s.endOfCase()
				c.NewCase()
			}
			s.do(l)
		}
		s.endOfCase()
		c.Close()
		return
	}
	// vhlib.NewRand(seed+1) is NewRand(seed) advanced by one call: decorrelate the seeds
	z := (c.Seed + 0x632BE59BD9B4E019) * 0xBF58476D1CE4E5B9
	z = (z ^ (z >> 29)) * 0x94D049BB133111EB
	g := &gen{s: s, c: c, r: vhlib.NewRand(z ^ (z >> 32))}
	g.chunkStream()
	for i := 0; i < c.N; i++ {
		g.history()
	}
	if c.Tier == "thorough" {
		runMode2(c, 6+int(c.Seed%3))
	}
	s.reset()
	c.Close()
}

var _ = config.ChunkSize
