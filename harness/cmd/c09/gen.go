package main

import (
	"fmt"
	"strings"

	"github.com/jech/storrent/peer"

	"verifharness/vhlib"
)

type gen struct {
	s *sim
	c *vhlib.Ctx
	r *vhlib.Rand
}

var geoms = [][2]int64{
	{16384, 16384}, {16384, 1000}, {16384, 40000}, {32768, 50000}, {32768, 65536},
	{32768, 32768*2 + 16384}, {49152, 49152*2 + 20000}, {65536, 65536 + 16384 + 5},
	{65536, 65536 * 3}, {131072, 131072 + 70000}, {49152, 49152 + 16385}, {32768, 32767},
}

// chunkStream: fromChunk / toChunk / chunkSize against the model and the arithmetic oracle,
// including chunk numbers >= 2^18 with piece lengths that are not powers of two.
func (g *gen) chunkStream() {
	g.c.NewCase()
	type gm struct {
		ps  int64
		len int64
	}
	gs := []gm{{49152, 6 << 30}, {16384 * 3, 5<<30 + 12345}, {16384 * 5, 7<<30 + 1}, {1 << 20, 8 << 30},
		{16384 * 7, 4<<30 + 16384*3}, {32768, 50000}, {16384, 1000}, {49152, 49152*2 + 20000}, {16384 * 6, 1 << 33}}
	for _, m := range gs {
		nch := (m.len + CS - 1) / CS
		cands := []int64{0, 1, 2, nch - 1, nch - 2, 1 << 18, 1<<18 + 1, 1<<18 - 1, 1 << 19, 3 << 17, nch / 2}
		for k := 0; k < 12; k++ {
			cands = append(cands, int64(g.r.U64()%uint64(nch)))
		}
		for _, c := range cands {
			if c < 0 || c >= nch {
				continue
			}
			line := fmt.Sprintf("chunk %d %d %d", m.ps, m.len, c)
			g.s.do(line)
		}
	}
}

func (g *gen) alive() []int {
	var out []int
	for i, sp := range g.s.peers {
		if sp.alive {
			out = append(out, i)
		}
	}
	return out
}

func (g *gen) present() []int {
	var out []int
	for i, sp := range g.s.peers {
		if sp.present {
			out = append(out, i)
		}
	}
	return out
}

func (g *gen) pick(l []int) int { return l[g.r.Intn(len(l))] }

func (g *gen) slow() string {
	if g.r.Chance(35) {
		return "1"
	}
	return "0"
}

// peerOp runs an op that makes peer i handle something; an error return is followed by
// the exit path, as in Run.
func (g *gen) peerOp(i int, line string) string {
	sp := g.s.peers[i]
	if sp.alive && sp.wcap > 0 {
		st := sp.p.VerifState()
		if len(sp.p.VerifWriter())+len(st.Requested)+int(g.s.cpp())+2 > sp.wcap {
			g.s.do(fmt.Sprintf("wdrain %d", i))
		}
	}
	obs := g.s.do(line)
	if strings.HasPrefix(obs, "err") && sp.alive {
		g.s.do(fmt.Sprintf("exit %d", i))
	}
	return obs
}

func (g *gen) pev(i int) { g.peerOp(i, fmt.Sprintf("pev %d %s", i, g.slow())) }

// tev: the torrent handles one event; first make sure no writePeer can block.
func (g *gen) tev() {
	for i, sp := range g.s.peers {
		for k := 0; sp.alive && sp.present && sp.evcap-len(sp.p.Event) < 4 && k < 300; k++ {
			g.pev(i)
		}
	}
	g.s.do("tev")
}

func (g *gen) roomInTor() {
	for k := 0; len(g.s.t.Event) >= g.s.tcap && k < 10000; k++ {
		g.tev()
	}
}

// drain: deliver everything until every channel is empty.
func (g *gen) drain() {
	for round := 0; round < 100000; round++ {
		busy := false
		for i, sp := range g.s.peers {
			if len(sp.p.VerifEvents()) > 0 && len(g.s.t.Event) < g.s.tcap {
				g.s.do(fmt.Sprintf("flush %d", i))
				busy = true
			}
		}
		if len(g.s.t.Event) > 0 {
			g.tev()
			busy = true
		}
		for i, sp := range g.s.peers {
			if sp.alive && len(sp.p.Event) > 0 {
				g.pev(i)
				busy = true
			}
		}
		if !busy {
			return
		}
	}
}

func (g *gen) randChunks() string {
	n := 1 + g.r.Intn(4)
	var ss []string
	nch := g.s.nchunks()
	for k := 0; k < n; k++ {
		c := g.r.Intn(nch)
		if g.r.Chance(25) {
			c = nch - 1 // the last (possibly short) block
		}
		ss = append(ss, fmt.Sprint(c))
		if g.r.Chance(8) {
			ss = append(ss, fmt.Sprint(c))
		}
	}
	return strings.Join(ss, ",")
}

func (g *gen) advertise(i int) {
	np := g.s.npieces()
	switch g.r.Intn(12) {
	case 0, 1, 2:
		var bits []string
		for k := 0; k < np; k++ {
			if g.r.Chance(70) {
				bits = append(bits, fmt.Sprint(k))
			}
		}
		if g.r.Chance(3) {
			bits = append(bits, fmt.Sprint(np+g.r.Intn(9)))
		}
		l := "-"
		if len(bits) > 0 {
			l = strings.Join(bits, ",")
		}
		g.peerOp(i, fmt.Sprintf("msg %d %s bitfield %s", i, g.slow(), l))
	case 3, 4, 5:
		x := g.r.Intn(np)
		if g.r.Chance(3) {
			x = np + g.r.Intn(3)
		}
		g.peerOp(i, fmt.Sprintf("msg %d %s have %d", i, g.slow(), x))
	case 6, 7:
		g.peerOp(i, fmt.Sprintf("msg %d %s haveall", i, g.slow()))
	case 8:
		g.peerOp(i, fmt.Sprintf("msg %d %s havenone", i, g.slow()))
	case 9, 10:
		x := g.r.Intn(np)
		if g.r.Chance(3) {
			x = np + g.r.Intn(3)
		}
		g.peerOp(i, fmt.Sprintf("msg %d %s donthave %d", i, g.slow(), x))
	case 11:
		g.peerOp(i, fmt.Sprintf("msg %d %s allowedfast %d", i, g.slow(), g.r.Intn(np)))
	}
}

// answer: a Piece message, mostly for a block that peer i was asked for.
func (g *gen) answer(i int) {
	sp := g.s.peers[i]
	st := sp.p.VerifState()
	var c uint32
	var pool []uint32
	for _, r := range st.Requested {
		pool = append(pool, r.Index)
	}
	if len(pool) == 0 || g.r.Chance(15) {
		pool = append(pool, st.Queue...)
	}
	if len(pool) > 0 && !g.r.Chance(8) {
		c = pool[g.r.Intn(len(pool))]
	} else {
		c = uint32(g.r.Intn(g.s.nchunks()))
	}
	idx, begin := peer.VerifFromChunk(sp.p, c)
	sz := peer.VerifChunkSize(sp.p, c)
	l := sz
	switch g.r.Intn(20) {
	case 0, 1: // short
		l = uint32(g.r.Intn(int(sz)))
	case 2, 3: // empty
		l = 0
	case 4, 5: // over-long: two blocks
		l = 2 * CS
	case 6: // a little too long
		l = sz + 1 + uint32(g.r.Intn(100))
	case 7: // misaligned
		begin += uint32(1 + g.r.Intn(CS-1))
	case 8: // wrong piece
		idx = uint32(g.r.Intn(g.s.npieces() + 1))
	case 9: // beyond the piece
		begin += g.s.ps
	}
	if g.r.Chance(2) && sz == CS {
		l = CS + uint32(g.r.Intn(CS))
	}
	g.peerOp(i, fmt.Sprintf("msg %d %s piece %d %d %d", i, g.slow(), idx, begin, l))
}

func (g *gen) reject(i int) {
	sp := g.s.peers[i]
	st := sp.p.VerifState()
	var c uint32
	if len(st.Requested) > 0 && !g.r.Chance(15) {
		c = st.Requested[g.r.Intn(len(st.Requested))].Index
	} else {
		c = uint32(g.r.Intn(g.s.nchunks()))
	}
	idx, begin := peer.VerifFromChunk(sp.p, c)
	g.peerOp(i, fmt.Sprintf("msg %d %s reject %d %d", i, g.slow(), idx, begin))
}

func (g *gen) connect() {
	fast := g.r.Chance(55)
	ev := g.r.PickInt(8, 8, 16, 256)
	wc := g.r.PickInt(64, 64, 64, 64, 8, 0)
	g.s.do(fmt.Sprintf("conn %s %d %d", b01(fast), ev, wc))
	i := len(g.s.peers) - 1
	if g.r.Chance(85) {
		g.advertise(i)
	}
	if g.s.peers[i].alive && g.r.Chance(80) {
		g.peerOp(i, fmt.Sprintf("msg %d 0 unchoke", i))
	}
}

// premetaAdvert: what a peer may say about its pieces while we do not know the metadata:
// Have (also beyond the torrent), Bitfield, HaveAll, HaveNone, DontHave, in any combination,
// redundant and contradictory (e.g. HaveAll followed by a repeated Have).
func (g *gen) premetaAdvert(i int) {
	np := g.s.npieces()
	idx := func() int {
		if g.r.Chance(12) {
			return np + g.r.Intn(12) // not a piece of this torrent: only found out later
		}
		return g.r.Intn(np)
	}
	switch g.r.Intn(14) {
	case 0, 1, 2, 3:
		g.peerOp(i, fmt.Sprintf("msg %d %s have %d", i, g.slow(), idx()))
	case 4, 5:
		var bits []string
		for k := 0; k < np; k++ {
			if g.r.Chance(60) {
				bits = append(bits, fmt.Sprint(k))
			}
		}
		if g.r.Chance(15) {
			bits = append(bits, fmt.Sprint(np+g.r.Intn(20)))
		}
		l := "-"
		if len(bits) > 0 {
			l = strings.Join(bits, ",")
		}
		g.peerOp(i, fmt.Sprintf("msg %d %s bitfield %s", i, g.slow(), l))
	case 6, 7, 8:
		g.peerOp(i, fmt.Sprintf("msg %d %s haveall", i, g.slow()))
		if g.s.peers[i].alive && g.r.Chance(50) { // the redundant Have after HaveAll
			g.peerOp(i, fmt.Sprintf("msg %d %s have %d", i, g.slow(), idx()))
		}
	case 9:
		g.peerOp(i, fmt.Sprintf("msg %d %s havenone", i, g.slow()))
	case 10, 11:
		g.peerOp(i, fmt.Sprintf("msg %d %s donthave %d", i, g.slow(), idx()))
	case 12:
		g.peerOp(i, fmt.Sprintf("msg %d %s allowedfast %d", i, g.slow(), idx()))
	case 13:
		m := g.r.PickInt(0, 1, 2)
		g.peerOp(i, fmt.Sprintf("msg %d %s %s", i, g.slow(), []string{"choke", "unchoke", "piece 0 0 16384"}[m]))
	}
}

// beforeMetadata: the peers talk while the metadata is unknown, then the metadata completes
// (real TorMetaData handler, PeerMetadataComplete to every peer) at an arbitrary moment.
func (g *gen) beforeMetadata() {
	s := g.s
	steps := g.r.Intn(25)
	for k := 0; k < steps; k++ {
		al := g.alive()
		switch x := g.r.Intn(100); {
		case x < 55 && len(al) > 0:
			g.premetaAdvert(g.pick(al))
		case x < 62 && len(al) > 0:
			g.pev(g.pick(al))
		case x < 66 && len(al) > 0:
			s.do(fmt.Sprintf("exit %d", g.pick(al)))
		case x < 74:
			if len(s.peers) > 0 {
				s.do(fmt.Sprintf("flush %d", g.r.Intn(len(s.peers))))
			}
		case x < 90:
			g.tev()
		case x < 94 && len(s.peers) < 5:
			g.connect()
		default:
			if g.r.Chance(40) {
				g.drain()
			}
		}
	}
	// room for PeerMetadataComplete in every live peer's command channel
	for i, sp := range s.peers {
		for k := 0; sp.alive && sp.present && sp.evcap-len(sp.p.Event) < 4 && k < 300; k++ {
			g.pev(i)
		}
	}
	s.do("metac")
	switch g.r.Intn(3) {
	case 0:
		g.drain()
	case 1:
		for i, sp := range s.peers {
			if sp.alive && g.r.Bool() {
				g.pev(i)
			}
		}
	}
}

func (g *gen) history() {
	s := g.s
	g.c.NewCase()
	gm := geoms[g.r.Intn(len(geoms))]
	if g.r.Chance(2) {
		gm = [2]int64{2097152, 2097152 + 1200000}
	}
	tcap := g.r.PickInt(4, 8, 8, 64, 512)
	magnet := g.r.Chance(30)
	if magnet {
		s.do(fmt.Sprintf("minit %d %d %d", gm[0], gm[1], tcap))
	} else {
		s.do(fmt.Sprintf("init %d %d %d", gm[0], gm[1], tcap))
	}
	n := 2 + g.r.Intn(3)
	for k := 0; k < n; k++ {
		g.connect()
	}
	if magnet {
		g.beforeMetadata()
	}
	steps := 20 + g.r.Intn(60)
	for k := 0; k < steps; k++ {
		al := g.alive()
		pr := g.present()
		switch x := g.r.Intn(100); {
		case x < 18 && len(pr) > 0: // request
			i := g.pick(pr)
			after := "0"
			if !s.peers[i].alive && g.r.Chance(70) {
				after = "1"
			}
			s.do(fmt.Sprintf("req %d %s %s", i, g.randChunks(), after))
			if g.r.Chance(6) { // a burst: the command channel fills up (ErrCongested)
				for k := 0; k < 9; k++ {
					s.do(fmt.Sprintf("req %d %s %s", i, g.randChunks(), after))
				}
			}
		case x < 30 && len(al) > 0:
			g.pev(g.pick(al))
		case x < 46 && len(al) > 0:
			// prefer a peer that has been asked for something
			var busy []int
			for _, i := range al {
				st := s.peers[i].p.VerifState()
				if len(st.Requested)+len(st.Queue) > 0 {
					busy = append(busy, i)
				}
			}
			if len(busy) > 0 && !g.r.Chance(15) {
				g.answer(g.pick(busy))
			} else {
				g.answer(g.pick(al))
			}
		case x < 50 && len(al) > 0:
			g.reject(g.pick(al))
		case x < 56 && len(al) > 0:
			g.advertise(g.pick(al))
		case x < 60 && len(al) > 0:
			i := g.pick(al)
			m := "choke"
			if g.r.Bool() {
				m = "unchoke"
			}
			g.peerOp(i, fmt.Sprintf("msg %d %s %s", i, g.slow(), m))
		case x < 64 && len(al) > 0:
			i := g.pick(al)
			s.do(fmt.Sprintf("age %d %d", i, g.r.PickInt(10000, 10000, 20000, 30000)))
		case x < 69 && len(al) > 0:
			i := g.pick(al)
			g.peerOp(i, fmt.Sprintf("tick %d %d %s", i, g.r.PickInt(2000, 60000), g.slow()))
		case x < 74 && len(al) > 0: // cancel
			i := g.pick(al)
			sp := s.peers[i]
			if len(sp.p.Event) >= sp.evcap {
				g.pev(i)
				break
			}
			if g.r.Chance(25) {
				s.do(fmt.Sprintf("push %d cancelpiece %d", i, g.r.Intn(s.npieces())))
			} else {
				st := sp.p.VerifState()
				c := uint32(g.r.Intn(s.nchunks()))
				if len(st.Requested) > 0 && g.r.Chance(60) {
					c = st.Requested[g.r.Intn(len(st.Requested))].Index
				} else if len(st.Queue) > 0 && g.r.Chance(60) {
					c = st.Queue[g.r.Intn(len(st.Queue))]
				}
				s.do(fmt.Sprintf("push %d cancel %d", i, c))
			}
		case x < 77 && len(al) > 0: // disconnect, at any moment
			i := g.pick(al)
			switch g.r.Intn(6) {
			case 0:
				if len(s.peers[i].p.Event) < s.peers[i].evcap {
					s.do(fmt.Sprintf("push %d done", i))
				}
			case 1:
				if len(s.peers[i].p.Event) < s.peers[i].evcap {
					s.do(fmt.Sprintf("push %d meta", i))
				}
			case 2:
				g.peerOp(i, fmt.Sprintf("msg %d 0 bad", i))
			default:
				s.do(fmt.Sprintf("exit %d", i))
			}
		case x < 82:
			if len(s.peers) > 0 {
				i := g.r.Intn(len(s.peers))
				s.do(fmt.Sprintf("flush %d", i))
			}
		case x < 90:
			g.tev()
		case x < 92:
			s.do(fmt.Sprintf("ws %d", g.r.Intn(s.npieces())))
		case x < 95 && len(s.writers) > 0:
			j := g.r.Intn(len(s.writers))
			g.roomInTor()
			nb := g.r.PickInt(0, 1, 100, 8192, 16383, 16384, 16385, 20000, 32768, 40000, 49152)
			s.do(fmt.Sprintf("ww %d %d", j, nb))
		case x < 96 && len(s.writers) > 0:
			g.roomInTor()
			s.do(fmt.Sprintf("wc %d", g.r.Intn(len(s.writers))))
		case x < 97:
			s.do(fmt.Sprintf("fin %d", g.r.Intn(s.npieces())))
		case x < 98 && len(al) > 0:
			i := g.pick(al)
			sp := s.peers[i]
			if sp.wcap > 0 {
				room := sp.wcap - len(sp.p.VerifWriter())
				if room > 0 {
					s.do(fmt.Sprintf("wfill %d %d", i, 1+g.r.Intn(min(room, sp.wcap/2+1))))
				}
			}
		case x < 99 && len(s.peers) < 5:
			g.connect()
		default:
			if g.r.Chance(50) {
				g.drain()
			}
		}
	}
	g.drain()
	// everybody leaves, every writer is closed: the counters must return to zero
	for i, sp := range s.peers {
		if sp.alive {
			if g.r.Chance(30) && sp.present {
				// a last request that the peer will never look at
				s.do(fmt.Sprintf("req %d %s 0", i, g.randChunks()))
			}
			s.do(fmt.Sprintf("exit %d", i))
			if g.r.Chance(30) {
				s.do(fmt.Sprintf("req %d %s 1", i, g.randChunks()))
			}
		}
	}
	for j, w := range s.writers {
		if w.open {
			g.roomInTor()
			s.do(fmt.Sprintf("wc %d", j))
		}
	}
	g.drain()
	if s.quiescent() {
		s.checkQuiescent(true)
	} else {
		s.violate("harness:not-quiescent", "the final drain did not empty the channels")
	}
}
