// vh c01: "only hash-verified data is ever readable" — the real piece.Pieces under
// deterministic interleavings of AddData / Finalise / ReadAt / Expire / Del (see
// harness/piecelib), block arrivals valid, corrupt, duplicate, out of order, over-long,
// misaligned; non-zero reference content; oracle = piecelib/oracle.go.
package main

import "verifharness/piecelib"

func main() {
	piecelib.Main(piecelib.Config{Family: "c01", WAdd: 50, WFin: 16, WRead: 18, WExp: 5, WDel: 2,
		WMisc: 9, MaxStores: 1})
}
