// vh c06: protocol.Write against the Lean codec written from the BEPs (byte for byte),
// protocol.Read on those bytes, and concatenated streams cut at arbitrary points read
// through protocol.Reader over a chunking net.Conn with a non-empty init prefix.
package main

import (
	"bufio"
	"bytes"
	"errors"
	"fmt"
	"io"
	"net"
	"strings"
	"sync"
	"time"

	"github.com/jech/storrent/pex"
	"github.com/jech/storrent/protocol"

	"verifharness/vhlib"
	"verifharness/wirecanon"
)

func errTok(err error) string {
	switch {
	case errors.Is(err, io.EOF), errors.Is(err, io.ErrUnexpectedEOF):
		return "!eof"
	case errors.Is(err, protocol.ErrParse):
		return "!parse"
	case err.Error() == "TLV too long":
		return "!toolong"
	}
	return "!ext"
}

func encodeMsg(m protocol.Message) ([]byte, string) {
	var buf bytes.Buffer
	w := bufio.NewWriter(&buf)
	var err error
	p := vhlib.Recover(func() { err = protocol.Write(w, clone(m), nil) })
	if p != "" {
		return nil, "panic: " + p
	}
	if err != nil {
		return nil, "err: " + err.Error()
	}
	w.Flush()
	return buf.Bytes(), ""
}

// clone: protocol.Write returns Piece buffers to the pool; never hand it our only copy.
func clone(m protocol.Message) protocol.Message {
	if p, ok := m.(protocol.Piece); ok {
		p.Data = append([]byte(nil), p.Data...)
		return p
	}
	return m
}

// v4first: the compact format carries IPv4 and IPv6 peers in separate lists, so a decoded
// PEX message has the IPv4 peers first (documented normalisation; peer lists are sets).
func v4first(ps []pex.Peer) []pex.Peer {
	var a, b []pex.Peer
	for _, p := range ps {
		if p.Addr.Addr().Is4() {
			a = append(a, p)
		} else {
			b = append(b, p)
		}
	}
	return append(a, b...)
}

func ownSub(m protocol.Message) protocol.Message {
	switch mm := m.(type) {
	case protocol.ExtendedPex:
		mm.Subtype = protocol.ExtPex
		mm.Added = v4first(mm.Added)
		mm.Dropped = v4first(mm.Dropped)
		return mm
	case protocol.ExtendedMetadata:
		mm.Subtype = protocol.ExtMetadata
		return mm
	case protocol.ExtendedDontHave:
		mm.Subtype = protocol.ExtDontHave
		return mm
	}
	return m
}

func doEnc(c *vhlib.Ctx, m protocol.Message) {
	op := "enc " + wirecanon.CanonFull(m)
	bs, bad := encodeMsg(m)
	if bad != "" {
		c.Emit(op, bad)
		c.Violate("write-fails:"+fmt.Sprintf("%T", m), bad, []string{op})
		return
	}
	cr := bytes.NewReader(bs)
	br := bufio.NewReader(cr)
	var back protocol.Message
	var err error
	p := vhlib.Recover(func() { back, err = protocol.Read(br, nil) })
	consumed := len(bs) - cr.Len() - br.Buffered()
	rt := ""
	switch {
	case p != "":
		rt = "!panic"
	case err != nil:
		rt = errTok(err)
		// extended messages: what the bencode decoder reports for a payload it rejects
		// (EOF vs syntax error) is not part of the comparison
		if len(bs) >= 5 && bs[4] == 20 && rt == "!eof" {
			rt = "!ext"
		}
	case back == nil:
		rt = "!nilnil"
	default:
		rt = wirecanon.Canon(back)
	}
	cs := fmt.Sprint(consumed)
	if err != nil && len(bs) >= 5 && bs[4] == 20 {
		cs = "?"
	}
	c.Emit(op, fmt.Sprintf("%s rt=%s c=%s", vhlib.Payload(bs), rt, cs))
	name := strings.TrimPrefix(fmt.Sprintf("%T", m), "protocol.")
	c.Count("enc/"+name, op, true)

	// oracle: with the sub-ids storrent itself negotiates, what it emits decodes back to
	// the same message and the whole frame is consumed
	if own := ownSub(m); sameSub(own, m) {
		m = own
		if p != "" || err != nil || back == nil {
			c.Violate("roundtrip:"+name, fmt.Sprintf("emitted message is not decoded back: %s", rt), []string{op})
		} else if wirecanon.Canon(back) != wirecanon.Canon(m) {
			c.Violate("roundtrip:"+name, fmt.Sprintf("decoded back as %s", trunc(wirecanon.Canon(back))), []string{op})
		} else if consumed != len(bs) {
			c.Violate("roundtrip-consumed:"+name, fmt.Sprintf("consumed %d of %d", consumed, len(bs)), []string{op})
		}
	}
}

func sameSub(a, b protocol.Message) bool {
	switch aa := a.(type) {
	case protocol.ExtendedPex:
		return aa.Subtype == b.(protocol.ExtendedPex).Subtype
	case protocol.ExtendedMetadata:
		return aa.Subtype == b.(protocol.ExtendedMetadata).Subtype
	case protocol.ExtendedDontHave:
		return aa.Subtype == b.(protocol.ExtendedDontHave).Subtype
	}
	return true
}

func trunc(s string) string {
	if len(s) > 300 {
		return s[:300] + "…"
	}
	return s
}

// chunkConn delivers a byte string in the given segments; one Read never crosses a cut.
type chunkConn struct {
	chunks [][]byte
}

func (c *chunkConn) Read(p []byte) (int, error) {
	for len(c.chunks) > 0 && len(c.chunks[0]) == 0 {
		c.chunks = c.chunks[1:]
	}
	if len(c.chunks) == 0 {
		return 0, io.EOF
	}
	n := copy(p, c.chunks[0])
	c.chunks[0] = c.chunks[0][n:]
	return n, nil
}
func (c *chunkConn) Write(p []byte) (int, error)        { return len(p), nil }
func (c *chunkConn) Close() error                       { return nil }
func (c *chunkConn) LocalAddr() net.Addr                { return &net.TCPAddr{} }
func (c *chunkConn) RemoteAddr() net.Addr               { return &net.TCPAddr{} }
func (c *chunkConn) SetDeadline(t time.Time) error      { return nil }
func (c *chunkConn) SetReadDeadline(t time.Time) error  { return nil }
func (c *chunkConn) SetWriteDeadline(t time.Time) error { return nil }

func readStream(stream []byte, cuts []int) []string {
	// cuts are ascending positions; the first segment is the init prefix
	var segs [][]byte
	prev := 0
	for _, k := range cuts {
		segs = append(segs, stream[prev:k])
		prev = k
	}
	segs = append(segs, stream[prev:])
	init := segs[0]
	conn := &chunkConn{chunks: segs[1:]}
	ch := make(chan protocol.Message, 4)
	done := make(chan struct{})
	go protocol.Reader(conn, init, nil, ch, done)
	// collect first, canonicalise afterwards: a decoded message must stay valid while the
	// reader goes on (no aliasing of the reader's internal buffer)
	var msgs []protocol.Message
	for m := range ch {
		msgs = append(msgs, m)
		if _, ok := m.(protocol.Error); ok || m == nil {
			break
		}
		if len(msgs) > 64 {
			break
		}
	}
	var out []string
	for _, m := range msgs {
		if e, ok := m.(protocol.Error); ok {
			out = append(out, errTok(e.Error))
			break
		}
		if m == nil {
			out = append(out, "!nilnil")
			break
		}
		out = append(out, wirecanon.Canon(m))
	}
	close(done)
	return out
}

func doStream(c *vhlib.Ctx, stream []byte, cuts []int, want []string, tag string) {
	cs := make([]string, len(cuts))
	for i, k := range cuts {
		cs[i] = fmt.Sprint(k)
	}
	cutStr := strings.Join(cs, ",")
	if cutStr == "" {
		cutStr = "-"
	}
	op := fmt.Sprintf("stream %s %s", vhlib.Hex(stream), cutStr)
	got := readStream(stream, cuts)
	c.Emit(op, strings.Join(got, " | "))
	c.Count("stream/"+tag, op, true)
	if want != nil {
		w := strings.Join(append(append([]string(nil), want...), "!eof"), " | ")
		if strings.Join(got, " | ") != w {
			c.Violate("stream:"+tag, fmt.Sprintf("cut at %s decodes to %s, expected %s", cutStr, trunc(strings.Join(got, " | ")), trunc(w)), []string{op})
		}
	}
}

// capConn records everything written to it (the remote end's view of the connection).
type capConn struct {
	chunkConn
	mu  sync.Mutex
	buf bytes.Buffer
}

func (c *capConn) Write(p []byte) (int, error) {
	c.mu.Lock()
	defer c.mu.Unlock()
	return c.buf.Write(p)
}

func (c *capConn) snapshot() []byte {
	c.mu.Lock()
	defer c.mu.Unlock()
	return append([]byte(nil), c.buf.Bytes()...)
}

// doWriter queues k messages at once for the real protocol.Writer goroutine (so that its
// batching / flushing logic is exercised) and compares the bytes that reach the connection
// with the concatenation of the individual encodings.
func doWriter(c *vhlib.Ctx, r *vhlib.Rand) {
	k := 1 + r.Intn(6)
	var ms []protocol.Message
	var parts []string
	var want []byte
	for i := 0; i < k; i++ {
		m := wirecanon.RandMsg(r, 400)
		bs, bad := encodeMsg(m)
		if bad != "" {
			return
		}
		ms = append(ms, m)
		parts = append(parts, wirecanon.CanonFull(m))
		want = append(want, bs...)
	}
	op := "wstream " + strings.Join(parts, " ;; ")
	conn := &capConn{}
	ch := make(chan protocol.Message, 64)
	done := make(chan struct{})
	split := r.Intn(k + 1) // first `split` messages queued before the writer starts
	for i := 0; i < split; i++ {
		ch <- clone(ms[i])
	}
	var werr error
	go func() { werr = protocol.Writer(conn, nil, ch, done) }()
	for i := split; i < k; i++ {
		ch <- clone(ms[i])
	}
	// the writer flushes when its queue runs empty; it is only told to stop (channel
	// closed, as peer.Run does on exit) after everything queued has reached the connection
	deadline := time.Now().Add(3 * time.Second)
	for len(conn.snapshot()) < len(want) && time.Now().Before(deadline) {
		time.Sleep(200 * time.Microsecond)
	}
	close(ch)
	select {
	case <-done:
	case <-time.After(5 * time.Second):
		c.Emit(op, "hang")
		c.Violate("writer-hang", "protocol.Writer did not finish", []string{op})
		return
	}
	got := conn.snapshot()
	c.Emit(op, vhlib.Payload(got))
	c.Count("wstream", op, true)
	if werr != nil || !bytes.Equal(got, want) {
		c.Violate("writer-stream", fmt.Sprintf("protocol.Writer emitted %d bytes (err=%v), expected the %d bytes of the %d queued messages in order", len(got), werr, len(want), k), []string{op})
	}
}

func genStream(c *vhlib.Ctx, r *vhlib.Rand) {
	k := 1 + r.Intn(5)
	var stream []byte
	var want []string
	for i := 0; i < k; i++ {
		m := ownSub(wirecanon.RandMsg(r, 600))
		bs, bad := encodeMsg(m)
		if bad != "" {
			return
		}
		stream = append(stream, bs...)
		want = append(want, wirecanon.Canon(m))
	}
	if len(stream) <= 80 && r.Chance(30) {
		// every single cut point
		for p := 0; p <= len(stream); p++ {
			doStream(c, stream, []int{p}, want, "single-cut")
		}
		return
	}
	switch r.Intn(4) {
	case 0: // byte at a time
		if len(stream) > 300 {
			stream, want = stream[:0], nil
			return
		}
		var cuts []int
		for p := 1; p < len(stream); p++ {
			cuts = append(cuts, p)
		}
		doStream(c, stream, cuts, want, "bytewise")
	case 1: // coalesced, everything in init
		doStream(c, stream, []int{len(stream)}, want, "all-init")
	case 2: // coalesced, nothing in init
		doStream(c, stream, []int{0}, want, "all-conn")
	default:
		var cuts []int
		p := 0
		for {
			p += 1 + r.Intn(1+len(stream)/3)
			if p >= len(stream) {
				break
			}
			cuts = append(cuts, p)
		}
		doStream(c, stream, cuts, want, "random-cuts")
	}
}

func main() {
	c := vhlib.Init("c06")
	defer c.Close()
	c.Rep.Rule = "messages drawn from the repo's own structs over 32-bit boundary values, payload sizes 0..cap, extension dictionaries with random field subsets, IPv4/IPv6 peer lists with flags; concatenations cut at every single point / bytewise / random points; distinct = distinct op lines, all non-trivial"
	if c.Replay != "" {
		for _, l := range c.ReplayLines() {
			c.Note("replay of enc lines is done by the model side only; stream lines are re-run")
			f := strings.Fields(l)
			if len(f) == 3 && f[0] == "stream" {
				var cuts []int
				if f[2] != "-" {
					for _, x := range strings.Split(f[2], ",") {
						var k int
						fmt.Sscan(x, &k)
						cuts = append(cuts, k)
					}
				}
				doStream(c, vhlib.UnHex(f[1]), cuts, nil, "replay")
			}
		}
		return
	}
	for i := 0; i < c.N; i++ {
		if c.R.Chance(65) {
			max := c.R.PickInt(300, 300, 300, 300, 20000, 1<<20-8)
			doEnc(c, wirecanon.RandMsg(c.R, max))
		} else if c.R.Chance(30) {
			doWriter(c, c.R)
		} else {
			genStream(c, c.R)
		}
	}
}
