// vh c03: piece memory accounting, eviction and release — the same engine as c01 with
// the mix shifted to Expire / Del / access times, up to three stores sharing alloc's
// counter, and every fourth case a tor.Expire case (real torrents in the global table,
// MemoryMark swept incl. 0, the table mutated between the sample and the walk).
package main

import "verifharness/piecelib"

func main() {
	piecelib.Main(piecelib.Config{Family: "c03", WAdd: 40, WFin: 14, WRead: 6, WExp: 16, WDel: 6,
		WMisc: 18, MaxStores: 3, PolicyEvery: 4})
}
