// vh c02: a real tor.Torrent (built by tor.ReadTorrent from a generated .torrent) with its
// real event loop, no network; a real tor.Reader driven through seek / read / complete /
// corrupt / evict / cancel / kill / close sequences, and the same file served through the
// real http handler chain (Range requests).  Every op is also replayed by the Lean model
// (Model/Reader.lean); the oracle (torsim.Runner) compares what the reader returned with the
// reference content and checks EOF, blocking, wake-up and withdrawal of priorities.
package main

import (
	"fmt"
	"github.com/jech/storrent/config"
	"sync"

	"verifharness/torsim"
	"verifharness/vhlib"
)

type caseOut struct {
	lines [][2]string
	viol  []vhlib.Violation
	tags  map[string]int
}

var rates = []int{20000, 3000, 100000, 786432}

func genLayout(r *vhlib.Rand) (ps int, files []int64, single bool) {
	ps = r.PickInt(16384, 16384, 32768, 32768, 49152, 65536)
	npieces := 2 + r.Intn(5)
	total := int64(npieces) * int64(ps)
	switch r.Intn(4) {
	case 0: // exact multiple of the piece size
	case 1:
		total -= int64(1 + r.Intn(ps-1))
	default:
		total -= int64(r.PickInt(1, 100, 16384, 16383, ps/2, ps-1))
	}
	if total <= 0 {
		total = int64(ps)
	}
	if r.Chance(30) {
		return ps, []int64{total}, true
	}
	nf := 1 + r.Intn(4)
	rem := total
	for i := 0; i < nf-1 && rem > 1; i++ {
		var l int64
		switch r.Intn(4) {
		case 0:
			l = int64(ps) // boundary on a piece boundary
		case 1:
			l = int64(1 + r.Intn(int(rem)-1))
		case 2:
			l = int64(r.PickInt(1, 2, 1000, 16384, ps+1, 2*ps-1))
		default:
			l = rem / int64(nf-i)
		}
		if l >= rem {
			l = rem - 1
		}
		if l <= 0 {
			l = 1
		}
		files = append(files, l)
		rem -= l
	}
	files = append(files, rem)
	return ps, files, false
}

// genBigLayout: total just above 4 GiB, piece size mostly not a power of two, six live
// pieces from the one before the piece containing offset 2^32.
func genBigLayout(r *vhlib.Rand) (ps int, files []int64, larg string) {
	ps = r.PickInt(49152, 49152, 81920, 16384*7, 32768)
	k0 := int((int64(1) << 32) / int64(ps))
	lo, hi := k0-1, k0+4
	total := int64(hi+1)*int64(ps) - int64(r.PickInt(0, 1, 100, ps/2, ps-1))
	f0 := int64(lo)*int64(ps) + int64(r.Intn(ps))
	files = []int64{f0}
	rem := total - f0
	nf := 1 + r.Intn(3)
	for i := 0; i < nf-1 && rem > 2; i++ {
		l := int64(1 + r.Intn(int(rem)-1))
		if r.Chance(40) {
			l = (int64(1)<<32 - (total - rem)) + int64(r.Intn(3)) - 1 // ends at 2^32 -1/0/+1
			if l <= 0 || l >= rem {
				l = rem / 2
			}
		}
		files = append(files, l)
		rem -= l
	}
	files = append(files, rem)
	return ps, files, fmt.Sprintf("%s@%d-%d", layoutArg(files, false), lo, hi)
}

func layoutArg(files []int64, single bool) string {
	s := "m:"
	if single {
		s = "s:"
	}
	for i, f := range files {
		if i > 0 {
			s += ","
		}
		s += fmt.Sprint(f)
	}
	return s
}

func runCase(seed uint64, caseNo int, rate int) caseOut {
	r := vhlib.NewRand(seed)
	if torsim.Aborted.Load() {
		return caseOut{}
	}
	ru := torsim.NewRunner()
	ru.Name = fmt.Sprintf("c02-%d-%d", seed, caseNo)
	switch x := r.Intn(100); {
	case x < 9:
		torsim.GenRaceCase(r, ru, rate)
		return caseOut{ru.Lines, ru.Viol, ru.Tags}
	case x < 13:
		torsim.GenFullCase(r, ru, rate)
		return caseOut{ru.Lines, ru.Viol, ru.Tags}
	case x < 17:
		torsim.GenFinaliseCase(r, ru, rate)
		return caseOut{ru.Lines, ru.Viol, ru.Tags}
	case x < 25:
		return runFuseCase(r, ru, rate)
	case x < 28:
		torsim.GenBystanderCase(r, ru, rate)
		return caseOut{ru.Lines, ru.Viol, ru.Tags}
	case x < 30:
		torsim.GenStallCase(r, ru, rate)
		return caseOut{ru.Lines, ru.Viol, ru.Tags}
	case x < 32:
		torsim.GenIdleCase(r, ru, rate)
		return caseOut{ru.Lines, ru.Viol, ru.Tags}
	}
	ps, files, single := genLayout(r)
	larg := layoutArg(files, single)
	big := r.Chance(7)
	if big {
		// a sparse torrent of more than 4 GiB: only the pieces around offset 2^32 have
		// real hashes; the readers' windows straddle 2^32 or lie above it
		ps, files, larg = genBigLayout(r)
		single = false
	}
	var total int64
	for _, f := range files {
		total += f
	}
	salt := r.Intn(1000)
	ru.Exec(fmt.Sprintf("rd new %d %d %d %d %s", ps, total, salt, rate, larg))
	if ru.S == nil {
		return caseOut{ru.Lines, ru.Viol, ru.Tags}
	}
	lo := ru.S.Lo              // first piece that can be verified
	n := ru.S.Hi - ru.S.Lo + 1 // their number
	base := int64(lo) * int64(ps)
	// chunks probes (uint32 wrap-around at index == max, aggressive prefetch, clamping)
	for i := 0; i < 2; i++ {
		limit := base + int64(r.Intn(int(total-base)+1))
		if r.Chance(40) {
			limit = total
		}
		var pos int64
		switch r.Intn(5) {
		case 0:
			pos = limit - int64(r.Intn(ps))
		case 1:
			pos = base + int64(r.Intn(int(limit-base)+2)) - 1
		case 2:
			pos = limit / int64(ps) * int64(ps)
		case 3:
			pos = int64(lo+r.Intn(n)) * int64(ps)
		default:
			pos = base + int64(r.Intn(int(limit-base)+1))
		}
		ru.Exec(fmt.Sprintf("rd chunks %d %d", pos, limit))
	}
	// the reader's window: a file, a sub-range, or the whole torrent
	fi := r.Intn(len(files))
	if big {
		fi = 1 + r.Intn(len(files)-1) // file 0 is the 4 GiB of padding below the window
	}
	var foff int64
	for i := 0; i < fi; i++ {
		foff += files[i]
	}
	flen := files[fi]
	off, ln := foff, flen
	switch r.Intn(6) {
	case 0:
		off, ln = base, total-base
		if big {
			off += int64(r.Intn(ps)) // straddles 2^32 (piece lo+1 contains it)
			ln = total - off
		}
	case 1:
		if flen > 2 {
			off = foff + int64(r.Intn(int(flen)/2))
			ln = int64(1 + r.Intn(int(foff+flen-off)))
		}
	case 2:
		if r.Chance(20) {
			ln = 0
		}
	}
	rid := 0
	ru.Exec(fmt.Sprintf("rd open %d %d %d", rid, off, ln))
	for i := 0; i < n; i++ {
		if r.Chance(40) {
			ru.Exec(fmt.Sprintf("rd complete %d", lo+i))
		}
	}
	cursor := func() (torsim.RInfo, int) {
		for _, ri := range ru.Readers() {
			if ri.Rid == rid {
				cp := int((ri.Offset + ri.Pos) / int64(ps))
				if cp >= lo+n {
					cp = lo + n - 1
				}
				if cp < lo {
					cp = lo
				}
				return ri, cp
			}
		}
		return torsim.RInfo{}, 0
	}
	nops := 10 + r.Intn(10)
	afterKill := 0
	for k := 0; k < nops && !torsim.Aborted.Load(); k++ {
		ri, cp := cursor()
		if ru.Dead() {
			if afterKill++; afterKill > 3 {
				break
			}
		}
		if ri.Cancelled && !ri.Blocked && r.Chance(70) {
			// a cancelled request is over: the front-ends open a new reader
			ru.Exec(fmt.Sprintf("rd read %d 100", rid))
			ru.Exec(fmt.Sprintf("rd close %d", rid))
			rid++
			ru.Exec(fmt.Sprintf("rd open %d %d %d", rid, off, ln))
			continue
		}
		if ri.Blocked {
			switch x := r.Intn(100); {
			case x < 50:
				ru.Exec(fmt.Sprintf("rd complete %d", cp))
			case x < 60:
				ru.Exec(fmt.Sprintf("rd complete %d", lo+r.Intn(n)))
			case x < 66:
				ru.Exec(fmt.Sprintf("rd garbage %d", lo+r.Intn(n)))
			case x < 72:
				ru.Exec(fmt.Sprintf("rd corrupt %d", cp))
			case x < 84:
				ru.Exec(fmt.Sprintf("rd evict %d", lo+r.Intn(n)))
			case x < 92 && !ru.Dead():
				ru.Exec(fmt.Sprintf("rd cancel %d", rid))
			case x < 96:
				ru.Exec("rd kill")
			default:
				ru.Exec("rd setconf")
			}
			continue
		}
		switch x := r.Intn(100); {
		case x < 45:
			nn := r.PickInt(1, 100, 4096, 16384, ps, ps+1, 2*ps+77, 3*ps, 32768)
			if r.Chance(2) && !ru.Dead() {
				nn = 0
			}
			ru.Exec(fmt.Sprintf("rd read %d %d", rid, nn))
		case x < 63:
			var o int64
			wh := 0
			switch r.Intn(8) {
			case 0:
				o = int64(r.Intn(int(ri.Length) + 10))
			case 1:
				o = int64(lo+r.Intn(n+1))*int64(ps) - ri.Offset // a piece boundary
			case 2:
				wh, o = 1, int64(r.Intn(2*ps))-int64(ps)
			case 3:
				wh, o = 2, -int64(r.Intn(int(ri.Length)+5))
			case 4:
				wh, o = 2, int64(r.Intn(3))
			case 5:
				wh, o = 3, 0
			case 6:
				wh, o = 0, -int64(1+r.Intn(5))
			default:
				o = ri.Length - int64(r.Intn(3))
			}
			ru.Exec(fmt.Sprintf("rd seek %d %d %d", rid, o, wh))
		case x < 72:
			ru.Exec(fmt.Sprintf("rd complete %d", lo+r.Intn(n)))
		case x < 84:
			i := lo + r.Intn(n)
			if r.Chance(60) {
				i = cp
			}
			ru.Exec(fmt.Sprintf("rd evict %d", i))
		case x < 87:
			if r.Chance(65) {
				// a corrupting peer's blocks land in the piece after the cursor's (or
				// anywhere): allocated, not verified
				i := cp + 1
				if i >= lo+n || r.Chance(30) {
					i = lo + r.Intn(n)
				}
				ru.Exec(fmt.Sprintf("rd garbage %d", i))
			} else {
				ru.Exec(fmt.Sprintf("rd corrupt %d", lo+r.Intn(n)))
			}
		case x < 90:
			ru.Exec(fmt.Sprintf("rd close %d", rid))
			if r.Chance(30) {
				ru.Exec(fmt.Sprintf("rd close %d", rid)) // double Close
			}
			if r.Chance(30) {
				ru.Exec(fmt.Sprintf("rd read %d 10", rid))
				ru.Exec(fmt.Sprintf("rd seek %d 0 0", rid))
			}
			rid++
			ru.Exec(fmt.Sprintf("rd open %d %d %d", rid, off, ln))
		case x < 92 && !ru.Dead():
			ru.Exec(fmt.Sprintf("rd cancel %d", rid))
		case x < 94:
			ru.Exec("rd kill")
		case x < 98 && !ru.Dead():
			// the file through the real HTTP handler: make its pieces available first
			first, last := int(foff/int64(ps)), int((foff+flen-1)/int64(ps))
			if flen == 0 {
				break
			}
			allThere := true
			for i := first; i <= last; i++ {
				for try := 0; try < 2 && !ru.IsComplete(i); try++ {
					ru.Exec(fmt.Sprintf("rd complete %d", i)) // a piece holding garbage fails once
				}
				allThere = allThere && ru.IsComplete(i)
			}
			if !allThere {
				break
			}
			a := int64(r.Intn(int(flen)))
			b := a + int64(r.Intn(int(flen-a)))
			switch r.Intn(8) {
			case 0:
				a, b = 0, flen-1
			case 1:
				b = flen + 100 // clamped
			case 2:
				a, b = flen+int64(r.Intn(3)), flen+5 // unsatisfiable
			}
			ru.Exec(fmt.Sprintf("rd http %d %d %d %d", foff, flen, a, b))
		default:
			ru.Exec(fmt.Sprintf("rd chunks %d %d", ri.Offset+ri.Pos, ri.Offset+ri.Length))
		}
	}
	if ri, _ := cursor(); !ri.Blocked && !ri.Closed {
		ru.Exec(fmt.Sprintf("rd close %d", rid))
	}
	ru.Close()
	return caseOut{ru.Lines, ru.Viol, ru.Tags}
}

// runFuseCase: 1-3 concurrent reads per handle through the real fuse node methods, some
// blocked on missing pieces, with per-read contexts the harness cancels.
func runFuseCase(r *vhlib.Rand, ru *torsim.Runner, rate int) caseOut {
	ps, files, single := genLayout(r)
	var total int64
	for _, f := range files {
		total += f
	}
	ru.Exec(fmt.Sprintf("rd new %d %d %d %d %s", ps, total, r.Intn(1000), rate, layoutArg(files, single)))
	if ru.S == nil {
		return caseOut{ru.Lines, ru.Viol, ru.Tags}
	}
	n := ru.S.N
	for i := 0; i < n; i++ {
		if r.Chance(45) {
			ru.Exec(fmt.Sprintf("rdx complete %d", i))
		}
	}
	fi := r.Intn(len(files))
	flen := files[fi]
	ru.Exec(fmt.Sprintf("rdx fopen 0 %d", fi))
	next := 0
	var out []int
	type rq struct {
		off  int64
		size int
	}
	reads := map[int]rq{}
	var retry []rq // reads that were interrupted: the application / kernel retries them
	var foff int64
	for i := 0; i < fi; i++ {
		foff += files[i]
	}
	rounds := 2 + r.Intn(3)
	for k := 0; k < rounds && !torsim.Aborted.Load(); k++ {
		nreads := 1 + r.Intn(3)
		// a read that starts in an available piece and runs into a missing one: it copies
		// part of its data, then waits
		if flen > 1 && r.Chance(60) {
			first, last := int(foff/int64(ps)), int((foff+flen-1)/int64(ps))
			for i := first; i < last; i++ {
				if ru.IsComplete(i) && !ru.IsComplete(i+1) {
					lo := int64(i)*int64(ps) - foff
					if lo < 0 {
						lo = 0
					}
					hi := int64(i+1)*int64(ps) - foff // first byte of the missing piece
					off := lo + int64(r.Intn(int(hi-lo)))
					size := int(hi-off) + 1 + r.Intn(ps)
					ru.Exec(fmt.Sprintf("rdx fread 0 %d %d %d", next, off, size))
					reads[next] = rq{off, size}
					out = append(out, next)
					next++
					nreads--
					break
				}
			}
		}
		for j := 0; j < nreads; j++ {
			off := int64(r.Intn(int(flen) + 1))
			switch r.Intn(4) {
			case 0:
				off = 0
			case 1:
				off = flen - int64(r.Intn(int(flen)+1))/3
			}
			size := r.PickInt(1, 4096, 16384, ps, ps+5, 2*ps, 131072)
			ru.Exec(fmt.Sprintf("rdx fread 0 %d %d %d", next, off, size))
			reads[next] = rq{off, size}
			out = append(out, next)
			next++
		}
		for step := 0; step < 4; step++ {
			switch x := r.Intn(100); {
			case x < 35 && len(out) > 0:
				j := r.Intn(len(out))
				ru.Exec(fmt.Sprintf("rdx fcancel %d", out[j]))
				retry = append(retry, reads[out[j]])
				out = append(out[:j], out[j+1:]...)
			case x < 75:
				ru.Exec(fmt.Sprintf("rdx complete %d", r.Intn(n)))
			case x < 85:
				ru.Exec(fmt.Sprintf("rdx evict %d", r.Intn(n)))
			case x < 92:
				ru.Exec(fmt.Sprintf("rdx garbage %d", r.Intn(n)))
			default:
				ru.Exec(fmt.Sprintf("rdx corrupt %d", r.Intn(n)))
			}
			ru.Exec("rdx fsettle")
		}
		// everything arrives: all reads of the handle must finish
		if r.Chance(60) {
			for i := 0; i < n; i++ {
				for try := 0; try < 2 && !ru.IsComplete(i); try++ {
					ru.Exec(fmt.Sprintf("rdx complete %d", i))
				}
			}
			ru.Exec("rdx fsettle")
			out = out[:0]
			// retries of the interrupted reads, at the same offset and right behind
			for _, q := range retry {
				ru.Exec(fmt.Sprintf("rdx fread 0 %d %d %d", next, q.off, q.size))
				next++
				ru.Exec("rdx fsettle")
				ru.Exec(fmt.Sprintf("rdx fread 0 %d %d %d", next, q.off+int64(q.size), 4096))
				next++
				ru.Exec("rdx fsettle")
			}
			retry = retry[:0]
		}
	}
	for _, id := range out {
		ru.Exec(fmt.Sprintf("rdx fcancel %d", id))
	}
	ru.Exec("rdx fsettle")
	ru.Exec("rdx frelease 0")
	ru.Close()
	return caseOut{ru.Lines, ru.Viol, ru.Tags}
}

func main() {
	config.SetIdleRate(torsim.IdleRateForCases)
	c := vhlib.Init("c02")
	c.Rep.Rule = "case = one generated torrent layout + one op sequence; nontrivial = the sequence made a Read block, wake, hit EOF or cross an eviction"
	if c.Replay != "" {
		ru := torsim.NewRunner()
		ru.Name = "c02-replay"
		for _, l := range c.ReplayLines() {
			if !ru.Exec(l) {
				ru.Lines = append(ru.Lines, [2]string{l, "bad-op"})
			}
		}
		ru.Close()
		flush(c, caseOut{ru.Lines, ru.Viol, ru.Tags}, 0)
		c.Close()
		return
	}
	workers := 12
	per := (c.N + len(rates) - 1) / len(rates)
	caseNo := 0
	for bi, rate := range rates {
		cnt := per
		if caseNo+cnt > c.N {
			cnt = c.N - caseNo
		}
		if cnt <= 0 {
			break
		}
		_ = bi
		outs := make([]caseOut, cnt)
		seeds := make([]uint64, cnt)
		for i := range seeds {
			seeds[i] = mix(c.Seed, uint64(caseNo+i))
		}
		var wg sync.WaitGroup
		sem := make(chan struct{}, workers)
		for i := 0; i < cnt; i++ {
			wg.Add(1)
			sem <- struct{}{}
			go func(i int) {
				defer wg.Done()
				defer func() { <-sem }()
				outs[i] = runCase(seeds[i], caseNo+i, rate)
			}(i)
		}
		wg.Wait()
		for i := range outs {
			flush(c, outs[i], caseNo+i)
		}
		caseNo += cnt
	}
	c.Close()
}

// mix decorrelates the per-case generators of neighbouring seeds.
func mix(seed, k uint64) uint64 {
	z := seed*0xD6E8FEB86659FD93 + k*0x9E3779B97F4A7C15 + 0x632BE59BD9B4E019
	z = (z ^ (z >> 32)) * 0xD6E8FEB86659FD93
	z = (z ^ (z >> 29)) * 0xBF58476D1CE4E5B9
	return z ^ (z >> 32)
}

func flush(c *vhlib.Ctx, o caseOut, caseNo int) {
	c.NewCase()
	key := ""
	for _, l := range o.lines {
		c.Emit(l[0], l[1])
		key += l[0] + ";"
	}
	nontrivial := false
	for t, n := range o.tags {
		c.Rep.Branches[t] += n
		if t == "read:block" || t == "read:wake" || t == "read:ret:eof" || t == "evict" || t == "x:settle" || t == "fuse:read" {
			nontrivial = true
		}
	}
	c.Count("case", key, nontrivial)
	c.Rep.Branches["case"]-- // Count added one; keep "case" = number of cases
	c.Rep.Branches["case"]++
	for _, v := range o.viol {
		c.Violate(v.Kind, v.Detail, v.Ops)
	}
}
