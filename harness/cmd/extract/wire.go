package main

import (
	"fmt"
	"go/ast"
	"go/token"
	"sort"
	"strings"
)

// guardOf recognises `if length <op> K { return nil, X }` / `if length-2 != K {...}` as the
// first statement of a case clause.
func guardOf(stmts []ast.Stmt, lenName string) (guard string, fail string) {
	guard, fail = ".none", ".other"
	if len(stmts) == 0 {
		return
	}
	ifs, ok := stmts[0].(*ast.IfStmt)
	if !ok || ifs.Init != nil || ifs.Else != nil {
		return
	}
	be, ok := ifs.Cond.(*ast.BinaryExpr)
	if !ok {
		return
	}
	k, okk := constInt(be.Y)
	if !okk {
		return
	}
	lhsIsLen := func(e ast.Expr) bool {
		id, ok := e.(*ast.Ident)
		return ok && id.Name == lenName
	}
	lhsIsLenMinus2 := func(e ast.Expr) bool {
		b, ok := e.(*ast.BinaryExpr)
		if !ok || b.Op != token.SUB || !lhsIsLen(b.X) {
			return false
		}
		v, ok := constInt(b.Y)
		return ok && v == 2
	}
	switch {
	case lhsIsLen(be.X) && be.Op == token.NEQ:
		guard = fmt.Sprintf("(.ne %d)", k)
	case lhsIsLen(be.X) && be.Op == token.LSS:
		guard = fmt.Sprintf("(.lt %d)", k)
	case lhsIsLenMinus2(be.X) && be.Op == token.NEQ:
		guard = fmt.Sprintf("(.subNe %d)", k)
	default:
		return ".none", ".other"
	}
	// body must be a single `return nil, X`
	if len(ifs.Body.List) == 1 {
		if rs, ok := ifs.Body.List[0].(*ast.ReturnStmt); ok && len(rs.Results) == 2 {
			if id, ok := rs.Results[0].(*ast.Ident); ok && id.Name == "nil" {
				switch x := rs.Results[1].(type) {
				case *ast.Ident:
					if x.Name == "ErrParse" {
						fail = ".errParse"
					} else if x.Name == "err" {
						fail = ".bareErr"
					}
				}
			}
		}
	}
	return
}

func genWireTable() {
	loadPkgConsts("config")
	loadPkgConsts("protocol")
	f := parse("protocol/reader.go")
	fd := findFunc(f, "Read")
	type grow struct {
		id, sub int64
		text    string
	}
	var grows []grow
	frameCap := int64(-1)
	if fd != nil {
		ast.Inspect(fd.Body, func(n ast.Node) bool {
			switch n := n.(type) {
			case *ast.IfStmt:
				// `if length > CAP { return nil, errors.New(...) }`
				if be, ok := n.Cond.(*ast.BinaryExpr); ok && be.Op == token.GTR {
					if id, ok := be.X.(*ast.Ident); ok && id.Name == "length" && frameCap < 0 {
						if v, ok := constInt(be.Y); ok {
							frameCap = v
						}
					}
				}
			case *ast.SwitchStmt:
				tag, _ := n.Tag.(*ast.Ident)
				if tag == nil {
					return true
				}
				if tag.Name == "tpe" {
					for _, cc := range n.Body.List {
						c := cc.(*ast.CaseClause)
						g, fl := guardOf(c.Body, "length")
						for _, e := range c.List {
							if v, ok := constInt(e); ok {
								grows = append(grows, grow{v, -1, fmt.Sprintf("  ⟨%d, none, %s, %s⟩", v, g, fl)})
							} else {
								grows = append(grows, grow{999, -1, fmt.Sprintf("  ⟨999, none, .none, .other⟩ /- unknown case %s -/", src(e))})
							}
						}
					}
				} else if tag.Name == "subtype" {
					names := map[string]int64{"ExtPex": 1, "ExtMetadata": 2, "ExtDontHave": 3, "ExtUploadOnly": 4}
					// names are re-read from requests.go below
					for k, v := range extConsts() {
						names[k] = v
					}
					for _, cc := range n.Body.List {
						c := cc.(*ast.CaseClause)
						if c.List == nil {
							continue // default
						}
						g, fl := guardOf(c.Body, "length")
						for _, e := range c.List {
							var v int64 = 999
							if iv, ok := constInt(e); ok {
								v = iv
							} else if id, ok := e.(*ast.Ident); ok {
								if nv, ok := names[id.Name]; ok {
									v = nv
								}
							}
							grows = append(grows, grow{20, v, fmt.Sprintf("  ⟨20, some %d, %s, %s⟩", v, g, fl)})
						}
					}
				}
			}
			return true
		})
	}
	// source order of the cases is irrelevant to behaviour: emit sorted by (id, sub-id)
	sort.SliceStable(grows, func(i, j int) bool {
		if grows[i].id != grows[j].id {
			return grows[i].id < grows[j].id
		}
		return grows[i].sub < grows[j].sub
	})
	var rows []string
	for _, g := range grows {
		rows = append(rows, g.text)
	}
	// writer table: the cases of the type switch in protocol.Write and the id each emits
	wf := parse("protocol/writer.go")
	wfd := findFunc(wf, "Write")
	var wrows []string
	if wfd != nil {
		ast.Inspect(wfd.Body, func(n ast.Node) bool {
			ts, ok := n.(*ast.TypeSwitchStmt)
			if !ok {
				return true
			}
			for _, cc := range ts.Body.List {
				c := cc.(*ast.CaseClause)
				if c.List == nil {
					continue
				}
				name := src(c.List[0])
				id := int64(-1)
				ast.Inspect(c, func(m ast.Node) bool {
					call, ok := m.(*ast.CallExpr)
					if !ok || id >= 0 {
						return true
					}
					fn, _ := call.Fun.(*ast.Ident)
					if fn == nil {
						return true
					}
					switch {
					case strings.HasPrefix(fn.Name, "sendMessage") && len(call.Args) >= 2:
						if v, ok := constInt(call.Args[1]); ok {
							id = v
						}
					case fn.Name == "sendExtended":
						id = 20
					case fn.Name == "append" && len(call.Args) == 2 && name == "Piece":
						if v, ok := constInt(call.Args[1]); ok {
							id = v
						}
					}
					return true
				})
				if name == "KeepAlive" {
					id = 0
				}
				wrows = append(wrows, fmt.Sprintf("  ⟨%s, %d⟩", leanStr(name), id))
			}
			return false
		})
	}
	sort.Strings(wrows)
	var b strings.Builder
	b.WriteString("import Storrent.Model.WireTable\n")
	b.WriteString("-- GENERATED by harness/cmd/extract from protocol/reader.go and protocol/writer.go; do not edit\n")
	b.WriteString("namespace Storrent.Gen\nopen Storrent.Wire\n")
	b.WriteString("def wireGuards : List GuardRow := [\n" + strings.Join(rows, ",\n") + " ]\n")
	if frameCap < 0 {
		frameCap = 0
	}
	fmt.Fprintf(&b, "def frameCap : Nat := %d\n", frameCap)
	b.WriteString("def writerTable : List WriterRow := [\n" + strings.Join(wrows, ",\n") + " ]\n")
	b.WriteString("end Storrent.Gen\n")
	writeIfChanged("WireTable.lean", b.String())
}

func extConsts() map[string]int64 {
	out := map[string]int64{}
	f := parse("protocol/requests.go")
	for _, d := range f.Decls {
		gd, ok := d.(*ast.GenDecl)
		if !ok || gd.Tok != token.CONST {
			continue
		}
		for _, s := range gd.Specs {
			vs := s.(*ast.ValueSpec)
			for i, n := range vs.Names {
				if i < len(vs.Values) {
					if v, ok := constInt(vs.Values[i]); ok {
						out[n.Name] = v
					}
				}
			}
		}
	}
	return out
}
