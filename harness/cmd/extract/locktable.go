package main

// locktable.go: Gen/LockTable.lean (C01, C03).  For every function of tor/piece/piece.go:
// every read / write of Piece.{data,bitmap,peers,state,time} and
// Pieces.{deleted,count,pieces,pieceSize,length}, and every call of another function of the
// file, with the lock state of `ps.mu` that syntactically DOMINATES it:
//   wlock / rlock   after ps.mu.Lock() / ps.mu.RLock() (a deferred Unlock holds to the end)
//   unlocked        exported entry points start here; after Unlock()/RUnlock()
//   (unexported helpers — complete(), busy(), addPeer, pieceChunks, setState, del … — are
//   SPLICED into their callers: their accesses and Lock/Unlock events are walked in place of
//   the call, with the lock state carried in and out, recursively (depth limit, recursion ⇒
//   unknown).  Rows never name a helper, so extract-method / inline-method refactorings inside
//   the package leave the table unchanged.  Exported callees are `call` rows.)
//   unknown         anything the walker cannot follow (branches that disagree, closures):
//                   fail-closed, Props/C01 rejects it
// `via` = plain | atomic (through sync/atomic or mono.{Load,Store}Atomic on &field) | call.
// `hold` numbers the lock acquisitions of the entry point in the order the walk meets them
// (0 = state on entry), so that "the test and the access happen under the same hold" is
// checkable.
// The rows are a sorted set: no line numbers, no multiplicities, no source order.

import (
	"fmt"
	"go/ast"
	"go/token"
	"sort"
	"strings"
	"unicode"
)

func init() { extraGens = append(extraGens, genLockTable) }

var ltPieceFields = map[string]bool{"data": true, "bitmap": true, "peers": true, "state": true, "time": true}
var ltPiecesFields = map[string]bool{"deleted": true, "count": true, "pieces": true, "pieceSize": true, "length": true}
var ltMutators = map[string]bool{"Set": true, "Reset": true, "Extend": true, "SetMultiple": true}
var ltAtomicRead = map[string]bool{"atomic.LoadUint32": true, "mono.LoadAtomic": true, "atomic.LoadInt64": true}
var ltAtomicWrite = map[string]bool{"atomic.CompareAndSwapUint32": true, "atomic.StoreUint32": true,
	"mono.StoreAtomic": true, "atomic.AddInt64": true, "atomic.SwapUint32": true}

type ltRow struct {
	fn, field, rw, via, lock string
	hold                     int
}

type ltState struct {
	lock string
	hold int
}

type ltFrame struct {
	exits       []ltState // lock state at every return of the spliced callee
	deferUnlock bool      // the callee registered `defer ps.mu.Unlock()`
}

type ltWalker struct {
	fn     string // the exported entry point being described (rows never name a helper)
	st     ltState
	rows   map[ltRow]bool
	funcs  map[string]*ast.FuncDecl // "Pieces.AddData", "Piece.complete", …
	holds  map[string]int           // lock site (call path + position) -> hold number
	path   []string                 // call path of the splice (for the hold key and recursion)
	frames []*ltFrame
}

func (w *ltWalker) add(field, rw, via string) {
	h := w.st.hold
	if w.st.lock == "unlocked" || w.st.lock == "unknown" {
		h = 0
	}
	w.rows[ltRow{w.fn, field, rw, via, w.st.lock, h}] = true
}

func (w *ltWalker) unknown(what string) {
	w.rows[ltRow{w.fn, what, "r", "plain", "unknown", 0}] = true
	w.st = ltState{"unknown", 0}
}

// trackedField: is e `X.f` with f a tracked field?  (Pieces fields only on the receiver
// `ps`; Piece fields on anything: `ps.pieces[i].data`, `p.state`.)
func trackedField(e ast.Expr) (string, ast.Expr, bool) {
	s, ok := e.(*ast.SelectorExpr)
	if !ok {
		return "", nil, false
	}
	if id, ok := s.X.(*ast.Ident); ok {
		if id.Name == "ps" && ltPiecesFields[s.Sel.Name] {
			return s.Sel.Name, s.X, true
		}
		if id.Name == "time" || id.Name == "atomic" || id.Name == "mono" || id.Name == "config" ||
			id.Name == "bitmap" || id.Name == "alloc" || id.Name == "hash" { // packages
			return "", nil, false
		}
	}
	if ltPieceFields[s.Sel.Name] {
		return s.Sel.Name, s.X, true
	}
	return "", nil, false
}

// muCall: `ps.mu.Lock()` and friends
func muCall(c *ast.CallExpr) string {
	s, ok := c.Fun.(*ast.SelectorExpr)
	if !ok {
		return ""
	}
	in, ok := s.X.(*ast.SelectorExpr)
	if !ok || in.Sel.Name != "mu" {
		return ""
	}
	switch s.Sel.Name {
	case "Lock", "Unlock", "RLock", "RUnlock":
		return s.Sel.Name
	}
	return ""
}

func (w *ltWalker) callee(s *ast.SelectorExpr) string {
	recv := "Piece."
	if id, ok := s.X.(*ast.Ident); ok && id.Name == "ps" {
		recv = "Pieces."
	}
	if w.funcs[recv+s.Sel.Name] != nil {
		return recv + s.Sel.Name
	}
	return ""
}

func ltExported(name string) bool {
	i := strings.LastIndex(name, ".")
	return unicode.IsUpper([]rune(name[i+1:])[0])
}

// holdOf numbers the lock acquisitions of the entry point in the order the walk first
// meets them; the key is the splice path + the position, so the same helper spliced at
// two call sites yields two holds, and moving code into / out of a helper keeps the numbers
func (w *ltWalker) holdOf(pos token.Pos) int {
	k := strings.Join(w.path, ">") + fmt.Sprint("@", pos)
	if h, ok := w.holds[k]; ok {
		return h
	}
	h := len(w.holds) + 1
	w.holds[k] = h
	return h
}

// splice walks the body of an unexported callee in place of the call: its accesses and its
// Lock/Unlock events become the caller's, the lock state is carried in and out.
func (w *ltWalker) splice(name string, at token.Pos) {
	for _, p := range w.path {
		if strings.HasPrefix(p, name+"@") { // recursion: fail closed
			w.unknown("?recursion")
			return
		}
	}
	if len(w.path) >= 6 {
		w.unknown("?depth")
		return
	}
	fd := w.funcs[name]
	w.path = append(w.path, fmt.Sprint(name, "@", at))
	fr := &ltFrame{}
	w.frames = append(w.frames, fr)
	if term := w.stmts(fd.Body.List); !term {
		fr.exits = append(fr.exits, w.st)
	}
	w.frames = w.frames[:len(w.frames)-1]
	w.path = w.path[:len(w.path)-1]
	out := fr.exits[0]
	for _, e := range fr.exits[1:] {
		out = merge(out, e)
	}
	if fr.deferUnlock && out.lock != "unknown" {
		out = ltState{"unlocked", 0}
	}
	w.st = out
}

// baseOf strips index / slice / paren / star wrappers: the expression whose storage is
// touched by `copy(dst, …)` or an assignment to `dst[i]`
func baseOf(e ast.Expr) ast.Expr {
	for {
		switch x := e.(type) {
		case *ast.IndexExpr:
			e = x.X
		case *ast.SliceExpr:
			e = x.X
		case *ast.ParenExpr:
			e = x.X
		case *ast.StarExpr:
			e = x.X
		default:
			return e
		}
	}
}

func (w *ltWalker) expr(e ast.Expr) {
	switch x := e.(type) {
	case nil:
	case *ast.CallExpr:
		name := src(x.Fun)
		if ltAtomicRead[name] || ltAtomicWrite[name] {
			rw := "r"
			if ltAtomicWrite[name] {
				rw = "w"
			}
			for i, a := range x.Args {
				if u, ok := a.(*ast.UnaryExpr); ok && i == 0 && u.Op == token.AND {
					if f, in, ok := trackedField(u.X); ok {
						w.add(f, rw, "atomic")
						w.expr(in)
						continue
					}
				}
				w.expr(a)
			}
			return
		}
		if name == "copy" && len(x.Args) == 2 {
			if f, in, ok := trackedField(baseOf(x.Args[0])); ok {
				w.add(f, "w", "plain")
				w.expr(in)
				w.indices(x.Args[0])
			} else {
				w.expr(x.Args[0])
			}
			w.expr(x.Args[1])
			return
		}
		if s, ok := x.Fun.(*ast.SelectorExpr); ok {
			if f, in, ok := trackedField(s.X); ok { // method of a tracked field: bitmap.Set …
				rw := "r"
				if ltMutators[s.Sel.Name] {
					rw = "w"
				}
				w.add(f, rw, "plain")
				w.expr(in)
				for _, a := range x.Args {
					w.expr(a)
				}
			} else if c := w.callee(s); c != "" {
				w.expr(s.X)
				for _, a := range x.Args {
					w.expr(a)
				}
				if ltExported(c) {
					w.add(c, "r", "call") // analysed on its own, from `unlocked`
				} else {
					w.splice(c, x.Pos())
				}
			} else {
				w.expr(s.X)
				for _, a := range x.Args {
					w.expr(a)
				}
			}
			return
		}
		w.expr(x.Fun)
		for _, a := range x.Args {
			w.expr(a)
		}
	case *ast.SelectorExpr:
		if f, in, ok := trackedField(x); ok {
			w.add(f, "r", "plain")
			w.expr(in)
			return
		}
		w.expr(x.X)
	case *ast.UnaryExpr:
		if x.Op == token.AND {
			if f, in, ok := trackedField(x.X); ok { // address escapes: treat as a plain write
				w.add(f, "w", "plain")
				w.expr(in)
				return
			}
		}
		w.expr(x.X)
	case *ast.BinaryExpr:
		w.expr(x.X)
		w.expr(x.Y)
	case *ast.ParenExpr:
		w.expr(x.X)
	case *ast.StarExpr:
		w.expr(x.X)
	case *ast.IndexExpr:
		w.expr(x.X)
		w.expr(x.Index)
	case *ast.SliceExpr:
		w.expr(x.X)
		w.expr(x.Low)
		w.expr(x.High)
		w.expr(x.Max)
	case *ast.TypeAssertExpr:
		w.expr(x.X)
	case *ast.KeyValueExpr:
		w.expr(x.Value)
	case *ast.CompositeLit:
		for _, el := range x.Elts {
			w.expr(el)
		}
	case *ast.FuncLit: // runs later, under whatever lock then holds
		save := w.st
		w.st = ltState{"unknown", 0}
		w.frames = append(w.frames, &ltFrame{})
		w.stmts(x.Body.List)
		w.frames = w.frames[:len(w.frames)-1]
		w.st = save
	case *ast.Ident, *ast.BasicLit, *ast.ArrayType, *ast.MapType, *ast.ChanType, *ast.FuncType,
		*ast.InterfaceType, *ast.StructType, *ast.Ellipsis:
	default:
		w.rows[ltRow{w.fn, "?expr", "r", "plain", "unknown", 0}] = true
	}
}

// indices walks only the index / bound sub-expressions of an l-value chain
func (w *ltWalker) indices(e ast.Expr) {
	switch x := e.(type) {
	case *ast.IndexExpr:
		w.expr(x.Index)
		w.indices(x.X)
	case *ast.SliceExpr:
		w.expr(x.Low)
		w.expr(x.High)
		w.expr(x.Max)
		w.indices(x.X)
	case *ast.ParenExpr:
		w.indices(x.X)
	case *ast.StarExpr:
		w.indices(x.X)
	}
}

// lvalue: a write to a tracked field (directly, or to an element of it)
func (w *ltWalker) lvalue(e ast.Expr) {
	if f, in, ok := trackedField(baseOf(e)); ok {
		w.add(f, "w", "plain")
		w.expr(in)
		w.indices(e)
		return
	}
	if _, ok := e.(*ast.Ident); ok {
		return
	}
	w.expr(e)
}

func merge(a, b ltState) ltState {
	if a.lock != b.lock {
		return ltState{"unknown", 0}
	}
	if b.hold > a.hold {
		return b
	}
	return a
}

func isPanic(s ast.Stmt) bool {
	if es, ok := s.(*ast.ExprStmt); ok {
		if c, ok := es.X.(*ast.CallExpr); ok {
			if id, ok := c.Fun.(*ast.Ident); ok && id.Name == "panic" {
				return true
			}
		}
	}
	return false
}

// stmts walks a list; true if control cannot fall out of it
func (w *ltWalker) stmts(list []ast.Stmt) bool {
	for _, s := range list {
		if w.stmt(s) {
			return true
		}
	}
	return false
}

func (w *ltWalker) stmt(s ast.Stmt) bool {
	switch x := s.(type) {
	case *ast.ExprStmt:
		if c, ok := x.X.(*ast.CallExpr); ok {
			switch muCall(c) {
			case "Lock":
				w.st = ltState{"wlock", w.holdOf(c.Pos())}
				return false
			case "RLock":
				w.st = ltState{"rlock", w.holdOf(c.Pos())}
				return false
			case "Unlock", "RUnlock":
				w.st = ltState{"unlocked", 0}
				return false
			}
		}
		w.expr(x.X)
		return isPanic(s)
	case *ast.DeferStmt:
		if m := muCall(x.Call); m == "Unlock" || m == "RUnlock" {
			// released on return: the hold lasts to the end of this function
			w.frames[len(w.frames)-1].deferUnlock = true
			return false
		}
		save := w.st
		w.st = ltState{"unknown", 0}
		w.expr(x.Call)
		w.st = save
		return false
	case *ast.AssignStmt:
		for _, r := range x.Rhs {
			// `p := ps.pieces[index]` copies a whole Piece
			if f, _, ok := trackedField(baseOf(r)); ok && f == "pieces" {
				if _, isIdx := r.(*ast.IndexExpr); isIdx {
					w.add("*", "r", "plain")
				}
			}
			w.expr(r)
		}
		for _, l := range x.Lhs {
			w.lvalue(l)
		}
		return false
	case *ast.IncDecStmt:
		w.lvalue(x.X)
		return false
	case *ast.DeclStmt:
		if gd, ok := x.Decl.(*ast.GenDecl); ok {
			for _, sp := range gd.Specs {
				if vs, ok := sp.(*ast.ValueSpec); ok {
					for _, v := range vs.Values {
						w.expr(v)
					}
				}
			}
		}
		return false
	case *ast.ReturnStmt:
		for _, r := range x.Results {
			w.expr(r)
		}
		fr := w.frames[len(w.frames)-1]
		fr.exits = append(fr.exits, w.st)
		return true
	case *ast.BranchStmt:
		return true
	case *ast.BlockStmt:
		return w.stmts(x.List)
	case *ast.IfStmt:
		if x.Init != nil {
			w.stmt(x.Init)
		}
		w.expr(x.Cond)
		st := w.st
		t1 := w.stmts(x.Body.List)
		s1 := w.st
		w.st = st
		t2 := false
		if x.Else != nil {
			t2 = w.stmt(x.Else)
		}
		s2 := w.st
		switch {
		case t1 && t2:
			w.st = st
			return true
		case t1:
			w.st = s2
		case t2:
			w.st = s1
		default:
			w.st = merge(s1, s2)
		}
		return false
	case *ast.ForStmt:
		if x.Init != nil {
			w.stmt(x.Init)
		}
		w.expr(x.Cond)
		st := w.st // state when the condition has been evaluated the first time
		if w.stmts(x.Body.List) {
			w.st = st
			return false
		}
		if x.Post != nil {
			w.stmt(x.Post)
		}
		if w.st != st { // the condition is evaluated again in the state the body ends in
			w.expr(x.Cond)
		}
		w.st = merge(st, w.st)
		return false
	case *ast.RangeStmt:
		w.expr(x.X)
		st := w.st
		if w.stmts(x.Body.List) {
			w.st = st
			return false
		}
		w.st = merge(st, w.st)
		return false
	case *ast.SwitchStmt:
		if x.Init != nil {
			w.stmt(x.Init)
		}
		w.expr(x.Tag)
		st := w.st
		out := st
		for _, c := range x.Body.List {
			cc := c.(*ast.CaseClause)
			w.st = st
			for _, e := range cc.List {
				w.expr(e)
			}
			if !w.stmts(cc.Body) {
				out = merge(out, w.st)
			}
		}
		w.st = out
		return false
	case *ast.EmptyStmt:
		return false
	}
	w.unknown("?stmt")
	return false
}

func genLockTable() {
	f := parse("tor/piece/piece.go")
	funcs := map[string]*ast.FuncDecl{}
	var names []string
	name := func(fd *ast.FuncDecl) string {
		if fd.Recv == nil || len(fd.Recv.List) == 0 {
			return fd.Name.Name
		}
		t := fd.Recv.List[0].Type
		if s, ok := t.(*ast.StarExpr); ok {
			t = s.X
		}
		return src(t) + "." + fd.Name.Name
	}
	for _, d := range f.Decls {
		if fd, ok := d.(*ast.FuncDecl); ok && fd.Body != nil {
			funcs[name(fd)] = fd
			names = append(names, name(fd))
		}
	}
	sort.Strings(names)
	// unexported functions reachable from an exported one are spliced into their callers
	// and get no rows of their own; an unexported function nobody in the file calls is
	// walked on its own from `unknown` (fail-closed)
	called := map[string]bool{}
	for _, n := range names {
		ast.Inspect(funcs[n].Body, func(nd ast.Node) bool {
			if c, ok := nd.(*ast.CallExpr); ok {
				if s, ok := c.Fun.(*ast.SelectorExpr); ok {
					for _, r := range []string{"Piece.", "Pieces."} {
						if funcs[r+s.Sel.Name] != nil {
							called[r+s.Sel.Name] = true
						}
					}
				}
			}
			return true
		})
	}
	rows := map[ltRow]bool{}
	var entries []string
	for _, n := range names {
		exported := ltExported(n)
		if !exported && called[n] {
			continue
		}
		entries = append(entries, n)
		w := &ltWalker{fn: n, rows: rows, funcs: funcs, holds: map[string]int{}}
		w.st = ltState{"unlocked", 0}
		if !exported {
			w.st = ltState{"unknown", 0}
		}
		w.path = []string{n + "@0"}
		w.frames = []*ltFrame{{}}
		w.stmts(funcs[n].Body.List)
	}
	var list []ltRow
	for r := range rows {
		list = append(list, r)
	}
	key := func(r ltRow) string {
		return fmt.Sprintf("%s\x00%s\x00%s\x00%s\x00%s\x00%03d", r.fn, r.field, r.rw, r.via, r.lock, r.hold)
	}
	sort.Slice(list, func(i, j int) bool { return key(list[i]) < key(list[j]) })
	var b strings.Builder
	b.WriteString("import Storrent.Model.LockTable\n")
	b.WriteString("-- GENERATED by harness/cmd/extract (locktable.go) from tor/piece/piece.go; do not edit\n")
	b.WriteString("namespace Storrent.Gen\nopen Storrent.LockTable\n")
	q := func(l []string) string {
		var o []string
		for _, s := range l {
			o = append(o, leanStr(s))
		}
		return "[" + strings.Join(o, ", ") + "]"
	}
	b.WriteString("/-- (kept for compatibility: helpers are spliced into their callers, nothing is assumed) -/\n")
	fmt.Fprintf(&b, "def lockAssumed : List String := []\n")
	b.WriteString("/-- the entry points described: the exported functions of the file -/\n")
	fmt.Fprintf(&b, "def lockFunctions : List String := %s\n", q(entries))
	b.WriteString("def lockTable : List Row := [\n")
	for i, r := range list {
		sep := ","
		if i == len(list)-1 {
			sep = ""
		}
		fmt.Fprintf(&b, "  ⟨%s, %s, .%s, .%s, .%s, %d⟩%s\n", leanStr(r.fn), leanStr(r.field), r.rw, r.via, r.lock, r.hold, sep)
	}
	b.WriteString("]\nend Storrent.Gen\n")
	writeIfChanged("LockTable.lean", b.String())
}
