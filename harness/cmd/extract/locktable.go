package main

// locktable.go: Gen/LockTable.lean (C01, C03).  For every function of tor/piece/piece.go:
// every read / write of Piece.{data,bitmap,peers,state,time} and
// Pieces.{deleted,count,pieces,pieceSize,length}, and every call of another function of the
// file, with the lock state of `ps.mu` that syntactically DOMINATES it:
//   wlock / rlock   after ps.mu.Lock() / ps.mu.RLock() (a deferred Unlock holds to the end)
//   unlocked        exported entry points start here; after Unlock()/RUnlock()
//   caller          lowercase helpers inherit their caller's state (resolved in Lean
//                   through the call rows)
//   unknown         anything the walker cannot follow (branches that disagree, closures):
//                   fail-closed, Props/C01 rejects it
// `via` = plain | atomic (through sync/atomic or mono.{Load,Store}Atomic on &field) | call.
// `hold` numbers the lock acquisitions of the function in source order (0 = state on
// entry), so that "the test and the access happen under the same hold" is checkable.
// The rows are a sorted set: no line numbers, no multiplicities, no source order.
// A function whose doc comment says "Called locked" starts in wlock; it is listed in
// `lockAssumed` and Props/C01 checks every call of it is made under wlock.

import (
	"fmt"
	"go/ast"
	"go/token"
	"sort"
	"strings"
	"unicode"
)

func init() { extraGens = append(extraGens, genLockTable) }

var ltPieceFields = map[string]bool{"data": true, "bitmap": true, "peers": true, "state": true, "time": true}
var ltPiecesFields = map[string]bool{"deleted": true, "count": true, "pieces": true, "pieceSize": true, "length": true}
var ltMutators = map[string]bool{"Set": true, "Reset": true, "Extend": true, "SetMultiple": true}
var ltAtomicRead = map[string]bool{"atomic.LoadUint32": true, "mono.LoadAtomic": true, "atomic.LoadInt64": true}
var ltAtomicWrite = map[string]bool{"atomic.CompareAndSwapUint32": true, "atomic.StoreUint32": true,
	"mono.StoreAtomic": true, "atomic.AddInt64": true, "atomic.SwapUint32": true}

type ltRow struct {
	fn, field, rw, via, lock string
	hold                     int
}

type ltState struct {
	lock string
	hold int
}

type ltWalker struct {
	fn       string
	rows     map[ltRow]bool
	funcs    map[string]bool // "Pieces.AddData", "Piece.complete", …
	lockSite map[token.Pos]int
}

func (w *ltWalker) add(field, rw, via string, st ltState) {
	h := st.hold
	if st.lock == "unlocked" || st.lock == "unknown" {
		h = 0
	}
	w.rows[ltRow{w.fn, field, rw, via, st.lock, h}] = true
}

// trackedField: is e `X.f` with f a tracked field?  (Pieces fields only on the receiver
// `ps`; Piece fields on anything: `ps.pieces[i].data`, `p.state`.)
func trackedField(e ast.Expr) (string, ast.Expr, bool) {
	s, ok := e.(*ast.SelectorExpr)
	if !ok {
		return "", nil, false
	}
	if id, ok := s.X.(*ast.Ident); ok {
		if id.Name == "ps" && ltPiecesFields[s.Sel.Name] {
			return s.Sel.Name, s.X, true
		}
		if id.Name == "time" || id.Name == "atomic" || id.Name == "mono" || id.Name == "config" ||
			id.Name == "bitmap" || id.Name == "alloc" || id.Name == "hash" { // packages
			return "", nil, false
		}
	}
	if ltPieceFields[s.Sel.Name] {
		return s.Sel.Name, s.X, true
	}
	return "", nil, false
}

// muCall: `ps.mu.Lock()` and friends
func muCall(c *ast.CallExpr) string {
	s, ok := c.Fun.(*ast.SelectorExpr)
	if !ok {
		return ""
	}
	in, ok := s.X.(*ast.SelectorExpr)
	if !ok || in.Sel.Name != "mu" {
		return ""
	}
	switch s.Sel.Name {
	case "Lock", "Unlock", "RLock", "RUnlock":
		return s.Sel.Name
	}
	return ""
}

func (w *ltWalker) callee(s *ast.SelectorExpr) string {
	recv := "Piece."
	if id, ok := s.X.(*ast.Ident); ok && id.Name == "ps" {
		recv = "Pieces."
	}
	if w.funcs[recv+s.Sel.Name] {
		return recv + s.Sel.Name
	}
	return ""
}

// baseOf strips index / slice / paren / star / conversion-free wrappers: the expression
// whose storage is touched by `copy(dst, …)` or an assignment to `dst[i]`
func baseOf(e ast.Expr) ast.Expr {
	for {
		switch x := e.(type) {
		case *ast.IndexExpr:
			e = x.X
		case *ast.SliceExpr:
			e = x.X
		case *ast.ParenExpr:
			e = x.X
		case *ast.StarExpr:
			e = x.X
		default:
			return e
		}
	}
}

func (w *ltWalker) expr(e ast.Expr, st ltState) {
	switch x := e.(type) {
	case nil:
	case *ast.CallExpr:
		name := src(x.Fun)
		if ltAtomicRead[name] || ltAtomicWrite[name] {
			rw := "r"
			if ltAtomicWrite[name] {
				rw = "w"
			}
			for i, a := range x.Args {
				if u, ok := a.(*ast.UnaryExpr); ok && i == 0 && u.Op == token.AND {
					if f, in, ok := trackedField(u.X); ok {
						w.add(f, rw, "atomic", st)
						w.expr(in, st)
						continue
					}
				}
				w.expr(a, st)
			}
			return
		}
		if name == "copy" && len(x.Args) == 2 {
			if f, in, ok := trackedField(baseOf(x.Args[0])); ok {
				w.add(f, "w", "plain", st)
				w.expr(in, st)
				w.indices(x.Args[0], st)
			} else {
				w.expr(x.Args[0], st)
			}
			w.expr(x.Args[1], st)
			return
		}
		if s, ok := x.Fun.(*ast.SelectorExpr); ok {
			if f, in, ok := trackedField(s.X); ok { // method of a tracked field: bitmap.Set …
				rw := "r"
				if ltMutators[s.Sel.Name] {
					rw = "w"
				}
				w.add(f, rw, "plain", st)
				w.expr(in, st)
			} else if c := w.callee(s); c != "" {
				w.add(c, "r", "call", st)
				w.expr(s.X, st)
			} else {
				w.expr(s.X, st)
			}
		} else {
			w.expr(x.Fun, st)
		}
		for _, a := range x.Args {
			w.expr(a, st)
		}
	case *ast.SelectorExpr:
		if f, in, ok := trackedField(x); ok {
			w.add(f, "r", "plain", st)
			w.expr(in, st)
			return
		}
		w.expr(x.X, st)
	case *ast.UnaryExpr:
		if x.Op == token.AND {
			if f, in, ok := trackedField(x.X); ok { // address escapes: treat as a plain write
				w.add(f, "w", "plain", st)
				w.expr(in, st)
				return
			}
		}
		w.expr(x.X, st)
	case *ast.BinaryExpr:
		w.expr(x.X, st)
		w.expr(x.Y, st)
	case *ast.ParenExpr:
		w.expr(x.X, st)
	case *ast.StarExpr:
		w.expr(x.X, st)
	case *ast.IndexExpr:
		w.expr(x.X, st)
		w.expr(x.Index, st)
	case *ast.SliceExpr:
		w.expr(x.X, st)
		w.expr(x.Low, st)
		w.expr(x.High, st)
		w.expr(x.Max, st)
	case *ast.TypeAssertExpr:
		w.expr(x.X, st)
	case *ast.KeyValueExpr:
		w.expr(x.Value, st)
	case *ast.CompositeLit:
		for _, el := range x.Elts {
			w.expr(el, st)
		}
	case *ast.FuncLit: // runs later, under whatever lock then holds
		w.stmts(x.Body.List, ltState{"unknown", 0})
	case *ast.Ident, *ast.BasicLit, *ast.ArrayType, *ast.MapType, *ast.ChanType, *ast.FuncType,
		*ast.InterfaceType, *ast.StructType, *ast.Ellipsis:
	default:
		w.add("?expr", "r", "plain", ltState{"unknown", 0})
	}
}

// indices walks only the index / bound sub-expressions of an l-value chain
func (w *ltWalker) indices(e ast.Expr, st ltState) {
	switch x := e.(type) {
	case *ast.IndexExpr:
		w.expr(x.Index, st)
		w.indices(x.X, st)
	case *ast.SliceExpr:
		w.expr(x.Low, st)
		w.expr(x.High, st)
		w.expr(x.Max, st)
		w.indices(x.X, st)
	case *ast.ParenExpr:
		w.indices(x.X, st)
	case *ast.StarExpr:
		w.indices(x.X, st)
	}
}

// lvalue: a write to a tracked field (directly, or to an element of it)
func (w *ltWalker) lvalue(e ast.Expr, st ltState) {
	if f, in, ok := trackedField(baseOf(e)); ok {
		w.add(f, "w", "plain", st)
		w.expr(in, st)
		w.indices(e, st)
		return
	}
	if _, ok := e.(*ast.Ident); ok {
		return
	}
	w.expr(e, st)
}

func merge(a, b ltState) ltState {
	if a.lock != b.lock {
		return ltState{"unknown", 0}
	}
	if b.hold > a.hold {
		return b
	}
	return a
}

func isPanic(s ast.Stmt) bool {
	if es, ok := s.(*ast.ExprStmt); ok {
		if c, ok := es.X.(*ast.CallExpr); ok {
			if id, ok := c.Fun.(*ast.Ident); ok && id.Name == "panic" {
				return true
			}
		}
	}
	return false
}

// stmts returns the state after the list and whether control cannot fall out of it
func (w *ltWalker) stmts(list []ast.Stmt, st ltState) (ltState, bool) {
	for _, s := range list {
		var term bool
		st, term = w.stmt(s, st)
		if term {
			return st, true
		}
	}
	return st, false
}

func (w *ltWalker) stmt(s ast.Stmt, st ltState) (ltState, bool) {
	switch x := s.(type) {
	case *ast.ExprStmt:
		if c, ok := x.X.(*ast.CallExpr); ok {
			switch muCall(c) {
			case "Lock":
				return ltState{"wlock", w.lockSite[c.Pos()]}, false
			case "RLock":
				return ltState{"rlock", w.lockSite[c.Pos()]}, false
			case "Unlock", "RUnlock":
				return ltState{"unlocked", 0}, false
			}
		}
		w.expr(x.X, st)
		return st, isPanic(s)
	case *ast.DeferStmt:
		if m := muCall(x.Call); m == "Unlock" || m == "RUnlock" {
			return st, false // released on return: the hold lasts to the end
		}
		w.expr(x.Call, ltState{"unknown", 0})
		return st, false
	case *ast.AssignStmt:
		for _, r := range x.Rhs {
			// `p := ps.pieces[index]` copies a whole Piece
			if f, _, ok := trackedField(baseOf(r)); ok && f == "pieces" {
				if _, isIdx := r.(*ast.IndexExpr); isIdx {
					w.add("*", "r", "plain", st)
				}
			}
			w.expr(r, st)
		}
		for _, l := range x.Lhs {
			w.lvalue(l, st)
		}
		return st, false
	case *ast.IncDecStmt:
		w.lvalue(x.X, st)
		return st, false
	case *ast.DeclStmt:
		if gd, ok := x.Decl.(*ast.GenDecl); ok {
			for _, sp := range gd.Specs {
				if vs, ok := sp.(*ast.ValueSpec); ok {
					for _, v := range vs.Values {
						w.expr(v, st)
					}
				}
			}
		}
		return st, false
	case *ast.ReturnStmt:
		for _, r := range x.Results {
			w.expr(r, st)
		}
		return st, true
	case *ast.BranchStmt:
		return st, true
	case *ast.BlockStmt:
		return w.stmts(x.List, st)
	case *ast.IfStmt:
		if x.Init != nil {
			st, _ = w.stmt(x.Init, st)
		}
		w.expr(x.Cond, st)
		s1, t1 := w.stmts(x.Body.List, st)
		s2, t2 := st, false
		if x.Else != nil {
			s2, t2 = w.stmt(x.Else, st)
		}
		switch {
		case t1 && t2:
			return st, true
		case t1:
			return s2, false
		case t2:
			return s1, false
		}
		return merge(s1, s2), false
	case *ast.ForStmt:
		if x.Init != nil {
			st, _ = w.stmt(x.Init, st)
		}
		w.expr(x.Cond, st)
		sb, tb := w.stmts(x.Body.List, st)
		if tb {
			return st, false
		}
		if x.Post != nil {
			sb, _ = w.stmt(x.Post, sb)
		}
		if sb != st { // the condition is evaluated again in the state the body ends in
			w.expr(x.Cond, sb)
		}
		return merge(st, sb), false
	case *ast.RangeStmt:
		w.expr(x.X, st)
		sb, tb := w.stmts(x.Body.List, st)
		if tb {
			return st, false
		}
		return merge(st, sb), false
	case *ast.SwitchStmt:
		if x.Init != nil {
			st, _ = w.stmt(x.Init, st)
		}
		w.expr(x.Tag, st)
		out := st
		for _, c := range x.Body.List {
			cc := c.(*ast.CaseClause)
			for _, e := range cc.List {
				w.expr(e, st)
			}
			sc, tc := w.stmts(cc.Body, st)
			if !tc {
				out = merge(out, sc)
			}
		}
		return out, false
	case *ast.EmptyStmt:
		return st, false
	}
	w.add("?stmt", "r", "plain", ltState{"unknown", 0})
	return ltState{"unknown", 0}, false
}

func genLockTable() {
	f := parse("tor/piece/piece.go")
	funcs := map[string]bool{}
	var decls []*ast.FuncDecl
	name := func(fd *ast.FuncDecl) string {
		if fd.Recv == nil || len(fd.Recv.List) == 0 {
			return fd.Name.Name
		}
		t := fd.Recv.List[0].Type
		if s, ok := t.(*ast.StarExpr); ok {
			t = s.X
		}
		return src(t) + "." + fd.Name.Name
	}
	for _, d := range f.Decls {
		if fd, ok := d.(*ast.FuncDecl); ok && fd.Body != nil {
			funcs[name(fd)] = true
			decls = append(decls, fd)
		}
	}
	rows := map[ltRow]bool{}
	var assumed, fnames []string
	for _, fd := range decls {
		w := &ltWalker{fn: name(fd), rows: rows, funcs: funcs, lockSite: map[token.Pos]int{}}
		fnames = append(fnames, w.fn)
		n := 0
		ast.Inspect(fd.Body, func(nd ast.Node) bool {
			if _, ok := nd.(*ast.DeferStmt); ok {
				return false
			}
			if c, ok := nd.(*ast.CallExpr); ok {
				if m := muCall(c); m == "Lock" || m == "RLock" {
					n++
					w.lockSite[c.Pos()] = n
				}
			}
			return true
		})
		entry := ltState{"caller", 0}
		switch {
		case fd.Doc != nil && strings.Contains(strings.ToLower(fd.Doc.Text()), "called locked"):
			entry = ltState{"wlock", 0}
			assumed = append(assumed, w.fn)
		case unicode.IsUpper([]rune(fd.Name.Name)[0]):
			entry = ltState{"unlocked", 0}
		}
		w.stmts(fd.Body.List, entry)
	}
	var list []ltRow
	for r := range rows {
		list = append(list, r)
	}
	key := func(r ltRow) string {
		return fmt.Sprintf("%s\x00%s\x00%s\x00%s\x00%s\x00%03d", r.fn, r.field, r.rw, r.via, r.lock, r.hold)
	}
	sort.Slice(list, func(i, j int) bool { return key(list[i]) < key(list[j]) })
	sort.Strings(assumed)
	sort.Strings(fnames)
	var b strings.Builder
	b.WriteString("import Storrent.Model.LockTable\n")
	b.WriteString("-- GENERATED by harness/cmd/extract (locktable.go) from tor/piece/piece.go; do not edit\n")
	b.WriteString("namespace Storrent.Gen\nopen Storrent.LockTable\n")
	b.WriteString("/-- functions documented \"Called locked\": analysed from wlock -/\n")
	q := func(l []string) string {
		var o []string
		for _, s := range l {
			o = append(o, leanStr(s))
		}
		return "[" + strings.Join(o, ", ") + "]"
	}
	fmt.Fprintf(&b, "def lockAssumed : List String := %s\n", q(assumed))
	fmt.Fprintf(&b, "def lockFunctions : List String := %s\n", q(fnames))
	b.WriteString("def lockTable : List Row := [\n")
	for i, r := range list {
		sep := ","
		if i == len(list)-1 {
			sep = ""
		}
		fmt.Fprintf(&b, "  ⟨%s, %s, .%s, .%s, .%s, %d⟩%s\n", leanStr(r.fn), leanStr(r.field), r.rw, r.via, r.lock, r.hold, sep)
	}
	b.WriteString("]\nend Storrent.Gen\n")
	writeIfChanged("LockTable.lean", b.String())
}
