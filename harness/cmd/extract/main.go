// extract: the translator.  Reads /repo's Go sources with go/parser and regenerates the
// Lean tables under lean/Storrent/Gen/.  Deliberately small and syntactic; a shape it does
// not recognise is emitted as `.other` / `unknown`, which makes the dependent `decide`
// theorem fail (fail-closed).  Files are rewritten only when their content changes so that
// lake's incremental build stays incremental.
package main

import (
	"bytes"
	"flag"
	"fmt"
	"go/ast"
	"go/constant"
	"go/parser"
	"go/printer"
	"go/token"
	"os"
	"path/filepath"
	"strings"
)

var repo = flag.String("repo", "/repo", "repository root")
var outDir = flag.String("out", "/verif/lean/Storrent/Gen", "output directory")

var fset = token.NewFileSet()

func parse(rel string) *ast.File {
	f, err := parser.ParseFile(fset, filepath.Join(*repo, rel), nil, parser.ParseComments)
	if err != nil {
		fmt.Fprintf(os.Stderr, "extract: %v\n", err)
		os.Exit(2)
	}
	return f
}

func src(n ast.Node) string {
	var b bytes.Buffer
	printer.Fprint(&b, fset, n)
	return b.String()
}

func findFunc(f *ast.File, name string) *ast.FuncDecl {
	for _, d := range f.Decls {
		if fd, ok := d.(*ast.FuncDecl); ok && fd.Name.Name == name && fd.Recv == nil {
			return fd
		}
	}
	return nil
}

func findMethod(f *ast.File, recv, name string) *ast.FuncDecl {
	for _, d := range f.Decls {
		fd, ok := d.(*ast.FuncDecl)
		if !ok || fd.Name.Name != name || fd.Recv == nil || len(fd.Recv.List) == 0 {
			continue
		}
		t := fd.Recv.List[0].Type
		if s, ok := t.(*ast.StarExpr); ok {
			t = s.X
		}
		if id, ok := t.(*ast.Ident); ok && id.Name == recv {
			return fd
		}
	}
	return nil
}

// constEnv: named integer constants visible to constInt (package-level consts of the file's
// package, filled by loadPkgConsts) and the current value of iota.
var constEnv = map[string]int64{}

// names bound to different values in different scopes of the package: never resolved
var ambiguousConst = map[string]bool{}

// loadPkgConsts evaluates the package-level integer constants of every non-test .go file in
// dir (relative to the repo), with iota and implicit repetition, and adds them to constEnv,
// so that a refactoring that names a literal does not change the extracted tables.
func loadPkgConsts(dir string) {
	matches, _ := filepath.Glob(filepath.Join(*repo, dir, "*.go"))
	for pass := 0; pass < 3; pass++ { // consts may refer to later ones
		for _, m := range matches {
			if strings.HasSuffix(m, "_test.go") {
				continue
			}
			f, err := parser.ParseFile(fset, m, nil, 0)
			if err != nil {
				continue
			}
			// package-level declarations and constants declared inside function bodies
			// (a name bound to two different values anywhere in the package is dropped:
			// fail closed)
			var decls []*ast.GenDecl
			for _, d := range f.Decls {
				if gd, ok := d.(*ast.GenDecl); ok && gd.Tok == token.CONST {
					decls = append(decls, gd)
				}
			}
			ast.Inspect(f, func(n ast.Node) bool {
				if ds, ok := n.(*ast.DeclStmt); ok {
					if gd, ok := ds.Decl.(*ast.GenDecl); ok && gd.Tok == token.CONST {
						decls = append(decls, gd)
					}
				}
				return true
			})
			for _, gd := range decls {
				var last []ast.Expr
				for i, sp := range gd.Specs {
					vs := sp.(*ast.ValueSpec)
					vals := vs.Values
					if len(vals) == 0 {
						vals = last
					} else {
						last = vals
					}
					constEnv["iota"] = int64(i)
					for j, n := range vs.Names {
						if j < len(vals) {
							if v, ok := constInt(vals[j]); ok && !ambiguousConst[n.Name] {
								if old, seen := constEnv[n.Name]; seen && old != v {
									ambiguousConst[n.Name] = true
									delete(constEnv, n.Name)
								} else {
									constEnv[n.Name] = v
								}
							}
						}
					}
				}
				delete(constEnv, "iota")
			}
		}
	}
}

// constInt evaluates an integer constant expression made of literals, named package
// constants, + - * / << and parens.
func constInt(e ast.Expr) (int64, bool) {
	switch e := e.(type) {
	case *ast.Ident:
		v, ok := constEnv[e.Name]
		return v, ok
	case *ast.SelectorExpr: // config.ChunkSize and the like
		v, ok := constEnv[e.Sel.Name]
		return v, ok
	case *ast.BasicLit:
		if e.Kind != token.INT {
			return 0, false
		}
		v := constant.MakeFromLiteral(e.Value, token.INT, 0)
		i, ok := constant.Int64Val(v)
		return i, ok
	case *ast.ParenExpr:
		return constInt(e.X)
	case *ast.BinaryExpr:
		a, ok1 := constInt(e.X)
		b, ok2 := constInt(e.Y)
		if !ok1 || !ok2 {
			return 0, false
		}
		switch e.Op {
		case token.ADD:
			return a + b, true
		case token.SUB:
			return a - b, true
		case token.MUL:
			return a * b, true
		case token.QUO:
			if b == 0 {
				return 0, false
			}
			return a / b, true
		case token.SHL:
			return a << uint(b), true
		}
	case *ast.CallExpr: // conversions like uint32(5)
		if len(e.Args) == 1 {
			return constInt(e.Args[0])
		}
	}
	return 0, false
}

func writeIfChanged(name, content string) {
	p := filepath.Join(*outDir, name)
	old, err := os.ReadFile(p)
	if err == nil && string(old) == content {
		return
	}
	os.MkdirAll(*outDir, 0o755)
	if err := os.WriteFile(p, []byte(content), 0o644); err != nil {
		fmt.Fprintf(os.Stderr, "extract: %v\n", err)
		os.Exit(2)
	}
}

func leanStr(s string) string {
	s = strings.ReplaceAll(s, "\\", "\\\\")
	s = strings.ReplaceAll(s, "\"", "\\\"")
	s = strings.ReplaceAll(s, "\n", " ")
	s = strings.ReplaceAll(s, "\t", " ")
	return "\"" + s + "\""
}

func pos(n ast.Node) string {
	p := fset.Position(n.Pos())
	rel, _ := filepath.Rel(*repo, p.Filename)
	return fmt.Sprintf("%s:%d", rel, p.Line)
}

func main() {
	flag.Parse()
	genWireTable()
	for _, g := range extraGens {
		g()
	}
}

var extraGens []func()
