package main

// privacy.go: Gen/PrivacyGates.lean (C18).  For every outbound call site (and every place
// where the listening port, the client version or the IPv6 address is read) in package tor
// and in peer/peer.go: the conjunction of conditions that dominates it syntactically —
// enclosing `if` conditions, negated conditions of preceding `if c { …return }` in the same
// block, enclosing `case` labels.  A new call site anywhere in the scanned files appears as
// a new row and fails `C18_gates_table`.

import (
	"fmt"
	"go/ast"
	"go/token"
	"strings"
)

var privacyFiles = []string{"tor/tor.go", "tor/initial.go", "tor/torrents.go", "tor/metadata.go",
	"tor/reader.go", "tor/writer.go", "tor/requests.go", "tor/torfile.go", "peer/peer.go"}

// callee source texts that are recorded
var privacyCallees = map[string]bool{
	"dht.Announce": true, "dht.Ping": true, "t.announce": true, "trackerAnnounce": true,
	"trackerAnnounceSingle": true,
	"tr.Announce":           true, "webseedGR": true, "webseedH": true, "maybeWebseed": true, "ws.Get": true,
	"infoHashes": true, "t.NewPeer": true, "config.ExternalPort": true, "getIPv6": true,
	"protocol.ServerHandshake": true,
}
var privacyLits = map[string]bool{"protocol.Port": true, "protocol.Extended0": true}

type gateRow struct {
	fn, site, args string
	conds          []string
}

func endsInReturn(b *ast.BlockStmt) bool {
	if len(b.List) == 0 {
		return false
	}
	switch s := b.List[len(b.List)-1].(type) {
	case *ast.ReturnStmt:
		return true
	case *ast.BranchStmt:
		return s.Tok == token.BREAK || s.Tok == token.CONTINUE || s.Tok == token.GOTO
	case *ast.ExprStmt:
		if c, ok := s.X.(*ast.CallExpr); ok {
			if id, ok := c.Fun.(*ast.Ident); ok && id.Name == "panic" {
				return true
			}
		}
	}
	return false
}

func oneLine(s string) string {
	s = strings.Join(strings.Fields(s), " ")
	if len(s) > 160 {
		s = s[:160] + "…"
	}
	return s
}

type gateWalker struct {
	fn      string
	rows    []gateRow
	callees map[string]bool // nil: privacyCallees
	returns string          // non-empty: record return statements as rows of this site
	defs    map[string]*localDef
	effects []token.Pos // positions of statements with side effects
}

// ---- canonical text of conditions and recorded arguments -------------------------------
// A local identifier defined exactly once in the function, never reassigned, by a
// side-effect-free expression, with no effectful statement between the definition and the
// use, is replaced by its defining expression (recursively, depth-limited).  Anything else
// keeps its text (fail closed).  `!(!x)` is written `x`.

type localDef struct {
	n    int      // number of definitions / assignments
	expr ast.Expr // the defining expression if n == 1 and single-valued
	pos  token.Pos
}

var pureCallees = map[string]bool{
	"len": true, "cap": true, "uint16": true, "uint32": true, "uint64": true, "int": true, "int64": true,
	"float64": true, "hasWebseeds": true, "hasProxy": true, "t.hasProxy": true, "t.InfoComplete": true,
}

func pureExpr(e ast.Expr) bool {
	pure := true
	ast.Inspect(e, func(n ast.Node) bool {
		switch n := n.(type) {
		case *ast.CallExpr:
			if !pureCallees[src(n.Fun)] {
				pure = false
			}
		case *ast.FuncLit, *ast.CompositeLit:
			pure = false
		case *ast.UnaryExpr:
			if n.Op == token.ARROW || n.Op == token.AND {
				pure = false
			}
		}
		return pure
	})
	return pure
}

func collectDefs(body *ast.BlockStmt) (map[string]*localDef, []token.Pos) {
	defs := map[string]*localDef{}
	var effects []token.Pos
	get := func(name string) *localDef {
		d := defs[name]
		if d == nil {
			d = &localDef{}
			defs[name] = d
		}
		return d
	}
	ast.Inspect(body, func(n ast.Node) bool {
		switch n := n.(type) {
		case *ast.AssignStmt:
			declOnly := n.Tok == token.DEFINE
			for i, l := range n.Lhs {
				id, ok := l.(*ast.Ident)
				if !ok {
					declOnly = false
					continue
				}
				d := get(id.Name)
				d.n++
				d.pos = n.End()
				if len(n.Lhs) == len(n.Rhs) && n.Tok == token.DEFINE {
					d.expr = n.Rhs[i]
				} else {
					d.expr = nil
				}
			}
			for _, r := range n.Rhs {
				if !pureExpr(r) {
					declOnly = false
				}
			}
			if !declOnly {
				effects = append(effects, n.Pos())
			}
		case *ast.ValueSpec:
			for i, id := range n.Names {
				d := get(id.Name)
				d.n++
				d.pos = n.End()
				if i < len(n.Values) {
					d.expr = n.Values[i]
					if !pureExpr(n.Values[i]) {
						effects = append(effects, n.Pos())
					}
				} else {
					d.expr = nil
				}
			}
		case *ast.IncDecStmt:
			if id, ok := n.X.(*ast.Ident); ok {
				get(id.Name).n++
			}
			effects = append(effects, n.Pos())
		case *ast.RangeStmt:
			for _, e := range []ast.Expr{n.Key, n.Value} {
				if id, ok := e.(*ast.Ident); ok {
					get(id.Name).n += 2
				}
			}
		case *ast.ExprStmt:
			if !pureExpr(n.X) {
				effects = append(effects, n.Pos())
			}
		case *ast.GoStmt:
			effects = append(effects, n.Pos())
		case *ast.DeferStmt:
			effects = append(effects, n.Pos())
		case *ast.SendStmt:
			effects = append(effects, n.Pos())
		}
		return true
	})
	return defs, effects
}

func (w *gateWalker) substitutable(id *ast.Ident) ast.Expr {
	if w.defs == nil {
		return nil
	}
	d := w.defs[id.Name]
	if d == nil || d.n != 1 || d.expr == nil || !pureExpr(d.expr) {
		return nil
	}
	if id.Pos() < d.pos {
		return nil // the definition itself, or a use before it
	}
	for _, p := range w.effects {
		if p >= d.pos && p < id.Pos() {
			return nil // something may have changed what the expression reads
		}
	}
	return d.expr
}

func (w *gateWalker) subst(e ast.Expr, depth int, top bool) ast.Expr {
	if depth > 4 {
		return e
	}
	switch x := e.(type) {
	case *ast.Ident:
		if d := w.substitutable(x); d != nil {
			r := w.subst(d, depth+1, false)
			if _, isBin := r.(*ast.BinaryExpr); isBin && !top {
				return &ast.ParenExpr{X: r}
			}
			return r
		}
	case *ast.ParenExpr:
		return &ast.ParenExpr{X: w.subst(x.X, depth, true)}
	case *ast.UnaryExpr:
		return &ast.UnaryExpr{Op: x.Op, X: w.subst(x.X, depth, false)}
	case *ast.BinaryExpr:
		return &ast.BinaryExpr{X: w.subst(x.X, depth, false), Op: x.Op, Y: w.subst(x.Y, depth, false)}
	case *ast.CallExpr:
		args := make([]ast.Expr, len(x.Args))
		for i, a := range x.Args {
			args[i] = w.subst(a, depth, true)
		}
		return &ast.CallExpr{Fun: x.Fun, Args: args, Ellipsis: x.Ellipsis}
	}
	return e
}

func (w *gateWalker) ctext(e ast.Expr) string {
	return oneLine(src(w.subst(e, 0, true)))
}

// neg: the text of the negation of a condition; the negation of `!x` is `x`
func (w *gateWalker) neg(e ast.Expr) string {
	if u, ok := e.(*ast.UnaryExpr); ok && u.Op == token.NOT {
		inner := u.X
		if p, ok := inner.(*ast.ParenExpr); ok {
			inner = p.X
		}
		return w.ctext(inner)
	}
	return "!(" + w.ctext(e) + ")"
}

func (w *gateWalker) wanted(name string) bool {
	if w.callees != nil {
		return w.callees[name]
	}
	return privacyCallees[name]
}

// exprs: record the targets inside an expression/statement that is not itself a block
func (w *gateWalker) exprs(n ast.Node, conds []string) {
	if n == nil {
		return
	}
	ast.Inspect(n, func(n ast.Node) bool {
		switch n := n.(type) {
		case *ast.FuncLit:
			w.block(n.Body, conds)
			return false
		case *ast.CallExpr:
			name := src(n.Fun)
			if w.wanted(name) || (name == "append" && w.fn == "tor.infoHashes") {
				var args []string
				for _, a := range n.Args {
					if _, ok := a.(*ast.FuncLit); ok {
						args = append(args, "func")
					} else {
						args = append(args, w.ctext(a))
					}
				}
				w.rows = append(w.rows, gateRow{w.fn, name, strings.Join(args, ", "), append([]string(nil), conds...)})
			}
		case *ast.CompositeLit:
			if n.Type != nil && privacyLits[src(n.Type)] {
				var fields []string
				for _, e := range n.Elts {
					if kv, ok := e.(*ast.KeyValueExpr); ok {
						k := src(kv.Key)
						if k == "Version" || k == "Port" || k == "IPv6" {
							fields = append(fields, k+"="+oneLine(src(kv.Value)))
						}
					}
				}
				w.rows = append(w.rows, gateRow{w.fn, src(n.Type), strings.Join(fields, ", "), append([]string(nil), conds...)})
			}
		case *ast.BasicLit:
			if n.Kind == token.STRING && strings.Contains(n.Value, "STorrent") {
				w.rows = append(w.rows, gateRow{w.fn, "version-string", n.Value, append([]string(nil), conds...)})
			}
		}
		return true
	})
}

func (w *gateWalker) block(b *ast.BlockStmt, conds []string) {
	if b == nil {
		return
	}
	cur := append([]string(nil), conds...)
	for _, st := range b.List {
		w.stmt(st, cur)
		// `if c { …; return }` without else: the rest of the block runs under !c
		if ifs, ok := st.(*ast.IfStmt); ok && ifs.Else == nil && endsInReturn(ifs.Body) {
			cur = append(cur, w.neg(ifs.Cond))
		}
	}
}

func (w *gateWalker) stmt(st ast.Stmt, conds []string) {
	switch s := st.(type) {
	case *ast.BlockStmt:
		w.block(s, conds)
	case *ast.IfStmt:
		if s.Init != nil {
			w.stmt(s.Init, conds)
		}
		w.exprs(s.Cond, conds)
		c := w.ctext(s.Cond)
		w.block(s.Body, append(append([]string(nil), conds...), c))
		if s.Else != nil {
			w.stmt(s.Else, append(append([]string(nil), conds...), w.neg(s.Cond)))
		}
	case *ast.ForStmt:
		if s.Init != nil {
			w.stmt(s.Init, conds)
		}
		w.exprs(s.Cond, conds)
		w.block(s.Body, conds)
	case *ast.RangeStmt:
		w.exprs(s.X, conds)
		w.block(s.Body, conds)
	case *ast.SwitchStmt:
		if s.Init != nil {
			w.stmt(s.Init, conds)
		}
		w.exprs(s.Tag, conds)
		w.clauses(s.Body, conds)
	case *ast.TypeSwitchStmt:
		w.clauses(s.Body, conds)
	case *ast.SelectStmt:
		for _, c := range s.Body.List {
			cc := c.(*ast.CommClause)
			label := "default"
			if cc.Comm != nil {
				label = oneLine(src(cc.Comm))
			}
			nc := append(append([]string(nil), conds...), "case "+label)
			w.block(&ast.BlockStmt{List: cc.Body}, nc)
		}
	case *ast.LabeledStmt:
		w.stmt(s.Stmt, conds)
	case *ast.GoStmt:
		w.exprs(s.Call, conds)
	case *ast.DeferStmt:
		w.exprs(s.Call, conds)
	case *ast.ReturnStmt:
		if w.returns != "" {
			var rs []string
			for _, x := range s.Results {
				rs = append(rs, oneLine(src(x)))
			}
			w.rows = append(w.rows, gateRow{w.fn, w.returns, strings.Join(rs, ", "), append([]string(nil), conds...)})
		}
		w.exprs(st, conds)
	default:
		w.exprs(st, conds)
	}
}

func (w *gateWalker) clauses(b *ast.BlockStmt, conds []string) {
	for _, c := range b.List {
		cc := c.(*ast.CaseClause)
		label := "default"
		if cc.List != nil {
			var ls []string
			for _, e := range cc.List {
				ls = append(ls, oneLine(src(e)))
			}
			label = strings.Join(ls, ", ")
		}
		nc := append(append([]string(nil), conds...), "case "+label)
		w.block(&ast.BlockStmt{List: cc.Body}, nc)
	}
}

func genPrivacy() {
	var rows []gateRow
	hasWebseedsDef := "unknown"
	hasProxyDef := "unknown"
	peerHasProxyDef := "unknown"
	for _, rel := range privacyFiles {
		f := parse(rel)
		pkg := "tor."
		if strings.HasPrefix(rel, "peer/") {
			pkg = "peer."
		}
		for _, d := range f.Decls {
			fd, ok := d.(*ast.FuncDecl)
			if !ok || fd.Body == nil {
				continue
			}
			name := pkg + fd.Name.Name
			if fd.Recv != nil && len(fd.Recv.List) > 0 {
				t := fd.Recv.List[0].Type
				if s, ok := t.(*ast.StarExpr); ok {
					t = s.X
				}
				name = pkg + src(t) + "." + fd.Name.Name
			}
			// definitions of the gate predicates
			if len(fd.Body.List) == 1 {
				if r, ok := fd.Body.List[0].(*ast.ReturnStmt); ok && len(r.Results) == 1 {
					switch name {
					case "tor.hasWebseeds":
						hasWebseedsDef = oneLine(src(r.Results[0]))
					case "tor.Torrent.hasProxy":
						hasProxyDef = oneLine(src(r.Results[0]))
					case "peer.hasProxy":
						peerHasProxyDef = oneLine(src(r.Results[0]))
					}
				}
			}
			w := &gateWalker{fn: name}
			w.defs, w.effects = collectDefs(fd.Body)
			w.block(fd.Body, nil)
			rows = append(rows, w.rows...)
		}
	}
	var b strings.Builder
	b.WriteString("import Storrent.Model.PrivacyTable\n")
	b.WriteString("-- GENERATED by harness/cmd/extract (privacy.go) from tor/*.go and peer/peer.go; do not edit\n")
	b.WriteString("namespace Storrent.Gen\nopen Storrent.Privacy\n")
	b.WriteString("def privacyGates : List Gate := [\n")
	for i, r := range rows {
		var cs []string
		for _, c := range r.conds {
			cs = append(cs, leanStr(c))
		}
		sep := ","
		if i == len(rows)-1 {
			sep = " ]"
		}
		b.WriteString(fmt.Sprintf("  ⟨%s, %s, %s, [%s]⟩%s\n", leanStr(r.fn), leanStr(r.site), leanStr(r.args), strings.Join(cs, ", "), sep))
	}
	if len(rows) == 0 {
		b.WriteString(" ]\n")
	}
	b.WriteString("def hasWebseedsDef : String := " + leanStr(hasWebseedsDef) + "\n")
	b.WriteString("def hasProxyDef : String := " + leanStr(hasProxyDef) + "\n")
	b.WriteString("def peerHasProxyDef : String := " + leanStr(peerHasProxyDef) + "\n")
	b.WriteString("/-- how every outbound site decides between a direct connection and the proxy: the dial / client\n    construction sites of httpclient, tor.DialClient, the UDP and HTTP trackers, the web seeds and\n    GetTorrent, and the return statements of the HTTP transport's Proxy function, each with its\n    dominating conditions -/\n")
	b.WriteString("def proxyRoutes : List Gate := [\n")
	rrows := proxyRouteRows()
	for i, r := range rrows {
		var cs []string
		for _, c := range r.conds {
			cs = append(cs, leanStr(c))
		}
		sep := ","
		if i == len(rrows)-1 {
			sep = " ]"
		}
		b.WriteString(fmt.Sprintf("  ⟨%s, %s, %s, [%s]⟩%s\n", leanStr(r.fn), leanStr(r.site), leanStr(r.args), strings.Join(cs, ", "), sep))
	}
	if len(rrows) == 0 {
		b.WriteString(" ]\n")
	}
	b.WriteString("end Storrent.Gen\n")
	writeIfChanged("PrivacyGates.lean", b.String())
}

var routeCallees = map[string]bool{
	"dialer.DialContext": true, "dialer.Dial": true, "d.DialContext": true, "d.Dial": true,
	"proxy.FromURL": true, "url.Parse": true, "nurl.Parse": true, "http.ProxyURL": true,
	"http.ProxyFromEnvironment": true, "httpclient.Get": true,
	"net.Dial": true, "net.DialTimeout": true, "net.DialUDP": true, "net.DialTCP": true, "net.DialIP": true,
}

type routeFn struct{ file, pkg, name string }

var routeFns = []routeFn{
	{"httpclient/httpclient.go", "httpclient.", "Get"},
	{"tor/initial.go", "tor.", "DialClient"},
	{"tor/torfile.go", "tor.", "GetTorrent"},
	{"tracker/udp.go", "tracker.", "announceUDP"},
	{"tracker/http.go", "tracker.", "announceHTTP"},
	{"webseed/getright.go", "webseed.", "GetRight.Get"},
	{"webseed/hoffman.go", "webseed.", "Hoffman.Get"},
}

func proxyRouteRows() []gateRow {
	var rows []gateRow
	for _, rf := range routeFns {
		f := parse(rf.file)
		var fd *ast.FuncDecl
		if i := strings.Index(rf.name, "."); i >= 0 {
			fd = findMethod(f, rf.name[:i], rf.name[i+1:])
		} else {
			fd = findFunc(f, rf.name)
		}
		if fd == nil || fd.Body == nil {
			rows = append(rows, gateRow{rf.pkg + rf.name, "missing", "", nil})
			continue
		}
		w := &gateWalker{fn: rf.pkg + rf.name, callees: routeCallees}
		w.defs, w.effects = collectDefs(fd.Body)
		w.block(fd.Body, nil)
		// tracker.url.Parse: in announceUDP `url` is the tracker's URL value, not the package
		rows = append(rows, w.rows...)
		if rf.name == "Get" && rf.pkg == "httpclient." {
			// the Proxy field of the http.Transport literal
			found := false
			ast.Inspect(fd.Body, func(n ast.Node) bool {
				kv, ok := n.(*ast.KeyValueExpr)
				if !ok || src(kv.Key) != "Proxy" {
					return true
				}
				found = true
				if fl, ok := kv.Value.(*ast.FuncLit); ok {
					pw := &gateWalker{fn: "httpclient.Get", callees: map[string]bool{}, returns: "Transport.Proxy return"}
					pw.block(fl.Body, nil)
					rows = append(rows, pw.rows...)
				} else {
					rows = append(rows, gateRow{"httpclient.Get", "Transport.Proxy", "not a function literal: " + oneLine(src(kv.Value)), nil})
				}
				return false
			})
			if !found {
				rows = append(rows, gateRow{"httpclient.Get", "Transport.Proxy", "absent", nil})
			}
		}
	}
	return rows
}

func init() { extraGens = append(extraGens, genPrivacy) }
