package main

// genPolicyTable: the decisions tor.DialClient takes from crypto.Options (C08).  DialClient
// needs a real TCP dial and cannot be driven by the harness, so its first choice of
// handshake and its retry rule are tied to the source here: the Boolean expressions are
// translated to Lean (`Gen/PolicyTable.lean`) in a canonical form (ordered conjunct lists: nested
// ifs and && are indistinguishable) and Props/C08 proves by enumeration that their meaning is
// the model's `dialFirst` / `dialRetry`.  Unknown shapes are emitted as `shapeOk := false`
// (fail-closed).

import (
	"fmt"
	"go/ast"
	"go/token"
	"strings"
)

func init() { extraGens = append(extraGens, genPolicyTable) }

var optField = map[string]string{
	"AllowCryptoHandshake":  "o.allowCH",
	"PreferCryptoHandshake": "o.preferCH",
	"ForceCryptoHandshake":  "o.forceCH",
	"AllowEncryption":       "o.allowE",
	"PreferEncryption":      "o.preferE",
	"ForceEncryption":       "o.forceE",
}

// boolExpr translates &&, ||, !, parentheses, cryptoOptions.<Field> and the variable
// cryptoHandshake (as `ch`) into a Lean Bool expression.
func boolExpr(e ast.Expr) (string, bool) {
	switch e := e.(type) {
	case *ast.ParenExpr:
		s, ok := boolExpr(e.X)
		return "(" + s + ")", ok
	case *ast.UnaryExpr:
		if e.Op == token.NOT {
			s, ok := boolExpr(e.X)
			return "(!" + s + ")", ok
		}
	case *ast.BinaryExpr:
		a, ok1 := boolExpr(e.X)
		b, ok2 := boolExpr(e.Y)
		switch e.Op {
		case token.LAND:
			return "(" + a + " && " + b + ")", ok1 && ok2
		case token.LOR:
			return "(" + a + " || " + b + ")", ok1 && ok2
		}
	case *ast.SelectorExpr:
		if id, ok := e.X.(*ast.Ident); ok && id.Name == "cryptoOptions" {
			if f, ok := optField[e.Sel.Name]; ok {
				return f, true
			}
		}
	case *ast.Ident:
		switch e.Name {
		case "cryptoHandshake":
			return "ch", true
		case "true", "false":
			return e.Name, true
		}
	}
	return "false", false
}

// conjuncts flattens a condition into the ordered list of its conjuncts: parentheses are
// dropped, `a && b` contributes the conjuncts of a then of b, `!!a` is a, `!(a || b)` is
// `!a`, `!b`, a local defined once by a side-effect-free expression is replaced by its
// definition.  Anything else (a disjunction, a negated conjunction) stays ONE conjunct,
// translated by boolExpr; ok = false if even that fails (fail-closed).
func conjuncts(e ast.Expr, locals map[string]ast.Expr) (out []string, ok bool) {
	switch e := e.(type) {
	case *ast.ParenExpr:
		return conjuncts(e.X, locals)
	case *ast.BinaryExpr:
		if e.Op == token.LAND {
			a, ok1 := conjuncts(e.X, locals)
			b, ok2 := conjuncts(e.Y, locals)
			return append(a, b...), ok1 && ok2
		}
	case *ast.UnaryExpr:
		if e.Op == token.NOT {
			x := e.X
			for {
				p, isP := x.(*ast.ParenExpr)
				if !isP {
					break
				}
				x = p.X
			}
			switch x := x.(type) {
			case *ast.UnaryExpr:
				if x.Op == token.NOT {
					return conjuncts(x.X, locals)
				}
			case *ast.BinaryExpr:
				if x.Op == token.LOR {
					a, ok1 := conjuncts(&ast.UnaryExpr{Op: token.NOT, X: x.X}, locals)
					b, ok2 := conjuncts(&ast.UnaryExpr{Op: token.NOT, X: x.Y}, locals)
					return append(a, b...), ok1 && ok2
				}
			case *ast.Ident:
				if d, isLocal := locals[x.Name]; isLocal {
					return conjuncts(&ast.UnaryExpr{Op: token.NOT, X: &ast.ParenExpr{X: d}}, locals)
				}
			}
		}
	case *ast.Ident:
		if d, isLocal := locals[e.Name]; isLocal {
			return conjuncts(d, locals)
		}
	}
	s, good := boolExprL(e, locals)
	return []string{s}, good
}

// boolExprL is boolExpr with single-assignment locals replaced by their definitions.
func boolExprL(e ast.Expr, locals map[string]ast.Expr) (string, bool) {
	switch e := e.(type) {
	case *ast.ParenExpr:
		return boolExprL(e.X, locals)
	case *ast.UnaryExpr:
		if e.Op == token.NOT {
			s, ok := boolExprL(e.X, locals)
			return "(!" + s + ")", ok
		}
	case *ast.BinaryExpr:
		a, ok1 := boolExprL(e.X, locals)
		b, ok2 := boolExprL(e.Y, locals)
		switch e.Op {
		case token.LAND:
			return "(" + a + " && " + b + ")", ok1 && ok2
		case token.LOR:
			return "(" + a + " || " + b + ")", ok1 && ok2
		}
	case *ast.Ident:
		if d, isLocal := locals[e.Name]; isLocal {
			return boolExprL(d, locals)
		}
	}
	return boolExpr(e)
}

// singleAssignmentLocals: `x := <expr>` where x is never assigned again nor has its address
// taken in the function and <expr> is a pure Boolean expression over the options.
func singleAssignmentLocals(fd *ast.FuncDecl) map[string]ast.Expr {
	defs := map[string]ast.Expr{}
	writes := map[string]int{}
	ast.Inspect(fd.Body, func(n ast.Node) bool {
		switch s := n.(type) {
		case *ast.AssignStmt:
			for i, l := range s.Lhs {
				if id, ok := l.(*ast.Ident); ok {
					writes[id.Name]++
					if s.Tok == token.DEFINE && len(s.Lhs) == len(s.Rhs) {
						defs[id.Name] = s.Rhs[i]
					}
				}
			}
		case *ast.IncDecStmt:
			if id, ok := s.X.(*ast.Ident); ok {
				writes[id.Name]++
			}
		case *ast.UnaryExpr:
			if s.Op == token.AND {
				if id, ok := s.X.(*ast.Ident); ok {
					writes[id.Name] += 2
				}
			}
		}
		return true
	})
	out := map[string]ast.Expr{}
	for name, d := range defs {
		if writes[name] != 1 || name == "cryptoHandshake" {
			continue
		}
		if _, ok := boolExpr(d); ok {
			out[name] = d
		}
	}
	return out
}

type dialRow struct {
	conj []string
	val  string
}

// walkRetry collects, for every `cryptoHandshake = V; goto again` below stmts, the ordered
// conjuncts of all the `if` conditions that dominate it (nesting and && are the same thing).
func walkRetry(stmts []ast.Stmt, conj []string, locals map[string]ast.Expr, rows *[]dialRow, ok *bool) {
	for i := 0; i < len(stmts); i++ {
		switch st := stmts[i].(type) {
		case *ast.IfStmt:
			if st.Else != nil || st.Init != nil {
				*ok = false
				continue
			}
			cs, good := conjuncts(st.Cond, locals)
			if !good {
				*ok = false
			}
			walkRetry(st.Body.List, append(append([]string(nil), conj...), cs...), locals, rows, ok)
		case *ast.AssignStmt:
			// must be `cryptoHandshake = V` immediately followed by `goto again`
			if st.Tok != token.ASSIGN || len(st.Lhs) != 1 || src(st.Lhs[0]) != "cryptoHandshake" || i+1 >= len(stmts) {
				*ok = false
				continue
			}
			br, isBr := stmts[i+1].(*ast.BranchStmt)
			if !isBr || br.Tok != token.GOTO {
				*ok = false
				continue
			}
			v, good := boolExprL(st.Rhs[0], locals)
			if !good {
				*ok = false
			}
			*rows = append(*rows, dialRow{append([]string(nil), conj...), v})
			i++
		case *ast.EmptyStmt:
		default:
			*ok = false
		}
	}
}

func genPolicyTable() {
	f := parse("tor/initial.go")
	fd := findFunc(f, "DialClient")
	ok := fd != nil
	var first []string
	guard := ""
	seenFirst := false
	var rows []dialRow
	if ok {
		locals := singleAssignmentLocals(fd)
		ast.Inspect(fd.Body, func(n ast.Node) bool {
			switch s := n.(type) {
			case *ast.AssignStmt:
				if s.Tok == token.DEFINE && len(s.Lhs) == 1 && len(s.Rhs) == 1 {
					if id, isId := s.Lhs[0].(*ast.Ident); isId && id.Name == "cryptoHandshake" {
						cs, good := conjuncts(s.Rhs[0], locals)
						first, seenFirst = cs, true
						ok = ok && good
					}
				}
			case *ast.IfStmt:
				c := src(s.Cond)
				if strings.Contains(c, "ErrBadHandshake") {
					guard = strings.Join(strings.Fields(c), " ")
					if s.Else != nil || s.Init != nil {
						ok = false
					}
					walkRetry(s.Body.List, nil, locals, &rows, &ok)
					return false
				}
			}
			return true
		})
	}
	if guard == "" || !seenFirst {
		ok = false
	}
	list := func(cs []string) string { return "[" + strings.Join(cs, ", ") + "]" }
	var b strings.Builder
	b.WriteString("import Storrent.Model.CryptoPolicy\n")
	b.WriteString("-- GENERATED by harness/cmd/extract from tor/initial.go (DialClient); do not edit\n")
	b.WriteString("-- Canonical form: every condition is the ordered list of its conjuncts; nested `if`s and\n")
	b.WriteString("-- `&&` contribute alike (no line numbers: comment-only edits leave the table unchanged).\n")
	b.WriteString("namespace Storrent.Gen\nopen Storrent.Policy\n")
	fmt.Fprintf(&b, "/-- every shape was recognised -/\ndef dialShapeOk : Bool := %v\n", ok)
	fmt.Fprintf(&b, "/-- `cryptoHandshake := …`: its conjuncts -/\ndef dialFirstConj (o : Options) : List Bool := %s\n", list(first))
	fmt.Fprintf(&b, "/-- the condition under which DialClient retries at all -/\ndef dialRetryGuard : String := %s\n", leanStr(guard))
	b.WriteString("/-- one row per `cryptoHandshake = V; goto again`, in source order: the conjuncts of all the\n")
	b.WriteString("    conditions dominating it inside the retry block, and V; `ch` = cryptoHandshake -/\n")
	b.WriteString("def dialRetryRows (o : Options) (ch : Bool) : List (List Bool × Bool) := [\n")
	for i, r := range rows {
		sep := ","
		if i == len(rows)-1 {
			sep = ""
		}
		fmt.Fprintf(&b, "  (%s, %s)%s\n", list(r.conj), r.val, sep)
	}
	b.WriteString("]\nend Storrent.Gen\n")
	writeIfChanged("PolicyTable.lean", b.String())
}
