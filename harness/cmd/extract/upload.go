package main

// Facts about the upload path of peer/peer.go for C16 (Gen/UploadTable.lean):
// the constants reqQ and maxRequestLength, the guards of `case protocol.Request` that
// precede the first edit of peer.requested, every site that modifies numUnchoking (with
// the amUnchoking store or test that accompanies it).

import (
	"fmt"
	"go/ast"
	"go/token"
	"os"
	"path/filepath"
	"sort"
	"strings"
)

func init() { extraGens = append(extraGens, genUploadTable) }

func uplOneLine(n ast.Node) string { return strings.Join(strings.Fields(src(n)), " ") }

func mentions(n ast.Node, name string) bool {
	found := false
	ast.Inspect(n, func(x ast.Node) bool {
		if id, ok := x.(*ast.Ident); ok && id.Name == name {
			found = true
		}
		return !found
	})
	return found
}

// numUnchokingDelta recognises atomic.AddInt32(&numUnchoking, d)
func numUnchokingDelta(n ast.Node) (int64, bool) {
	call, ok := n.(*ast.CallExpr)
	if !ok || len(call.Args) != 2 {
		return 0, false
	}
	sel, ok := call.Fun.(*ast.SelectorExpr)
	if !ok || sel.Sel.Name != "AddInt32" {
		return 0, false
	}
	u, ok := call.Args[0].(*ast.UnaryExpr)
	if !ok || u.Op != token.AND {
		return 0, false
	}
	if id, ok := u.X.(*ast.Ident); !ok || id.Name != "numUnchoking" {
		return 0, false
	}
	neg := false
	arg := call.Args[1]
	if ue, ok := arg.(*ast.UnaryExpr); ok && ue.Op == token.SUB {
		neg = true
		arg = ue.X
	}
	v, ok := constInt(arg)
	if !ok {
		return 0, false
	}
	if neg {
		v = -v
	}
	return v, true
}

// reachability says whether the statement `target` is a top-level statement of a deferred
// function literal (or of the function itself) that no earlier statement of that body can
// leave through a `return`: "" if so, otherwise a description (fail-closed).
func reachability(body *ast.BlockStmt, target ast.Stmt) string {
	var owner *ast.BlockStmt
	ast.Inspect(body, func(n ast.Node) bool {
		if owner != nil {
			return false
		}
		var b *ast.BlockStmt
		switch x := n.(type) {
		case *ast.FuncLit:
			b = x.Body
		case *ast.BlockStmt:
			if x == body {
				b = x
			}
		}
		if b != nil {
			for _, st := range b.List {
				if st == target {
					owner = b
					return false
				}
			}
		}
		return true
	})
	if owner == nil {
		return " (nested)"
	}
	for _, st := range owner.List {
		if st == target {
			return ""
		}
		early := false
		ast.Inspect(st, func(n ast.Node) bool {
			switch n.(type) {
			case *ast.FuncLit:
				return false
			case *ast.ReturnStmt:
				early = true
			}
			return !early
		})
		if early {
			return " (after a statement that may return)"
		}
	}
	return ""
}

// ---- canonical rendering of guard rows -------------------------------------------------
// Rows must not depend on how adjacent guards are grouped nor on the names of locals:
//   * a guard condition contributes one row per top-level `||` disjunct, in evaluation order
//     (so `if a {X}; if b {X}` and `if a || b {X}` give the same rows);
//   * a local variable (anything declared inside the case clause; `peer` and `m` are not
//     locals) is replaced by its defining expression when it is defined exactly once, never
//     reassigned, and that expression is a simple selector/index chain on peer or m;
//     otherwise by a positional placeholder `$n` (n = order of declaration in the clause).

type localEnv struct {
	def   map[string]ast.Expr // single definition, if any
	order map[string]int      // positional index
	multi map[string]bool     // assigned more than once
}

func simpleSelector(e ast.Expr) bool {
	switch x := e.(type) {
	case *ast.Ident:
		return x.Name == "peer" || x.Name == "m"
	case *ast.SelectorExpr:
		return simpleSelector(x.X)
	case *ast.IndexExpr:
		_, lit := x.Index.(*ast.BasicLit)
		return lit && simpleSelector(x.X)
	case *ast.ParenExpr:
		return simpleSelector(x.X)
	}
	return false
}

func localsOf(clause ast.Node) *localEnv {
	env := &localEnv{def: map[string]ast.Expr{}, order: map[string]int{}, multi: map[string]bool{}}
	declare := func(id *ast.Ident, rhs ast.Expr) {
		if id.Name == "_" || id.Name == "peer" || id.Name == "m" {
			return
		}
		if _, seen := env.order[id.Name]; seen {
			env.multi[id.Name] = true
			return
		}
		env.order[id.Name] = len(env.order) + 1
		if rhs != nil {
			env.def[id.Name] = rhs
		}
	}
	ast.Inspect(clause, func(n ast.Node) bool {
		switch x := n.(type) {
		case *ast.FuncLit:
			return false
		case *ast.AssignStmt:
			for i, l := range x.Lhs {
				id, ok := l.(*ast.Ident)
				if !ok {
					continue
				}
				if x.Tok == token.DEFINE {
					var rhs ast.Expr
					if len(x.Lhs) == len(x.Rhs) {
						rhs = x.Rhs[i]
					}
					declare(id, rhs)
				} else if _, isLocal := env.order[id.Name]; isLocal {
					env.multi[id.Name] = true
				}
			}
		case *ast.IncDecStmt:
			if id, ok := x.X.(*ast.Ident); ok {
				env.multi[id.Name] = true
			}
		case *ast.RangeStmt:
			for _, e := range []ast.Expr{x.Key, x.Value} {
				if id, ok := e.(*ast.Ident); ok && x.Tok == token.DEFINE {
					declare(id, nil)
				}
			}
		case *ast.DeclStmt:
			if gd, ok := x.Decl.(*ast.GenDecl); ok {
				for _, sp := range gd.Specs {
					if vs, ok := sp.(*ast.ValueSpec); ok {
						for _, id := range vs.Names {
							declare(id, nil)
							env.multi[id.Name] = true // `var x T` then assigned: not a simple definition
						}
					}
				}
			}
		}
		return true
	})
	return env
}

// canon renders an expression with locals normalised; unknown node kinds fall back to the
// printer (fail-closed: the text then simply differs from the expected one if it matters).
func (env *localEnv) canon(e ast.Expr) string {
	switch x := e.(type) {
	case *ast.Ident:
		if n, isLocal := env.order[x.Name]; isLocal {
			if d, ok := env.def[x.Name]; ok && !env.multi[x.Name] && simpleSelector(d) {
				return env.canon(d)
			}
			return fmt.Sprintf("$%d", n)
		}
		return x.Name
	case *ast.BasicLit:
		return x.Value
	case *ast.ParenExpr:
		return "(" + env.canon(x.X) + ")"
	case *ast.SelectorExpr:
		return env.canon(x.X) + "." + x.Sel.Name
	case *ast.IndexExpr:
		return env.canon(x.X) + "[" + env.canon(x.Index) + "]"
	case *ast.StarExpr:
		return "*" + env.canon(x.X)
	case *ast.UnaryExpr:
		return x.Op.String() + env.canon(x.X)
	case *ast.BinaryExpr:
		return env.canon(x.X) + " " + x.Op.String() + " " + env.canon(x.Y)
	case *ast.CallExpr:
		var as []string
		for _, a := range x.Args {
			as = append(as, env.canon(a))
		}
		return env.canon(x.Fun) + "(" + strings.Join(as, ", ") + ")"
	}
	return uplOneLine(e)
}

// disjuncts flattens the top-level `||` of a condition, in evaluation order.
func disjuncts(e ast.Expr) []ast.Expr {
	switch x := e.(type) {
	case *ast.ParenExpr:
		return disjuncts(x.X)
	case *ast.BinaryExpr:
		if x.Op == token.LOR {
			return append(disjuncts(x.X), disjuncts(x.Y)...)
		}
	}
	return []ast.Expr{e}
}

func genUploadTable() {
	f := parse("peer/peer.go")
	var b strings.Builder
	b.WriteString("/- GENERATED by harness/cmd/extract (upload.go) from peer/peer.go — do not edit -/\n")
	b.WriteString("namespace Storrent.Gen\n\n")

	// constants
	consts := map[string]string{"reqQ": "none", "maxRequestLength": "none"}
	for _, d := range f.Decls {
		gd, ok := d.(*ast.GenDecl)
		if !ok || gd.Tok != token.CONST {
			continue
		}
		for _, sp := range gd.Specs {
			vs := sp.(*ast.ValueSpec)
			for i, n := range vs.Names {
				if _, want := consts[n.Name]; want && i < len(vs.Values) {
					if v, ok := constInt(vs.Values[i]); ok {
						consts[n.Name] = fmt.Sprintf("some %d", v)
					}
				}
			}
		}
	}
	fmt.Fprintf(&b, "def uploadReqQ : Option Nat := %s\n", consts["reqQ"])
	fmt.Fprintf(&b, "def uploadMaxRequestLength : Option Nat := %s\n\n", consts["maxRequestLength"])

	// guards of `case protocol.Request` before the first statement that mentions
	// peer.requested in an assignment
	var guards []string
	hm := findFunc(f, "handleMessage")
	if hm != nil {
		ast.Inspect(hm, func(n ast.Node) bool {
			cc, ok := n.(*ast.CaseClause)
			if !ok || len(cc.List) != 1 || uplOneLine(cc.List[0]) != "protocol.Request" {
				return true
			}
			env := localsOf(cc)
			for _, st := range cc.Body {
				ifs, ok := st.(*ast.IfStmt)
				if !ok {
					break
				}
				// an `if` whose body returns at once: reject(...) or an error
				ret := ""
				if len(ifs.Body.List) == 1 && ifs.Else == nil && ifs.Init == nil {
					if r, ok := ifs.Body.List[0].(*ast.ReturnStmt); ok && len(r.Results) == 1 {
						ret = env.canon(r.Results[0])
					}
				}
				if ret == "" {
					break
				}
				// one row per top-level disjunct: grouping of adjacent guards is immaterial
				for _, d := range disjuncts(ifs.Cond) {
					guards = append(guards, env.canon(d)+" => "+ret)
				}
			}
			return false
		})
	}
	// the head-drop limit: the comparison of len(peer.requested) in `case protocol.Request`,
	// with the class of its right-hand side (a literal or a package-level constant is the
	// only thing the remote cannot move; anything else is reported as `expr ...`)
	pkgConsts := map[string]bool{}
	for _, d := range f.Decls {
		if gd, ok := d.(*ast.GenDecl); ok && gd.Tok == token.CONST {
			for _, sp := range gd.Specs {
				for _, n := range sp.(*ast.ValueSpec).Names {
					pkgConsts[n.Name] = true
				}
			}
		}
	}
	limit := "unknown"
	nlimits := 0
	if hm != nil {
		ast.Inspect(hm, func(n ast.Node) bool {
			cc, ok := n.(*ast.CaseClause)
			if !ok || len(cc.List) != 1 || uplOneLine(cc.List[0]) != "protocol.Request" {
				return true
			}
			ast.Inspect(cc, func(x ast.Node) bool {
				be, ok := x.(*ast.BinaryExpr)
				if !ok || uplOneLine(be.X) != "len(peer.requested)" {
					return true
				}
				nlimits++
				rhs := "expr " + localsOf(cc).canon(be.Y)
				switch y := be.Y.(type) {
				case *ast.BasicLit:
					rhs = "literal " + y.Value
				case *ast.Ident:
					if _, isLocal := localsOf(cc).order[y.Name]; pkgConsts[y.Name] && !isLocal {
						rhs = "const " + y.Name
					}
				}
				limit = be.Op.String() + " " + rhs
				return true
			})
			return false
		})
	}
	if nlimits != 1 {
		limit = fmt.Sprintf("unknown (%d comparisons of len(peer.requested))", nlimits)
	}
	b.WriteString("/-- the head-drop test on the upload queue: operator and right-hand side -/\n")
	fmt.Fprintf(&b, "def uploadHeadDropLimit : String := %s\n\n", leanStr(limit))
	b.WriteString("/-- conditions under which a Request is rejected at once, in order -/\n")
	b.WriteString("def uploadRequestGuards : List String := [")
	for i, g := range guards {
		if i > 0 {
			b.WriteString(", ")
		}
		b.WriteString(leanStr(g))
	}
	b.WriteString("]\n\n")

	// every modification of numUnchoking in package peer (non-test, non-verif files):
	// (function, delta, the amUnchoking store in the same block or "test" for the exit path)
	type site struct {
		fn    string
		delta int64
		with  string
		where string
	}
	var sites []site
	files, _ := filepath.Glob(filepath.Join(*repo, "peer", "*.go"))
	sort.Strings(files)
	for _, fp := range files {
		base := filepath.Base(fp)
		if strings.HasSuffix(base, "_test.go") || strings.HasPrefix(base, "verif_") {
			continue
		}
		rel, _ := filepath.Rel(*repo, fp)
		pf := parse(rel)
		for _, d := range pf.Decls {
			fd, ok := d.(*ast.FuncDecl)
			if !ok || fd.Body == nil {
				continue
			}
			ast.Inspect(fd.Body, func(n ast.Node) bool {
				blk, ok := n.(*ast.BlockStmt)
				if !ok {
					return true
				}
				for i, st := range blk.List {
					var call ast.Node
					switch s := st.(type) {
					case *ast.ExprStmt:
						call = s.X
					case *ast.AssignStmt:
						if len(s.Rhs) == 1 {
							call = s.Rhs[0]
						}
					}
					if call == nil {
						continue
					}
					dlt, ok := numUnchokingDelta(call)
					if !ok {
						continue
					}
					with := "none"
					if i > 0 {
						prev := uplOneLine(blk.List[i-1])
						if strings.HasPrefix(prev, "atomic.StoreUint32(&peer.amUnchoking, ") {
							with = "store " + strings.TrimSuffix(strings.TrimPrefix(prev, "atomic.StoreUint32(&peer.amUnchoking, "), ")")
						}
					}
					sites = append(sites, site{fd.Name.Name, dlt, with, pos(st)})
				}
				return true
			})
			// the exit path: `if peer.amUnchoking != 0 { n := atomic.AddInt32(&numUnchoking, -1) ... }`
			ast.Inspect(fd.Body, func(n ast.Node) bool {
				ifs, ok := n.(*ast.IfStmt)
				if !ok {
					return true
				}
				if uplOneLine(ifs.Cond) == "peer.amUnchoking != 0" && len(ifs.Body.List) > 0 {
					if as, ok := ifs.Body.List[0].(*ast.AssignStmt); ok && len(as.Rhs) == 1 {
						if _, ok := numUnchokingDelta(as.Rhs[0]); ok {
							for j := range sites {
								if sites[j].where == pos(as) {
									sites[j].with = "test amUnchoking != 0" + reachability(fd.Body, ifs)
								}
							}
						}
					}
				}
				return true
			})
		}
	}
	// any other write to numUnchoking (assignment, StoreInt32, ...) is reported as unknown
	other := 0
	for _, fp := range files {
		base := filepath.Base(fp)
		if strings.HasSuffix(base, "_test.go") || strings.HasPrefix(base, "verif_") {
			continue
		}
		data, err := os.ReadFile(fp)
		if err != nil {
			continue
		}
		other += strings.Count(string(data), "&numUnchoking")
	}
	b.WriteString("/-- (function, delta, accompanying amUnchoking store / test) for every write of numUnchoking -/\n")
	b.WriteString("def uploadCounterSites : List (String × Int × String) := [")
	for i, s := range sites {
		if i > 0 {
			b.WriteString(", ")
		}
		fmt.Fprintf(&b, "(%s, %d, %s)", leanStr(s.fn), s.delta, leanStr(s.with))
	}
	b.WriteString("]\n")
	fmt.Fprintf(&b, "/-- occurrences of `&numUnchoking` in package peer (the sites above plus the load in NumUnchoking) -/\n")
	fmt.Fprintf(&b, "def uploadCounterRefs : Nat := %d\n", other)
	for _, s := range sites {
		fmt.Fprintf(&b, "-- %s %s\n", s.fn, s.where)
	}
	b.WriteString("\nend Storrent.Gen\n")
	writeIfChanged("UploadTable.lean", b.String())
}
