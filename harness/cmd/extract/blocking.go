package main

// blocking.go: Gen/Blocking.lean (C17).  For every listed function of tor/ and peer/ the
// table has one row per channel communication (send or receive): whether it is a case of
// a `select`, and which "exit" alternatives that select offers (`<-t.Done`, `<-p.Done`,
// `<-ctx.Done()`, `<-t.Deleted`, `default`, ...).  A send/receive statement outside any
// select is a row with sel = false (unguarded).  Purely syntactic (go/ast).

import (
	"fmt"
	"os"
	"path/filepath"
	"go/ast"
	"go/token"
	"strings"
)

type blockFn struct {
	file, recv, name, label string
}

var blockFns = []blockFn{
	{"tor/tor.go", "", "Announce", "tor.Announce"},
	{"tor/tor.go", "Torrent", "run", "tor.Torrent.run"},
	{"tor/tor.go", "", "handleEvent", "tor.handleEvent"},
	{"tor/tor.go", "", "writePeer", "tor.writePeer"},
	{"tor/tor.go", "", "maybeWritePeer", "tor.maybeWritePeer"},
	{"tor/tor.go", "Torrent", "Kill", "tor.Torrent.Kill"},
	{"tor/tor.go", "Torrent", "NewPeer", "tor.Torrent.NewPeer"},
	{"tor/tor.go", "Torrent", "AddKnown", "tor.Torrent.AddKnown"},
	{"tor/tor.go", "Torrent", "BadPeer", "tor.Torrent.BadPeer"},
	{"tor/tor.go", "Torrent", "GetStats", "tor.Torrent.GetStats"},
	{"tor/tor.go", "Torrent", "GetAvailable", "tor.Torrent.GetAvailable"},
	{"tor/tor.go", "Torrent", "DropPeer", "tor.Torrent.DropPeer"},
	{"tor/tor.go", "Torrent", "GetPeer", "tor.Torrent.GetPeer"},
	{"tor/tor.go", "Torrent", "GetPeers", "tor.Torrent.GetPeers"},
	{"tor/tor.go", "Torrent", "GetKnown", "tor.Torrent.GetKnown"},
	{"tor/tor.go", "Torrent", "GetKnowns", "tor.Torrent.GetKnowns"},
	{"tor/tor.go", "Torrent", "Have", "tor.Torrent.Have"},
	{"tor/tor.go", "Torrent", "GetConf", "tor.Torrent.GetConf"},
	{"tor/tor.go", "Torrent", "SetConf", "tor.Torrent.SetConf"},
	{"tor/tor.go", "Torrent", "Request", "tor.Torrent.Request"},
	{"tor/tor.go", "", "trackerAnnounceSingle", "tor.trackerAnnounceSingle"},
	{"tor/reader.go", "Reader", "Read", "tor.Reader.Read"},
	{"tor/writer.go", "writer", "writeEvent", "tor.writer.writeEvent"},
	{"peer/peer.go", "", "Run", "peer.Run"},
	{"peer/peer.go", "", "writeEvent", "peer.writeEvent"},
	{"peer/peer.go", "", "handleEvent", "peer.handleEvent"},
	{"peer/peer.go", "Peer", "GetStatus", "peer.Peer.GetStatus"},
	{"peer/peer.go", "Peer", "GetPex", "peer.Peer.GetPex"},
	{"peer/peer.go", "Peer", "GetStats", "peer.Peer.GetStats"},
	{"peer/peer.go", "Peer", "GetFast", "peer.Peer.GetFast"},
	{"peer/peer.go", "Peer", "GetBitmap", "peer.Peer.GetBitmap"},
	{"peer/peer.go", "Peer", "GetHave", "peer.Peer.GetHave"},
}

// exitClass classifies the channel expression of a receive case.
func exitClass(ch string) string {
	switch {
	case ch == "t.Done" || ch == "w.t.Done" || ch == "peer.torDone" || ch == "torDone" ||
		ch == "r.torrent.Done":
		return ".tDone"
	case ch == "p.Done" || ch == "peer.Done":
		return ".pDone"
	case strings.HasSuffix(ch, ".Done()"):
		return ".ctxDone"
	case ch == "t.Deleted":
		return ".deleted"
	case ch == "peer.writerDone":
		return ".writerDone"
	case ch == "timer.C":
		return ".timer"
	}
	return ""
}

// commOf returns (direction, channel expression, the ast node that is the communication).
func commOf(s ast.Stmt) (dir string, ch string, node ast.Node) {
	dir, e, node := commExprOf(s)
	if e == nil {
		return dir, "?", node
	}
	return dir, src(e), node
}

func commExprOf(s ast.Stmt) (dir string, ch ast.Expr, node ast.Node) {
	switch s := s.(type) {
	case *ast.SendStmt:
		return ".send", s.Chan, s
	case *ast.ExprStmt:
		if u, ok := s.X.(*ast.UnaryExpr); ok && u.Op == token.ARROW {
			return ".recv", u.X, u
		}
	case *ast.AssignStmt:
		if len(s.Rhs) == 1 {
			if u, ok := s.Rhs[0].(*ast.UnaryExpr); ok && u.Op == token.ARROW {
				return ".recv", u.X, u
			}
		}
	}
	return ".unknown", nil, nil
}

// localChans maps the local variables of a function to canonical, name-free texts:
//   - a channel made in the function (`x := make(chan …)`, or `var x chan …` with a single
//     `x = make(chan …)`) is "made#k" (k-th such channel in order of declaration);
//   - a local defined exactly once by a single-valued expression and never reassigned is that
//     expression ("Get(h)", "time.NewTicker(…)");
//   - any other local is "local".
// Parameters, receivers and type-switch guards keep their names.
func localChans(fd *ast.FuncDecl) map[string]string {
	order := []string{}
	seen := map[string]bool{}
	makes := map[string]int{}
	other := map[string]int{}
	defText := map[string]string{}
	guards := map[*ast.AssignStmt]bool{}
	ast.Inspect(fd.Body, func(n ast.Node) bool {
		if ts, ok := n.(*ast.TypeSwitchStmt); ok {
			if a, ok := ts.Assign.(*ast.AssignStmt); ok {
				guards[a] = true
			}
		}
		return true
	})
	declare := func(id *ast.Ident) {
		if id == nil || id.Name == "_" || seen[id.Name] {
			return
		}
		seen[id.Name] = true
		order = append(order, id.Name)
	}
	isMake := func(e ast.Expr) bool {
		c, ok := e.(*ast.CallExpr)
		if !ok || len(c.Args) == 0 {
			return false
		}
		id, ok := c.Fun.(*ast.Ident)
		if !ok || id.Name != "make" {
			return false
		}
		_, isChan := c.Args[0].(*ast.ChanType)
		return isChan
	}
	note := func(name string, rhs ast.Expr) {
		if rhs != nil && isMake(rhs) {
			makes[name]++
			return
		}
		other[name]++
		if rhs != nil {
			if _, isLit := rhs.(*ast.FuncLit); !isLit {
				defText[name] = oneLine(src(rhs))
				return
			}
		}
		defText[name] = ""
	}
	ast.Inspect(fd.Body, func(n ast.Node) bool {
		switch n := n.(type) {
		case *ast.AssignStmt:
			if guards[n] {
				return true
			}
			for i, l := range n.Lhs {
				id, ok := l.(*ast.Ident)
				if !ok {
					continue
				}
				if n.Tok == token.DEFINE {
					declare(id)
				}
				if !seen[id.Name] {
					continue
				}
				if len(n.Lhs) == len(n.Rhs) && n.Tok != token.ADD_ASSIGN {
					note(id.Name, n.Rhs[i])
				} else {
					note(id.Name, nil)
				}
			}
		case *ast.IncDecStmt:
			if id, ok := n.X.(*ast.Ident); ok && seen[id.Name] {
				note(id.Name, nil)
			}
		case *ast.ValueSpec:
			for i, id := range n.Names {
				declare(id)
				if i < len(n.Values) {
					note(id.Name, n.Values[i])
				}
			}
		case *ast.RangeStmt:
			if n.Tok == token.DEFINE {
				for _, e := range []ast.Expr{n.Key, n.Value} {
					if id, ok := e.(*ast.Ident); ok {
						declare(id)
						note(id.Name, nil)
					}
				}
			}
		}
		return true
	})
	out := map[string]string{}
	m := 0
	for _, name := range order {
		switch {
		case makes[name] == 1 && other[name] == 0:
			m++
			out[name] = fmt.Sprintf("made#%d", m)
		case makes[name] == 0 && other[name] == 1 && defText[name] != "":
			out[name] = defText[name]
		default:
			out[name] = "local"
		}
	}
	return out
}

// canonChan prints a channel expression with the root identifier, if it is a local variable,
// replaced by its canonical text.
func canonChan(locals map[string]string, e ast.Expr) string {
	text := src(e)
	root := e
	for {
		switch x := root.(type) {
		case *ast.SelectorExpr:
			root = x.X
			continue
		case *ast.ParenExpr:
			root = x.X
			continue
		}
		break
	}
	if id, ok := root.(*ast.Ident); ok {
		if c, ok := locals[id.Name]; ok && strings.HasPrefix(text, id.Name) {
			return c + text[len(id.Name):]
		}
	}
	return text
}

func blockingRows(fd *ast.FuncDecl, label string) []string {
	var rows []string
	locals := localChans(fd)
	inSelect := map[ast.Node]bool{}
	type row struct {
		pos  token.Pos
		text string
	}
	var out []row
	ast.Inspect(fd.Body, func(n ast.Node) bool {
		sel, ok := n.(*ast.SelectStmt)
		if !ok {
			return true
		}
		type cse struct {
			dir, ch, class string
			node           ast.Node
			pos            token.Pos
		}
		var cases []cse
		for _, c := range sel.Body.List {
			cc := c.(*ast.CommClause)
			if cc.Comm == nil {
				cases = append(cases, cse{"", "", ".dflt", nil, cc.Pos()})
				continue
			}
			dir, ch, node := commOf(cc.Comm)
			if node != nil {
				inSelect[node] = true
			}
			class := ""
			if dir == ".recv" {
				class = exitClass(ch) // classification reads the text as written
			}
			if _, che, _ := commExprOf(cc.Comm); che != nil {
				ch = canonChan(locals, che) // the row is name-free
			}
			cases = append(cases, cse{dir, ch, class, node, cc.Pos()})
		}
		for i, c := range cases {
			if c.class != "" && c.class != ".deleted" {
				continue
			}
			var alts []string
			for j, d := range cases {
				if j != i && d.class != "" {
					alts = append(alts, d.class)
				}
			}
			out = append(out, row{c.pos, fmt.Sprintf("⟨%s, %s, %s, true, [%s]⟩",
				leanStr(label), c.dir, leanStr(c.ch), strings.Join(alts, ", "))})
		}
		return true
	})
	ast.Inspect(fd.Body, func(n ast.Node) bool {
		switch n := n.(type) {
		case *ast.SendStmt:
			if !inSelect[n] {
				out = append(out, row{n.Pos(), fmt.Sprintf("⟨%s, .send, %s, false, []⟩",
					leanStr(label), leanStr(canonChan(locals, n.Chan)))})
			}
		case *ast.UnaryExpr:
			if n.Op == token.ARROW && !inSelect[n] {
				out = append(out, row{n.Pos(), fmt.Sprintf("⟨%s, .recv, %s, false, []⟩",
					leanStr(label), leanStr(canonChan(locals, n.X)))})
			}
		}
		return true
	})
	// source order
	for i := 1; i < len(out); i++ {
		for j := i; j > 0 && out[j].pos < out[j-1].pos; j-- {
			out[j], out[j-1] = out[j-1], out[j]
		}
	}
	for _, r := range out {
		rows = append(rows, r.text)
	}
	return rows
}

func genBlocking() {
	files := map[string]*ast.File{}
	var rows []string
	var missing []string
	for _, bf := range blockFns {
		f := files[bf.file]
		if f == nil {
			f = parse(bf.file)
			files[bf.file] = f
		}
		var fd *ast.FuncDecl
		if bf.recv == "" {
			fd = findFunc(f, bf.name)
		} else {
			fd = findMethod(f, bf.recv, bf.name)
		}
		if fd == nil || fd.Body == nil {
			missing = append(missing, leanStr(bf.label))
			continue
		}
		rows = append(rows, blockingRows(fd, bf.label)...)
	}
	// every exported method of *Torrent that communicates must be in the list above:
	// report the ones that are not (a new blocking API appears as a new row)
	f := files["tor/tor.go"]
	listed := map[string]bool{}
	for _, bf := range blockFns {
		listed[bf.label] = true
	}
	var unlisted []string
	for _, d := range f.Decls {
		fd, ok := d.(*ast.FuncDecl)
		if !ok || fd.Recv == nil || fd.Body == nil || !fd.Name.IsExported() {
			continue
		}
		t := fd.Recv.List[0].Type
		if s, ok := t.(*ast.StarExpr); ok {
			t = s.X
		}
		id, ok := t.(*ast.Ident)
		if !ok || id.Name != "Torrent" || strings.HasPrefix(fd.Name.Name, "Verif") {
			continue
		}
		label := "tor.Torrent." + fd.Name.Name
		if listed[label] {
			continue
		}
		if r := blockingRows(fd, label); len(r) > 0 {
			unlisted = append(unlisted, r...)
		}
	}
	var b strings.Builder
	b.WriteString("import Storrent.Model.BlockingTable\n")
	b.WriteString("-- GENERATED by harness/cmd/extract (blocking.go) from tor/tor.go, tor/reader.go, tor/writer.go, peer/peer.go; do not edit\n")
	b.WriteString("namespace Storrent.Gen\nopen Storrent.Lifecycle\n")
	b.WriteString("def blocking : List Point := [\n  ")
	b.WriteString(strings.Join(rows, ",\n  "))
	b.WriteString(" ]\n")
	b.WriteString("/-- communications in exported methods of *Torrent that are not in the extractor's list -/\n")
	b.WriteString("def blockingUnlisted : List Point := [" + strings.Join(unlisted, ",\n  ") + "]\n")
	b.WriteString("/-- listed functions the extractor could not find -/\n")
	b.WriteString("def blockingMissing : List String := [" + strings.Join(missing, ", ") + "]\n")
	b.WriteString("/-- statements executed, in order, once the event loop returns: run's first defer, then the defer of AddTorrent's goroutine -/\n")
	b.WriteString("def teardown : List String := [" + strings.Join(teardownOrder(f), ", ") + "]\n")
	b.WriteString("/-- peer.Run: the defer that closes peer.Done is registered before the first return statement of Run -/\n")
	b.WriteString(fmt.Sprintf("def peerDoneDeferBeforeReturns : Bool := %v\n", peerDoneDeferFirst(files["peer/peer.go"])))
	b.WriteString("/-- peer.Run: `close(peer.Done)` is the FIRST statement of that deferred block (nothing that can return or block precedes it) -/\n")
	b.WriteString(fmt.Sprintf("def peerDoneCloseFirst : Bool := %v\n", peerDoneCloseFirst(files["peer/peer.go"])))
	runs, exits := addPeerCaseFacts(f)
	b.WriteString("/-- tor.handleEvent, case peer.TorAddPeer: `go peer.Run(c.Peer, …)` is a statement of the case body itself (unconditional) -/\n")
	b.WriteString(fmt.Sprintf("def addPeerRunsPeer : Bool := %v\n", runs))
	b.WriteString("/-- … and this many return/break/goto/panic statements of that case precede it -/\n")
	b.WriteString(fmt.Sprintf("def addPeerExitsBeforeRun : Nat := %d\n", exits))
	b.WriteString("/-- Torrent.NewPeer: every return statement (its results, is a `conn.Close()` among the statements before it in its block) -/\n")
	b.WriteString("def newPeerReturns : List (String × Bool) := [" + strings.Join(newPeerReturns(f), ", ") + "]\n")
	b.WriteString("/-- peer.Run: its first statement that can matter on exit is `defer func(){ … peer.conn.Close() … }()`, registered before any return -/\n")
	b.WriteString(fmt.Sprintf("def peerRunClosesConnFirst : Bool := %v\n", peerRunClosesConnFirst(files["peer/peer.go"])))
	makesFirst, refusal := addTorrentRefusal(f)
	b.WriteString("/-- AddTorrent: the three channels (Event, Done, Deleted) are made before `add(t)` is called -/\n")
	b.WriteString(fmt.Sprintf("def addTorrentMakesBeforeAdd : Bool := %v\n", makesFirst))
	b.WriteString("/-- AddTorrent: the statements of the branch that refuses a duplicate (`if !added { … }`) -/\n")
	b.WriteString("def addTorrentRefusal : List String := [" + strings.Join(refusal, ", ") + "]\n")
	waits, hazards := replyWaits()
	b.WriteString("/-- every function of packages tor, peer, http, fuse that sends an event carrying a reply channel it made\n    and then receives on that channel: (function, how it waits, can the wait be abandoned for a reason\n    other than the answering loop's Done) -/\n")
	b.WriteString("def replyWaits : List (String × String × Bool) := [" + strings.Join(waits, ",\n  ") + "]\n")
	b.WriteString("/-- abandonable waits whose event is answered by a plain (blocking, unbuffered) send of the loop -/\n")
	b.WriteString("def replyHazards : List (String × String × Bool) := [" + strings.Join(hazards, ", ") + "]\n")
	b.WriteString("end Storrent.Gen\n")
	writeIfChanged("Blocking.lean", b.String())
}

// deferBody returns the statements of the first `defer func(){...}()` directly in body.
func deferBody(body *ast.BlockStmt) []string {
	for _, st := range body.List {
		if d, ok := st.(*ast.DeferStmt); ok {
			if fl, ok := d.Call.Fun.(*ast.FuncLit); ok {
				var out []string
				for _, s := range fl.Body.List {
					out = append(out, leanStr(src(s)))
				}
				return out
			}
		}
	}
	return []string{leanStr("unknown")}
}

func teardownOrder(f *ast.File) []string {
	run := findMethod(f, "Torrent", "run")
	add := findFunc(f, "AddTorrent")
	if run == nil || add == nil {
		return []string{leanStr("unknown")}
	}
	out := deferBody(run.Body)
	// the goroutine of AddTorrent: `go func(...) { defer func(...){ del; close(Deleted) }(t); t.run(ctx) }(...)`
	found := false
	for _, st := range add.Body.List {
		g, ok := st.(*ast.GoStmt)
		if !ok {
			continue
		}
		fl, ok := g.Call.Fun.(*ast.FuncLit)
		if !ok {
			continue
		}
		callsRun := false
		for _, s := range fl.Body.List {
			if es, ok := s.(*ast.ExprStmt); ok && src(es.X) == "t.run(ctx)" {
				callsRun = true
			}
		}
		if callsRun {
			out = append(out, deferBody(fl.Body)...)
			found = true
		}
	}
	if !found {
		out = append(out, leanStr("unknown"))
	}
	return out
}

// peerDoneDeferFirst: in peer.Run, no return statement of Run itself (function literals
// excluded) precedes the defer whose body closes peer.Done.
func peerDoneDeferFirst(f *ast.File) bool {
	fd := findFunc(f, "Run")
	if fd == nil {
		return false
	}
	var deferPos token.Pos
	for _, st := range fd.Body.List {
		if d, ok := st.(*ast.DeferStmt); ok {
			if fl, ok := d.Call.Fun.(*ast.FuncLit); ok && strings.Contains(src(fl.Body), "close(peer.Done)") {
				deferPos = d.Pos()
				break
			}
		}
	}
	if deferPos == token.NoPos {
		return false
	}
	ok := true
	var walk func(n ast.Node) bool
	walk = func(n ast.Node) bool {
		switch n := n.(type) {
		case *ast.FuncLit:
			return false
		case *ast.ReturnStmt:
			if n.Pos() < deferPos {
				ok = false
			}
		}
		return true
	}
	ast.Inspect(fd.Body, walk)
	return ok
}

// peerDoneCloseFirst: the deferred function literal of peer.Run that closes peer.Done does
// so in its first statement.
func peerDoneCloseFirst(f *ast.File) bool {
	fd := findFunc(f, "Run")
	if fd == nil {
		return false
	}
	n := 0
	ok := false
	for _, st := range fd.Body.List {
		d, isDefer := st.(*ast.DeferStmt)
		if !isDefer {
			continue
		}
		fl, isLit := d.Call.Fun.(*ast.FuncLit)
		if !isLit || !strings.Contains(src(fl.Body), "close(peer.Done)") {
			continue
		}
		n++
		if len(fl.Body.List) > 0 {
			if es, isExpr := fl.Body.List[0].(*ast.ExprStmt); isExpr && src(es.X) == "close(peer.Done)" {
				ok = true
			}
		}
	}
	return n == 1 && ok
}

// addPeerCaseFacts: in handleEvent's `case peer.TorAddPeer:` is `go peer.Run(...)` a top-level
// statement of the case body, and how many statements that leave the case precede it.
func addPeerCaseFacts(f *ast.File) (runs bool, exits int) {
	fd := findFunc(f, "handleEvent")
	if fd == nil {
		return false, 99
	}
	var clause *ast.CaseClause
	ast.Inspect(fd.Body, func(n ast.Node) bool {
		if cc, ok := n.(*ast.CaseClause); ok && clause == nil {
			for _, e := range cc.List {
				if src(e) == "peer.TorAddPeer" {
					clause = cc
				}
			}
		}
		return true
	})
	if clause == nil {
		return false, 99
	}
	var goPos token.Pos
	for _, st := range clause.Body {
		if g, ok := st.(*ast.GoStmt); ok && src(g.Call.Fun) == "peer.Run" {
			goPos = g.Pos()
			runs = true
			break
		}
	}
	if !runs {
		return false, 99
	}
	for _, st := range clause.Body {
		ast.Inspect(st, func(n ast.Node) bool {
			switch n := n.(type) {
			case *ast.FuncLit:
				return false
			case *ast.ReturnStmt:
				if n.Pos() < goPos {
					exits++
				}
			case *ast.BranchStmt:
				if n.Pos() < goPos && (n.Tok == token.BREAK || n.Tok == token.GOTO || n.Tok == token.FALLTHROUGH) {
					exits++
				}
			case *ast.CallExpr:
				if id, ok := n.Fun.(*ast.Ident); ok && id.Name == "panic" && n.Pos() < goPos {
					exits++
				}
			}
			return true
		})
	}
	return runs, exits
}

// newPeerReturns: every return of Torrent.NewPeer with whether `conn.Close()` is one of the
// statements preceding it in its own block.
func newPeerReturns(f *ast.File) []string {
	fd := findMethod(f, "Torrent", "NewPeer")
	if fd == nil {
		return []string{"(\"unknown\", false)"}
	}
	var out []string
	var walkBlock func(list []ast.Stmt)
	walkBlock = func(list []ast.Stmt) {
		closed := false
		for _, st := range list {
			if es, ok := st.(*ast.ExprStmt); ok && src(es.X) == "conn.Close()" {
				closed = true
			}
			if r, ok := st.(*ast.ReturnStmt); ok {
				var rs []string
				for _, x := range r.Results {
					rs = append(rs, oneLine(src(x)))
				}
				out = append(out, fmt.Sprintf("(%s, %v)", leanStr(strings.Join(rs, ", ")), closed))
			}
			switch s := st.(type) {
			case *ast.IfStmt:
				walkBlock(s.Body.List)
				if eb, ok := s.Else.(*ast.BlockStmt); ok {
					walkBlock(eb.List)
				}
			case *ast.SelectStmt:
				for _, c := range s.Body.List {
					walkBlock(c.(*ast.CommClause).Body)
				}
			case *ast.BlockStmt:
				walkBlock(s.List)
			}
		}
	}
	walkBlock(fd.Body.List)
	return out
}

// peerRunClosesConnFirst: the first defer of peer.Run is a function literal that calls
// peer.conn.Close(), and no return statement of Run precedes it.
func peerRunClosesConnFirst(f *ast.File) bool {
	fd := findFunc(f, "Run")
	if fd == nil {
		return false
	}
	for _, st := range fd.Body.List {
		switch s := st.(type) {
		case *ast.DeferStmt:
			fl, ok := s.Call.Fun.(*ast.FuncLit)
			return ok && strings.Contains(src(fl.Body), "peer.conn.Close()")
		case *ast.AssignStmt, *ast.ExprStmt, *ast.DeclStmt:
			continue
		default:
			return false // something that may return comes first
		}
	}
	return false
}

// addTorrentRefusal: are Event/Done/Deleted made before add(t), and what does the refusal do.
func addTorrentRefusal(f *ast.File) (bool, []string) {
	fd := findFunc(f, "AddTorrent")
	if fd == nil {
		return false, []string{leanStr("unknown")}
	}
	makes := 0
	makesFirst := false
	var refusal []string
	for _, st := range fd.Body.List {
		if a, ok := st.(*ast.AssignStmt); ok && len(a.Lhs) == 1 && len(a.Rhs) == 1 {
			l := src(a.Lhs[0])
			if (l == "t.Event" || l == "t.Done" || l == "t.Deleted") && strings.HasPrefix(src(a.Rhs[0]), "make(chan") {
				makes++
			}
			if src(a.Rhs[0]) == "add(t)" {
				makesFirst = makes == 3
			}
		}
		if ifs, ok := st.(*ast.IfStmt); ok && src(ifs.Cond) == "!added" {
			for _, s := range ifs.Body.List {
				refusal = append(refusal, leanStr(oneLine(src(s))))
			}
		}
	}
	if refusal == nil {
		refusal = []string{leanStr("unknown")}
	}
	return makesFirst, refusal
}

// replyWaits scans packages tor, peer, http and fuse for request/reply exchanges with an event
// loop: a channel made in the function, sent inside a composite literal on an `.Event` channel,
// then received from.  The loops answer with a plain send on an unbuffered channel, so a wait
// that can be abandoned for any reason other than that loop's Done would strand the loop.
func replyWaits() (rows []string, hazards []string) {
	dirs := []string{"tor", "peer", "http", "fuse"}
	for _, dir := range dirs {
		entries, err := os.ReadDir(filepath.Join(*repo, dir))
		if err != nil {
			continue
		}
		for _, ent := range entries {
			name := ent.Name()
			if !strings.HasSuffix(name, ".go") || strings.HasSuffix(name, "_test.go") || strings.HasPrefix(name, "verif_") {
				continue
			}
			f := parse(dir + "/" + name)
			for _, d := range f.Decls {
				fd, ok := d.(*ast.FuncDecl)
				if !ok || fd.Body == nil {
					continue
				}
				fname := dir + "." + fd.Name.Name
				if fd.Recv != nil && len(fd.Recv.List) > 0 {
					t := fd.Recv.List[0].Type
					if s, ok := t.(*ast.StarExpr); ok {
						t = s.X
					}
					fname = dir + "." + src(t) + "." + fd.Name.Name
				}
				locals := localChans(fd)
				// made channels that travel inside an event
				carried := map[string]bool{}
				buffered := map[string]bool{}
				ast.Inspect(fd.Body, func(n ast.Node) bool {
					switch n := n.(type) {
					case *ast.SendStmt:
						if !strings.HasSuffix(src(n.Chan), ".Event") {
							return true
						}
						ast.Inspect(n.Value, func(m ast.Node) bool {
							if id, ok := m.(*ast.Ident); ok && strings.HasPrefix(locals[id.Name], "made#") {
								carried[id.Name] = true
							}
							return true
						})
					case *ast.AssignStmt:
						for i, l := range n.Lhs {
							if id, ok := l.(*ast.Ident); ok && i < len(n.Rhs) {
								if c, ok := n.Rhs[i].(*ast.CallExpr); ok && len(c.Args) >= 2 && src(c.Fun) == "make" {
									buffered[id.Name] = true
								}
							}
						}
					}
					return true
				})
				if len(carried) == 0 {
					continue
				}
				inSel := map[ast.Node]bool{}
				ast.Inspect(fd.Body, func(n ast.Node) bool {
					sel, ok := n.(*ast.SelectStmt)
					if !ok {
						return true
					}
					for _, c := range sel.Body.List {
						cc := c.(*ast.CommClause)
						if cc.Comm == nil {
							continue
						}
						dir, che, node := commExprOf(cc.Comm)
						id, isId := che.(*ast.Ident)
						if dir != ".recv" || !isId || !carried[id.Name] {
							continue
						}
						inSel[node] = true
						var alts []string
						abandon := false
						for _, o := range sel.Body.List {
							oc := o.(*ast.CommClause)
							if oc == cc {
								continue
							}
							if oc.Comm == nil {
								alts = append(alts, "default")
								abandon = true
								continue
							}
							odir, och, _ := commOf(oc.Comm)
							cls := ""
							if odir == ".recv" {
								cls = exitClass(och)
							}
							switch cls {
							case ".tDone", ".pDone":
								alts = append(alts, strings.TrimPrefix(cls, "."))
							case "":
								alts = append(alts, "other")
								abandon = true
							default:
								alts = append(alts, strings.TrimPrefix(cls, "."))
								abandon = true
							}
						}
						how := "select[" + strings.Join(alts, ",") + "]"
						if buffered[id.Name] {
							how += " buffered"
						}
						row := fmt.Sprintf("(%s, %s, %v)", leanStr(fname), leanStr(how), abandon && !buffered[id.Name])
						rows = append(rows, row)
						if abandon && !buffered[id.Name] {
							hazards = append(hazards, row)
						}
					}
					return true
				})
				ast.Inspect(fd.Body, func(n ast.Node) bool {
					if u, ok := n.(*ast.UnaryExpr); ok && u.Op == token.ARROW && !inSel[u] {
						if id, ok := u.X.(*ast.Ident); ok && carried[id.Name] {
							rows = append(rows, fmt.Sprintf("(%s, %s, false)", leanStr(fname), leanStr("bare receive")))
						}
					}
					return true
				})
			}
		}
	}
	return rows, hazards
}

func init() { extraGens = append(extraGens, genBlocking) }
