// httpsites: the C19 translator.  From http/http.go it regenerates
//
//	(i)  the route table of Serve (pattern, handler, "first statement of the handler is
//	     `if !checkLocal(w, r) { return }`"), plus any other Handle/HandleFunc registration
//	     found anywhere in the package (reported unguarded: fail-closed);
//	(ii) every output site fmt.Fprintf(dst, fmt, args…) / fmt.Sprintf(fmt, args…) /
//	     http.Error(w, msg, code) with the class of every argument.
//
// Classes: escaped (html.EscapeString(…)), pathescaped (pathUrl(…)), hex (hash.Hash),
// number, addr (netip/net.IP rendering), const (literals, fixed strings, const stringers),
// request (a field of the *http.Request itself, e.g. r.Host — not torrent/peer controlled),
// raw(<expr>) for everything else.  The static type of an argument comes from go/types
// (source importer, std lib only); string-typed expressions are classified by their
// syntactic origin (all assignments to the variable inside the enclosing function are
// joined).  Anything not recognised is raw: fail-closed.
package main

import (
	"fmt"
	"go/ast"
	"go/importer"
	"go/parser"
	"go/token"
	"go/types"
	"os"
	"path/filepath"
	"sort"
	"strconv"
	"strings"
)

func init() { extraGens = append(extraGens, genHttpSites) }

type hcls struct {
	kind string // escaped pathescaped hex number addr const request raw
	expr string // for raw / request
}

var hrank = map[string]int{"const": 0, "number": 1, "addr": 2, "hex": 3, "pathescaped": 4, "escaped": 5, "request": 6, "raw": 7}

func hjoin(a, b hcls) hcls {
	if hrank[b.kind] > hrank[a.kind] {
		return b
	}
	return a
}

func (c hcls) lean() string {
	switch c.kind {
	case "raw":
		return "(.raw " + leanStr(c.expr) + ")"
	case "request":
		return "(.request " + leanStr(c.expr) + ")"
	}
	return "." + c.kind
}

type hx struct {
	info    *types.Info
	files   []*ast.File
	funcs   map[string]*ast.FuncDecl // package-level functions of package http
	busy    map[string]bool          // recursion guard for funcClass / identClass
	pkgASTs map[string][]*ast.File   // other repo packages, parsed on demand (stringers)
}

const httpModPrefix = "github.com/jech/storrent/"

func (x *hx) repoPkgFiles(pkgPath string) []*ast.File {
	if fs, ok := x.pkgASTs[pkgPath]; ok {
		return fs
	}
	var out []*ast.File
	if strings.HasPrefix(pkgPath, httpModPrefix) {
		dir := filepath.Join(*repo, strings.TrimPrefix(pkgPath, httpModPrefix))
		ents, _ := os.ReadDir(dir)
		for _, e := range ents {
			n := e.Name()
			if !strings.HasSuffix(n, ".go") || strings.HasSuffix(n, "_test.go") || strings.HasPrefix(n, "verif_") {
				continue
			}
			f, err := parser.ParseFile(fset, filepath.Join(dir, n), nil, 0)
			if err == nil {
				out = append(out, f)
			}
		}
	}
	x.pkgASTs[pkgPath] = out
	return out
}

// stringerClass inspects `func (x T) String() string` of a repo type: every return must be
// a string literal (const), hex.EncodeToString(…) (hex) or fmt.Sprintf(lit, int(…)…) (number).
func (x *hx) stringerClass(n *types.Named) hcls {
	obj := n.Obj()
	if obj.Pkg() == nil {
		return hcls{"raw", "stringer " + obj.Name()}
	}
	for _, f := range x.repoPkgFiles(obj.Pkg().Path()) {
		for _, d := range f.Decls {
			fd, ok := d.(*ast.FuncDecl)
			if !ok || fd.Name.Name != "String" || fd.Recv == nil || len(fd.Recv.List) != 1 || fd.Body == nil {
				continue
			}
			rt := fd.Recv.List[0].Type
			if s, ok := rt.(*ast.StarExpr); ok {
				rt = s.X
			}
			if id, ok := rt.(*ast.Ident); !ok || id.Name != obj.Name() {
				continue
			}
			res := hcls{"const", ""}
			seen := false
			ast.Inspect(fd.Body, func(nd ast.Node) bool {
				if _, ok := nd.(*ast.FuncLit); ok {
					res = hcls{"raw", "stringer " + obj.Name()}
					return false
				}
				rs, ok := nd.(*ast.ReturnStmt)
				if !ok {
					return true
				}
				seen = true
				if len(rs.Results) != 1 {
					res = hcls{"raw", "stringer " + obj.Name()}
					return false
				}
				res = hjoin(res, httpStringerRet(rs.Results[0], obj.Name()))
				return false
			})
			if !seen {
				return hcls{"raw", "stringer " + obj.Name()}
			}
			return res
		}
	}
	return hcls{"raw", "stringer " + obj.Name()}
}

func httpStringerRet(e ast.Expr, tn string) hcls {
	switch e := e.(type) {
	case *ast.BasicLit:
		if e.Kind == token.STRING {
			return hcls{"const", ""}
		}
	case *ast.CallExpr:
		if sel, ok := e.Fun.(*ast.SelectorExpr); ok {
			if id, ok := sel.X.(*ast.Ident); ok {
				if id.Name == "hex" && sel.Sel.Name == "EncodeToString" {
					return hcls{"hex", ""}
				}
				if id.Name == "fmt" && sel.Sel.Name == "Sprintf" && len(e.Args) >= 1 {
					if bl, ok := e.Args[0].(*ast.BasicLit); !ok || bl.Kind != token.STRING {
						break
					}
					for _, a := range e.Args[1:] {
						c, ok := a.(*ast.CallExpr)
						if !ok || len(c.Args) != 1 {
							return hcls{"raw", "stringer " + tn}
						}
						id, ok := c.Fun.(*ast.Ident)
						if !ok || !(strings.HasPrefix(id.Name, "int") || strings.HasPrefix(id.Name, "uint")) {
							return hcls{"raw", "stringer " + tn}
						}
					}
					return hcls{"number", ""}
				}
			}
		}
	}
	return hcls{"raw", "stringer " + tn}
}

func httpHasStringMethod(t types.Type) bool {
	ms := types.NewMethodSet(t)
	for i := 0; i < ms.Len(); i++ {
		if ms.At(i).Obj().Name() == "String" {
			return true
		}
	}
	return false
}

// typeClass classifies by static type alone; ok=false means "a string (or unknown): look
// at the syntax".
func (x *hx) typeClass(t types.Type, e ast.Expr) (hcls, bool) {
	if t == nil {
		return hcls{"raw", src(e)}, true
	}
	ts := t.String()
	switch ts {
	case httpModPrefix + "hash.Hash":
		if n, ok := t.(*types.Named); ok {
			return x.stringerClass(n), true
		}
	case "net/netip.AddrPort", "net/netip.Addr", "net.IP":
		return hcls{"addr", ""}, true
	case "time.Duration":
		return hcls{"number", ""}, true
	}
	if n, ok := t.(*types.Named); ok && httpHasStringMethod(t) {
		if n.Obj().Pkg() != nil && strings.HasPrefix(n.Obj().Pkg().Path(), httpModPrefix) {
			return x.stringerClass(n), true
		}
		return hcls{"raw", src(e)}, true
	}
	if b, ok := t.Underlying().(*types.Basic); ok {
		switch {
		case b.Info()&types.IsNumeric != 0:
			return hcls{"number", ""}, true
		case b.Info()&types.IsBoolean != 0:
			return hcls{"const", ""}, true
		case b.Info()&types.IsString != 0:
			return hcls{}, false
		}
	}
	return hcls{"raw", src(e)}, true
}

func httpIsPkgCall(e ast.Expr, pkg, name string) (*ast.CallExpr, bool) {
	c, ok := e.(*ast.CallExpr)
	if !ok {
		return nil, false
	}
	sel, ok := c.Fun.(*ast.SelectorExpr)
	if !ok || sel.Sel.Name != name {
		return nil, false
	}
	id, ok := sel.X.(*ast.Ident)
	if !ok || id.Name != pkg {
		return nil, false
	}
	return c, true
}

// classOf: class of the text an expression contributes to a format verb.
func (x *hx) classOf(e ast.Expr, fn *ast.FuncDecl) hcls {
	for {
		p, ok := e.(*ast.ParenExpr)
		if !ok {
			break
		}
		e = p.X
	}
	if _, ok := httpIsPkgCall(e, "html", "EscapeString"); ok {
		return hcls{"escaped", ""}
	}
	if c, ok := e.(*ast.CallExpr); ok {
		if id, ok := c.Fun.(*ast.Ident); ok && id.Name == "pathUrl" {
			return hcls{"pathescaped", ""}
		}
	}
	if bl, ok := e.(*ast.BasicLit); ok {
		if bl.Kind == token.STRING || bl.Kind == token.CHAR {
			return hcls{"const", ""}
		}
		return hcls{"number", ""}
	}
	// a field of the request itself
	if sel, ok := e.(*ast.SelectorExpr); ok {
		if t := x.info.TypeOf(sel.X); t != nil && t.String() == "*net/http.Request" {
			if tt := x.info.TypeOf(e); tt != nil {
				if b, ok := tt.Underlying().(*types.Basic); ok && b.Info()&types.IsString != 0 {
					return hcls{"request", src(e)}
				}
			}
		}
	}
	if c, ok := x.typeClass(x.info.TypeOf(e), e); ok {
		return c
	}
	// string-typed: syntactic origin
	switch e := e.(type) {
	case *ast.Ident:
		return x.identClass(e, fn)
	case *ast.BinaryExpr:
		if e.Op == token.ADD {
			return hjoin(x.classOf(e.X, fn), x.classOf(e.Y, fn))
		}
	case *ast.CallExpr:
		if c, ok := httpIsPkgCall(e, "fmt", "Sprintf"); ok && len(c.Args) >= 1 {
			if _, ok := c.Args[0].(*ast.BasicLit); ok {
				res := hcls{"const", ""}
				for _, a := range c.Args[1:] {
					res = hjoin(res, x.classOf(a, fn))
				}
				return res
			}
		}
		// string(<expr>) conversion
		if id, ok := e.Fun.(*ast.Ident); ok && id.Name == "string" && len(e.Args) == 1 {
			return x.bytesClass(e.Args[0], fn)
		}
		// a function of this package all of whose returns are classified
		if id, ok := e.Fun.(*ast.Ident); ok {
			if fd := x.funcs[id.Name]; fd != nil {
				return x.funcClass(fd, src(e))
			}
		}
		// X.String() / buf.String()
		if sel, ok := e.Fun.(*ast.SelectorExpr); ok && sel.Sel.Name == "String" && len(e.Args) == 0 {
			rt := x.info.TypeOf(sel.X)
			if rt != nil && rt.String() == "*bytes.Buffer" {
				return x.bufferClass(sel.X, fn)
			}
			if c, ok := x.typeClass(rt, e); ok && rt != nil {
				if b, isb := rt.Underlying().(*types.Basic); !(isb && b.Info()&types.IsNumeric != 0 && !httpHasStringMethod(rt)) {
					return c
				}
			}
		}
	}
	return hcls{"raw", src(e)}
}

// bytesClass: class of a []byte expression converted with string(…): slices of a local
// bytes.Buffer's Bytes().
func (x *hx) bytesClass(e ast.Expr, fn *ast.FuncDecl) hcls {
	switch e := e.(type) {
	case *ast.ParenExpr:
		return x.bytesClass(e.X, fn)
	case *ast.SliceExpr:
		return x.bytesClass(e.X, fn)
	case *ast.Ident:
		return x.identClass(e, fn)
	case *ast.CallExpr:
		if sel, ok := e.Fun.(*ast.SelectorExpr); ok && sel.Sel.Name == "Bytes" && len(e.Args) == 0 {
			if rt := x.info.TypeOf(sel.X); rt != nil && rt.String() == "*bytes.Buffer" {
				return x.bufferClass(sel.X, fn)
			}
		}
	}
	return hcls{"raw", src(e)}
}

// bufferClass: a local `buf := new(bytes.Buffer)` only ever used as the destination of
// fmt.Fprintf(buf, …) and through buf.Len/Bytes/String: the join of what is printed into it.
func (x *hx) bufferClass(b ast.Expr, fn *ast.FuncDecl) hcls {
	id, ok := b.(*ast.Ident)
	if !ok || fn == nil {
		return hcls{"raw", src(b)}
	}
	obj := x.info.ObjectOf(id)
	if obj == nil {
		return hcls{"raw", src(b)}
	}
	res := hcls{"const", ""}
	bad := false
	stack := []ast.Node{}
	ast.Inspect(fn.Body, func(n ast.Node) bool {
		if n == nil {
			stack = stack[:len(stack)-1]
			return true
		}
		stack = append(stack, n)
		u, ok := n.(*ast.Ident)
		if !ok || x.info.ObjectOf(u) != obj {
			return true
		}
		// how is it used?  look at the ancestors
		var par, gpar ast.Node
		if len(stack) >= 2 {
			par = stack[len(stack)-2]
		}
		if len(stack) >= 3 {
			gpar = stack[len(stack)-3]
		}
		switch p := par.(type) {
		case *ast.AssignStmt: // buf := new(bytes.Buffer)
			if len(p.Lhs) == 1 && p.Lhs[0] == n && len(p.Rhs) == 1 {
				if c, ok := p.Rhs[0].(*ast.CallExpr); ok {
					if f, ok := c.Fun.(*ast.Ident); ok && f.Name == "new" {
						return true
					}
				}
			}
			bad = true
		case *ast.SelectorExpr: // buf.Len() / buf.Bytes() / buf.String()
			if c, ok := gpar.(*ast.CallExpr); ok && c.Fun == par {
				switch p.Sel.Name {
				case "Len", "Bytes", "String":
					return true
				}
			}
			bad = true
		case *ast.CallExpr: // fmt.Fprintf(buf, lit, args…)
			if c, ok := httpIsPkgCall(p, "fmt", "Fprintf"); ok && len(c.Args) >= 2 && c.Args[0] == n {
				for _, a := range c.Args[2:] {
					res = hjoin(res, x.classOf(a, fn))
				}
				if _, ok := c.Args[1].(*ast.BasicLit); !ok {
					bad = true
				}
				return true
			}
			bad = true
		default:
			bad = true
		}
		return true
	})
	if bad {
		return hcls{"raw", src(b)}
	}
	return res
}

// funcClass: join of the classes of all return values of a package-level function
// returning a single string.
func (x *hx) funcClass(fd *ast.FuncDecl, call string) hcls {
	key := "func:" + fd.Name.Name
	if x.busy[key] || fd.Body == nil || fd.Type.Results == nil || len(fd.Type.Results.List) != 1 {
		return hcls{"raw", call}
	}
	x.busy[key] = true
	defer delete(x.busy, key)
	res := hcls{"const", ""}
	seen := false
	ast.Inspect(fd.Body, func(n ast.Node) bool {
		if _, ok := n.(*ast.FuncLit); ok {
			return false
		}
		rs, ok := n.(*ast.ReturnStmt)
		if !ok {
			return true
		}
		seen = true
		if len(rs.Results) != 1 {
			res = hcls{"raw", call}
			return false
		}
		c := x.classOf(rs.Results[0], fd)
		if c.kind == "raw" {
			c.expr = call
		}
		res = hjoin(res, c)
		return false
	})
	if !seen {
		return hcls{"raw", call}
	}
	return res
}

// identClass: a string variable is the join of everything assigned to it in the
// enclosing function; parameters and anything else are raw.
func (x *hx) identClass(id *ast.Ident, fn *ast.FuncDecl) hcls {
	obj := x.info.ObjectOf(id)
	raw := hcls{"raw", id.Name}
	if obj == nil || fn == nil || fn.Body == nil {
		return raw
	}
	if _, ok := obj.(*types.Const); ok {
		return hcls{"const", ""}
	}
	v, ok := obj.(*types.Var)
	if !ok || v.IsField() {
		return raw
	}
	// must be declared inside the body (not a parameter, not a package variable)
	if !(fn.Body.Pos() <= obj.Pos() && obj.Pos() < fn.Body.End()) {
		return raw
	}
	key := fmt.Sprintf("var:%s:%d", id.Name, obj.Pos())
	if x.busy[key] {
		return hcls{"const", ""} // self reference (name = name + …): the other operands decide
	}
	x.busy[key] = true
	defer delete(x.busy, key)
	res := hcls{"const", ""}
	found := false
	bad := false
	ast.Inspect(fn.Body, func(n ast.Node) bool {
		switch s := n.(type) {
		case *ast.AssignStmt:
			for i, l := range s.Lhs {
				li, ok := l.(*ast.Ident)
				if !ok || x.info.ObjectOf(li) != obj {
					continue
				}
				found = true
				if len(s.Rhs) != len(s.Lhs) {
					bad = true // multi-value call
					continue
				}
				switch s.Tok {
				case token.ASSIGN, token.DEFINE, token.ADD_ASSIGN:
					var c hcls
					if t := x.info.TypeOf(s.Rhs[i]); t != nil && t.String() == "[]byte" {
						c = x.bytesClass(s.Rhs[i], fn)
					} else {
						c = x.classOf(s.Rhs[i], fn)
					}
					res = hjoin(res, c)
				default:
					bad = true
				}
			}
		case *ast.ValueSpec:
			for i, nm := range s.Names {
				if x.info.ObjectOf(nm) != obj {
					continue
				}
				found = true
				if len(s.Values) == 0 {
					continue // zero value ""
				}
				if len(s.Values) != len(s.Names) {
					bad = true
					continue
				}
				res = hjoin(res, x.classOf(s.Values[i], fn))
			}
		case *ast.RangeStmt:
			for _, l := range []ast.Expr{s.Key, s.Value} {
				if li, ok := l.(*ast.Ident); ok && x.info.ObjectOf(li) == obj {
					found, bad = true, true
				}
			}
		case *ast.UnaryExpr:
			if s.Op == token.AND {
				if li, ok := s.X.(*ast.Ident); ok && x.info.ObjectOf(li) == obj {
					bad = true // address taken
				}
			}
		}
		return true
	})
	if !found || bad {
		return raw
	}
	if res.kind == "raw" {
		res.expr = id.Name + " <- " + res.expr
	}
	return res
}

// verbs counts the argument-consuming verbs of a format string ("%%" consumes none;
// '*' width/precision is reported as not understood).
func httpFmtVerbs(f string) (n int, ok bool) {
	for i := 0; i < len(f); i++ {
		if f[i] != '%' {
			continue
		}
		i++
		for i < len(f) && strings.IndexByte("+-# 0123456789.", f[i]) >= 0 {
			i++
		}
		if i >= len(f) {
			return n, false
		}
		switch f[i] {
		case '%':
		case '*', '[':
			return n, false
		default:
			n++
		}
	}
	return n, true
}

func genHttpSites() {
	// the source importer shells out to `go list`; keep it offline and read-only
	os.Setenv("GOPROXY", "off")
	os.Setenv("GOFLAGS", "-mod=readonly")
	os.Setenv("GOTOOLCHAIN", "local")
	// `go list` must resolve imports in the module under study, not in the harness module
	if abs, err := filepath.Abs(*repo); err == nil {
		*repo = abs
	}
	if abs, err := filepath.Abs(*outDir); err == nil {
		*outDir = abs
	}
	if cwd, err := os.Getwd(); err == nil {
		defer os.Chdir(cwd)
	}
	os.Chdir(*repo)
	dir := filepath.Join(*repo, "http")
	ents, err := os.ReadDir(dir)
	if err != nil {
		fmt.Fprintf(os.Stderr, "extract: %v\n", err)
		os.Exit(2)
	}
	var files []*ast.File
	for _, e := range ents {
		n := e.Name()
		if !strings.HasSuffix(n, ".go") || strings.HasSuffix(n, "_test.go") || strings.HasPrefix(n, "verif_") {
			continue
		}
		files = append(files, parse(filepath.Join("http", n)))
	}
	info := &types.Info{
		Types: map[ast.Expr]types.TypeAndValue{},
		Defs:  map[*ast.Ident]types.Object{},
		Uses:  map[*ast.Ident]types.Object{},
	}
	var terrs []string
	conf := types.Config{
		Importer: importer.ForCompiler(fset, "source", nil),
		Error:    func(err error) { terrs = append(terrs, err.Error()) },
	}
	httpPkg, _ := conf.Check(httpModPrefix+"http", fset, files, info) // partial information on error: unknown => raw
	muxFacts := httpMuxFacts(files, httpPkg, &conf)
	x := &hx{info: info, files: files, funcs: map[string]*ast.FuncDecl{}, busy: map[string]bool{},
		pkgASTs: map[string][]*ast.File{}}
	for _, f := range files {
		for _, d := range f.Decls {
			if fd, ok := d.(*ast.FuncDecl); ok && fd.Recv == nil {
				x.funcs[fd.Name.Name] = fd
			}
		}
	}

	var b strings.Builder
	b.WriteString("import Storrent.Model.HttpTable\n")
	b.WriteString("-- GENERATED by harness/cmd/extract (httpsites.go) from http/*.go; do not edit\n")
	b.WriteString("namespace Storrent.Gen\nopen Storrent.Http\n")
	if len(terrs) > 0 {
		b.WriteString("-- type-check errors (affected arguments are raw):\n")
		for i, e := range terrs {
			if i >= 5 {
				break
			}
			b.WriteString("--   " + strings.ReplaceAll(e, "\n", " ") + "\n")
		}
	}

	// (i) routes
	guarded := func(name string) bool {
		fd := x.funcs[name]
		if fd == nil || fd.Body == nil || len(fd.Body.List) == 0 || fd.Type.Params == nil {
			return false
		}
		var pn []string
		for _, p := range fd.Type.Params.List {
			for _, n := range p.Names {
				pn = append(pn, n.Name)
			}
		}
		if len(pn) != 2 {
			return false
		}
		ifs, ok := fd.Body.List[0].(*ast.IfStmt)
		if !ok || ifs.Init != nil || ifs.Else != nil {
			return false
		}
		un, ok := ifs.Cond.(*ast.UnaryExpr)
		if !ok || un.Op != token.NOT {
			return false
		}
		c, ok := un.X.(*ast.CallExpr)
		if !ok || len(c.Args) != 2 {
			return false
		}
		if id, ok := c.Fun.(*ast.Ident); !ok || id.Name != "checkLocal" {
			return false
		}
		for i, a := range c.Args {
			if id, ok := a.(*ast.Ident); !ok || id.Name != pn[i] {
				return false
			}
		}
		if len(ifs.Body.List) != 1 {
			return false
		}
		rs, ok := ifs.Body.List[0].(*ast.ReturnStmt)
		return ok && len(rs.Results) == 0
	}
	type route struct {
		where, pat, h string
		g             bool
	}
	var routes []route
	for _, f := range files {
		for _, d := range f.Decls {
			fd, ok := d.(*ast.FuncDecl)
			if !ok || fd.Body == nil {
				continue
			}
			ast.Inspect(fd.Body, func(n ast.Node) bool {
				c, ok := n.(*ast.CallExpr)
				if !ok {
					return true
				}
				sel, ok := c.Fun.(*ast.SelectorExpr)
				if !ok || (sel.Sel.Name != "HandleFunc" && sel.Sel.Name != "Handle") {
					return true
				}
				r := route{where: fd.Name.Name, pat: "?", h: "?"}
				if len(c.Args) == 2 {
					if bl, ok := c.Args[0].(*ast.BasicLit); ok && bl.Kind == token.STRING {
						if s, err := strconv.Unquote(bl.Value); err == nil {
							r.pat = s
						}
					}
					if id, ok := c.Args[1].(*ast.Ident); ok && sel.Sel.Name == "HandleFunc" {
						r.h = id.Name
						r.g = guarded(id.Name)
					} else {
						r.h = "?" + src(c.Args[1])
					}
				}
				// the registration must be on the default mux from Serve
				if id, ok := sel.X.(*ast.Ident); !ok || id.Name != "http" || fd.Name.Name != "Serve" {
					r.g = false
					r.h = "?" + r.h
				}
				routes = append(routes, r)
				return true
			})
		}
	}
	b.WriteString(muxFacts)
	b.WriteString(httpCheckLocalReads(x))
	b.WriteString("def httpRoutes : List Route := [")
	for i, r := range routes {
		if i > 0 {
			b.WriteString(",")
		}
		fmt.Fprintf(&b, "\n  ⟨%s, %s, %v⟩", leanStr(r.pat), leanStr(r.h), r.g)
	}
	b.WriteString(" ]\n")

	// (ii) output sites
	type site struct {
		loc, fn, kind, format string
		args                  []hcls
		ctxs                  []string
		line                  int
	}
	// HTML tokenizer state per (function, destination), carried from one output site to
	// the next in source order: a function starts in element-text context
	states := map[string]*httpCtxState{}
	var sites []site
	for _, f := range files {
		for _, d := range f.Decls {
			fd, ok := d.(*ast.FuncDecl)
			if !ok || fd.Body == nil {
				continue
			}
			ast.Inspect(fd.Body, func(n ast.Node) bool {
				c, ok := n.(*ast.CallExpr)
				if !ok {
					return true
				}
				var kind string
				var fmtArg ast.Expr
				var rest []ast.Expr
				dst := "?"
				if len(c.Args) > 0 {
					dst = src(c.Args[0])
				}
				if cc, ok := httpIsPkgCall(c, "fmt", "Fprintf"); ok && len(cc.Args) >= 2 {
					kind = ".fprintf"
					if t := x.info.TypeOf(cc.Args[0]); t != nil && t.String() == "*bytes.Buffer" {
						kind = ".bufprintf"
					}
					fmtArg, rest = cc.Args[1], cc.Args[2:]
				} else if cc, ok := httpIsPkgCall(c, "fmt", "Fprint"); ok && len(cc.Args) >= 1 {
					kind, rest = ".fprintf", cc.Args[1:]
				} else if cc, ok := httpIsPkgCall(c, "fmt", "Fprintln"); ok && len(cc.Args) >= 1 {
					kind, rest = ".fprintf", cc.Args[1:]
				} else if cc, ok := httpIsPkgCall(c, "fmt", "Sprintf"); ok && len(cc.Args) >= 1 {
					kind = ".sprintf"
					fmtArg, rest = cc.Args[0], cc.Args[1:]
				} else if cc, ok := httpIsPkgCall(c, "http", "Error"); ok && len(cc.Args) == 3 {
					kind, rest = ".httpError", cc.Args[1:2]
				} else if cc, ok := httpIsPkgCall(c, "io", "WriteString"); ok && len(cc.Args) == 2 {
					kind, rest = ".fprintf", cc.Args[1:]
				} else if sel, ok := c.Fun.(*ast.SelectorExpr); ok && (sel.Sel.Name == "Write" || sel.Sel.Name == "WriteString") {
					// w.Write(…) on a ResponseWriter / io.Writer
					if t := x.info.TypeOf(sel.X); t != nil && (t.String() == "net/http.ResponseWriter" || t.String() == "io.Writer") {
						kind, rest = ".fprintf", c.Args
						dst = src(sel.X)
					} else {
						return true
					}
				} else {
					return true
				}
				s := site{loc: pos(c), fn: fd.Name.Name, kind: kind, line: fset.Position(c.Pos()).Line}
				if fmtArg != nil {
					fs, okf := httpConstString(fmtArg)
					if !okf {
						s.format = "?"
						s.args = append(s.args, hcls{"raw", "format " + src(fmtArg)})
					} else {
						s.format = fs
						if nv, okv := httpFmtVerbs(fs); !okv || nv != len(rest) {
							s.args = append(s.args, hcls{"raw", "verb/argument mismatch"})
						}
					}
				}
				for _, a := range rest {
					var cl hcls
					if t := x.info.TypeOf(a); t != nil && t.String() == "[]byte" {
						cl = x.bytesClass(a, fd)
					} else {
						cl = x.classOf(a, fd)
					}
					s.args = append(s.args, cl)
				}
				if kind == ".fprintf" || kind == ".bufprintf" {
					key := fd.Name.Name + "\x00" + dst
					st := states[key]
					if st == nil {
						st = &httpCtxState{}
						states[key] = st
					}
					if fmtArg != nil && s.format != "?" {
						s.ctxs = st.scan(s.format)
					} else {
						// no (constant) format string: the arguments are written as they are in
						// the current context, and what follows is in an unknown context
						for range rest {
							s.ctxs = append(s.ctxs, st.ctx())
						}
						st.unknown = true
					}
					// one context per argument (a verb/argument mismatch is a raw row already)
					for len(s.ctxs) < len(s.args) {
						s.ctxs = append(s.ctxs, ".unknown")
					}
					s.ctxs = s.ctxs[:len(s.args)]
				}
				sites = append(sites, s)
				return true
			})
		}
	}
	sort.SliceStable(sites, func(i, j int) bool { return sites[i].line < sites[j].line })
	b.WriteString("def httpSites : List Site := [")
	for i, s := range sites {
		if i > 0 {
			b.WriteString(",")
		}
		var as []string
		for _, a := range s.args {
			as = append(as, a.lean())
		}
		fmt.Fprintf(&b, "\n  ⟨%s, %s, %s, %s, [%s], [%s]⟩", leanStr(s.loc), leanStr(s.fn), s.kind, leanStr(s.format), strings.Join(as, ", "), strings.Join(s.ctxs, ", "))
	}
	b.WriteString(" ]\nend Storrent.Gen\n")
	writeIfChanged("HttpSites.lean", b.String())
}

// httpConstString evaluates a string literal or a `+` concatenation of string literals.
func httpConstString(e ast.Expr) (string, bool) {
	switch e := e.(type) {
	case *ast.BasicLit:
		if e.Kind == token.STRING {
			s, err := strconv.Unquote(e.Value)
			return s, err == nil
		}
	case *ast.ParenExpr:
		return httpConstString(e.X)
	case *ast.BinaryExpr:
		if e.Op == token.ADD {
			a, ok1 := httpConstString(e.X)
			b, ok2 := httpConstString(e.Y)
			return a + b, ok1 && ok2
		}
	}
	return "", false
}

// httpCtxState is a small HTML tokenizer state machine run over the constant format strings:
// it tells in which quoting context each formatting verb sits.
type httpCtxState struct {
	mode    int    // one of the hm* constants
	tag     string // name of the tag being read / last opened
	closing bool   // the tag being read is an end tag
	unknown bool
}

const (
	hmText = iota
	hmTagName
	hmInTag
	hmAttrName
	hmAfterEq
	hmAttrDq
	hmAttrSq
	hmAttrUnq
	hmScript
	hmStyle
	hmComment
)

func (st *httpCtxState) ctx() string {
	if st.unknown {
		return ".unknown"
	}
	switch st.mode {
	case hmText:
		return ".text"
	case hmTagName, hmInTag, hmAttrName:
		return ".tag"
	case hmAfterEq, hmAttrUnq:
		return ".attrUnq"
	case hmAttrDq:
		return ".attrDq"
	case hmAttrSq:
		return ".attrSq"
	case hmScript:
		return ".script"
	case hmStyle:
		return ".style"
	case hmComment:
		return ".comment"
	}
	return ".unknown"
}

func (st *httpCtxState) endTag() {
	switch {
	case !st.closing && st.tag == "script":
		st.mode = hmScript
	case !st.closing && st.tag == "style":
		st.mode = hmStyle
	default:
		st.mode = hmText
	}
}

func httpIsLetter(c byte) bool { return c >= 'a' && c <= 'z' || c >= 'A' && c <= 'Z' }

// step consumes one literal byte (rest = the bytes after it, for look-ahead)
func (st *httpCtxState) step(c byte, rest string) {
	switch st.mode {
	case hmText:
		if c == '<' {
			switch {
			case strings.HasPrefix(rest, "!--"):
				st.mode = hmComment
			case len(rest) > 0 && (httpIsLetter(rest[0]) || rest[0] == '/' || rest[0] == '!' || rest[0] == '?'):
				st.mode, st.tag, st.closing = hmTagName, "", false
			}
		}
	case hmTagName:
		switch {
		case c == '/' && st.tag == "":
			st.closing = true
		case c == '>':
			st.endTag()
		case c == ' ' || c == '\n' || c == '\t' || c == '/':
			st.mode = hmInTag
		default:
			st.tag += strings.ToLower(string(c))
		}
	case hmInTag, hmAttrName:
		switch {
		case c == '>':
			st.endTag()
		case c == '=':
			st.mode = hmAfterEq
		case c == ' ' || c == '\n' || c == '\t' || c == '/':
			st.mode = hmInTag
		default:
			st.mode = hmAttrName
		}
	case hmAfterEq:
		switch {
		case c == '"':
			st.mode = hmAttrDq
		case c == '\'':
			st.mode = hmAttrSq
		case c == '>':
			st.endTag()
		case c == ' ' || c == '\n' || c == '\t':
		default:
			st.mode = hmAttrUnq
		}
	case hmAttrDq:
		if c == '"' {
			st.mode = hmInTag
		}
	case hmAttrSq:
		if c == '\'' {
			st.mode = hmInTag
		}
	case hmAttrUnq:
		if c == '>' {
			st.endTag()
		} else if c == ' ' || c == '\n' || c == '\t' {
			st.mode = hmInTag
		}
	case hmScript, hmStyle:
		name := "script"
		if st.mode == hmStyle {
			name = "style"
		}
		if c == '<' && len(rest) > len(name) && rest[0] == '/' && strings.EqualFold(rest[1:1+len(name)], name) {
			st.mode, st.tag, st.closing = hmTagName, "", false
		}
	case hmComment:
		if c == '-' && strings.HasPrefix(rest, "->") {
			st.mode = hmText // the remaining "->" is harmless text
		}
	}
}

// scan runs the machine over a format string and returns the context of each
// argument-consuming verb.
func (st *httpCtxState) scan(f string) []string {
	var out []string
	for i := 0; i < len(f); i++ {
		if f[i] != '%' {
			st.step(f[i], f[i+1:])
			continue
		}
		j := i + 1
		for j < len(f) && strings.IndexByte("+-# 0123456789.", f[j]) >= 0 {
			j++
		}
		if j >= len(f) {
			break
		}
		if f[j] == '%' {
			st.step('%', f[j+1:])
		} else {
			out = append(out, st.ctx())
			// the printed value behaves like an ordinary character of the context
			st.step('x', f[j+1:])
		}
		i = j
	}
	return out
}

// httpMuxFacts: which mux does Serve dispatch through, and who else registers handlers on
// it.  The server created by Serve has no Handler, i.e. it serves http.DefaultServeMux, a
// process-global: every package linked into the binary can add routes to it from an init
// function (net/http/pprof, expvar, golang.org/x/net/trace do), and those routes never call
// checkLocal.  Facts emitted:
//
//	httpImports          the import specs of package http (path, name: "" | "_" | "." | alias)
//	httpServeMux         "default" when Serve registers with http.HandleFunc and its
//	                     http.Server literal has no Handler; otherwise what it uses
//	httpClosureSize      number of packages in the transitive import closure of package http
//	                     and of the main package (0 = could not be computed: fail-closed)
//	httpClosureSideEffect  members of the closure known to register on the default mux
//	httpDefaultMuxUsers  every package of the closure (other than net/http and storrent's
//	                     http) whose source mentions http.Handle / http.HandleFunc /
//	                     http.DefaultServeMux — found by scanning the sources, not by name
func httpMuxFacts(files []*ast.File, pkg *types.Package, conf *types.Config) string {
	var b strings.Builder
	// direct imports
	b.WriteString("def httpImports : List Import := [")
	first := true
	for _, f := range files {
		for _, im := range f.Imports {
			pth, _ := strconv.Unquote(im.Path.Value)
			name := ""
			if im.Name != nil {
				name = im.Name.Name
			}
			if !first {
				b.WriteString(",")
			}
			first = false
			fmt.Fprintf(&b, "\n  ⟨%s, %s⟩", leanStr(pth), leanStr(name))
		}
	}
	b.WriteString(" ]\n")

	// the mux Serve uses
	mux := "unknown"
	for _, f := range files {
		fd := findFunc(f, "Serve")
		if fd == nil || fd.Body == nil {
			continue
		}
		mux = "default"
		ast.Inspect(fd.Body, func(n ast.Node) bool {
			switch n := n.(type) {
			case *ast.CompositeLit:
				if sel, ok := n.Type.(*ast.SelectorExpr); ok && sel.Sel.Name == "Server" {
					for _, el := range n.Elts {
						if kv, ok := el.(*ast.KeyValueExpr); ok {
							if id, ok := kv.Key.(*ast.Ident); ok && id.Name == "Handler" {
								mux = "handler " + src(kv.Value)
							}
						}
					}
				}
			case *ast.CallExpr:
				if sel, ok := n.Fun.(*ast.SelectorExpr); ok {
					switch sel.Sel.Name {
					case "HandleFunc", "Handle":
						if id, ok := sel.X.(*ast.Ident); !ok || id.Name != "http" {
							mux = "registers on " + src(sel.X)
						}
					case "ListenAndServe", "ListenAndServeTLS", "Serve", "ServeTLS":
						// http.Serve(l, h) / http.ListenAndServe(addr, h) with a non-nil handler
						if id, ok := sel.X.(*ast.Ident); ok && id.Name == "http" && len(n.Args) >= 2 {
							if h, ok := n.Args[len(n.Args)-1].(*ast.Ident); !ok || h.Name != "nil" {
								mux = "handler " + src(n.Args[len(n.Args)-1])
							}
						}
					}
				}
			}
			return true
		})
	}
	fmt.Fprintf(&b, "def httpServeMux : String := %s\n", leanStr(mux))

	// transitive closure of package http and of the main package
	closure := map[string]*types.Package{}
	var walk func(p *types.Package)
	walk = func(p *types.Package) {
		if p == nil || closure[p.Path()] != nil {
			return
		}
		closure[p.Path()] = p
		for _, q := range p.Imports() {
			walk(q)
		}
	}
	ok := pkg != nil
	walk(pkg)
	// the main package links everything that ends up next to the default mux
	var mainFiles []*ast.File
	ents, _ := os.ReadDir(*repo)
	for _, e := range ents {
		n := e.Name()
		if e.IsDir() || !strings.HasSuffix(n, ".go") || strings.HasSuffix(n, "_test.go") {
			continue
		}
		if f, err := parser.ParseFile(fset, filepath.Join(*repo, n), nil, 0); err == nil && f.Name.Name == "main" {
			mainFiles = append(mainFiles, f)
		}
	}
	if len(mainFiles) > 0 {
		var merrs int
		c2 := types.Config{Importer: conf.Importer, Error: func(error) { merrs++ }}
		mp, _ := c2.Check(strings.TrimSuffix(httpModPrefix, "/"), fset, mainFiles, nil)
		if mp == nil {
			ok = false
		}
		walk(mp)
	} else {
		ok = false
	}
	known := map[string]bool{"net/http/pprof": true, "expvar": true, "golang.org/x/net/trace": true}
	var side, users []string
	for pth, p := range closure {
		if known[pth] {
			side = append(side, pth)
		}
		if pth == "net/http" || pth == httpModPrefix+"http" || pth == strings.TrimSuffix(httpModPrefix, "/") {
			continue
		}
		// only packages that import net/http can touch its default mux
		usesHTTP := false
		for _, q := range p.Imports() {
			if q.Path() == "net/http" {
				usesHTTP = true
			}
		}
		if !usesHTTP {
			continue
		}
		// locate the sources through the position of any package-level object
		dir := ""
		sc := p.Scope()
		for _, nm := range sc.Names() {
			if pos := sc.Lookup(nm).Pos(); pos.IsValid() {
				dir = filepath.Dir(fset.Position(pos).Filename)
				break
			}
		}
		if dir == "" {
			users = append(users, pth+" (sources not found)")
			continue
		}
		des, _ := os.ReadDir(dir)
		for _, e := range des {
			n := e.Name()
			if !strings.HasSuffix(n, ".go") || strings.HasSuffix(n, "_test.go") {
				continue
			}
			f, err := parser.ParseFile(fset, filepath.Join(dir, n), nil, 0)
			if err != nil {
				continue
			}
			// the local name of net/http in this file
			local := ""
			for _, im := range f.Imports {
				if ip, _ := strconv.Unquote(im.Path.Value); ip == "net/http" {
					local = "http"
					if im.Name != nil {
						local = im.Name.Name
					}
				}
			}
			if local == "" || local == "_" {
				continue
			}
			hit := ""
			ast.Inspect(f, func(nd ast.Node) bool {
				sel, ok := nd.(*ast.SelectorExpr)
				if !ok || hit != "" {
					return hit == ""
				}
				id, ok := sel.X.(*ast.Ident)
				if ok && id.Name == local && (sel.Sel.Name == "Handle" || sel.Sel.Name == "HandleFunc" || sel.Sel.Name == "DefaultServeMux") {
					hit = fmt.Sprintf("%s (%s:%d %s.%s)", pth, n, fset.Position(sel.Pos()).Line, local, sel.Sel.Name)
				}
				return true
			})
			if hit != "" {
				users = append(users, hit)
				break
			}
		}
	}
	sort.Strings(side)
	sort.Strings(users)
	size := len(closure)
	if !ok {
		size = 0
	}
	fmt.Fprintf(&b, "def httpClosureSize : Nat := %d\n", size)
	q := func(l []string) string {
		var w []string
		for _, s := range l {
			w = append(w, leanStr(s))
		}
		return "[" + strings.Join(w, ", ") + "]"
	}
	fmt.Fprintf(&b, "def httpClosureSideEffect : List String := %s\n", q(side))
	fmt.Fprintf(&b, "def httpDefaultMuxUsers : List String := %s\n", q(users))
	return b.String()
}

// httpCheckLocalReads: the data dependencies of checkLocal on the request.  Every selector
// on the *http.Request parameter (r.Host, r.Header, r.URL, r.RemoteAddr, r.Form, method
// calls such as r.Cookie(…)) is listed once, in source order; handing the request itself to
// another function is listed as "r -> f(…)" (fail-closed: the callee could read anything),
// and so is any use of r that is not a selector.  Expected: ["r.Host"].
func httpCheckLocalReads(x *hx) string {
	fd := x.funcs["checkLocal"]
	var reads []string
	seen := map[string]bool{}
	add := func(s string) {
		if !seen[s] {
			seen[s] = true
			reads = append(reads, s)
		}
	}
	if fd == nil || fd.Body == nil || fd.Type.Params == nil {
		add("checkLocal not found")
	} else {
		// the parameter of type *http.Request
		var req types.Object
		for _, p := range fd.Type.Params.List {
			if t := x.info.TypeOf(p.Type); t != nil && t.String() == "*net/http.Request" {
				for _, n := range p.Names {
					req = x.info.ObjectOf(n)
				}
			}
		}
		if req == nil {
			add("no *http.Request parameter")
		} else {
			handled := map[*ast.Ident]bool{}
			ast.Inspect(fd.Body, func(n ast.Node) bool {
				switch n := n.(type) {
				case *ast.SelectorExpr:
					if id, ok := n.X.(*ast.Ident); ok && x.info.ObjectOf(id) == req {
						handled[id] = true
						add("r." + n.Sel.Name)
					}
				case *ast.CallExpr:
					for _, a := range n.Args {
						if id, ok := a.(*ast.Ident); ok && x.info.ObjectOf(id) == req {
							handled[id] = true
							add("r -> " + src(n.Fun) + "(…)")
						}
					}
				case *ast.Ident:
					if x.info.ObjectOf(n) == req && !handled[n] && x.info.Defs[n] == nil {
						add("r used as a value")
					}
				}
				return true
			})
		}
	}
	var w []string
	for _, r := range reads {
		w = append(w, leanStr(r))
	}
	return "def checkLocalReads : List String := [" + strings.Join(w, ", ") + "]\n"
}
